import PycsepVerif.Properties.C12
import PycsepVerif.Model.CatalogText

/-!
# C12, text layer — from the characters of a catalog-forecast CSV file to the catalogs

`Properties/C12` proves the decoder on parsed rows.  `Model/CatalogText` models what comes before: the csv state machine,
`float()`, `int()`, the two `strptime` formats, the header test — and `decodeText`, the loader on the characters.

* `stepFields_eq_step`, `loopFields_eq_loop`, `decodeText_eq_decode`: the loader on text IS the row-level decoder on the
  lines its records read as (`ReadsAs`), for every state — so every theorem of `Properties/C12` transfers;
* `decodeText_encode`: a text whose records read as `encode cats choices header` loads as catalogs 0..n-1 with exactly
  their own events; `decodeText_rejects_decreasing`;
* `csvFields_join`: the csv state machine splits a line of unquoted fields joined by commas back into exactly those
  fields (any number, empty ones included);
* `readRow_ok`: what a seven-field record reads as, field by field (`float()` or blank, time through the two formats,
  `int()`), `header_reads_as_header`;
* `explicit_meta_wins`, `meta_from_filename`: the name / start-time defaults taken from the file name.
-/
namespace AsciiCatalogs
open DecimalText

/-- the record `f` (fields of one csv line) is read by the loop as the line `l`: a header record passes the header test
    and is not a data row; a data record fails the header test and converts to the row -/
def ReadsAs (f : List String) : Line → Prop
  | .header => isHeaderFields f = .ok true ∧ readRow f = .error .malformed
  | .row r => isHeaderFields f = .ok false ∧ readRow f = .ok r

/-- record by record, the records read as the lines -/
inductive AllReadAs : List (List String) → List Line → Prop
  | nil : AllReadAs [] []
  | cons {f : List String} {l : Line} {fs : List (List String)} {ls : List Line} :
      ReadsAs f l → AllReadAs fs ls → AllReadAs (f :: fs) (l :: ls)

/-- one iteration on the fields = one iteration of the row-level model on the line they read as, in EVERY state (before
    the first row the header test is made; after it a header record is a malformed data row) -/
theorem stepFields_eq_step (s : St) (f : List String) (l : Line) (h : ReadsAs f l) : stepFields s f = step s l := by
  cases l with
  | header =>
    obtain ⟨h1, h2⟩ := h
    cases hp : s.prev with
    | none => simp [stepFields, step, hp, h1]
    | some p => simp [stepFields, step, hp, h2]
  | row r =>
    obtain ⟨h1, h2⟩ := h
    cases hp : s.prev with
    | none => simp [stepFields, hp, h1, h2]
    | some p => simp [stepFields, hp, h2]

theorem loopFields_eq_loop (recs : List (List String)) (lines : List Line) (h : AllReadAs recs lines) :
    ∀ s, loopFields s recs = loop s lines := by
  induction h with
  | nil => intro s; rfl
  | cons hfl _ ih =>
    intro s
    simp only [loopFields, loop, stepFields_eq_step s _ _ hfl]
    cases step s _ with
    | error e => rfl
    | ok p => simp only [ih p.1]

/-- **the loader on the characters is the row-level decoder on what the records read as** -/
theorem decodeText_eq_decode (text : String) (recs : List (List String)) (lines : List Line)
    (hr : csvRecords text = some recs) (h : AllReadAs recs lines) : decodeText text = decode lines := by
  unfold decodeText decode
  rw [hr]
  exact loopFields_eq_loop recs lines h _

/-- **the property, from the characters**: a text whose records read as the encoding of catalogs 0..n-1 (any
    placeholder / omitted choice, header or not) loads as exactly those catalogs, ids 0..n-1, own events in file order -/
theorem decodeText_encode (text : String) (recs : List (List String)) (cats : List (List Event)) (hne : cats ≠ [])
    (choices : List Bool) (header : Bool) (hr : csvRecords text = some recs)
    (h : AllReadAs recs (encode cats choices header)) : decodeText text = .ok (number cats) := by
  rw [decodeText_eq_decode text recs _ hr h]
  exact decode_encode cats hne choices header

/-- a text in which a record's catalog id is below its predecessor's is rejected -/
theorem decodeText_rejects_decreasing (text : String) (recs : List (List String)) (pre post : List Line) (a b : Row)
    (hlt : b.catId < a.catId) (hr : csvRecords text = some recs)
    (h : AllReadAs recs (pre ++ .row a :: .row b :: post)) : ∃ e, decodeText text = .error e := by
  rw [decodeText_eq_decode text recs _ hr h]
  exact decode_rejects_decreasing pre a b post hlt

/-- a field that needs no quoting: no comma, no quote character -/
def Plain (f : List Char) : Prop := ∀ c ∈ f, c ≠ ',' ∧ c ≠ '"'

/-- the fields of a record joined by commas -/
def joinComma : List (List Char) → List Char
  | [] => []
  | [f] => f
  | f :: g :: fs => f ++ ',' :: joinComma (g :: fs)

theorem csvAux_inField_plain (f : List Char) (hf : Plain f) (rest cur : List Char) (acc : List String) :
    csvAux .inField (f ++ rest) cur acc = csvAux .inField rest (f.reverse ++ cur) acc := by
  induction f generalizing cur with
  | nil => rfl
  | cons c cs ih =>
    have hc := hf c (by simp)
    have := ih (fun x hx => hf x (by simp [hx])) (c :: cur)
    simp only [List.cons_append, csvAux, hc.1, if_false, List.reverse_cons, List.append_assoc] at this ⊢
    exact this

theorem csvAux_startField_plain (f : List Char) (hf : Plain f) (rest : List Char) (acc : List String)
    (hrest : rest = [] ∨ ∃ r, rest = ',' :: r) :
    csvAux .startField (f ++ rest) [] acc =
      match rest with
      | [] => some ((String.ofList f :: acc).reverse)
      | _ :: r => csvAux .startField r [] (String.ofList f :: acc) := by
  cases f with
  | nil =>
    rcases hrest with h | ⟨r, h⟩ <;> subst h
    · rfl
    · simp [csvAux]
  | cons c cs =>
    have hc := hf c (by simp)
    have hcs : Plain cs := fun x hx => hf x (by simp [hx])
    simp only [List.cons_append, csvAux, hc.2, hc.1, if_false]
    rw [csvAux_inField_plain cs hcs]
    rcases hrest with h | ⟨r, h⟩ <;> subst h
    · simp [csvAux]
    · simp [csvAux]

/-- **plain records split back into their fields**: the csv state machine returns exactly the fields of a line made of
    unquoted fields joined by commas (any number of fields, empty fields included) -/
theorem csvAux_join (fs : List (List Char)) (hne : fs ≠ []) (hp : ∀ f ∈ fs, Plain f) (acc : List String) :
    csvAux .startField (joinComma fs) [] acc = some (acc.reverse ++ fs.map String.ofList) := by
  induction fs generalizing acc with
  | nil => exact absurd rfl hne
  | cons f fs ih =>
    cases fs with
    | nil =>
      have := csvAux_startField_plain f (hp f (by simp)) [] acc (Or.inl rfl)
      simp only [List.append_nil] at this
      simp [joinComma, this]
    | cons g gs =>
      have := csvAux_startField_plain f (hp f (by simp)) (',' :: joinComma (g :: gs)) acc (Or.inr ⟨_, rfl⟩)
      simp only [joinComma]
      rw [this]
      simp only []
      rw [ih (by simp) (fun x hx => hp x (by simp [hx]))]
      simp

theorem csvFields_join (fs : List (List Char)) (hne : joinComma fs ≠ []) (hp : ∀ f ∈ fs, Plain f) :
    csvFields (joinComma fs) = some (fs.map String.ofList) := by
  have hfs : fs ≠ [] := by intro h; subst h; exact hne rfl
  unfold csvFields
  have : (joinComma fs).isEmpty = false := by cases h : joinComma fs with | nil => exact absurd h hne | cons _ _ => rfl
  rw [this]
  simpa using csvAux_join fs hfs hp []


/-- … so for a file of plain records the csv hypothesis of `decodeText_encode` is discharged: a one-line text made of
    unquoted fields has exactly that record -/
example : csvFields (joinComma ["1.5".toList, "".toList, "x y".toList, "".toList]) = some ["1.5", "", "x y", ""] :=
  csvFields_join _ (by decide) (by intro f hf; simp at hf; rcases hf with rfl | rfl | rfl | rfl <;> (intro c hc; revert c; decide))

/-- what a record of (at least) seven fields converts to: `float()` or blank for the four numbers, the time through the
    two formats (blank stays blank), `int()` for the catalog id, the event id as it stands -/
theorem readRow_ok (lon lat mag t dep cid eid : String) (rest : List String) (tm : Option Int) (c : Int)
    (ht : (t = "" ∧ tm = none) ∨ (t ≠ "" ∧ ∃ ms, parseTime t.toList = some ms ∧ tm = some ms))
    (hc : pyInt cid = some c) :
    readRow (lon :: lat :: mag :: t :: dep :: cid :: eid :: rest)
      = .ok ⟨⟨eid, tm, readFloat lat, readFloat lon, readFloat dep, readFloat mag⟩, c⟩ := by
  unfold readRow
  rcases ht with ⟨h1, h2⟩ | ⟨h1, ms, h2, h3⟩
  · simp [h1, h2, hc]
  · simp [h1, h2, h3, hc]

/-- an unreadable time or catalog id makes the record malformed (the `ValueError` escapes the loader) -/
theorem readRow_bad_id (lon lat mag t dep cid eid : String) (rest : List String) (hc : pyInt cid = none) :
    readRow (lon :: lat :: mag :: t :: dep :: cid :: eid :: rest) = .error .malformed := by
  unfold readRow
  simp only [hc]
  split <;> simp_all

/-- the header line of the format reads as a header: it passes the test and, as a data row, `int('catalog_id')` fails -/
theorem header_reads_as_header :
    ReadsAs ["lon", "lat", "mag", "time_string", "depth", "catalog_id", "event_id"] .header := by
  constructor
  · show Except.ok (("lon" : String).toLower == "lon") = Except.ok true
    have : (("lon" : String).toLower == "lon") = true := by decide +kernel
    rw [this]
  · exact readRow_bad_id _ _ _ _ _ _ _ _ (by decide +kernel)

/-- explicit `name=` / `start_time=` keywords win over what the file name says (`kwargs.setdefault`) -/
theorem explicit_meta_wins (path n : String) (us : Int) : forecastMeta path (some n) (some us) = (some n, some us) := by
  unfold forecastMeta
  cases parseFilename path with
  | none => rfl
  | some p => rfl

/-- without keywords the defaults are exactly what `parse_filename` reads from the file name, and nothing otherwise -/
theorem meta_from_filename (path : String) :
    forecastMeta path none none = match parseFilename path with
      | some (n, us) => (some n, some us)
      | none => (none, none) := by
  unfold forecastMeta
  cases parseFilename path with
  | none => rfl
  | some p => rfl

/-! ## non-vacuity: a concrete file, as text -/

/-- header; catalog 0 omitted; catalog 1 with two events (exponent spelling, unpadded time, an event id that needs csv
    quoting); catalog 2 as a placeholder row; catalog 3 with one event whose time has no fractional seconds -/
def exCsv : String :=
  "lon,lat,mag,time_string,depth,catalog_id,event_id\n" ++
  "-1.255e2,40.5,+5.,1992-6-28T11:57:34.5,7,1,\"ci1,us2\"\r\n" ++
  "0.5,.25,4.75,1992-06-28T11:57:35.123999,0.0,1,\n" ++
  ",,,,,2,\n" ++
  "179.5,-0.5,6.0,2020-01-01T00:00:00,1e1,3,e3"

def ev1 : Event := ⟨-251/2, 81/2, 5, 709732654500, 7, "ci1,us2"⟩
def ev2 : Event := ⟨1/2, 1/4, 19/4, 709732655123, 0, ""⟩
def ev3 : Event := ⟨359/2, -1/2, 6, 1577836800000, 10, "e3"⟩

example : decodeText exCsv = .ok (number [[], [ev1, ev2], [], [ev3]]) := by decide +kernel
example : decodeText exCsv = decode (encode [[], [ev1, ev2], [], [ev3]] [false, true, true] true) := by decide +kernel
example : csvFields "a,\"b,\"\"c\"\"\",,\"\",d\"e".toList = some ["a", "b,\"c\"", "", "", "d\"e"] := by decide +kernel
example : parseTime "1969-12-31T23:59:59.9995".toList = some (-1) ∧ parseTime "2020-02-30T00:00:00".toList = none ∧
    parseTime "2020-1-1T0:0:0".toList = some 1577836800000 ∧ parseTime "2020-01-01T00:00:60".toList = none := by
  decide +kernel
example : decodeText "1,1,1,2020-01-01T00:00:00,1,1,a\n1,1,1,2020-01-01T00:00:00,1,0,b" = .error .decreasing := by
  decide +kernel
-- `decodeText_encode` applied: its hypotheses are met by a concrete text (header + one event of catalog 0)
theorem exRow_readsAs : ReadsAs ["1", "2", "3", "2020-01-01T00:00:00", "4", "0", "x"] (rowOf 0 ⟨1, 2, 3, 1577836800000, 4, "x"⟩) := by
  constructor
  · show Except.ok (("1" : String).toLower == "lon") = Except.ok false
    have : (("1" : String).toLower == "lon") = false := by decide +kernel
    rw [this]
  · rw [readRow_ok "1" "2" "3" "2020-01-01T00:00:00" "4" "0" "x" [] (some 1577836800000) 0
      (Or.inr ⟨by decide, _, by decide +kernel, rfl⟩) (by decide +kernel)]
    have h1 : readFloat "1" = some 1 := by decide +kernel
    have h2 : readFloat "2" = some 2 := by decide +kernel
    have h3 : readFloat "3" = some 3 := by decide +kernel
    have h4 : readFloat "4" = some 4 := by decide +kernel
    rw [h1, h2, h3, h4]; rfl
example : decodeText "lon,lat,mag,time_string,depth,catalog_id,event_id\n1,2,3,2020-01-01T00:00:00,4,0,x"
    = .ok (number [[⟨1, 2, 3, 1577836800000, 4, "x"⟩]]) :=
  decodeText_encode _ [["lon", "lat", "mag", "time_string", "depth", "catalog_id", "event_id"],
      ["1", "2", "3", "2020-01-01T00:00:00", "4", "0", "x"]] [[⟨1, 2, 3, 1577836800000, 4, "x"⟩]] (by simp) [] true
    (by decide +kernel) (.cons header_reads_as_header (.cons exRow_readsAs .nil))
example : parseFilename "/data/ucerf3-etas_2019-07-06T03-19-54-040000.csv" = some ("ucerf3-etas", 1562383194040000) ∧
    parseFilename "/data/plain.csv" = none := by decide +kernel

end AsciiCatalogs
