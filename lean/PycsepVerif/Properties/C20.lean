import PycsepVerif.Proofs.Perm

/-!
# C20 — evaluation outcomes do not depend on storage order

Theorems about `Model/Perm.lean`. A catalog is a list of events `(cell, bin)` in storage order, a catalog forecast a
list of catalogs in storage order, a gridded forecast a list of bins `(observed count, rate)` in the storage order
of the cells. "Re-ordering" is `List.Perm` (and, for the cells, also an explicit index list `σ ~ range n`).
All statements hold for lists of any length.
-/
namespace PermInv
open List

/-! ## observed events -/

/-- C20, gridding: permuting the events leaves all four gridded arrays (spatial counts, magnitude counts,
space-magnitude counts, occupancy) unchanged — exactly. -/
theorem counts_perm (nCells nBins : Nat) {ev ev' : List Event} (h : ev ~ ev') :
    counts nCells nBins ev = counts nCells nBins ev' := by
  unfold counts spatialCounts magnitudeCounts spaceMagCounts occupancy
  rw [addAt_perm (h.map Prod.fst), addAt_perm (h.map Prod.snd), foldl_perm bump2_comm h,
    foldl_perm flag_comm (h.map Prod.fst)]

example : counts 3 2 [(0, 1), (2, 0), (0, 1), (1, 1)] = counts 3 2 [(1, 1), (0, 1), (0, 1), (2, 0)] :=
  counts_perm 3 2 (by decide)
example : counts 3 2 [(0, 1), (2, 0), (0, 1), (1, 1)] =
    ⟨[2, 1, 1], [1, 3], [[0, 2], [0, 1], [1, 0]], [1, 1, 1]⟩ := by decide

/-- what the arrays are: entry k of the spatial (magnitude) counts is the number of events with cell (bin) k — every
event is counted exactly once, none is overwritten; occupancy is the indicator of "some event in cell k". -/
theorem counts_spec (nCells nBins : Nat) (ev : List Event) :
    (∀ k, k < nCells → (spatialCounts nCells ev)[k]? = some ((ev.map Prod.fst).count k)) ∧
    (∀ k, k < nBins → (magnitudeCounts nBins ev)[k]? = some ((ev.map Prod.snd).count k)) ∧
    (∀ k, k < nCells → (occupancy nCells ev)[k]? = some (if k ∈ ev.map Prod.fst then 1 else 0)) ∧
    (∀ i j, i < nCells → j < nBins →
        ((spaceMagCounts nCells nBins ev)[i]?).bind (·[j]?) = some (ev.count (i, j))) ∧
    (spatialCounts nCells ev).length = nCells ∧ (magnitudeCounts nBins ev).length = nBins :=
  ⟨spatialCounts_getElem nCells ev, magnitudeCounts_getElem nBins ev, occupancy_getElem nCells ev,
   spaceMagCounts_entry nCells nBins ev,
   by simp [spatialCounts, addAt_length, zeros], by simp [magnitudeCounts, addAt_length, zeros]⟩

example : (spatialCounts 3 [(0, 1), (2, 0), (0, 1)])[0]? = some 2 := by
  rw [(counts_spec 3 2 _).1 0 (by omega)]; rfl

/-- C20: the per-event target rates (`forecast.target_event_rates(catalog)`) of permuted events are the permuted list. -/
theorem target_rates_perm {α} [RealOps α] (data data2 : List (List α)) {ev ev' : List Event} (h : ev ~ ev') :
    targetRates data ev ~ targetRates data ev' ∧ targetRatePairs data data2 ev ~ targetRatePairs data data2 ev' :=
  ⟨h.map _, h.map _⟩

example : targetRates [[(1.5 : Float), 2.5], [3.5, 4.5]] [(0, 1), (1, 0), (1, 1)] ~
    targetRates [[(1.5 : Float), 2.5], [3.5, 4.5]] [(1, 1), (0, 1), (1, 0)] :=
  (target_rates_perm _ ([] : List (List Float)) (by decide)).1

/-- C20: every statistic that is computed from the gridded arrays is unchanged — equal, whatever the arithmetic
(this covers the N, L, CL, S, M, binary and Brier tests, whose observed statistics and analytic quantiles are
functions of `counts`, the forecast and constants). -/
theorem stat_perm_events {β} (stat : Gridded → β) (nCells nBins : Nat) {ev ev' : List Event} (h : ev ~ ev') :
    stat (counts nCells nBins ev) = stat (counts nCells nBins ev') := by
  rw [counts_perm nCells nBins h]

example (rates : List Float) :
    obsLL false ((ravel (counts 2 2 [(0, 1), (1, 0), (0, 1)]).spaceMag).zip rates) =
    obsLL false ((ravel (counts 2 2 [(1, 0), (0, 1), (0, 1)]).spaceMag).zip rates) :=
  stat_perm_events (fun g => obsLL false ((ravel g.spaceMag).zip rates)) 2 2 (by decide)

/-! ## sums do not see the order -/

/-- C20, generic: a left fold with a right-commuting step (in particular `List.sum` of a commutative associative
operation) is permutation invariant. -/
theorem sum_perm_fold {β γ} (f : β → γ → β) (hf : ∀ z x y, f (f z x) y = f (f z y) x)
    {l l' : List γ} (h : l ~ l') (init : β) : l.foldl f init = l'.foldl f init := foldl_perm hf h init

example : [3, 1, 2].foldl (fun (z : Nat) x => z + x * x) 0 = [2, 3, 1].foldl (fun (z : Nat) x => z + x * x) 0 :=
  sum_perm_fold _ (fun z x y => by omega) (by decide) 0

/-- C20, instances: the model's `RealOps.sum` and `ELL.sum` (with −∞) over ℝ and sums of naturals are
permutation invariant. -/
theorem sum_perm :
    (∀ {l l' : List ℝ}, l ~ l' → RealOps.sum l = RealOps.sum l') ∧
    (∀ {l l' : List (ELL ℝ)}, l ~ l' → ELL.sum l = ELL.sum l') ∧
    (∀ {l l' : List Nat}, l ~ l' → l.sum = l'.sum) :=
  ⟨realSum_perm, ellSum_perm, natSum_perm⟩

example : ELL.sum [ELL.fin (1 : ℝ), ELL.negInf, ELL.fin 2] = ELL.sum [ELL.negInf, ELL.fin 2, ELL.fin (1 : ℝ)] :=
  sum_perm.2.1 (perm_append_comm (l₁ := [ELL.fin (1 : ℝ)]) (l₂ := [ELL.negInf, ELL.fin 2]))

/-- C20, Poisson joint log-likelihood Σ_bins (w·log λ − log w!) − N (observed statistic of the L/CL tests for
`normalize = false`, of the S/M tests for `true`), with −∞ when an event falls in a zero-rate bin: a function of the
multiset of bins (count, rate). -/
theorem sum_perm_jointLL (normalize : Bool) {bins bins' : List (Nat × ℝ)} (h : bins ~ bins') :
    obsLL normalize bins = obsLL normalize bins' := obsLL_perm normalize h

example : obsLL true [((2 : Nat), (1.5 : ℝ)), (0, 0.5), (1, 2)] = obsLL true [((1 : Nat), (2 : ℝ)), (2, 1.5), (0, 0.5)] :=
  sum_perm_jointLL true (perm_append_comm (l₁ := [((2 : Nat), (1.5 : ℝ)), (0, 0.5)]) (l₂ := [(1, 2)]))

/-- the −∞ branch is reachable: an event in a zero-rate bin -/
example : obsLL false [((1 : Nat), (0 : ℝ)), (0, 2)] = ELL.negInf := by
  simp [obsLL, llOf, prepare, targets, ELL.sum, ELL.log, ELL.add, ellScale, ellSub]

/-- C20, paired T-test: information gain, sample variance and t statistic of the per-event log-rate differences are
functions of the multiset of per-event rate pairs — hence unchanged by permuting the observed events. -/
theorem sum_perm_tTest (d1 d2 : List (List ℝ)) (n1 n2 : ℝ) {ev ev' : List Event} (h : ev ~ ev') :
    tTest (targetRatePairs d1 d2 ev) n1 n2 = tTest (targetRatePairs d1 d2 ev') n1 n2 :=
  tTest_perm (target_rates_perm d1 d2 h).2 n1 n2

example : tTest (targetRatePairs [[(1 : ℝ), 2]] [[(3 : ℝ), 4]] [(0, 0), (0, 1), (0, 1)]) 3 7 =
    tTest (targetRatePairs [[(1 : ℝ), 2]] [[(3 : ℝ), 4]] [(0, 1), (0, 0), (0, 1)]) 3 7 :=
  sum_perm_tTest _ _ 3 7 (by decide)

/-- C20, W-test: the signed-rank z statistic is a function of the multiset of differences (average ranks are defined
by counting, ties included) — hence unchanged by permuting the observed events. -/
theorem sum_perm_wTest (d1 d2 : List (List ℝ)) (n1 n2 : ℝ) {ev ev' : List Event} (h : ev ~ ev') :
    wTestOfRates (targetRatePairs d1 d2 ev) n1 n2 = wTestOfRates (targetRatePairs d1 d2 ev') n1 n2 := by
  have hp := (target_rates_perm d1 d2 h).2
  unfold wTestOfRates
  rw [hp.length_eq]
  exact wTest_perm (hp.map _) _

example : wTestOfRates (targetRatePairs [[(1 : ℝ), 2]] [[(3 : ℝ), 4]] [(0, 0), (0, 1), (0, 1)]) 3 7 =
    wTestOfRates (targetRatePairs [[(1 : ℝ), 2]] [[(3 : ℝ), 4]] [(0, 1), (0, 0), (0, 1)]) 3 7 :=
  sum_perm_wTest _ _ 3 7 (by decide)

/-- the multiset of absolute differences, equivalently its sorted list, is what the W-test sees -/
theorem wTest_sorted_abs {x x' : List ℝ} (h : x ~ x') (m : ℝ) :
    sortReal ((nonzeroDiffs x m).map absR) = sortReal ((nonzeroDiffs x' m).map absR) ∧
    ((nonzeroDiffs x m : List ℝ) : Multiset ℝ) = (nonzeroDiffs x' m : List ℝ) := by
  have hd : nonzeroDiffs x m ~ nonzeroDiffs x' m := (h.map _).filter _
  exact ⟨sortReal_eq_of_perm (hd.map _), Multiset.coe_eq_coe.mpr hd⟩

example : sortReal ((nonzeroDiffs [(1 : ℝ), 3, -2] 1).map absR) = sortReal ((nonzeroDiffs [(-2 : ℝ), 1, 3] 1).map absR) :=
  (wTest_sorted_abs (perm_append_comm (l₁ := [(1 : ℝ), 3]) (l₂ := [-2])) 1).1

/-! ## synthetic catalogs of a catalog forecast -/

/-- C20: the sum of the count arrays over the synthetic catalogs (exact, naturals) and hence the mean rates
(`get_expected_rates`), as exact rationals and in any real arithmetic, do not depend on the order of the catalogs. -/
theorem mean_rates_perm_catalogs (nCells nBins : Nat) {cats cats' : List (List Event)} (h : cats ~ cats') :
    sumCounts nCells nBins cats = sumCounts nCells nBins cats' ∧
    meanRatesRat nCells nBins cats = meanRatesRat nCells nBins cats' ∧
    (∀ {α} [RealOps α], meanRates (α := α) nCells nBins cats = meanRates nCells nBins cats') := by
  have hs : sumCounts nCells nBins cats = sumCounts nCells nBins cats' := by
    unfold sumCounts
    exact foldl_perm (f := fun acc c => addMat acc (spaceMagCounts nCells nBins c))
      (fun z x y => addMat_rightComm z _ _) h _
  refine ⟨hs, ?_, ?_⟩
  · unfold meanRatesRat; rw [hs, h.length_eq]
  · intro α _; unfold meanRates; rw [hs, h.length_eq]

example : meanRatesRat 2 2 [[(0, 1), (1, 0)], [], [(0, 1)]] = meanRatesRat 2 2 [[], [(0, 1)], [(0, 1), (1, 0)]] :=
  (mean_rates_perm_catalogs 2 2 (by decide)).2.1
example : sumCounts 2 2 [[(0, 1), (1, 0)], [], [(0, 1)]] = [[0, 2], [1, 0]] := by decide

/-- also the order of the events inside each synthetic catalog is immaterial -/
theorem mean_rates_perm_within (nCells nBins : Nat) {c c' : List Event} (h : c ~ c') (pre post : List (List Event)) :
    sumCounts nCells nBins (pre ++ c :: post) = sumCounts nCells nBins (pre ++ c' :: post) := by
  unfold sumCounts
  simp only [foldl_append, foldl_cons]
  have : spaceMagCounts nCells nBins c = spaceMagCounts nCells nBins c' := foldl_perm bump2_comm h _
  rw [this]

example : sumCounts 2 2 ([[(1, 1)]] ++ [(0, 1), (1, 0), (0, 1)] :: [[]]) =
    sumCounts 2 2 ([[(1, 1)]] ++ [(1, 0), (0, 1), (0, 1)] :: [[]]) :=
  mean_rates_perm_within 2 2 (c := [(0, 1), (1, 0), (0, 1)]) (c' := [(1, 0), (0, 1), (0, 1)]) (by decide) _ _

/-- C20: a simulation-free test distribution (one statistic per synthetic catalog, skipped catalogs dropped) of
permuted catalogs is the permuted list, hence equal as a multiset; the catalog N-test distribution likewise. -/
theorem distribution_perm_catalogs {β} (stat : List Event → Option β) {cats cats' : List (List Event)}
    (h : cats ~ cats') :
    distribution stat cats ~ distribution stat cats' ∧
    ((distribution stat cats : List β) : Multiset β) = (distribution stat cats' : List β) ∧
    numberDistribution cats ~ numberDistribution cats' :=
  ⟨h.filterMap stat, Multiset.coe_eq_coe.mpr (h.filterMap stat), h.map _⟩

/-- ... equal after sorting, and every empirical quantile (#≥, #≤, n) of an observed value against it is equal. -/
theorem distribution_sorted_perm_catalogs {cats cats' : List (List Event)} (h : cats ~ cats') :
    (∀ (stat : List Event → Option ℝ), sortReal (distribution stat cats) = sortReal (distribution stat cats')) ∧
    (∀ (stat : List Event → Option Rat) (obs : Rat),
        quantileCounts (distribution stat cats) obs = quantileCounts (distribution stat cats') obs) := by
  refine ⟨fun stat => sortReal_eq_of_perm (h.filterMap stat), fun stat obs => ?_⟩
  have hp : distribution stat cats ~ distribution stat cats' := h.filterMap stat
  unfold quantileCounts
  rw [hp.countP_eq, hp.countP_eq, hp.length_eq]

example : quantileCounts (distribution (fun c => some (c.length : Rat)) [[(0, 1), (1, 0)], [], [(0, 1)]]) 1 =
    quantileCounts (distribution (fun c => some (c.length : Rat)) [[], [(0, 1)], [(0, 1), (1, 0)]]) 1 :=
  (distribution_sorted_perm_catalogs (by decide)).2 _ 1

/-- skipping is exercised: the empty catalog has no statistic (catalog M-test `continue`) -/
example : distribution (fun c => if c.isEmpty then none else some c.length) [[(0, 1), (1, 0)], [], [(0, 1)]] ~
    distribution (fun c => if c.isEmpty then none else some c.length) [[], [(0, 1)], [(0, 1), (1, 0)]] :=
  (distribution_perm_catalogs _ (by decide)).1
example : distribution (fun c => if c.isEmpty then none else some c.length) [[(0, 1), (1, 0)], [], [(0, 1)]] = [2, 1] := by
  decide

/-- a per-catalog statistic that is itself computed from the gridded arrays ignores the order inside the catalog -/
theorem distribution_perm_within {β} (g : Gridded → Option β) (nCells nBins : Nat) {c c' : List Event} (h : c ~ c')
    (pre post : List (List Event)) :
    distribution (fun c => g (counts nCells nBins c)) (pre ++ c :: post) =
    distribution (fun c => g (counts nCells nBins c)) (pre ++ c' :: post) := by
  unfold distribution
  simp only [filterMap_append, filterMap_cons, counts_perm nCells nBins h]

example : distribution (fun c => some (counts 2 2 c).spatial) ([[(1, 1)]] ++ [(0, 1), (1, 0), (0, 1)] :: [[]]) =
    distribution (fun c => some (counts 2 2 c).spatial) ([[(1, 1)]] ++ [(1, 0), (0, 1), (0, 1)] :: [[]]) :=
  distribution_perm_within (fun g => some g.spatial) 2 2 (c := [(0, 1), (1, 0), (0, 1)])
    (c' := [(1, 0), (0, 1), (0, 1)]) (by decide) [[(1, 1)]] [[]]

/-! ## cells of the region, together with the forecast's rates -/

/-- C20: re-ordering the bins (count, rate) — the cells of the region together with the rows of the forecast —
leaves every sum over bins unchanged: any `Σ g(count, rate)`, the Poisson joint log-likelihood with its −∞, the
pseudo-likelihood and the normalised spatial likelihood of the catalog tests, the binary likelihood, the Brier score,
the total observed number and the total forecast rate. -/
theorem stat_perm_cells {bins bins' : List (Nat × ℝ)} (h : bins ~ bins') :
    (∀ g : Nat × ℝ → ℝ, RealOps.sum (bins.map g) = RealOps.sum (bins'.map g)) ∧
    (∀ normalize, obsLL normalize bins = obsLL normalize bins') ∧
    (∀ e, pseudoLL bins e = pseudoLL bins' e) ∧
    normLL bins = normLL bins' ∧ binaryLL bins = binaryLL bins' ∧ brierScore bins = brierScore bins' ∧
    nObsOf bins = nObsOf bins' ∧
    RealOps.sum (bins.map Prod.snd) = RealOps.sum (bins'.map Prod.snd) :=
  ⟨fun g => realSum_perm (h.map g), fun n => obsLL_perm n h, fun e => pseudoLL_perm h e, normLL_perm h,
   binaryLL_perm h, brierScore_perm h, nObsOf_perm h, realSum_perm (h.map _)⟩

/-- the same with an explicit index permutation σ (a list that is a permutation of `0..n-1`):
`counts' = counts[σ]`, `rates' = rates[σ]`. -/
theorem stat_perm_cells_index (σ : List Nat) (cnts : List Nat) (rates : List ℝ)
    (hσ : σ ~ List.range cnts.length) (hlen : cnts.length = rates.length) :
    (reindex σ cnts).zip (reindex σ rates) ~ cnts.zip rates ∧
    (∀ normalize, obsLL normalize ((reindex σ cnts).zip (reindex σ rates)) = obsLL normalize (cnts.zip rates)) ∧
    (∀ g : Nat × ℝ → ℝ, RealOps.sum (((reindex σ cnts).zip (reindex σ rates)).map g) =
        RealOps.sum ((cnts.zip rates).map g)) := by
  have hz : (reindex σ cnts).zip (reindex σ rates) ~ cnts.zip rates := by
    rw [zip_reindex σ cnts rates hlen]
    have hl : (cnts.zip rates).length = cnts.length := by simp; omega
    have := (hl ▸ hσ).map (fun i => (cnts.zip rates)[i]?.getD default)
    exact this.trans (Perm.of_eq (reindex_range (cnts.zip rates)))
  exact ⟨hz, fun n => obsLL_perm n hz, fun g => realSum_perm (hz.map g)⟩

example : obsLL false ((reindex [2, 0, 1] [3, 0, 1]).zip (reindex [2, 0, 1] [(0.5 : ℝ), 1.5, 2.5])) =
    obsLL false ([3, 0, 1].zip [(0.5 : ℝ), 1.5, 2.5]) :=
  (stat_perm_cells_index [2, 0, 1] [3, 0, 1] [0.5, 1.5, 2.5] (by decide) rfl).2.1 false

/-- C20, cells, end to end: σ lists the old index of every new cell (`origins' = origins[σ]`, `rates' = rates[σ]`),
π is its inverse on indices. Gridding the SAME events on the re-ordered region gives the re-indexed spatial counts,
and every spatial statistic computed from (counts', rates') equals the one computed from (counts, rates). -/
theorem stat_perm_cells_events (n : Nat) (σ : List Nat) (hσ : σ ~ List.range n) (π : Nat → Nat)
    (hπ : ∀ j (h : j < σ.length), π σ[j] = j) (ev : List Event) (hev : ∀ e ∈ ev, e.1 < n)
    (rates : List ℝ) (hr : rates.length = n) :
    spatialCounts n (ev.map (fun e => (π e.1, e.2))) = reindex σ (spatialCounts n ev) ∧
    (∀ normalize, obsLL normalize ((spatialCounts n (ev.map (fun e => (π e.1, e.2)))).zip (reindex σ rates)) =
        obsLL normalize ((spatialCounts n ev).zip rates)) ∧
    (∀ g : Nat × ℝ → ℝ, RealOps.sum (((spatialCounts n (ev.map (fun e => (π e.1, e.2)))).zip (reindex σ rates)).map g) =
        RealOps.sum (((spatialCounts n ev).zip rates).map g)) := by
  have h1 := spatialCounts_reindex n σ hσ π hπ ev hev
  have hl : (spatialCounts n ev).length = n := (counts_spec n 0 ev).2.2.2.2.1
  have := stat_perm_cells_index σ (spatialCounts n ev) rates (hl.symm ▸ hσ) (hl.trans hr.symm)
  rw [h1]
  exact ⟨rfl, this.2.1, this.2.2⟩

example : spatialCounts 3 ([(0, 0), (2, 1), (0, 1), (1, 0)].map (fun e => ((fun c => (c + 1) % 3) e.1, e.2))) =
    reindex [2, 0, 1] (spatialCounts 3 [(0, 0), (2, 1), (0, 1), (1, 0)]) :=
  (stat_perm_cells_events 3 [2, 0, 1] (by decide) (fun c => (c + 1) % 3) (by decide) _ (by decide)
    [0.5, 1.5, 2.5] rfl).1

/-- relabelling the cells by an injective map π moves the counts with the cells: the new array at π k holds what the
old array held at k (the gridding does not care how cells are numbered). -/
theorem counts_relabel (nCells nCells' : Nat) (π : Nat → Nat) (hπ : Function.Injective π) (ev : List Event)
    (k : Nat) (hk : k < nCells) (hk' : π k < nCells') :
    (spatialCounts nCells' (ev.map (fun e => (π e.1, e.2))))[π k]? = (spatialCounts nCells ev)[k]? := by
  rw [spatialCounts_getElem _ _ _ hk', spatialCounts_getElem _ _ _ hk]
  simp only [map_map]
  have : (ev.map (Prod.fst ∘ fun e => (π e.1, e.2))) = (ev.map Prod.fst).map π := by simp [Function.comp_def]
  rw [this, count_map_of_injective _ π hπ]

example : (spatialCounts 7 ([(0, 0), (2, 1), (0, 1)].map (fun e => (2 * e.1 + 1, e.2))))[2 * 0 + 1]? =
    (spatialCounts 3 [(0, 0), (2, 1), (0, 1)])[0]? :=
  counts_relabel 3 7 (fun c => 2 * c + 1) (fun a b h => by simp at h; omega) _ 0 (by omega) (by omega)

/-! ## seeded simulation -/

/-- C20, last sentence: with the random stream fixed, the simulated catalogs are a function of the sampling
weights, the NUMBER of observed events and the stream; the whole test outcome (observed statistic, every simulated
statistic, the count behind the quantile score) is a function of the forecast and the gridded counts. Permuting
the observed events therefore gives EQUAL results in any arithmetic `α` — in particular `Float`: bit for bit. -/
theorem seeded_bit_identical {α} [RealOps α] (normalize useObserved : Bool) (nCells nBins : Nat)
    (rates spatialRates magRates : List α) (w : List Rat) (us : List Rat) (stream : List (Nat × List Rat))
    {ev ev' : List Event} (h : ev ~ ev') :
    simulate w ev.length us = simulate w ev'.length us ∧
    poissonTest normalize useObserved rates w (ravel (spaceMagCounts nCells nBins ev)) stream =
      poissonTest normalize useObserved rates w (ravel (spaceMagCounts nCells nBins ev')) stream ∧
    poissonTest normalize useObserved spatialRates w (spatialCounts nCells ev) stream =
      poissonTest normalize useObserved spatialRates w (spatialCounts nCells ev') stream ∧
    poissonTest normalize useObserved magRates w (magnitudeCounts nBins ev) stream =
      poissonTest normalize useObserved magRates w (magnitudeCounts nBins ev') stream := by
  have hc := counts_perm nCells nBins h
  have h1 : spatialCounts nCells ev = spatialCounts nCells ev' := congrArg Gridded.spatial hc
  have h2 : magnitudeCounts nBins ev = magnitudeCounts nBins ev' := congrArg Gridded.magnitude hc
  have h3 : spaceMagCounts nCells nBins ev = spaceMagCounts nCells nBins ev' := congrArg Gridded.spaceMag hc
  rw [h.length_eq, h1, h2, h3]
  exact ⟨rfl, rfl, rfl, rfl⟩

/-- instance at Float with a concrete stream: three events, two simulations -/
example :
    poissonTest false true [(0.5 : Float), 1.5, 0.25, 0.75] [1/6, 2/3, 3/4, 1]
      (ravel (spaceMagCounts 2 2 [(0, 1), (1, 0), (0, 1)])) [(0, [1/10, 7/10, 9/10]), (0, [1/2, 1/5, 4/5])] =
    poissonTest false true [(0.5 : Float), 1.5, 0.25, 0.75] [1/6, 2/3, 3/4, 1]
      (ravel (spaceMagCounts 2 2 [(1, 0), (0, 1), (0, 1)])) [(0, [1/10, 7/10, 9/10]), (0, [1/2, 1/5, 4/5])] :=
  (seeded_bit_identical false true 2 2 _ ([] : List Float) [] _ [] _ (by decide)).2.1
example : simulate [1/6, 2/3, 3/4, 1] 3 [1/10, 7/10, 9/10] = [1, 0, 1, 1] := by decide +kernel


/-- the same for the binary tests, whose simulation draws until as many bins are active as the observation has
(`simulateBinary`): outcome equal in any arithmetic. -/
theorem seeded_bit_identical_binary {α} [RealOps α] (nCells nBins : Nat) (rates spatialRates : List α) (w : List Rat)
    (stream : List (List Rat)) {ev ev' : List Event} (h : ev ~ ev') :
    binaryTest rates w (ravel (spaceMagCounts nCells nBins ev)) stream =
      binaryTest rates w (ravel (spaceMagCounts nCells nBins ev')) stream ∧
    binaryTest spatialRates w (spatialCounts nCells ev) stream =
      binaryTest spatialRates w (spatialCounts nCells ev') stream := by
  have hc := counts_perm nCells nBins h
  have h1 : spatialCounts nCells ev = spatialCounts nCells ev' := congrArg Gridded.spatial hc
  have h3 : spaceMagCounts nCells nBins ev = spaceMagCounts nCells nBins ev' := congrArg Gridded.spaceMag hc
  rw [h1, h3]
  exact ⟨rfl, rfl⟩

example :
    binaryTest [(0.5 : Float), 1.5, 0.25, 0.75] [1/6, 2/3, 3/4, 1]
      (ravel (spaceMagCounts 2 2 [(0, 1), (1, 0), (0, 1)])) [[1/10, 1/12, 9/10], [1/2, 1/5, 4/5]] =
    binaryTest [(0.5 : Float), 1.5, 0.25, 0.75] [1/6, 2/3, 3/4, 1]
      (ravel (spaceMagCounts 2 2 [(1, 0), (0, 1), (0, 1)])) [[1/10, 1/12, 9/10], [1/2, 1/5, 4/5]] :=
  (seeded_bit_identical_binary 2 2 _ ([] : List Float) _ _ (by decide)).1
example : simulateBinary [1/6, 2/3, 3/4, 1] 2 [1/10, 1/12, 9/10, 1/2] = [1, 0, 0, 1] := by decide +kernel

/-! ## regions whose lookup is a per-event scan (quadtree), events on tile edges -/

/-- C20 on a region that locates every event by its own scan of the cells (`QuadtreeGrid2D.get_index_of`): permuting
the stored events permutes the located (cell, bin) pairs and the cell-index list, and leaves the four gridded arrays
unchanged — wherever the events lie, tile edges and corners included. -/
theorem lookup_perm (bounds : List Box) (nCells nBins : Nat) {raw raw' : List RawEvent} (h : raw ~ raw') :
    locateEvents bounds raw ~ locateEvents bounds raw' ∧
    getIndexOf bounds (raw.map Prod.fst) ~ getIndexOf bounds (raw'.map Prod.fst) ∧
    counts nCells nBins (locateEvents bounds raw) = counts nCells nBins (locateEvents bounds raw') := by
  have h1 : locateEvents bounds raw ~ locateEvents bounds raw' := h.filterMap _
  exact ⟨h1, (h.map Prod.fst).filterMap _, counts_perm nCells nBins h1⟩

/-- the cell an event is counted in does not depend on the events stored before (or after) it -/
theorem lookup_no_memory (bounds : List Box) (pre post : List RawEvent) (r : RawEvent) :
    locateEvents bounds (pre ++ r :: post) =
      locateEvents bounds pre ++ ((findLocation bounds r.1.1 r.1.2).map (fun c => (c, r.2))).toList ++
        locateEvents bounds post := by
  rw [locateEvents_append]
  have : locateEvents bounds (r :: post) =
      ((findLocation bounds r.1.1 r.1.2).map (fun c => (c, r.2))).toList ++ locateEvents bounds post := by
    unfold locateEvents
    cases hf : findLocation bounds r.1.1 r.1.2 <;> simp [List.filterMap_cons, hf]
  rw [this, List.append_assoc]

/-- `_find_location` returns the FIRST cell whose half-open box holds the point, and only such a cell -/
theorem lookup_first_hit (bounds : List Box) (lon lat : Rat) (i : Nat) (h : findLocation bounds lon lat = some i) :
    (∃ b, bounds[i]? = some b ∧ inBox b lon lat = true) ∧
    ∀ j, j < i → ∀ b', bounds[j]? = some b' → inBox b' lon lat = false :=
  findLocation_spec bounds lon lat i h

/-- tile edges: the east and the north edge of a box are outside it, the west and the south edge inside (so an event
on the edge shared by two tiles belongs to the eastern / northern one, and a corner to the north-eastern one) -/
theorem lookup_edge (b : Box) (lon lat : Rat) :
    inBox b b.east lat = false ∧ inBox b lon b.north = false ∧
    (b.west < b.east → b.south ≤ lat → lat < b.north → inBox b b.west lat = true) ∧
    (b.south < b.north → b.west ≤ lon → lon < b.east → inBox b lon b.south = true) ∧
    (b.west < b.east → b.south < b.north → inBox b b.west b.south = true) := by
  refine ⟨?_, ?_, ?_, ?_, ?_⟩
  · simp [inBox]
  · simp [inBox]
  · intro h1 h2 h3; simp [inBox, h1, h2, h3]
  · intro h1 h2 h3; simp [inBox, h1, h2, h3]
  · intro h1 h2; simp [inBox, h1, h2]

/-- two tiles side by side, an event exactly on the shared edge (lon 0), once stored after an event of the western tile
and once before it: it is counted in the eastern tile both times -/
example : locateEvents [⟨-90, 0, 0, 66⟩, ⟨0, 0, 90, 66⟩] [((-45, 10), 1), ((0, 10), 0)] = [(0, 1), (1, 0)] ∧
    locateEvents [⟨-90, 0, 0, 66⟩, ⟨0, 0, 90, 66⟩] [((0, 10), 0), ((-45, 10), 1)] = [(1, 0), (0, 1)] := by
  decide +kernel
/-- a corner shared by four tiles belongs to the north-eastern one; a point outside every tile is dropped -/
example : getIndexOf [⟨-90, -66, 0, 0⟩, ⟨0, -66, 90, 0⟩, ⟨-90, 0, 0, 66⟩, ⟨0, 0, 90, 66⟩]
    [(0, 0), (-1, -1), (90, 0), (0, -66)] = [3, 0, 1] := by decide +kernel
example : counts 2 2 (locateEvents [⟨-90, 0, 0, 66⟩, ⟨0, 0, 90, 66⟩] [((-45, 10), 1), ((0, 10), 0), ((0, 0), 1)]) =
    counts 2 2 (locateEvents [⟨-90, 0, 0, 66⟩, ⟨0, 0, 90, 66⟩] [((0, 0), 1), ((0, 10), 0), ((-45, 10), 1)]) :=
  (lookup_perm _ 2 2 (by decide)).2.2

/-! ## one catalog object re-ordered in place between evaluations -/

/-- C20 for a session on ONE catalog object: after any sequence of in-place re-orderings of its stored rows
(`catalog.catalog[:] = catalog.catalog[σ]`, `.sort(order=…)`, shuffle, re-assignment through the setter — each an index
permutation σ of the rows) the object holds a permutation of the original rows, so every gridded array — hence every
statistic that is a function of them — equals the one of the first evaluation. -/
theorem inplace_reorder_counts (nCells nBins : Nat) (ev : List Event) (steps : List (List Nat))
    (h : ∀ σ ∈ steps, σ ~ List.range ev.length) :
    reorderSeq ev steps ~ ev ∧ counts nCells nBins (reorderSeq ev steps) = counts nCells nBins ev := by
  have hp := reorderSeq_perm steps ev h
  exact ⟨hp, counts_perm nCells nBins hp⟩

/-- every evaluation of the session (before the first re-ordering, between two of them, after the last) sees the same
gridded arrays; with the lookup done afresh on the rows held at the time of the call, also from raw coordinates -/
theorem inplace_session (nCells nBins : Nat) (ev : List Event) (steps : List (List Nat))
    (h : ∀ σ ∈ steps, σ ~ List.range ev.length) :
    ∀ v ∈ sessionViews ev steps, counts nCells nBins v = counts nCells nBins ev := by
  intro v hv
  unfold sessionViews at hv
  obtain ⟨k, _, rfl⟩ := List.mem_map.mp hv
  exact (inplace_reorder_counts nCells nBins ev (steps.take k)
    (fun σ hσ => h σ (List.mem_of_mem_take hσ))).2

theorem inplace_session_lookup (bounds : List Box) (nCells nBins : Nat) (raw : List RawEvent) (steps : List (List Nat))
    (h : ∀ σ ∈ steps, σ ~ List.range raw.length) :
    ∀ v ∈ sessionViews raw steps,
      counts nCells nBins (locateEvents bounds v) = counts nCells nBins (locateEvents bounds raw) := by
  intro v hv
  unfold sessionViews at hv
  obtain ⟨k, _, rfl⟩ := List.mem_map.mp hv
  exact (lookup_perm bounds nCells nBins
    (reorderSeq_perm (steps.take k) raw (fun σ hσ => h σ (List.mem_of_mem_take hσ)))).2.2

example : sessionViews [(0, 1), (2, 0), (1, 1)] [[2, 0, 1], [1, 0, 2]] =
    [[(0, 1), (2, 0), (1, 1)], [(1, 1), (0, 1), (2, 0)], [(0, 1), (1, 1), (2, 0)]] := by decide
example : ∀ v ∈ sessionViews [(0, 1), (2, 0), (1, 1)] [[2, 0, 1], [1, 0, 2]],
    counts 3 2 v = counts 3 2 [(0, 1), (2, 0), (1, 1)] :=
  inplace_session 3 2 _ _ (by decide)

end PermInv
