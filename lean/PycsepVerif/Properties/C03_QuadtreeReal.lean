import PycsepVerif.Properties.C03_Quadtree
import PycsepVerif.Properties.C17_Mercator

/-!
# C03 (extension) — "counted exactly once" on library-built quadtree grids, in REAL longitude / latitude

`Properties/C03_Quadtree.lean` counts events given as points of the unit square; the harness hands the model a rational
representative of the deepest-level cell an event's float coordinates fall in (`c17.to_unit`). With C17's real Mercator geometry
(`mercator_membership_real`, `representative_sound`) the statements become statements about the real coordinates:

* `domain_real` — a representative lies in the covered domain ⇔ the REAL event has −180 ≤ lon < 180 and
  lat(1) ≤ lat < lat(0), lat(y) = degrees(atan(sinh(π(1−2y)))) (so lat(0) = −lat(1) = 85.0511…°).
* `counts_on_from_catalog_total_real` — on a grid built by `from_catalog` from ANY catalog / threshold / zoom, the total of
  `spatial_counts` of ANY catalog of real events is the number of its events with −180 ≤ lon < 180 ∧ −latmax ≤ lat < latmax.
-/
namespace QuadGridding
open Quadtree

/-- the covered domain in real coordinates -/
theorem domain_real (D : ℕ) (lon lat : ℝ) (h1 : -90 < lat) (h2 : lat < 90) (p : Pt)
    (hx : ⌊(p.x : ℝ) * 2 ^ D⌋ = ⌊(lon + 180) / 360 * 2 ^ D⌋) (hy : ⌈(p.y : ℝ) * 2 ^ D⌉ = ⌈mercY lat * 2 ^ D⌉) :
    InTile [] p ↔ (-180 ≤ lon ∧ latDeg 1 ≤ lat ∧ lon < 180 ∧ lat < latDeg 0) := by
  have hm := mercator_membership_real [] lon lat h1 h2
  have hr := representative_sound D _ _ p hx hy [] (by simp)
  rw [← hr, ← hm, mercLon_real, mercLon_real, mercLat_real, mercLat_real]
  have e1 : ((xW [] : ℚ) : ℝ) = 0 := by simp [xW, tileX]
  have e2 : ((xE [] : ℚ) : ℝ) = 1 := by simp [xE, tileX, scale]
  have e3 : ((yS [] : ℚ) : ℝ) = 1 := by simp [yS, tileY, scale]
  have e4 : ((yN [] : ℚ) : ℝ) = 0 := by simp [yN, tileY]
  rw [e1, e2, e3, e4]
  constructor
  · rintro ⟨a, b, c, d⟩; exact ⟨by linarith, b, by linarith, d⟩
  · rintro ⟨a, b, c, d⟩; exact ⟨by linarith, b, by linarith, d⟩

open Classical in
/-- every real event inside lon [−180, 180) × lat [−latmax, latmax) is counted exactly once, every other event not at all: the total of
    `spatial_counts` on a `from_catalog` grid (any building catalog `A`, threshold, zoom) -/
theorem counts_on_from_catalog_total_real (thr zoom : ℕ) (A : List Pt) (D : ℕ) (evs : List (ℝ × ℝ × Pt))
    (hok : ∀ e ∈ evs, -90 < e.2.1 ∧ e.2.1 < 90 ∧ ⌊(e.2.2.x : ℝ) * 2 ^ D⌋ = ⌊(e.1 + 180) / 360 * 2 ^ D⌋ ∧
      ⌈(e.2.2.y : ℝ) * 2 ^ D⌉ = ⌈mercY e.2.1 * 2 ^ D⌉) :
    (spatialCountsOn ((fromCatalog thr zoom A).map Prod.fst) (evs.map (·.2.2))).sum =
      evs.countP (fun e => decide (-180 ≤ e.1 ∧ latDeg 1 ≤ e.2.1 ∧ e.1 < 180 ∧ e.2.1 < latDeg 0)) := by
  rw [counts_on_from_catalog_total, List.countP_map]
  apply List.countP_congr
  intro e he
  obtain ⟨h1, h2, hx, hy⟩ := hok e he
  have := domain_real D e.1 e.2.1 h1 h2 e.2.2 hx hy
  simp only [Function.comp, inDomain, decide_eq_true_eq]
  exact this

/-- the hypotheses are satisfiable: the real event (lon, lat) = (0, 0) and its representative (1/2, 1/2) at any depth D ≥ 1 -/
example : ⌊(((⟨1/2, 1/2⟩ : Pt).x : ℚ) : ℝ) * 2 ^ 3⌋ = ⌊((0 : ℝ) + 180) / 360 * 2 ^ 3⌋ := by norm_num

end QuadGridding
