import PycsepVerif.Model.ResampleFull
import PycsepVerif.Properties.C10_Resample

/-!
# C10 — the resampling step of `MLL_magnitude_test(full_calculation=True)`

`Model/ResampleFull.lean`: the union's raw magnitudes `Lambda_u` (in iteration order), `numpy.random.choice(Lambda_u,
size=N_obs)` as `Lambda_u[randint(...)]` with the integers as input, and `numpy.histogram` on the RAW edges extended by
`max + 10`.  Until this round the draws of this mode were recorded inputs of the model.

* `full_count_eq`: the number of events of a resampled catalog is the number of drawn events `numpy.histogram` has a bin
  for — for EVERY integer sequence; hence
* `full_count_conserved`: if every event of the union lies between the first edge and `max + 10` each resampled catalog has
  exactly as many events as integers were drawn (`int(n_obs)`), and
* `full_loses_event`: a draw that hits an event outside (more than 10 units above the last edge, or below the first edge)
  yields a resampled catalog with FEWER than N_obs events — the recorded observation
  `magnitude-more-than-10-above-last-edge` as a theorem about the code;
* `full_resample_is_bincount`, `full_never_from_empty_bin`, `full_identity_draw`: when `numpy.histogram` and the gridded
  counts agree on the union's events (`alignedOK`, decidable, evaluated by the driver on every case) the resampled
  histogram is the gridded histogram of the drawn events, a bin with `Λ_U(k) = 0` is never resampled, and drawing every
  event once gives back `Λ_U`;
* `mll_full_stat_eq_doc`: the MLL test in this mode reports the documented statistic of exactly these histograms.
-/
namespace CatEvals
open Soft64

theorem histBin_lt (mags : List Rat) (hm : mags ≠ []) (v : Rat) (b : Nat) (h : histBin mags v = some b) :
    b < mags.length := by
  have hpos : 0 < mags.length := List.length_pos_iff.mpr hm
  unfold histBin at h
  simp only at h
  split at h
  · cases h
  · split at h
    · injection h with h; omega
    · split at h
      · injection h with h; omega
      · cases h

private theorem length_filterMap_eq {β γ : Type} (f : β → Option γ) (l : List β) :
    (l.filterMap f).length = (l.filter fun a => (f a).isSome).length := by
  induction l with
  | nil => rfl
  | cons a t ih =>
    rw [List.filterMap_cons, List.filter_cons]
    cases h : f a <;> simp [ih]

theorem choiceFull_mem (lam : List MagEv) (idx : List Nat) : ∀ e ∈ choiceFull lam idx, e ∈ lam := by
  intro e he
  obtain ⟨i, _, hi⟩ := List.mem_filterMap.mp he
  exact List.mem_of_getElem? hi

theorem choiceFull_length (lam : List MagEv) (idx : List Nat) (hidx : ∀ i ∈ idx, i < lam.length) :
    (choiceFull lam idx).length = idx.length := by
  unfold choiceFull
  induction idx with
  | nil => rfl
  | cons i t ih =>
    have hi : i < lam.length := hidx i List.mem_cons_self
    rw [List.filterMap_cons, List.getElem?_eq_getElem hi]
    simp [ih (fun j hj => hidx j (List.mem_cons_of_mem _ hj))]

/-- the size of a resampled catalog = number of drawn events that `numpy.histogram` has a bin for -/
theorem full_count_eq (mags : List Rat) (lam : List MagEv) (idx : List Nat) (hm : mags ≠ []) :
    (fullHist mags lam idx).sum =
      ((choiceFull lam idx).filter fun e => (histBin mags e.1).isSome).length ∧
    (fullHist mags lam idx).length = mags.length := by
  unfold fullHist
  refine ⟨?_, by simp [binCount]⟩
  rw [binCount_sum, length_filterMap_eq]
  intro b hb
  obtain ⟨e, _, he⟩ := List.mem_filterMap.mp hb
  exact histBin_lt mags hm e.1 b he

/-- **count conservation, full calculation**: when every event of the union has a `numpy.histogram` bin (first edge ≤ m ≤
    max + 10) every resampled catalog has exactly as many events as integers were drawn -/
theorem full_count_conserved (mags : List Rat) (lam : List MagEv) (idx : List Nat) (hm : mags ≠ [])
    (hidx : ∀ i ∈ idx, i < lam.length) (hin : ∀ e ∈ lam, (histBin mags e.1).isSome = true) :
    (fullHist mags lam idx).sum = idx.length ∧ (fullHist mags lam idx).length = mags.length := by
  obtain ⟨h1, h2⟩ := full_count_eq mags lam idx hm
  refine ⟨?_, h2⟩
  rw [h1, List.filter_eq_self.mpr (fun e he => hin e (choiceFull_mem lam idx e he)), choiceFull_length lam idx hidx]

/-- **an event outside the histogram's range is lost**: if one of the drawn integers points at an event `numpy.histogram`
    has no bin for (more than 10 above the last edge, or below the first edge) the resampled catalog has fewer events
    than were drawn -/
theorem full_loses_event (mags : List Rat) (lam : List MagEv) (idx : List Nat) (hm : mags ≠ [])
    (i : Nat) (hi : i ∈ idx) (e : MagEv) (he : lam[i]? = some e) (hout : histBin mags e.1 = none) :
    (fullHist mags lam idx).sum < idx.length := by
  rw [(full_count_eq mags lam idx hm).1]
  have hmem : e ∈ choiceFull lam idx := List.mem_filterMap.mpr ⟨i, hi, he⟩
  have h1 : ((choiceFull lam idx).filter fun e => (histBin mags e.1).isSome).length < (choiceFull lam idx).length := by
    apply List.length_filter_lt_length_iff_exists.mpr
    exact ⟨e, hmem, by simp [hout]⟩
  have h2 : (choiceFull lam idx).length ≤ idx.length := List.length_filterMap_le _ _
  omega

theorem alignedOK_spec (mags : List Rat) (lam : List MagEv) (h : alignedOK mags lam = true) :
    ∀ e ∈ lam, histBin mags e.1 = e.2 ∧ e.2.isSome = true := by
  intro e he
  unfold alignedOK at h
  rw [List.all_eq_true] at h
  simpa using h e he

/-- with `numpy.histogram` and the gridded counts agreeing on the union's events, the resampled histogram is the gridded
    histogram of the events drawn -/
theorem full_resample_is_bincount (mags : List Rat) (lam : List MagEv) (idx : List Nat)
    (hal : alignedOK mags lam = true) :
    fullHist mags lam idx = binCount mags.length ((choiceFull lam idx).filterMap fun e => e.2) := by
  unfold fullHist
  congr 1
  apply List.filterMap_congr
  intro e he
  exact (alignedOK_spec mags lam hal e (choiceFull_mem lam idx e he)).1

/-- **support**: a magnitude bin without an event of any synthetic catalog is never resampled -/
theorem full_never_from_empty_bin (mags : List Rat) (lam : List MagEv) (idx : List Nat)
    (hal : alignedOK mags lam = true) (k : Nat) (hk : k < mags.length)
    (hz : (unionGridded mags.length lam).getD k 0 = 0) : (fullHist mags lam idx).getD k 0 = 0 := by
  rw [full_resample_is_bincount mags lam idx hal, binCount_getD _ _ _ hk, List.count_eq_zero]
  intro hmem
  obtain ⟨e, he, hek⟩ := List.mem_filterMap.mp hmem
  have hlam : e ∈ lam := choiceFull_mem lam idx e he
  unfold unionGridded at hz
  rw [binCount_getD _ _ _ hk, List.count_eq_zero] at hz
  exact hz (List.mem_filterMap.mpr ⟨e, hlam, hek⟩)

private theorem filterMap_getElem?_range {β : Type} (l : List β) : ∀ n, n ≤ l.length →
    (List.range n).filterMap (fun i => l[i]?) = l.take n
  | 0, _ => by simp
  | n + 1, h => by
    have hn : n < l.length := by omega
    rw [List.range_succ, List.filterMap_append, filterMap_getElem?_range l n (by omega), List.take_add_one,
      List.getElem?_eq_getElem hn]
    simp [hn]

/-- drawing every event of the union exactly once gives back the gridded union histogram -/
theorem full_identity_draw (mags : List Rat) (lam : List MagEv) (hal : alignedOK mags lam = true) :
    fullHist mags lam (List.range lam.length) = unionGridded mags.length lam := by
  rw [full_resample_is_bincount mags lam _ hal]
  unfold choiceFull unionGridded
  rw [filterMap_getElem?_range lam lam.length (Nat.le_refl _), List.take_length]

/-- C10 MLL test, `full_calculation=True`: with the histograms the code builds from ANY drawn integers (one list of
    N_obs per synthetic catalog) the test has status normal, the observed statistic is the documented D_o, the
    distribution is the documented score of exactly these histograms, and — when every event of the union lies in the
    histogram's range — each resampled catalog has exactly N_obs events -/
theorem mll_full_stat_eq_doc (lg : ℝ → ℝ) (K : Nat) (sims : List Grid) (obs : Grid) (mags : List Rat)
    (lam : List MagEv) (idxs : List (List Nat)) (hobs : eventCount obs ≠ 0) (hm : mags ≠ [])
    (hidx : ∀ idx ∈ idxs, idx.length = (magCounts K obs).sum ∧ ∀ i ∈ idx, i < lam.length)
    (hin : ∀ e ∈ lam, (histBin mags e.1).isSome = true) :
    (mllMagnitudeTest (α := ℝ) lg K sims obs (fullDraws mags lam idxs)).status = .normal ∧
    (mllMagnitudeTest (α := ℝ) lg K sims obs (fullDraws mags lam idxs)).observed =
      some (.fin (docMLL lg (unionHist K sims) (magCounts K obs))) ∧
    (mllMagnitudeTest (α := ℝ) lg K sims obs (fullDraws mags lam idxs)).distribution =
      (fullDraws mags lam idxs).map (fun mc => ELL.fin (docMLL lg (unionHist K sims) mc)) ∧
    (∀ mc ∈ fullDraws mags lam idxs, mc.sum = (magCounts K obs).sum ∧ mc.length = mags.length) := by
  obtain ⟨_, h1, h2, h3, _⟩ := mll_stat_eq_doc lg K sims obs (fullDraws mags lam idxs) hobs
  refine ⟨h1, h2, h3, ?_⟩
  intro mc hmc
  obtain ⟨idx, hidx', rfl⟩ := List.mem_map.mp hmc
  obtain ⟨hl, hr⟩ := hidx idx hidx'
  obtain ⟨ha, hb⟩ := full_count_conserved mags lam idx hm hr hin
  exact ⟨by rw [ha, hl], hb⟩

-- non-vacuity: edges 4, 4.5, 5 (top bin open); union events 4.2, 4.7, 5.3, 5.3; draw indices [3, 0, 3]
example : alignedOK [4, 9/2, 5] [(21/5, some 0), (47/10, some 1), (53/10, some 2), (53/10, some 2)] = true := by
  decide +kernel
example : fullHist [4, 9/2, 5] [(21/5, some 0), (47/10, some 1), (53/10, some 2), (53/10, some 2)] [3, 0, 3] = [1, 0, 2] := by
  decide +kernel
-- an event more than 10 units above the last edge is dropped by `numpy.histogram`: 2 drawn, 1 counted
example : (fullHist [4, 9/2, 5] [(21/5, some 0), (16, some 2)] [1, 0]).sum < 2 :=
  full_loses_event _ _ _ (by simp) 1 (by simp) (16, some 2) (by simp) (by decide +kernel)

end CatEvals
