import PycsepVerif.Model.PoissonSession
import PycsepVerif.Proofs.RealInst

/-!
# C05, round 5 — histories on shared objects

What a Poisson test reports depends on what forecast and catalog ARE at call time (stored rates × the LAST scale factor, the
magnitude edges bound LAST to the shared region, the catalog's events as they are now) — never on which evaluations were made
before. Statements hold for every `RealOps` instance (no real analysis needed), every history length.
-/
namespace PoissonSession
variable {α : Type} [RealOps α]
open RealOps PoissonLL PoissonTest

/-- an evaluation step: any of the four Poisson tests or an evaluation / read of another family -/
def IsEval : Op α → Prop
  | .test _ _ _ => True
  | .otherEval => True
  | _ => False

theorem counts_step_eval (s : State α) (op : Op α) (h : IsEval op) (ncell c : Nat) :
    counts (step s op) ncell c = counts s ncell c := by
  cases op with
  | test m k c' =>
    unfold counts step
    simp only [List.getElem?_modify]
    by_cases hc : c' = c
    · subst hc
      cases s.cats[c']? <;> simp
    · simp [hc]
  | otherEval => rfl
  | newForecast _ _ => exact absurd h (by simp [IsEval])
  | scale _ _ => exact absurd h (by simp [IsEval])
  | scaleBy _ _ => exact absurd h (by simp [IsEval])
  | setEdges _ => exact absurd h (by simp [IsEval])
  | editMag _ _ _ => exact absurd h (by simp [IsEval])

/-- **an evaluation leaves every later statistic unchanged**: after any Poisson test (incl. its region binding) or any
    other evaluation, every test of every forecast against every catalog reports what it would have reported before -/
theorem eval_preserves_observables (s : State α) (op : Op α) (h : IsEval op) (ncell : Nat) (m : Mode) (k c : Nat) :
    observe (step s op) ncell m k c = observe s ncell m k c := by
  unfold observe
  rw [counts_step_eval s op h]
  cases op with
  | test m' k' c' => rfl
  | otherEval => rfl
  | newForecast _ _ => exact absurd h (by simp [IsEval])
  | scale _ _ => exact absurd h (by simp [IsEval])
  | scaleBy _ _ => exact absurd h (by simp [IsEval])
  | setEdges _ => exact absurd h (by simp [IsEval])
  | editMag _ _ _ => exact absurd h (by simp [IsEval])

/-- **a whole history of evaluations is invisible** -/
theorem evaluations_irrelevant (ops : List (Op α)) (hall : ∀ op ∈ ops, IsEval op) (s : State α) (ncell : Nat)
    (m : Mode) (k c : Nat) : observe (ops.foldl step s) ncell m k c = observe s ncell m k c := by
  induction ops generalizing s with
  | nil => rfl
  | cons op ops ih =>
    simp only [List.foldl_cons]
    rw [ih (fun o ho => hall o (List.mem_cons_of_mem _ ho)), eval_preserves_observables s op (hall op List.mem_cons_self)]

/-- **scale factors are absolute**: two `scale` calls leave the forecast as the second alone would -/
theorem scale_absolute (s : State α) (k : Nat) (c₁ c₂ : α) :
    step (step s (.scale k c₁)) (.scale k c₂) = step s (.scale k c₂) := by
  unfold step
  simp only [List.modify_modify_eq]
  rfl

/-- the rates a test sees after `scale k c`: the stored rates times c, whatever the scale was before -/
theorem data_after_scale (s : State α) (k : Nat) (c : α) (f : Fore α) (hf : s.fores[k]? = some f) :
    ((step s (.scale k c)).fores[k]?).map Fore.data =
      some (f.stored.map (fun row => row.map (fun x => mul x c))) := by
  unfold step
  simp only [List.getElem?_modify, hf, ↓reduceIte, Option.map_some]
  rfl

/-- **array-valued factors are absolute too**: whatever was set before — a scalar, another array — after `scale(w)` the
    forecast IS `stored ⊙ w` (numpy broadcasting); nothing of the earlier factor survives -/
theorem scaleBy_absolute (s : State α) (k : Nat) (w₁ w₂ : Factor α) (c : α) :
    step (step s (.scaleBy k w₁)) (.scaleBy k w₂) = step s (.scaleBy k w₂) ∧
    step (step s (.scale k c)) (.scaleBy k w₂) = step s (.scaleBy k w₂) ∧
    step (step s (.scaleBy k w₁)) (.scale k c) = step s (.scale k c) := by
  refine ⟨?_, ?_, ?_⟩ <;> (unfold step; simp only [List.modify_modify_eq]; rfl)

/-- the rates a test sees after `scale(w)`: the STORED rates times w, elementwise with numpy's broadcasting -/
theorem data_after_scaleBy (s : State α) (k : Nat) (w : Factor α) (f : Fore α) (hf : s.fores[k]? = some f) :
    ((step s (.scaleBy k w)).fores[k]?).map Fore.data = some (w.apply f.stored) := by
  unfold step
  simp only [List.getElem?_modify, hf, ↓reduceIte, Option.map_some]
  rfl

/-- **constructing a further forecast on the shared region re-binds the edges for everybody**: afterwards every test —
    also of the older forecasts — grids the catalog with the new edges -/
theorem new_forecast_rebinds (s : State α) (stored : List (List α)) (edges : List Rat) :
    (step s (.newForecast stored edges)).edges = edges ∧
    (step s (.newForecast stored edges)).cats = s.cats ∧
    ∀ (k : Nat) (f : Fore α), s.fores[k]? = some f → (step s (.newForecast stored edges)).fores[k]? = some f := by
  refine ⟨rfl, rfl, ?_⟩
  intro k f hf
  unfold step
  simp only
  rw [List.getElem?_append_left (List.getElem?_eq_some_iff.mp hf).1]
  exact hf

/-- **D40**: the L and CL tests bind a space-magnitude region to a catalog that has none; S and M leave the catalog's
    region alone; a catalog that has a space-magnitude region keeps it -/
theorem test_binds_region (m : Mode) :
    (bindRegion m .full = .full) ∧
    (bindRegion .L .none = .full ∧ bindRegion .L .spatialOnly = .full ∧ bindRegion .L .spatialOther = .full ∧
     bindRegion .CL .none = .full ∧ bindRegion .CL .spatialOnly = .full ∧ bindRegion .CL .spatialOther = .full) ∧
    (∀ r, bindRegion .S r = r ∧ bindRegion .M r = r) := by
  refine ⟨by cases m <;> rfl, ⟨rfl, rfl, rfl, rfl, rfl, rfl⟩, ?_⟩
  intro r; cases r <;> exact ⟨rfl, rfl⟩

/-- what `runOps` collects for a test step is `observe` in the state reached so far -/
theorem runOps_test_head (ncell : Nat) (s : State α) (m : Mode) (k c : Nat) (ops : List (Op α)) :
    runOps ncell s (.test m k c :: ops) = observe s ncell m k c :: runOps ncell (step s (.test m k c)) ops := rfl

/-! ### non-vacuity (ℝ): a test, a T-test-like evaluation and a second test report the same value -/
example (s : State ℝ) : observe (([.test .L 0 0, .otherEval, .test .CL 1 0] : List (Op ℝ)).foldl step s) 2 .L 0 0
    = observe s 2 .L 0 0 :=
  evaluations_irrelevant _ (by intro op hop; simp at hop; rcases hop with rfl | rfl | rfl <;> simp [IsEval]) s 2 .L 0 0

example : bindRegion .CL .none = .full := rfl

-- round 5: the edges a space-magnitude region bins on are the edges the user supplied. Witness that "cleaning" them changes
-- counts: with the supplied edges 4, 4.125, 4.25 an event of magnitude 4.122 lies in bin 0; with the edges rounded to two
-- decimals (4, 4.12, 4.25) it lies in bin 1 (kernel-evaluated on C03's exact `magBin`)
example : Gridding.magBin [4, 33 / 8, 17 / 4] (4122 / 1000) = some 0 ∧
    Gridding.magBin [4, 412 / 100, 425 / 100] (4122 / 1000) = some 1 := by decide +kernel

end PoissonSession
