import PycsepVerif.Proofs.ForecastIter

/-!
# C13 — a catalog forecast is a stable, re-iterable collection

Theorems about `Model/ForecastIter.lean` (the transcription of `CatalogForecast.__next__`, `get_event_counts`,
`get_expected_rates`, `spatial_counts`, `magnitude_counts` and of the way the catalog tests use a forecast).
The specification is the fixed list `filtered = file.map (applyOnce applyFilters)`: every operation's answer is a
function of that list alone.  `refines_spec` holds for operation histories of EVERY length.
-/
namespace ForecastIter

/-- the catalogs of the forecast with the configured filters applied exactly once -/
def filtered (file : List Cat) (af0 : Bool) : List Cat := file.map (applyOnce af0)

/-- the invariant that holds between two operations -/
structure Inv (file : List Cat) (af0 : Bool) (nBins nMag : Nat) (st : St) : Prop where
  hfile : st.file = file
  hnb : st.nBins = nBins
  hnm : st.nMag = nMag
  /-- the cursor is at the front -/
  hidx : st.idx = 0
  /-- either a list (in memory, or the complete cache swapped in) whose catalogs become `filtered` under the filters
      still switched on (filters are idempotent), with a correct `n_cat`; or a fresh generator over the file with
      an empty cache and the original filter switch -/
  hmode : (st.isGen = false ∧ st.nCat = some st.catalogs.length ∧
            st.catalogs.map (fstep st.applyFilters) = filtered file af0)
        ∨ (st.isGen = true ∧ st.catalogs = file ∧ st.cache = [] ∧ st.applyFilters = af0 ∧
            ((st.eventCounts = [] ∧ st.expectedRates = none) ∨ st.nCat = some file.length))
  /-- the recorded event counts are empty or those of one pass -/
  hec : st.eventCounts = [] ∨ st.eventCounts = (filtered file af0).map (·.events.length)
  /-- the cached expected rates are absent or the per-bin totals over the number of catalogs -/
  her : st.expectedRates = none ∨
        st.expectedRates = some (totals nBins (filtered file af0), (filtered file af0).length)

theorem filtered_length (file : List Cat) (af0 : Bool) : (filtered file af0).length = file.length := by
  simp [filtered]

private theorem map_fstep_idem (b : Bool) (l : List Cat) : (l.map (fstep b)).map (fstep b) = l.map (fstep b) := by
  simp [List.map_map, Function.comp_def, fstep_idem]

/-- **one complete pass** from any state between operations yields exactly the once-filtered catalogs in order,
    records their event counts (of this single pass), leaves `n_cat` correct and the invariant intact -/
theorem pass_spec {file : List Cat} {af0 : Bool} {nBins nMag : Nat} {st : St}
    (hinv : Inv file af0 nBins nMag st) :
    ∃ st', fullPass st = some (st', filtered file af0) ∧ Inv file af0 nBins nMag st' ∧
      st'.eventCounts = (filtered file af0).map (·.events.length) ∧
      st'.nCat = some file.length ∧ st'.expectedRates = st.expectedRates := by
  obtain ⟨hfile, hnb, hnm, hidx, hmode, hec, her⟩ := hinv
  obtain ⟨file', catalogs, isGen, cache, store, af, nCat, idx, ec, er, nb, nm⟩ := st
  simp only at hfile hnb hnm hidx hmode hec her
  subst hfile hnb hnm hidx
  rcases hmode with ⟨hg, hn, hcat⟩ | ⟨hg, hcat, hcache, haf, _⟩
  · -- list
    subst hg hn
    have hlen : catalogs.length = file'.length := by
      have := congrArg List.length hcat; simpa [filtered] using this
    have h := list_loop catalogs []
      { file := file', catalogs := catalogs, isGen := false, cache := cache, store := store, applyFilters := af,
        nCat := some catalogs.length, idx := 0, eventCounts := ec, expectedRates := er, nBins := nb, nMag := nm }
      [] (catalogs.length + file'.length + 2) rfl (by simp) rfl (by simp) (by omega)
    simp only [List.nil_append, ecEff, ↓reduceIte] at h
    rw [hcat] at h
    refine ⟨_, h, ⟨rfl, rfl, rfl, rfl, ?_, Or.inr rfl, her⟩, rfl, ?_, rfl⟩
    · left
      refine ⟨rfl, ?_, ?_⟩
      · simp [filtered, hlen]
      · simp only; rw [← hcat, map_fstep_idem]
    · simp [hlen]
  · -- generator
    subst hg hcache haf
    obtain rfl : catalogs = file' := hcat
    have h := gen_loop catalogs
      { file := catalogs, catalogs := catalogs, isGen := true, cache := [], store := store, applyFilters := af,
        nCat := nCat, idx := 0, eventCounts := ec, expectedRates := er, nBins := nb, nMag := nm }
      [] (catalogs.length + catalogs.length + 2) rfl rfl (by omega)
    cases store
    · simp only [afterStop, genDone, ecEff, fstep_eq_applyOnce, List.nil_append, Nat.zero_add, ↓reduceIte,
        Bool.false_eq_true] at h
      refine ⟨_, h, ⟨rfl, rfl, rfl, rfl, ?_, Or.inr rfl, her⟩, rfl, rfl, rfl⟩
      right
      exact ⟨rfl, rfl, rfl, rfl, Or.inr rfl⟩
    · simp only [afterStop, genDone, ecEff, fstep_eq_applyOnce, List.nil_append, Nat.zero_add, ↓reduceIte] at h
      refine ⟨_, h, ⟨rfl, rfl, rfl, rfl, ?_, Or.inr rfl, her⟩, rfl, rfl, rfl⟩
      left
      refine ⟨rfl, ?_, ?_⟩
      · simp
      · simp [filtered, fstep]

/-- every complete pass yields the once-filtered catalogs, in order -/
theorem pass_yields_filtered {file : List Cat} {af0 : Bool} {nBins nMag : Nat} {st : St}
    (hinv : Inv file af0 nBins nMag st) : (fullPass st).map (·.2) = some (filtered file af0) := by
  obtain ⟨st', h, _⟩ := pass_spec hinv
  rw [h]; rfl

/-- `n_cat` is known and correct as soon as event counts or expected rates exist -/
private theorem nCat_of_known {file : List Cat} {af0 : Bool} {nBins nMag : Nat} {st : St}
    (hinv : Inv file af0 nBins nMag st) (hne : file ≠ [])
    (hk : st.eventCounts ≠ [] ∨ st.expectedRates ≠ none) : st.nCat = some file.length := by
  rcases hinv.hmode with ⟨_, hn, hcat⟩ | ⟨_, _, _, _, h⟩
  · have := congrArg List.length hcat
    simp [filtered] at this
    rw [hn, this]
  · rcases h with ⟨h1, h2⟩ | h
    · rcases hk with hk | hk
      · exact absurd h1 hk
      · exact absurd h2 hk
    · exact h

/-- **one operation**: its output is the specification's, the invariant is kept, `n_cat` is correct afterwards.
    The cached expected rates, once present, are never replaced. -/
theorem step_spec {file : List Cat} {af0 : Bool} {nBins nMag : Nat} {st : St}
    (hinv : Inv file af0 nBins nMag st) (hne : file ≠ []) (op : Op) :
    (step st op).2 = specOut (filtered file af0) nBins nMag op ∧
    Inv file af0 nBins nMag (step st op).1 ∧ (step st op).1.nCat = some file.length := by
  have hfne : filtered file af0 ≠ [] := by
    intro h; exact hne (List.eq_nil_of_length_eq_zero (by rw [← filtered_length file af0, h]; rfl))
  have hflen := filtered_length file af0
  -- get_event_counts
  have hEC : ∃ st', getEventCounts st = some (st', (filtered file af0).map (·.events.length)) ∧
      Inv file af0 nBins nMag st' ∧ st'.nCat = some file.length := by
    unfold getEventCounts
    by_cases h0 : st.eventCounts.length = 0
    · obtain ⟨st', hp, hi', hec', hn', _⟩ := pass_spec hinv
      simp only [h0, ↓reduceIte, hp]
      exact ⟨st', by rw [hec'], hi', hn'⟩
    · have hne' : st.eventCounts ≠ [] := fun h => h0 (by rw [h]; rfl)
      simp only [h0, ↓reduceIte]
      rcases hinv.hec with h | h
      · exact absurd h hne'
      · exact ⟨st, by rw [h], hinv, nCat_of_known hinv hne (Or.inl hne')⟩
  -- get_expected_rates
  have hER : ∃ st', getExpectedRates st =
        some (st', (totals nBins (filtered file af0), (filtered file af0).length)) ∧
      Inv file af0 nBins nMag st' ∧ st'.nCat = some file.length ∧
      st'.expectedRates = some (totals nBins (filtered file af0), (filtered file af0).length) := by
    unfold getExpectedRates
    rcases hinv.her with h | h
    · obtain ⟨st', hp, hi', hec', hn', her'⟩ := pass_spec hinv
      obtain ⟨c, cs, hcs⟩ := List.exists_cons_of_ne_nil hfne
      simp only [h, hp, hinv.hnb, hn']
      rw [hcs, accumulate_eq_totals, ← hcs]
      simp only [hflen]
      refine ⟨_, rfl, ?_, by simpa using hn', rfl⟩
      refine ⟨hi'.hfile, hi'.hnb, hi'.hnm, hi'.hidx, ?_, hi'.hec, Or.inr (by simp [hflen])⟩
      rcases hi'.hmode with hm | ⟨a, b, c', d, _⟩
      · refine Or.inl ⟨hm.1, ?_, hm.2.2⟩
        have := hm.2.1
        rw [hn'] at this
        simpa using this
      · exact Or.inr ⟨a, b, c', d, Or.inr (by simp)⟩
    · simp only [h]
      exact ⟨st, rfl, hinv, nCat_of_known hinv hne (Or.inr (by rw [h]; simp)), h⟩
  cases op with
  | fullPass =>
    obtain ⟨st', hp, hi', _, hn', _⟩ := pass_spec hinv
    simp only [step, hp, specOut]; exact ⟨trivial, hi', hn'⟩
  | numberTest =>
    obtain ⟨st', hp, hi', _, hn', _⟩ := pass_spec hinv
    simp only [step, hp, specOut]; exact ⟨trivial, hi', hn'⟩
  | getEventCounts =>
    obtain ⟨st', he, hi', hn'⟩ := hEC
    simp only [step, he, specOut]; exact ⟨trivial, hi', hn'⟩
  | getExpectedRates =>
    obtain ⟨st', he, hi', hn', _⟩ := hER
    simp only [step, withRates, he, specOut, id]; exact ⟨trivial, hi', hn'⟩
  | spatialCounts =>
    obtain ⟨st', he, hi', hn', _⟩ := hER
    simp only [step, withRates, he, specOut, hinv.hnb, hinv.hnm]; exact ⟨trivial, hi', hn'⟩
  | magnitudeCounts =>
    obtain ⟨st', he, hi', hn', _⟩ := hER
    simp only [step, withRates, he, specOut, hinv.hnm]; exact ⟨trivial, hi', hn'⟩
  | spatialTest =>
    obtain ⟨st', he, hi', _, _⟩ := hER
    obtain ⟨st'', hp, hi'', _, hn'', _⟩ := pass_spec hi'
    simp only [step, he, hp, specOut]; exact ⟨trivial, hi'', hn''⟩
  | magnitudeTest =>
    obtain ⟨st', he, hi', _, _⟩ := hER
    obtain ⟨st'', hp, hi'', _, hn'', _⟩ := pass_spec hi'
    simp only [step, he, hp, specOut]; exact ⟨trivial, hi'', hn''⟩

/-- **refinement**: from any state satisfying the invariant, every operation history — of any length, in any
    order — produces exactly the outputs of the specification, a function of the once-filtered catalogs alone -/
theorem refines_spec {file : List Cat} {af0 : Bool} {nBins nMag : Nat} (hne : file ≠ []) :
    ∀ (ops : List Op) (st : St), Inv file af0 nBins nMag st →
      run st ops = spec (filtered file af0) nBins nMag ops
  | [], _, _ => rfl
  | op :: ops, st, hinv => by
    obtain ⟨hout, hi', hn'⟩ := step_spec hinv hne op
    have ih := refines_spec hne ops (step st op).1 hi'
    simp only [run, spec, List.map_cons]
    rw [hout, hn', ih]
    simp [spec, filtered_length]

/-- the in-memory constructor establishes the invariant (with `n_cat` given correctly or not given) -/
theorem inv_initList (cats : List Cat) (nCat : Option Nat) (af : Bool) (nBins nMag : Nat)
    (hn : nCat = none ∨ nCat = some cats.length) : Inv cats af nBins nMag (initList cats nCat af nBins nMag) := by
  refine ⟨rfl, rfl, rfl, rfl, Or.inl ⟨rfl, ?_, rfl⟩, Or.inl rfl, Or.inl rfl⟩
  rcases hn with rfl | rfl <;> rfl

/-- the file loader establishes the invariant (store on or off) -/
theorem inv_initStream (file : List Cat) (store af : Bool) (nBins nMag : Nat) :
    Inv file af nBins nMag (initStream file store af nBins nMag) :=
  ⟨rfl, rfl, rfl, rfl, Or.inr ⟨rfl, rfl, rfl, rfl, Or.inl ⟨rfl, rfl⟩⟩, Or.inl rfl, Or.inl rfl⟩

/-- **C13 for catalogs given in memory** (with or without `n_cat`; filters on or off) -/
theorem refines_spec_list (cats : List Cat) (hne : cats ≠ []) (nCat : Option Nat)
    (hn : nCat = none ∨ nCat = some cats.length) (af : Bool) (nBins nMag : Nat) (ops : List Op) :
    run (initList cats nCat af nBins nMag) ops = spec (filtered cats af) nBins nMag ops :=
  refines_spec hne ops _ (inv_initList cats nCat af nBins nMag hn)

/-- **C13 for catalogs streamed from file**, cached (`store = true`) or re-read on each pass (`store = false`) -/
theorem refines_spec_stream (file : List Cat) (hne : file ≠ []) (store af : Bool) (nBins nMag : Nat)
    (ops : List Op) :
    run (initStream file store af nBins nMag) ops = spec (filtered file af) nBins nMag ops :=
  refines_spec hne ops _ (inv_initStream file store af nBins nMag)

/-- the three ways of giving the catalogs are observationally the same forecast -/
theorem sources_agree (file : List Cat) (hne : file ≠ []) (af : Bool) (nBins nMag : Nat) (ops : List Op) :
    run (initList file none af nBins nMag) ops = run (initStream file true af nBins nMag) ops ∧
    run (initStream file true af nBins nMag) ops = run (initStream file false af nBins nMag) ops := by
  rw [refines_spec_list file hne none (Or.inl rfl), refines_spec_stream file hne true,
    refines_spec_stream file hne false]
  exact ⟨rfl, rfl⟩

/-- `get_event_counts()` after any history equals the per-catalog counts of a single pass -/
theorem eventCounts_single_pass {file : List Cat} {af0 : Bool} {nBins nMag : Nat} (hne : file ≠ []) {st : St}
    (hinv : Inv file af0 nBins nMag st) (ops : List Op) :
    run st (ops ++ [Op.getEventCounts]) = run st ops ++
      [(Out.counts ((filtered file af0).map (·.events.length)), some file.length)] := by
  rw [refines_spec hne _ st hinv, refines_spec hne _ st hinv]
  simp [spec, specOut, filtered_length]

/-- `n_cat` is the number of catalogs after every operation of every history -/
theorem nCat_correct {file : List Cat} {af0 : Bool} {nBins nMag : Nat} (hne : file ≠ []) {st : St}
    (hinv : Inv file af0 nBins nMag st) (ops : List Op) :
    ∀ o ∈ run st ops, o.2 = some file.length := by
  rw [refines_spec hne _ st hinv]
  intro o ho
  simp only [spec, List.mem_map] at ho
  obtain ⟨_, _, rfl⟩ := ho
  simp [filtered_length]

/-- **expected rates = per-bin mean**: entry j of the forecast is (Σ over catalogs of the number of surviving
    events in bin j) / n_cat -/
theorem expectedRates_eq_mean {file : List Cat} {af0 : Bool} {nBins nMag : Nat} (hne : file ≠ []) {st : St}
    (hinv : Inv file af0 nBins nMag st) (ops : List Op) :
    (run st (ops ++ [Op.getExpectedRates])).getLast? =
      some (Out.rates ((List.range nBins).map (fun j => ((filtered file af0).map (fun c => cnt c j)).sum))
              file.length, some file.length) := by
  rw [refines_spec hne _ st hinv]
  simp [spec, specOut, totals, cnt, filtered_length]

/-- **expected rates are returned identically on every request**, wherever the requests sit in a history -/
theorem expectedRates_stable {file : List Cat} {af0 : Bool} {nBins nMag : Nat} (hne : file ≠ []) {st : St}
    (hinv : Inv file af0 nBins nMag st) (ops₁ ops₂ : List Op) :
    (run st (ops₁ ++ [Op.getExpectedRates])).getLast? =
    (run st (ops₁ ++ [Op.getExpectedRates] ++ ops₂ ++ [Op.getExpectedRates])).getLast? := by
  rw [refines_spec hne _ st hinv, refines_spec hne _ st hinv]
  simp only [spec, List.map_append, List.map_cons, List.map_nil]
  rw [List.getLast?_append, List.getLast?_append]
  simp

/-! ### non-vacuity: concrete histories evaluated by the kernel -/

def ev (k : Bool) (c : Nat) : Ev := { keep := k, cell := c }
def demo : List Cat :=
  [{ id := 0, events := [ev true 0, ev false 1] }, { id := 1, events := [] }, { id := 2, events := [ev true 3, ev true 3] }]

-- streamed and cached, filters on: pass, counts, rates, pass, rates
example : run (initStream demo true true 4 2)
      [.fullPass, .getEventCounts, .getExpectedRates, .fullPass, .getExpectedRates]
    = spec (filtered demo true) 4 2 [.fullPass, .getEventCounts, .getExpectedRates, .fullPass, .getExpectedRates] := by
  decide +kernel
example : (run (initStream demo false true 4 2) [.getExpectedRates]).map (·.1) = [.rates [1, 0, 0, 2] 3] := by
  decide +kernel
-- a wrong n_cat for an in-memory list is outside the hypotheses: the assertion of `__next__` fails
example : run (initList demo (some 2) false 4 2) [.fullPass] = [(.error, some 2)] := by decide +kernel

/-! ### finding (current code): an aborted pass is not restarted

`get_expected_rates()` raises ValueError inside its pass when a catalog has an event outside the region (spatial
filter off); any `break` does the same to the cursor.  The forecast is left where the last `__next__` put it, and
the NEXT complete for-loop yields only the remaining catalogs: the statement "every complete pass yields the same
catalogs" fails on such a history.  Kernel-checked witnesses for the three ways of giving the catalogs; replayed on
the real code by harness/c13.py (signature `catalog-forecast:aborted-pass-not-restarted`). -/

/-- after a pass aborted behind the second of three catalogs the next complete loop yields only the third one
    (in-memory list, streamed + cached, streamed and re-read) — it is NOT the specification's `filtered demo` -/
theorem finding_aborted_pass_not_restarted :
    (fullPass (nextN 2 (initList demo none false 4 2))).map (·.2) = some (demo.drop 2) ∧
    (fullPass (nextN 2 (initStream demo true false 4 2))).map (·.2) = some (demo.drop 2) ∧
    (fullPass (nextN 2 (initStream demo false false 4 2))).map (·.2) = some (demo.drop 2) ∧
    demo.drop 2 ≠ filtered demo false := by
  decide +kernel

/-- the loop after that is complete again -/
example : ((fullPass (nextN 2 (initList demo none false 4 2))).bind (fun r => fullPass r.1)).map (·.2)
    = some (filtered demo false) := by decide +kernel

end ForecastIter
