import PycsepVerif.Proofs.ForecastIter

/-!
# C13 — a catalog forecast is a stable, re-iterable collection

Theorems about `Model/ForecastIter.lean` (the transcription of `CatalogForecast.__next__`, `get_event_counts`,
`get_expected_rates`, `spatial_counts`, `magnitude_counts` and of the way the catalog tests use a forecast).
The specification is the fixed list `filtered = file.map (applyOnce applyFilters)`: every operation's answer is a
function of that list alone.  `refines_spec` holds for operation histories of EVERY length.
-/
namespace ForecastIter

/-- the catalogs of the forecast with the configured filters applied exactly once -/
def filtered (file : List Cat) (af0 : Bool) : List Cat := file.map (applyOnce af0)

/-- the invariant that holds between two operations -/
structure Inv (file : List Cat) (af0 : Bool) (nBins nMag : Nat) (st : St) : Prop where
  hfile : st.file = file
  hnb : st.nBins = nBins
  hnm : st.nMag = nMag
  /-- the cursor is at the front -/
  hidx : st.idx = 0
  /-- either a list (in memory, or the complete cache swapped in) whose catalogs become `filtered` under the filters
      still switched on (filters are idempotent), with a correct `n_cat`; or a fresh generator over the file with
      an empty cache and the original filter switch -/
  hmode : (st.isGen = false ∧ st.nCat = some st.catalogs.length ∧
            st.catalogs.map (fstep st.applyFilters) = filtered file af0)
        ∨ (st.isGen = true ∧ st.catalogs = file ∧ st.cache = [] ∧ st.applyFilters = af0 ∧
            ((st.eventCounts = [] ∧ st.expectedRates = none) ∨ st.nCat = some file.length))
  /-- the recorded event counts are empty or those of one pass -/
  hec : st.eventCounts = [] ∨ st.eventCounts = (filtered file af0).map (·.events.length)
  /-- the cached expected rates are absent or the per-bin totals over the number of catalogs -/
  her : st.expectedRates = none ∨
        st.expectedRates = some (totals nBins (filtered file af0), (filtered file af0).length)

theorem filtered_length (file : List Cat) (af0 : Bool) : (filtered file af0).length = file.length := by
  simp [filtered]

private theorem map_fstep_idem (b : Bool) (l : List Cat) : (l.map (fstep b)).map (fstep b) = l.map (fstep b) := by
  simp [List.map_map, Function.comp_def, fstep_idem]

/-- **one complete pass** from any state between operations yields exactly the once-filtered catalogs in order,
    records their event counts (of this single pass), leaves `n_cat` correct and the invariant intact -/
theorem pass_spec {file : List Cat} {af0 : Bool} {nBins nMag : Nat} {st : St}
    (hinv : Inv file af0 nBins nMag st) :
    ∃ st', fullPass st = some (st', filtered file af0) ∧ Inv file af0 nBins nMag st' ∧
      st'.eventCounts = (filtered file af0).map (·.events.length) ∧
      st'.nCat = some file.length ∧ st'.expectedRates = st.expectedRates := by
  obtain ⟨hfile, hnb, hnm, hidx, hmode, hec, her⟩ := hinv
  obtain ⟨file', catalogs, isGen, cache, store, af, nCat, idx, ec, er, nb, nm⟩ := st
  simp only at hfile hnb hnm hidx hmode hec her
  subst hfile hnb hnm hidx
  rcases hmode with ⟨hg, hn, hcat⟩ | ⟨hg, hcat, hcache, haf, _⟩
  · -- list
    subst hg hn
    have hlen : catalogs.length = file'.length := by
      have := congrArg List.length hcat; simpa [filtered] using this
    have h := list_loop catalogs []
      { file := file', catalogs := catalogs, isGen := false, cache := cache, store := store, applyFilters := af,
        nCat := some catalogs.length, idx := 0, eventCounts := ec, expectedRates := er, nBins := nb, nMag := nm }
      [] (catalogs.length + file'.length + 2) rfl (by simp) rfl (by simp) (by omega)
    simp only [List.nil_append, ecEff, ↓reduceIte] at h
    rw [hcat] at h
    refine ⟨_, h, ⟨rfl, rfl, rfl, rfl, ?_, Or.inr rfl, her⟩, rfl, ?_, rfl⟩
    · left
      refine ⟨rfl, ?_, ?_⟩
      · simp [filtered, hlen]
      · simp only; rw [← hcat, map_fstep_idem]
    · simp [hlen]
  · -- generator
    subst hg hcache haf
    obtain rfl : catalogs = file' := hcat
    have h := gen_loop catalogs
      { file := catalogs, catalogs := catalogs, isGen := true, cache := [], store := store, applyFilters := af,
        nCat := nCat, idx := 0, eventCounts := ec, expectedRates := er, nBins := nb, nMag := nm }
      [] (catalogs.length + catalogs.length + 2) rfl rfl (by omega)
    cases store
    · simp only [afterStop, genDone, ecEff, fstep_eq_applyOnce, List.nil_append, Nat.zero_add, ↓reduceIte,
        Bool.false_eq_true] at h
      refine ⟨_, h, ⟨rfl, rfl, rfl, rfl, ?_, Or.inr rfl, her⟩, rfl, rfl, rfl⟩
      right
      exact ⟨rfl, rfl, rfl, rfl, Or.inr rfl⟩
    · simp only [afterStop, genDone, ecEff, fstep_eq_applyOnce, List.nil_append, Nat.zero_add, ↓reduceIte] at h
      refine ⟨_, h, ⟨rfl, rfl, rfl, rfl, ?_, Or.inr rfl, her⟩, rfl, rfl, rfl⟩
      left
      refine ⟨rfl, ?_, ?_⟩
      · simp
      · simp [filtered, fstep]

/-- every complete pass yields the once-filtered catalogs, in order -/
theorem pass_yields_filtered {file : List Cat} {af0 : Bool} {nBins nMag : Nat} {st : St}
    (hinv : Inv file af0 nBins nMag st) : (fullPass st).map (·.2) = some (filtered file af0) := by
  obtain ⟨st', h, _⟩ := pass_spec hinv
  rw [h]; rfl

/-- `n_cat` is known and correct as soon as event counts or expected rates exist -/
private theorem nCat_of_known {file : List Cat} {af0 : Bool} {nBins nMag : Nat} {st : St}
    (hinv : Inv file af0 nBins nMag st) (hne : file ≠ [])
    (hk : st.eventCounts ≠ [] ∨ st.expectedRates ≠ none) : st.nCat = some file.length := by
  rcases hinv.hmode with ⟨_, hn, hcat⟩ | ⟨_, _, _, _, h⟩
  · have := congrArg List.length hcat
    simp [filtered] at this
    rw [hn, this]
  · rcases h with ⟨h1, h2⟩ | h
    · rcases hk with hk | hk
      · exact absurd h1 hk
      · exact absurd h2 hk
    · exact h

/-- **one operation**: its output is the specification's, the invariant is kept, `n_cat` is correct afterwards.
    The cached expected rates, once present, are never replaced. -/
theorem step_spec {file : List Cat} {af0 : Bool} {nBins nMag : Nat} {st : St}
    (hinv : Inv file af0 nBins nMag st) (hne : file ≠ []) (op : Op) :
    (step st op).2 = specOut (filtered file af0) nBins nMag op ∧
    Inv file af0 nBins nMag (step st op).1 ∧ (step st op).1.nCat = some file.length := by
  have hfne : filtered file af0 ≠ [] := by
    intro h; exact hne (List.eq_nil_of_length_eq_zero (by rw [← filtered_length file af0, h]; rfl))
  have hflen := filtered_length file af0
  -- get_event_counts
  have hEC : ∃ st', getEventCounts st = some (st', (filtered file af0).map (·.events.length)) ∧
      Inv file af0 nBins nMag st' ∧ st'.nCat = some file.length := by
    unfold getEventCounts
    by_cases h0 : st.eventCounts.length = 0
    · obtain ⟨st', hp, hi', hec', hn', _⟩ := pass_spec hinv
      simp only [h0, ↓reduceIte, hp]
      exact ⟨st', by rw [hec'], hi', hn'⟩
    · have hne' : st.eventCounts ≠ [] := fun h => h0 (by rw [h]; rfl)
      simp only [h0, ↓reduceIte]
      rcases hinv.hec with h | h
      · exact absurd h hne'
      · exact ⟨st, by rw [h], hinv, nCat_of_known hinv hne (Or.inl hne')⟩
  -- get_expected_rates
  have hER : ∃ st', getExpectedRates st =
        some (st', (totals nBins (filtered file af0), (filtered file af0).length)) ∧
      Inv file af0 nBins nMag st' ∧ st'.nCat = some file.length ∧
      st'.expectedRates = some (totals nBins (filtered file af0), (filtered file af0).length) := by
    unfold getExpectedRates
    rcases hinv.her with h | h
    · obtain ⟨st', hp, hi', hec', hn', her'⟩ := pass_spec hinv
      obtain ⟨c, cs, hcs⟩ := List.exists_cons_of_ne_nil hfne
      simp only [h, hp, hinv.hnb, hn']
      rw [hcs, accumulate_eq_totals, ← hcs]
      simp only [hflen]
      refine ⟨_, rfl, ?_, by simpa using hn', rfl⟩
      refine ⟨hi'.hfile, hi'.hnb, hi'.hnm, hi'.hidx, ?_, hi'.hec, Or.inr (by simp [hflen])⟩
      rcases hi'.hmode with hm | ⟨a, b, c', d, _⟩
      · refine Or.inl ⟨hm.1, ?_, hm.2.2⟩
        have := hm.2.1
        rw [hn'] at this
        simpa using this
      · exact Or.inr ⟨a, b, c', d, Or.inr (by simp)⟩
    · simp only [h]
      exact ⟨st, rfl, hinv, nCat_of_known hinv hne (Or.inr (by rw [h]; simp)), h⟩
  cases op with
  | fullPass =>
    obtain ⟨st', hp, hi', _, hn', _⟩ := pass_spec hinv
    simp only [step, hp, specOut]; exact ⟨trivial, hi', hn'⟩
  | numberTest =>
    obtain ⟨st', hp, hi', _, hn', _⟩ := pass_spec hinv
    simp only [step, hp, specOut]; exact ⟨trivial, hi', hn'⟩
  | getEventCounts =>
    obtain ⟨st', he, hi', hn'⟩ := hEC
    simp only [step, he, specOut]; exact ⟨trivial, hi', hn'⟩
  | getExpectedRates =>
    obtain ⟨st', he, hi', hn', _⟩ := hER
    simp only [step, withRates, he, specOut, id]; exact ⟨trivial, hi', hn'⟩
  | spatialCounts =>
    obtain ⟨st', he, hi', hn', _⟩ := hER
    simp only [step, withRates, he, specOut, hinv.hnb, hinv.hnm]; exact ⟨trivial, hi', hn'⟩
  | magnitudeCounts =>
    obtain ⟨st', he, hi', hn', _⟩ := hER
    simp only [step, withRates, he, specOut, hinv.hnm]; exact ⟨trivial, hi', hn'⟩
  | spatialTest =>
    obtain ⟨st', he, hi', _, _⟩ := hER
    obtain ⟨st'', hp, hi'', _, hn'', _⟩ := pass_spec hi'
    simp only [step, he, hp, specOut]; exact ⟨trivial, hi'', hn''⟩
  | magnitudeTest =>
    obtain ⟨st', he, hi', _, _⟩ := hER
    obtain ⟨st'', hp, hi'', _, hn'', _⟩ := pass_spec hi'
    simp only [step, he, hp, specOut]; exact ⟨trivial, hi'', hn''⟩
  | pseudolikelihoodTest =>
    obtain ⟨st', he, hi', _, _⟩ := hER
    obtain ⟨st'', hp, hi'', _, hn'', _⟩ := pass_spec hi'
    simp only [step, he, hp, specOut]; exact ⟨trivial, hi'', hn''⟩
  | resampledMagnitudeTest =>
    obtain ⟨st', he, hi', _, _⟩ := hER
    obtain ⟨st'', hp, hi'', _, _, _⟩ := pass_spec hi'
    obtain ⟨st''', hp2, hi''', _, hn''', _⟩ := pass_spec hi''
    simp only [step, he, hp, hp2, specOut]; exact ⟨trivial, hi''', hn'''⟩
  | mllMagnitudeTest =>
    obtain ⟨st', he, hi', _, _⟩ := hER
    obtain ⟨st'', hp, hi'', _, _, _⟩ := pass_spec hi'
    obtain ⟨st''', hp2, hi''', _, hn''', _⟩ := pass_spec hi''
    simp only [step, he, hp, hp2, specOut]; exact ⟨trivial, hi''', hn'''⟩

/-- **refinement**: from any state satisfying the invariant, every operation history — of any length, in any
    order — produces exactly the outputs of the specification, a function of the once-filtered catalogs alone -/
theorem refines_spec {file : List Cat} {af0 : Bool} {nBins nMag : Nat} (hne : file ≠ []) :
    ∀ (ops : List Op) (st : St), Inv file af0 nBins nMag st →
      run st ops = spec (filtered file af0) nBins nMag ops
  | [], _, _ => rfl
  | op :: ops, st, hinv => by
    obtain ⟨hout, hi', hn'⟩ := step_spec hinv hne op
    have ih := refines_spec hne ops (step st op).1 hi'
    simp only [run, spec, List.map_cons]
    rw [hout, hn', ih]
    simp [spec, filtered_length]

/-- the in-memory constructor establishes the invariant (with `n_cat` given correctly or not given) -/
theorem inv_initList (cats : List Cat) (nCat : Option Nat) (af : Bool) (nBins nMag : Nat)
    (hn : nCat = none ∨ nCat = some cats.length) : Inv cats af nBins nMag (initList cats nCat af nBins nMag) := by
  refine ⟨rfl, rfl, rfl, rfl, Or.inl ⟨rfl, ?_, rfl⟩, Or.inl rfl, Or.inl rfl⟩
  rcases hn with rfl | rfl <;> rfl

/-- the file loader establishes the invariant (store on or off) -/
theorem inv_initStream (file : List Cat) (store af : Bool) (nBins nMag : Nat) :
    Inv file af nBins nMag (initStream file store af nBins nMag) :=
  ⟨rfl, rfl, rfl, rfl, Or.inr ⟨rfl, rfl, rfl, rfl, Or.inl ⟨rfl, rfl⟩⟩, Or.inl rfl, Or.inl rfl⟩

/-- **C13 for catalogs given in memory** (with or without `n_cat`; filters on or off) -/
theorem refines_spec_list (cats : List Cat) (hne : cats ≠ []) (nCat : Option Nat)
    (hn : nCat = none ∨ nCat = some cats.length) (af : Bool) (nBins nMag : Nat) (ops : List Op) :
    run (initList cats nCat af nBins nMag) ops = spec (filtered cats af) nBins nMag ops :=
  refines_spec hne ops _ (inv_initList cats nCat af nBins nMag hn)

/-- **C13 for catalogs streamed from file**, cached (`store = true`) or re-read on each pass (`store = false`) -/
theorem refines_spec_stream (file : List Cat) (hne : file ≠ []) (store af : Bool) (nBins nMag : Nat)
    (ops : List Op) :
    run (initStream file store af nBins nMag) ops = spec (filtered file af) nBins nMag ops :=
  refines_spec hne ops _ (inv_initStream file store af nBins nMag)

/-- the three ways of giving the catalogs are observationally the same forecast -/
theorem sources_agree (file : List Cat) (hne : file ≠ []) (af : Bool) (nBins nMag : Nat) (ops : List Op) :
    run (initList file none af nBins nMag) ops = run (initStream file true af nBins nMag) ops ∧
    run (initStream file true af nBins nMag) ops = run (initStream file false af nBins nMag) ops := by
  rw [refines_spec_list file hne none (Or.inl rfl), refines_spec_stream file hne true,
    refines_spec_stream file hne false]
  exact ⟨rfl, rfl⟩

/-- `get_event_counts()` after any history equals the per-catalog counts of a single pass -/
theorem eventCounts_single_pass {file : List Cat} {af0 : Bool} {nBins nMag : Nat} (hne : file ≠ []) {st : St}
    (hinv : Inv file af0 nBins nMag st) (ops : List Op) :
    run st (ops ++ [Op.getEventCounts]) = run st ops ++
      [(Out.counts ((filtered file af0).map (·.events.length)), some file.length)] := by
  rw [refines_spec hne _ st hinv, refines_spec hne _ st hinv]
  simp [spec, specOut, filtered_length]

/-- `n_cat` is the number of catalogs after every operation of every history -/
theorem nCat_correct {file : List Cat} {af0 : Bool} {nBins nMag : Nat} (hne : file ≠ []) {st : St}
    (hinv : Inv file af0 nBins nMag st) (ops : List Op) :
    ∀ o ∈ run st ops, o.2 = some file.length := by
  rw [refines_spec hne _ st hinv]
  intro o ho
  simp only [spec, List.mem_map] at ho
  obtain ⟨_, _, rfl⟩ := ho
  simp [filtered_length]

/-- **expected rates = per-bin mean**: entry j of the forecast is (Σ over catalogs of the number of surviving
    events in bin j) / n_cat -/
theorem expectedRates_eq_mean {file : List Cat} {af0 : Bool} {nBins nMag : Nat} (hne : file ≠ []) {st : St}
    (hinv : Inv file af0 nBins nMag st) (ops : List Op) :
    (run st (ops ++ [Op.getExpectedRates])).getLast? =
      some (Out.rates ((List.range nBins).map (fun j => ((filtered file af0).map (fun c => cnt c j)).sum))
              file.length, some file.length) := by
  rw [refines_spec hne _ st hinv]
  simp [spec, specOut, totals, cnt, filtered_length]

/-- **expected rates are returned identically on every request**, wherever the requests sit in a history -/
theorem expectedRates_stable {file : List Cat} {af0 : Bool} {nBins nMag : Nat} (hne : file ≠ []) {st : St}
    (hinv : Inv file af0 nBins nMag st) (ops₁ ops₂ : List Op) :
    (run st (ops₁ ++ [Op.getExpectedRates])).getLast? =
    (run st (ops₁ ++ [Op.getExpectedRates] ++ ops₂ ++ [Op.getExpectedRates])).getLast? := by
  rw [refines_spec hne _ st hinv, refines_spec hne _ st hinv]
  simp only [spec, List.map_append, List.map_cons, List.map_nil]
  rw [List.getLast?_append, List.getLast?_append]
  simp


/-! ### round 2: what a catalog brings along is never consulted

`CatalogForecast` identifies a catalog by its position in the pass only.  The catalog id (possibly `None`, possibly
equal for all catalogs, possibly the same Python object repeated), the filter statements a catalog was constructed
with (`CSEPCatalog(filters=…)` only stores them) and the region it is already bound to play no role:
relabelling them arbitrarily changes no event, no count, no rate and no `n_cat`; the catalogs handed out carry the
relabelled payload.  In particular a streamed and cached forecast whose catalogs all have `catalog_id = None` keeps
every catalog (`ids_none_all_survive`), catalogs that already carry the forecast's statements are still filtered on
every pass (`carried_filters_still_applied`), and expected rates are counted on the forecast's grid, not on the grid
the catalogs were bound to (`expectedRates_on_forecast_grid`). -/

/-- replace id, bound region and carried statements of a catalog; events untouched -/
def repay (f : Option Nat → Option Nat) (g : Nat → Nat) (k : Bool → Bool) (c : Cat) : Cat :=
  { c with id := f c.id, grid := g c.grid, carries := k c.carries }

def repayOut (f : Option Nat → Option Nat) (g : Nat → Nat) (k : Bool → Bool) : Out → Out
  | .cats l => .cats (l.map (repay f g k))
  | .cats2 l₁ l₂ => .cats2 (l₁.map (repay f g k)) (l₂.map (repay f g k))
  | o => o

theorem filtered_repay (f : Option Nat → Option Nat) (g : Nat → Nat) (k : Bool → Bool) (file : List Cat)
    (af : Bool) : filtered (file.map (repay f g k)) af = (filtered file af).map (repay f g k) := by
  simp only [filtered, List.map_map]
  apply List.map_congr_left
  intro c _
  cases af <;> simp [applyOnce, filt, repay]

theorem totals_repay (f : Option Nat → Option Nat) (g : Nat → Nat) (k : Bool → Bool) (nBins : Nat)
    (l : List Cat) : totals nBins (l.map (repay f g k)) = totals nBins l := by
  simp [totals, List.map_map, Function.comp_def, repay]

theorem spec_repay (f : Option Nat → Option Nat) (g : Nat → Nat) (k : Bool → Bool) (l : List Cat)
    (nBins nMag : Nat) (ops : List Op) :
    spec (l.map (repay f g k)) nBins nMag ops =
      (spec l nBins nMag ops).map (fun o => (repayOut f g k o.1, o.2)) := by
  simp only [spec, List.map_map]
  apply List.map_congr_left
  intro op _
  cases op <;>
    simp [specOut, repayOut, totals_repay, List.map_map, Function.comp_def, repay]

/-- **ids, carried filter statements and bound regions are irrelevant**: two forecasts (any source, any state
    between operations) whose catalogs differ only in that payload give, for every history, the same event counts,
    rates and `n_cat`, and yield the same catalogs up to the payload -/
theorem payload_irrelevant {file : List Cat} {af0 : Bool} {nBins nMag : Nat} (hne : file ≠ [])
    (f : Option Nat → Option Nat) (g : Nat → Nat) (k : Bool → Bool) {st st' : St}
    (hinv : Inv file af0 nBins nMag st) (hinv' : Inv (file.map (repay f g k)) af0 nBins nMag st')
    (ops : List Op) :
    run st' ops = (run st ops).map (fun o => (repayOut f g k o.1, o.2)) := by
  have hne' : file.map (repay f g k) ≠ [] := by simpa using hne
  rw [refines_spec hne' ops st' hinv', refines_spec hne ops st hinv, filtered_repay, spec_repay]

/-- streamed and cached (or re-read), catalogs without distinct ids: **every catalog survives every pass** and
    `n_cat` is the number of catalogs — for every history; no hypothesis on the ids -/
theorem ids_none_all_survive (file : List Cat) (hne : file ≠ []) (store af : Bool) (nBins nMag : Nat)
    (ops : List Op) :
    ∀ o ∈ run (initStream (file.map (repay (fun _ => none) id id)) store af nBins nMag) ops,
      o.2 = some file.length ∧ (∀ l, o.1 = Out.cats l → l.length = file.length) := by
  have hne' : file.map (repay (fun _ => none) id id) ≠ [] := by simpa using hne
  rw [refines_spec_stream _ hne']
  intro o ho
  simp only [spec, List.mem_map] at ho
  obtain ⟨op, _, rfl⟩ := ho
  refine ⟨by simp [filtered_length], ?_⟩
  intro l hl
  cases op <;> simp [specOut] at hl <;> (subst hl; simp [filtered_length])

/-- catalogs constructed with the forecast's filter statements (`carries = true`) are still filtered: every pass
    yields the filtered events -/
theorem carried_filters_still_applied (cats : List Cat) (hne : cats ≠ []) (nBins nMag : Nat) (ops : List Op) :
    ∀ o ∈ run (initList (cats.map (repay id id (fun _ => true))) none true nBins nMag) ops,
      ∀ l, o.1 = Out.cats l → ∀ c ∈ l, ∀ e ∈ c.events, e.keep = true := by
  have hne' : cats.map (repay id id (fun _ => true)) ≠ [] := by simpa using hne
  rw [refines_spec_list _ hne' none (Or.inl rfl)]
  intro o ho
  simp only [spec, List.mem_map] at ho
  obtain ⟨op, _, rfl⟩ := ho
  intro l hl c hc e he
  have hl' : l = filtered (cats.map (repay id id (fun _ => true))) true := by
    cases op <;> simp [specOut] at hl <;> exact hl.symm
  subst hl'
  simp only [filtered, List.mem_map] at hc
  obtain ⟨c0, _, rfl⟩ := hc
  simp [applyOnce, filt] at he
  exact he.2

/-- expected rates are counted on the FORECAST's grid (`Ev.cell`), whatever region the catalogs were bound to
    (`Cat.grid`, `Ev.own`) -/
theorem expectedRates_on_forecast_grid (cats : List Cat) (hne : cats ≠ []) (g : Nat → Nat) (af : Bool)
    (nBins nMag : Nat) :
    run (initList (cats.map (repay id g id)) none af nBins nMag) [Op.getExpectedRates] =
      [(Out.rates ((List.range nBins).map (fun j => ((filtered cats af).map (fun c => cnt c j)).sum))
          cats.length, some cats.length)] := by
  have hne' : cats.map (repay id g id) ≠ [] := by simpa using hne
  rw [refines_spec_list _ hne' none (Or.inl rfl), filtered_repay]
  simp only [spec, specOut, List.map_cons, List.map_nil, totals_repay, List.length_map, filtered_length]
  simp [totals, cnt]

/-! ### round 4: more of the evaluations, user-given `n_cat` for streams, the configured filters one by one -/

/-- a streamed forecast constructed with ANY `n_cat=` (smaller or larger than the number of catalogs the loader
    yields, or right) satisfies the invariant: nothing reads `n_cat` before the first pass has overwritten it -/
theorem inv_initStreamN (file : List Cat) (store af : Bool) (nCat : Option Nat) (nBins nMag : Nat) :
    Inv file af nBins nMag (initStreamN file store af nCat nBins nMag) :=
  ⟨rfl, rfl, rfl, rfl, Or.inr ⟨rfl, rfl, rfl, rfl, Or.inl ⟨rfl, rfl⟩⟩, Or.inl rfl, Or.inl rfl⟩

/-- **C13 for streamed forecasts whatever `n_cat` the user passed**: every history gives the specification's
    outputs; in particular the reported `n_cat` is the number of catalogs of a single pass after every operation and
    the expected rates are divided by that number, not by the user's -/
theorem refines_spec_stream_any_ncat (file : List Cat) (hne : file ≠ []) (store af : Bool) (nCat : Option Nat)
    (nBins nMag : Nat) (ops : List Op) :
    run (initStreamN file store af nCat nBins nMag) ops = spec (filtered file af) nBins nMag ops :=
  refines_spec hne ops _ (inv_initStreamN file store af nCat nBins nMag)

/-- … hence the user's number is unobservable through any history -/
theorem stream_ncat_irrelevant (file : List Cat) (hne : file ≠ []) (store af : Bool) (n₁ n₂ : Option Nat)
    (nBins nMag : Nat) (ops : List Op) :
    run (initStreamN file store af n₁ nBins nMag) ops = run (initStreamN file store af n₂ nBins nMag) ops := by
  rw [refines_spec_stream_any_ncat file hne, refines_spec_stream_any_ncat file hne]

/-- an evaluation that iterates the forecast twice (resampled / MLL magnitude test) sees the same catalogs in both
    passes — the once-filtered ones — wherever it sits in a history -/
theorem two_pass_evaluations_see_one_forecast {file : List Cat} {af0 : Bool} {nBins nMag : Nat} (hne : file ≠ [])
    {st : St} (hinv : Inv file af0 nBins nMag st) (ops : List Op) :
    ∀ o ∈ run st ops, ∀ l₁ l₂, o.1 = Out.cats2 l₁ l₂ → l₁ = filtered file af0 ∧ l₂ = filtered file af0 := by
  rw [refines_spec hne _ st hinv]
  intro o ho l₁ l₂ hl
  simp only [spec, List.mem_map] at ho
  obtain ⟨op, _, rfl⟩ := ho
  cases op <;> simp [specOut] at hl <;> exact ⟨hl.1.symm, hl.2.symm⟩

/-- what `__next__` does to a raw catalog (forecasts.py:619-625 under `if self.apply_filters:`) -/
def rawOnce (cfg : Cfg) (af : Bool) (c : RCat) : RCat := if af then filtSeq cfg c else c

theorem filtered_absCat (cfg : Cfg) (raw : List RCat) (af : Bool) :
    filtered (raw.map (absCat cfg)) af = (raw.map (rawOnce cfg af)).map (absCat cfg) := by
  simp only [filtered, List.map_map]
  apply List.map_congr_left
  intro c _
  cases af <;> simp [applyOnce, rawOnce, absCat_filtSeq]

/-- **refinement down to the three configured filters**: for raw catalogs whose events record what
    `filter(self.filters)`, `apply_mct` and `filter_spatial` each decide, every history on the forecast yields the
    raw catalogs pushed ONCE through the code's filter sequence (`filtSeq`, statement by statement) -/
theorem refines_spec_cfg (cfg : Cfg) (raw : List RCat) (hne : raw ≠ []) (af : Bool) (nBins nMag : Nat)
    {st : St} (hinv : Inv (raw.map (absCat cfg)) af nBins nMag st) (ops : List Op) :
    run st ops = spec ((raw.map (rawOnce cfg af)).map (absCat cfg)) nBins nMag ops := by
  have hne' : raw.map (absCat cfg) ≠ [] := by simpa using hne
  rw [refines_spec hne' ops st hinv, filtered_absCat]

/-- every catalog handed out by any pass of any history holds exactly the events satisfying ALL configured
    predicates and none of the others, in the original order: switched-off filters (`apply_mct=False`, no statements,
    `filter_spatial=False`) are not applied, switched-on ones are applied to every catalog of every pass -/
theorem cfg_filters_exactly_once (cfg : Cfg) (raw : List RCat) (hne : raw ≠ []) (nBins nMag : Nat)
    {st : St} (hinv : Inv (raw.map (absCat cfg)) true nBins nMag st) (ops : List Op) :
    ∀ o ∈ run st ops, ∀ l, o.1 = Out.cats l →
      l = raw.map (fun c => absCat cfg { c with events := c.events.filter (keepOf cfg) }) := by
  rw [refines_spec_cfg cfg raw hne true nBins nMag hinv]
  intro o ho l hl
  simp only [spec, List.mem_map] at ho
  obtain ⟨op, _, rfl⟩ := ho
  have : l = (raw.map (rawOnce cfg true)).map (absCat cfg) := by
    cases op <;> simp only [specOut, Out.cats.injEq, reduceCtorEq] at hl <;> exact hl.symm
  subst this
  simp [rawOnce, filtSeq_eq, List.map_map, Function.comp_def]

/-- the order in which the three filters are written in `__next__` is immaterial (a harmless rewrite): any two
    configurations that switch on the same filters give the same catalogs — stated as: the result only depends on
    the conjunction `keepOf` -/
theorem filter_order_irrelevant (cfg : Cfg) (c : RCat) :
    (filtSeq cfg c).events = (((c.events.filter (fun e => !cfg.filterSpatial || e.ps)).filter
      (fun e => !cfg.applyMct || e.pm)).filter (fun e => !cfg.hasFilters || e.pf)) := by
  rw [filtSeq_events]
  simp only [List.filter_filter]
  apply List.filter_congr
  intro e _
  simp only [keepOf]
  cases cfg.hasFilters <;> cases cfg.applyMct <;> cases cfg.filterSpatial <;>
    cases e.pf <;> cases e.pm <;> cases e.ps <;> rfl

/-- outside the hypotheses of `refines_spec_list`, completely characterised: an in-memory list constructed with an
    `n_cat` that is not its length fails the `assert` of `__next__` in EVERY operation of every history, and the
    forecast keeps reporting the user's number -/
theorem list_wrong_ncat_always_fails (cats : List Cat) (m : Nat) (hm : m ≠ cats.length) (af : Bool)
    (nBins nMag : Nat) (ops : List Op) :
    run (initList cats (some m) af nBins nMag) ops = ops.map (fun _ => (Out.error, some m)) := by
  have hp0 : fullPass (initList cats (some m) af nBins nMag) = none := by
    have : (some m : Option Nat) ≠ some cats.length := by simpa using hm
    simp [fullPass, passLoop, next, initList, this]
  have her : (initList cats (some m) af nBins nMag).expectedRates = none := rfl
  have hec : (initList cats (some m) af nBins nMag).eventCounts.length = 0 := rfl
  have hstep : ∀ op, step (initList cats (some m) af nBins nMag) op = (initList cats (some m) af nBins nMag, Out.error) := by
    intro op
    cases op <;> simp [step, withRates, getExpectedRates, getEventCounts, hp0, her, hec]
  induction ops with
  | nil => rfl
  | cons op ops ih =>
    simp only [run, hstep, List.map_cons]
    rw [ih]
    rfl

/-! ### phase 2: sessions — two forecasts over the same catalog objects -/

def demoShared : List Cat :=
  [{ id := some 0, events := [{ keep := true, cell := 0 }, { keep := false, cell := 1 }] }, { id := some 1, events := [] },
   { id := some 2, events := [{ keep := true, cell := 3 }, { keep := true, cell := 3 }] }]

/-- an in-memory forecast stays one, with the same filter switch, through every operation -/
theorem step_list_fields (st : St) (op : Op) (hg : st.isGen = false) :
    (step st op).1.isGen = false ∧ (step st op).1.applyFilters = st.applyFilters := by
  have hP : ∀ s : St, s.isGen = false → ∀ (f : List Cat → Out),
      (match fullPass s with | some (s', cats) => (s', f cats) | none => (s, Out.error)).1.isGen = false ∧
      (match fullPass s with | some (s', cats) => (s', f cats) | none => (s, Out.error)).1.applyFilters
        = s.applyFilters := by
    intro s hs f
    cases h : fullPass s with
    | none => exact ⟨hs, rfl⟩
    | some p => obtain ⟨s', cats⟩ := p; exact fullPass_list_fields s s' cats hs h
  have hR : ∀ (f : List Nat → List Nat), (withRates st f).1.isGen = false ∧
      (withRates st f).1.applyFilters = st.applyFilters := by
    intro f
    unfold withRates
    cases h : getExpectedRates st with
    | none => exact ⟨hg, rfl⟩
    | some p => obtain ⟨s', d, n⟩ := p; exact getExpectedRates_list_fields st s' (d, n) hg h
  cases op with
  | fullPass => exact hP st hg _
  | numberTest => exact hP st hg _
  | getEventCounts =>
    simp only [step]
    cases h : getEventCounts st with
    | none => exact ⟨hg, rfl⟩
    | some p => obtain ⟨s', l⟩ := p; exact getEventCounts_list_fields st s' l hg h
  | getExpectedRates => exact hR _
  | spatialCounts => exact hR _
  | magnitudeCounts => exact hR _
  | spatialTest | magnitudeTest | pseudolikelihoodTest =>
    simp only [step]
    cases h : getExpectedRates st with
    | none => exact ⟨hg, rfl⟩
    | some p =>
      obtain ⟨s', r⟩ := p
      have h1 := getExpectedRates_list_fields st s' r hg h
      have h2 := hP s' h1.1 Out.cats
      exact ⟨h2.1, h2.2.trans h1.2⟩
  | resampledMagnitudeTest | mllMagnitudeTest =>
    simp only [step]
    cases h : getExpectedRates st with
    | none => exact ⟨hg, rfl⟩
    | some p =>
      obtain ⟨s', r⟩ := p
      have h1 := getExpectedRates_list_fields st s' r hg h
      dsimp only
      cases h' : fullPass s' with
      | none => exact ⟨h1.1, h1.2⟩
      | some q =>
        obtain ⟨s'', c1⟩ := q
        have h2 := fullPass_list_fields s' s'' c1 h1.1 h'
        dsimp only
        cases h'' : fullPass s'' with
        | none => exact ⟨h2.1, h2.2.trans h1.2⟩
        | some q' =>
          obtain ⟨s''', c2⟩ := q'
          have h3 := fullPass_list_fields s'' s''' c2 h2.1 h''
          exact ⟨h3.1, h3.2.trans (h2.2.trans h1.2)⟩

/-- the invariant only needs the catalogs up to filtering: any list that becomes `filtered` under the forecast's
    (idempotent) filters may stand in for them — e.g. the same objects after ANOTHER forecast has filtered them -/
theorem inv_catalogs_replaced {file : List Cat} {af0 : Bool} {nBins nMag : Nat} {st : St}
    (hinv : Inv file af0 nBins nMag st) (hg : st.isGen = false) (l : List Cat)
    (hl : l.map (fstep st.applyFilters) = filtered file af0) :
    Inv file af0 nBins nMag { st with catalogs := l } := by
  obtain ⟨hfile, hnb, hnm, hidx, hmode, hec, her⟩ := hinv
  refine ⟨hfile, hnb, hnm, hidx, ?_, hec, her⟩
  rcases hmode with ⟨_, hn, hcat⟩ | ⟨hg', _⟩
  · left
    refine ⟨hg, ?_, hl⟩
    have h1 := congrArg List.length hcat
    have h2 := congrArg List.length hl
    simp only [List.length_map] at h1 h2
    simp only [hn, h1, h2]
  · rw [hg] at hg'; cases hg'

/-- **sessions on shared catalog objects**: two in-memory forecasts with the same filter switch built over the same
    catalog objects, their operations interleaved in any order and at any length — every operation of either forecast
    still gives the specification's answer (in-place filtering by the one is invisible to the other because the
    filters are idempotent) -/
theorem shared_session_refines_spec {file : List Cat} {af0 : Bool} {nBins nMag : Nat} (hne : file ≠ []) :
    ∀ (ops : List (Bool × Op)) (a b : St), Inv file af0 nBins nMag a → Inv file af0 nBins nMag b →
      a.isGen = false → b.isGen = false → a.applyFilters = b.applyFilters →
      runShared a b ops = ops.map (fun wo => (specOut (filtered file af0) nBins nMag wo.2, some file.length))
  | [], _, _, _, _, _, _, _ => rfl
  | (false, op) :: rest, a, b, ha, hb, hga, hgb, haf => by
    obtain ⟨hout, hi', hn'⟩ := step_spec ha hne op
    obtain ⟨hg', haf'⟩ := step_list_fields a op hga
    have hcat : (step a op).1.catalogs.map (fstep b.applyFilters) = filtered file af0 := by
      rcases hi'.hmode with ⟨_, _, hc⟩ | ⟨hgen, _⟩
      · rw [← haf, ← haf']; exact hc
      · rw [hg'] at hgen; cases hgen
    have hb' := inv_catalogs_replaced hb hgb _ hcat
    have ih := shared_session_refines_spec hne rest (step a op).1 { b with catalogs := (step a op).1.catalogs }
      hi' hb' hg' hgb (haf'.trans haf)
    simp only [runShared, List.map_cons]
    rw [ih, hout, hn']
  | (true, op) :: rest, a, b, ha, hb, hga, hgb, haf => by
    obtain ⟨hout, hi', hn'⟩ := step_spec hb hne op
    obtain ⟨hg', haf'⟩ := step_list_fields b op hgb
    have hcat : (step b op).1.catalogs.map (fstep a.applyFilters) = filtered file af0 := by
      rcases hi'.hmode with ⟨_, _, hc⟩ | ⟨hgen, _⟩
      · rw [haf, ← haf']; exact hc
      · rw [hg'] at hgen; cases hgen
    have ha' := inv_catalogs_replaced ha hga _ hcat
    have ih := shared_session_refines_spec hne rest { a with catalogs := (step b op).1.catalogs } (step b op).1
      ha' hi' hga hg' (haf.trans haf'.symm)
    simp only [runShared, List.map_cons]
    rw [ih, hout, hn']

/-- non-vacuity: two list forecasts over `demo`, filters on, interleaved -/
example : runShared (initList demoShared none true 4 2) (initList demoShared none true 4 2)
      [(false, .getExpectedRates), (true, .fullPass), (false, .fullPass), (true, .mllMagnitudeTest), (false, .getEventCounts)]
    = [(false, Op.getExpectedRates), (true, .fullPass), (false, .fullPass), (true, .mllMagnitudeTest),
       (false, .getEventCounts)].map
        (fun wo => (specOut (filtered demoShared true) 4 2 wo.2, some 3)) := by decide +kernel

/-! ### round 4: the known finding D27 in general — what exactly an aborted pass leaves behind -/

private theorem split_at {α} (l : List α) (k : Nat) (hk0 : 0 < k) (hk : k ≤ l.length) :
    ∃ c mid post, l = c :: mid ++ post ∧ mid.length + 1 = k ∧ post = l.drop k := by
  have hlenk : (l.take k).length = k := by simp [List.length_take]; omega
  match htk : l.take k with
  | [] => simp [htk] at hlenk; omega
  | c :: mid =>
    refine ⟨c, mid, l.drop k, ?_, by simpa [htk] using hlenk, rfl⟩
    rw [← htk, List.take_append_drop]

/-- **aborted pass, every forecast, every cut** (the general form of the kernel-checked witness
    `finding_aborted_pass_not_restarted`): after a pass that stopped behind `k` catalogs (0 < k ≤ n: an exception in
    the loop body, a `break`, bare `next()` calls) the NEXT complete for-loop yields exactly the remaining
    `n − k` once-filtered catalogs — not all `n` — for an in-memory list, a cached stream and a re-read stream alike.
    That loop repairs everything: afterwards the invariant holds again (so by `refines_spec` every later history is
    the specification's), `n_cat` is right, and the recorded event counts are those of one full pass. -/
theorem aborted_pass_characterised {file : List Cat} {af0 : Bool} {nBins nMag : Nat} {st : St}
    (hinv : Inv file af0 nBins nMag st) (k : Nat) (hk0 : 0 < k) (hk : k ≤ file.length) :
    ∃ st', fullPass (nextN k st) = some (st', (filtered file af0).drop k) ∧ Inv file af0 nBins nMag st' ∧
      st'.eventCounts = (filtered file af0).map (·.events.length) ∧ st'.nCat = some file.length := by
  obtain ⟨hfile, hnb, hnm, hidx, hmode, hec, her⟩ := hinv
  obtain ⟨file', catalogs, isGen, cache, store, af, nCat, idx, ec, er, nb, nm⟩ := st
  simp only at hfile hnb hnm hidx hmode hec her
  subst hfile hnb hnm hidx
  rcases hmode with ⟨hg, hn, hcat⟩ | ⟨hg, hcat, hcache, haf, _⟩
  · -- in-memory list (or the cache swapped in)
    subst hg hn
    have hlen : catalogs.length = file'.length := by
      have := congrArg List.length hcat; simpa [filtered] using this
    obtain ⟨c, mid, post, hsplit, hmid, hpost⟩ := split_at catalogs k hk0 (by omega)
    subst hsplit
    have h1 := nextN_list mid c [] post
      { file := file', catalogs := c :: mid ++ post, isGen := false, cache := cache, store := store, applyFilters := af,
        nCat := some (c :: mid ++ post).length, idx := 0, eventCounts := ec, expectedRates := er, nBins := nb,
        nMag := nm } rfl rfl rfl rfl
    simp only [List.nil_append, List.length_nil, Nat.zero_add, ecEff, ↓reduceIte] at h1
    rw [← hmid, h1]
    have h2 := list_loop post ((c :: mid).map (fstep af))
      { file := file', catalogs := (c :: mid).map (fstep af) ++ post, isGen := false, cache := cache, store := store,
        applyFilters := af, nCat := some (c :: mid ++ post).length, idx := mid.length + 1,
        eventCounts := ((c :: mid).map (fstep af)).map (·.events.length), expectedRates := er, nBins := nb, nMag := nm }
      [] (((c :: mid).map (fstep af) ++ post).length + file'.length + 2) rfl rfl (by simp) (by simp) (by simp; omega)
    simp only [List.nil_append, ecEff, Nat.add_one_ne_zero, ↓reduceIte] at h2
    have hdrop : (filtered file' af0).drop (mid.length + 1) = post.map (fstep af) := by
      rw [← hcat]; simp [List.drop_append]
    rw [hdrop]
    refine ⟨_, h2, ⟨rfl, rfl, rfl, rfl, ?_, Or.inr ?_, her⟩, ?_, ?_⟩
    · left
      refine ⟨rfl, ?_, ?_⟩
      · simp
      · simp only
        rw [← hcat]
        simp [List.map_map, Function.comp_def, fstep_idem]
    · simp only; rw [← hcat]; simp
    · simp only; rw [← hcat]; simp
    · simp only; rw [← hlen]
  · -- generator
    subst hg hcache haf
    obtain rfl : catalogs = file' := hcat
    obtain ⟨c, mid, post, hsplit, hmid, hpost⟩ := split_at catalogs k hk0 hk
    subst hsplit
    have hdrop : (filtered (c :: mid ++ post) af).drop (mid.length + 1) = post.map (fstep af) := by
      simp [filtered, fstep_eq_applyOnce, List.drop_append]
    rw [← hmid, hdrop]
    cases store
    · -- re-read on each pass
      have h1 := nextN_gen mid c post
        { file := c :: mid ++ post, catalogs := c :: mid ++ post, isGen := true, cache := [], store := false,
          applyFilters := af, nCat := nCat, idx := 0, eventCounts := ec, expectedRates := er, nBins := nb, nMag := nm }
        rfl rfl
      simp only [Nat.zero_add, ecEff, ↓reduceIte, Bool.false_eq_true, List.nil_append] at h1
      rw [h1]
      have hfp := gen_loop post
        { file := c :: mid ++ post, catalogs := post, isGen := true, cache := [], store := false,
          applyFilters := af, nCat := nCat, idx := mid.length + 1,
          eventCounts := ((c :: mid).map (fstep af)).map (·.events.length), expectedRates := er, nBins := nb,
          nMag := nm }
        [] (post.length + (c :: mid ++ post).length + 2) rfl rfl (by omega)
      refine ⟨_, hfp, ⟨by simp [afterStop, genDone], by simp [afterStop, genDone], by simp [afterStop, genDone],
        by simp [afterStop, genDone], ?_, Or.inr ?_, by simpa [afterStop, genDone] using her⟩, ?_, ?_⟩
      · right
        simp [afterStop, genDone]
        right; omega
      · simp [afterStop, genDone, ecEff, filtered, fstep_eq_applyOnce]
      · simp [afterStop, genDone, ecEff, filtered, fstep_eq_applyOnce]
      · simp [afterStop, genDone]; omega
    · -- cached
      have h1 := nextN_gen mid c post
        { file := c :: mid ++ post, catalogs := c :: mid ++ post, isGen := true, cache := [], store := true,
          applyFilters := af, nCat := nCat, idx := 0, eventCounts := ec, expectedRates := er, nBins := nb, nMag := nm }
        rfl rfl
      simp only [Nat.zero_add, ecEff, ↓reduceIte, List.nil_append] at h1
      rw [h1]
      have hfp := gen_loop post
        { file := c :: mid ++ post, catalogs := post, isGen := true, cache := (c :: mid).map (fstep af), store := true,
          applyFilters := af, nCat := nCat, idx := mid.length + 1,
          eventCounts := ((c :: mid).map (fstep af)).map (·.events.length), expectedRates := er, nBins := nb,
          nMag := nm }
        [] (post.length + (c :: mid ++ post).length + 2) rfl rfl (by omega)
      refine ⟨_, hfp, ⟨by simp [afterStop, genDone], by simp [afterStop, genDone], by simp [afterStop, genDone],
        by simp [afterStop, genDone], ?_, Or.inr ?_, by simpa [afterStop, genDone] using her⟩, ?_, ?_⟩
      · left
        simp only [afterStop, genDone, filtered]
        refine ⟨rfl, by simp; omega, ?_⟩
        simp [fstep, applyOnce, List.map_map, Function.comp_def]
        rfl
      · simp [afterStop, genDone, ecEff, filtered, fstep_eq_applyOnce]
      · simp [afterStop, genDone, ecEff, filtered, fstep_eq_applyOnce]
      · simp [afterStop, genDone]; omega

/-! ### non-vacuity: concrete histories evaluated by the kernel -/

def ev (k : Bool) (c : Nat) : Ev := { keep := k, cell := c }
def demo : List Cat :=
  [{ id := some 0, events := [ev true 0, ev false 1] }, { id := some 1, events := [] },
   { id := some 2, events := [ev true 3, ev true 3] }]

-- streamed and cached, filters on: pass, counts, rates, pass, rates
example : run (initStream demo true true 4 2)
      [.fullPass, .getEventCounts, .getExpectedRates, .fullPass, .getExpectedRates]
    = spec (filtered demo true) 4 2 [.fullPass, .getEventCounts, .getExpectedRates, .fullPass, .getExpectedRates] := by
  decide +kernel
example : (run (initStream demo false true 4 2) [.getExpectedRates]).map (·.1) = [.rates [1, 0, 0, 2] 3] := by
  decide +kernel
-- a wrong n_cat for an in-memory list is outside the hypotheses: the assertion of `__next__` fails
example : run (initList demo (some 2) false 4 2) [.fullPass] = [(.error, some 2)] := by decide +kernel


-- round 2: all ids None, streamed + cached: nothing collapses; catalogs bound to another grid (own bins differ)
-- and carrying the forecast's statements: still filtered, still counted on the forecast's grid
def demoNone : List Cat :=
  [{ id := none, events := [{ keep := true, cell := 0, own := 3 }, { keep := false, cell := 1, own := 2 }], grid := 5,
     carries := true },
   { id := none, events := [], grid := 5, carries := true },
   { id := none, events := [{ keep := true, cell := 3, own := 0 }, { keep := true, cell := 3, own := 1 }], grid := 5,
     carries := true }]
example : run (initStream demoNone true true 4 2) [.fullPass, .getExpectedRates, .fullPass, .getEventCounts]
    = spec (filtered demoNone true) 4 2 [.fullPass, .getExpectedRates, .fullPass, .getEventCounts] := by
  decide +kernel
example : (run (initStream demoNone true true 4 2) [.fullPass, .getExpectedRates]).map (·.1)
    = [.cats (filtered demoNone true), .rates [1, 0, 0, 2] 3] := by decide +kernel
example : demoNone = demoNone.map (repay (fun _ => none) id id) := by decide +kernel

-- round 4: the magnitude filter, apply_mct and the spatial filter configured together; catalog 0 loses one event to
-- each of them; the MLL test (rates + two passes) sits between two passes; the user passed n_cat = 7 for 3 catalogs
def demoRaw : List RCat :=
  [{ id := some 0, events := [{ pf := false, pm := true, ps := true, cell := 0 }, { pf := true, pm := false, ps := true, cell := 1 },
      { pf := true, pm := true, ps := false, cell := 2 }, { pf := true, pm := true, ps := true, cell := 3 }] },
   { id := some 1, events := [] },
   { id := some 2, events := [{ pf := true, pm := true, ps := true, cell := 1 }] }]
def cfgAll : Cfg := { hasFilters := true, applyMct := true, filterSpatial := true }
example : run (initStreamN (demoRaw.map (absCat cfgAll)) true true (some 7) 4 2)
      [.fullPass, .mllMagnitudeTest, .pseudolikelihoodTest, .getEventCounts]
    = spec ((demoRaw.map (rawOnce cfgAll true)).map (absCat cfgAll)) 4 2
      [.fullPass, .mllMagnitudeTest, .pseudolikelihoodTest, .getEventCounts] := by decide +kernel
example : (run (initStreamN (demoRaw.map (absCat cfgAll)) false true (some 1) 4 2) [.getEventCounts, .getExpectedRates]).map
    (fun o => (match o.1 with | .counts l => l | .rates d _ => d | _ => [], o.2))
    = [([1, 0, 1], some 3), ([0, 1, 0, 1], some 3)] := by decide +kernel
-- apply_mct switched off: the event only `apply_mct` would remove stays
example : ((demoRaw.map (rawOnce { cfgAll with applyMct := false } true)).map (·.events.length)) = [2, 0, 1] := by
  decide +kernel

/-! ### finding (current code): an aborted pass is not restarted

`get_expected_rates()` raises ValueError inside its pass when a catalog has an event outside the region (spatial
filter off); any `break` does the same to the cursor.  The forecast is left where the last `__next__` put it, and
the NEXT complete for-loop yields only the remaining catalogs: the statement "every complete pass yields the same
catalogs" fails on such a history.  Kernel-checked witnesses for the three ways of giving the catalogs; replayed on
the real code by harness/c13.py (signature `catalog-forecast:aborted-pass-not-restarted`). -/

/-- after a pass aborted behind the second of three catalogs the next complete loop yields only the third one
    (in-memory list, streamed + cached, streamed and re-read) — it is NOT the specification's `filtered demo` -/
theorem finding_aborted_pass_not_restarted :
    (fullPass (nextN 2 (initList demo none false 4 2))).map (·.2) = some (demo.drop 2) ∧
    (fullPass (nextN 2 (initStream demo true false 4 2))).map (·.2) = some (demo.drop 2) ∧
    (fullPass (nextN 2 (initStream demo false false 4 2))).map (·.2) = some (demo.drop 2) ∧
    demo.drop 2 ≠ filtered demo false := by
  decide +kernel

/-- the witness of `finding_aborted_pass_not_restarted` is an instance: three catalogs, cut behind the second -/
example : ∃ st', fullPass (nextN 2 (initStream demo true false 4 2)) = some (st', (filtered demo false).drop 2) ∧
    Inv demo false 4 2 st' ∧ st'.eventCounts = (filtered demo false).map (·.events.length) ∧
    st'.nCat = some demo.length :=
  aborted_pass_characterised (file := demo) (inv_initStream demo true false 4 2) 2 (by omega) (by decide)

/-- the loop after that is complete again -/
example : ((fullPass (nextN 2 (initList demo none false 4 2))).bind (fun r => fullPass r.1)).map (·.2)
    = some (filtered demo false) := by decide +kernel

end ForecastIter
