import PycsepVerif.Proofs.ForecastIter

/-!
# C13 — a catalog forecast is a stable, re-iterable collection

Theorems about `Model/ForecastIter.lean` (the transcription of `CatalogForecast.__next__`, `get_event_counts`,
`get_expected_rates`, `spatial_counts`, `magnitude_counts` and of the way the catalog tests use a forecast).
The specification is the fixed list `filtered = file.map (applyOnce applyFilters)`: every operation's answer is a
function of that list alone.  `refines_spec` holds for operation histories of EVERY length.
-/
namespace ForecastIter

/-- the catalogs of the forecast with the configured filters applied exactly once -/
def filtered (file : List Cat) (af0 : Bool) : List Cat := file.map (applyOnce af0)

/-- the invariant that holds between two operations -/
structure Inv (file : List Cat) (af0 : Bool) (nBins nMag : Nat) (st : St) : Prop where
  hfile : st.file = file
  hnb : st.nBins = nBins
  hnm : st.nMag = nMag
  /-- the cursor is at the front -/
  hidx : st.idx = 0
  /-- either a list (in memory, or the complete cache swapped in) whose catalogs become `filtered` under the filters
      still switched on (filters are idempotent), with a correct `n_cat`; or a fresh generator over the file with
      an empty cache and the original filter switch -/
  hmode : (st.isGen = false ∧ st.nCat = some st.catalogs.length ∧
            st.catalogs.map (fstep st.applyFilters) = filtered file af0)
        ∨ (st.isGen = true ∧ st.catalogs = file ∧ st.cache = [] ∧ st.applyFilters = af0 ∧
            ((st.eventCounts = [] ∧ st.expectedRates = none) ∨ st.nCat = some file.length))
  /-- the recorded event counts are empty or those of one pass -/
  hec : st.eventCounts = [] ∨ st.eventCounts = (filtered file af0).map (·.events.length)
  /-- the cached expected rates are absent or the per-bin totals over the number of catalogs -/
  her : st.expectedRates = none ∨
        st.expectedRates = some (totals nBins (filtered file af0), (filtered file af0).length)

theorem filtered_length (file : List Cat) (af0 : Bool) : (filtered file af0).length = file.length := by
  simp [filtered]

private theorem map_fstep_idem (b : Bool) (l : List Cat) : (l.map (fstep b)).map (fstep b) = l.map (fstep b) := by
  simp [List.map_map, Function.comp_def, fstep_idem]

/-- **one complete pass** from any state between operations yields exactly the once-filtered catalogs in order,
    records their event counts (of this single pass), leaves `n_cat` correct and the invariant intact -/
theorem pass_spec {file : List Cat} {af0 : Bool} {nBins nMag : Nat} {st : St}
    (hinv : Inv file af0 nBins nMag st) :
    ∃ st', fullPass st = some (st', filtered file af0) ∧ Inv file af0 nBins nMag st' ∧
      st'.eventCounts = (filtered file af0).map (·.events.length) ∧
      st'.nCat = some file.length ∧ st'.expectedRates = st.expectedRates := by
  obtain ⟨hfile, hnb, hnm, hidx, hmode, hec, her⟩ := hinv
  obtain ⟨file', catalogs, isGen, cache, store, af, nCat, idx, ec, er, nb, nm⟩ := st
  simp only at hfile hnb hnm hidx hmode hec her
  subst hfile hnb hnm hidx
  rcases hmode with ⟨hg, hn, hcat⟩ | ⟨hg, hcat, hcache, haf, _⟩
  · -- list
    subst hg hn
    have hlen : catalogs.length = file'.length := by
      have := congrArg List.length hcat; simpa [filtered] using this
    have h := list_loop catalogs []
      { file := file', catalogs := catalogs, isGen := false, cache := cache, store := store, applyFilters := af,
        nCat := some catalogs.length, idx := 0, eventCounts := ec, expectedRates := er, nBins := nb, nMag := nm }
      [] (catalogs.length + file'.length + 2) rfl (by simp) rfl (by simp) (by omega)
    simp only [List.nil_append, ecEff, ↓reduceIte] at h
    rw [hcat] at h
    refine ⟨_, h, ⟨rfl, rfl, rfl, rfl, ?_, Or.inr rfl, her⟩, rfl, ?_, rfl⟩
    · left
      refine ⟨rfl, ?_, ?_⟩
      · simp [filtered, hlen]
      · simp only; rw [← hcat, map_fstep_idem]
    · simp [hlen]
  · -- generator
    subst hg hcache haf
    obtain rfl : catalogs = file' := hcat
    have h := gen_loop catalogs
      { file := catalogs, catalogs := catalogs, isGen := true, cache := [], store := store, applyFilters := af,
        nCat := nCat, idx := 0, eventCounts := ec, expectedRates := er, nBins := nb, nMag := nm }
      [] (catalogs.length + catalogs.length + 2) rfl rfl (by omega)
    cases store
    · simp only [afterStop, genDone, ecEff, fstep_eq_applyOnce, List.nil_append, Nat.zero_add, ↓reduceIte,
        Bool.false_eq_true] at h
      refine ⟨_, h, ⟨rfl, rfl, rfl, rfl, ?_, Or.inr rfl, her⟩, rfl, rfl, rfl⟩
      right
      exact ⟨rfl, rfl, rfl, rfl, Or.inr rfl⟩
    · simp only [afterStop, genDone, ecEff, fstep_eq_applyOnce, List.nil_append, Nat.zero_add, ↓reduceIte] at h
      refine ⟨_, h, ⟨rfl, rfl, rfl, rfl, ?_, Or.inr rfl, her⟩, rfl, rfl, rfl⟩
      left
      refine ⟨rfl, ?_, ?_⟩
      · simp
      · simp [filtered, fstep]

/-- every complete pass yields the once-filtered catalogs, in order -/
theorem pass_yields_filtered {file : List Cat} {af0 : Bool} {nBins nMag : Nat} {st : St}
    (hinv : Inv file af0 nBins nMag st) : (fullPass st).map (·.2) = some (filtered file af0) := by
  obtain ⟨st', h, _⟩ := pass_spec hinv
  rw [h]; rfl

/-- `n_cat` is known and correct as soon as event counts or expected rates exist -/
private theorem nCat_of_known {file : List Cat} {af0 : Bool} {nBins nMag : Nat} {st : St}
    (hinv : Inv file af0 nBins nMag st) (hne : file ≠ [])
    (hk : st.eventCounts ≠ [] ∨ st.expectedRates ≠ none) : st.nCat = some file.length := by
  rcases hinv.hmode with ⟨_, hn, hcat⟩ | ⟨_, _, _, _, h⟩
  · have := congrArg List.length hcat
    simp [filtered] at this
    rw [hn, this]
  · rcases h with ⟨h1, h2⟩ | h
    · rcases hk with hk | hk
      · exact absurd h1 hk
      · exact absurd h2 hk
    · exact h

/-- **one operation**: its output is the specification's, the invariant is kept, `n_cat` is correct afterwards.
    The cached expected rates, once present, are never replaced. -/
theorem step_spec {file : List Cat} {af0 : Bool} {nBins nMag : Nat} {st : St}
    (hinv : Inv file af0 nBins nMag st) (hne : file ≠ []) (op : Op) :
    (step st op).2 = specOut (filtered file af0) nBins nMag op ∧
    Inv file af0 nBins nMag (step st op).1 ∧ (step st op).1.nCat = some file.length := by
  have hfne : filtered file af0 ≠ [] := by
    intro h; exact hne (List.eq_nil_of_length_eq_zero (by rw [← filtered_length file af0, h]; rfl))
  have hflen := filtered_length file af0
  -- get_event_counts
  have hEC : ∃ st', getEventCounts st = some (st', (filtered file af0).map (·.events.length)) ∧
      Inv file af0 nBins nMag st' ∧ st'.nCat = some file.length := by
    unfold getEventCounts
    by_cases h0 : st.eventCounts.length = 0
    · obtain ⟨st', hp, hi', hec', hn', _⟩ := pass_spec hinv
      simp only [h0, ↓reduceIte, hp]
      exact ⟨st', by rw [hec'], hi', hn'⟩
    · have hne' : st.eventCounts ≠ [] := fun h => h0 (by rw [h]; rfl)
      simp only [h0, ↓reduceIte]
      rcases hinv.hec with h | h
      · exact absurd h hne'
      · exact ⟨st, by rw [h], hinv, nCat_of_known hinv hne (Or.inl hne')⟩
  -- get_expected_rates
  have hER : ∃ st', getExpectedRates st =
        some (st', (totals nBins (filtered file af0), (filtered file af0).length)) ∧
      Inv file af0 nBins nMag st' ∧ st'.nCat = some file.length ∧
      st'.expectedRates = some (totals nBins (filtered file af0), (filtered file af0).length) := by
    unfold getExpectedRates
    rcases hinv.her with h | h
    · obtain ⟨st', hp, hi', hec', hn', her'⟩ := pass_spec hinv
      obtain ⟨c, cs, hcs⟩ := List.exists_cons_of_ne_nil hfne
      simp only [h, hp, hinv.hnb, hn']
      rw [hcs, accumulate_eq_totals, ← hcs]
      simp only [hflen]
      refine ⟨_, rfl, ?_, by simpa using hn', rfl⟩
      refine ⟨hi'.hfile, hi'.hnb, hi'.hnm, hi'.hidx, ?_, hi'.hec, Or.inr (by simp [hflen])⟩
      rcases hi'.hmode with hm | ⟨a, b, c', d, _⟩
      · refine Or.inl ⟨hm.1, ?_, hm.2.2⟩
        have := hm.2.1
        rw [hn'] at this
        simpa using this
      · exact Or.inr ⟨a, b, c', d, Or.inr (by simp)⟩
    · simp only [h]
      exact ⟨st, rfl, hinv, nCat_of_known hinv hne (Or.inr (by rw [h]; simp)), h⟩
  cases op with
  | fullPass =>
    obtain ⟨st', hp, hi', _, hn', _⟩ := pass_spec hinv
    simp only [step, hp, specOut]; exact ⟨trivial, hi', hn'⟩
  | numberTest =>
    obtain ⟨st', hp, hi', _, hn', _⟩ := pass_spec hinv
    simp only [step, hp, specOut]; exact ⟨trivial, hi', hn'⟩
  | getEventCounts =>
    obtain ⟨st', he, hi', hn'⟩ := hEC
    simp only [step, he, specOut]; exact ⟨trivial, hi', hn'⟩
  | getExpectedRates =>
    obtain ⟨st', he, hi', hn', _⟩ := hER
    simp only [step, withRates, he, specOut, id]; exact ⟨trivial, hi', hn'⟩
  | spatialCounts =>
    obtain ⟨st', he, hi', hn', _⟩ := hER
    simp only [step, withRates, he, specOut, hinv.hnb, hinv.hnm]; exact ⟨trivial, hi', hn'⟩
  | magnitudeCounts =>
    obtain ⟨st', he, hi', hn', _⟩ := hER
    simp only [step, withRates, he, specOut, hinv.hnm]; exact ⟨trivial, hi', hn'⟩
  | spatialTest =>
    obtain ⟨st', he, hi', _, _⟩ := hER
    obtain ⟨st'', hp, hi'', _, hn'', _⟩ := pass_spec hi'
    simp only [step, he, hp, specOut]; exact ⟨trivial, hi'', hn''⟩
  | magnitudeTest =>
    obtain ⟨st', he, hi', _, _⟩ := hER
    obtain ⟨st'', hp, hi'', _, hn'', _⟩ := pass_spec hi'
    simp only [step, he, hp, specOut]; exact ⟨trivial, hi'', hn''⟩

/-- **refinement**: from any state satisfying the invariant, every operation history — of any length, in any
    order — produces exactly the outputs of the specification, a function of the once-filtered catalogs alone -/
theorem refines_spec {file : List Cat} {af0 : Bool} {nBins nMag : Nat} (hne : file ≠ []) :
    ∀ (ops : List Op) (st : St), Inv file af0 nBins nMag st →
      run st ops = spec (filtered file af0) nBins nMag ops
  | [], _, _ => rfl
  | op :: ops, st, hinv => by
    obtain ⟨hout, hi', hn'⟩ := step_spec hinv hne op
    have ih := refines_spec hne ops (step st op).1 hi'
    simp only [run, spec, List.map_cons]
    rw [hout, hn', ih]
    simp [spec, filtered_length]

/-- the in-memory constructor establishes the invariant (with `n_cat` given correctly or not given) -/
theorem inv_initList (cats : List Cat) (nCat : Option Nat) (af : Bool) (nBins nMag : Nat)
    (hn : nCat = none ∨ nCat = some cats.length) : Inv cats af nBins nMag (initList cats nCat af nBins nMag) := by
  refine ⟨rfl, rfl, rfl, rfl, Or.inl ⟨rfl, ?_, rfl⟩, Or.inl rfl, Or.inl rfl⟩
  rcases hn with rfl | rfl <;> rfl

/-- the file loader establishes the invariant (store on or off) -/
theorem inv_initStream (file : List Cat) (store af : Bool) (nBins nMag : Nat) :
    Inv file af nBins nMag (initStream file store af nBins nMag) :=
  ⟨rfl, rfl, rfl, rfl, Or.inr ⟨rfl, rfl, rfl, rfl, Or.inl ⟨rfl, rfl⟩⟩, Or.inl rfl, Or.inl rfl⟩

/-- **C13 for catalogs given in memory** (with or without `n_cat`; filters on or off) -/
theorem refines_spec_list (cats : List Cat) (hne : cats ≠ []) (nCat : Option Nat)
    (hn : nCat = none ∨ nCat = some cats.length) (af : Bool) (nBins nMag : Nat) (ops : List Op) :
    run (initList cats nCat af nBins nMag) ops = spec (filtered cats af) nBins nMag ops :=
  refines_spec hne ops _ (inv_initList cats nCat af nBins nMag hn)

/-- **C13 for catalogs streamed from file**, cached (`store = true`) or re-read on each pass (`store = false`) -/
theorem refines_spec_stream (file : List Cat) (hne : file ≠ []) (store af : Bool) (nBins nMag : Nat)
    (ops : List Op) :
    run (initStream file store af nBins nMag) ops = spec (filtered file af) nBins nMag ops :=
  refines_spec hne ops _ (inv_initStream file store af nBins nMag)

/-- the three ways of giving the catalogs are observationally the same forecast -/
theorem sources_agree (file : List Cat) (hne : file ≠ []) (af : Bool) (nBins nMag : Nat) (ops : List Op) :
    run (initList file none af nBins nMag) ops = run (initStream file true af nBins nMag) ops ∧
    run (initStream file true af nBins nMag) ops = run (initStream file false af nBins nMag) ops := by
  rw [refines_spec_list file hne none (Or.inl rfl), refines_spec_stream file hne true,
    refines_spec_stream file hne false]
  exact ⟨rfl, rfl⟩

/-- `get_event_counts()` after any history equals the per-catalog counts of a single pass -/
theorem eventCounts_single_pass {file : List Cat} {af0 : Bool} {nBins nMag : Nat} (hne : file ≠ []) {st : St}
    (hinv : Inv file af0 nBins nMag st) (ops : List Op) :
    run st (ops ++ [Op.getEventCounts]) = run st ops ++
      [(Out.counts ((filtered file af0).map (·.events.length)), some file.length)] := by
  rw [refines_spec hne _ st hinv, refines_spec hne _ st hinv]
  simp [spec, specOut, filtered_length]

/-- `n_cat` is the number of catalogs after every operation of every history -/
theorem nCat_correct {file : List Cat} {af0 : Bool} {nBins nMag : Nat} (hne : file ≠ []) {st : St}
    (hinv : Inv file af0 nBins nMag st) (ops : List Op) :
    ∀ o ∈ run st ops, o.2 = some file.length := by
  rw [refines_spec hne _ st hinv]
  intro o ho
  simp only [spec, List.mem_map] at ho
  obtain ⟨_, _, rfl⟩ := ho
  simp [filtered_length]

/-- **expected rates = per-bin mean**: entry j of the forecast is (Σ over catalogs of the number of surviving
    events in bin j) / n_cat -/
theorem expectedRates_eq_mean {file : List Cat} {af0 : Bool} {nBins nMag : Nat} (hne : file ≠ []) {st : St}
    (hinv : Inv file af0 nBins nMag st) (ops : List Op) :
    (run st (ops ++ [Op.getExpectedRates])).getLast? =
      some (Out.rates ((List.range nBins).map (fun j => ((filtered file af0).map (fun c => cnt c j)).sum))
              file.length, some file.length) := by
  rw [refines_spec hne _ st hinv]
  simp [spec, specOut, totals, cnt, filtered_length]

/-- **expected rates are returned identically on every request**, wherever the requests sit in a history -/
theorem expectedRates_stable {file : List Cat} {af0 : Bool} {nBins nMag : Nat} (hne : file ≠ []) {st : St}
    (hinv : Inv file af0 nBins nMag st) (ops₁ ops₂ : List Op) :
    (run st (ops₁ ++ [Op.getExpectedRates])).getLast? =
    (run st (ops₁ ++ [Op.getExpectedRates] ++ ops₂ ++ [Op.getExpectedRates])).getLast? := by
  rw [refines_spec hne _ st hinv, refines_spec hne _ st hinv]
  simp only [spec, List.map_append, List.map_cons, List.map_nil]
  rw [List.getLast?_append, List.getLast?_append]
  simp


/-! ### round 2: what a catalog brings along is never consulted

`CatalogForecast` identifies a catalog by its position in the pass only.  The catalog id (possibly `None`, possibly
equal for all catalogs, possibly the same Python object repeated), the filter statements a catalog was constructed
with (`CSEPCatalog(filters=…)` only stores them) and the region it is already bound to play no role:
relabelling them arbitrarily changes no event, no count, no rate and no `n_cat`; the catalogs handed out carry the
relabelled payload.  In particular a streamed and cached forecast whose catalogs all have `catalog_id = None` keeps
every catalog (`ids_none_all_survive`), catalogs that already carry the forecast's statements are still filtered on
every pass (`carried_filters_still_applied`), and expected rates are counted on the forecast's grid, not on the grid
the catalogs were bound to (`expectedRates_on_forecast_grid`). -/

/-- replace id, bound region and carried statements of a catalog; events untouched -/
def repay (f : Option Nat → Option Nat) (g : Nat → Nat) (k : Bool → Bool) (c : Cat) : Cat :=
  { c with id := f c.id, grid := g c.grid, carries := k c.carries }

def repayOut (f : Option Nat → Option Nat) (g : Nat → Nat) (k : Bool → Bool) : Out → Out
  | .cats l => .cats (l.map (repay f g k))
  | o => o

theorem filtered_repay (f : Option Nat → Option Nat) (g : Nat → Nat) (k : Bool → Bool) (file : List Cat)
    (af : Bool) : filtered (file.map (repay f g k)) af = (filtered file af).map (repay f g k) := by
  simp only [filtered, List.map_map]
  apply List.map_congr_left
  intro c _
  cases af <;> simp [applyOnce, filt, repay]

theorem totals_repay (f : Option Nat → Option Nat) (g : Nat → Nat) (k : Bool → Bool) (nBins : Nat)
    (l : List Cat) : totals nBins (l.map (repay f g k)) = totals nBins l := by
  simp [totals, List.map_map, Function.comp_def, repay]

theorem spec_repay (f : Option Nat → Option Nat) (g : Nat → Nat) (k : Bool → Bool) (l : List Cat)
    (nBins nMag : Nat) (ops : List Op) :
    spec (l.map (repay f g k)) nBins nMag ops =
      (spec l nBins nMag ops).map (fun o => (repayOut f g k o.1, o.2)) := by
  simp only [spec, List.map_map]
  apply List.map_congr_left
  intro op _
  cases op <;>
    simp [specOut, repayOut, totals_repay, List.map_map, Function.comp_def, repay]

/-- **ids, carried filter statements and bound regions are irrelevant**: two forecasts (any source, any state
    between operations) whose catalogs differ only in that payload give, for every history, the same event counts,
    rates and `n_cat`, and yield the same catalogs up to the payload -/
theorem payload_irrelevant {file : List Cat} {af0 : Bool} {nBins nMag : Nat} (hne : file ≠ [])
    (f : Option Nat → Option Nat) (g : Nat → Nat) (k : Bool → Bool) {st st' : St}
    (hinv : Inv file af0 nBins nMag st) (hinv' : Inv (file.map (repay f g k)) af0 nBins nMag st')
    (ops : List Op) :
    run st' ops = (run st ops).map (fun o => (repayOut f g k o.1, o.2)) := by
  have hne' : file.map (repay f g k) ≠ [] := by simpa using hne
  rw [refines_spec hne' ops st' hinv', refines_spec hne ops st hinv, filtered_repay, spec_repay]

/-- streamed and cached (or re-read), catalogs without distinct ids: **every catalog survives every pass** and
    `n_cat` is the number of catalogs — for every history; no hypothesis on the ids -/
theorem ids_none_all_survive (file : List Cat) (hne : file ≠ []) (store af : Bool) (nBins nMag : Nat)
    (ops : List Op) :
    ∀ o ∈ run (initStream (file.map (repay (fun _ => none) id id)) store af nBins nMag) ops,
      o.2 = some file.length ∧ (∀ l, o.1 = Out.cats l → l.length = file.length) := by
  have hne' : file.map (repay (fun _ => none) id id) ≠ [] := by simpa using hne
  rw [refines_spec_stream _ hne']
  intro o ho
  simp only [spec, List.mem_map] at ho
  obtain ⟨op, _, rfl⟩ := ho
  refine ⟨by simp [filtered_length], ?_⟩
  intro l hl
  cases op <;> simp [specOut] at hl <;> (subst hl; simp [filtered_length])

/-- catalogs constructed with the forecast's filter statements (`carries = true`) are still filtered: every pass
    yields the filtered events -/
theorem carried_filters_still_applied (cats : List Cat) (hne : cats ≠ []) (nBins nMag : Nat) (ops : List Op) :
    ∀ o ∈ run (initList (cats.map (repay id id (fun _ => true))) none true nBins nMag) ops,
      ∀ l, o.1 = Out.cats l → ∀ c ∈ l, ∀ e ∈ c.events, e.keep = true := by
  have hne' : cats.map (repay id id (fun _ => true)) ≠ [] := by simpa using hne
  rw [refines_spec_list _ hne' none (Or.inl rfl)]
  intro o ho
  simp only [spec, List.mem_map] at ho
  obtain ⟨op, _, rfl⟩ := ho
  intro l hl c hc e he
  have hl' : l = filtered (cats.map (repay id id (fun _ => true))) true := by
    cases op <;> simp [specOut] at hl <;> exact hl.symm
  subst hl'
  simp only [filtered, List.mem_map] at hc
  obtain ⟨c0, _, rfl⟩ := hc
  simp [applyOnce, filt] at he
  exact he.2

/-- expected rates are counted on the FORECAST's grid (`Ev.cell`), whatever region the catalogs were bound to
    (`Cat.grid`, `Ev.own`) -/
theorem expectedRates_on_forecast_grid (cats : List Cat) (hne : cats ≠ []) (g : Nat → Nat) (af : Bool)
    (nBins nMag : Nat) :
    run (initList (cats.map (repay id g id)) none af nBins nMag) [Op.getExpectedRates] =
      [(Out.rates ((List.range nBins).map (fun j => ((filtered cats af).map (fun c => cnt c j)).sum))
          cats.length, some cats.length)] := by
  have hne' : cats.map (repay id g id) ≠ [] := by simpa using hne
  rw [refines_spec_list _ hne' none (Or.inl rfl), filtered_repay]
  simp only [spec, specOut, List.map_cons, List.map_nil, totals_repay, List.length_map, filtered_length]
  simp [totals, cnt]

/-! ### non-vacuity: concrete histories evaluated by the kernel -/

def ev (k : Bool) (c : Nat) : Ev := { keep := k, cell := c }
def demo : List Cat :=
  [{ id := some 0, events := [ev true 0, ev false 1] }, { id := some 1, events := [] },
   { id := some 2, events := [ev true 3, ev true 3] }]

-- streamed and cached, filters on: pass, counts, rates, pass, rates
example : run (initStream demo true true 4 2)
      [.fullPass, .getEventCounts, .getExpectedRates, .fullPass, .getExpectedRates]
    = spec (filtered demo true) 4 2 [.fullPass, .getEventCounts, .getExpectedRates, .fullPass, .getExpectedRates] := by
  decide +kernel
example : (run (initStream demo false true 4 2) [.getExpectedRates]).map (·.1) = [.rates [1, 0, 0, 2] 3] := by
  decide +kernel
-- a wrong n_cat for an in-memory list is outside the hypotheses: the assertion of `__next__` fails
example : run (initList demo (some 2) false 4 2) [.fullPass] = [(.error, some 2)] := by decide +kernel


-- round 2: all ids None, streamed + cached: nothing collapses; catalogs bound to another grid (own bins differ)
-- and carrying the forecast's statements: still filtered, still counted on the forecast's grid
def demoNone : List Cat :=
  [{ id := none, events := [{ keep := true, cell := 0, own := 3 }, { keep := false, cell := 1, own := 2 }], grid := 5,
     carries := true },
   { id := none, events := [], grid := 5, carries := true },
   { id := none, events := [{ keep := true, cell := 3, own := 0 }, { keep := true, cell := 3, own := 1 }], grid := 5,
     carries := true }]
example : run (initStream demoNone true true 4 2) [.fullPass, .getExpectedRates, .fullPass, .getEventCounts]
    = spec (filtered demoNone true) 4 2 [.fullPass, .getExpectedRates, .fullPass, .getEventCounts] := by
  decide +kernel
example : (run (initStream demoNone true true 4 2) [.fullPass, .getExpectedRates]).map (·.1)
    = [.cats (filtered demoNone true), .rates [1, 0, 0, 2] 3] := by decide +kernel
example : demoNone = demoNone.map (repay (fun _ => none) id id) := by decide +kernel

/-! ### finding (current code): an aborted pass is not restarted

`get_expected_rates()` raises ValueError inside its pass when a catalog has an event outside the region (spatial
filter off); any `break` does the same to the cursor.  The forecast is left where the last `__next__` put it, and
the NEXT complete for-loop yields only the remaining catalogs: the statement "every complete pass yields the same
catalogs" fails on such a history.  Kernel-checked witnesses for the three ways of giving the catalogs; replayed on
the real code by harness/c13.py (signature `catalog-forecast:aborted-pass-not-restarted`). -/

/-- after a pass aborted behind the second of three catalogs the next complete loop yields only the third one
    (in-memory list, streamed + cached, streamed and re-read) — it is NOT the specification's `filtered demo` -/
theorem finding_aborted_pass_not_restarted :
    (fullPass (nextN 2 (initList demo none false 4 2))).map (·.2) = some (demo.drop 2) ∧
    (fullPass (nextN 2 (initStream demo true false 4 2))).map (·.2) = some (demo.drop 2) ∧
    (fullPass (nextN 2 (initStream demo false false 4 2))).map (·.2) = some (demo.drop 2) ∧
    demo.drop 2 ≠ filtered demo false := by
  decide +kernel

/-- the loop after that is complete again -/
example : ((fullPass (nextN 2 (initList demo none false 4 2))).bind (fun r => fullPass r.1)).map (·.2)
    = some (filtered demo false) := by decide +kernel

end ForecastIter
