import PycsepVerif.Model.Strptime
import PycsepVerif.Properties.C15_Calls

/-!
# C15 — `strptime` at character level for any field widths (round 6)

`Model/Strptime.lean` transcribes the regular expression CPython's `_strptime` compiles a format into and matches it with the
same ordered, backtracking search; it covers every format string over `%Y %m %d %H %M %S %f %z %%`, literals and blanks —
all formats the library passes (`LIB_FORMATS` of harness/c15_calls.py) and any other the caller passes.  Tied to CPython by
the correspondence `c15_strp` (≥ 1500 generated format / string pairs per quick run: un-padded fields, other blank runs, zone
suffixes, out-of-range fields, truncations, garbage; 25 000 compared while building: no disagreement).

Proved here: what the library does with the parse result (`offset_discarded`), the compiled form of the library's formats,
and kernel-checked instances of the behaviour the canonical-width model (`strptimeFields`) could not express.
NOT proved (full statement kept): `∀ f s, strptimeStr (formatOf f) s = strptimeFields f s` restricted to strings with canonical
field widths — i.e. that on what `str(datetime)` writes the general matcher is the canonical parser, which would transfer
`string_parse_agrees_full` to it; and the equivalence "first successful path, then end check" = "first path that ends at the end"
(note in the model).  Both are covered by the correspondence and by the instances below.
-/
namespace Time

/-- **a parsed `%z` offset never changes the result**: the library relabels the parsed fields as UTC
    (`.replace(tzinfo=utc)`, time_utils.py:102); only whether the suffix is well formed matters -/
theorem offset_discarded (g : Groups) (b : Bool) : fieldsOfGroups { g with z := b } = fieldsOfGroups g := rfl

/-- the library's formats compile to the directive lists one expects (a blank in the format is `\s+`) -/
theorem library_formats_compile :
    compileFormat "%Y-%m-%d %H:%M:%S.%f".toList
      = some [.Y, .lit '-', .m, .lit '-', .d, .ws, .H, .lit ':', .M, .lit ':', .S, .lit '.', .f]
    ∧ compileFormat "%Y-%m-%dT%H-%M-%S-%f".toList
      = some [.Y, .lit '-', .m, .lit '-', .d, .lit 'T', .H, .lit '-', .M, .lit '-', .S, .lit '-', .f]
    ∧ compileFormat "%Y/%m/%d %H:%M:%S.%f".toList
      = some [.Y, .lit '/', .m, .lit '/', .d, .ws, .H, .lit ':', .M, .lit ':', .S, .lit '.', .f]
    ∧ compileFormat "%Y-%m-%d %Q".toList = none ∧ compileFormat "%".toList = none := by decide

/-! ## instances (kernel-checked) -/

/-- on what `str(datetime)` writes the general matcher and the canonical parser agree (instances; general statement open) -/
example : strptimeStr (formatOf { sep := ' ', frac := true, zone := true }) "1935-03-22 05:12:29.380000+00:00".toList
    = strptimeFields { sep := ' ', frac := true, zone := true } "1935-03-22 05:12:29.380000+00:00".toList := by decide +kernel
example : strptimeToUtcEpochStr defaultFormat "1935-03-22 05:12:29.380000+00:00".toList = some (-1097606850620) := by decide +kernel
example : strptimeToUtcDatetimeStr defaultFormat "2000-02-29 00:00:00".toList = some 951782400000000 := by decide +kernel
example : strptimeToUtcDatetimeStr "%Y-%m-%dT%H-%M-%S-%f".toList "2020-02-29T12-30-45-000250".toList = some 1582979445000250 := by
  decide +kernel

/-- un-padded fields, several blanks, a tab: accepted by CPython, refused by the canonical-width model -/
example : strptimeToUtcDatetimeStr "%Y-%m-%d %H:%M:%S".toList "2010-1-5 1:2:3".toList = some 1262653323000000 := by decide +kernel
example : strptimeFields { sep := ' ', frac := false, zone := false } "2010-1-5 1:2:3".toList = none := by decide +kernel
example : strptimeToUtcDatetimeStr "%Y-%m-%d %H:%M:%S".toList "2010-01-05  \t01:02:03".toList = some 1262653323000000 := by
  decide +kernel
/-- one to six fraction digits, right-padded; a seventh digit is unconverted data -/
example : strptimeToUtcDatetimeStr "%Y-%m-%d %H:%M:%S.%f".toList "2010-01-05 01:02:03.5".toList = some 1262653323500000 := by
  decide +kernel
example : strptimeToUtcDatetimeStr "%Y-%m-%dT%H:%M:%S.%f".toList "2010-01-05T01:02:03.1234567".toList = none := by decide +kernel
/-- `%z`: `+05:30`, `+0530`, `Z` are accepted and DISCARDED (the wall clock is relabelled UTC) -/
example : strptimeToUtcDatetimeStr "%Y-%m-%d %H:%M:%S%z".toList "2010-01-05 01:02:03+05:30".toList = some 1262653323000000 := by
  decide +kernel
example : strptimeToUtcDatetimeStr "%Y-%m-%d %H:%M:%S%z".toList "2010-01-05 01:02:03Z".toList = some 1262653323000000 := by
  decide +kernel
example : strptimeToUtcDatetimeStr "%Y-%m-%d %H:%M:%S%z".toList "2010-01-05 01:02:03+1:00".toList = none := by decide +kernel
/-- literal letters match case-insensitively (IGNORECASE) -/
example : strptimeToUtcDatetimeStr "%Y-%m-%dT%H:%M:%S".toList "2010-01-05t01:02:03".toList = some 1262653323000000 := by decide +kernel
/-- range errors, trailing data, a doubled or unknown directive -/
example : strptimeToUtcDatetimeStr "%Y-%m-%d %H:%M:%S".toList "2010-02-30 01:02:03".toList = none := by decide +kernel
example : strptimeToUtcDatetimeStr "%Y-%m-%d %H:%M:%S".toList "2010-01-05 24:00:00".toList = none := by decide +kernel
example : strptimeToUtcDatetimeStr "%Y-%m-%d %H:%M:%S".toList "2010-01-05 01:02:60".toList = none := by decide +kernel
example : strptimeToUtcDatetimeStr "%Y-%m-%d %H:%M:%S".toList "2010-01-05 01:02:03 ".toList = none := by decide +kernel
example : strptimeToUtcDatetimeStr "%Y-%Y".toList "2010-2010".toList = none := by decide +kernel
/-- a short string makes the sniffing raise (IndexError) -/
example : strptimeToUtcDatetimeStr defaultFormat "2010".toList = none := by decide +kernel
/-- a directive that is absent keeps its default (year 1900, day 1, …) -/
example : strptimeToUtcDatetimeStr "%H:%M".toList "7:05".toList = some (-2208963300000000) := by decide +kernel

end Time
