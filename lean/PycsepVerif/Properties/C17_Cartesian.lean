import PycsepVerif.Properties.C17
import PycsepVerif.Proofs.QuadCartesian

/-!
# C17 (Cartesian view) — `QuadtreeGrid2D.get_cartesian` shows every cell's value at the position of its own corner

Theorems about `Model/QuadCartesian.lean` (model of `_get_idx_map_xs_ys` / `get_cartesian`, regions.py:1304-1341, reached
through `spatial_counts(cartesian=True)` of a gridded data set on a quadtree region).  The array is indexed by the
distinct west edges (columns, ascending) and the distinct south edges (rows, ascending in latitude); entry (j, i) is
the value of the cell `_find_location` returns for the lattice point (xs[i], ys[j]).
-/
namespace Quadtree

/-- the column and row coordinates are exactly the west / south edges of the cells, each once, ascending in longitude /
    ascending in latitude (= descending in the unit coordinate y) -/
theorem cartesian_axes (cells : List Key) :
    (∀ x, x ∈ cartXs cells ↔ ∃ c ∈ cells, xW c = x) ∧ (cartXs cells).Pairwise (· < ·) ∧
    (∀ y, y ∈ cartYs cells ↔ ∃ c ∈ cells, yS c = y) ∧ (cartYs cells).Pairwise (· > ·) := by
  refine ⟨?_, unique_sorted _, ?_, ?_⟩
  · intro x; unfold cartXs; rw [mem_unique, List.mem_map]
  · intro y; unfold cartYs; rw [List.mem_reverse, mem_unique, List.mem_map]
  · unfold cartYs
    rw [List.pairwise_reverse]
    exact (unique_sorted _).imp (fun h => h)

/-- when `get_cartesian` returns, entry (j, i) is the value of the FIRST listed cell containing the lattice point
    (xs[i], ys[j]) -/
theorem cartesian_entry {α} (cells : List Key) (data : List α) (G : List (List (Option α)))
    (h : getCartesian cells data = .ok G) (j i : Nat) (y x : Rat) (hy : (cartYs cells)[j]? = some y)
    (hx : (cartXs cells)[i]? = some x) :
    ∃ k, findLocation cells ⟨x, y⟩ = some k ∧ (G[j]?.bind (·[i]?)) = some data[k]? := by
  unfold getCartesian at h
  cases hm : idxMap cells with
  | error e => rw [hm] at h; cases h
  | ok m =>
    rw [hm] at h
    simp only at h
    split at h
    · cases h
    · cases h
      obtain ⟨_, hrows⟩ := (idxMap_eq_ok_iff cells m).mp hm
      obtain ⟨row, hrow, _, hent⟩ := hrows j y hy
      obtain ⟨k, hk, hrk⟩ := hent i x hx
      refine ⟨k, hk, ?_⟩
      simp [List.getElem?_map, hrow, hrk]

/-- `get_cartesian` returns ⇔ the data has one value per cell and every lattice point lies in some cell; the
    ValueError is raised exactly when a lattice point lies in NO cell (a grid with gaps) -/
theorem cartesian_ok_iff {α} (cells : List Key) (data : List α) :
    (∃ G, getCartesian cells data = .ok G) ↔
      data.length = cells.length ∧
      ∀ x ∈ cartXs cells, ∀ y ∈ cartYs cells, ∃ c ∈ cells, InTile c ⟨x, y⟩ := by
  have hloc : (∀ x ∈ cartXs cells, ∀ y ∈ cartYs cells, ∃ c ∈ cells, InTile c ⟨x, y⟩) ↔
      ¬ ∃ e, idxMap cells = .error e := by
    rw [idxMap_error_iff]
    constructor
    · rintro h ⟨x, hx, y, hy, hnone⟩
      obtain ⟨c, hc, hin⟩ := h x hx y hy
      exact ((locate_spec cells ⟨x, y⟩).2.1.mp hnone) c hc hin
    · intro h x hx y hy
      by_contra hcon
      apply h
      refine ⟨x, hx, y, hy, (locate_spec cells ⟨x, y⟩).2.1.mpr ?_⟩
      intro c hc hin
      exact hcon ⟨c, hc, hin⟩
  rw [hloc]
  unfold getCartesian
  cases hm : idxMap cells with
  | error e =>
    simp only [reduceCtorEq, exists_false, false_iff, not_and, not_not]
    intro _; exact ⟨e, rfl⟩
  | ok m =>
    simp only [reduceCtorEq, exists_false, not_false_eq_true, and_true]
    by_cases hl : data.length = cells.length
    · simp [hl]
    · simp [hl]

theorem cartesian_error_no_cell {α} (cells : List Key) (data : List α) :
    getCartesian cells data = .error .noCell ↔
      ∃ x ∈ cartXs cells, ∃ y ∈ cartYs cells, ∀ c ∈ cells, ¬ InTile c ⟨x, y⟩ := by
  have hloc := idxMap_error_iff cells
  unfold getCartesian
  cases hm : idxMap cells with
  | error e =>
    rw [hm] at hloc
    have hex := hloc.mp ⟨e, rfl⟩
    cases e with
    | length =>
      -- the index map never raises the length error
      exfalso
      unfold idxMap at hm
      obtain ⟨y, _, hrow⟩ := List.mem_map.mp (allOk_error_mem _ _ hm)
      obtain ⟨x, _, hent⟩ := List.mem_map.mp (allOk_error_mem _ _ hrow)
      unfold idxEntry at hent
      cases hf : findLocation cells ⟨x, y⟩ <;> rw [hf] at hent <;> cases hent
    | noCell =>
      simp only [true_iff]
      obtain ⟨x, hx, y, hy, hnone⟩ := hex
      exact ⟨x, hx, y, hy, (locate_spec cells ⟨x, y⟩).2.1.mp hnone⟩
  | ok m =>
    rw [hm] at hloc
    have hno : ¬ ∃ x ∈ cartXs cells, ∃ y ∈ cartYs cells, findLocation cells ⟨x, y⟩ = none := by
      intro hcon
      obtain ⟨e, he⟩ := hloc.mpr hcon
      cases he
    simp only
    constructor
    · intro h; split at h <;> cases h
    · rintro ⟨x, hx, y, hy, hnone⟩
      exact absurd ⟨x, hx, y, hy, (locate_spec cells ⟨x, y⟩).2.1.mpr hnone⟩ hno

/-- on a prefix-free grid (every grid the constructors make) EVERY cell's value appears in the array, at the row of its
    own south edge and the column of its own west edge (a cell owns its south-west corner, and no other cell does) -/
theorem cartesian_places_cells {α} (cells : List Key) (hpf : prefixFree cells) (data : List α)
    (G : List (List (Option α))) (h : getCartesian cells data = .ok G) (k : Nat) (hk : k < cells.length) :
    ∃ (i j : Nat), (cartXs cells)[i]? = some (xW cells[k]) ∧ (cartYs cells)[j]? = some (yS cells[k]) ∧
      (G[j]?.bind (·[i]?)) = some data[k]? := by
  have hmem : cells[k] ∈ cells := List.getElem_mem hk
  have hx : xW cells[k] ∈ cartXs cells := (cartesian_axes cells).1 _ |>.mpr ⟨_, hmem, rfl⟩
  have hy : yS cells[k] ∈ cartYs cells := (cartesian_axes cells).2.2.1 _ |>.mpr ⟨_, hmem, rfl⟩
  obtain ⟨i, hi, hix⟩ := List.getElem_of_mem hx
  obtain ⟨j, hj, hjy⟩ := List.getElem_of_mem hy
  have hix' : (cartXs cells)[i]? = some (xW cells[k]) := by rw [List.getElem?_eq_getElem hi, hix]
  have hjy' : (cartYs cells)[j]? = some (yS cells[k]) := by rw [List.getElem?_eq_getElem hj, hjy]
  obtain ⟨k', hk', hG⟩ := cartesian_entry cells data G h j i _ _ hjy' hix'
  have hown := (corner_ownership cells[k]).1
  have := (locate_spec cells ⟨xW cells[k], yS cells[k]⟩).2.2 hpf k hk hown
  rw [this] at hk'
  cases hk'
  exact ⟨i, j, hix', hjy', hG⟩

/-- a grid that covers the whole domain never raises: in particular … -/
theorem cartesian_total_of_cover {α} (cells : List Key) (hcover : ∀ p, InTile [] p → ∃ c ∈ cells, InTile c p)
    (data : List α) (hlen : data.length = cells.length) : ∃ G, getCartesian cells data = .ok G := by
  rw [cartesian_ok_iff]
  refine ⟨hlen, ?_⟩
  intro x hx y hy
  obtain ⟨a, _, rfl⟩ := (cartesian_axes cells).1 x |>.mp hx
  obtain ⟨b, _, rfl⟩ := (cartesian_axes cells).2.2.1 y |>.mp hy
  exact hcover _ (lattice_point_in_root a b)

/-- … every `from_catalog` grid (any catalog, threshold, zoom) and every single-resolution grid -/
theorem cartesian_total_from_catalog {α} (thr zoom : Nat) (pts : List Pt) (data : List α)
    (hlen : data.length = ((fromCatalog thr zoom pts).map Prod.fst).length) :
    ∃ G, getCartesian ((fromCatalog thr zoom pts).map Prod.fst) data = .ok G := by
  apply cartesian_total_of_cover _ _ data hlen
  intro p hp
  have h := from_catalog_partition thr zoom pts p
  rw [if_pos hp] at h
  have hpos : 0 < (fromCatalog thr zoom pts).countP (fun l => inTile l.1 p) := by omega
  obtain ⟨l, hl, hlp⟩ := List.countP_pos_iff.mp hpos
  exact ⟨l.1, List.mem_map.mpr ⟨l, hl, rfl⟩, by simpa [inTile] using hlp⟩

theorem cartesian_total_single_resolution {α} (z : Nat) (data : List α) (hlen : data.length = (singleRes z).length) :
    ∃ G, getCartesian (singleRes z) data = .ok G := by
  apply cartesian_total_of_cover _ _ data hlen
  intro p hp
  have h := single_resolution_partition z p
  rw [if_pos hp] at h
  have hpos : 0 < (singleRes z).countP (fun k => inTile k p) := by omega
  obtain ⟨k, hk, hkp⟩ := List.countP_pos_iff.mp hpos
  exact ⟨k, hk, by simpa [inTile] using hkp⟩

/-! ### examples -/

-- zoom 1: rows south to north, columns west to east
example : getCartesian (singleRes 1) [10, 11, 12, 13] = .ok [[some 12, some 13], [some 10, some 11]] := by decide +kernel
-- a multi-resolution grid: the coarse cells '0', '2', '3' are repeated over the finer lattice of '10'..'13'
example : getCartesian [[0], [1, 0], [1, 1], [1, 2], [1, 3], [2], [3]] [0, 1, 2, 3, 4, 5, 6] =
    .ok [[some 5, some 6, some 6], [some 0, some 3, some 4], [some 0, some 1, some 2]] := by decide +kernel
-- a grid with a gap raises
example : getCartesian [[0], [3]] [0, 1] = (.error .noCell : Except CartErr (List (List (Option Nat)))) := by
  decide +kernel
example : prefixFree [[0], [1, 0], [1, 1], [1, 2], [1, 3], [2], [3]] := by unfold prefixFree; decide +kernel

end Quadtree
