import PycsepVerif.Properties.C02_Float

/-!
# C02 — integer points on integer edges: the float formula is EXACT

`bin1d_vec` with int64 points and int64 edges (`_get_tolerance` returns the Python int 0 for both, so the only float
operation is the true division `(p − a0) / h` followed by `floor`): on an exactly regular integer grid `a0 + k·h` with
`|p − a0| < 2^53` the result is the exact regular-grid bin `binReg a0 h n rc p` — no band at all.
-/
namespace Bin1d
open Soft64

/-- int64 points on int64 edges, default tolerance -/
def cfgInt (rc : Bool) : Cfg := { pd := .i64, bd := .i64, tol := none, rc := rc }

theorem quotF_cfgInt (rc : Bool) {n : ℕ} (hn : 1 < n) (edge : ℕ → ℚ) (p : ℚ) :
    quotF (cfgInt rc) n edge p = (DT.f64, fl64 ((p - edge 0) / (edge 1 - edge 0))) := by
  have h1 : (n == 1) = false := by simp; omega
  simp [quotF, cfgInt, DT.promote, DT.rnd, getTol, DT.eps, denOf, hOf, h1]

/-- `bin1d_vec` on integers, integer form: the corrections and the clamp applied to `floor(fl((p − a0)/h))` -/
theorem bin1dCore_cfgInt (rc : Bool) {n : ℕ} (hn : 1 < n) (hn53 : (n : ℤ) ≤ 2 ^ 53) (edge : ℕ → ℚ) (p : ℚ) :
    bin1dCore (cfgInt rc) n edge p
      = clampInt rc n (corrInt n edge (topOf .i64 n edge) p ⌊fl64 ((p - edge 0) / (edge 1 - edge 0))⌋) := by
  unfold bin1dCore
  rw [← clampIdx_int, ← corrRat_int hn53]
  unfold corrIdx
  rw [quotF_cfgInt rc hn]
  simp only [hn, if_true, ffloor, rfloor_eq, DT.rnd, cfgInt]

/-- the one float operation does not move the floor: for integers `m`, `h ≥ 1` with `|m| < 2^53`,
`floor(fl64(m / h)) = floor(m / h)` -/
theorem floor_fl64_div_int (m h : ℤ) (hh : 1 ≤ h) (hh53 : h < 2 ^ 53) (hm : |m| < 2 ^ 53) :
    ⌊fl64 ((m : ℚ) / (h : ℚ))⌋ = ⌊(m : ℚ) / (h : ℚ)⌋ := by
  set x : ℚ := (m : ℚ) / (h : ℚ) with hx
  have hhq : (1 : ℚ) ≤ (h : ℚ) := by exact_mod_cast hh
  have hpos : (0 : ℚ) < (h : ℚ) := by linarith
  have hmq : |(m : ℚ)| < 2 ^ 53 := by
    rw [← Int.cast_abs]; exact_mod_cast hm
  have habs : |x| = |(m : ℚ)| / (h : ℚ) := by rw [hx, abs_div, abs_of_pos hpos]
  have habs_le : |x| ≤ |(m : ℚ)| := by
    rw [habs]; exact div_le_self (abs_nonneg _) hhq
  have hk1 : ((⌊x⌋ : ℤ) : ℚ) ≤ x := Int.floor_le x
  have hk2 : x < ((⌊x⌋ : ℤ) : ℚ) + 1 := Int.lt_floor_add_one x
  set k : ℤ := ⌊x⌋ with hk
  rw [Int.floor_eq_iff]
  constructor
  · -- lower side: k is a float64 (|k| ≤ 2^53) and fl64 is monotone
    have hkabs : |k| ≤ 2 ^ 53 := by
      have h1 : (k : ℚ) ≤ |(m : ℚ)| := le_trans hk1 (le_trans (le_abs_self x) habs_le)
      have h2 : -|(m : ℚ)| - 1 < (k : ℚ) := by
        have := neg_abs_le x
        linarith
      have h3 : (k : ℚ) < 2 ^ 53 := by linarith
      have h4 : -(2 : ℚ) ^ 53 - 1 < (k : ℚ) := by linarith
      have h3' : k < 2 ^ 53 := by exact_mod_cast h3
      have h4' : -(2 : ℤ) ^ 53 - 1 < k := by exact_mod_cast h4
      rw [abs_le]; constructor <;> omega
    exact Soft64R.fl64_ge_of_ge_float (Soft64R.fl64_intCast hkabs) hk1
  · -- upper side
    by_cases hm0 : m = 0
    · have : x = 0 := by rw [hx, hm0]; simp
      rw [this, Soft64R.fl64_zero]
      rw [this] at hk2
      exact hk2
    · -- m < (k+1)·h as integers, so x ≤ k + 1 − 1/h
      have hlt : (m : ℚ) < ((k : ℚ) + 1) * (h : ℚ) := by
        rw [hx, div_lt_iff₀ hpos] at hk2; exact hk2
      have hlt' : m < (k + 1) * h := by exact_mod_cast hlt
      have hle' : m + 1 ≤ (k + 1) * h := by omega
      have hle : (m : ℚ) + 1 ≤ ((k : ℚ) + 1) * (h : ℚ) := by exact_mod_cast hle'
      have hxle : x + 1 / (h : ℚ) ≤ (k : ℚ) + 1 := by
        rw [hx, ← add_div, div_le_iff₀ hpos]; exact hle
      -- relative error of the one rounding
      have hm1 : (1 : ℚ) ≤ |(m : ℚ)| := by
        have : (1 : ℤ) ≤ |m| := Int.one_le_abs hm0
        have : ((1 : ℤ) : ℚ) ≤ ((|m| : ℤ) : ℚ) := by exact_mod_cast this
        simpa using this
      have hxl : pow2 (-1022) ≤ |x| := by
        have h2 : 1 / (h : ℚ) ≤ |x| := by
          rw [habs]; exact div_le_div_of_nonneg_right hm1 hpos.le
        have h3 : (1 : ℚ) / 2 ^ 53 ≤ 1 / (h : ℚ) := by
          apply one_div_le_one_div_of_le hpos
          exact_mod_cast hh53.le
        have h4 : pow2 (-1022) ≤ 1 / 2 ^ 53 := by
          rw [Soft64R.pow2_eq_zpow]
          have e : ((2 : ℚ) ^ (-1022 : ℤ)) = 1 / 2 ^ 1022 := by norm_num [zpow_neg]
          rw [e]
          apply one_div_le_one_div_of_le (by positivity)
          exact pow_le_pow_right₀ (by norm_num) (by norm_num)
        linarith
      have hrel := Soft64R.fl64_rel_err hxl
      rw [pow2_m53] at hrel
      have hup : fl64 x ≤ x + |x| * (1 / 2 ^ 53) := by
        have := (abs_le.mp hrel).2; linarith
      have hsmall : |x| * (1 / 2 ^ 53) < 1 / (h : ℚ) := by
        rw [habs, div_mul_eq_mul_div, div_lt_div_iff_of_pos_right hpos]
        have : |(m : ℚ)| * (1 / 2 ^ 53) < 2 ^ 53 * (1 / 2 ^ 53) := by
          apply mul_lt_mul_of_pos_right hmq; norm_num
        have e : (2 : ℚ) ^ 53 * (1 / 2 ^ 53) = 1 := by norm_num
        linarith
      linarith


theorem regEdges_length (a0 h : ℚ) (n : ℕ) : (regEdges a0 h n).length = n := by simp [regEdges]

theorem regEdges_getD (a0 h : ℚ) (n k : ℕ) (hk : k < n) : (regEdges a0 h n).getD k 0 = a0 + (k : ℚ) * h := by
  simp [regEdges, List.getD, hk]

/-- **integer points on an integer grid: exact.** int64 points, int64 edges `a0 + k·h` (k < n, n ≥ 2, 1 ≤ h < 2^53),
`|p − a0| < 2^53`: `bin1d_vec` returns exactly the regular-grid bin `binReg a0 h n rc p` — `a0 + k·h ≤ p < a0 + (k+1)·h`
(`binReg_eq_iff`), −1 below the first edge, the last bin when open-ended, −1 at or above `a0 + n·h` in closed mode. No
round-off band exists for integers. -/
theorem bin1dF_int_exact (rc : Bool) (a0 h p : ℤ) (n : ℕ) (hn : 2 ≤ n) (hn53 : (n : ℤ) ≤ 2 ^ 53) (hh : 1 ≤ h) (hh53 : h < 2 ^ 53)
    (hm : |p - a0| < 2 ^ 53) :
    bin1dF (cfgInt rc) (regEdges (a0 : ℚ) (h : ℚ) n) (p : ℚ) = binReg (a0 : ℚ) (h : ℚ) n rc (p : ℚ) := by
  have hn1 : 1 < n := by omega
  have hhq : (0 : ℚ) < (h : ℚ) := by exact_mod_cast (show (0 : ℤ) < h by omega)
  unfold bin1dF
  rw [regEdges_length, bin1dCore_cfgInt rc hn1 hn53]
  have e0 : (regEdges (a0 : ℚ) (h : ℚ) n).getD 0 0 = (a0 : ℚ) := by
    rw [regEdges_getD _ _ _ _ (by omega)]; simp
  have e1 : (regEdges (a0 : ℚ) (h : ℚ) n).getD 1 0 = (a0 : ℚ) + (h : ℚ) := by
    rw [regEdges_getD _ _ _ _ (by omega)]; simp
  have equot : ((p : ℚ) - (regEdges (a0 : ℚ) (h : ℚ) n).getD 0 0) /
      ((regEdges (a0 : ℚ) (h : ℚ) n).getD 1 0 - (regEdges (a0 : ℚ) (h : ℚ) n).getD 0 0) = ((p - a0 : ℤ) : ℚ) / (h : ℚ) := by
    rw [e0, e1]; push_cast; ring_nf
  rw [equot, floor_fl64_div_int (p - a0) h hh hh53 hm]
  set k : ℤ := ⌊((p - a0 : ℤ) : ℚ) / (h : ℚ)⌋ with hk
  have hk1 : (k : ℚ) ≤ ((p - a0 : ℤ) : ℚ) / (h : ℚ) := Int.floor_le _
  have hk2 : ((p - a0 : ℤ) : ℚ) / (h : ℚ) < (k : ℚ) + 1 := Int.lt_floor_add_one _
  have hup : (p : ℚ) < (a0 : ℚ) + ((k : ℚ) + 1) * (h : ℚ) := by
    rw [div_lt_iff₀ hhq] at hk2; push_cast at hk2; linarith
  -- the corrections against real edges never fire on an exactly regular grid
  have hcorr : corrInt n (fun j => (regEdges (a0 : ℚ) (h : ℚ) n).getD j 0)
      (topOf .i64 n (fun j => (regEdges (a0 : ℚ) (h : ℚ) n).getD j 0)) (p : ℚ) k = k := by
    unfold corrInt
    have c1 : ¬ (0 ≤ k ∧ k + 1 < (n : ℤ) ∧ (regEdges (a0 : ℚ) (h : ℚ) n).getD (k + 1).toNat 0 ≤ (p : ℚ)) := by
      rintro ⟨h0, h1, h2⟩
      have hlt : (k + 1).toNat < n := by omega
      rw [regEdges_getD _ _ _ _ hlt] at h2
      have : (((k + 1).toNat : ℕ) : ℚ) = (k : ℚ) + 1 := by
        have : (((k + 1).toNat : ℕ) : ℤ) = k + 1 := Int.toNat_of_nonneg (by omega)
        have : (((k + 1).toNat : ℕ) : ℚ) = ((k + 1 : ℤ) : ℚ) := by exact_mod_cast this
        rw [this]; push_cast; ring
      rw [this] at h2
      linarith
    simp only [c1, if_false]
    have c2 : ¬ (k = (n : ℤ) - 1 ∧ topOf .i64 n (fun j => (regEdges (a0 : ℚ) (h : ℚ) n).getD j 0) ≤ (p : ℚ)) := by
      rintro ⟨hkn, ht⟩
      have hn1' : (n == 1) = false := by simp; omega
      unfold topOf hOf at ht
      simp only [hn1', DT.rnd, id, Bool.false_eq_true, if_false] at ht
      rw [regEdges_getD _ _ _ _ (show n - 1 < n by omega), e0, e1] at ht
      have hc : ((n - 1 : ℕ) : ℚ) = (n : ℚ) - 1 := by rw [Nat.cast_sub (by omega)]; simp
      rw [hc] at ht
      have hkq : (k : ℚ) = (n : ℚ) - 1 := by rw [hkn]; push_cast; ring
      rw [hkq] at hup
      nlinarith
    rw [if_neg c2]
  rw [hcorr]
  -- the clamp is the clamp of `binReg`
  unfold binReg clampInt
  have hfl : (((p : ℚ) - (a0 : ℚ)) / (h : ℚ)).floor = k := by
    rw [rfloor_eq, hk]; congr 1; push_cast; ring
  simp only [hfl]
  have hn1' : (n == 1) = false := by simp; omega
  cases rc <;> simp only [hn1', Bool.or_false, Bool.false_eq_true, if_false, if_true, ge_iff_le] <;> split_ifs <;> omega

/-! ### non-vacuity: an integer grid 5, 8, 11, 14 (h = 3) -/
example : bin1dF (cfgInt false) (regEdges 5 3 4) 13 = 2 ∧ bin1dF (cfgInt false) (regEdges 5 3 4) 14 = 3 ∧
    bin1dF (cfgInt false) (regEdges 5 3 4) 17 = -1 ∧ bin1dF (cfgInt true) (regEdges 5 3 4) 17 = 3 ∧
    bin1dF (cfgInt true) (regEdges 5 3 4) 4 = -1 := by decide +kernel
example : binReg 5 3 4 false 13 = 2 := by decide +kernel

end Bin1d
