import PycsepVerif.Proofs.PoissonRound

/-!
# C05 — explicit rounding-error bound of the float statistic (Soft64 layer)

`poisson_joint_log_likelihood_ndarray` (stats.py:191-195) with the arrays `_poisson_likelihood_test` hands it
(poisson_evaluations.py:651-656) evaluates, in binary64,

    numpy.sum(log_rate[target] * w)  -  numpy.sum(loggamma(w + 1))  -  expected

i.e. one rounded product per target bin, two float sums in WHATEVER bracketing numpy uses (pairwise blocks; a rewrite may use
another), two rounded subtractions.  The library values `l_t = numpy.log(rate_t)` and `g_t = loggamma(w_t + 1)` are binary64
numbers whose distance from the real logarithms is the accuracy of libm / scipy (a hypothesis of `statF_vs_real`, not
modelled); everything else is arithmetic and is bounded here for ALL inputs, every number of bins, every bracketing.
-/
namespace PoissonRound
open Soft64 FloatSum FloatSum.STree

/-- **arithmetic error of the statistic given its float terms**: for binary64 products `p̂`, penalties `g`, expected count `e`,
    in any bracketings of depth `d1`, `d2`:
    `|float − (Σp̂ − Σg − e)| ≤ ((1+u)^(max d1 d2 + 2) − 1) · (Σ|p̂| + Σ|g| + |e|)`. -/
theorem statF_err_terms (t1 t2 : STree) (e : ℚ) (h1 : t1.AllF64) (h2 : t2.AllF64) (he : IsF64 e) :
    |statF t1 t2 e - (t1.leaves.sum - t2.leaves.sum - e)| ≤
      ((1 + u) ^ (max t1.depth t2.depth + 2) - 1) * (absSum t1.leaves + absSum t2.leaves + |e|) := by
  have hall : (statTree t1 t2 e).AllF64 := by
    intro x hx
    simp only [statTree, leaves, List.mem_append, List.mem_singleton] at hx
    rcases hx with (hx | hx) | hx
    · exact h1 x hx
    · exact negTree_allF64 t2 h2 x hx
    · rw [hx]; exact isF64_neg he
  have := evalF_err (statTree t1 t2 e) hall
  rw [← statF_eq_tree] at this
  have hl : (statTree t1 t2 e).leaves.sum = t1.leaves.sum - t2.leaves.sum - e := by
    simp only [statTree, leaves, List.sum_append, negTree_leaves, sum_map_neg, List.sum_singleton]; ring
  have ha : absSum (statTree t1 t2 e).leaves = absSum t1.leaves + absSum t2.leaves + |e| := by
    simp only [statTree, leaves, absSum_append, negTree_leaves, absSum_map_neg]
    simp [absSum, fabs_eq_abs]
  have hd : (statTree t1 t2 e).depth = max t1.depth t2.depth + 2 := by
    simp only [statTree, depth, negTree_depth]; omega
  rw [hl, ha, hd] at this
  exact this

/-- **C05, rounding of the statistic.** `ts` = the target bins as (float log-rate `l`, count `w`), `t1` ANY bracketing whose terms
    are the rounded products `fl(l·w)`, `t2` ANY bracketing of the float penalties `g`, `e` the float expected count. Then

      |float statistic − (Σ l·w − Σ g − e)| ≤ ((1+u)^(D+1) − 1) · (Σ|l·w| + Σ|g| + |e|),   D = max(depth t1, depth t2) + 2,

    with `u = 2^-53`: the deviation is proportional to the magnitude of the CANCELLING terms — the `1e-13 · (Σ|w log λ| + Σ lgamma
    + expected)` part of the harness tolerance — and by `pow_bound` at most `2(D+1)·2^-53` times it. No bound on the number of
    bins, no assumption on the order of summation. -/
theorem statF_err (ts : List (ℚ × ℚ)) (t1 t2 : STree) (e : ℚ)
    (hl : t1.leaves = ts.map (fun t => fmul t.1 t.2)) (h2 : t2.AllF64) (he : IsF64 e)
    (hn : ∀ t ∈ ts, t.1 * t.2 = 0 ∨ pow2 (-1022) ≤ |t.1 * t.2|) :
    |statF t1 t2 e - ((ts.map (fun t => t.1 * t.2)).sum - t2.leaves.sum - e)| ≤
      ((1 + u) ^ (max t1.depth t2.depth + 3) - 1) *
        (absSum (ts.map (fun t => t.1 * t.2)) + absSum t2.leaves + |e|) := by
  have h1 : t1.AllF64 := by
    intro x hx; rw [hl] at hx
    obtain ⟨t, _, rfl⟩ := List.mem_map.mp hx
    exact isF64_fl64 _
  have hA := statF_err_terms t1 t2 e h1 h2 he
  obtain ⟨p1, p2⟩ := prods_err ts hn
  rw [hl] at hA
  set P := absSum (ts.map (fun t => t.1 * t.2))
  set Ph := absSum (ts.map (fun t => fmul t.1 t.2))
  set G := absSum t2.leaves
  set D := max t1.depth t2.depth + 2
  have hP : 0 ≤ P := absSum_nonneg _
  have hG : 0 ≤ G := absSum_nonneg _
  have hE : 0 ≤ |e| := abs_nonneg _
  have hu := u_pos
  have hc : 0 ≤ (1 + u) ^ D - 1 := by
    have := one_le_pow₀ (show (1 : ℚ) ≤ 1 + u by linarith) (n := D); linarith
  have hstep : statF t1 t2 e - ((ts.map (fun t => t.1 * t.2)).sum - t2.leaves.sum - e) =
      (statF t1 t2 e - ((ts.map (fun t => fmul t.1 t.2)).sum - t2.leaves.sum - e)) +
      ((ts.map (fun t => fmul t.1 t.2)).sum - (ts.map (fun t => t.1 * t.2)).sum) := by ring
  rw [hstep]
  have tri := abs_add_le (statF t1 t2 e - ((ts.map (fun t => fmul t.1 t.2)).sum - t2.leaves.sum - e))
    ((ts.map (fun t => fmul t.1 t.2)).sum - (ts.map (fun t => t.1 * t.2)).sum)
  have hpow : (1 + u) ^ (max t1.depth t2.depth + 3) = (1 + u) ^ D * (1 + u) := by
    rw [show max t1.depth t2.depth + 3 = D + 1 from rfl, pow_succ]
  rw [hpow]
  have hA' : |statF t1 t2 e - ((ts.map (fun t => fmul t.1 t.2)).sum - t2.leaves.sum - e)| ≤
      ((1 + u) ^ D - 1) * ((1 + u) * P + G + |e|) := by
    refine le_trans hA ?_
    apply mul_le_mul_of_nonneg_left _ hc
    linarith
  nlinarith [mul_nonneg hc hP, mul_nonneg hc hG, mul_nonneg hc hE, mul_nonneg (mul_nonneg hc hu.le) hG,
    mul_nonneg (mul_nonneg hc hu.le) hE, mul_nonneg hu.le hG, mul_nonneg hu.le hE]

/-- the explicit constant: up to 2^52 levels of additions, `(1+u)^(D+1) − 1 ≤ 2(D+1)·2^-53` — for numpy's pairwise sum of a
    million target bins (depth < 40) less than `1e-14` of the cancelling magnitude -/
theorem statF_err_explicit (ts : List (ℚ × ℚ)) (t1 t2 : STree) (e : ℚ)
    (hl : t1.leaves = ts.map (fun t => fmul t.1 t.2)) (h2 : t2.AllF64) (he : IsF64 e)
    (hn : ∀ t ∈ ts, t.1 * t.2 = 0 ∨ pow2 (-1022) ≤ |t.1 * t.2|) (hd : max t1.depth t2.depth + 3 ≤ 2 ^ 52) :
    |statF t1 t2 e - ((ts.map (fun t => t.1 * t.2)).sum - t2.leaves.sum - e)| ≤
      2 * ((max t1.depth t2.depth + 3 : ℕ) : ℚ) * u *
        (absSum (ts.map (fun t => t.1 * t.2)) + absSum t2.leaves + |e|) := by
  refine le_trans (statF_err ts t1 t2 e hl h2 he hn) ?_
  apply mul_le_mul_of_nonneg_right (pow_bound _ hd)
  have := absSum_nonneg (ts.map (fun t => t.1 * t.2)); have := absSum_nonneg t2.leaves; have := abs_nonneg e
  linarith

-- non-vacuity: two target bins (log-rates −1/2 and 3/4, counts 2 and 1), penalties log 2! ≈ 45/64 and 0, expected count 3
example : |statF (.node (.leaf (fmul (-1 / 2) 2)) (.leaf (fmul (3 / 4) 1))) (.node (.leaf (45 / 64)) (.leaf 0)) 3
      - (((-1 / 2 : ℚ) * 2 + (3 / 4) * 1 + 0) - (45 / 64 + 0) - 3)| ≤
    ((1 + u) ^ (max 1 1 + 3) - 1) * (absSum [(-1 / 2 : ℚ) * 2, (3 / 4) * 1] + absSum [45 / 64, 0] + |(3 : ℚ)|) := by
  have h := statF_err [((-1 / 2 : ℚ), 2), (3 / 4, 1)] (.node (.leaf (fmul (-1 / 2) 2)) (.leaf (fmul (3 / 4) 1)))
    (.node (.leaf (45 / 64)) (.leaf 0)) 3 rfl
    (by intro x hx; simp [leaves] at hx; rcases hx with rfl | rfl <;> (unfold IsF64; decide +kernel))
    (by unfold IsF64; decide +kernel)
    (by
      have hs : pow2 (-1022) ≤ 1 / 2 := by
        have := pow2_mono (show (-1022 : ℤ) ≤ -1 by norm_num)
        rw [pow2_eq_zpow (-1)] at this; norm_num at this; linarith
      intro t ht; simp only [List.mem_cons, List.mem_nil_iff, or_false] at ht
      rcases ht with rfl | rfl
      · right; rw [show |(-1 / 2 : ℚ) * 2| = 1 by norm_num]; linarith
      · right; rw [show |(3 / 4 : ℚ) * 1| = 3 / 4 by norm_num]; linarith)
  simpa [leaves, depth] using h

/-- **float statistic against the real-valued statistic.** `R` the float statistic, `X` the exact combination of the float terms
    (`statF_err`: `|R − X| ≤ c·(P + G + E)`), `Y = Σ w·log λ − Σ log w! − N` the real statistic of the theorems of
    `Properties/C05.lean`; if the library's logarithms / log-gammas / the float total are accurate to relative `ε`
    (`approx_terms` gives the three hypotheses in this form), then `|R − Y| ≤ (c·(1+ε) + ε)·(Σ w|log λ| + Σ log w! + N)`. -/
theorem statF_vs_real (R X P G E c : ℚ) (hR : |R - X| ≤ c * (P + G + E)) (hc : 0 ≤ c) (Y L G0 E0 ε : ℝ)
    (hP : (P : ℝ) ≤ (1 + ε) * L) (hG : (G : ℝ) ≤ (1 + ε) * G0) (hE : (E : ℝ) ≤ (1 + ε) * E0)
    (hXY : |(X : ℝ) - Y| ≤ ε * (L + G0 + E0)) :
    |(R : ℝ) - Y| ≤ ((c : ℝ) * (1 + ε) + ε) * (L + G0 + E0) := by
  have hR' : |(R : ℝ) - (X : ℝ)| ≤ (c : ℝ) * ((P : ℝ) + G + E) := by exact_mod_cast hR
  have hc' : (0 : ℝ) ≤ c := by exact_mod_cast hc
  have tri : |(R : ℝ) - Y| ≤ |(R : ℝ) - X| + |(X : ℝ) - Y| := by
    have := abs_add_le ((R : ℝ) - X) ((X : ℝ) - Y); simpa using this
  have : (c : ℝ) * ((P : ℝ) + G + E) ≤ (c : ℝ) * ((1 + ε) * L + (1 + ε) * G0 + (1 + ε) * E0) :=
    mul_le_mul_of_nonneg_left (by linarith) hc'
  nlinarith

example : |((3 : ℚ) : ℝ) - 3| ≤ (((0 : ℚ) : ℝ) * (1 + 0) + 0) * (1 + 1 + 1) :=
  statF_vs_real 3 3 1 1 1 0 (by norm_num) le_rfl 3 1 1 1 0 (by norm_num) (by norm_num) (by norm_num) (by norm_num)

end PoissonRound
