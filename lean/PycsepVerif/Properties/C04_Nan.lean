import PycsepVerif.Model.FilterNan
import PycsepVerif.Proofs.Filter

/-!
# C04 (extension) — NaN and infinite attribute values and thresholds

`Model/FilterNan.lean`. A row whose attribute is NaN satisfies NO statement on that attribute (so it is removed by `<`, `<=`,
`>`, `>=` and `==` alike — a statement and its complement do not cover the catalog), a NaN threshold selects nothing, the
infinities order as in IEEE-754. Filtering is still one pass with the conjunction, order-independent and idempotent, and on
finite catalogs it is exactly the finite model (so every theorem of `Properties/C04.lean` carries over).
-/
namespace CatFilter

/-- a NaN attribute value satisfies no statement, whatever the operator and threshold -/
theorem holdsF_nan_attr (s : StmtF) (e : EventF) (h : e.get s.attr = .nan) : s.holds e = false := by
  unfold StmtF.holds
  rw [h]
  cases s.op <;> cases s.value <;> rfl

/-- a NaN threshold selects nothing -/
theorem holdsF_nan_threshold (a : Attr) (op : Op) (e : EventF) : (StmtF.mk a op .nan).holds e = false := by
  unfold StmtF.holds
  cases op <;> cases e.get a <;> rfl

/-- the filter is one pass keeping exactly the rows for which every statement is true (order, multiplicity, whole rows) -/
theorem filterF_eq (ss : List StmtF) (es : List EventF) :
    filterListF ss es = es.filter (fun e => ss.all (fun s => s.holds e)) := by
  induction ss generalizing es with
  | nil =>
    show es = _
    exact (List.filter_eq_self.mpr (fun _ _ => by simp)).symm
  | cons s ss ih =>
    show filterListF ss (filterOneF s es) = _
    rw [ih, filterOneF, List.filter_filter]
    congr 1
    funext e
    simp [Bool.and_comm]

theorem filterF_mem_iff (ss : List StmtF) (es : List EventF) (e : EventF) :
    e ∈ filterListF ss es ↔ e ∈ es ∧ ∀ s ∈ ss, s.holds e = true := by
  rw [filterF_eq, List.mem_filter, List.all_eq_true]

/-- a row with a NaN attribute is removed by ANY statement list that mentions this attribute -/
theorem nan_row_removed (ss : List StmtF) (es : List EventF) (e : EventF) (s : StmtF) (hs : s ∈ ss)
    (h : e.get s.attr = .nan) : e ∉ filterListF ss es := by
  intro hmem
  have := ((filterF_mem_iff ss es e).mp hmem).2 s hs
  rw [holdsF_nan_attr s e h] at this
  exact absurd this (by decide)

/-- on non-NaN operands a statement and its complement are each other's negation … -/
theorem holdsF_compl (a : Attr) (op op' : Op) (v : FVal) (e : EventF) (hc : op.compl = some op')
    (h1 : (e.get a).isNan = false) (h2 : v.isNan = false) :
    (StmtF.mk a op' v).holds e = !(StmtF.mk a op v).holds e := by
  unfold StmtF.holds
  simp only
  cases op <;> simp only [Op.compl, Option.some.injEq, reduceCtorEq] at hc <;> subst hc <;>
    cases hx : e.get a <;> cases v <;> simp_all [Op.evalF, FVal.lt, FVal.le, FVal.beq', FVal.isNan] <;> grind

/-- … but with a NaN attribute BOTH are false: 'depth <= 30' and 'depth > 30' together do not give the whole catalog, and
    applied one after the other they give the empty catalog also in the presence of rows without depth -/
theorem compl_both_false_on_nan (a : Attr) (op op' : Op) (v : FVal) (e : EventF) (h : e.get a = .nan) :
    (StmtF.mk a op v).holds e = false ∧ (StmtF.mk a op' v).holds e = false :=
  ⟨holdsF_nan_attr ⟨a, op, v⟩ e h, holdsF_nan_attr ⟨a, op', v⟩ e h⟩

/-- the infinities: a `+inf` attribute passes exactly `>` and `>=` against a finite threshold, `-inf` exactly `<` and `<=` -/
theorem holdsF_inf_attr (a : Attr) (op : Op) (q : Rat) (e : EventF) :
    (e.get a = .posInf → ((StmtF.mk a op (.fin q)).holds e = true ↔ (op = .gt ∨ op = .ge))) ∧
    (e.get a = .negInf → ((StmtF.mk a op (.fin q)).holds e = true ↔ (op = .lt ∨ op = .le))) := by
  constructor <;> intro h <;> unfold StmtF.holds <;> rw [h] <;> cases op <;>
    simp [Op.evalF, FVal.lt, FVal.le, FVal.beq']

/-- statement order is irrelevant -/
theorem filterF_perm {ss ts : List StmtF} (h : ss.Perm ts) (es : List EventF) : filterListF ss es = filterListF ts es := by
  rw [filterF_eq, filterF_eq]
  congr 1; funext e
  rw [Bool.eq_iff_iff, List.all_eq_true, List.all_eq_true]
  exact ⟨fun H x hx => H x (h.mem_iff.mpr hx), fun H x hx => H x (h.mem_iff.mp hx)⟩

/-- together = one after another; re-applying is a no-op -/
theorem filterF_append (ss ts : List StmtF) (es : List EventF) :
    filterListF (ss ++ ts) es = filterListF ts (filterListF ss es) := by
  simp [filterListF, List.foldl_append]

theorem filterF_idem (ss : List StmtF) (es : List EventF) : filterListF ss (filterListF ss es) = filterListF ss es := by
  rw [filterF_eq ss es, filterF_eq]; exact filter_filter_self _ _

/-- on finite values the extended comparison is the finite one … -/
theorem holdsF_toF (s : Stmt) (e : Event) : s.toF.holds e.toF = s.holds e := by
  unfold StmtF.holds Stmt.holds Stmt.toF
  have hget : e.toF.get s.attr = .fin (e.get s.attr) := by cases s.attr <;> rfl
  simp only [hget]
  cases s.op <;> simp [Op.evalF, Op.eval, FVal.lt, FVal.le, FVal.beq', Rat.le_iff_lt_or_eq, eq_comm]

/-- … so on a catalog without non-finite values the extended filter IS the filter of `Properties/C04.lean` -/
theorem filterF_toF (ss : List Stmt) (es : List Event) :
    filterListF (ss.map Stmt.toF) (es.map Event.toF) = (filterList ss es).map Event.toF := by
  rw [filterF_eq, filterList_eq_filter, List.filter_map]
  congr 1
  apply List.filter_congr
  intro e _
  simp only [Function.comp, allHold, List.all_map]
  congr 1; funext s; exact holdsF_toF s e

/-! non-vacuity -/
section Examples
def n1 : EventF := ⟨1, 0, .fin 1, .fin 1, .fin 10, .fin 5⟩
def n2 : EventF := ⟨2, 1, .fin 1, .fin 1, .nan, .fin 5⟩       -- no depth reported
def n3 : EventF := ⟨3, 2, .fin 1, .fin 1, .posInf, .nan⟩
example : filterListF [⟨.depth, .le, .fin 30⟩] [n1, n2, n3] = [n1] := by decide +kernel
example : filterListF [⟨.depth, .gt, .fin 30⟩] [n1, n2, n3] = [n3] := by decide +kernel
example : filterListF [⟨.depth, .le, .fin 30⟩, ⟨.depth, .gt, .fin 30⟩] [n1, n2, n3] = [] := by decide +kernel
example : filterListF [⟨.magnitude, .eq, .nan⟩] [n1, n2, n3] = [] := by decide +kernel
example : filterListF [⟨.depth, .ge, .posInf⟩] [n1, n2, n3] = [n3] := by decide +kernel
example : Op.compl .le = some .gt := rfl
end Examples

end CatFilter
