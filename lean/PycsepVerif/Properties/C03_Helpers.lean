import PycsepVerif.Proofs.GriddingExt

/-!
# C03 (helpers) — the remaining gridding code paths count every kept event once, in its own cell and bin

Theorems about `Model/GriddingExt.lean`:
(a) `QuadtreeGrid2D._get_spatial_counts` / `_get_spatial_magnitude_counts` = "filter (magnitude ≥ minimum edge; when some
    latitude lies strictly beyond the bounding box: bbox[2] ≤ latitude < bbox[3]) IN PLACE, then count"; the
    space-magnitude helper REJECTS a catalog in which a kept event lies in no cell (code after the fixes D32, D33);
(b) the `_bin_catalog_*` helpers of the Cartesian grid = the partition-based counts of C01 / C03;
(c) `get_mag_idx`, `get_spatial_idx` and the dataframe columns `region_id`, `mag_id` are the indices the count arrays use;
(d) `get_cartesian` / `spatial_counts(cartesian=True)` put the value of a cell at its bounding-box position, NaN elsewhere.
Every statement holds for every catalog (any length, order, duplicates), every number of cells and bins, every lookup.
-/
namespace Gridding

/-! ## (a) the quadtree helpers -/

/-- the helpers FILTER THE CALLER'S CATALOG IN PLACE: whatever they return or raise, the catalog object afterwards holds
    exactly the kept events -/
theorem qt_filters_in_place (ncell nbin : Nat) (locate : Rat × Rat → Option Nat) (binOf : Rat → Option Nat)
    (minEdge S N : Rat) (evs : List Row) :
    (qtSC ncell locate minEdge S N evs).2 = keptOf minEdge S N evs ∧
    (qtSMC ncell nbin locate binOf minEdge S N evs).2 = keptOf minEdge S N evs := by
  rw [qtSC_eq, qtSMC_eq]; exact ⟨rfl, rfl⟩

/-- the filter keeps exactly the events it states: magnitude at or above the minimum edge and — only when some such
    event lies strictly beyond a latitude bound — latitude within the bounds, south INCLUSIVE and north exclusive, like
    the cells themselves -/
theorem qt_kept_iff (minEdge S N : Rat) (evs : List Row) (e : Row) :
    e ∈ keptOf minEdge S N evs ↔
      e ∈ evs ∧ minEdge ≤ e.mag ∧ (LatExceeded minEdge S N evs → S ≤ e.lat ∧ e.lat < N) := by
  unfold keptOf
  rw [List.mem_filter, ← triggered_iff]
  by_cases ht : triggered minEdge S N evs = true
  · simp [keepB, ht]
  · have : triggered minEdge S N evs = false := by simpa using ht
    simp [keepB, this]

/-- … with order and multiplicity preserved -/
theorem qt_kept_sublist (minEdge S N : Rat) (evs : List Row) : (keptOf minEdge S N evs).Sublist evs :=
  List.filter_sublist

theorem qt_kept_count (minEdge S N : Rat) (evs : List Row) (e : Row) (h : e ∈ keptOf minEdge S N evs) :
    (keptOf minEdge S N evs).count e = evs.count e := by
  unfold keptOf at h ⊢
  rw [List.count_filter (List.mem_filter.mp h).2]

/-- nothing is filtered when every magnitude is at or above the minimum edge and every latitude is within the CLOSED
    bounds -/
theorem qt_kept_all (minEdge S N : Rat) (evs : List Row)
    (hall : ∀ e ∈ evs, minEdge ≤ e.mag ∧ S ≤ e.lat ∧ e.lat ≤ N) : keptOf minEdge S N evs = evs := by
  unfold keptOf
  rw [List.filter_eq_self]
  intro e he
  have ht : triggered minEdge S N evs = false := by
    rw [Bool.eq_false_iff, Ne, triggered_iff]
    rintro ⟨e', he', _, h | h⟩
    · exact absurd (hall e' he').2.1 (not_le.mpr h)
    · exact absurd (hall e' he').2.2 (not_le.mpr h)
  simp [keepB, ht, (hall e he).1]

/-- `_get_spatial_counts` returns exactly when an event is kept, and then returns the per-cell counts of the KEPT
    events; otherwise the exception says at which stage the catalog became empty -/
theorem qt_sc_result (ncell : Nat) (locate : Rat × Rat → Option Nat) (minEdge S N : Rat) (evs : List Row) :
    (qtSC ncell locate minEdge S N evs).1 =
      if (∀ e ∈ evs, ¬ minEdge ≤ e.mag) then .error .emptyMin
      else if keptOf minEdge S N evs = [] then .error .emptyIndex
      else .ok (countVec ncell ((keptOf minEdge S N evs).map fun e => locate (e.lon, e.lat))) := by
  rw [qtSC_eq]
  simp only [List.isEmpty_iff, List.filter_eq_nil_iff, decide_eq_true_eq]

/-- each kept event is counted exactly once, in its own cell: entry i is the number of kept events located in cell i -/
theorem qt_sc_entry (ncell : Nat) (locate : Rat × Rat → Option Nat) (minEdge S N : Rat) (evs : List Row)
    (out : List Nat) (h : (qtSC ncell locate minEdge S N evs).1 = .ok out) (i : Nat) (hi : i < ncell) :
    out[i]? = some ((keptOf minEdge S N evs).countP fun e => locate (e.lon, e.lat) == some i) := by
  rw [qt_sc_result] at h
  split at h
  · cases h
  · split at h
    · cases h
    · cases h
      simp [countVec, hi, List.countP_map, Function.comp_def]

/-- … and the total is the number of kept events that lie in some cell (a kept event in no cell is counted nowhere) -/
theorem qt_sc_total (ncell : Nat) (locate : Rat × Rat → Option Nat) (minEdge S N : Rat) (evs : List Row)
    (out : List Nat) (h : (qtSC ncell locate minEdge S N evs).1 = .ok out)
    (hrange : ∀ p i, locate p = some i → i < ncell) :
    out.sum = (keptOf minEdge S N evs).countP fun e => (locate (e.lon, e.lat)).isSome := by
  rw [qt_sc_result] at h
  split at h
  · cases h
  · split at h
    · cases h
    · cases h
      rw [sum_countVec, List.countP_map]
      apply List.countP_congr
      intro e _
      simp only [Function.comp]
      cases hl : locate (e.lon, e.lat) with
      | none => simp
      | some i => simp [hrange _ _ hl]

/-- whenever no event is filtered the helper equals the catalog-level `spatial_counts` (and leaves the catalog as it was) -/
theorem qt_sc_eq_catalog_level (ncell : Nat) (locate : Rat × Rat → Option Nat) (minEdge S N : Rat) (evs : List Row)
    (hne : evs ≠ []) (hall : ∀ e ∈ evs, minEdge ≤ e.mag ∧ S ≤ e.lat ∧ e.lat ≤ N) :
    qtSC ncell locate minEdge S N evs =
      (.ok (spatialCountsQuad ncell (evs.map fun e => locate (e.lon, e.lat))), evs) := by
  have hk := qt_kept_all minEdge S N evs hall
  have h1 := qt_sc_result ncell locate minEdge S N evs
  have h2 := (qt_filters_in_place ncell 0 locate (fun _ => none) minEdge S N evs).1
  rw [hk] at h1 h2
  have hmag : ¬ (∀ e ∈ evs, ¬ minEdge ≤ e.mag) := by
    intro hcon
    obtain ⟨e, he⟩ := List.exists_mem_of_ne_nil evs hne
    exact hcon e he (hall e he).1
  rw [if_neg hmag, if_neg hne] at h1
  rw [spatialCountsQuad_eq]
  exact Prod.ext h1 h2

/-- the space-magnitude helper when every kept event lies in a cell: entry (i,k) is the number of kept events located
    in cell i with magnitude in bin k (each kept event counted exactly once, in its own cell and bin) -/
theorem qt_smc_located (ncell nbin : Nat) (locate : Rat × Rat → Option Nat) (binOf : Rat → Option Nat)
    (minEdge S N : Rat) (evs : List Row) (hne : keptOf minEdge S N evs ≠ [])
    (hloc : ∀ e ∈ keptOf minEdge S N evs, (locate (e.lon, e.lat)).isSome = true)
    (hbin : ∀ m, minEdge ≤ m → (binOf m).isSome = true) :
    (qtSMC ncell nbin locate binOf minEdge S N evs).1 =
      .ok (countMatrix ncell nbin ((keptOf minEdge S N evs).map (evOf locate binOf))) := by
  rw [qtSMC_eq]
  simp only
  have hmag : ¬ (evs.filter (fun e => decide (minEdge ≤ e.mag))).isEmpty = true := by
    intro hcon; exact hne (keptOf_empty_of_mag minEdge S N evs hcon)
  have hk : ¬ (keptOf minEdge S N evs).isEmpty = true := by rwa [List.isEmpty_iff]
  have hlen : (getIndexOfQuad ((keptOf minEdge S N evs).map fun e => locate (e.lon, e.lat))).length =
      (keptOf minEdge S N evs).length := by
    unfold getIndexOfQuad
    rw [(length_filterMap_id_eq_iff _).mpr, List.length_map]
    intro o ho
    obtain ⟨r, hr, rfl⟩ := List.mem_map.mp ho
    exact hloc r hr
  rw [if_neg hmag, if_neg hk, if_neg (not_not.mpr hlen)]
  have := addAtPairs_located ncell nbin ((keptOf minEdge S N evs).map (evOf locate binOf))
    (by
      intro e he
      obtain ⟨r, hr, rfl⟩ := List.mem_map.mp he
      exact hloc r hr)
    (by
      intro e he
      obtain ⟨r, hr, rfl⟩ := List.mem_map.mp he
      exact hbin _ ((qt_kept_iff minEdge S N evs r).mp hr).2.1)
  simp only [List.map_map] at this
  exact this

theorem qt_smc_entry (ncell nbin : Nat) (locate : Rat × Rat → Option Nat) (binOf : Rat → Option Nat)
    (minEdge S N : Rat) (evs : List Row) (hne : keptOf minEdge S N evs ≠ [])
    (hloc : ∀ e ∈ keptOf minEdge S N evs, (locate (e.lon, e.lat)).isSome = true)
    (hbin : ∀ m, minEdge ≤ m → (binOf m).isSome = true) (i k : Nat) (hi : i < ncell) (hk : k < nbin) :
    ∃ M, (qtSMC ncell nbin locate binOf minEdge S N evs).1 = .ok M ∧
      entry M i k = some ((keptOf minEdge S N evs).countP fun e =>
        locate (e.lon, e.lat) == some i && binOf e.mag == some k) := by
  refine ⟨_, qt_smc_located ncell nbin locate binOf minEdge S N evs hne hloc hbin, ?_⟩
  rw [entry_countMatrix, if_pos ⟨hi, hk⟩, List.countP_map]
  rfl

/-- whenever no event is filtered and every event lies in a cell, the helper equals the catalog-level
    `spatial_magnitude_counts` of the quadtree region -/
theorem qt_smc_eq_catalog_level (ncell nbin : Nat) (locate : Rat × Rat → Option Nat) (binOf : Rat → Option Nat)
    (minEdge S N : Rat) (evs : List Row) (hne : evs ≠ [])
    (hall : ∀ e ∈ evs, minEdge ≤ e.mag ∧ S ≤ e.lat ∧ e.lat ≤ N)
    (hloc : ∀ e ∈ evs, (locate (e.lon, e.lat)).isSome = true)
    (hbin : ∀ m, minEdge ≤ m → (binOf m).isSome = true) :
    ∃ M, smcQuad ncell nbin (evs.map (evOf locate binOf)) = .ok M ∧
      qtSMC ncell nbin locate binOf minEdge S N evs = (.ok M, evs) := by
  have hk := qt_kept_all minEdge S N evs hall
  refine ⟨countMatrix ncell nbin (evs.map (evOf locate binOf)), ?_, ?_⟩
  · rw [smcQuad_eq]
    have h1 : (evs.map (evOf locate binOf)).any (fun e => e.cell.isNone) = false := by
      rw [List.any_eq_false]
      intro e he
      obtain ⟨r, hr, rfl⟩ := List.mem_map.mp he
      have := hloc r hr
      simp only [evOf]
      cases hl : locate (r.lon, r.lat) <;> simp [hl] at this ⊢
    have h2 : (evs.map (evOf locate binOf)).any (fun e => e.bin.isNone) = false := by
      rw [List.any_eq_false]
      intro e he
      obtain ⟨r, hr, rfl⟩ := List.mem_map.mp he
      have := hbin r.mag (hall r hr).1
      simp only [evOf]
      cases hl : binOf r.mag <;> simp [hl] at this ⊢
    simp [h1, h2]
  · have h1 := qt_smc_located ncell nbin locate binOf minEdge S N evs (by rw [hk]; exact hne)
      (by rw [hk]; exact hloc) hbin
    have h2 := (qt_filters_in_place ncell nbin locate binOf minEdge S N evs).2
    rw [hk] at h1 h2
    exact Prod.ext h1 h2

/-- since fix D32: a catalog in which a KEPT event lies in no cell (longitude 180, a gap of the grid, latitude exactly on
    the north bound while nothing is beyond the bounds) is REJECTED with ValueError — whatever the number of located
    events; before the fix one located event among n ≥ 2 kept made numpy broadcast its cell against all n magnitudes -/
theorem qt_smc_rejects_unlocated (ncell nbin : Nat) (locate : Rat × Rat → Option Nat) (binOf : Rat → Option Nat)
    (minEdge S N : Rat) (evs : List Row) (e : Row) (he : e ∈ keptOf minEdge S N evs)
    (hout : locate (e.lon, e.lat) = none) :
    (qtSMC ncell nbin locate binOf minEdge S N evs).1 = .error .outside := by
  have hne : keptOf minEdge S N evs ≠ [] := List.ne_nil_of_mem he
  rw [qtSMC_eq]
  simp only
  have hmag : ¬ (evs.filter (fun e => decide (minEdge ≤ e.mag))).isEmpty = true := by
    intro hcon; exact hne (keptOf_empty_of_mag minEdge S N evs hcon)
  have hk : ¬ (keptOf minEdge S N evs).isEmpty = true := by rwa [List.isEmpty_iff]
  have hlen : (getIndexOfQuad ((keptOf minEdge S N evs).map fun e => locate (e.lon, e.lat))).length ≠
      (keptOf minEdge S N evs).length := by
    intro heq
    unfold getIndexOfQuad at heq
    have := (length_filterMap_id_eq_iff ((keptOf minEdge S N evs).map fun e => locate (e.lon, e.lat))).mp
      (by rw [heq, List.length_map]) (locate (e.lon, e.lat)) (List.mem_map.mpr ⟨e, he, rfl⟩)
    rw [hout] at this
    simp at this
  rw [if_neg hmag, if_neg hk, if_pos hlen]

/-- … in particular the former silent cases: a single kept event in no cell (used to return all zeros) -/
theorem qt_smc_rejects_single_unlocated (ncell nbin : Nat) (locate : Rat × Rat → Option Nat) (binOf : Rat → Option Nat)
    (minEdge S N : Rat) (evs : List Row) (e : Row) (hk : keptOf minEdge S N evs = [e])
    (hout : locate (e.lon, e.lat) = none) :
    (qtSMC ncell nbin locate binOf minEdge S N evs).1 = .error .outside :=
  qt_smc_rejects_unlocated ncell nbin locate binOf minEdge S N evs e (by rw [hk]; exact List.mem_singleton_self e) hout

/-- the helper returns ⇔ some event is kept and EVERY kept event lies in a cell -/
theorem qt_smc_ok_iff (ncell nbin : Nat) (locate : Rat × Rat → Option Nat) (binOf : Rat → Option Nat)
    (minEdge S N : Rat) (evs : List Row) (hbin : ∀ m, minEdge ≤ m → (binOf m).isSome = true) :
    (∃ M, (qtSMC ncell nbin locate binOf minEdge S N evs).1 = .ok M) ↔
      keptOf minEdge S N evs ≠ [] ∧ ∀ e ∈ keptOf minEdge S N evs, (locate (e.lon, e.lat)).isSome = true := by
  constructor
  · rintro ⟨M, hM⟩
    have hne : keptOf minEdge S N evs ≠ [] := by
      intro h0
      rw [qtSMC_eq] at hM
      simp only [h0, List.isEmpty_nil, if_true] at hM
      split at hM <;> cases hM
    refine ⟨hne, ?_⟩
    intro e he
    cases hl : locate (e.lon, e.lat) with
    | some i => rfl
    | none =>
      rw [qt_smc_rejects_unlocated ncell nbin locate binOf minEdge S N evs e he hl] at hM
      cases hM
  · rintro ⟨hne, hloc⟩
    exact ⟨_, qt_smc_located ncell nbin locate binOf minEdge S N evs hne hloc hbin⟩

/-- the IndexError of `numpy.add.at` (index arrays that cannot be broadcast) can no longer escape -/
theorem qt_smc_never_shape_error (ncell nbin : Nat) (locate : Rat × Rat → Option Nat) (binOf : Rat → Option Nat)
    (minEdge S N : Rat) (evs : List Row) :
    (qtSMC ncell nbin locate binOf minEdge S N evs).1 ≠ .error .shape := by
  rw [qtSMC_eq]
  simp only
  split
  · simp
  · split
    · simp
    · split
      · simp
      · rename_i hlen
        unfold addAtPairs
        have hl : (getIndexOfQuad ((keptOf minEdge S N evs).map fun e => locate (e.lon, e.lat))).length =
            ((keptOf minEdge S N evs).map fun e => binOf e.mag).length := by
          rw [List.length_map]; exact not_not.mp hlen
        simp [hl]

/-- on the kept events the helper is the catalog-level `spatial_magnitude_counts` of the quadtree region: same array,
    same rejection -/
theorem qt_smc_eq_smcQuad_of_kept (ncell nbin : Nat) (locate : Rat × Rat → Option Nat) (binOf : Rat → Option Nat)
    (minEdge S N : Rat) (evs : List Row) (hne : keptOf minEdge S N evs ≠ [])
    (hbin : ∀ m, minEdge ≤ m → (binOf m).isSome = true) :
    (qtSMC ncell nbin locate binOf minEdge S N evs).1 =
      match smcQuad ncell nbin ((keptOf minEdge S N evs).map (evOf locate binOf)) with
      | .ok M => .ok M
      | .error _ => .error .outside := by
  rw [smcQuad_eq]
  have hb : ((keptOf minEdge S N evs).map (evOf locate binOf)).any (fun e => e.bin.isNone) = false := by
    rw [List.any_eq_false]
    intro e he
    obtain ⟨r, hr, rfl⟩ := List.mem_map.mp he
    have := hbin r.mag ((qt_kept_iff minEdge S N evs r).mp hr).2.1
    simp only [evOf]
    cases hl : binOf r.mag <;> simp [hl] at this ⊢
  by_cases hc : ((keptOf minEdge S N evs).map (evOf locate binOf)).any (fun e => e.cell.isNone) = true
  · obtain ⟨e, he, hn⟩ := List.any_eq_true.mp hc
    obtain ⟨r, hr, rfl⟩ := List.mem_map.mp he
    have hout : locate (r.lon, r.lat) = none := by
      simp only [evOf] at hn
      cases hl : locate (r.lon, r.lat) <;> simp [hl] at hn ⊢
    simp only [hc, if_true]
    exact qt_smc_rejects_unlocated ncell nbin locate binOf minEdge S N evs r hr hout
  · have hloc : ∀ e ∈ keptOf minEdge S N evs, (locate (e.lon, e.lat)).isSome = true := by
      intro r hr
      have : ¬ ((evOf locate binOf r).cell.isNone = true) := fun hn =>
        hc (List.any_eq_true.mpr ⟨_, List.mem_map.mpr ⟨r, hr, rfl⟩, hn⟩)
      simp only [evOf] at this
      cases hl : locate (r.lon, r.lat) <;> simp [hl] at this ⊢
    simp only [hc, hb, Bool.false_eq_true, if_false]
    exact qt_smc_located ncell nbin locate binOf minEdge S N evs hne hloc hbin

/-- with sorted edges whose first edge is the minimum, every kept magnitude has a bin (no index -1 reaches `add.at`) -/
theorem qt_kept_has_bin (edges : List Rat) (e0 : Rat) (h0 : edges[0]? = some e0) (m : Rat) (hm : e0 ≤ m) :
    (magBin edges m).isSome = true := magBin_isSome_of_ge edges m e0 h0 hm

/-! ### the latitude bounds -/

/-- every tile lies within the latitude bounds of `get_bbox` -/
theorem qt_bbox_contains_tiles (bounds : List (Rat × Rat × Rat × Rat)) :
    ∀ b ∈ bounds, bboxS bounds ≤ b.2.1 ∧ b.2.2.2 ≤ bboxN bounds :=
  fun b hb => ⟨bboxS_le bounds b hb, le_bboxN bounds b hb⟩

/-- a point at or beyond the NORTH bound, or strictly below the SOUTH bound, lies in no tile (north is exclusive) -/
theorem qt_beyond_bounds_unlocated (bounds : List (Rat × Rat × Rat × Rat)) (p : Rat × Rat)
    (h : bboxN bounds ≤ p.2 ∨ p.2 < bboxS bounds) : qtFind bounds p = none := by
  unfold qtFind
  rw [List.findIdx?_eq_none_iff]
  intro b hb
  have hS := bboxS_le bounds b hb
  have hN := le_bboxN bounds b hb
  rcases h with h | h
  · have : ¬ p.2 < b.2.2.2 := not_lt.mpr (le_trans hN h)
    simp [this]
  · have : ¬ b.2.1 ≤ p.2 := not_le.mpr (lt_of_lt_of_le h hS)
    simp [this]

/-- an event exactly ON a latitude bound (with a magnitude that is kept).  SOUTH bound: it is always kept (south edges are
    inclusive: it belongs to a southernmost tile), whether or not other events are out of bounds — fix D33.  NORTH
    bound: it is never in a tile (`qt_beyond_bounds_unlocated`); it is removed ⇔ the latitude filter runs, i.e. it is
    kept ⇔ NO kept-magnitude event lies strictly beyond a bound. -/
theorem qt_bound_event_kept_iff (minEdge S N : Rat) (evs : List Row) (e : Row) (he : e ∈ evs) (hm : minEdge ≤ e.mag) :
    (e.lat = S → S < N → e ∈ keptOf minEdge S N evs) ∧
    (e.lat = N → (e ∈ keptOf minEdge S N evs ↔ ¬ LatExceeded minEdge S N evs)) := by
  refine ⟨?_, ?_⟩
  · intro hl hSN
    rw [qt_kept_iff]
    exact ⟨he, hm, fun _ => ⟨by rw [hl], by rw [hl]; exact hSN⟩⟩
  · intro hl
    rw [qt_kept_iff]
    constructor
    · rintro ⟨_, _, h⟩ hex
      have := (h hex).2
      rw [hl] at this
      exact lt_irrefl _ this
    · intro h
      exact ⟨he, hm, fun hex => absurd hex h⟩

/-! ## (b) the `_bin_catalog_*` helpers -/

/-- `_bin_catalog_spatial_counts` = the partition-based counts: entry k is the number of points the region attributes
    to polygon k (points outside are not counted) -/
theorem bin_catalog_spatial_counts_eq (R : Region.Region) (hB : R.Built) (npoly : Nat) (pts : List (Rat × Rat)) :
    binCatalogSpatialCounts R npoly pts = countVec npoly (pts.map R.cellOf) := by
  unfold binCatalogSpatialCounts
  rw [hashIdx_eq R hB, addAt_zeros_eq]

/-- `_bin_catalog_probability` = 1 exactly where that count is positive -/
theorem bin_catalog_probability_eq (R : Region.Region) (hB : R.Built) (npoly : Nat) (pts : List (Rat × Rat)) :
    binCatalogProbability R npoly pts = (countVec npoly (pts.map R.cellOf)).map (fun c => if 0 < c then 1 else 0) := by
  unfold binCatalogProbability
  rw [hashIdx_eq R hB, setAt_zeros_eq]

/-- … hence equal to the catalog-level `spatial_counts` / `spatial_event_probability` whenever those return -/
theorem bin_catalog_agree_catalog_level (R : Region.Region) (hB : R.Built) (npoly : Nat) (pts : List (Rat × Rat)) :
    (∀ cnts, spatialCountsCart npoly (pts.map R.cellOf) = .ok cnts → binCatalogSpatialCounts R npoly pts = cnts) ∧
    (∀ occ, spatialEventProbabilityCart npoly (pts.map R.cellOf) = .ok occ → binCatalogProbability R npoly pts = occ) := by
  refine ⟨?_, ?_⟩
  · intro cnts h
    rw [spatialCountsCart_eq] at h
    split at h
    · cases h
    · cases h; exact bin_catalog_spatial_counts_eq R hB npoly pts
  · intro occ h
    rw [spatialEventProbabilityCart_eq] at h
    split at h
    · cases h
    · cases h; exact bin_catalog_probability_eq R hB npoly pts

/-- `_bin_catalog_spatio_magnitude_counts`: entry (i,k) is the number of events attributed to polygon i with magnitude in
    bin k; `skipped` lists, in catalog order, exactly the events outside the region or below the first edge -/
theorem bin_catalog_smc_eq (R : Region.Region) (hB : R.Built) (npoly : Nat) (edges : List Rat) (evs : List Row) :
    (binCatalogSMC R npoly edges evs).1 = countMatrix npoly edges.length (evsCart R edges evs) ∧
    (binCatalogSMC R npoly edges evs).2 =
      evs.filter (fun e => (R.cellOf (e.lon, e.lat)).isNone || (magBin edges e.mag).isNone) :=
  ⟨binCatalogSMC_counts R hB npoly edges evs, binCatalogSMC_skipped R hB npoly edges evs⟩

/-- every event is either counted (both lookups succeed) or skipped, never both -/
theorem bin_catalog_smc_partition (R : Region.Region) (hB : R.Built) (npoly : Nat) (edges : List Rat) (evs : List Row) :
    (evs.countP fun e => (R.cellOf (e.lon, e.lat)).isSome && (magBin edges e.mag).isSome) +
      (binCatalogSMC R npoly edges evs).2.length = evs.length := by
  rw [(bin_catalog_smc_eq R hB npoly edges evs).2, ← List.countP_eq_length_filter]
  rw [List.length_eq_countP_add_countP (fun e : Row => (R.cellOf (e.lon, e.lat)).isSome && (magBin edges e.mag).isSome)]
  congr 1
  apply List.countP_congr
  intro e _
  cases R.cellOf (e.lon, e.lat) <;> cases magBin edges e.mag <;> simp

/-- … equal to the catalog-level `spatial_magnitude_counts` whenever that returns (and then nothing is skipped) -/
theorem bin_catalog_smc_agree (R : Region.Region) (hB : R.Built) (npoly : Nat) (edges : List Rat) (evs : List Row)
    (M : List (List Nat)) (h : smcCart npoly edges.length (evsCart R edges evs) = .ok M) :
    binCatalogSMC R npoly edges evs = (M, []) := by
  obtain ⟨hc, hb, rfl⟩ := (smcCart_eq npoly edges.length (evsCart R edges evs) ▸ h |> fun h' => by
    by_cases h1 : (evsCart R edges evs).any (fun e => e.cell.isNone) = true
    · simp [h1] at h'
    · by_cases h2 : (evsCart R edges evs).any (fun e => e.bin.isNone) = true
      · simp [h1, h2] at h'
      · simp only [h1, h2, Bool.false_eq_true, if_false, Except.ok.injEq] at h'
        exact (⟨h1, h2, h'.symm⟩ : _ ∧ _ ∧ M = countMatrix npoly edges.length (evsCart R edges evs)))
  apply Prod.ext
  · exact binCatalogSMC_counts R hB npoly edges evs
  · rw [binCatalogSMC_skipped R hB, List.filter_eq_nil_iff]
    intro e he
    have hc' : ¬ ((evOf (fun p => R.cellOf p) (magBin edges) e).cell.isNone = true) := fun hn =>
      hc (List.any_eq_true.mpr ⟨_, List.mem_map.mpr ⟨e, he, rfl⟩, hn⟩)
    have hb' : ¬ ((evOf (fun p => R.cellOf p) (magBin edges) e).bin.isNone = true) := fun hn =>
      hb (List.any_eq_true.mpr ⟨_, List.mem_map.mpr ⟨e, he, rfl⟩, hn⟩)
    simp only [evOf] at hc' hb'
    simp [hc', hb']

/-! ## (c) index methods and dataframe columns -/

/-- `get_spatial_idx` with a Cartesian region: the polygon of every event, or ValueError as soon as one is outside -/
theorem spatial_idx_cart_eq (R : Region.Region) (hB : R.Built) (evs : List Row) :
    getSpatialIdxCart R evs =
      if evs.all (fun e => (R.cellOf (e.lon, e.lat)).isSome) then
        .ok (evs.map fun e => (R.cellOf (e.lon, e.lat)).getD 0)
      else .error .outside := by
  unfold getSpatialIdxCart
  rw [Region.getIndexOf_eq R hB, List.all_map, List.map_map]
  rfl

/-- these are the indices `spatial_counts` accumulates (`numpy.add.at(zeros, idx, 1)`) -/
theorem spatial_idx_counts_cart (R : Region.Region) (hB : R.Built) (ncell : Nat) (evs : List Row) (rid : List Nat)
    (h : getSpatialIdxCart R evs = .ok rid) :
    spatialCountsCart ncell (evs.map fun e => R.cellOf (e.lon, e.lat)) = .ok (addAt (zeros ncell) rid) := by
  rw [spatial_idx_cart_eq R hB] at h
  split at h
  · rename_i hall
    cases h
    have hall' : ∀ o ∈ evs.map (fun e => R.cellOf (e.lon, e.lat)), o.isSome = true := by
      intro o ho
      obtain ⟨e, he, rfl⟩ := List.mem_map.mp ho
      exact List.all_eq_true.mp hall e he
    unfold spatialCountsCart getIndexOfCart
    cases evs with
    | nil => simp [addAt]
    | cons e0 es =>
      have hany : ((e0 :: es).map fun e => R.cellOf (e.lon, e.lat)).any (·.isNone) = false := by
        rw [List.any_eq_false]
        intro o ho
        have := hall' o ho
        cases o <;> simp at this ⊢
      simp only [List.isEmpty_map, List.isEmpty_cons, Bool.false_eq_true, if_false, hany]
      rw [filterMap_id_eq_map_getD _ hall', List.map_map]
      rfl
  · cases h

/-- `get_mag_idx` gives the indices `magnitude_counts` accumulates: bin k holds the events whose index is k; index -1
    (`none`) is in no bin -/
theorem mag_idx_counts (edges : List Rat) (evs : List Row) (k : Nat) (hk : k < edges.length) :
    (magnitudeCounts edges.length (getMagIdx edges evs))[k]? = some ((getMagIdx edges evs).count (some k)) := by
  rw [magnitudeCounts_eq]
  simp [countVec, hk, List.count_eq_countP]

/-- the dataframe of a catalog with a Cartesian region has the two columns exactly when every event is inside the
    region; row n then carries the polygon index and the magnitude-bin index (-1 below the first edge) of event n -/
theorem df_columns_cart_ok_iff (R : Region.Region) (hB : R.Built) (edges : List Rat) (evs : List Row)
    (rid : List Nat) (mid : List (Option Nat)) :
    dfColumnsCart R (some edges) evs = .ok (rid, some mid) ↔
      (∀ e ∈ evs, (R.cellOf (e.lon, e.lat)).isSome = true) ∧
      rid = evs.map (fun e => (R.cellOf (e.lon, e.lat)).getD 0) ∧ mid = evs.map (fun e => magBin edges e.mag) := by
  unfold dfColumnsCart
  rw [spatial_idx_cart_eq R hB]
  by_cases hall : evs.all (fun e => (R.cellOf (e.lon, e.lat)).isSome) = true
  · simp only [hall, if_true, Option.map_some, Except.ok.injEq, Prod.mk.injEq, Option.some.injEq, getMagIdx]
    constructor
    · rintro ⟨h1, h2⟩; exact ⟨fun e he => List.all_eq_true.mp hall e he, h1.symm, h2.symm⟩
    · rintro ⟨_, h1, h2⟩; exact ⟨h1.symm, h2.symm⟩
  · simp only [hall, Bool.false_eq_true, if_false, reduceCtorEq, false_iff]
    rintro ⟨h, _⟩
    exact hall (List.all_eq_true.mpr h)

/-- grouping the dataframe by (`region_id`, `mag_id`) reproduces the space-magnitude count array -/
theorem df_groupby_eq_counts_cart (R : Region.Region) (hB : R.Built) (edges : List Rat) (evs : List Row)
    (rid : List Nat) (mid : List (Option Nat)) (h : dfColumnsCart R (some edges) evs = .ok (rid, some mid))
    (i k : Nat) :
    (rid.zip mid).countP (fun q => q.1 == i && q.2 == some k) =
      (evsCart R edges evs).countP (fun e => e.cell == some i && e.bin == some k) := by
  obtain ⟨hall, rfl, rfl⟩ := (df_columns_cart_ok_iff R hB edges evs rid mid).mp h
  rw [List.zip_map', List.countP_map]
  unfold evsCart
  rw [List.countP_map]
  apply List.countP_congr
  intro e he
  have := hall e he
  simp only [Function.comp]
  cases hc : R.cellOf (e.lon, e.lat) with
  | none => simp [hc] at this
  | some j => simp

/-- quadtree region: the columns exist exactly when the catalog is non-empty and EVERY event lies in a cell (otherwise the
    shorter index array is rejected by pandas — the event is not silently paired with another row) -/
theorem df_columns_quad_ok_iff (bounds : List (Rat × Rat × Rat × Rat)) (edges : List Rat) (evs : List Row)
    (rid : List Nat) (mid : List (Option Nat)) :
    dfColumnsQuad bounds (some edges) evs = .ok (rid, some mid) ↔
      evs ≠ [] ∧ (∀ e ∈ evs, (qtFind bounds (e.lon, e.lat)).isSome = true) ∧
      rid = evs.map (fun e => (qtFind bounds (e.lon, e.lat)).getD 0) ∧ mid = evs.map (fun e => magBin edges e.mag) := by
  unfold dfColumnsQuad getSpatialIdxQuad getIndexOfQuad
  cases evs with
  | nil => simp
  | cons e0 es =>
    simp only [List.isEmpty_cons, Bool.false_eq_true, if_false, ne_eq, reduceCtorEq, not_false_eq_true, true_and]
    have key := length_filterMap_id_eq_iff ((e0 :: es).map fun e => qtFind bounds (e.lon, e.lat))
    rw [List.length_map] at key
    by_cases hlen : (List.filterMap id ((e0 :: es).map fun e => qtFind bounds (e.lon, e.lat))).length = (e0 :: es).length
    · have hall := key.mp hlen
      rw [if_neg (not_not.mpr hlen)]
      simp only [Option.map_some, Except.ok.injEq, Prod.mk.injEq, Option.some.injEq, getMagIdx]
      rw [filterMap_id_eq_map_getD _ hall, List.map_map]
      constructor
      · rintro ⟨h1, h2⟩
        refine ⟨?_, h1.symm, h2.symm⟩
        intro e he
        exact hall _ (List.mem_map.mpr ⟨e, he, rfl⟩)
      · rintro ⟨_, h1, h2⟩; exact ⟨h1.symm, h2.symm⟩
    · rw [if_pos hlen]
      simp only [reduceCtorEq, false_iff]
      rintro ⟨hall, _⟩
      apply hlen
      apply key.mpr
      intro o ho
      obtain ⟨e, he, rfl⟩ := List.mem_map.mp ho
      exact hall e he

/-! ## (d) the bounding-box view -/

/-- `get_cartesian` places the value of polygon k at the bounding-box position (row `c.j`, column `c.i`) of that polygon
    (distinct lattice positions, flag valid) -/
theorem cartesian_places_cell {α} (R : Region.Region) (hB : R.Built)
    (hD : R.cells.Pairwise (fun c c' => ¬ Region.SameSpot c c')) (data : List α) (k : Nat) (c : Region.Cell)
    (hk : R.cells[k]? = some c) (hv : c.valid = true) (hr : c.j < R.ys.length) (hc : c.i < R.xs.length) :
    ((R.getCartesian data)[c.j]?.bind (·[c.i]?)) = some data[k]? := by
  rw [Region.getCartesian_entry R data c.j c.i hr hc]
  have hmem : c ∈ R.cells := List.mem_of_getElem? hk
  have hcell : R.cellAt (some c.i) (some c.j) = some k := by
    rw [Region.cellAt_eq_some_iff R hB]
    refine ⟨⟨c, hmem, hv, rfl, rfl⟩, ?_⟩
    rw [Region.lastAt_eq_some_iff]
    refine ⟨⟨c, hk, rfl, rfl⟩, ?_⟩
    intro k' c' hlt hk' hsame
    have h1 := (List.getElem?_eq_some_iff.mp hk)
    have h2 := (List.getElem?_eq_some_iff.mp hk')
    have := List.pairwise_iff_getElem.mp hD k k' h1.1 h2.1 hlt
    rw [h1.2, h2.2] at this
    exact this ⟨hsame.1.symm, hsame.2.symm⟩
  rw [hcell]; rfl

/-- … and NaN exactly at the bounding-box positions where no active polygon sits -/
theorem cartesian_nan_iff {α} (R : Region.Region) (hB : R.Built) (data : List α) (hlen : data.length = R.cells.length)
    (r c : Nat) (hr : r < R.ys.length) (hc : c < R.xs.length) :
    ((R.getCartesian data)[r]?.bind (·[c]?)) = some none ↔ ¬ Region.activeAt R.cells c r := by
  rw [Region.getCartesian_entry R data r c hr hc, Option.some.injEq]
  constructor
  · intro h hact
    obtain ⟨k, hk⟩ := Region.lastAt_isSome_of_active hact
    have hcell : R.cellAt (some c) (some r) = some k := (Region.cellAt_eq_some_iff R hB c r k).mpr ⟨hact, hk⟩
    rw [hcell] at h
    obtain ⟨⟨c0, hc0, _⟩, _⟩ := (Region.lastAt_eq_some_iff R.cells c r k).mp hk
    have hlt : k < data.length := by rw [hlen]; exact (List.getElem?_eq_some_iff.mp hc0).1
    simp only [Option.bind_some] at h
    rw [List.getElem?_eq_none_iff] at h
    omega
  · intro h
    rw [(Region.cellAt_eq_none_iff R hB c r).mpr h]; rfl

/-- `GriddedDataSet.spatial_counts(cartesian=True)` and `MarkedGriddedDataSet.spatial_counts(cartesian=True)` agree with
    the per-cell values: position (r, c) shows the (magnitude-summed) value of the polygon the partition puts there -/
theorem gridded_cartesian_entry {α} (R : Region.Region) (data : List α) (r c : Nat) (hr : r < R.ys.length)
    (hc : c < R.xs.length) :
    ((griddedCartesian R data)[r]?.bind (·[c]?)) = some ((R.cellAt (some c) (some r)).bind (fun k => data[k]?)) :=
  Region.getCartesian_entry R data r c hr hc

theorem marked_cartesian_entry (R : Region.Region) (data : List (List Rat)) (r c : Nat) (hr : r < R.ys.length)
    (hc : c < R.xs.length) :
    ((markedCartesian R data)[r]?.bind (·[c]?)) =
      some ((R.cellAt (some c) (some r)).bind (fun k => (data[k]?).map List.sum)) := by
  unfold markedCartesian
  rw [Region.getCartesian_entry R _ r c hr hc]
  simp [List.getElem?_map]

/-! ## the hypotheses are satisfiable; the findings are real -/

/-- two tiles [0,1)x[0,1), [1,2)x[0,1): latitude bounds S = 0, N = 1 -/
def exBounds : List (Rat × Rat × Rat × Rat) := [(0, 0, 1, 1), (1, 0, 2, 1)]

example : bboxS exBounds = 0 ∧ bboxN exBounds = 1 := by decide +kernel
-- nothing filtered: equals the catalog-level counts, catalog untouched
example : qtGetSpatialCounts exBounds 4 [(1/2, 1/2, 5), (3/2, 0, 4), (3/2, 1/4, 6)] =
    (.ok [1, 2], [(1/2, 1/2, 5), (3/2, 0, 4), (3/2, 1/4, 6)]) := by decide +kernel
-- an event ON the south bound is counted (cell 1) while the catalog is within bounds …
example : (qtGetSpatialCounts exBounds 4 [(3/2, 0, 5), (1/2, 1/2, 5)]).1 = .ok [1, 1] := by decide +kernel
-- … and ALSO when another event is out of bounds (only that one is removed, from the result and from the caller's catalog)
example : qtGetSpatialCounts exBounds 4 [(3/2, 0, 5), (1/2, 1/2, 5), (1/2, -3, 5)] =
    (.ok [1, 1], [(3/2, 0, 5), (1/2, 1/2, 5)]) := by decide +kernel
-- an event ON the north bound is removed by the running filter, and counted nowhere otherwise
example : qtGetSpatialCounts exBounds 4 [(3/2, 1, 5), (1/2, 1/2, 5), (1/2, -3, 5)] = (.ok [1, 0], [(1/2, 1/2, 5)]) := by
  decide +kernel
example : (qtGetSpatialCounts exBounds 4 [(3/2, 1, 5), (1/2, 1/2, 5)]).1 = .ok [1, 0] := by decide +kernel
-- magnitude below the minimum edge removed in place; everything removed: exception, catalog left empty
example : qtGetSpatialCounts exBounds 4 [(1/2, 1/2, 3), (3/2, 1/2, 4)] = (.ok [0, 1], [(3/2, 1/2, 4)]) := by decide +kernel
example : qtGetSpatialCounts exBounds 4 [(1/2, 1/2, 3)] = (.error .emptyMin, []) := by decide +kernel
example : qtGetSpatialCounts exBounds 4 [(1/2, 5, 6)] = (.error .emptyIndex, []) := by decide +kernel
-- witnesses of D32: a kept event in no tile is rejected (was: counted in cell 0 / IndexError / all zeros)
example : (qtGetSpatialMagnitudeCounts exBounds [4, 5, 6] 4 [(1/2, 1, 9/2), (1/2, 1/2, 11/2)]).1 = .error .outside := by
  decide +kernel
example : (qtGetSpatialMagnitudeCounts exBounds [4, 5, 6] 4 [(1/2, 1, 9/2), (1/2, 1/2, 11/2), (3/2, 1/2, 6)]).1 =
    .error .outside := by decide +kernel
example : (qtGetSpatialMagnitudeCounts exBounds [4, 5, 6] 4 [(5, 1/2, 9/2)]).1 = .error .outside := by decide +kernel
example : (qtGetSpatialMagnitudeCounts exBounds [4, 5, 6] 4 [(1/2, 1/2, 9/2), (3/2, 0, 13/2), (1/2, 0, 4)]).1 =
    .ok [[2, 0, 0], [0, 0, 1]] := by decide +kernel

end Gridding
