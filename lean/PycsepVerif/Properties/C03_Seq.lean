import PycsepVerif.Proofs.GriddingSeq
import PycsepVerif.Properties.C03

/-!
# C03 (extension) — the whole pipelines, the choice of magnitude bins over call sequences, accumulation over a forecast

* The conservation / marginal theorems of `Properties/C03.lean` carry the hypothesis `InRange` ("the lookups return indices
  inside the arrays"). Here it is DISCHARGED for the two pipelines the code runs (Cartesian `cellOf` + `magBin`, quadtree
  `qtFind` + `magBin`), so total / marginals / occupancy hold for every region object built by the constructor, every edge
  list and every catalog with no hypothesis left but "the call returned".
* The quadtree versions of the marginal and occupancy statements.
* `gcall` / `runCalls` (`Model/GriddingSeq.lean`): explicit bins always win and leave the region as it is; whatever calls were
  made before, a region-bound call grids against the bins bound to the region; the only call that changes the region is
  `magnitude_counts()` on a region object that carries no bins (attribute missing or None), which installs the default bins
  (behaviour after fix D41; `finding_d41_unrepaired` describes the code before it).
* `expectedCounts`: the array `CatalogForecast.get_expected_rates` divides by `n_cat` is the count matrix of the concatenation
  of all catalogs, or the call is rejected because some catalog holds an event outside the region / below the lowest edge.
-/
namespace Gridding

/-! ### the pipelines satisfy `InRange` -/

theorem pipeline_cart_inRange (R : Region.Region) (hB : R.Built) (edges : List Rat) (evs : List (Rat × Rat × Rat))
    (M : List (List Nat)) (h : smcCart R.cells.length edges.length (evsCart R edges evs) = .ok M) :
    InRange R.cells.length edges.length (evsCart R edges evs) := by
  obtain ⟨hc, hb, _⟩ := (smc_ok_iff _ _ _ M).mp h
  intro e he
  have hc' := hc e he
  have hb' := hb e he
  obtain ⟨x, _, rfl⟩ := List.mem_map.mp he
  constructor
  · cases hcell : R.cellOf (x.1, x.2.1) with
    | none => simp [hcell] at hc'
    | some i => exact ⟨i, rfl, cellOf_lt R hB _ i hcell⟩
  · cases hbin : magBin edges x.2.2 with
    | none => simp [hbin] at hb'
    | some k => exact ⟨k, rfl, magBin_lt edges _ k hbin⟩

theorem pipeline_quad_inRange (bounds : List (Rat × Rat × Rat × Rat)) (edges : List Rat) (evs : List (Rat × Rat × Rat))
    (M : List (List Nat)) (h : smcQuad bounds.length edges.length (evsQuad bounds edges evs) = .ok M) :
    InRange bounds.length edges.length (evsQuad bounds edges evs) := by
  rw [quadtree_pairing] at h
  obtain ⟨hc, hb, _⟩ := (smc_ok_iff _ _ _ M).mp h
  intro e he
  have hc' := hc e he
  have hb' := hb e he
  obtain ⟨x, _, rfl⟩ := List.mem_map.mp he
  constructor
  · cases hcell : qtFind bounds (x.1, x.2.1) with
    | none => simp [hcell] at hc'
    | some i => exact ⟨i, rfl, qtFind_lt bounds _ i hcell⟩
  · cases hbin : magBin edges x.2.2 with
    | none => simp [hbin] at hb'
    | some k => exact ⟨k, rfl, magBin_lt edges _ k hbin⟩

/-- C03 for the Cartesian pipeline, no hypothesis but "the call returned": the total of the array is the number of events,
    its sums over magnitude are `spatial_counts`, its sums over space are `magnitude_counts` -/
theorem smc_pipeline_cart (R : Region.Region) (hB : R.Built) (edges : List Rat) (evs : List (Rat × Rat × Rat))
    (M : List (List Nat)) (h : smcCart R.cells.length edges.length (evsCart R edges evs) = .ok M) :
    (M.map List.sum).sum = evs.length ∧
    spatialCountsCart R.cells.length ((evsCart R edges evs).map (·.cell)) = .ok (M.map List.sum) ∧
    magnitudeCounts edges.length ((evsCart R edges evs).map (·.bin))
      = (List.range edges.length).map (fun k => (M.map (fun r => (r[k]?).getD 0)).sum) := by
  have hR := pipeline_cart_inRange R hB edges evs M h
  refine ⟨?_, smc_sum_mag _ _ _ M h hR, smc_sum_space _ _ _ M h hR⟩
  rw [smc_total _ _ _ M h hR]; simp [evsCart]

/-- the same for the quadtree pipeline (whose `spatial_counts` never raises) -/
theorem smc_pipeline_quad (bounds : List (Rat × Rat × Rat × Rat)) (edges : List Rat) (evs : List (Rat × Rat × Rat))
    (M : List (List Nat)) (h : smcQuad bounds.length edges.length (evsQuad bounds edges evs) = .ok M) :
    (M.map List.sum).sum = evs.length ∧
    spatialCountsQuad bounds.length ((evsQuad bounds edges evs).map (·.cell)) = M.map List.sum ∧
    magnitudeCounts edges.length ((evsQuad bounds edges evs).map (·.bin))
      = (List.range edges.length).map (fun k => (M.map (fun r => (r[k]?).getD 0)).sum) := by
  have hR := pipeline_quad_inRange bounds edges evs M h
  have h' := h
  rw [quadtree_pairing] at h'
  have hsm := smc_sum_mag _ _ _ M h' hR
  refine ⟨?_, ?_, smc_sum_space _ _ _ M h' hR⟩
  · rw [smc_total _ _ _ M h' hR]; simp [evsQuad]
  · rw [spatialCountsQuad_eq]
    rw [spatialCountsCart_eq] at hsm
    by_cases hany : ((evsQuad bounds edges evs).map (·.cell)).any (·.isNone) = true
    · simp [hany] at hsm
    · simp only [hany, Bool.false_eq_true, if_false, Except.ok.injEq] at hsm
      exact hsm

/-- quadtree regions: sums over magnitude of the space-magnitude array = `spatial_counts`, for any located events -/
theorem smc_sum_mag_quad (ncell nbin : Nat) (evs : List Ev) (M : List (List Nat)) (h : smcQuad ncell nbin evs = .ok M)
    (hR : InRange ncell nbin evs) : spatialCountsQuad ncell (evs.map (·.cell)) = M.map List.sum := by
  rw [quadtree_pairing] at h
  have hsm := smc_sum_mag ncell nbin evs M h hR
  rw [spatialCountsQuad_eq]
  rw [spatialCountsCart_eq] at hsm
  by_cases hany : (evs.map (·.cell)).any (·.isNone) = true
  · simp [hany] at hsm
  · simp only [hany, Bool.false_eq_true, if_false, Except.ok.injEq] at hsm
    exact hsm

/-- quadtree regions: the occupancy map is 1 exactly where the spatial count is positive (dropped events are in neither) -/
theorem occupancy_quad (ncell : Nat) (locs : List (Option Nat)) :
    spatialEventProbabilityQuad ncell locs = (spatialCountsQuad ncell locs).map (fun c => if 0 < c then 1 else 0) := by
  rw [spatialEventProbabilityQuad_eq, spatialCountsQuad_eq]

/-! ### which bins a call uses, over sequences of calls on one catalog / region object -/

/-- the region object changes in exactly one situation: `magnitude_counts()` without bins on a region object that carries
    no bins (attribute missing or None) installs the default bins -/
theorem gcall_state (quad : Bool) (ncell : Nat) (dflt : List Rat) (evs : Located) (b : Bound) (c : GCall) :
    (gcall quad ncell dflt evs b c).2 =
      match b, c with
      | .absent, .mc none _ => .bins dflt
      | .unset, .mc none _ => .bins dflt
      | _, _ => b := by
  cases c with
  | mc ex rb =>
    cases ex with
    | some e => cases b <;> simp [gcall, resolveMc]
    | none => cases b <;> simp [gcall, resolveMc]
  | smc ex =>
    cases hr : resolveSmc ex b <;> cases b <;> simp [gcall, hr]
  | midx => cases hr : resolveIdx b <;> cases b <;> simp [gcall, hr]
  | sc => cases b <;> cases quad <;> simp [gcall]
  | sep => cases b <;> cases quad <;> simp [gcall]

/-- explicitly supplied bins win over whatever is bound to the region, and the result is what a region bound to those
    bins would give (region present and carrying the attribute) -/
theorem explicit_bins_win (quad : Bool) (ncell : Nat) (dflt : List Rat) (evs : Located) (e e0 : List Rat) (rb : Bool) :
    gcall quad ncell dflt evs (.bins e0) (.mc (some e) rb) = ((gcall quad ncell dflt evs (.bins e) (.mc none rb)).1, .bins e0) ∧
    gcall quad ncell dflt evs (.bins e0) (.smc (some e)) = ((gcall quad ncell dflt evs (.bins e) (.smc none)).1, .bins e0) ∧
    gcall quad ncell dflt evs .unset (.smc (some e)) = ((gcall quad ncell dflt evs (.bins e) (.smc none)).1, .unset) ∧
    gcall quad ncell dflt evs .unset (.mc (some e) rb) = ((gcall quad ncell dflt evs (.bins e) (.mc none rb)).1, .unset) := by
  simp [gcall, resolveMc, resolveSmc]

/-- NO STATE LEAKS: on a region that carries bins `e0`, every call of any sequence returns exactly what it returns as the
    first and only call, and the region still carries `e0` afterwards -/
theorem calls_history_independent (quad : Bool) (ncell : Nat) (dflt : List Rat) (evs : Located) (e0 : List Rat)
    (calls : List GCall) :
    runCalls quad ncell dflt evs (.bins e0) calls
      = (calls.map (fun c => (gcall quad ncell dflt evs (.bins e0) c).1), .bins e0) := by
  induction calls with
  | nil => rfl
  | cons c cs ih =>
    have hs := gcall_state quad ncell dflt evs (.bins e0) c
    simp only at hs
    simp only [runCalls, List.map_cons]
    rw [show gcall quad ncell dflt evs (.bins e0) c = ((gcall quad ncell dflt evs (.bins e0) c).1, .bins e0) from
      Prod.ext rfl hs]
    simp only [ih]

/-- the same for a catalog without region: nothing can be written anywhere -/
theorem calls_history_independent_noregion (quad : Bool) (ncell : Nat) (dflt : List Rat) (evs : Located)
    (calls : List GCall) :
    runCalls quad ncell dflt evs .noRegion calls
      = (calls.map (fun c => (gcall quad ncell dflt evs .noRegion c).1), .noRegion) := by
  induction calls with
  | nil => rfl
  | cons c cs ih =>
    have hs := gcall_state quad ncell dflt evs .noRegion c
    simp only at hs
    simp only [runCalls, List.map_cons]
    rw [show gcall quad ncell dflt evs .noRegion c = ((gcall quad ncell dflt evs .noRegion c).1, .noRegion) from
      Prod.ext rfl hs]
    simp only [ih]

/-- the default-bins side effect: after `magnitude_counts()` on a region object that carries no bins (attribute missing, or
    None — since D41), the sequence goes on exactly as on a region bound to the default bins — and the call itself counted
    on the default bins -/
theorem default_bins_installed (quad : Bool) (ncell : Nat) (dflt : List Rat) (evs : Located) (rb : Bool) (calls : List GCall)
    (b : Bound) (hb : b = .absent ∨ b = .unset) :
    runCalls quad ncell dflt evs b (.mc none rb :: calls)
      = (((gcall quad ncell dflt evs (.bins dflt) (.mc none rb)).1
            :: calls.map (fun c => (gcall quad ncell dflt evs (.bins dflt) c).1)), .bins dflt) := by
  simp only [runCalls]
  have h1 : gcall quad ncell dflt evs b (.mc none rb)
      = ((gcall quad ncell dflt evs (.bins dflt) (.mc none rb)).1, .bins dflt) := by
    rcases hb with rfl | rfl <;> simp [gcall, resolveMc]
  rw [h1]
  simp only [calls_history_independent]

/-- since D41 `magnitude_counts()` without bins never fails for lack of bins: whatever the region state it counts on the
    bound bins or on the default bins (the histogram of the exact default-bin lookup) -/
theorem mc_default_everywhere (quad : Bool) (ncell : Nat) (dflt : List Rat) (evs : Located) (b : Bound) :
    (gcall quad ncell dflt evs b (.mc none false)).1 =
      .vec (let edges := (match b with | .bins e => e | _ => dflt)
            magnitudeCounts edges.length ((toEvs edges evs).map (·.bin))) := by
  cases b <;> simp [gcall, resolveMc]

/-- the code before D41 failed in exactly the two states the fix repaired, and agreed with the repaired code otherwise -/
theorem finding_d41_unrepaired (dflt : List Rat) (ex : Option (List Rat)) (b : Bound) :
    ((∃ err, resolveMcD41 dflt ex b = .error err) ↔ (ex = none ∧ (b = .unset ∨ b = .noRegion))) ∧
    (∀ r, resolveMcD41 dflt ex b = .ok r → r = resolveMc dflt ex b) := by
  cases ex <;> cases b <;> simp [resolveMcD41, resolveMc]

/-- `retbins=True` returns the bins the call used together with the same counts -/
theorem retbins_same_counts (quad : Bool) (ncell : Nat) (dflt : List Rat) (evs : Located) (b : Bound) (ex : Option (List Rat)) :
    ∃ v, (gcall quad ncell dflt evs b (.mc ex false)).1 = .vec v ∧
      (gcall quad ncell dflt evs b (.mc ex true)).1 = .vecBins (resolveMc dflt ex b).1 v ∧
      v.length = (resolveMc dflt ex b).1.length := by
  refine ⟨magnitudeCounts (resolveMc dflt ex b).1.length ((toEvs (resolveMc dflt ex b).1 evs).map (·.bin)), ?_, ?_, ?_⟩
  · simp [gcall]
  · simp [gcall]
  · rw [magnitudeCounts_eq]; simp [countVec]

/-- a region-bound magnitude histogram is the count vector of the exact bins: bin k holds the events with
    `edge_k ≤ m < edge_(k+1)` (top bin open) — the call-level form of `magCount_eq_filter` -/
theorem gcall_mc_entry (quad : Bool) (ncell : Nat) (dflt : List Rat) (evs : Located) (e0 : List Rat)
    (hs : e0.Pairwise (· < ·)) (k : Nat) (lo : Rat) (hk : e0[k]? = some lo) :
    ∃ v, (gcall quad ncell dflt evs (.bins e0) (.mc none false)).1 = .vec v ∧
      v[k]? = some (magFilter lo e0[k + 1]? (evs.map (·.2))).length := by
  refine ⟨magnitudeCounts e0.length ((toEvs e0 evs).map (·.bin)), by simp [gcall, resolveMc], ?_⟩
  have := magCount_eq_filter e0 hs (evs.map (·.2)) k lo hk
  simpa [toEvs, List.map_map, Function.comp_def] using this

/-! ### accumulation over the catalogs of a forecast -/

/-- `get_expected_rates` returns ⇔ no catalog holds an event outside the region or below the lowest edge, and then the
    summed array is the count matrix of all events of all catalogs -/
theorem expected_counts_ok_iff (quad : Bool) (ncell nbin : Nat) (c : List Ev) (cs : List (List Ev)) (S : List (List Nat)) :
    expectedCounts quad ncell nbin c cs = .ok S ↔
      (∀ cat ∈ c :: cs, ∀ e ∈ cat, e.cell.isSome = true ∧ e.bin.isSome = true) ∧
      S = countMatrix ncell nbin (c ++ cs.flatten) := by
  have good_iff : ∀ cat : List Ev, cat.any badEv = false ↔ ∀ e ∈ cat, e.cell.isSome = true ∧ e.bin.isSome = true := by
    intro cat
    rw [List.any_eq_false]
    constructor
    · intro h e he
      have := h e he
      cases hc : e.cell <;> cases hb : e.bin <;> simp [badEv, hc, hb] at this ⊢
    · intro h e he
      obtain ⟨h1, h2⟩ := h e he
      cases hc : e.cell <;> cases hb : e.bin <;> simp [badEv, hc, hb] at h1 h2 ⊢
  unfold expectedCounts
  by_cases hc : c.any badEv = true
  · obtain ⟨err, he⟩ := smc_either_of_bad quad ncell nbin c hc
    rw [he]
    simp only [reduceCtorEq, false_iff]
    intro ⟨h, _⟩
    have := (good_iff c).mpr (h c List.mem_cons_self)
    rw [this] at hc; exact absurd hc (by decide)
  · have hc' : c.any badEv = false := by simpa using hc
    rw [smc_either_of_good quad ncell nbin c hc']
    simp only
    by_cases hall : cs.all (fun c => !c.any badEv) = true
    · rw [accumulate_eq, if_pos hall]
      simp only [Except.ok.injEq]
      constructor
      · intro h
        refine ⟨?_, h.symm⟩
        intro cat hcat
        rcases List.mem_cons.mp hcat with rfl | hcat
        · exact (good_iff _).mp hc'
        · have := List.all_eq_true.mp hall cat hcat
          exact (good_iff cat).mp (by simpa using this)
      · intro ⟨_, h⟩; exact h.symm
    · have hall' : cs.all (fun c => !c.any badEv) = false := by simpa using hall
      obtain ⟨err, he⟩ := accumulate_error quad ncell nbin cs (countMatrix ncell nbin c) hall'
      rw [he]
      simp only [reduceCtorEq, false_iff]
      intro ⟨h, _⟩
      apply hall
      rw [List.all_eq_true]
      intro cat hcat
      have := (good_iff cat).mpr (h cat (List.mem_cons_of_mem _ hcat))
      simp [this]

/-- entry (i,k) of the summed array = number of events, over ALL catalogs, located in cell i with magnitude in bin k
    (the expected rate is this number divided by `n_cat`) -/
theorem expected_counts_entry (quad : Bool) (ncell nbin : Nat) (c : List Ev) (cs : List (List Ev)) (S : List (List Nat))
    (h : expectedCounts quad ncell nbin c cs = .ok S) (i k : Nat) (hi : i < ncell) (hk : k < nbin) :
    entry S i k = some (((c :: cs).map (fun cat => cat.countP (fun e => e.cell == some i && e.bin == some k))).sum) := by
  obtain ⟨_, rfl⟩ := (expected_counts_ok_iff quad ncell nbin c cs S).mp h
  rw [entry_countMatrix]
  simp only [hi, hk, and_self, if_true, Option.some.injEq, List.map_cons, List.sum_cons, List.countP_append]
  congr 1
  induction cs with
  | nil => rfl
  | cons d ds _ => simp [List.countP_append]

/-- a single catalog: the summed array is that catalog's own space-magnitude array -/
theorem expected_counts_single (quad : Bool) (ncell nbin : Nat) (c : List Ev) :
    expectedCounts quad ncell nbin c [] = (if quad then smcQuad ncell nbin c else smcCart ncell nbin c) := by
  unfold expectedCounts
  cases (if quad then smcQuad ncell nbin c else smcCart ncell nbin c) <;> rfl

/-- an event outside the region or below the lowest edge in ANY catalog is never silently counted: the call is rejected -/
theorem expected_counts_rejects (quad : Bool) (ncell nbin : Nat) (c : List Ev) (cs : List (List Ev)) (cat : List Ev)
    (hcat : cat ∈ c :: cs) (e : Ev) (he : e ∈ cat) (hbad : e.cell = none ∨ e.bin = none) :
    ∃ err, expectedCounts quad ncell nbin c cs = .error err := by
  cases hr : expectedCounts quad ncell nbin c cs with
  | error err => exact ⟨err, rfl⟩
  | ok S =>
    obtain ⟨h, _⟩ := (expected_counts_ok_iff quad ncell nbin c cs S).mp hr
    obtain ⟨h1, h2⟩ := h cat hcat e he
    rcases hbad with hb | hb <;> simp [hb] at h1 h2

/-! ### non-vacuity -/
section Examples
def exLoc : Located := [(some 0, 9/2), (some 1, 11/2), (some 0, 13/2), (some 1, 3)]

example : (gcall false 2 [5/2, 3] exLoc (.bins [4, 5, 6]) (.mc none false)).1 = .vec [1, 1, 1] := by decide +kernel
example : (gcall false 2 [5/2, 3] exLoc (.bins [4, 5, 6]) (.mc (some [3, 6]) true)) = (.vecBins [3, 6] [3, 1], .bins [4, 5, 6]) := by
  decide +kernel
example : (gcall false 2 [5/2, 3] exLoc (.bins [4, 5, 6]) (.smc none)).1 = .err .value := by decide +kernel
example : (gcall true 2 [5/2, 3] exLoc (.bins [4, 5, 6]) (.smc (some [3, 6]))).1 = .mat [[1, 1], [2, 0]] := by decide +kernel
example : runCalls false 2 [5/2, 3] exLoc .absent [.smc none, .mc none false, .smc none]
    = ([.err .config, .vec [0, 4], .mat [[0, 2], [0, 2]]], .bins [5/2, 3]) := by decide +kernel
example : runCalls false 2 [5/2, 3] exLoc .unset [.smc none, .mc none true, .smc none]
    = ([.err .config, .vecBins [5/2, 3] [0, 4], .mat [[0, 2], [0, 2]]], .bins [5/2, 3]) := by decide +kernel
example : runCalls false 2 [5/2, 3] exLoc .noRegion [.mc none false, .smc none]
    = ([.vec [0, 4], .err .config], .noRegion) := by decide +kernel
example : resolveMcD41 [5/2, 3] none .unset = .error .config := rfl
example : ([4, 5, 6] : List Rat)[1]? = some 5 := by decide +kernel
example : expectedCounts false 2 2 [⟨some 0, some 1⟩, ⟨some 1, some 0⟩] [[⟨some 0, some 1⟩], []] = .ok [[0, 2], [1, 0]] := by
  decide +kernel
example : expectedCounts true 2 2 [⟨some 0, some 1⟩] [[⟨none, some 1⟩]] = .error .outside := by decide +kernel
example : (Region.Region.new [0, 1] [0] 2 1 [⟨0, 0, true⟩, ⟨1, 0, true⟩]).Built := rfl
end Examples

end Gridding
