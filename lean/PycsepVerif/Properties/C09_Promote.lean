import PycsepVerif.Model.EcdfPromote
import PycsepVerif.Properties.C09_Code

/-!
# C09 — numpy's promotion table inside the model (`Model/EcdfPromote.lean`)

* `resultType_comm`, `resultType_idem`: the table is symmetric and idempotent (kernel-checked over the 121 pairs);
* `resultType_lossy_iff`: the common dtype fails to hold every value of both operands EXACTLY when a 64-bit integer meets
  float64 — the dtype class of known finding D35, derived from the table (`holdsAll` is numpy's `can_cast(t, r, 'safe')`
  on all 121 pairs EXCEPT int64 / uint64 into float64, which numpy calls safe although values beyond 2^53 are rounded —
  checked against numpy 2.5.3; that exception is D35);
* `np_int_dtype_pairs_exact`: for every pair of integer dtypes whose common dtype is an integer type (all but uint64 ×
  signed) the library code returns the exact counting probabilities for ALL samples and queries;
* `np_int_sample_below_2p53_exact`: an integer sample below 2^53 is answered exactly for a Python int / Python float /
  numpy integer / numpy float64 query, whatever the sample's integer dtype (the domains the table picks are exact or binary64).
-/
namespace Ecdf

theorem resultType_comm : ∀ a b : DT, resultType a b = resultType b a := by
  intro a b; cases a <;> cases b <;> decide
theorem resultType_idem : ∀ a : DT, resultType a a = a := by
  intro a; cases a <;> decide

def DT.is64Int : DT → Bool
  | .u64 | .i64 => true
  | _ => false

/-- every value of dtype `t` is a value of dtype `r` (numpy's `can_cast(t, r, 'safe')`, except that numpy also calls
    int64 / uint64 → float64 safe) -/
def holdsAll (r t : DT) : Bool :=
  if t.isFloat then r.isFloat && t.bits ≤ r.bits
  else if r.isFloat then floatForInt t.bits ≤ r.bits && t.bits < 64
  else if t.isUnsigned == r.isUnsigned then t.bits ≤ r.bits
  else t.isUnsigned && t.bits < r.bits

/-- **the dtype class of D35, from the table**: `numpy.result_type(a, b)` cannot hold every value of `a` and of `b` exactly
    when it is float64 and one of them is a 64-bit integer type (uint64 × signed integer, 64-bit integer × float) -/
theorem resultType_lossy_iff : ∀ a b : DT,
    (holdsAll (resultType a b) a && holdsAll (resultType a b) b) = false ↔
      (resultType a b = .f64 ∧ (a.is64Int = true ∨ b.is64Int = true)) := by
  intro a b; cases a <;> cases b <;> decide

private theorem int_pair_exact_dom : ∀ E Q : DT, E.isInt = true → Q.isInt = true → resultType E Q ≠ .f64 →
    scDom E (.np Q) = .exact ∧ domOf (resultType E Q) = .exact := by
  intro E Q; cases E <;> cases Q <;> decide

/-- two integer dtypes with an integer common dtype: exact for ALL samples and queries (no size restriction) -/
theorem np_int_dtype_pairs_exact (E Q : DT) (hE : E.isInt = true) (hQ : Q.isInt = true) (hr : resultType E Q ≠ .f64)
    (x : List Rat) (v : Rat) (hx : x ≠ []) :
    geEcdfDT E (.np Q) x v = some (.prob (cntGE x v) x.length) ∧
    leEcdfDT E (.np Q) x v = some (.prob (cntLE x v) x.length) := by
  obtain ⟨h1, h2⟩ := int_pair_exact_dom E Q hE hQ hr
  unfold geEcdfDT leEcdfDT seDom qArrType
  simp only [h1, h2]
  exact np_exact_common_dtype _ _ x v hx (fun _ _ => rfl) rfl (fun _ _ => rfl) rfl

-- non-vacuity: int64 sample beyond 2^53 with a numpy.int32 / uint32 query
example : geEcdfDT .i64 (.np .u32) [9007199254740992, 9007199254740993, 5] 5 = some (.prob 3 3) := by
  rw [(np_int_dtype_pairs_exact .i64 .u32 rfl rfl (by decide) _ _ (by simp)).1]; decide +kernel

private theorem int_sample_doms_np : ∀ E Q : DT, E.isInt = true → (Q.isInt = true ∨ Q = .f64) →
    (scDom E (.np Q) = .exact ∨ scDom E (.np Q) = .f64) ∧
    (domOf (resultType E Q) = .exact ∨ domOf (resultType E Q) = .f64) := by
  intro E Q; cases E <;> cases Q <;> decide

private theorem int_sample_doms_py : ∀ E : DT, E.isInt = true →
    (scDom E .pyInt = .exact ∨ scDom E .pyInt = .f64) ∧ (scDom E .pyFloat = .exact ∨ scDom E .pyFloat = .f64) ∧
    (domOf (resultType E .i64) = .exact ∨ domOf (resultType E .i64) = .f64) ∧
    (domOf (resultType E .u64) = .exact ∨ domOf (resultType E .u64) = .f64) ∧
    (domOf (resultType E .f64) = .exact ∨ domOf (resultType E .f64) = .f64) := by
  intro E; cases E <;> decide

/-- an integer sample (any of the eight integer dtypes) with all values below 2^53 in absolute value is answered exactly
    for a query that binary64 holds exactly and that is handed over as a Python int, a Python float, a numpy integer of any
    dtype or a numpy float64: D35 needs a value beyond ±2^53 -/
theorem np_int_sample_below_2p53_exact (E : DT) (hE : E.isInt = true) (q : QK)
    (hq : q = .pyInt ∨ q = .pyFloat ∨ ∃ Q, q = .np Q ∧ (Q.isInt = true ∨ Q = .f64))
    (xs : List Int) (v : Rat) (hx : xs ≠ []) (hb : ∀ z ∈ xs, |z| < 2 ^ 53) (hv : Soft64.fl64 v = v) :
    geEcdfDT E q (xs.map fun (z : Int) => (z : Rat)) v =
      some (.prob (cntGE (xs.map fun (z : Int) => (z : Rat)) v) xs.length) ∧
    leEcdfDT E q (xs.map fun (z : Int) => (z : Rat)) v =
      some (.prob (cntLE (xs.map fun (z : Int) => (z : Rat)) v) xs.length) := by
  have hdom : (scDom E q = .exact ∨ scDom E q = .f64) ∧ (seDom E q v = .exact ∨ seDom E q v = .f64) := by
    obtain ⟨p1, p2, p3, p4, p5⟩ := int_sample_doms_py E hE
    rcases hq with rfl | rfl | ⟨Q, rfl, hQ⟩
    · refine ⟨p1, ?_⟩
      unfold seDom qArrType
      by_cases c1 : -9223372036854775808 ≤ v ∧ v ≤ 9223372036854775807
      · rw [if_pos c1]; exact p3
      · by_cases c2 : 0 ≤ v ∧ v ≤ 18446744073709551615
        · rw [if_neg c1, if_pos c2]; exact p4
        · rw [if_neg c1, if_neg c2]; exact Or.inl rfl
    · exact ⟨p2, by simpa [seDom, qArrType] using p5⟩
    · obtain ⟨a, b⟩ := int_sample_doms_np E Q hE hQ
      exact ⟨a, by simpa [seDom, qArrType] using b⟩
  unfold geEcdfDT leEcdfDT
  exact np_int_below_2p53_exact _ _ hdom.1 hdom.2 xs v hx hb hv

-- non-vacuity: a uint8 sample with a Python float query (short-circuits and search in binary64)
example : leEcdfDT .u8 .pyFloat ([3, 200, 200].map fun (z : Int) => (z : Rat)) (401 / 2) = some (.prob 3 3) := by
  have h := (np_int_sample_below_2p53_exact .u8 rfl .pyFloat (Or.inr (Or.inl rfl)) [3, 200, 200] (401 / 2) (by simp)
    (by decide +kernel) (by decide +kernel)).2
  rw [h]; decide +kernel

/-! ## parked candidate `python-int-list-straddling-2^63` on the faithful model -/

/-- a list of Python ints all inside the int64 range, or all inside [2^63, 2^64), or with an entry beyond 64 bits, is
    converted exactly -/
theorem listSample_exact (xs : List Int) (h : listDom xs = .exact) : listSample xs = xs.map fun (z : Int) => (z : Rat) := by
  unfold listSample; rw [h]; rfl

/-- witness (kernel-checked): `get_quantiles([5, 2**63, 2**63 + 1], 2**63 + 1)`. numpy turns the list into float64
    (2^63 + 1 rounds to 2^63), the Python-int query is compared in float64 as well: the library answers 2/3 for "at least"
    where #{x_i ≥ v}/n = 1/3 -/
theorem finding_list_straddling_2p63 :
    listDom [5, 9223372036854775808, 9223372036854775809] = .f64 ∧
    geEcdfNp Dom.f64.cast Dom.f64.cast (listSample [5, 9223372036854775808, 9223372036854775809]) 9223372036854775809 =
      some (.prob 2 3) ∧
    cntGE ([5, 9223372036854775808, 9223372036854775809] : List Rat) 9223372036854775809 = 1 := by
  have hs : listSample [5, 9223372036854775808, 9223372036854775809] = [5, 9223372036854775808, 9223372036854775808] := by
    decide +kernel
  refine ⟨by decide +kernel, ?_, by decide +kernel⟩
  rw [hs]; unfold geEcdfNp; rw [sort_of_sorted (by decide +kernel)]; decide +kernel

/-! ## the complete behaviour of the library code under ANY pair of monotone comparison domains -/

/-- **C09, every dtype combination at once** (D35 and D36 are instances): whatever monotone conversions numpy applies in the
    two short-circuits (`sc`) and in `searchsorted` (`se`), with `lo` / `hi` the smallest / largest sample value,
    `greater_equal_ecdf` returns 0 if `sc v > sc hi`, else 1 if `sc v < sc lo`, else `(n − #{se xᵢ < se v}) / n` — and raises
    IndexError exactly when that count is `n` (every converted sample value below the converted query although the
    short-circuit did not fire: possible only when `sc` and `se` round differently, known finding D36). -/
theorem np_ge_characterised (sc se : Rat → Rat) (hf : Mono se) (x : List Rat) (v : Rat) (hx : x ≠ []) :
    ∃ lo hi, lo ∈ x ∧ hi ∈ x ∧ (∀ a ∈ x, lo ≤ a ∧ a ≤ hi) ∧
      geEcdfNp sc se x v = some (
        if sc v > sc hi then .prob 0 x.length
        else if sc v < sc lo then .prob x.length x.length
        else if x.countP (fun a => decide (se a < se v)) < x.length
          then .prob (x.length - x.countP (fun a => decide (se a < se v))) x.length
          else .indexError) := by
  obtain ⟨e0, last, hhead, hlast, he0, hlastm, hmin, hmax⟩ := sort_head_last hx
  have hlen : (sort x).length = x.length := (sort_perm x).length_eq
  refine ⟨e0, last, he0, hlastm, fun a ha => ⟨hmin a ha, hmax a ha⟩, ?_⟩
  unfold geEcdfNp geSortedNp
  simp only [hhead, hlast, hlen, searchLeft_map_sort hf]
  split
  · rfl
  · split
    · rfl
    · split <;> rfl

/-- the same for `less_equal_ecdf`: 1 if `sc v > sc hi`, else 0 if `sc v < sc lo`, else `#{se xᵢ ≤ se v} / n` — and, when that
    count is 0, the subscript −1 wraps to the LAST entry: the library returns 1 (D36's other face) -/
theorem np_le_characterised (sc se : Rat → Rat) (hf : Mono se) (x : List Rat) (v : Rat) (hx : x ≠ []) :
    ∃ lo hi, lo ∈ x ∧ hi ∈ x ∧ (∀ a ∈ x, lo ≤ a ∧ a ≤ hi) ∧
      leEcdfNp sc se x v = some (
        if sc v > sc hi then .prob x.length x.length
        else if sc v < sc lo then .prob 0 x.length
        else if x.countP (fun a => decide (se a ≤ se v)) = 0 then .prob x.length x.length
        else .prob (x.countP (fun a => decide (se a ≤ se v))) x.length) := by
  obtain ⟨e0, last, hhead, hlast, he0, hlastm, hmin, hmax⟩ := sort_head_last hx
  have hlen : (sort x).length = x.length := (sort_perm x).length_eq
  refine ⟨e0, last, he0, hlastm, fun a ha => ⟨hmin a ha, hmax a ha⟩, ?_⟩
  unfold leEcdfNp leSortedNp
  simp only [hhead, hlast, hlen, searchRight_map_sort hf]
  split
  · rfl
  · split
    · rfl
    · split <;> rfl

/-- consequence: when the two domains coincide (`sc = se`, monotone) the IndexError and the wrap-around cannot occur — D36
    needs short-circuits and search to round DIFFERENTLY -/
theorem np_same_domain_no_indexError (f : Rat → Rat) (hf : Mono f) (x : List Rat) (v : Rat) (hx : x ≠ []) :
    geEcdfNp f f x v ≠ some .indexError := by
  obtain ⟨lo, hi, hlo, hhi, hb, h⟩ := np_ge_characterised f f hf x v hx
  rw [h]
  split
  · simp
  · rename_i h1
    split
    · simp
    · split
      · simp
      · rename_i h3
        exfalso
        apply h3
        exact countP_lt_length_of_mem hhi (by simpa using Rat.not_lt.mp h1)

-- non-vacuity: float32 short-circuits with an exact search (the D36 configuration); one binary64 domain for both
example := np_ge_characterised Soft64.fl32 id mono_id [13421773/134217728, 5033165/16777216] (1/10) (by simp)
example : geEcdfNp Soft64.fl64 Soft64.fl64 [1, 2] 3 ≠ some .indexError :=
  np_same_domain_no_indexError _ fl64_is_mono _ _ (by simp)


end Ecdf
