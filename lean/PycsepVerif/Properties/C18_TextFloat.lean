import PycsepVerif.Proofs.JsonFloat
import PycsepVerif.Properties.C18_Text

/-!
# C18 — the JSON text theorems without a float hypothesis (zero and normal doubles)

`Properties/C18_Text.lean` proves the text round trip under `FloatsOK ft j` (every finite double `b` of the tree passes the
computable `floatOkB`: NUMBER_RE matches the whole numeral `repr(b)` with a fraction or an exponent, and `float()` of it is
`b`).  Here that hypothesis is DISCHARGED for the concrete `pyFloatText` and every finite double that is zero (either sign)
or normal: `float_ok_normal`.  `pyReprF` is `FloatText.floatStr` (property C14's character model of the shortest repr); the
proof composes C14's `floatStr_denotes` (the characters denote `reprValue x`), C11's `reprSearch_roundtrip` (`reprValue x`
rounds back to `x`), a character-level proof that NUMBER_RE accepts each of the four `repr` layouts
(`Proofs/JsonFloat.lean: scanNumber_render`, `layoutN_json`) and the bit-pattern lemma `normal_facts`.

Subnormal doubles (exponent field 0, mantissa ≠ 0; |x| < 2^-1022) stay a precondition.  Full statement for them:
`∀ b, finiteBits b = true → floatOkB pyFloatText b = true`; missing: `DecimalText.reprSearch_roundtrip` needs
`2^-1022 ≤ x` (the 17-digit fallback argument `fl64_of_17_digits` uses the relative spacing of normal doubles).  They are
checked per value: kernel examples below, driver op `c18_text_floatok` for every double met in a run.
-/
namespace JsonText
open JsonTree JsonFloat
open ResultJson (F64)

/-- **C18 text layer, floats**: every finite double that is zero or normal is written as a numeral NUMBER_RE reads completely
    as a float and `float()` of it is the same double (bit for bit, −0.0 included) -/
theorem float_ok_normal (b : Nat) (h : normalBits b = true) : floatOkB pyFloatText b = true := floatOk_of_normalBits b h

example : normalBits 4591870180066957722 = true := by decide      -- 0.1
example : floatOkB pyFloatText 4591870180066957722 = true := float_ok_normal _ (by decide)
example : normalBits 9223372036854775808 = true := by decide      -- −0.0
example : normalBits 4503599627370496 = true := by decide          -- 2^-1022, the smallest normal
example : normalBits 9218868437227405311 = true := by decide       -- 1.7976931348623157e308
example : normalBits 1 = false := by decide                         -- 5e-324 is subnormal: outside the theorem …
example : floatOkB pyFloatText 1 = true := by decide +kernel        -- … but passes the computable check
example : floatOkB pyFloatText 4503599627370495 = true := by decide +kernel   -- the largest subnormal
example : floatOkB pyFloatText 2251799813685249 = true := by decide +kernel   -- a subnormal in between

mutual
  /-- every finite float leaf of the tree is zero or normal (NaN and ±Infinity are allowed) -/
  def NormalFloats : JVal → Prop
    | .float (.num b) => b = posInfBits ∨ b = negInfBits ∨ normalBits b = true
    | .arr xs => NormalFloatsL xs
    | .obj ms => NormalFloatsM ms
    | _ => True
  def NormalFloatsL : JList → Prop
    | .nil => True
    | .cons v vs => NormalFloats v ∧ NormalFloatsL vs
  def NormalFloatsM : JKVs → Prop
    | .nil => True
    | .cons _ v ms => NormalFloats v ∧ NormalFloatsM ms
end

mutual
  theorem floatsOK_of_normal : ∀ j : JVal, NormalFloats j → FloatsOK pyFloatText j
    | .null, _ => trivial
    | .bool _, _ => trivial
    | .int _, _ => trivial
    | .str _, _ => trivial
    | .float .nan, _ => trivial
    | .float (.num b), h => by
      rcases h with h | h | h
      · exact Or.inl h
      · exact Or.inr (Or.inl h)
      · exact Or.inr (Or.inr (float_ok_normal b h))
    | .arr xs, h => floatsOKL_of_normal xs h
    | .obj ms, h => floatsOKM_of_normal ms h
  theorem floatsOKL_of_normal : ∀ xs : JList, NormalFloatsL xs → FloatsOKL pyFloatText xs
    | .nil, _ => trivial
    | .cons v vs, h => ⟨floatsOK_of_normal v h.1, floatsOKL_of_normal vs h.2⟩
  theorem floatsOKM_of_normal : ∀ ms : JKVs, NormalFloatsM ms → FloatsOKM pyFloatText ms
    | .nil, _ => trivial
    | .cons _ v ms, h => ⟨floatsOK_of_normal v h.1, floatsOKM_of_normal ms h.2⟩
end

/-- **`json.load` of what `json.dump` wrote is the tree (members sorted)** — for every tree whose finite floats are zero or
    normal; no hypothesis about the float codec is left -/
theorem parse_render_normal (j : JVal) (h : NormalFloats j) :
    parse pyFloatText (render pyFloatText j) = some (sortTree j) :=
  parse_render pyFloatText j (floatsOK_of_normal j h)

theorem decode_parse_render_normal (j : JVal) (h : NormalFloats j) (hn : NoDup j) :
    loadText pyFloatText (render pyFloatText j) = some (sortPy (decode j)) :=
  decode_parse_render pyFloatText j (floatsOK_of_normal j h) hn

/-- **safe data survives the TEXT**: the value loaded from the characters written for safe data is its normal form -/
theorem load_render_safe_normal (v : PyObj) (hs : Safe v) (j : JVal) (hj : encode v = some j) (h : NormalFloats j) :
    loadText pyFloatText (render pyFloatText j) = some (sortPy (norm v)) :=
  load_render_safe pyFloatText v hs j hj (floatsOK_of_normal j h)

theorem load_save_normal (v : PyObj) (j : JVal) (hj : encode (sortPy v) = some j) (h : NormalFloats j) :
    (saveText pyFloatText v).bind (loadText pyFloatText) = roundTrip (sortPy v) :=
  load_save pyFloatText v j hj (floatsOK_of_normal j h)

theorem render_ascii_normal (j : JVal) (h : NormalFloats j) :
    ∀ c ∈ render pyFloatText j, c = '\n' ∨ (32 ≤ c.toNat ∧ c.toNat ≤ 126) :=
  render_ascii pyFloatText j (floatsOK_of_normal j h)

/-- non-vacuity: a result-like tree with 0.1, −0.0, the largest double, NaN and −Infinity -/
example : NormalFloats (.obj (.cons "q" (.arr (.cons (.float (.num 4591870180066957722)) (.cons (.float (.num 9223372036854775808))
    (.cons (.float (.num 9218868437227405311)) (.cons (.float .nan) (.cons (.float (.num negInfBits)) .nil)))))) .nil)) := by
  simp only [NormalFloats, NormalFloatsM, NormalFloatsL]
  refine ⟨⟨?_, ?_, ?_, ?_, ?_, ?_⟩, ?_⟩ <;> first | trivial | (right; right; decide) | (right; left; rfl)

end JsonText
