import PycsepVerif.Properties.C02_Float
import PycsepVerif.Proofs.Bin1dDecimal

/-!
# C02 — decimal grids (what `cleaner_range` / `magnitude_bins` return, and every shipped edge array) satisfy the
hypotheses of the float theorems; the global lon / lat arrays and CSEP_MW_BINS without any table

`decimalGrid S D m n = [fl64((S + k·D)/10^m) | k < n]`. `DecimalGridOK S D m n A` (Proofs/Bin1dDecimal.lean): D > 0, 2 ≤ n ≤ 2^40,
every `|(S+k·D)/10^m| ≤ A` (k ≤ n), the grid resolves its step `(2n+2)·(A·2^-53 + 2^-1075) ≤ step/5`, step ≥ 2^-1020.
-/
namespace Bin1d
open Soft64

/-- a decimal grid that resolves its step is a `RegularF64Grid`, and every float64 point from a step below the first
edge to a step above the upper edge of the last bin (`|p| ≤ A + 2·step`) is `PointOK`: all float theorems apply. -/
theorem decimalGrid_regular {S D : ℤ} {m n : ℕ} {A : ℚ} (H : DecimalGridOK S D m n A) :
    RegularF64Grid (decimalGrid S D m n) ∧
    ∀ p : ℚ, fl64 p = p → |p| ≤ A + 2 * ((D : ℚ) / ((10 ^ m : ℕ) : ℚ)) → PointOK (decimalGrid S D m n) p :=
  ⟨H.regular, fun _ hpF hp => H.pointOK hpF hp⟩

/-- C02 on decimal grids, float level: for every such grid, both modes and every float64 point in
`[-(A+2·step), A+2·step]` the answer of the float formula is one the property allows (ideal bin, or the next one inside
the band just below its edge; closed mode: out of range at/above `fl(bins[-1]+h)` and inside the band below it). -/
theorem decimalGrid_mem_allowed {S D : ℤ} {m n : ℕ} {A : ℚ} (H : DecimalGridOK S D m n A) (rc : Bool) {p : ℚ}
    (hpF : fl64 p = p) (hp : |p| ≤ A + 2 * ((D : ℚ) / ((10 ^ m : ℕ) : ℚ))) :
    bin1dF (cfg64 rc) (decimalGrid S D m n) p ∈ allowed (cfg64 rc) (decimalGrid S D m n) p :=
  bin1dF_mem_allowed rc H.regular (H.pointOK hpF hp)

/-- every edge of a decimal grid that resolves its step lands in the bin it opens (both modes) -/
theorem decimalGrid_edge_own_bin {S D : ℤ} {m n : ℕ} {A : ℚ} (H : DecimalGridOK S D m n A) (rc : Bool) {j : ℕ}
    (hj : j < n) : bin1dF (cfg64 rc) (decimalGrid S D m n) ((decimalGrid S D m n).getD j 0) = j := by
  have hl : j < (decimalGrid S D m n).length := by rw [decimalGrid_length]; exact hj
  apply bin1dF_edge_own_bin rc H.regular hl
  apply H.pointOK
  · rw [decimalGrid_getD S D m hj]; exact Soft64R.fl64_idem _
  · rw [decimalGrid_getD S D m hj]
    have e := abs_le.mp (H.err (k := j) (by omega))
    have b := abs_le.mp (H.bound j (by omega))
    have hE := H.E_le
    have hd := H.d_pos
    rw [abs_le]; constructor <;> linarith [e.1, e.2, b.1, b.2]

/-- End to end for the library's own generator: under the hypotheses of `cleanerRange_exact` and `DecimalGridOK`, the
edges `cleaner_range(start, end, step)` returns are such a grid, so `bin1d_vec` on them obeys the property for every
float64 point of the range and every edge opens its own bin. -/
theorem cleanerRange_bins_ok (S D : ℤ) (m cnt : ℕ) (A : ℚ) (hm : m ≤ 22) (hb : |S| + ((cnt : ℤ) + 1) * D ≤ 2 ^ 50)
    (H : DecimalGridOK S D m (cnt + 1) A) :
    ∃ bins, cleanerRangeF (fl64 ((S : ℚ) / ((10 ^ m : ℕ) : ℚ))) (fl64 (((S + cnt * D : ℤ) : ℚ) / ((10 ^ m : ℕ) : ℚ)))
        (fl64 ((D : ℚ) / ((10 ^ m : ℕ) : ℚ))) m = some bins ∧
      (∀ (rc : Bool) (p : ℚ), fl64 p = p → |p| ≤ A + 2 * ((D : ℚ) / ((10 ^ m : ℕ) : ℚ)) →
        bin1dF (cfg64 rc) bins p ∈ allowed (cfg64 rc) bins p) ∧
      (∀ (rc : Bool) (j : ℕ), j < cnt + 1 → bin1dF (cfg64 rc) bins (bins.getD j 0) = j) :=
  ⟨_, cleanerRange_exact S D m cnt hm H.step_pos hb, fun rc _ hpF hp => decimalGrid_mem_allowed H rc hpF hp,
    fun rc _ hj => decimalGrid_edge_own_bin H rc hj⟩

/-- how `DecimalGridOK` is established for a concrete grid: A = (|S| + n·D)/10^m and two numeric inequalities -/
theorem decimalGridOK_of_numeric (S D : ℤ) (m n : ℕ) (hD : 0 < D) (hn2 : 2 ≤ n) (hn40 : n ≤ 2 ^ 40)
    (hres : (2 * (n : ℚ) + 2) * (((|S| + (n : ℤ) * D : ℤ) : ℚ) / ((10 ^ m : ℕ) : ℚ) / 2 ^ 53 + 1 / 2 ^ 200)
      ≤ (D : ℚ) / ((10 ^ m : ℕ) : ℚ) / 5)
    (hd : 1 / 2 ^ 200 ≤ (D : ℚ) / ((10 ^ m : ℕ) : ℚ)) :
    DecimalGridOK S D m n (((|S| + (n : ℤ) * D : ℤ) : ℚ) / ((10 ^ m : ℕ) : ℚ)) := by
  have e1 : pow2 (-1075) ≤ 1 / 2 ^ 200 := by
    have : pow2 (-1075) ≤ pow2 (-200) := Soft64R.pow2_le_pow2 (by norm_num)
    have e : pow2 (-200) = 1 / 2 ^ 200 := by rw [Soft64R.pow2_eq_zpow]; norm_num [zpow_neg]
    linarith
  have e2 : pow2 (-1020) ≤ 1 / 2 ^ 200 := by
    have : pow2 (-1020) ≤ pow2 (-200) := Soft64R.pow2_le_pow2 (by norm_num)
    have e : pow2 (-200) = 1 / 2 ^ 200 := by rw [Soft64R.pow2_eq_zpow]; norm_num [zpow_neg]
    linarith
  refine ⟨hD, hn2, hn40, fun k hk => decVal_abs_le S D m hD hk, ?_, by linarith⟩
  have hN : (0 : ℚ) ≤ 2 * (n : ℚ) + 2 := by positivity
  have : (2 * (n : ℚ) + 2) * (((|S| + (n : ℤ) * D : ℤ) : ℚ) / ((10 ^ m : ℕ) : ℚ) / 2 ^ 53 + pow2 (-1075))
      ≤ (2 * (n : ℚ) + 2) * (((|S| + (n : ℤ) * D : ℤ) : ℚ) / ((10 ^ m : ℕ) : ℚ) / 2 ^ 53 + 1 / 2 ^ 200) :=
    mul_le_mul_of_nonneg_left (by linarith) hN
  linarith

/-! ## shipped grids, without tables -/

/-- the longitude edges of `global_region(0.1)` (regions.py:282: `cleaner_range(-180, 180, 0.1)[:-1]`, the 3600 nearest
doubles of −180.0, −179.9, …, 179.9; the harness checks on every run that the shipped array is this list) -/
def globalLonEdges : List ℚ := decimalGrid (-1800) 1 1 3600
/-- the latitude edges of `global_region(0.1)` (regions.py:283: 1800 values −90.0 … 89.9) -/
def globalLatEdges : List ℚ := decimalGrid (-900) 1 1 1800

theorem globalLon_ok : DecimalGridOK (-1800) 1 1 3600 540 := by
  have := decimalGridOK_of_numeric (-1800) 1 1 3600 (by norm_num) (by norm_num) (by norm_num) (by norm_num) (by norm_num)
  norm_num at this
  exact this

theorem globalLat_ok : DecimalGridOK (-900) 1 1 1800 270 := by
  have := decimalGridOK_of_numeric (-900) 1 1 1800 (by norm_num) (by norm_num) (by norm_num) (by norm_num) (by norm_num)
  norm_num at this
  exact this

/-- C02 for the global 0.1° longitude edges (3600 edges; no kernel table): every float64 longitude with |x| ≤ 540 gets an
answer the property allows, in both modes, and each of the 3600 edges opens its own cell. -/
theorem global_lon_edges (rc : Bool) :
    (∀ p : ℚ, fl64 p = p → |p| ≤ 540 → bin1dF (cfg64 rc) globalLonEdges p ∈ allowed (cfg64 rc) globalLonEdges p) ∧
    (∀ j : ℕ, j < 3600 → bin1dF (cfg64 rc) globalLonEdges (globalLonEdges.getD j 0) = j) :=
  ⟨fun _ hpF hp => decimalGrid_mem_allowed globalLon_ok rc hpF (by norm_num; linarith),
    fun _ hj => decimalGrid_edge_own_bin globalLon_ok rc hj⟩

/-- C02 for the global 0.1° latitude edges (1800 edges) -/
theorem global_lat_edges (rc : Bool) :
    (∀ p : ℚ, fl64 p = p → |p| ≤ 270 → bin1dF (cfg64 rc) globalLatEdges p ∈ allowed (cfg64 rc) globalLatEdges p) ∧
    (∀ j : ℕ, j < 1800 → bin1dF (cfg64 rc) globalLatEdges (globalLatEdges.getD j 0) = j) :=
  ⟨fun _ hpF hp => decimalGrid_mem_allowed globalLat_ok rc hpF (by norm_num; linarith),
    fun _ hj => decimalGrid_edge_own_bin globalLat_ok rc hj⟩

/-- non-vacuity / instance: the longitude −179.95 (as a float64) on the global grid -/
example : bin1dF (cfg64 false) globalLonEdges (fl64 (-17995 / 100)) ∈ allowed (cfg64 false) globalLonEdges (fl64 (-17995 / 100)) :=
  (global_lon_edges false).1 _ (Soft64R.fl64_idem _) (by
    have h := Soft64R.fl64_err_le (-17995 / 100)
    rw [pow2_m53] at h
    have e1 : pow2 (-1075) ≤ 1 := by
      have : pow2 (-1075) ≤ pow2 0 := Soft64R.pow2_le_pow2 (by norm_num)
      rwa [Soft64R.pow2_zero] at this
    have h2 : |(-17995 / 100 : ℚ)| = 17995 / 100 := by norm_num [abs_of_neg]
    rw [h2] at h
    have h3 := abs_sub_abs_le_abs_sub (fl64 (-17995 / 100)) (-17995 / 100)
    rw [h2] at h3
    linarith)

/-- instance of the generator statement: `cleaner_range(-180.0, 179.9, 0.1)` -/
example := cleanerRange_bins_ok (-1800) 1 1 3599 540 (by norm_num) (by norm_num) globalLon_ok

end Bin1d
