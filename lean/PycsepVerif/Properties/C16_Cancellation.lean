import PycsepVerif.Proofs.BinaryCancel

/-!
# C16 — the cancellation in `log(1.0 − exp(−λ))`: how far the float score can be from the definition

The correspondence harness compares every binary log-likelihood with the definition to `1e-9` relative PLUS `2^-51 / (1 − e^{−λ})`
per active bin, explained so far only by measurement ("the code's subtraction loses ≈ log10(1/λ) digits"). Here that allowance is a
theorem about real numbers: whatever float the library returns for `exp(−λ)` within one ulp, and with one rounding of the
subtraction, the logarithm taken differs from `ln(1 − e^{−λ})` by at most `2^-51 / p`.
-/
namespace BinaryBrier
open Real

/-- **C16, the cancellation in `log(1.0 − exp(−λ))`** (binomial_evaluations.py:98). `ehat` is the float the library returns for
    `exp(−λ)` (relative error at most one ulp, `ε ≤ 2^-52`), `phat` the float `1.0 − ehat` (one rounding, `u ≤ 2^-53`; exact by
    Sterbenz when `ehat ≥ 1/2`). If the success probability `p = 1 − e^{−λ}` is at least `2^-49` (λ ≳ 1.8e-15; the property's
    rates start at 1e-9), then `phat > 0` and the logarithm the code takes differs from the definition's `ln(1 − e^{−λ})` by at
    most `2^-51 / p` — exactly the per-active-bin tolerance of the correspondence harness (`EPS64 / p`): the ≈ log10(1/λ) digits
    lost at small rates are all of the deviation there can be. -/
theorem log_one_sub_exp_cancellation (lam ehat phat eps u : ℝ) (hlam : 0 < lam)
    (he : |ehat - Real.exp (-lam)| ≤ eps * Real.exp (-lam)) (hp : |phat - (1 - ehat)| ≤ u * |1 - ehat|)
    (heps0 : 0 ≤ eps) (heps : eps ≤ 2⁻¹ ^ 52) (hu0 : 0 ≤ u) (hu : u ≤ 2⁻¹ ^ 53)
    (hbig : 2⁻¹ ^ 49 ≤ 1 - Real.exp (-lam)) :
    0 < phat ∧ |Real.log phat - Real.log (1 - Real.exp (-lam))| ≤ 2⁻¹ ^ 51 / (1 - Real.exp (-lam)) := by
  set e := Real.exp (-lam) with he_def
  set p := 1 - e with hp_def
  have he0 : 0 < e := Real.exp_pos _
  have he1 : e < 1 := by rw [he_def, Real.exp_lt_one_iff]; linarith
  have hp0 : 0 < p := by linarith
  have hp1 : p < 1 := by linarith
  -- distance of 1 − ehat from p
  have h1 : |(1 - ehat) - p| ≤ eps := by
    have : (1 - ehat) - p = -(ehat - e) := by rw [hp_def]; ring
    rw [this, abs_neg]
    calc |ehat - e| ≤ eps * e := he
      _ ≤ eps * 1 := by apply mul_le_mul_of_nonneg_left he1.le heps0
      _ = eps := mul_one _
  have h2 : |1 - ehat| ≤ p + eps := by
    have := abs_add_le ((1 - ehat) - p) p
    have e2 : (1 - ehat) - p + p = 1 - ehat := by ring
    rw [e2, abs_of_pos hp0] at this
    linarith
  -- total distance of phat from p
  have hΔ : |phat - p| ≤ u * (p + eps) + eps := by
    have e3 : phat - p = (phat - (1 - ehat)) + ((1 - ehat) - p) := by ring
    rw [e3]
    calc |(phat - (1 - ehat)) + ((1 - ehat) - p)| ≤ |phat - (1 - ehat)| + |(1 - ehat) - p| := abs_add_le _ _
      _ ≤ u * |1 - ehat| + eps := add_le_add hp h1
      _ ≤ u * (p + eps) + eps := by
          have := mul_le_mul_of_nonneg_left h2 hu0
          linarith
  have a49 : (2⁻¹ : ℝ) ^ 49 = 8 * 2⁻¹ ^ 52 := by norm_num
  have a53 : (2⁻¹ : ℝ) ^ 53 = 2⁻¹ * 2⁻¹ ^ 52 := by norm_num
  have a51 : (2⁻¹ : ℝ) ^ 51 = 2 * 2⁻¹ ^ 52 := by norm_num
  have apos : (0 : ℝ) < 2⁻¹ ^ 52 := by positivity
  have asmall : (2⁻¹ : ℝ) ^ 52 ≤ 1 / 1000 := by norm_num
  rw [a49] at hbig
  rw [a53] at hu
  rw [a51]
  have t1 : u * (p + eps) ≤ 2⁻¹ * 2⁻¹ ^ 52 * (p + 2⁻¹ ^ 52) :=
    mul_le_mul hu (by linarith) (by linarith) (by positivity)
  have hd_le : u * (p + eps) + eps ≤ 2⁻¹ * 2⁻¹ ^ 52 * (p + 2⁻¹ ^ 52) + 2⁻¹ ^ 52 := add_le_add t1 heps
  obtain ⟨hd_lt_p, hfin⟩ := cancel_alg p (u * (p + eps) + eps) (2⁻¹ ^ 52) hbig hp1 apos asmall hd_le
  have hphat : 0 < phat := by
    have := (abs_le.mp hΔ).1
    linarith
  refine ⟨hphat, ?_⟩
  have hmain := abs_log_sub_log_le hp0 hphat _ hΔ hd_lt_p
  refine le_trans hmain ?_
  have hpd : 0 < p - (u * (p + eps) + eps) := by linarith
  rw [div_le_div_iff₀ hpd hp0]
  exact hfin

-- non-vacuity: exact arithmetic (eps = u = 0) at λ = 1
example : 0 < (1 - Real.exp (-1) : ℝ) ∧
    |Real.log (1 - Real.exp (-1)) - Real.log (1 - Real.exp (-1))| ≤ 2⁻¹ ^ 51 / (1 - Real.exp (-1)) := by
  have h1 : (2⁻¹ : ℝ) ^ 49 ≤ 1 - Real.exp (-1) := by
    have : Real.exp (-1) < 1 / 2 := by
      rw [Real.exp_neg, inv_lt_comm₀ (Real.exp_pos 1) (by norm_num)]
      have := Real.add_one_lt_exp (x := 1) (by norm_num)
      norm_num at this ⊢; linarith
    have : (2⁻¹ : ℝ) ^ 49 ≤ 1 / 2 := by norm_num
    linarith
  exact log_one_sub_exp_cancellation 1 (Real.exp (-1)) (1 - Real.exp (-1)) 0 0 (by norm_num) (by simp) (by simp)
    le_rfl (by positivity) le_rfl (by positivity) h1

/-- per-bin deviations add up: if every term of the score is within `b_i` of the definition's term, the scores differ by at most
    `Σ b_i` (the `cond` the harness accumulates: `2^-51 / p_i` over the active bins, 0 for the exactly negated inactive rates) -/
theorem sum_terms_close : ∀ (ts : List (ℝ × ℝ × ℝ)), (∀ t ∈ ts, |t.1 - t.2.1| ≤ t.2.2) →
    |(ts.map (·.1)).sum - (ts.map (·.2.1)).sum| ≤ (ts.map (·.2.2)).sum
  | [], _ => by simp
  | t :: ts, h => by
    have ih := sum_terms_close ts (fun x hx => h x (List.mem_cons_of_mem _ hx))
    have ht := h t List.mem_cons_self
    simp only [List.map_cons, List.sum_cons]
    have : t.1 + (ts.map (·.1)).sum - (t.2.1 + (ts.map (·.2.1)).sum) = (t.1 - t.2.1) + ((ts.map (·.1)).sum - (ts.map (·.2.1)).sum) := by
      ring
    rw [this]
    have := abs_add_le (t.1 - t.2.1) ((ts.map (·.1)).sum - (ts.map (·.2.1)).sum)
    linarith

example : |([(1 : ℝ), 2].map id).sum - ([(1 : ℝ), 2].map id).sum| ≤ 0 := by simp

end BinaryBrier
