import PycsepVerif.Proofs.AsciiCatalogs

/-!
# C12 — catalog-forecast files decode to exactly the catalogs they encode

Theorems about `Model/AsciiCatalogs.lean` (model of `CSEPCatalog.load_ascii_catalogs`, csep/core/catalogs.py:921-1053).
`encode` is the specification of a well-formed file (catalogs 0..n-1 grouped by increasing id, an empty catalog is a
placeholder row `,,,,,i,` or omitted, the final id always present, header optional); `number cats` is the list
"ids 0..n-1, each with exactly its own events in file order".  No bound on the number of catalogs, on the events
per catalog or on the length of the gaps.
-/
namespace AsciiCatalogs

/-- C12, decoding: every well-formed file of n ≥ 1 catalogs, for every placeholder/omitted choice and with or
    without header, loads as exactly the catalogs 0..n-1 with their own events in file order. -/
theorem decode_encode (cats : List (List Event)) (hne : cats ≠ []) (choices : List Bool) (header : Bool) :
    decode (encode cats choices header) = .ok (number cats) := by
  unfold decode encode number
  have h := loop_encodeFrom (Ready.init 0) cats hne choices
  simp only [empties_self, List.nil_append] at h
  cases header with
  | false => simpa using h
  | true =>
    simp only [if_true, List.cons_append, List.nil_append]
    rw [loop]
    simp only [step, prepend_nil]
    exact h

/-- the loaded forecast has exactly n catalogs -/
theorem decode_encode_length (cats : List (List Event)) (hne : cats ≠ []) (choices : List Bool) (header : Bool) :
    ∃ out, decode (encode cats choices header) = .ok out ∧ out.length = cats.length := by
  refine ⟨number cats, decode_encode cats hne choices header, ?_⟩
  unfold number
  generalize 0 = k
  induction cats generalizing k with
  | nil => rfl
  | cons c cs ih =>
    cases cs with
    | nil => simp [numberFrom]
    | cons c' cs' =>
      have := ih (by simp) (k + 1)
      simp only [numberFrom, List.length_cons] at this ⊢
      omega

/-- the k-th loaded catalog has id k and exactly the events of the k-th encoded catalog -/
theorem number_getElem (cats : List (List Event)) (k : Nat) (hk : k < cats.length) :
    (number cats)[k]? = some ⟨some (k : Int), (cats[k]).map Event.toEv⟩ := by
  unfold number
  suffices h : ∀ (i : Nat) (cs : List (List Event)) (k : Nat) (hk : k < cs.length),
      (numberFrom i cs)[k]? = some ⟨some ((i + k : Nat) : Int), (cs[k]).map Event.toEv⟩ by
    simpa using h 0 cats k hk
  intro i cs
  induction cs generalizing i with
  | nil => intro k hk; simp at hk
  | cons c cs ih =>
    intro k hk
    cases k with
    | zero => simp [numberFrom]
    | succ k =>
      simp only [numberFrom, List.getElem?_cons_succ, List.getElem_cons_succ]
      rw [ih (i + 1) k (by simpa using hk)]
      congr 3; omega

/-- after a data row has been accepted, `prev_id` is that row's catalog id -/
theorem step_row_prev {s s' : St} {r : Row} {out : List Catalog} (h : step s (.row r) = .ok (s', out)) :
    s'.prev = some r.catId := by
  have hb : ∀ p evs, body p evs r = .ok (s', out) → s'.prev = some r.catId := by
    intro p evs hb
    unfold body at hb
    split at hb
    · injection hb with hb; injection hb with h1 _; rw [← h1]
    · split at hb
      · injection hb with hb; injection hb with h1 _; rw [← h1]
      · split at hb
        · injection hb with hb; injection hb with h1 _; rw [← h1]
        · injection hb
  unfold step at h
  cases hp : s.prev with
  | none =>
    simp only [hp] at h
    split at h
    · injection h with h; injection h with h1 _; rw [← h1]
    · exact hb _ _ h
  | some p =>
    simp only [hp] at h
    exact hb _ _ h

/-- a row whose id is smaller than `prev_id` is rejected -/
theorem step_decreasing (s : St) (p : Int) (hp : s.prev = some p) (r : Row) (hlt : r.catId < p) :
    step s (.row r) = .error .decreasing := by
  have h1 : ¬ r.catId = p := by omega
  have h2 : ¬ r.catId = p + 1 := by omega
  have h3 : ¬ r.catId > p + 1 := by omega
  simp [step, hp, body, h1, h2, h3]

private theorem loop_rejects (pre : List Line) (a b : Row) (post : List Line) (hlt : b.catId < a.catId) (s : St) :
    ∃ e, loop s (pre ++ .row a :: .row b :: post) = .error e := by
  induction pre generalizing s with
  | nil =>
    simp only [List.nil_append]
    rw [loop]
    cases h : step s (.row a) with
    | error e => exact ⟨e, rfl⟩
    | ok v =>
      obtain ⟨s', out⟩ := v
      have hp := step_row_prev h
      simp only
      rw [loop, step_decreasing s' a.catId hp b hlt]
      exact ⟨_, rfl⟩
  | cons l pre ih =>
    simp only [List.cons_append]
    rw [loop]
    cases h : step s l with
    | error e => exact ⟨e, rfl⟩
    | ok v =>
      obtain ⟨s', out⟩ := v
      obtain ⟨e, he⟩ := ih s'
      exact ⟨e, by simp only [he, prepend]⟩

/-- C12, rejection: a file in which a data row is directly followed by a data row with a smaller catalog id is
    rejected (ValueError), whatever comes before and after. -/
theorem decode_rejects_decreasing (pre : List Line) (a b : Row) (post : List Line) (hlt : b.catId < a.catId) :
    ∃ e, decode (pre ++ .row a :: .row b :: post) = .error e :=
  loop_rejects pre a b post hlt _

private theorem body_ok_of_le (p : Int) (evs : List Ev) (r : Row) (h : p ≤ r.catId) :
    ∃ v, body p evs r = .ok v := by
  unfold body
  split
  · exact ⟨_, rfl⟩
  · split
    · exact ⟨_, rfl⟩
    · split
      · exact ⟨_, rfl⟩
      · omega

private theorem loop_ok_of_sorted (rows : List Row) (s : St) (p : Int) (hp : s.prev = some p)
    (hle : ∀ r ∈ rows, p ≤ r.catId) (hs : (rows.map (·.catId)).Pairwise (· ≤ ·)) :
    ∃ out, loop s (rows.map .row) = .ok out := by
  induction rows generalizing s p with
  | nil => exact ⟨_, rfl⟩
  | cons r rows ih =>
    simp only [List.map_cons, List.pairwise_cons] at hs
    simp only [List.map_cons]
    rw [loop]
    obtain ⟨v, hv⟩ := body_ok_of_le p s.events r (hle r List.mem_cons_self)
    have hstep : step s (.row r) = .ok v := by simp [step, hp, hv]
    obtain ⟨s', out⟩ := v
    rw [hstep]
    have hp' := step_row_prev hstep
    obtain ⟨o, ho⟩ := ih s' r.catId hp'
      (fun r' hr' => hs.1 r'.catId (List.mem_map.mpr ⟨r', hr', rfl⟩)) hs.2
    exact ⟨out ++ o, by simp only [ho, prepend]⟩

/-- for files made of data rows only: the loader succeeds exactly when the catalog ids never decrease -/
theorem decode_rows_ok_iff_sorted (rows : List Row) :
    (∃ out, decode (rows.map .row) = .ok out) ↔ (rows.map (·.catId)).Pairwise (· ≤ ·) := by
  constructor
  · -- contrapositive of the rejection theorem, for any start state
    intro ⟨out, hout⟩
    suffices h : ∀ (rows : List Row) (s : St) out, loop s (rows.map .row) = .ok out →
        (rows.map (·.catId)).Pairwise (· ≤ ·) ∧ ∀ p, s.prev = some p → ∀ r ∈ rows, p ≤ r.catId from
      (h rows _ out hout).1
    intro rows
    induction rows with
    | nil => intro s out _; exact ⟨by simp, by simp⟩
    | cons r rows ih =>
      intro s out h
      simp only [List.map_cons] at h
      rw [loop] at h
      cases hstep : step s (.row r) with
      | error e => rw [hstep] at h; simp at h
      | ok v =>
        obtain ⟨s', o⟩ := v
        rw [hstep] at h
        simp only at h
        cases hl : loop s' (rows.map .row) with
        | error e => rw [hl] at h; simp [prepend] at h
        | ok o' =>
          obtain ⟨hsorted, hbound⟩ := ih s' o' hl
          have hp' := step_row_prev hstep
          have hb := hbound r.catId hp'
          have hfirst : ∀ p, s.prev = some p → p ≤ r.catId := by
            intro p hp
            by_cases hlt : r.catId < p
            · rw [step_decreasing s p hp r hlt] at hstep; simp at hstep
            · omega
          refine ⟨?_, ?_⟩
          · simp only [List.map_cons, List.pairwise_cons]
            refine ⟨?_, hsorted⟩
            intro c hc
            obtain ⟨r', hr', rfl⟩ := List.mem_map.mp hc
            exact hb r' hr'
          · intro p hp r' hr'
            rcases List.mem_cons.mp hr' with rfl | hr'
            · exact hfirst p hp
            · exact Int.le_trans (hfirst p hp) (hb r' hr')
  · intro hs
    cases rows with
    | nil => exact ⟨_, rfl⟩
    | cons r rows =>
      simp only [List.map_cons, List.pairwise_cons] at hs
      unfold decode
      simp only [List.map_cons]
      rw [loop]
      have hstep : ∃ v, step ⟨none, []⟩ (.row r) = .ok v := by
        simp only [step]
        split
        · exact ⟨_, rfl⟩
        · exact body_ok_of_le 0 [] r (by omega)
      obtain ⟨⟨s', out⟩, hv⟩ := hstep
      rw [hv]
      have hp' := step_row_prev hv
      obtain ⟨o, ho⟩ := loop_ok_of_sorted rows s' r.catId hp'
        (fun r' hr' => hs.1 r'.catId (List.mem_map.mpr ⟨r', hr', rfl⟩)) hs.2
      exact ⟨out ++ o, by simp only [ho, prepend]⟩

/-- a header line is skipped only before the first data row; after one it makes the file unreadable -/
theorem header_only_first (lines : List Line) (r : Row) (post : List Line) :
    decode (.header :: lines) = decode lines ∧
    ∃ e, decode (.row r :: .header :: post) = .error e := by
  constructor
  · unfold decode; rw [loop]; simp [step]
  · unfold decode
    rw [loop]
    cases h : step ⟨none, []⟩ (.row r) with
    | error e => exact ⟨e, rfl⟩
    | ok v =>
      obtain ⟨s', out⟩ := v
      have hp := step_row_prev h
      simp only
      rw [loop]
      simp [step, hp, prepend]

-- non-vacuity / concrete instances (kernel evaluation of the model on both sides)
private def e1 : Event := ⟨1, 2, 3, 694224000250, 4, "a"⟩
private def e2 : Event := ⟨-5, 6, 7, 694224001000, 8, ""⟩

/-- leading gap, omitted and placeholder empties, consecutive placeholders, last catalog empty, with header -/
example : decode (encode [[], [], [e1, e2], [], [], [e2], []] [false, true, true, false, true, true] true)
    = .ok (number [[], [], [e1, e2], [], [], [e2], []]) := by decide +kernel

example : encode [[], [e1], [], []] [false, true, false] false = [rowOf 1 e1, placeholder 3] := by decide +kernel

example : ∃ e, decode [rowOf 2 e1, rowOf 1 e2] = .error e :=
  decode_rejects_decreasing [] _ _ [] (by decide)

example : decode [rowOf 2 e1, rowOf 1 e2] = .error .decreasing := by decide +kernel

/-- the event id is an opaque field of the parsed row: ids that need CSV quoting in the file (delimiter, quote character,
    blanks), coordinates within 1e-4 of zero (exponent notation in the file) and an event listed twice all come back as
    written — `decode_encode` quantifies over every `Event`; one concrete instance -/
private def e3 : Event := ⟨4/100000, -25/1000000, 1/100000, -299883355000, 1/100000, "ci38457511,us7000abcd"⟩
private def e4 : Event := ⟨0, 0, 5, 694224000000, 7, "the \"big\" one "⟩

example : decode (encode [[e3, e4, e3, e3], [], [e4]] [true, false] true) = .ok (number [[e3, e4, e3, e3], [], [e4]]) := by
  decide +kernel

end AsciiCatalogs
