import PycsepVerif.Properties.C02_Float
import PycsepVerif.Properties.C02_Decimal
import PycsepVerif.Model.Bin1dCalls

/-!
# C02 — the magnitude call sites of `bin1d_vec` inherit the property

`CSEPCatalog.get_mag_idx`, `CSEPCatalog.magnitude_counts`, `GriddedForecast.get_magnitude_index` (Model/Bin1dCalls.lean) all
call `bin1d_vec(…, right_continuous=True)`. On a regular float64 grid (`RegularF64Grid`) and for points the grid resolves
(`PointOK`) every index they produce is one the property allows, a magnitude at or above the last edge always goes to the
last bin (so the forecast lookup cannot raise for it), a magnitude is rejected / not counted exactly when its index is −1, and
the counts are the histogram of the indices. The edges `magnitude_bins` returns satisfy the hypotheses (C02_Decimal).
-/
namespace Bin1d

/-- `get_mag_idx`: every index is an answer the property allows (open-ended mode) -/
theorem getMagIdx_mem_allowed {bins : List ℚ} (G : RegularF64Grid bins) (mags : List ℚ) (hP : ∀ m ∈ mags, PointOK bins m)
    (k : ℕ) (hk : k < mags.length) :
    (getMagIdx bins mags)[k]? = some (bin1dF (cfg64 true) bins mags[k]) ∧
    bin1dF (cfg64 true) bins mags[k] ∈ allowed (cfg64 true) bins mags[k] := by
  refine ⟨?_, bin1dF_mem_allowed true G (hP _ (List.getElem_mem hk))⟩
  simp [getMagIdx, magCfg, cfg64, hk]

/-- the last bin is open-ended: a magnitude at or above the last edge gets the last index from every call site -/
theorem open_top_last_bin {bins : List ℚ} (G : RegularF64Grid bins) {m : ℚ} (P : PointOK bins m)
    (h : bins.getD (bins.length - 1) 0 ≤ m) :
    bin1dF (magCfg .f64 .f64 none) bins m = (bins.length : ℤ) - 1 := by
  have hn := G.two_le
  have hK : binIdeal bins m = (bins.length : ℤ) - 1 := by
    have h1 := (edge_le_iff G.increasing m (j := bins.length - 1) (by omega)).1 h
    have h2 := binIdeal_range bins m
    omega
  have := (bin1dF_cases true G P).2.1 (by omega) rfl
  rw [hK] at this
  exact this

/-- `get_magnitude_index` returns ⇔ no magnitude has index −1; then the result is `bin1d_vec(…, right_continuous=True)` value by
value and every index is a valid bin number 0 … n−1 -/
theorem getMagnitudeIndex_ok_iff (pd bd : DT) (tol : Option ℚ) (bins mags : List ℚ) (hb : bins ≠ []) :
    (∃ out, getMagnitudeIndex pd bd tol bins mags = .ok out) ↔ ∀ m ∈ mags, bin1dF (magCfg pd bd tol) bins m ≠ -1 := by
  unfold getMagnitudeIndex
  simp only
  constructor
  · rintro ⟨out, h⟩ m hm hneg
    have : (mags.map (bin1dF (magCfg pd bd tol) bins)).any (fun i => i == -1) = true := by
      rw [List.any_eq_true]
      exact ⟨_, List.mem_map.mpr ⟨m, hm, rfl⟩, by simp [hneg]⟩
    rw [this] at h
    simp at h
  · intro h
    have : (mags.map (bin1dF (magCfg pd bd tol) bins)).any (fun i => i == -1) = false := by
      rw [List.any_eq_false]
      intro i hi
      obtain ⟨m, hm, rfl⟩ := List.mem_map.mp hi
      simpa using h m hm
    rw [this]
    exact ⟨_, rfl⟩

/-- when it returns, every index lies in 0 … n−1 and equals the `bin1d_vec` index of that magnitude -/
theorem getMagnitudeIndex_range (pd bd : DT) (tol : Option ℚ) (bins mags : List ℚ) (hb : bins ≠ []) (out : List ℤ)
    (h : getMagnitudeIndex pd bd tol bins mags = .ok out) :
    out = mags.map (bin1dF (magCfg pd bd tol) bins) ∧ ∀ i ∈ out, 0 ≤ i ∧ i < (bins.length : ℤ) := by
  unfold getMagnitudeIndex at h
  simp only at h
  split_ifs at h with hany
  have ho : out = mags.map (bin1dF (magCfg pd bd tol) bins) := (Except.ok.inj h).symm
  refine ⟨ho, ?_⟩
  intro i hi
  rw [ho] at hi
  obtain ⟨m, hm, rfl⟩ := List.mem_map.mp hi
  have hr := bin1dF_range (magCfg pd bd tol) bins hb m
  have hne : bin1dF (magCfg pd bd tol) bins m ≠ -1 := by
    intro hneg
    apply hany
    rw [List.any_eq_true]
    exact ⟨_, List.mem_map.mpr ⟨m, hm, rfl⟩, by simp [hneg]⟩
  omega

/-- a forecast never rejects a magnitude at or above its first edge … (regular float64 grid, default tolerance) -/
theorem getMagnitudeIndex_accepts {bins : List ℚ} (G : RegularF64Grid bins) (mags : List ℚ)
    (hP : ∀ m ∈ mags, PointOK bins m) (hlo : ∀ m ∈ mags, bins.getD 0 0 ≤ m) :
    ∃ out, getMagnitudeIndex .f64 .f64 none bins mags = .ok out := by
  have hb : bins ≠ [] := by intro h; have := G.two_le; simp [h] at this
  rw [getMagnitudeIndex_ok_iff _ _ _ _ _ hb]
  intro m hm hneg
  have hn := G.two_le
  have hK0 : 0 ≤ binIdeal bins m := by
    have := (edge_le_iff G.increasing m (j := 0) (by omega)).1 (hlo m hm)
    omega
  have hr := binIdeal_range bins m
  obtain ⟨c1, c2, _, _⟩ := bin1dF_cases true G (hP m hm)
  have e : bin1dF (magCfg .f64 .f64 none) bins m = bin1dF (cfg64 true) bins m := rfl
  rw [e] at hneg
  by_cases hK : binIdeal bins m + 1 < (bins.length : ℤ)
  · rcases c1 hK with h | ⟨h, _⟩ <;> omega
  · have := c2 (by omega) rfl; omega

/-- `magnitude_counts`: entry k is the number of magnitudes whose `bin1d_vec` index is k; a magnitude with index −1 (below the
first edge) is counted nowhere -/
theorem magnitudeCounts_entry (tol : Option ℚ) (bins mags : List ℚ) (k : ℕ) (hk : k < bins.length) :
    (magnitudeCounts tol bins mags)[k]? = some (mags.countP (fun m => bin1dF (magCfg .f64 .f64 tol) bins m == (k : ℤ))) := by
  unfold magnitudeCounts
  by_cases he : mags.isEmpty = true
  · rw [if_pos he]
    have : mags = [] := List.isEmpty_iff.mp he
    subst this
    simp [hk]
  · rw [if_neg he]
    simp [countsOf, hk, List.countP_map, Function.comp_def]

theorem magnitudeCounts_length (tol : Option ℚ) (bins mags : List ℚ) : (magnitudeCounts tol bins mags).length = bins.length := by
  unfold magnitudeCounts countsOf
  split_ifs <;> simp

/-- … and on a regular float64 grid each counted magnitude sits in a bin the property allows for it: if a magnitude is counted
in bin k (its index is k) then k is the ideal bin, or the next one with the magnitude inside the round-off band below edge k -/
theorem magnitudeCounts_bin_allowed {bins : List ℚ} (G : RegularF64Grid bins) {m : ℚ} (P : PointOK bins m) (k : ℕ)
    (h : bin1dF (magCfg .f64 .f64 none) bins m = (k : ℤ)) : (k : ℤ) ∈ allowed (cfg64 true) bins m := by
  rw [← h]; exact bin1dF_mem_allowed true G P

/-- the edges `magnitude_bins(start, end, dmw)` returns for decimal arguments are a regular float64 grid: the theorems above
apply to the grids the library itself generates (`cleanerRange_bins_ok` of C02_Decimal, restated for the call site) -/
theorem magnitudeBins_regular (S D : ℤ) (m cnt : ℕ) (A : ℚ) (hm : m ≤ 22) (hb : |S| + ((cnt : ℤ) + 1) * D ≤ 2 ^ 50)
    (H : DecimalGridOK S D m (cnt + 1) A) :
    ∃ bins, magnitudeBins (Soft64.fl64 ((S : ℚ) / ((10 ^ m : ℕ) : ℚ))) (Soft64.fl64 (((S + (cnt : ℤ) * D : ℤ) : ℚ) / ((10 ^ m : ℕ) : ℚ)))
        (Soft64.fl64 ((D : ℚ) / ((10 ^ m : ℕ) : ℚ))) m = some bins ∧ RegularF64Grid bins := by
  exact ⟨_, cleanerRange_exact S D m cnt hm H.step_pos hb, (decimalGrid_regular H).1⟩

theorem createSpaceMagnitudeRegion_spec (magnitudes : List ℚ) :
    (createSpaceMagnitudeRegion magnitudes).1 = magnitudes ∧ (createSpaceMagnitudeRegion magnitudes).2 = magnitudes.length :=
  ⟨rfl, rfl⟩

/-! ### non-vacuity: the CSEP magnitude grid -/
example : ∃ out, getMagnitudeIndex .f64 .f64 none mwBins [mwBins.getD 0 0, mwBins.getD 75 0] = .ok out :=
  getMagnitudeIndex_accepts mwBins_regular _ (by
    intro m hm
    simp only [List.mem_cons, List.not_mem_nil, or_false] at hm
    rcases hm with rfl | rfl <;> exact ⟨by decide +kernel, by decide +kernel⟩) (by
    intro m hm
    simp only [List.mem_cons, List.not_mem_nil, or_false] at hm
    rcases hm with rfl | rfl <;> decide +kernel)

end Bin1d
