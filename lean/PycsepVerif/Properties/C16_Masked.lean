import PycsepVerif.Properties.C16
import PycsepVerif.Model.MaskedOps
import PycsepVerif.Proofs.NumberTest

/-!
# C16, round 4 — the numpy.ma layer and scipy's `poisson.cdf(0, ·)` inside the model

`Model/MaskedOps.lean` transcribes `binary_joint_log_likelihood_ndarray` statement by statement on masked arrays (data AND
mask of every slot).  Here: the composition of the numpy.ma primitives is the hand-transcribed `binaryLL` (so every theorem
of `Properties/C16.lean` and `C16_Tests.lean` is about the statement-level model too), what sits under the mask of
`first_term`, and the Brier kernel's `1 - poisson.cdf(0, rate)` in terms of C07's model of scipy's Poisson cdf.
-/
namespace BinaryBrier.Ma
open RealOps

/-- the array `first_term.data + second_term.data`, slot by slot, is the hand model's `binTerm` -/
theorem maTerms_eq_binTerms (bins : List (ℝ × ℕ)) :
    maTerms bins = bins.map (fun p => binTerm p.1 (decide (0 < p.2))) := by
  induction bins with
  | nil => rfl
  | cons p bins ih =>
    have hcons : maTerms (p :: bins) =
        (let m0 : Bool := decide (p.1 ≤ 0)
         let y : ℝ := if 0 < p.2 then 1 else 0
         let one_minus : ℝ := if m0 then 1 else 1 - Real.exp (-p.1)
         let d : Bool := m0 || decide (one_minus ≤ 0)
         let lg : ℝ := if d then 1 else Real.log one_minus
         (if d then y else y * lg) + (1 - y) * (-p.1)) :: maTerms bins := rfl
    rw [hcons, ih, List.map_cons]
    congr 1
    by_cases hr : p.1 ≤ 0
    · by_cases hw : 0 < p.2
      · simp [hr, hw, binTerm_active_nonpos]
      · simp [hr, hw, binTerm_inactive]
    · have hpos : 0 < p.1 := not_le.mp hr
      have hp : ¬ (1 - Real.exp (-p.1) ≤ 0) := by
        have : Real.exp (-p.1) < 1 := by rw [Real.exp_lt_one_iff]; linarith
        linarith
      by_cases hw : 0 < p.2
      · simp [hr, hw, hp, binTerm_active_pos _ hpos]
      · simp [hr, hw, hp, binTerm_inactive]

/-- **C16, statement-level model = hand model.** `binary_joint_log_likelihood_ndarray` written as the composition of the
    numpy.ma primitives it goes through (masked_where, negative, exp, `1.0 - ·`, log with its domain, `y * ·`, `.data`)
    is `binaryLL` — for every rate array (zeros, negative rates) and every count array. -/
theorem binaryLLMa_eq_binaryLL (bins : List (ℝ × ℕ)) : binaryLLMa bins = binaryLL bins := by
  unfold binaryLLMa binaryLL
  rw [maTerms_eq_binTerms]

/-- hence the statement-level model equals the definition whenever every active bin has a positive rate … -/
theorem binaryLLMa_eq_def (bins : List (ℝ × ℕ)) (h : ∀ p ∈ bins, 0 < p.2 → 0 < p.1) :
    binaryDef bins = .fin (binaryLLMa bins) := by
  rw [binaryLLMa_eq_binaryLL]; exact binaryLL_eq_binaryDef bins h

/-- … and depends on the counts only through their support -/
theorem binaryLLMa_activity_only (rates : List ℝ) (c1 c2 : List ℕ)
    (h : c1.map (fun w => decide (0 < w)) = c2.map (fun w => decide (0 < w))) :
    binaryLLMa (rates.zip c1) = binaryLLMa (rates.zip c2) := by
  rw [binaryLLMa_eq_binaryLL, binaryLLMa_eq_binaryLL]
  exact (depends_only_on_activity [] rates c1 c2 h).1

/-- **what sits under the mask** (the mechanism of known finding D17): the mask of `first_term` is exactly
    `rate ≤ 0 ∨ 1 − e^{−rate} ≤ 0`, and in a masked slot its data is the multiplier `y` — 1 for an active bin, 0 otherwise.
    Over ℝ the second disjunct never holds for a positive rate, so the slots masked are the bins of rate ≤ 0. -/
theorem first_term_masked_slots (rates : List ℝ) (y : List ℝ) :
    rmulArr y (log (rsubOne (exp (neg (maskedWhereLe0 rates))))) =
      (y.zip rates).map (fun p => (⟨if p.2 ≤ 0 then p.1 else p.1 * Real.log (1 - Real.exp (-p.2)), decide (p.2 ≤ 0)⟩ : MV ℝ)) := by
  induction rates generalizing y with
  | nil => cases y <;> rfl
  | cons r rates ih =>
    cases y with
    | nil => rfl
    | cons y0 y =>
      have hcons : rmulArr (y0 :: y) (log (rsubOne (exp (neg (maskedWhereLe0 (r :: rates)))))) =
          (let m0 : Bool := decide (r ≤ 0)
           let one_minus : ℝ := if m0 then 1 else 1 - Real.exp (-r)
           let d : Bool := m0 || decide (one_minus ≤ 0)
           (⟨if d then y0 else y0 * (if d then 1 else Real.log one_minus), d⟩ : MV ℝ)) ::
          rmulArr y (log (rsubOne (exp (neg (maskedWhereLe0 rates))))) := rfl
      rw [hcons, ih, List.zip_cons_cons, List.map_cons]
      congr 1
      by_cases hr : r ≤ 0
      · simp [hr]
      · have hp : ¬ (1 - Real.exp (-r) ≤ 0) := by
          have : Real.exp (-r) < 1 := by rw [Real.exp_lt_one_iff]; linarith [not_le.mp hr]
          linarith
        simp [hr, hp]

/-- the weights of the test drivers are cumulated over `filled(0)`: a masked rate (≤ 0) counts as 0, the others as
    they are — the `maskRates` of C06's sampler model, here derived from the masked array -/
theorem filled0_maskedWhere (rates : List ℝ) :
    filled0 (maskedWhereLe0 rates) = rates.map (fun x => if x ≤ 0 then 0 else x) := by
  unfold filled0 maskedWhereLe0
  rw [List.map_map]
  apply List.map_congr_left
  intro x _
  simp

/-! ### `1 - scipy.stats.poisson.cdf(0, rate)` -/

/-- **the Brier kernel's `poisson.cdf(0, rate)` is C07's model of scipy's Poisson cdf at 0**: the finite sum of the mass
    function up to ⌊0⌋ = 0, i.e. `e^{−rate}` — `poisCdf0` is no longer a separate trusted fact. -/
theorem poisCdf0_eq_poisCdf (r : ℝ) : poisCdf0 r = NumberTest.poisCdf r 0 := by
  unfold poisCdf0 NumberTest.poisCdf NumberTest.cdfOf
  rw [NumberTest.real_floorNat]
  simp [NumberTest.sumTo, NumberTest.poisPmf]

/-- so a Brier cell is `(1 − cdf(0, λ) − [active])²` with scipy's cdf as modelled for the number test -/
theorem brierCell_via_poisCdf (r : ℝ) (a : Bool) :
    brierCell r a = (1 - NumberTest.poisCdf r 0 - (if a then 1 else 0)) ^ 2 := by
  rw [← poisCdf0_eq_poisCdf, brierCell_real]; rfl

/-! ### non-vacuity / concrete values -/

-- forecast [0.5, 0.0], one event in each bin: the second slot is masked and carries y = 1 (D17's +1)
example : binaryLLMa [((0.5 : ℝ), 1), (0, 1)] = Real.log (1 - Real.exp (-0.5)) + 1 := by
  rw [binaryLLMa_eq_binaryLL, binaryLL_real]
  simp [binTerm_active_nonpos]
  norm_num [binTerm_active_pos]

example : binaryLLMa ([(0.5 : ℝ), 0.25].zip [7, 0]) = binaryLLMa ([(0.5 : ℝ), 0.25].zip [1, 0]) :=
  binaryLLMa_activity_only _ _ _ (by decide)

example : binaryDef [((0.5 : ℝ), 2), (0.25, 0)] = .fin (binaryLLMa [((0.5 : ℝ), 2), (0.25, 0)]) :=
  binaryLLMa_eq_def _ (by simp; norm_num)

example : filled0 (maskedWhereLe0 [(0.5 : ℝ), 0, -1]) = [0.5, 0, 0] := by
  rw [filled0_maskedWhere]; simp; norm_num

end BinaryBrier.Ma
