import PycsepVerif.Proofs.Readers
import PycsepVerif.Proofs.Calendar
import PycsepVerif.Proofs.JmaFloat

/-!
# C19 — catalog readers decode every well-formed record of each supported format

Theorems about `Model/Readers.lean`, the token-level model of `csep_ascii`, `zmap_ascii`, `jma_csv`, `ingv_horus`,
`ndk` (csep/utils/readers.py) and of the dispatch table of `csep.load_catalog`.  `encodeX` is the specification of a
well-formed record of format X.  Each `decode_encode_X` says: a file of any number of well-formed records loads as
one event per record, in file order, with the encoded latitude, longitude, depth and magnitude, and with the encoded
instant in UTC at the format's resolution (CSEP: floor to ms; JMA: the millisecond written, after subtracting the UTC
offset; ZMAP, HORUS, NDK: floor to whole seconds).

HONEST SCOPE: tokenisation (csv, loadtxt, genfromtxt, fixed columns, float(), strptime) is outside the model, so these
theorems carry little beyond column order, truncation, carries and calendar arithmetic; the tie to the code is the
file-level correspondence of harness/c19.py.
-/
namespace Readers

/-- CSEP CSV: header optional; time = instant floored to the millisecond. -/
theorem decode_encode_csep (es : List MsEvent) (h : ∀ e ∈ es, e.wf) (header : Bool) :
    decodeCsep ((if header then [Line.header] else []) ++ es.map encodeCsep)
      = .ok (es.map fun e => ⟨e.usTotal / 1000, e.lat, e.lon, e.depth, e.mag⟩) := by
  have hrows := lineLoop_map csepRec
    (fun e : MsEvent => (⟨e.lon, e.lat, e.mag, e.clock, e.us, e.depth⟩ : CsepRec))
    (fun e => ⟨e.usTotal / 1000, e.lat, e.lon, e.depth, e.mag⟩) es
    (fun e he => csepRec_encode e (h e he)) true
  unfold decodeCsep
  cases header
  · simp only [Bool.false_eq_true, if_false, List.nil_append]
    exact hrows
  · simp only [if_true, List.cons_append, List.nil_append, lineLoop_header]
    exact hrows

/-- ZMAP: integer or decimal year column, any optional trailing columns; time = instant floored to whole seconds. -/
theorem decode_encode_zmap (zs : List (SecEvent × Rat × List Rat))
    (h : ∀ z ∈ zs, z.1.wf ∧ 0 ≤ z.2.1 ∧ z.2.1 < 1) :
    decodeZmap (zs.map fun z => encodeZmap z.1 z.2.1 z.2.2) = .ok (zs.map fun z => z.1.expected) := by
  unfold decodeZmap
  rw [List.mapM_map]
  exact mapM_ok _ _ zs (fun z hz => zmapRec_encode z.1 (h z hz).1 z.2.1 (h z hz).2.1 (h z hz).2.2 z.2.2)

/-- HORUS, normal notation (second < 60, minute < 60, hour < 24); time = instant floored to whole seconds. -/
theorem decode_encode_horus (es : List SecEvent) (h : ∀ e ∈ es, e.wf) :
    decodeHorus (es.map fun e => encodeHorus e false false false) = .ok (es.map SecEvent.expected) := by
  unfold decodeHorus
  rw [List.mapM_map]
  refine mapM_ok _ _ es (fun e he => ?_)
  have := horusRec_encode e (h e he) false false false
  simpa [SecEvent.expected] using this

/-- HORUS, denormalised notation as found in the published catalog (e.g. `10 60 64.29`): seconds, minutes and hours
    written +60 / +60 / +24 each add exactly their carry to the instant they are counted from. -/
theorem decode_horus_carries (e : SecEvent) (h : e.wf) (cs cm ch : Bool) :
    horusRec (encodeHorus e cs cm ch) =
      .ok ⟨(e.clock.epochSec + (if cs then 60 else 0) + (if cm then 3600 else 0) + (if ch then 86400 else 0)) * 1000,
           e.lat, e.lon, e.depth, e.mag⟩ :=
  horusRec_encode e h cs cm ch

/-- HORUS, file level with the published denormalised notation: every record may independently write its seconds,
    minutes, hours as +60 / +60 / +24; each event's time is the instant counted from plus exactly those carries. -/
theorem decode_encode_horus_denorm (es : List (SecEvent × Bool × Bool × Bool)) (h : ∀ e ∈ es, e.1.wf) :
    decodeHorus (es.map fun e => encodeHorus e.1 e.2.1 e.2.2.1 e.2.2.2) =
      .ok (es.map fun e =>
        ⟨(e.1.clock.epochSec + (if e.2.1 then 60 else 0) + (if e.2.2.1 then 3600 else 0)
            + (if e.2.2.2 then 86400 else 0)) * 1000, e.1.lat, e.1.lon, e.1.depth, e.1.mag⟩) := by
  unfold decodeHorus
  rw [List.mapM_map]
  exact mapM_ok _ _ es (fun e he => horusRec_encode e.1 (h e he) e.2.1 e.2.2.1 e.2.2.2)

/-- JMA: a record written in any zone (`loc` = local clock reading, `offset` seconds east of UTC) with millisecond
    fraction decodes to the millisecond of the instant in UTC. -/
theorem decode_encode_jma (rs : List (MsEvent × Clock × Int))
    (h : ∀ r ∈ rs, r.2.1.valid = true ∧ 0 ≤ r.1.us ∧ r.1.us < 1000000 ∧ r.1.us % 1000 = 0) (header : Bool) :
    decodeJma ((if header then [Line.header] else []) ++ rs.map fun r => encodeJma r.1 r.2.1 r.2.2)
      = .ok (rs.map fun r => ⟨(r.2.1.epochSec - r.2.2) * 1000 + r.1.us / 1000, r.1.lat, r.1.lon, r.1.depth, r.1.mag⟩) := by
  have hrows := lineLoop_map jmaRec
    (fun r : MsEvent × Clock × Int => (⟨r.2.1, r.1.us, r.2.2, r.1.lon, r.1.lat, r.1.depth, r.1.mag⟩ : JmaRec))
    (fun r => ⟨(r.2.1.epochSec - r.2.2) * 1000 + r.1.us / 1000, r.1.lat, r.1.lon, r.1.depth, r.1.mag⟩) rs
    (fun r hr => jmaRec_ms r.2.1 r.1.us r.2.2 r.1.lon r.1.lat r.1.depth r.1.mag
      (h r hr).1 (h r hr).2.1 (h r hr).2.2.1 (h r hr).2.2.2) true
  unfold decodeJma
  cases header
  · simp only [Bool.false_eq_true, if_false, List.nil_append]
    exact hrows
  · simp only [if_true, List.cons_append, List.nil_append, lineLoop_header]
    exact hrows

/-- Soft64 layer: the float computation `round(1000. * (µs / 10**6))` actually performed by `jma_csv` (one correctly
    rounded division, one float product, ties-to-even rounding) returns the written millisecond exactly for every
    millisecond in (−2^43, 2^43) ms, i.e. years 1691–2248. -/
theorem jma_float_path_exact (M : Int) (hlo : -8796093022208 < M) (hhi : M < 8796093022208) :
    jmaTimeF (1000 * M) = M :=
  F64.jmaTimeF_ms M hlo hhi

/-- JMA, float-path model, file level: the statement of `decode_encode_jma` holds for the operation-by-operation
    transcription `decodeJmaF` as well, for instants in (−2^43, 2^43) ms. -/
theorem decode_encode_jma_float (rs : List (MsEvent × Clock × Int))
    (h : ∀ r ∈ rs, r.2.1.valid = true ∧ 0 ≤ r.1.us ∧ r.1.us < 1000000 ∧ r.1.us % 1000 = 0 ∧
      -8796093022208 < (r.2.1.epochSec - r.2.2) * 1000 + r.1.us / 1000 ∧
      (r.2.1.epochSec - r.2.2) * 1000 + r.1.us / 1000 < 8796093022208) (header : Bool) :
    decodeJmaF ((if header then [Line.header] else []) ++ rs.map fun r => encodeJma r.1 r.2.1 r.2.2)
      = .ok (rs.map fun r => ⟨(r.2.1.epochSec - r.2.2) * 1000 + r.1.us / 1000, r.1.lat, r.1.lon, r.1.depth, r.1.mag⟩) := by
  have hrows := lineLoop_map jmaRecF
    (fun r : MsEvent × Clock × Int => (⟨r.2.1, r.1.us, r.2.2, r.1.lon, r.1.lat, r.1.depth, r.1.mag⟩ : JmaRec))
    (fun r => ⟨(r.2.1.epochSec - r.2.2) * 1000 + r.1.us / 1000, r.1.lat, r.1.lon, r.1.depth, r.1.mag⟩) rs
    (fun r hr => F64.jmaRecF_ms r.2.1 r.1.us r.2.2 r.1.lon r.1.lat r.1.depth r.1.mag
      (h r hr).1 (h r hr).2.1 (h r hr).2.2.1 (h r hr).2.2.2.1 (h r hr).2.2.2.2.1 (h r hr).2.2.2.2.2) true
  unfold decodeJmaF
  cases header
  · simp only [Bool.false_eq_true, if_false, List.nil_append]
    exact hrows
  · simp only [if_true, List.cons_append, List.nil_append, lineLoop_header]
    exact hrows

/-- NDK: `YYYY/MM/DD HH:MM:SS.t`; time = instant floored to whole seconds (the tenths digit is dropped). -/
theorem decode_encode_ndk (es : List (SecEvent × Int)) (h : ∀ e ∈ es, e.1.wf) :
    decodeNdk (es.map fun e => encodeNdk e.1 e.2) = .ok (es.map fun e => e.1.expected) := by
  unfold decodeNdk
  rw [List.mapM_map]
  exact mapM_ok _ _ es (fun e he => ndkRec_encode e.1 (h e he) e.2)

/-- NDK, file level with `:60.0` records: a record is either a normal one or `HH:MM:60.0` counted from the clock
    reading `HH:MM:00`; the latter decodes to that reading plus one minute. -/
theorem decode_encode_ndk_sec60 (es : List (SecEvent × Int × Bool))
    (h : ∀ e ∈ es, e.1.wf ∧ (e.2.2 = true → e.1.clock.ss = 0)) :
    decodeNdk (es.map fun e =>
        if e.2.2 then ⟨e.1.clock.y, e.1.clock.m, e.1.clock.d, e.1.clock.hh, e.1.clock.mi, 60, 0,
                       e.1.lat, e.1.lon, e.1.depth, e.1.mag⟩
        else encodeNdk e.1 e.2.1) =
      .ok (es.map fun e =>
        ⟨(e.1.clock.epochSec + (if e.2.2 then 60 else 0)) * 1000, e.1.lat, e.1.lon, e.1.depth, e.1.mag⟩) := by
  unfold decodeNdk
  rw [List.mapM_map]
  refine mapM_ok _ _ es (fun e he => ?_)
  obtain ⟨hw, hs⟩ := h e he
  cases hb : e.2.2
  · simp only [Function.comp, hb, Bool.false_eq_true, if_false, Int.add_zero]
    exact ndkRec_encode e.1 hw e.2.1
  · have hc : ({ e.1.clock with ss := 0 } : Clock) = e.1.clock := by
      have := hs hb
      cases hcl : e.1.clock; simp_all
    simp only [Function.comp, hb, if_true]
    rw [ndkRec_sec60 e.1.clock (by rw [hc]; exact hw.1), hc]

/-- the calendar fact behind the roll-overs: the day after a valid date (month end, leap day, year end) has day
    count + 1.  Holds for every date datetime accepts. -/
theorem daysFromCivil_nextDay (y m d : Int) (h : validDate y m d = true) :
    daysFromCivil (nextDay y m d).1 (nextDay y m d).2.1 (nextDay y m d).2.2 = daysFromCivil y m d + 1 :=
  daysFromCivil_nextDay' y m d h

/-- the day count is strictly increasing in (year, month, day) over all valid dates … -/
theorem daysFromCivil_strictMono (y m d y' m' d' : Int) (h : validDate y m d = true) (h' : validDate y' m' d' = true)
    (hlt : y < y' ∨ (y = y' ∧ (m < m' ∨ (m = m' ∧ d < d')))) : daysFromCivil y m d < daysFromCivil y' m' d' :=
  daysFromCivil_lt y m d y' m' d' h h' hlt

/-- … hence no two valid clock readings share an epoch second: the decoded time determines the encoded
    date and clock fields (the "round trip" of the calendar arithmetic, stated as injectivity). -/
theorem civil_roundtrip (c c' : Clock) (h : c.valid = true) (h' : c'.valid = true)
    (he : c.epochSec = c'.epochSec) : c = c' :=
  epochSec_inj c c' h h' he

/-- one minute after a valid clock reading, as a clock reading: +60 s, across hour, day, month and year ends -/
theorem nextMinute_spec (c : Clock) (h : c.valid = true) (hy : c.y < 9999) :
    (nextMinute c).valid = true ∧ (nextMinute c).epochSec = c.epochSec + 60 :=
  ⟨valid_nextMinute c h hy, epochSec_nextMinute c h⟩

/-- HORUS seconds ≥ 60: `…:mi:(ss+60+f)` decodes to the same event as the record written one minute later with
    seconds `ss+f` — in particular `23:59:60` on the last day of a month/year = `00:00:00` of the next day. -/
theorem sec60_carry_horus (e : SecEvent) (h : e.wf) (hy : e.clock.y < 9999) :
    horusRec (encodeHorus e true false false)
      = horusRec (encodeHorus { e with clock := nextMinute e.clock } false false false) := by
  obtain ⟨hv, h0, h1⟩ := h
  have hn := nextMinute_spec e.clock hv hy
  have hss : (nextMinute e.clock).ss = e.clock.ss := by
    unfold nextMinute; split
    · rfl
    · split <;> rfl
  rw [horusRec_encode e ⟨hv, h0, h1⟩ true false false,
      horusRec_encode { e with clock := nextMinute e.clock } ⟨hn.1, h0, h1⟩ false false false]
  simp only [hn.2, if_true, Bool.false_eq_true, if_false, Int.add_zero]

/-- NDK `HH:MM:60.0` (the ":60.0" rewrite): same event as the record of the next minute with seconds `00.0`. -/
theorem sec60_carry_ndk (c : Clock) (hs : c.ss = 0) (h : c.valid = true) (hy : c.y < 9999) (lat lon depth mw : Rat) :
    ndkRec ⟨c.y, c.m, c.d, c.hh, c.mi, 60, 0, lat, lon, depth, mw⟩
      = ndkRec (encodeNdk ⟨nextMinute c, 0, lon, lat, depth, mw⟩ 0) := by
  have hn := nextMinute_spec c h hy
  have hc : ({ c with ss := 0 } : Clock) = c := by cases c; simp_all
  rw [ndkRec_sec60 c (by rw [hc]; exact h), hc,
      ndkRec_encode ⟨nextMinute c, 0, lon, lat, depth, mw⟩ ⟨hn.1, le_refl 0, by norm_num⟩ 0]
  simp only [SecEvent.expected, hn.2]

/-- JMA `%z`: a record written with local clock `loc` at `offset` seconds east of UTC decodes to the same event as the
    record written with the UTC clock reading `utc` of the same instant and offset 0 (any microsecond fraction). -/
theorem offset_to_utc (loc utc : Clock) (offset us : Int) (lon lat depth mag : Rat)
    (hl : loc.valid = true) (hu : utc.valid = true) (h0 : 0 ≤ us) (h1 : us < 1000000)
    (hsame : utc.epochSec = loc.epochSec - offset) :
    jmaRec ⟨loc, us, offset, lon, lat, depth, mag⟩ = jmaRec ⟨utc, us, 0, lon, lat, depth, mag⟩ := by
  rw [jmaRec_time loc us offset lon lat depth mag hl h0 h1, jmaRec_time utc us 0 lon lat depth mag hu h0 h1]
  simp only [hsame, Int.sub_zero]

/-- every accepted `type` string has a (class, reader) entry; the five text formats reach their readers; the
    documented strings are accepted; anything else is rejected. -/
theorem dispatch_total :
    (∀ t ∈ allowedTypes, (dispatch t).isSome = true) ∧
    (∀ p ∈ textFormats, dispatch p.1 = some ("CSEPCatalog", some p.2)) ∧
    (∀ t ∈ documentedTypes, t ∈ allowedTypes) ∧
    (∀ t, t ∉ allowedTypes → dispatch t = none) := by
  refine ⟨by decide +kernel, by decide +kernel, by decide +kernel, ?_⟩
  intro t ht
  simp [dispatch, ht]

/-- the second documented entry point, `load_catalog(fname, loader=f)`: whatever accepted `type` is given (the default
    'csep-csv', the matching one, or another format's), the reader that runs is the one the caller passed — never the one
    registered for `type` — and for the text formats the catalog class is `CSEPCatalog` all the same. -/
theorem explicit_loader_wins (l : String) :
    (∀ t ∈ allowedTypes, ∃ cls, selectLoader t (some l) = .use cls (some l)) ∧
    (∀ p ∈ textFormats, selectLoader p.1 (some l) = .use "CSEPCatalog" (some l)) ∧
    selectLoader "ingv_emrcmt" (some l) = .use "CSEPCatalog" (some l) := by
  refine ⟨?_, ?_, ?_⟩
  · intro t ht
    simp only [allowedTypes, List.mem_cons, List.not_mem_nil, or_false] at ht
    rcases ht with rfl | rfl | rfl | rfl | rfl | rfl | rfl <;> exact ⟨_, rfl⟩
  · intro p hp
    simp only [textFormats, List.mem_cons, List.not_mem_nil, or_false] at hp
    rcases hp with rfl | rfl | rfl | rfl | rfl <;> rfl
  · rfl

/-- without a loader the selection is the dispatch table: registered reader for an accepted type, ValueError otherwise;
    so both entry points reach the same reader when the caller passes the reader registered for the format. -/
theorem default_loader_is_registered (t : String) :
    selectLoader t none = (match dispatch t with | some (cls, r) => .use cls r | none => .valueError) ∧
    (∀ p ∈ textFormats, selectLoader p.1 none = selectLoader "csep-csv" (some p.2)) := by
  constructor
  · unfold selectLoader dispatch
    by_cases h : allowedTypes.contains t = true
    · have hm : t ∈ allowedTypes := by simpa using h
      simp only [allowedTypes, List.mem_cons, List.not_mem_nil, or_false] at hm
      rcases hm with rfl | rfl | rfl | rfl | rfl | rfl | rfl <;> decide
    · have hm : t ∉ allowedTypes := by simpa using h
      simp [hm]
  · intro p hp
    simp only [textFormats, List.mem_cons, List.not_mem_nil, or_false] at hp
    rcases hp with rfl | rfl | rfl | rfl | rfl <;> rfl

example : selectLoader "csep-csv" (some "zmap_ascii") = .use "CSEPCatalog" (some "zmap_ascii") ∧
    selectLoader "zmap" (some "my_loader") = .use "CSEPCatalog" (some "my_loader") ∧
    selectLoader "zmap" none = .use "CSEPCatalog" (some "zmap_ascii") ∧
    selectLoader "no-such-type" none = .valueError := by decide +kernel

/-- nothing is de-duplicated (ZMAP): a file that lists one well-formed record `n` times — identical in every column,
    trailing columns included — loads as `n` events, all equal to that record's event. -/
theorem decode_zmap_repeated (n : Nat) (z : SecEvent × Rat × List Rat) (h : z.1.wf ∧ 0 ≤ z.2.1 ∧ z.2.1 < 1) :
    decodeZmap (List.replicate n (encodeZmap z.1 z.2.1 z.2.2)) = .ok (List.replicate n z.1.expected) := by
  have := decode_encode_zmap (List.replicate n z) (fun y hy => by rw [List.eq_of_mem_replicate hy]; exact h)
  simpa [List.map_replicate] using this

/-- nothing is de-duplicated (ZMAP, general position): a record repeated anywhere in the file — `pre ++ [z] ++ mid ++
    [z] ++ post` — yields its event at both positions; the number of events is the number of records. -/
theorem decode_zmap_keeps_duplicates (pre mid post : List (SecEvent × Rat × List Rat)) (z : SecEvent × Rat × List Rat)
    (h : ∀ y ∈ pre ++ z :: mid ++ z :: post, y.1.wf ∧ 0 ≤ y.2.1 ∧ y.2.1 < 1) :
    ∃ evs, decodeZmap ((pre ++ z :: mid ++ z :: post).map fun y => encodeZmap y.1 y.2.1 y.2.2) = .ok evs ∧
      evs.length = pre.length + mid.length + post.length + 2 ∧
      evs = pre.map (fun y => y.1.expected) ++ z.1.expected :: mid.map (fun y => y.1.expected)
              ++ z.1.expected :: post.map (fun y => y.1.expected) := by
  refine ⟨_, decode_encode_zmap _ h, ?_, ?_⟩
  · simp only [List.length_map, List.length_append, List.length_cons]; omega
  · simp

/-- nothing is de-duplicated (CSEP CSV): `n` copies of one record load as `n` events. -/
theorem decode_csep_repeated (n : Nat) (e : MsEvent) (h : e.wf) (header : Bool) :
    decodeCsep ((if header then [Line.header] else []) ++ List.replicate n (encodeCsep e))
      = .ok (List.replicate n ⟨e.usTotal / 1000, e.lat, e.lon, e.depth, e.mag⟩) := by
  have := decode_encode_csep (List.replicate n e) (fun y hy => by rw [List.eq_of_mem_replicate hy]; exact h) header
  simpa [List.map_replicate] using this

-- non-vacuity: concrete records, evaluated by the kernel
private def quake : SecEvent := ⟨⟨2020, 12, 31, 23, 59, 4⟩, 29/100, 14.0108, 41.615, 6.1, 1.06⟩

example : quake.wf := by refine ⟨by decide +kernel, by decide +kernel, by decide +kernel⟩

/-- the published HORUS notation `… 22 59 64.29` on 31 Dec: 2021-01-01T00:00:04Z -/
example : horusRec (encodeHorus quake true false false) = .ok ⟨1609459204000, 41.615, 14.0108, 6.1, 1.06⟩ := by
  decide +kernel

example : nextMinute ⟨2020, 12, 31, 23, 59, 0⟩ = ⟨2021, 1, 1, 0, 0, 0⟩ ∧
    nextMinute ⟨2000, 2, 28, 23, 59, 0⟩ = ⟨2000, 2, 29, 0, 0, 0⟩ ∧
    nextMinute ⟨1900, 2, 28, 23, 59, 0⟩ = ⟨1900, 3, 1, 0, 0, 0⟩ := by decide +kernel

/-- `1919-11-10T22:31:03.590000+0900` (tests/artifacts/JMA-observed_catalog/test.csv) -/
example : jmaRec ⟨⟨1919, 11, 10, 22, 31, 3⟩, 590000, 32400, 125.8605, 28.5437, 32.07, 6.374⟩
    = .ok ⟨-1582367336410, 28.5437, 125.8605, 32.07, 6.374⟩ := by decide +kernel

/-- the Soft64 transcription of the float path `round(1000. * ts)` agrees with exact rounding on that row, and an exact
    half-millisecond (1969-12-31T23:59:59.9995-12:00) is where the float path decides: here it rounds up to 43200000 -/
example : jmaRecF ⟨⟨1919, 11, 10, 22, 31, 3⟩, 590000, 32400, 125.8605, 28.5437, 32.07, 6.374⟩
    = jmaRec ⟨⟨1919, 11, 10, 22, 31, 3⟩, 590000, 32400, 125.8605, 28.5437, 32.07, 6.374⟩ := by decide +kernel

example : jmaRecF ⟨⟨1969, 12, 31, 23, 59, 59⟩, 999500, -43200, 1, 2, 3, 4⟩ = .ok ⟨43200000, 2, 1, 3, 4⟩ := by
  decide +kernel

example : ndkRec ⟨2005, 12, 31, 23, 59, 60, 0, 1, 2, 3, 4⟩ = .ok ⟨1136073600000, 1, 2, 3, 4⟩ := by decide +kernel

/-- a ZMAP file listing the same record three times (all columns equal) loads as three events -/
example : decodeZmap (List.replicate 3 (encodeZmap quake 0 [0.2, 0.5])) = .ok (List.replicate 3 quake.expected) := by
  decide +kernel

end Readers
