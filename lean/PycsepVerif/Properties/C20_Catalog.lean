import PycsepVerif.Properties.C20_Concrete
import PycsepVerif.Model.Resample

/-!
# C20 on the concrete catalog-based tests (C10's `CatEvals` model of csep/core/catalog_evaluations.py)

`Properties/C20_Concrete.lean` covered `meanRates` and the N-test. Here the remaining catalog-based evaluations — spatial,
pseudo-likelihood, magnitude, resampled-magnitude and MLL-magnitude test, the whole `Result` (status, observed statistic,
quantile, test distribution) incl. the "undersampled" recomputation branch, the nan removal and the `continue` for empty
catalogs — are proved independent of the storage order of the synthetic catalogs, in ANY arithmetic `α` (so also bit for
bit in `Float`): the mean rates are quotients of INTEGER sums (`catalog_meanRates_perm`), and every entry of the
distribution is a function of one catalog and those rates. These clauses were "exercised by the oracle only" so far.
-/
namespace PermInv.Concrete
open List

variable {α : Type} [RealOps α]

/-- `get_quantiles` in its counting form (C09) depends only on the multiset of the sample -/
theorem quantiles_perm {d d' : List (ELL α)} (h : d ~ d') (v : ELL α) : CatEvals.quantiles d v = CatEvals.quantiles d' v := by
  unfold CatEvals.quantiles
  have he : d.isEmpty = d'.isEmpty := by
    cases d with
    | nil => rw [h.nil_eq]
    | cons a t =>
      cases d' with
      | nil => exact absurd h.symm.nil_eq (by simp)
      | cons b t' => rfl
  rw [he, h.countP_eq, h.countP_eq, h.length_eq]

/-- **catalog S-test** (`spatial_test`, catalog_evaluations.py:64-148) on re-ordered synthetic catalogs: same status, same
    observed statistic (also in the undersampled branch), same quantile; the distribution (nan entries removed) is the
    permuted list -/
theorem catalog_spatialTest_perm (C K : Nat) {sims sims' : List CatEvals.Grid} (h : sims ~ sims') (obs : CatEvals.Grid) :
    (CatEvals.spatialTest C K sims obs : CatEvals.Result α).status = (CatEvals.spatialTest C K sims' obs : CatEvals.Result α).status ∧
    (CatEvals.spatialTest C K sims obs : CatEvals.Result α).observed = (CatEvals.spatialTest C K sims' obs : CatEvals.Result α).observed ∧
    (CatEvals.spatialTest C K sims obs : CatEvals.Result α).quantile = (CatEvals.spatialTest C K sims' obs : CatEvals.Result α).quantile ∧
    (CatEvals.spatialTest C K sims obs : CatEvals.Result α).distribution ~ (CatEvals.spatialTest C K sims' obs : CatEvals.Result α).distribution := by
  have hm : (CatEvals.meanRates C K sims : List (List α)) = CatEvals.meanRates C K sims' := catalog_meanRates_perm C K h
  unfold CatEvals.spatialTest
  simp only [hm]
  generalize (CatEvals.meanRates C K sims' : List (List α)) = m
  have hd : (sims.map fun g => (CatEvals.computeLikelihood (CatEvals.spatialCounts C g) (CatEvals.spatialRates m) (CatEvals.totalRate m)
        (CatEvals.spatialCounts C obs).sum).2).filterMap id ~
      (sims'.map fun g => (CatEvals.computeLikelihood (CatEvals.spatialCounts C g) (CatEvals.spatialRates m) (CatEvals.totalRate m)
        (CatEvals.spatialCounts C obs).sum).2).filterMap id := (h.map _).filterMap _
  split
  · exact ⟨rfl, rfl, rfl, hd⟩
  · split
    · exact ⟨rfl, rfl, rfl, hd⟩
    · exact ⟨rfl, rfl, quantiles_perm hd _, hd⟩

/-- **catalog pseudo-likelihood test** (:238-334): `None` for one order iff for the other; otherwise same status, observed
    statistic, quantile, and the distribution is the permuted list -/
theorem catalog_pseudolikelihoodTest_perm (C K : Nat) {sims sims' : List CatEvals.Grid} (h : sims ~ sims') (obs : CatEvals.Grid) :
    Option.Rel (fun (r r' : CatEvals.Result α) => r.status = r'.status ∧ r.observed = r'.observed ∧ r.quantile = r'.quantile ∧
        r.distribution ~ r'.distribution)
      (CatEvals.pseudolikelihoodTest C K sims obs) (CatEvals.pseudolikelihoodTest C K sims' obs) := by
  have hm : (CatEvals.meanRates C K sims : List (List α)) = CatEvals.meanRates C K sims' := catalog_meanRates_perm C K h
  unfold CatEvals.pseudolikelihoodTest
  simp only [hm]
  generalize (CatEvals.meanRates C K sims' : List (List α)) = m
  have hd : (sims.map fun g => (CatEvals.computeLikelihood (CatEvals.spatialCounts C g) (CatEvals.spatialRates m) (CatEvals.totalRate m)
        (CatEvals.spatialCounts C obs).sum).1) ~
      (sims'.map fun g => (CatEvals.computeLikelihood (CatEvals.spatialCounts C g) (CatEvals.spatialRates m) (CatEvals.totalRate m)
        (CatEvals.spatialCounts C obs).sum).1) := h.map _
  split
  · exact Option.Rel.none
  · split
    · split
      · exact Option.Rel.none
      · exact Option.Rel.some ⟨rfl, rfl, quantiles_perm hd _, hd⟩
    · exact Option.Rel.some ⟨rfl, rfl, quantiles_perm hd _, hd⟩

/-- **catalog M-test** (`magnitude_test`, :151-235): empty synthetic catalogs are skipped wherever they are stored -/
theorem catalog_magnitudeTest_perm (C K : Nat) {sims sims' : List CatEvals.Grid} (h : sims ~ sims') (obs : CatEvals.Grid) :
    (CatEvals.magnitudeTest C K sims obs : CatEvals.Result α).status = (CatEvals.magnitudeTest C K sims' obs : CatEvals.Result α).status ∧
    (CatEvals.magnitudeTest C K sims obs : CatEvals.Result α).observed = (CatEvals.magnitudeTest C K sims' obs : CatEvals.Result α).observed ∧
    (CatEvals.magnitudeTest C K sims obs : CatEvals.Result α).quantile = (CatEvals.magnitudeTest C K sims' obs : CatEvals.Result α).quantile ∧
    (CatEvals.magnitudeTest C K sims obs : CatEvals.Result α).distribution ~ (CatEvals.magnitudeTest C K sims' obs : CatEvals.Result α).distribution := by
  have hm : (CatEvals.meanRates C K sims : List (List α)) = CatEvals.meanRates C K sims' := catalog_meanRates_perm C K h
  unfold CatEvals.magnitudeTest
  simp only [hm]
  generalize (CatEvals.meanRates C K sims' : List (List α)) = m
  split
  · exact ⟨rfl, rfl, rfl, Perm.refl _⟩
  · split
    · exact ⟨rfl, rfl, rfl, Perm.refl _⟩
    · have hd := fun (f : CatEvals.Grid → Option (ELL α)) => h.filterMap f
      exact ⟨rfl, rfl, quantiles_perm (hd _) _, hd _⟩

/-- the union histogram of the two resampling tests (:441-443, :565-570): integer sums over the catalogs -/
theorem catalog_unionHist_perm (K : Nat) {sims sims' : List CatEvals.Grid} (h : sims ~ sims') : CatEvals.unionHist K sims = CatEvals.unionHist K sims' := by
  unfold CatEvals.unionHist
  exact List.map_congr_left (fun k _ => (h.map _).sum_eq)

/-- **resampled M-test and MLL M-test**: the synthetic catalogs enter only through the union histogram, so with the same
    resampled histograms (same seed) the WHOLE result is identical for every storage order of the catalogs, in any
    arithmetic — and so is the distribution `numpy.random.choice` samples from (`CatEvals.choiceCdf`) -/
theorem catalog_resampled_mll_perm (lg : α → α) (K : Nat) {sims sims' : List CatEvals.Grid} (h : sims ~ sims') (obs : CatEvals.Grid)
    (draws : List (List Nat)) :
    (CatEvals.resampledMagnitudeTest K sims obs draws : CatEvals.Result α) = CatEvals.resampledMagnitudeTest K sims' obs draws ∧
    (CatEvals.mllMagnitudeTest lg K sims obs draws : CatEvals.Result α) = CatEvals.mllMagnitudeTest lg K sims' obs draws ∧
    CatEvals.choiceCdf (CatEvals.unionHist K sims) = CatEvals.choiceCdf (CatEvals.unionHist K sims') := by
  unfold CatEvals.resampledMagnitudeTest CatEvals.mllMagnitudeTest
  rw [catalog_unionHist_perm K h]
  exact ⟨rfl, rfl, rfl⟩

/-- **observed events re-ordered**: all five catalog tests read the observed catalog through its count matrix, which
    `gridding_smc_perm` shows identical — results are EQUAL (bit for bit in `Float`, simulation-based ones for equal draws) -/
theorem catalog_tests_perm_observed (lg : α → α) (C K : Nat) (sims : List CatEvals.Grid) {evs evs' : List Gridding.Ev} (h : evs ~ evs')
    (draws : List (List Nat)) :
    (Gridding.smcCart C K evs).map (fun obs => ((CatEvals.spatialTest C K sims obs : CatEvals.Result α), (CatEvals.pseudolikelihoodTest C K sims obs : Option (CatEvals.Result α)),
        (CatEvals.magnitudeTest C K sims obs : CatEvals.Result α), (CatEvals.resampledMagnitudeTest K sims obs draws : CatEvals.Result α),
        (CatEvals.mllMagnitudeTest lg K sims obs draws : CatEvals.Result α), CatEvals.numberTest sims obs)) =
    (Gridding.smcCart C K evs').map (fun obs => ((CatEvals.spatialTest C K sims obs : CatEvals.Result α), (CatEvals.pseudolikelihoodTest C K sims obs : Option (CatEvals.Result α)),
        (CatEvals.magnitudeTest C K sims obs : CatEvals.Result α), (CatEvals.resampledMagnitudeTest K sims obs draws : CatEvals.Result α),
        (CatEvals.mllMagnitudeTest lg K sims obs draws : CatEvals.Result α), CatEvals.numberTest sims obs)) := by
  rw [(gridding_smc_perm C K h).1]

/-! ## non-vacuity -/

-- three synthetic catalogs on 2 cells × 1 bin, one of them empty, stored in two orders
example : ([[[1], [0]], [[0], [0]], [[2], [1]]] : List CatEvals.Grid) ~ [[[0], [0]], [[2], [1]], [[1], [0]]] :=
  (Perm.swap _ _ _).trans (Perm.cons _ (Perm.swap _ _ _))
example : (CatEvals.magnitudeTest 2 1 [[[1], [0]], [[0], [0]], [[2], [1]]] [[1], [1]] : CatEvals.Result ℝ).distribution ~
    (CatEvals.magnitudeTest 2 1 [[[0], [0]], [[2], [1]], [[1], [0]]] [[1], [1]] : CatEvals.Result ℝ).distribution :=
  (catalog_magnitudeTest_perm 2 1 ((Perm.swap _ _ _).trans (Perm.cons _ (Perm.swap _ _ _))) _).2.2.2
example : (CatEvals.spatialTest 2 1 [[[1], [0]], [[0], [0]], [[2], [1]]] [[1], [1]] : CatEvals.Result Float).quantile =
    (CatEvals.spatialTest 2 1 [[[0], [0]], [[2], [1]], [[1], [0]]] [[1], [1]] : CatEvals.Result Float).quantile :=
  (catalog_spatialTest_perm 2 1 ((Perm.swap _ _ _).trans (Perm.cons _ (Perm.swap _ _ _))) _).2.2.1
example : CatEvals.unionHist 2 [[[1, 0], [0, 2]], [[0, 0], [0, 0]], [[2, 1], [0, 0]]] = [3, 3] := by decide +kernel

end PermInv.Concrete
