import PycsepVerif.Properties.C02_Tol

/-!
# C02 — complete case analysis for EVERY point tolerance: `tol=` and integer points get `mem_allowed`

`Properties/C02_Float.lean` proves the master case analysis `bin1dF_cases` and `bin1dF_mem_allowed` (the model's answer is always
one the property allows) for float64 points with the DEFAULT tolerance. Round 3 / 4 added the two one-sided statements for a
general point tolerance (`bin1dF_gen_upper`, `bin1dF_gen_never_below`). Here the whole analysis is redone for any configuration with
float64 edges whose quotient is `qG pt`, `pt ≥ 0` a float: `bin1dF_gen_cases`, `bin1dF_gen_upper_band`, `bin1dF_gen_mem_allowed`, with
instances for `bin1d_vec(…, tol=t)` (= `get_magnitude_index(mags, tol)`, `magnitude_counts(tol=)`) and for int64 points on float64
edges. So for these configurations too the property holds for every point, not a sample.
-/
namespace Bin1d
open Soft64

/-- the point is a float64, the point tolerance a non-negative float64, and the grid resolves its step: `(n+1)·fl(|a0|ε) + pt ≤ h/2` -/
structure PointOKG (bins : List ℚ) (p pt : ℚ) : Prop where
  float : fl64 p = p
  ptF : fl64 pt = pt
  pt0 : 0 ≤ pt
  tol_small : ((bins.length : ℚ) + 1) * atol64 bins + pt ≤ step64 bins / 2

/-- the band of the formula with point tolerance `pt` below the regular position `a0 + j·h` -/
abbrev gband (bins : List ℚ) (pt : ℚ) (j : ℤ) : ℚ := formulaBand (atol64 bins) pt (step64 bins) (j : ℚ)

theorem PointOKG.atol_le {bins : List ℚ} (G : RegularF64Grid bins) {p pt : ℚ} (P : PointOKG bins p pt) :
    atol64 bins ≤ step64 bins / 6 := by
  have h1 := P.tol_small
  have h2 : 0 ≤ atol64 bins := getTol_f64_nonneg _
  have h3 := P.pt0
  have h4 : (2 : ℚ) ≤ (bins.length : ℚ) := by exact_mod_cast G.two_le
  have h5 : 0 ≤ ((bins.length : ℚ) - 2) * atol64 bins := mul_nonneg (by linarith) h2
  linarith

theorem gband_lt {bins : List ℚ} (G : RegularF64Grid bins) {p pt : ℚ} (P : PointOKG bins p pt) {j : ℤ} (hj0 : 0 ≤ j)
    (hjn : j ≤ (bins.length : ℤ)) : gband bins pt j < 3 / 4 * step64 bins := by
  have h1 := P.tol_small
  have h2 : 0 ≤ atol64 bins := getTol_f64_nonneg _
  have hh := G.step_pos
  have hJ0 : (0 : ℚ) ≤ (j : ℚ) := by exact_mod_cast hj0
  have hJn : (j : ℚ) ≤ (bins.length : ℚ) := by exact_mod_cast hjn
  have hN : (bins.length : ℚ) ≤ 2 ^ 40 := by exact_mod_cast G.le_pow40
  have h5 : ((j : ℚ) + 1) * atol64 bins ≤ ((bins.length : ℚ) + 1) * atol64 bins :=
    mul_le_mul_of_nonneg_right (by linarith) h2
  have h6 : (j : ℚ) * step64 bins ≤ 2 ^ 40 * step64 bins := mul_le_mul_of_nonneg_right (by linarith) hh.le
  have h7 : pow2 (-1073) ≤ pow2 (-20) := Soft64R.pow2_le_pow2 (by norm_num)
  rw [pow2_m20] at h7
  have h8 : pow2 (-1073) * step64 bins ≤ 1 / 2 ^ 20 * step64 bins := mul_le_mul_of_nonneg_right h7 hh.le
  have h9 := P.pt0
  unfold gband formulaBand
  nlinarith [h5, h6, h8, h1, hh]

theorem gband_le {bins : List ℚ} (G : RegularF64Grid bins) {p pt : ℚ} (P : PointOKG bins p pt) {j : ℤ} (hj0 : 0 ≤ j)
    (hjn : j ≤ (bins.length : ℤ)) : gband bins pt j ≤ 3 / 4 * step64 bins := (gband_lt G P hj0 hjn).le

/-- **Master case analysis for a general point tolerance** (float64 edges, any configuration `c` whose quotient is `qG pt`). With K
the ideal bin and r the result of the float formula:
* K not the last bin: r = K, or r = K+1 and `p` is at most `gband (K+1)` below the regular position `a0 + (K+1)·h`;
* K the last bin, open mode: r = K;
* K the last bin, closed mode: `p ≥ top` ⇒ r = −1; `p < top` ⇒ r = K, or r = −1 and `p` is at most `gband n` below `a0 + n·h`. -/
theorem bin1dF_gen_cases (c : Cfg) (hbd : c.bd = .f64) {bins : List ℚ} (G : RegularF64Grid bins) {p pt : ℚ}
    (P : PointOKG bins p pt)
    (hq : quotF c bins.length (fun k => bins.getD k 0) p = (DT.f64, qG pt bins.length (fun k => bins.getD k 0) p)) :
    (binIdeal bins p + 1 < (bins.length : ℤ) →
      bin1dF c bins p = binIdeal bins p ∨
      (bin1dF c bins p = binIdeal bins p + 1 ∧
        bins.getD 0 0 + ((binIdeal bins p + 1 : ℤ) : ℚ) * step64 bins - gband bins pt (binIdeal bins p + 1) ≤ p)) ∧
    (binIdeal bins p + 1 = (bins.length : ℤ) → c.rc = true → bin1dF c bins p = binIdeal bins p) ∧
    (binIdeal bins p + 1 = (bins.length : ℤ) → c.rc = false → top64 bins ≤ p → bin1dF c bins p = -1) ∧
    (binIdeal bins p + 1 = (bins.length : ℤ) → c.rc = false → p < top64 bins →
      bin1dF c bins p = binIdeal bins p ∨
      (bin1dF c bins p = -1 ∧
        bins.getD 0 0 + ((bins.length : ℤ) : ℚ) * step64 bins - gband bins pt (bins.length : ℤ) ≤ p)) := by
  have hn := G.two_le
  have hn40 := G.le_pow40
  have hs := G.increasing
  have hb : bins ≠ [] := by intro h; simp [h] at hn
  have hhpos := G.step_pos
  have hat6 := P.atol_le G
  have hat : getTol .f64 (bins.getD 0 0) ≤ hOf .f64 bins.length (fun j => bins.getD j 0) / 4 := by
    have : atol64 bins ≤ step64 bins / 4 := by linarith
    exact this
  have hNB := bin1dF_gen_never_below c hbd bins p pt P.pt0 hn hq hn40 hs G.step_normal hat G.reg_lower
  have hrange := bin1dF_range c bins hb p
  have hKr := binIdeal_range bins p
  have hcore : bin1dF c bins p = clampInt c.rc bins.length (corrInt bins.length (fun j => bins.getD j 0)
      (top64 bins) p ⌊qG pt bins.length (fun j => bins.getD j 0) p⌋) := by
    unfold bin1dF
    exact bin1dCore_gen c hbd hn (by omega) _ p _ hq
  -- the error analysis of the quotient
  have hB : ∀ j : ℤ, 0 ≤ j → j ≤ ⌊qG pt bins.length (fun j => bins.getD j 0) p⌋ →
      bins.getD 0 0 + (j : ℚ) * step64 bins - gband bins pt j ≤ p := fun j hj0 hji =>
    quot_upper hj0 G.a0_float P.float (hOf_float hn _) (getTol_float _) P.ptF (getTol_f64_nonneg _) P.pt0 G.step_normal hat
      (Int.le_floor.mp hji)
  -- the last edge is below top
  have hlast : bins.getD (bins.length - 1) 0 ≤ top64 bins := by
    apply top_ge_last (fun j => bins.getD j 0) _ hhpos.le
    have hl : bins.length - 1 < bins.length := by omega
    show fl64 (bins.getD (bins.length - 1) 0) = bins.getD (bins.length - 1) 0
    rw [getD_eq_getElem bins hl]
    exact G.floats _ (List.getElem_mem hl)
  have htopK : top64 bins ≤ p → (bins.length : ℤ) - 1 ≤ binIdeal bins p := by
    intro ht
    have := (edge_le_iff hs p (j := bins.length - 1) (by omega)).1 (le_trans hlast ht)
    omega
  -- reaching the floor index n means p is at or above the last edge
  have hnK : (bins.length : ℤ) ≤ ⌊qG pt bins.length (fun j => bins.getD j 0) p⌋ →
      (bins.length : ℤ) - 1 ≤ binIdeal bins p ∧
        bins.getD 0 0 + ((bins.length : ℤ) : ℚ) * step64 bins - gband bins pt (bins.length : ℤ) ≤ p := by
    intro hi
    have h1 := hB (bins.length : ℤ) (by omega) hi
    have h2 := gband_le G P (j := (bins.length : ℤ)) (by omega) le_rfl
    have h3 := G.reg_upper (bins.length - 1) (by omega)
    have hc : ((bins.length - 1 : ℕ) : ℚ) = (bins.length : ℚ) - 1 := by
      rw [Nat.cast_sub (by omega)]; simp
    rw [hc] at h3
    push_cast at h1 h2
    have : bins.getD (bins.length - 1) 0 ≤ p := by nlinarith
    have := (edge_le_iff hs p (j := bins.length - 1) (by omega)).1 this
    refine ⟨by omega, ?_⟩
    push_cast
    exact h1
  -- upper claim
  have hU : bin1dF c bins p ≤ binIdeal bins p ∨
      (bin1dF c bins p = binIdeal bins p + 1 ∧
        bins.getD 0 0 + ((binIdeal bins p + 1 : ℤ) : ℚ) * step64 bins - gband bins pt (binIdeal bins p + 1) ≤ p) := by
    by_cases hle : bin1dF c bins p ≤ binIdeal bins p
    · exact Or.inl hle
    right
    have hr0 : 0 ≤ bin1dF c bins p := by omega
    rw [hcore] at hr0
    obtain ⟨hi0, hc⟩ := result_nonneg_cases hn c.rc (fun j => bins.getD j 0) (top64 bins) p _ hr0
    rw [← hcore] at hc
    rcases hc with hc | ⟨hc, hc1, hc2⟩ | ⟨hc, hc1⟩
    · have h1 := hB _ (by omega) hc
      by_cases hK2 : binIdeal bins p + 2 ≤ bin1dF c bins p
      · exfalso
        have hj : (binIdeal bins p + 1).toNat < bins.length := by omega
        have hlt : ¬ bins.getD (binIdeal bins p + 1).toNat 0 ≤ p := by
          rw [edge_le_iff hs p hj]; omega
        have h3 := G.reg_upper _ hj
        have h4 := hB (binIdeal bins p + 2) (by omega) (by omega)
        have h5 := gband_le G P (j := binIdeal bins p + 2) (by omega) (by omega)
        have hc' : (((binIdeal bins p + 1).toNat : ℕ) : ℚ) = ((binIdeal bins p : ℤ) : ℚ) + 1 := by
          have : (((binIdeal bins p + 1).toNat : ℕ) : ℤ) = binIdeal bins p + 1 := Int.toNat_of_nonneg (by omega)
          have : (((binIdeal bins p + 1).toNat : ℕ) : ℚ) = ((binIdeal bins p + 1 : ℤ) : ℚ) := by exact_mod_cast this
          rw [this]; push_cast; ring
        rw [hc'] at h3
        push_cast at h4 h5
        apply hlt
        nlinarith
      · have he : bin1dF c bins p = binIdeal bins p + 1 := by omega
        refine ⟨he, ?_⟩
        rw [he] at h1
        exact h1
    · exfalso
      have hj : (⌊qG pt bins.length (fun j => bins.getD j 0) p⌋ + 1).toNat < bins.length := by omega
      have := (edge_le_iff hs p hj).1 hc2
      omega
    · exfalso
      have := htopK hc1
      omega
  refine ⟨?_, ?_, ?_, ?_⟩
  · intro hK
    rcases hNB with h1 | ⟨_, h2, h3⟩
    · rcases hU with h4 | h4
      · left; omega
      · right; exact h4
    · left
      by_cases hK0 : binIdeal bins p = -1
      · omega
      · exfalso
        rcases h3 with h3 | h3
        · have := htopK h3; omega
        · have := (hnK h3).1; omega
  · intro hK hrc
    rcases hNB with h1 | ⟨h0, _, _⟩
    · omega
    · rw [hrc] at h0; exact absurd h0 (by simp)
  · intro hK hrc ht
    rcases hNB with h1 | ⟨_, h2, _⟩
    · exfalso
      have h5 : bin1dF c bins p = (bins.length : ℤ) - 1 := by omega
      rw [hcore, hrc] at h5
      exact result_closed_top hn _ _ _ _ ht h5
    · exact h2
  · intro hK hrc ht
    rcases hNB with h1 | ⟨_, h2, h3⟩
    · left; omega
    · right
      refine ⟨h2, ?_⟩
      rcases h3 with h3 | h3
      · exact absurd h3 (not_le.mpr ht)
      · exact (hnK h3).2

/-- the proved band with point tolerance `pt` is inside the band the oracle uses for the configuration, as soon as `pt` is at most
the oracle's point tolerance `ptolOf c p` and the configuration is a double-precision one -/
theorem le_bandWidth_gen (c : Cfg) (hbd : c.bd = .f64) (hu : uOf c = pow2 (-53)) (hty : tinyOf c = pow2 (-1022))
    {a0 h pt : ℚ} (j : ℕ) {e p : ℚ} (hh : 0 ≤ h) (hpt0 : 0 ≤ pt) (hpt : pt ≤ ptolOf c p)
    (hb : a0 + (j : ℚ) * h - formulaBand (getTol .f64 a0) pt h (j : ℚ) ≤ p) :
    e - p ≤ bandWidth c a0 h j e p := by
  unfold bandWidth
  rw [hbd, hu, hty, pow2_m20, pow2_m53]
  have h2 : 0 ≤ getTol .f64 a0 := getTol_f64_nonneg _
  have hJ : (0 : ℚ) ≤ (j : ℚ) := by positivity
  have h7 : pow2 (-1073) ≤ pow2 (-1022) := Soft64R.pow2_le_pow2 (by norm_num)
  have h8 : pow2 (-1073) * h ≤ pow2 (-1022) * h := mul_le_mul_of_nonneg_right h7 hh
  have h9 : 0 ≤ (j : ℚ) * h := mul_nonneg hJ hh
  have h10 : 0 ≤ (j : ℚ) * getTol .f64 a0 := mul_nonneg hJ h2
  have h11 : 0 ≤ ptolOf c p := le_trans hpt0 hpt
  unfold formulaBand at hb
  simp only
  split_ifs with hi
  · nlinarith [h8, h9, h10, h2, hpt, hpt0, h11]
  · nlinarith [h8, h9, h10, h2, hpt, hpt0, h11]

/-- **the model's answer is always one the property allows — every point tolerance** (float64 edges; `allowed` is the rule the
harness oracle implements independently in `Fraction` arithmetic, with the point tolerance `ptolOf c p` of the configuration) -/
theorem bin1dF_gen_mem_allowed (c : Cfg) (hbd : c.bd = .f64) (hu : uOf c = pow2 (-53)) (hty : tinyOf c = pow2 (-1022))
    {bins : List ℚ} (G : RegularF64Grid bins) {p pt : ℚ} (P : PointOKG bins p pt) (hpt : pt ≤ ptolOf c p)
    (hq : quotF c bins.length (fun k => bins.getD k 0) p = (DT.f64, qG pt bins.length (fun k => bins.getD k 0) p)) :
    bin1dF c bins p ∈ allowed c bins p := by
  have hn := G.two_le
  have hn1 : (bins.length == 1) = false := by simp; omega
  have hKr := binIdeal_range bins p
  obtain ⟨c1, c2, c3, c4⟩ := bin1dF_gen_cases c hbd G P hq
  have toNatCast : ∀ z : ℤ, 0 ≤ z → ((z.toNat : ℕ) : ℚ) = (z : ℚ) := by
    intro z hz
    have : ((z.toNat : ℕ) : ℤ) = z := Int.toNat_of_nonneg hz
    exact_mod_cast this
  unfold allowed
  simp only [hn1, Bool.or_false, hbd]
  by_cases hK : binIdeal bins p + 1 < (bins.length : ℤ)
  · rw [if_pos hK]
    rcases c1 hK with h | ⟨h, hband⟩
    · split_ifs <;> simp [h]
    · have hb : bins.getD (binIdeal bins p + 1).toNat 0 - p
          ≤ bandWidth c (bins.getD 0 0) (step64 bins) (binIdeal bins p + 1).toNat (bins.getD (binIdeal bins p + 1).toNat 0) p := by
        apply le_bandWidth_gen c hbd hu hty _ G.step_pos.le P.pt0 hpt
        rw [toNatCast _ (by omega)]
        exact hband
      split_ifs with hb'
      · simp [h]
      · exact absurd hb hb'
  · have hK' : binIdeal bins p + 1 = (bins.length : ℤ) := by omega
    rw [if_neg hK]
    by_cases hrc : c.rc = true
    · have h := c2 hK' hrc
      rw [if_pos hrc]
      simp [h]
    · have hrc' : c.rc = false := by simpa using hrc
      rw [if_neg hrc]
      by_cases ht : top64 bins ≤ p
      · have h := c3 hK' hrc' ht
        have ht' : (topOf .f64 bins.length fun k => bins.getD k 0) ≤ p := ht
        rw [if_pos ht']
        simp [h]
      · have ht' : ¬ (topOf .f64 bins.length fun k => bins.getD k 0) ≤ p := ht
        rw [if_neg ht']
        rcases c4 hK' hrc' (not_le.mp ht) with h | ⟨h, hband⟩
        · split_ifs <;> simp [h]
        · have hb : top64 bins - p ≤ bandWidth c (bins.getD 0 0) (step64 bins) bins.length (top64 bins) p := by
            apply le_bandWidth_gen c hbd hu hty _ G.step_pos.le P.pt0 hpt
            exact_mod_cast hband
          split_ifs with h2
          · simp [h]
          · exact absurd hb h2

/-- **`bin1d_vec(p, bins, tol=t)`** (`t > 0` a float64; = `get_magnitude_index(mags, tol)`, `magnitude_counts(tol=)`): on every
regular float64 grid and for every float64 point with `(n+1)·|a0|ε + t ≤ h/2` the answer is one the property allows — the ideal
bin, or the next one when the point lies within the band (with `t` as the point tolerance) below the next edge -/
theorem bin1dF_tol_mem_allowed (t : ℚ) (ht : 0 < t) (htF : fl64 t = t) (rc : Bool) {bins : List ℚ} (G : RegularF64Grid bins) {p : ℚ}
    (hpF : fl64 p = p) (hsmall : ((bins.length : ℚ) + 1) * atol64 bins + t ≤ step64 bins / 2) :
    bin1dF (cfgTol t rc) bins p ∈ allowed (cfgTol t rc) bins p := by
  have hq := quotF_cfgTol t (ne_of_gt ht) rc G.two_le (fun k => bins.getD k 0) p
  rw [htF] at hq
  refine bin1dF_gen_mem_allowed (cfgTol t rc) rfl (by simp [uOf, cfgTol]) (by simp [tinyOf, cfgTol]) G
    (pt := t) ⟨hpF, htF, ht.le, hsmall⟩ ?_ hq
  have : ptolOf (cfgTol t rc) p = fabs t := by simp [ptolOf, cfgTol, ne_of_gt ht]
  rw [this, fabs_eq_abs, abs_of_pos ht]

/-- **int64 points on float64 edges**: the answer for every integer |p| ≤ 2^53 is one the property allows (no point tolerance:
the band is that of the edge tolerance and the roundings alone) -/
theorem bin1dF_intpts_mem_allowed (rc : Bool) {bins : List ℚ} (G : RegularF64Grid bins) (p : ℤ) (hp : |p| ≤ 2 ^ 53)
    (hsmall : ((bins.length : ℚ) + 1) * atol64 bins ≤ step64 bins / 2) :
    bin1dF (cfgIntPts rc) bins (p : ℚ) ∈ allowed (cfgIntPts rc) bins (p : ℚ) := by
  refine bin1dF_gen_mem_allowed (cfgIntPts rc) rfl (by simp [uOf, cfgIntPts]) (by simp [tinyOf, cfgIntPts]) G
    (pt := 0) ⟨Soft64R.fl64_intCast hp, Soft64R.fl64_zero, le_rfl, by linarith⟩ ?_ (quotF_cfgIntPts rc G.two_le _ _)
  simp [ptolOf, cfgIntPts, getTol, DT.rnd, DT.eps]

/-- the magnitude call sites with `tol=t`: every index `get_magnitude_index(mags, tol)` / `magnitude_counts(tol=)` computes is one the
property allows -/
theorem magCfg_tol_mem_allowed (t : ℚ) (ht : 0 < t) (htF : fl64 t = t) {bins : List ℚ} (G : RegularF64Grid bins) {p : ℚ}
    (hpF : fl64 p = p) (hsmall : ((bins.length : ℚ) + 1) * atol64 bins + t ≤ step64 bins / 2) :
    bin1dF (magCfg .f64 .f64 (some t)) bins p ∈ allowed (magCfg .f64 .f64 (some t)) bins p := by
  rw [magCfg_tol_eq]; exact bin1dF_tol_mem_allowed t ht htF true G hpF hsmall

/-! ### non-vacuity: the witness grid 5.9, 33.2, 60.5, 87.8, 115.1 with `tol = 2^-17`, and the integers on it -/
example : ((witnessBins.length : ℚ) + 1) * atol64 witnessBins + 1 / 131072 ≤ step64 witnessBins / 2 ∧
    fl64 (1 / 131072 : ℚ) = 1 / 131072 := by decide +kernel
-- 2^-18 below the edge 33.2 the allowed set is {0, 1} and the model answers 1; 2^-15 below it only {0} is allowed
example : allowed (cfgTol (1 / 131072) true) witnessBins (2336242306698445 / 70368744177664 - 1 / 262144) = [0, 1] ∧
    allowed (cfgTol (1 / 131072) true) witnessBins (2336242306698445 / 70368744177664 - 1 / 32768) = [0] := by decide +kernel
example : allowed (cfgIntPts false) witnessBins 88 = [3] ∧ bin1dF (cfgIntPts false) witnessBins 88 = 3 := by decide +kernel

end Bin1d
