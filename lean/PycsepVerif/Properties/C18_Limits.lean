import PycsepVerif.Model.JsonLimits
import PycsepVerif.Properties.C18_TextFloat

/-!
# C18 — the nesting limit of the loader as an explicit precondition

`loadLimited L` is `json.load` with the C recursion limit `L`.  A written tree loads back iff its nesting depth is at most `L`;
beyond it the loader raises RecursionError (never a wrong value).  Sorting the members does not change the depth.
-/
namespace JsonText
open JsonTree

theorem depthM_insertMember (k : String) (v : JVal) : ∀ ms : JKVs, depthM (insertMember k v ms) = max (depth v) (depthM ms)
  | .nil => by simp [insertMember, depthM]
  | .cons k' v' rest => by
    unfold insertMember
    split_ifs
    · simp only [depthM, depthM_insertMember k v rest]; omega
    · simp only [depthM]

theorem depthM_sortMembers : ∀ ms : JKVs, depthM (sortMembers ms) = depthM ms
  | .nil => rfl
  | .cons k v rest => by simp only [sortMembers, depthM_insertMember, depthM_sortMembers rest, depthM]

mutual
  theorem depth_sortTree : ∀ j : JVal, depth (sortTree j) = depth j
    | .null => rfl
    | .bool _ => rfl
    | .int _ => rfl
    | .float _ => rfl
    | .str _ => rfl
    | .arr xs => by simp only [sortTree, depth, depthL_sortTreeL xs]
    | .obj ms => by simp only [sortTree, depth, depthM_sortMembers, depthM_sortTreeKVs ms]
  theorem depthL_sortTreeL : ∀ xs : JList, depthL (sortTreeL xs) = depthL xs
    | .nil => rfl
    | .cons v vs => by simp only [sortTreeL, depthL, depth_sortTree v, depthL_sortTreeL vs]
  theorem depthM_sortTreeKVs : ∀ ms : JKVs, depthM (sortTreeKVs ms) = depthM ms
    | .nil => rfl
    | .cons _ v ms => by simp only [sortTreeKVs, depthM, depth_sortTree v, depthM_sortTreeKVs ms]
end

/-- **within the limit the written tree loads back** (members sorted) … -/
theorem load_limited_ok (L : Nat) (ft : FloatText) (j : JVal) (hf : FloatsOK ft j) (hd : depth j ≤ L) :
    loadLimited L ft (render ft j) = .ok (sortTree j) := by
  unfold loadLimited
  rw [parse_render ft j hf]
  simp only [depth_sortTree]
  rw [if_neg (by omega)]

/-- … **and beyond it the loader raises RecursionError** — it never returns another value -/
theorem load_limited_too_deep (L : Nat) (ft : FloatText) (j : JVal) (hf : FloatsOK ft j) (hd : L < depth j) :
    loadLimited L ft (render ft j) = .recursionError := by
  unfold loadLimited
  rw [parse_render ft j hf]
  simp only [depth_sortTree]
  rw [if_pos hd]

/-- the two together, for zero / normal floats, no float hypothesis -/
theorem load_limited_normal (L : Nat) (j : JVal) (h : NormalFloats j) :
    loadLimited L pyFloatText (render pyFloatText j)
      = if depth j ≤ L then .ok (sortTree j) else .recursionError := by
  split_ifs with hd
  · exact load_limited_ok L _ j (floatsOK_of_normal j h) hd
  · exact load_limited_too_deep L _ j (floatsOK_of_normal j h) (by omega)

example : depth (.arr (.cons (.obj (.cons "a" (.arr .nil) .nil)) (.cons (.int 1) .nil))) = 3 := by decide
example : (loadLimited 2 noFloatText "[[[]]]".toList).tag = 2 := by decide +kernel
example : (loadLimited 3 noFloatText "[[[]]]".toList).tag = 0 := by decide +kernel
example : (loadLimited 3 noFloatText "[[[]]".toList).tag = 1 := by decide +kernel
example : loadLimited 5 noFloatText (render noFloatText (.arr (.cons (.arr .nil) .nil))) = .ok (.arr (.cons (.arr .nil) .nil)) :=
  load_limited_ok 5 _ _ (by simp [FloatsOK, FloatsOKL]) (by decide)

end JsonText
