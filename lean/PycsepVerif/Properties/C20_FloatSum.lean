import PycsepVerif.Proofs.FloatSum
import PycsepVerif.Proofs.FloatSumPairwise

/-!
# C20 — "unchanged (to rounding)": float sums in ANY order and ANY bracketing agree up to a proved bound

`Properties/C20.lean` / `C20_Concrete.lean` prove the permutation invariance of the statistics over ℝ and say that
"the ORDER OF FLOAT SUMMATION IS OUTSIDE these theorems". This file closes that gap on the Soft64 layer (binary64
round-to-nearest-even, the arithmetic numpy runs): re-ordering events / synthetic catalogs / cells permutes the float64
terms a statistic adds and may change the bracketing (`numpy.sum` adds pairwise in blocks, `sum()` and `cumsum`
sequentially); for EVERY pair of bracketings of permuted terms the two float results differ by at most
`((1+u)^d + (1+u)^d' − 2) · Σ|xᵢ|`, `u = 2^-53`, `d, d'` the depths (≤ number of terms; ≈ log₂ n + 8 for `numpy.sum`),
i.e. by `(d + d')·2^-52·Σ|xᵢ|` for up to 2^52 terms. The bound is relative to Σ|xᵢ|, not to the result: with cancellation
(log-likelihood terms of both signs) this is what "to rounding" can mean, and no more.
Sums of COUNTS (integer-valued floats, total below 2^53) are exact in every order — `float_sum_integers_exact` — which is
why gridded counts and simulated catalogs are bit-identical under re-ordering even though they are float64 arrays.
Overflow is not modelled (Soft64 has no infinity); subnormal results are covered (addition is exact there).
-/
namespace FloatSum
open Soft64 STree

/-- **error of one bracketing** against the exact sum of its terms -/
theorem float_sum_bracketing_error (t : STree) (h : t.AllF64) :
    |t.evalF - t.leaves.sum| ≤ ((1 + u) ^ t.depth - 1) * absSum t.leaves := evalF_err t h

/-- **any two orders, any two bracketings**: float64 terms that are a permutation of each other, summed in two ways -/
theorem float_sum_any_order_close (t t' : STree) (h : t.AllF64) (hp : t.leaves.Perm t'.leaves) :
    |t.evalF - t'.evalF| ≤ ((1 + u) ^ t.depth + (1 + u) ^ t'.depth - 2) * absSum t.leaves := by
  have h' : t'.AllF64 := fun x hx => h x (hp.mem_iff.mpr hx)
  have e1 := evalF_err t h
  have e2 := evalF_err t' h'
  rw [← absSum_perm hp, ← hp.sum_eq] at e2
  have : t.evalF - t'.evalF = (t.evalF - t.leaves.sum) - (t'.evalF - t.leaves.sum) := by ring
  rw [this]
  have := abs_sub (t.evalF - t.leaves.sum) (t'.evalF - t.leaves.sum)
  nlinarith [absSum_nonneg t.leaves]

/-- `(1+u)^n − 1 ≤ 2·n·u` for up to 2^52 additions in a row -/
theorem pow_bound (n : ℕ) (hn : n ≤ 2 ^ 52) : (1 + u) ^ n - 1 ≤ 2 * n * u := by
  have hu : u = 1 / 2 ^ 53 := by unfold u; rw [pow2_eq_zpow]; norm_num [zpow_neg]
  induction n with
  | zero => simp
  | succ k ih =>
    have hk : (k : ℚ) ≤ 2 ^ 52 := by exact_mod_cast (by omega : k ≤ 2 ^ 52)
    have ih' := ih (by omega)
    have h2 : 2 * (k : ℚ) * u ≤ 1 := by rw [hu]; norm_num; linarith
    have hup : 0 < u := u_pos
    rw [pow_succ]
    push_cast
    nlinarith

/-- the explicit form: up to 2^52 additions deep, two bracketings of permuted terms agree to `(d + d')·2^-52·Σ|x|` -/
theorem float_sum_any_order_close_explicit (t t' : STree) (h : t.AllF64) (hp : t.leaves.Perm t'.leaves)
    (hd : t.depth ≤ 2 ^ 52) (hd' : t'.depth ≤ 2 ^ 52) :
    |t.evalF - t'.evalF| ≤ ((t.depth + t'.depth : ℕ) : ℚ) * (2 * u) * absSum t.leaves := by
  have := float_sum_any_order_close t t' h hp
  have b1 := pow_bound _ hd
  have b2 := pow_bound _ hd'
  have hA := absSum_nonneg t.leaves
  push_cast
  nlinarith

/-- **sequential sums of permuted terms** (Python `sum(...)` of binomial_evaluations.py:103, `cumsum[-1]`) -/
theorem seq_sum_perm_close (xs ys : List ℚ) (h : ∀ x ∈ xs, IsF64 x) (hp : xs.Perm ys) :
    |seqSum xs - seqSum ys| ≤ 2 * ((1 + u) ^ xs.length - 1) * absSum xs := by
  have hz : IsF64 (0 : ℚ) := fl64_zero
  have hx : (comb (.leaf 0) xs).AllF64 := by
    intro x hx; rw [comb_leaves] at hx
    simp only [leaves, List.cons_append, List.nil_append, List.mem_cons] at hx
    rcases hx with rfl | hx
    · exact hz
    · exact h x hx
  have hpp : (comb (.leaf 0) xs).leaves.Perm (comb (.leaf 0) ys).leaves := by
    rw [comb_leaves, comb_leaves]; exact List.Perm.append_left _ hp
  have := float_sum_any_order_close _ _ hx hpp
  rw [comb_evalF, comb_evalF] at this
  have hA : absSum (comb (.leaf 0) xs).leaves = absSum xs := by
    rw [comb_leaves]; simp [leaves, absSum, fabs]
  rw [hA] at this
  have d1 := comb_depth (.leaf 0) xs
  have d2 := comb_depth (.leaf 0) ys
  simp only [depth, Nat.zero_add] at d1 d2
  rw [← hp.length_eq] at d2
  have h1u : (1 : ℚ) ≤ 1 + u := by linarith [u_pos]
  have p1 := pow_le_pow_right₀ h1u d1
  have p2 := pow_le_pow_right₀ h1u d2
  have hAn := absSum_nonneg xs
  simp only [seqSum, evalF] at *
  nlinarith

/-- **sums of counts are exact in every order and bracketing**: integer-valued terms with Σ|x| < 2^53 -/
theorem float_sum_integers_exact : ∀ (t : STree), (∀ x ∈ t.leaves, ∃ n : ℤ, x = n) → absSum t.leaves < 2 ^ 53 →
    t.evalF = t.leaves.sum ∧ ∃ n : ℤ, t.leaves.sum = n
  | leaf x, h, _ => by
    obtain ⟨n, hn⟩ := h x (by simp [leaves])
    exact ⟨by simp [evalF, leaves], n, by simp [leaves, hn]⟩
  | node l r, h, hb => by
    have hA := absSum_nonneg l.leaves
    have hB := absSum_nonneg r.leaves
    rw [leaves, absSum_append] at hb
    obtain ⟨el, nl, hl⟩ := float_sum_integers_exact l (fun x hx => h x (by simp [leaves, hx])) (by linarith)
    obtain ⟨er, nr, hr⟩ := float_sum_integers_exact r (fun x hx => h x (by simp [leaves, hx])) (by linarith)
    have hsl := abs_sum_le_absSum l.leaves
    have hsr := abs_sum_le_absSum r.leaves
    have hlt : |((nl + nr : ℤ) : ℚ)| < 2 ^ 53 := by
      push_cast; rw [← hl, ← hr]
      exact lt_of_le_of_lt (abs_add_le _ _) (by linarith)
    have hlt' : |nl + nr| < 2 ^ 53 := by
      rw [← Int.cast_abs] at hlt; exact_mod_cast hlt
    refine ⟨?_, nl + nr, by simp [leaves, hl, hr]⟩
    simp only [evalF, leaves, List.sum_append]
    rw [el, er, hl, hr, fadd_int nl nr hlt']
    push_cast; ring

/-- hence two bracketings of permuted counts give the SAME float -/
theorem float_sum_integers_any_order (t t' : STree) (h : ∀ x ∈ t.leaves, ∃ n : ℤ, x = n) (hb : absSum t.leaves < 2 ^ 53)
    (hp : t.leaves.Perm t'.leaves) : t.evalF = t'.evalF := by
  rw [(float_sum_integers_exact t h hb).1,
    (float_sum_integers_exact t' (fun x hx => h x (hp.mem_iff.mpr hx)) (by rw [← absSum_perm hp]; exact hb)).1, hp.sum_eq]

/-! ### `numpy.sum` itself: `pairwiseSum` is a bracketing of its terms (the single validated statement left is
"numpy.sum of a contiguous float64 array = `pairwiseSum`", compared bit for bit on every run) -/

/-- **numpy's pairwise sum is the float value of a bracketing whose leaves are its terms** (plus zeros), `≤ 25 + levels` deep -/
theorem numpy_sum_is_bracketing (fuel : ℕ) (xs : List ℚ) :
    ∃ t : STree, t.evalF = pairwiseSum fuel xs ∧ (∃ m : ℕ, t.leaves.Perm (List.replicate m 0 ++ xs)) ∧
      (∀ f, fuel = f + 1 → xs.length ≤ 112 * 2 ^ f + 16 → t.depth ≤ 25 + f) :=
  ⟨pwTree fuel xs, pwTree_evalF fuel xs, pwTree_leaves fuel xs, fun f hf hl => by subst hf; exact pwTree_depth f xs hl⟩

/-- **error of `numpy.sum`** against the exact sum of its float64 terms -/
theorem numpy_sum_error (fuel : ℕ) (xs : List ℚ) (h : ∀ x ∈ xs, IsF64 x) :
    |pairwiseSum fuel xs - xs.sum| ≤ ((1 + u) ^ (pwTree fuel xs).depth - 1) * absSum xs := by
  obtain ⟨m, hp⟩ := pwTree_leaves fuel xs
  have hall : (pwTree fuel xs).AllF64 := by
    intro x hx
    rcases List.mem_append.mp (hp.mem_iff.mp hx) with h0 | h1
    · rw [(List.mem_replicate.mp h0).2]; exact fl64_zero
    · exact h x h1
  have := evalF_err (pwTree fuel xs) hall
  rwa [pwTree_evalF, hp.sum_eq, sum_zeros, absSum_perm hp, absSum_zeros] at this

/-- **`numpy.sum` of permuted terms** (re-ordered events / catalogs / cells): the two results differ by at most
    `((1+u)^d + (1+u)^d' − 2)·Σ|x|` with `d, d' ≤ 25 + levels` -/
theorem numpy_sum_perm_close (fuel fuel' : ℕ) (xs ys : List ℚ) (h : ∀ x ∈ xs, IsF64 x) (hp : xs.Perm ys) :
    |pairwiseSum fuel xs - pairwiseSum fuel' ys| ≤
      ((1 + u) ^ (pwTree fuel xs).depth + (1 + u) ^ (pwTree fuel' ys).depth - 2) * absSum xs := by
  have e1 := numpy_sum_error fuel xs h
  have e2 := numpy_sum_error fuel' ys (fun y hy => h y (hp.mem_iff.mpr hy))
  rw [← absSum_perm hp, ← hp.sum_eq] at e2
  have : pairwiseSum fuel xs - pairwiseSum fuel' ys = (pairwiseSum fuel xs - xs.sum) - (pairwiseSum fuel' ys - xs.sum) := by ring
  rw [this]
  have := abs_sub (pairwiseSum fuel xs - xs.sum) (pairwiseSum fuel' ys - xs.sum)
  nlinarith [absSum_nonneg xs]

/-- explicit: arrays of up to `112·2^f + 16` terms (f = 9: 57 360 terms; f = 16: 7.3 million) summed by `numpy.sum` in two
    storage orders agree to `(25 + f)·2^-51·Σ|x|` -/
theorem numpy_sum_perm_close_explicit (f : ℕ) (xs ys : List ℚ) (h : ∀ x ∈ xs, IsF64 x) (hp : xs.Perm ys)
    (hl : xs.length ≤ 112 * 2 ^ f + 16) (hf : 25 + f ≤ 2 ^ 52) :
    |pairwiseSum (f + 1) xs - pairwiseSum (f + 1) ys| ≤ ((25 + f : ℕ) : ℚ) * (4 * u) * absSum xs := by
  have := numpy_sum_perm_close (f + 1) (f + 1) xs ys h hp
  have d1 := pwTree_depth f xs hl
  have d2 := pwTree_depth f ys (by rw [← hp.length_eq]; exact hl)
  have h1u : (1 : ℚ) ≤ 1 + u := by linarith [u_pos]
  have p1 := pow_le_pow_right₀ h1u d1
  have p2 := pow_le_pow_right₀ h1u d2
  have b := pow_bound (25 + f) hf
  have hA := absSum_nonneg xs
  have hc : (1 + u) ^ (pwTree (f + 1) xs).depth + (1 + u) ^ (pwTree (f + 1) ys).depth - 2 ≤ ((25 + f : ℕ) : ℚ) * (4 * u) := by
    linarith
  exact le_trans this (mul_le_mul_of_nonneg_right hc hA)

/-- sums of counts by `numpy.sum`: exact, hence identical for every storage order -/
theorem numpy_sum_integers_exact (fuel : ℕ) (xs : List ℚ) (h : ∀ x ∈ xs, ∃ n : ℤ, x = n) (hb : absSum xs < 2 ^ 53) :
    pairwiseSum fuel xs = xs.sum := by
  obtain ⟨m, hp⟩ := pwTree_leaves fuel xs
  have hint : ∀ x ∈ (pwTree fuel xs).leaves, ∃ n : ℤ, x = n := by
    intro x hx
    rcases List.mem_append.mp (hp.mem_iff.mp hx) with h0 | h1
    · exact ⟨0, by rw [(List.mem_replicate.mp h0).2]; simp⟩
    · exact h x h1
  have := (float_sum_integers_exact (pwTree fuel xs) hint (by rw [absSum_perm hp, absSum_zeros]; exact hb)).1
  rwa [pwTree_evalF, hp.sum_eq, sum_zeros] at this

/-! ### non-vacuity (kernel-evaluated on Soft64) -/

-- 0.1 + 0.2 + 0.3 in the two bracketings: the float results differ (0.6000000000000001 and 0.6) …
example : (node (node (leaf (fl64 (1/10))) (leaf (fl64 (2/10)))) (leaf (fl64 (3/10)))).evalF ≠
    (node (leaf (fl64 (1/10))) (node (leaf (fl64 (2/10))) (leaf (fl64 (3/10))))).evalF := by decide +kernel
-- … by one unit in the last place, inside the bound (4u·Σ|x| ≈ 2.7e-16)
example : |(node (node (leaf (fl64 (1/10))) (leaf (fl64 (2/10)))) (leaf (fl64 (3/10)))).evalF -
    (node (leaf (fl64 (1/10))) (node (leaf (fl64 (2/10))) (leaf (fl64 (3/10))))).evalF| = 1 / 2 ^ 53 := by decide +kernel
example : (node (node (leaf (fl64 (1/10))) (leaf (fl64 (2/10)))) (leaf (fl64 (3/10)))).AllF64 := by
  intro x hx
  simp only [leaves, List.cons_append, List.nil_append, List.mem_cons, List.not_mem_nil, or_false] at hx
  rcases hx with rfl | rfl | rfl <;> exact isF64_fl64 _
example : seqSum [3, 1, 2] = 6 ∧ pairwiseSum 8 [3, 1, 2] = 6 := by decide +kernel
-- nine terms: the eight-accumulator branch; 1..9 sum to 45 exactly, in this and in the reversed order
example : pairwiseSum 8 [1, 2, 3, 4, 5, 6, 7, 8, 9] = 45 ∧ pairwiseSum 8 [9, 8, 7, 6, 5, 4, 3, 2, 1] = 45 := by decide +kernel
example : (pwTree 8 [1, 2, 3, 4, 5, 6, 7, 8, 9]).depth = 4 := by decide +kernel

end FloatSum
