import PycsepVerif.Proofs.FloatSum

/-!
# C20 — "unchanged (to rounding)": float sums in ANY order and ANY bracketing agree up to a proved bound

`Properties/C20.lean` / `C20_Concrete.lean` prove the permutation invariance of the statistics over ℝ and say that
"the ORDER OF FLOAT SUMMATION IS OUTSIDE these theorems". This file closes that gap on the Soft64 layer (binary64
round-to-nearest-even, the arithmetic numpy runs): re-ordering events / synthetic catalogs / cells permutes the float64
terms a statistic adds and may change the bracketing (`numpy.sum` adds pairwise in blocks, `sum()` and `cumsum`
sequentially); for EVERY pair of bracketings of permuted terms the two float results differ by at most
`((1+u)^d + (1+u)^d' − 2) · Σ|xᵢ|`, `u = 2^-53`, `d, d'` the depths (≤ number of terms; ≈ log₂ n + 8 for `numpy.sum`),
i.e. by `(d + d')·2^-52·Σ|xᵢ|` for up to 2^52 terms. The bound is relative to Σ|xᵢ|, not to the result: with cancellation
(log-likelihood terms of both signs) this is what "to rounding" can mean, and no more.
Sums of COUNTS (integer-valued floats, total below 2^53) are exact in every order — `float_sum_integers_exact` — which is
why gridded counts and simulated catalogs are bit-identical under re-ordering even though they are float64 arrays.
Overflow is not modelled (Soft64 has no infinity); subnormal results are covered (addition is exact there).
-/
namespace FloatSum
open Soft64 STree

/-- **error of one bracketing** against the exact sum of its terms -/
theorem float_sum_bracketing_error (t : STree) (h : t.AllF64) :
    |t.evalF - t.leaves.sum| ≤ ((1 + u) ^ t.depth - 1) * absSum t.leaves := evalF_err t h

/-- **any two orders, any two bracketings**: float64 terms that are a permutation of each other, summed in two ways -/
theorem float_sum_any_order_close (t t' : STree) (h : t.AllF64) (hp : t.leaves.Perm t'.leaves) :
    |t.evalF - t'.evalF| ≤ ((1 + u) ^ t.depth + (1 + u) ^ t'.depth - 2) * absSum t.leaves := by
  have h' : t'.AllF64 := fun x hx => h x (hp.mem_iff.mpr hx)
  have e1 := evalF_err t h
  have e2 := evalF_err t' h'
  rw [← absSum_perm hp, ← hp.sum_eq] at e2
  have : t.evalF - t'.evalF = (t.evalF - t.leaves.sum) - (t'.evalF - t.leaves.sum) := by ring
  rw [this]
  have := abs_sub (t.evalF - t.leaves.sum) (t'.evalF - t.leaves.sum)
  nlinarith [absSum_nonneg t.leaves]

/-- `(1+u)^n − 1 ≤ 2·n·u` for up to 2^52 additions in a row -/
theorem pow_bound (n : ℕ) (hn : n ≤ 2 ^ 52) : (1 + u) ^ n - 1 ≤ 2 * n * u := by
  have hu : u = 1 / 2 ^ 53 := by unfold u; rw [pow2_eq_zpow]; norm_num [zpow_neg]
  induction n with
  | zero => simp
  | succ k ih =>
    have hk : (k : ℚ) ≤ 2 ^ 52 := by exact_mod_cast (by omega : k ≤ 2 ^ 52)
    have ih' := ih (by omega)
    have h2 : 2 * (k : ℚ) * u ≤ 1 := by rw [hu]; norm_num; linarith
    have hup : 0 < u := u_pos
    rw [pow_succ]
    push_cast
    nlinarith

/-- the explicit form: up to 2^52 additions deep, two bracketings of permuted terms agree to `(d + d')·2^-52·Σ|x|` -/
theorem float_sum_any_order_close_explicit (t t' : STree) (h : t.AllF64) (hp : t.leaves.Perm t'.leaves)
    (hd : t.depth ≤ 2 ^ 52) (hd' : t'.depth ≤ 2 ^ 52) :
    |t.evalF - t'.evalF| ≤ ((t.depth + t'.depth : ℕ) : ℚ) * (2 * u) * absSum t.leaves := by
  have := float_sum_any_order_close t t' h hp
  have b1 := pow_bound _ hd
  have b2 := pow_bound _ hd'
  have hA := absSum_nonneg t.leaves
  push_cast
  nlinarith

/-- **sequential sums of permuted terms** (Python `sum(...)` of binomial_evaluations.py:103, `cumsum[-1]`) -/
theorem seq_sum_perm_close (xs ys : List ℚ) (h : ∀ x ∈ xs, IsF64 x) (hp : xs.Perm ys) :
    |seqSum xs - seqSum ys| ≤ 2 * ((1 + u) ^ xs.length - 1) * absSum xs := by
  have hz : IsF64 (0 : ℚ) := fl64_zero
  have hx : (comb (.leaf 0) xs).AllF64 := by
    intro x hx; rw [comb_leaves] at hx
    simp only [leaves, List.cons_append, List.nil_append, List.mem_cons] at hx
    rcases hx with rfl | hx
    · exact hz
    · exact h x hx
  have hpp : (comb (.leaf 0) xs).leaves.Perm (comb (.leaf 0) ys).leaves := by
    rw [comb_leaves, comb_leaves]; exact List.Perm.append_left _ hp
  have := float_sum_any_order_close _ _ hx hpp
  rw [comb_evalF, comb_evalF] at this
  have hA : absSum (comb (.leaf 0) xs).leaves = absSum xs := by
    rw [comb_leaves]; simp [leaves, absSum, fabs]
  rw [hA] at this
  have d1 := comb_depth (.leaf 0) xs
  have d2 := comb_depth (.leaf 0) ys
  simp only [depth, Nat.zero_add] at d1 d2
  rw [← hp.length_eq] at d2
  have h1u : (1 : ℚ) ≤ 1 + u := by linarith [u_pos]
  have p1 := pow_le_pow_right₀ h1u d1
  have p2 := pow_le_pow_right₀ h1u d2
  have hAn := absSum_nonneg xs
  simp only [seqSum, evalF] at *
  nlinarith

/-- **sums of counts are exact in every order and bracketing**: integer-valued terms with Σ|x| < 2^53 -/
theorem float_sum_integers_exact : ∀ (t : STree), (∀ x ∈ t.leaves, ∃ n : ℤ, x = n) → absSum t.leaves < 2 ^ 53 →
    t.evalF = t.leaves.sum ∧ ∃ n : ℤ, t.leaves.sum = n
  | leaf x, h, _ => by
    obtain ⟨n, hn⟩ := h x (by simp [leaves])
    exact ⟨by simp [evalF, leaves], n, by simp [leaves, hn]⟩
  | node l r, h, hb => by
    have hA := absSum_nonneg l.leaves
    have hB := absSum_nonneg r.leaves
    rw [leaves, absSum_append] at hb
    obtain ⟨el, nl, hl⟩ := float_sum_integers_exact l (fun x hx => h x (by simp [leaves, hx])) (by linarith)
    obtain ⟨er, nr, hr⟩ := float_sum_integers_exact r (fun x hx => h x (by simp [leaves, hx])) (by linarith)
    have hsl := abs_sum_le_absSum l.leaves
    have hsr := abs_sum_le_absSum r.leaves
    have hlt : |((nl + nr : ℤ) : ℚ)| < 2 ^ 53 := by
      push_cast; rw [← hl, ← hr]
      exact lt_of_le_of_lt (abs_add_le _ _) (by linarith)
    have hlt' : |nl + nr| < 2 ^ 53 := by
      rw [← Int.cast_abs] at hlt; exact_mod_cast hlt
    refine ⟨?_, nl + nr, by simp [leaves, hl, hr]⟩
    simp only [evalF, leaves, List.sum_append]
    rw [el, er, hl, hr, fadd_int nl nr hlt']
    push_cast; ring

/-- hence two bracketings of permuted counts give the SAME float -/
theorem float_sum_integers_any_order (t t' : STree) (h : ∀ x ∈ t.leaves, ∃ n : ℤ, x = n) (hb : absSum t.leaves < 2 ^ 53)
    (hp : t.leaves.Perm t'.leaves) : t.evalF = t'.evalF := by
  rw [(float_sum_integers_exact t h hb).1,
    (float_sum_integers_exact t' (fun x hx => h x (hp.mem_iff.mpr hx)) (by rw [← absSum_perm hp]; exact hb)).1, hp.sum_eq]

/-! ### non-vacuity (kernel-evaluated on Soft64) -/

-- 0.1 + 0.2 + 0.3 in the two bracketings: the float results differ (0.6000000000000001 and 0.6) …
example : (node (node (leaf (fl64 (1/10))) (leaf (fl64 (2/10)))) (leaf (fl64 (3/10)))).evalF ≠
    (node (leaf (fl64 (1/10))) (node (leaf (fl64 (2/10))) (leaf (fl64 (3/10))))).evalF := by decide +kernel
-- … by one unit in the last place, inside the bound (4u·Σ|x| ≈ 2.7e-16)
example : |(node (node (leaf (fl64 (1/10))) (leaf (fl64 (2/10)))) (leaf (fl64 (3/10)))).evalF -
    (node (leaf (fl64 (1/10))) (node (leaf (fl64 (2/10))) (leaf (fl64 (3/10))))).evalF| = 1 / 2 ^ 53 := by decide +kernel
example : (node (node (leaf (fl64 (1/10))) (leaf (fl64 (2/10)))) (leaf (fl64 (3/10)))).AllF64 := by
  intro x hx
  simp only [leaves, List.cons_append, List.nil_append, List.mem_cons, List.not_mem_nil, or_false] at hx
  rcases hx with rfl | rfl | rfl <;> exact isF64_fl64 _
example : seqSum [3, 1, 2] = 6 ∧ pairwiseSum 8 [3, 1, 2] = 6 := by decide +kernel

end FloatSum
