import PycsepVerif.Proofs.EcdfNumpy
import PycsepVerif.Properties.C09
import PycsepVerif.Proofs.Soft64

/-!
# C09 — second layer: numpy's comparison domains, the returned floats, `sup_dist_na`, `min/max_or_none`

Theorems about `Model/EcdfNumpy.lean`: the code of `greater_equal_ecdf` / `less_equal_ecdf` with numpy's type promotion
made explicit (`sc` = conversion applied by the two short-circuit comparisons, `se` = conversion applied by
`numpy.searchsorted` to the sorted sample and the query).

* with sample and query in ONE common dtype (both conversions are the identity on the values involved) the
  promotion-aware model IS the exact model, so `ge_ecdf_eq` / `le_ecdf_eq` apply (`np_exact_common_dtype`);
* when the search domain is a lossy float (int64 × uint64 → float64: known finding D35) the result is the exact count
  PLUS the number of sample values that the conversion makes collide with the query — never less, and exact iff nothing
  collides (`np_ge_lossy_search`, `np_le_lossy_search`, `np_injective_exact`);
* kernel-checked witnesses of D35 and D36 on this faithful model (`finding_D35_*`, `finding_D36_*`);
* the float returned for `(k, n)` is monotone in `k`, exactly 1 for `k = n` and 0 for `k = 0`, so "each is monotone in v"
  also holds for the floats (`ge_float_anti`, `le_float_mono`);
* `min_or_none` / `max_or_none` and `sup_dist_na` meet their specifications.
-/
namespace Ecdf
open Soft64

/-! ## one common dtype: the promotion-aware model is the exact model -/

/-- C09, D35/D36 turned around: if the conversions numpy applies leave the query and every sample value unchanged
    (sample and query live in one common dtype that holds them all), then the library code returns exactly the counting
    probabilities — no IndexError, no wrap-around. -/
theorem np_exact_common_dtype (sc se : Rat → Rat) (x : List Rat) (v : Rat) (hx : x ≠ [])
    (hse : ∀ t ∈ x, se t = t) (hsev : se v = v) (hsc : ∀ t ∈ x, sc t = t) (hscv : sc v = v) :
    geEcdfNp sc se x v = some (.prob (cntGE x v) x.length) ∧
    leEcdfNp sc se x v = some (.prob (cntLE x v) x.length) := by
  obtain ⟨e0, last, hhead, hlast, he0, hlastm, hmin, hmax⟩ := sort_head_last hx
  have hlen : (sort x).length = x.length := (sort_perm x).length_eq
  have hmap : (sort x).map se = sort x := by
    rw [List.map_congr_left (g := id)]
    · simp
    · intro a ha; exact hse a ((sort_perm x).mem_iff.mp ha)
  have hge := ge_ecdf_eq x v hx
  have hle := le_ecdf_eq x v hx
  unfold geEcdf at hge
  unfold leEcdf at hle
  simp only [hhead, hlast, hlen] at hge hle
  unfold geEcdfNp leEcdfNp geSortedNp leSortedNp
  simp only [hhead, hlast, hlen, hmap, hsev, hscv, hsc last hlastm, hsc e0 he0]
  constructor
  · split
    · rename_i h; rw [if_pos h] at hge; injection hge with hge; injection hge with h1 h2; rw [← h1]
    · rename_i h; rw [if_neg h] at hge
      split
      · rename_i h'; rw [if_pos h'] at hge; injection hge with hge; injection hge with h1 h2; rw [← h1]
      · rename_i h'; rw [if_neg h'] at hge
        have hlt : searchLeft (sort x) v < x.length := by
          rw [searchLeft_sort]
          exact countP_lt_length_of_mem hlastm (by simpa using Rat.not_lt.mp h)
        rw [if_pos hlt]
        injection hge with hge; injection hge with h1 h2
        rw [← h1]
  · split
    · rename_i h; rw [if_pos h] at hle; injection hle with hle; injection hle with h1 h2; rw [← h1]
    · rename_i h; rw [if_neg h] at hle
      split
      · rename_i h'; rw [if_pos h'] at hle; injection hle with hle; injection hle with h1 h2; rw [← h1]
      · rename_i h'; rw [if_neg h'] at hle
        have hpos : searchRight (sort x) v ≠ 0 := by
          rw [searchRight_sort]
          have : 0 < x.countP (fun a => decide (a ≤ v)) :=
            List.countP_pos_iff.mpr ⟨e0, he0, by simpa using Rat.not_lt.mp h'⟩
          omega
        rw [if_neg hpos]
        injection hle with hle; injection hle with h1 h2
        have : searchRight (sort x) v = cntLE x v := by omega
        rw [this]

-- non-vacuity: an int64 sample beyond 2^53 with an int64 query: both conversions are the identity
example : geEcdfNp id id [9007199254740992, 9007199254740993, 9007199254740994] 9007199254740993 =
    some (.prob 2 3) := by
  rw [(np_exact_common_dtype id id _ _ (by simp) (by simp) rfl (by simp) rfl).1]; decide +kernel

/-! ## a lossy search domain (D35): exact count + collisions -/

/-- C09 / D35 characterised, "at least": the short-circuits compare exactly (`sc = id`: two numpy integers, or a Python
    int against an integer sample), `numpy.searchsorted` converts sample and query with a monotone `se` (rounding to
    float64).  For a query inside the range of the sample the library returns
    (#{xᵢ ≥ v} + #{xᵢ < v with se xᵢ = se v}) / n : the exact count plus the sample values below the query that the
    conversion makes collide with it. -/
theorem np_ge_lossy_search (se : Rat → Rat) (hf : Mono se) (x : List Rat) (v : Rat)
    (hlo : ∃ a ∈ x, a ≤ v) (hhi : ∃ b ∈ x, v ≤ b) :
    geEcdfNp id se x v = some (.prob (cntGE x v + collBelow se x v) x.length) := by
  have hx : x ≠ [] := by obtain ⟨a, ha, _⟩ := hlo; exact List.ne_nil_of_mem ha
  obtain ⟨e0, last, hhead, hlast, he0, hlastm, hmin, hmax⟩ := sort_head_last hx
  have hlen : (sort x).length = x.length := (sort_perm x).length_eq
  obtain ⟨a, ha, hav⟩ := hlo
  obtain ⟨b, hb, hvb⟩ := hhi
  unfold geEcdfNp geSortedNp
  simp only [hhead, hlast, hlen, id]
  rw [if_neg (Rat.not_lt.mpr (Rat.le_trans hvb (hmax b hb))), if_neg (Rat.not_lt.mpr (Rat.le_trans (hmin a ha) hav))]
  rw [searchLeft_map_sort hf]
  have hsplit : x.countP (fun a => decide (se v ≤ se a)) + x.countP (fun a => decide (se a < se v)) = x.length := by
    have := countP_ge_add_lt (x.map se) (se v)
    simpa [List.countP_map, Function.comp_def] using this
  have hconv := countP_ge_conv hf x v
  have hpos : 0 < x.countP (fun a => decide (se v ≤ se a)) :=
    List.countP_pos_iff.mpr ⟨b, hb, by simpa using hf _ _ hvb⟩
  rw [if_pos (by omega)]
  unfold cntGE
  congr 2; omega

/-- C09 / D35 characterised, "at most": (#{xᵢ ≤ v} + #{xᵢ > v with se xᵢ = se v}) / n. -/
theorem np_le_lossy_search (se : Rat → Rat) (hf : Mono se) (x : List Rat) (v : Rat)
    (hlo : ∃ a ∈ x, a ≤ v) (hhi : ∃ b ∈ x, v ≤ b) :
    leEcdfNp id se x v = some (.prob (cntLE x v + collAbove se x v) x.length) := by
  have hx : x ≠ [] := by obtain ⟨a, ha, _⟩ := hlo; exact List.ne_nil_of_mem ha
  obtain ⟨e0, last, hhead, hlast, he0, hlastm, hmin, hmax⟩ := sort_head_last hx
  have hlen : (sort x).length = x.length := (sort_perm x).length_eq
  obtain ⟨a, ha, hav⟩ := hlo
  obtain ⟨b, hb, hvb⟩ := hhi
  unfold leEcdfNp leSortedNp
  simp only [hhead, hlast, hlen, id]
  rw [if_neg (Rat.not_lt.mpr (Rat.le_trans hvb (hmax b hb))), if_neg (Rat.not_lt.mpr (Rat.le_trans (hmin a ha) hav))]
  rw [searchRight_map_sort hf]
  have hconv := countP_le_conv hf x v
  have hpos : 0 < x.countP (fun a => decide (se a ≤ se v)) :=
    List.countP_pos_iff.mpr ⟨a, ha, by simpa using hf _ _ hav⟩
  rw [if_neg (by omega)]
  unfold cntLE
  congr 2

/-- outside the range of the sample the exact short-circuits answer, and they are right whatever the search domain -/
theorem np_out_of_range_exact (se : Rat → Rat) (x : List Rat) (v : Rat) (hx : x ≠ [])
    (h : (∀ a ∈ x, a < v) ∨ (∀ a ∈ x, v < a)) :
    geEcdfNp id se x v = some (.prob (cntGE x v) x.length) ∧
    leEcdfNp id se x v = some (.prob (cntLE x v) x.length) := by
  obtain ⟨e0, last, hhead, hlast, he0, hlastm, hmin, hmax⟩ := sort_head_last hx
  have hlen : (sort x).length = x.length := (sort_perm x).length_eq
  unfold geEcdfNp leEcdfNp geSortedNp leSortedNp
  simp only [hhead, hlast, hlen, id]
  rcases h with h | h
  · rw [if_pos (h last hlastm), if_pos (h last hlastm), (above_all x v h).1, (above_all x v h).2]
    exact ⟨rfl, rfl⟩
  · have hnot : ¬ v > last := Rat.not_lt.mpr (Rat.le_of_lt (h last hlastm))
    rw [if_neg hnot, if_pos (h e0 he0), if_neg hnot, if_pos (h e0 he0), (below_all x v h).1, (below_all x v h).2]
    exact ⟨rfl, rfl⟩

/-- … hence a search domain that keeps the sample values and the query DISTINCT (injective on them) gives the exact
    probabilities for every query: promotion only hurts through collisions. -/
theorem np_injective_exact (se : Rat → Rat) (hf : Mono se) (x : List Rat) (v : Rat) (hx : x ≠ [])
    (hinj : ∀ a ∈ x, se a = se v → a = v) :
    geEcdfNp id se x v = some (.prob (cntGE x v) x.length) ∧
    leEcdfNp id se x v = some (.prob (cntLE x v) x.length) := by
  by_cases hlo : ∃ a ∈ x, a ≤ v
  · by_cases hhi : ∃ b ∈ x, v ≤ b
    · have h1 : collBelow se x v = 0 := by
        unfold collBelow; rw [List.countP_eq_zero]
        intro a ha; simp only [decide_eq_true_eq, not_and]
        intro hlt heq; exact absurd (hinj a ha heq) (Rat.ne_of_lt hlt)
      have h2 : collAbove se x v = 0 := by
        unfold collAbove; rw [List.countP_eq_zero]
        intro a ha; simp only [decide_eq_true_eq, not_and]
        intro hlt heq; exact absurd (hinj a ha heq).symm (Rat.ne_of_lt hlt)
      rw [np_ge_lossy_search se hf x v hlo hhi, np_le_lossy_search se hf x v hlo hhi, h1, h2]
      exact ⟨rfl, rfl⟩
    · exact np_out_of_range_exact se x v hx (Or.inl fun a ha =>
        Rat.not_le.mp fun h => hhi ⟨a, ha, h⟩)
  · exact np_out_of_range_exact se x v hx (Or.inr fun a ha =>
      Rat.not_le.mp fun h => hlo ⟨a, ha, h⟩)

/-- rounding to binary64 is such a monotone conversion -/
theorem fl64_is_mono : Mono fl64 := fun _ _ h => fl64_mono h

/-! ## kernel-checked witnesses of the two known findings on the faithful model -/

/-- **D35** (`integer-comparison-promoted-to-lossy-float`): a uint64 sample with a Python int query — integer
    short-circuits are exact, `searchsorted` runs in float64.  `less_equal_ecdf([2^53−1, 2^53, 2^53, 2^53+1, 2^53+3], 2^53)`
    is 4/5 on the model of the code, the exact probability is 3/5 (2^53+1 rounds to 2^53: one collision above). -/
theorem finding_D35_le :
    leEcdfNp id fl64 [9007199254740991, 9007199254740992, 9007199254740992, 9007199254740993, 9007199254740995]
      9007199254740992 = some (.prob 4 5) ∧
    leEcdf [9007199254740991, 9007199254740992, 9007199254740992, 9007199254740993, 9007199254740995]
      9007199254740992 = some (3, 5) := by
  constructor
  · unfold leEcdfNp; rw [sort_of_sorted (by decide +kernel)]; decide +kernel
  · rw [le_ecdf_eq _ _ (by simp)]; decide +kernel

/-- **D35**, "at least": `greater_equal_ecdf(…, 2^53+1)` is 4/5 on the model of the code, exactly 2/5. -/
theorem finding_D35_ge :
    geEcdfNp id fl64 [9007199254740991, 9007199254740992, 9007199254740992, 9007199254740993, 9007199254740995]
      9007199254740993 = some (.prob 4 5) ∧
    geEcdf [9007199254740991, 9007199254740992, 9007199254740992, 9007199254740993, 9007199254740995]
      9007199254740993 = some (2, 5) := by
  constructor
  · unfold geEcdfNp; rw [sort_of_sorted (by decide +kernel)]; decide +kernel
  · rw [ge_ecdf_eq _ _ (by simp)]; decide +kernel

/-- **D36** (`narrow-float-sample-weak-python-query`): float32 sample [0.1, 0.3, 0.3, 0.7], Python float query 0.1.
    The short-circuit `val < ex[0]` rounds the weak scalar to float32 (equal to ex[0], so it does not fire),
    `searchsorted` compares in float64 (0.1 < float32(0.1)): index 0 − 1 = −1 wraps to the last element, the library
    returns 1.0; exactly 0 of 4 sample values are ≤ 0.1. -/
theorem finding_D36_le_wraps :
    leEcdfNp fl32 id [13421773/134217728, 5033165/16777216, 5033165/16777216, 11744051/16777216]
      (3602879701896397/36028797018963968) = some (.prob 4 4) ∧
    leEcdf [13421773/134217728, 5033165/16777216, 5033165/16777216, 11744051/16777216]
      (3602879701896397/36028797018963968) = some (0, 4) := by
  constructor
  · unfold leEcdfNp; rw [sort_of_sorted (by decide +kernel)]; decide +kernel
  · rw [le_ecdf_eq _ _ (by simp)]; decide +kernel

/-- **D36**, "at least": the query is the float64 successor of float32(0.7); the short-circuit `val > ex[-1]` does not
    fire after rounding to float32, the float64 search returns n, `eyc[n]` is an IndexError; the exact answer is 0/4. -/
theorem finding_D36_ge_indexError :
    geEcdfNp fl32 id [13421773/134217728, 5033165/16777216, 5033165/16777216, 11744051/16777216]
      (11744051/16777216 + 1/9007199254740992) = some .indexError ∧
    geEcdf [13421773/134217728, 5033165/16777216, 5033165/16777216, 11744051/16777216]
      (11744051/16777216 + 1/9007199254740992) = some (0, 4) := by
  constructor
  · unfold geEcdfNp; rw [sort_of_sorted (by decide +kernel)]; decide +kernel
  · rw [ge_ecdf_eq _ _ (by simp)]; decide +kernel

/-! ## the floats that are returned -/

/-- the float returned for `(k, n)` is monotone in `k` (binary64 division rounds monotonically) -/
theorem prob_float_mono {k k' n : Nat} (hn : 0 < n) (h : k ≤ k') : probF k n ≤ probF k' n := by
  unfold probF
  apply fdiv_mono_left
  · exact_mod_cast hn
  · exact_mod_cast h

/-- probability `n/n` is returned as exactly 1.0, `0/n` as exactly 0.0, and every returned float lies in [0, 1] -/
theorem prob_float_bounds {k n : Nat} (hn : 0 < n) (hk : k ≤ n) :
    probF n n = 1 ∧ probF 0 n = 0 ∧ 0 ≤ probF k n ∧ probF k n ≤ 1 := by
  have h1 : probF n n = 1 := by
    unfold probF; apply fdiv_self; exact_mod_cast (Nat.pos_iff_ne_zero.mp hn)
  have h0 : probF 0 n = 0 := by unfold probF fdiv; simp [fl64_zero]
  refine ⟨h1, h0, ?_, ?_⟩
  · rw [← h0]; exact prob_float_mono hn (Nat.zero_le k)
  · rw [← h1]; exact prob_float_mono hn hk

/-- C09 "each is monotone in v", for the FLOATS the library returns: "at least" is non-increasing in v -/
theorem ge_float_anti (x : List Rat) (hx : x ≠ []) {v w : Rat} (h : v ≤ w) :
    probF (cntGE x w) x.length ≤ probF (cntGE x v) x.length :=
  prob_float_mono (List.length_pos_iff.mpr hx) (ge_anti x h)

/-- … and "at most" is non-decreasing in v -/
theorem le_float_mono (x : List Rat) (hx : x ≠ []) {v w : Rat} (h : v ≤ w) :
    probF (cntLE x v) x.length ≤ probF (cntLE x w) x.length :=
  prob_float_mono (List.length_pos_iff.mpr hx) (le_mono x h)

example : probF 2 3 ≤ probF 3 3 ∧ probF 3 3 = 1 :=
  ⟨prob_float_mono (by decide) (by decide), (prob_float_bounds (k := 3) (by decide) (by decide)).1⟩

/-! ## `min_or_none`, `max_or_none` -/

/-- `min_or_none(x)` is `None` exactly for the empty array; otherwise a member of x that is ≤ every member -/
theorem min_or_none_spec (x : List Rat) :
    (minOrNone x = none ↔ x = []) ∧ ∀ m, minOrNone x = some m → m ∈ x ∧ ∀ a ∈ x, m ≤ a := by
  cases x with
  | nil => simp [minOrNone]
  | cons a l =>
    refine ⟨by simp [minOrNone], ?_⟩
    intro m hm
    simp only [minOrNone, Option.some.injEq] at hm
    subst hm
    obtain ⟨h1, h2⟩ := foldl_min_le l a
    constructor
    · rcases foldl_min_mem l a with h | h
      · rw [h]; exact List.mem_cons_self
      · exact List.mem_cons_of_mem _ h
    · intro b hb
      rcases List.mem_cons.mp hb with rfl | hb'
      · exact h1
      · exact h2 b hb'

theorem max_or_none_spec (x : List Rat) :
    (maxOrNone x = none ↔ x = []) ∧ ∀ m, maxOrNone x = some m → m ∈ x ∧ ∀ a ∈ x, a ≤ m := by
  cases x with
  | nil => simp [maxOrNone]
  | cons a l =>
    refine ⟨by simp [maxOrNone], ?_⟩
    intro m hm
    simp only [maxOrNone, Option.some.injEq] at hm
    subst hm
    obtain ⟨h1, h2⟩ := foldl_max_ge l a
    constructor
    · rcases foldl_max_mem l a with h | h
      · rw [h]; exact List.mem_cons_self
      · exact List.mem_cons_of_mem _ h
    · intro b hb
      rcases List.mem_cons.mp hb with rfl | hb'
      · exact h1
      · exact h2 b hb'

/-- the link to the quantile functions: every sample value is ≥ the minimum and ≤ the maximum, so
    P(X ≥ min) = 1 and P(X ≤ max) = 1 -/
theorem extremes_have_probability_one (x : List Rat) (lo hi : Rat) (hlo : minOrNone x = some lo)
    (hhi : maxOrNone x = some hi) :
    geEcdf x lo = some (x.length, x.length) ∧ leEcdf x hi = some (x.length, x.length) := by
  have hx : x ≠ [] := by intro h; subst h; simp [minOrNone] at hlo
  have h1 := ((min_or_none_spec x).2 lo hlo).2
  have h2 := ((max_or_none_spec x).2 hi hhi).2
  rw [ge_ecdf_eq x lo hx, le_ecdf_eq x hi hx]
  constructor
  · congr 2; unfold cntGE; rw [List.countP_eq_length]; intro a ha; simpa using h1 a ha
  · congr 2; unfold cntLE; rw [List.countP_eq_length]; intro a ha; simpa using h2 a ha

example : minOrNone [3, 1, 2] = some 1 ∧ maxOrNone [3, 1, 2] = some 3 := by decide +kernel

/-! ## `sup_dist_na` -/

/-- the two-sample distance at one evaluation point, in terms of the C09 "at most" probabilities -/
def ksAt (d1 d2 : List Rat) (t : Rat) : Rat :=
  absR ((cntLE d1 t : Nat) / (d1.length : Nat) - (cntLE d2 t : Nat) / (d2.length : Nat))

/-- `sup_dist_na(data1, data2)` is the supremum over the pooled sample of |F₁(t) − F₂(t)| with
    F_i(t) = #{x ∈ data_i : x ≤ t} / n_i (the C09 "at most" probability): it bounds the distance at every pooled point,
    and it is attained at one of them. -/
theorem sup_dist_na_spec (d1 d2 : List Rat) :
    (∀ t ∈ d1 ++ d2, ksAt d1 d2 t ≤ supDistNa d1 d2) ∧
    (d1 ++ d2 ≠ [] → ∃ t ∈ d1 ++ d2, supDistNa d1 d2 = ksAt d1 d2 t) := by
  have hrew : supDistNa d1 d2 = maxL ((dataAll d1 d2).map (ksAt d1 d2)) := by
    unfold supDistNa ksAt cntLE
    congr 1
    apply List.map_congr_left
    intro t _
    rw [searchRight_sort, searchRight_sort]
  have hmem : ∀ t, t ∈ dataAll d1 d2 ↔ t ∈ d1 ++ d2 := by
    intro t
    simp only [dataAll, List.mem_append, (sort_perm d1).mem_iff, (sort_perm d2).mem_iff]
  constructor
  · intro t ht
    rw [hrew]
    exact maxL_ge _ _ (List.mem_map.mpr ⟨t, (hmem t).mpr ht, rfl⟩)
  · intro hne
    rw [hrew]
    rcases maxL_mem_or_zero ((dataAll d1 d2).map (ksAt d1 d2)) with h0 | hm
    · -- the maximum is 0: every entry is ≥ 0 and ≤ 0
      obtain ⟨t, ht⟩ := List.exists_mem_of_ne_nil _ hne
      refine ⟨t, ht, ?_⟩
      have hle : ksAt d1 d2 t ≤ 0 := by
        rw [← h0]; exact maxL_ge _ _ (List.mem_map.mpr ⟨t, (hmem t).mpr ht, rfl⟩)
      rw [h0]
      exact Rat.le_antisymm (absR_nonneg _) hle
    · obtain ⟨t, ht, heq⟩ := List.mem_map.mp hm
      exact ⟨t, (hmem t).mp ht, heq.symm⟩

example : supDistNa [1, 2] [2, 3] = 1 / 2 := by
  unfold supDistNa dataAll
  rw [sort_of_sorted (l := [1, 2]) (by decide +kernel), sort_of_sorted (l := [2, 3]) (by decide +kernel)]
  decide +kernel

end Ecdf
