import PycsepVerif.Model.CatalogStream
import PycsepVerif.Properties.C12
import PycsepVerif.Properties.C12_Text
/-
  C12, round 4 (`Model/CatalogStream.lean`).

  * The generator consumed lazily: `stream` (what a consumer of `load_ascii_catalogs` / `load_stochastic_event_sets` / a
    `CatalogForecast` receives before the generator ends or raises) agrees with `decode` on every file that loads, and on
    a file rejected at some line delivers exactly what was yielded before that line.  For a well-formed file of n catalogs
    followed by a row whose id is too small: exactly the catalogs 0..n−2, each complete and correct, then the ValueError —
    the pending catalog n−1 is never delivered, nothing is delivered twice.
  * `csv.reader` with quoted fields that span physical lines (`csvML`): on every text whose records end with their lines it
    is the line-by-line reader of `Model/CatalogText`, so every theorem about `decodeText` holds for `decodeTextML`.
  * Which calls of the two public loaders reach the decoder.
  All statements are for every file / text (induction over lines, records, characters); no size bound.
-/
namespace AsciiCatalogs
open DecimalText

/-! ## the generator protocol -/

/-- run to exhaustion, the generator gives what was yielded line by line plus the final flush — or the exception -/
theorem loop_eq_yields (s : St) (ls : List Line) :
    loop s ls = match yields s ls with
      | (out, .ok s') => .ok (out ++ [⟨s'.prev, s'.events⟩])
      | (_, .error e) => .error e := by
  induction ls generalizing s with
  | nil => simp [loop, yields]
  | cons l ls ih =>
    simp only [loop, yields]
    cases h : step s l with
    | error e => rfl
    | ok p =>
      obtain ⟨s', out⟩ := p
      simp only []
      rw [ih s']
      cases hy : yields s' ls with
      | mk o r =>
        cases r with
        | error e => rfl
        | ok s'' => simp [prepend]

/-- **a file loads iff the lazy consumer reaches the end, and then both see the same catalogs** -/
theorem stream_ok_iff (ls : List Line) (cs : List Catalog) : decode ls = .ok cs ↔ stream ls = (cs, none) := by
  unfold decode stream
  rw [loop_eq_yields]
  cases hy : yields ⟨none, []⟩ ls with
  | mk o r =>
    cases r with
    | error e => simp
    | ok s' => simp

/-- **a file is rejected iff the lazy consumer meets that exception** (after some, possibly no, catalogs) -/
theorem stream_error_iff (ls : List Line) (e : Err) : decode ls = .error e ↔ ∃ pre, stream ls = (pre, some e) := by
  unfold decode stream
  rw [loop_eq_yields]
  cases hy : yields ⟨none, []⟩ ls with
  | mk o r =>
    cases r with
    | error e' => simp
    | ok s' => simp

/-- reading further lines only ever ADDS to what has been yielded: nothing already delivered is taken back or changed -/
theorem yields_append (s : St) (a b : List Line) :
    yields s (a ++ b) = match yields s a with
      | (o1, .ok s1) => (o1 ++ (yields s1 b).1, (yields s1 b).2)
      | (o1, .error e) => (o1, .error e) := by
  induction a generalizing s with
  | nil => simp [yields]
  | cons l a ih =>
    simp only [List.cons_append, yields]
    cases h : step s l with
    | error e => rfl
    | ok p =>
      obtain ⟨s', out⟩ := p
      simp only []
      rw [ih s']
      cases hy : yields s' a with
      | mk o r =>
        cases r with
        | error e => rfl
        | ok s'' => simp [List.append_assoc]

/-- **what arrives before a rejection.**  If the lines `good` are accepted and leave the loop in state `s1` having yielded
    `o1`, and the next line is refused, the consumer of `good ++ bad :: rest` receives exactly `o1` and then the exception:
    the pending catalog of `s1` is not delivered, and nothing after the bad line matters. -/
theorem stream_before_error (good : List Line) (bad : Line) (rest : List Line) (o1 : List Catalog) (s1 : St) (e : Err)
    (hg : yields ⟨none, []⟩ good = (o1, .ok s1)) (hb : step s1 bad = .error e) :
    stream (good ++ bad :: rest) = (o1, some e) ∧ decode good = .ok (o1 ++ [⟨s1.prev, s1.events⟩]) := by
  constructor
  · unfold stream
    rw [yields_append, hg]
    simp [yields, hb]
  · unfold decode
    rw [loop_eq_yields, hg]

theorem numberFrom_length (i : Nat) (cats : List (List Event)) : (numberFrom i cats).length = cats.length := by
  induction cats generalizing i with
  | nil => rfl
  | cons c cs ih => simp [numberFrom, ih]

/-- **rejection, as the lazy consumer sees it.**  A well-formed file of n ≥ 1 catalogs (any placeholder / omitted choice,
    header or not) followed by a data row whose catalog id is below n−1, then anything: the consumer receives exactly the
    catalogs 0..n−2 — ids, events, order as encoded — and then the ValueError. -/
theorem stream_encode_then_decreasing (cats : List (List Event)) (hne : cats ≠ []) (choices : List Bool) (header : Bool)
    (b : Row) (post : List Line) (hlt : b.catId < (cats.length : Int) - 1) :
    stream (encode cats choices header ++ .row b :: post) = ((number cats).dropLast, some .decreasing) := by
  have hd := decode_encode cats hne choices header
  cases hy : yields ⟨none, []⟩ (encode cats choices header) with
  | mk o1 r =>
    cases r with
    | error e =>
      unfold decode at hd
      rw [loop_eq_yields, hy] at hd
      cases hd
    | ok s1 =>
      have hd' := hd
      unfold decode at hd'
      rw [loop_eq_yields, hy] at hd'
      simp only [Except.ok.injEq] at hd'
      -- the last loaded catalog is catalog n-1: the state's `prev_id`
      have hn : cats.length - 1 < cats.length := by
        cases cats with
        | nil => exact absurd rfl hne
        | cons c cs => simp
      have hlast := number_getElem cats (cats.length - 1) hn
      have hlen : (number cats).length = cats.length := numberFrom_length 0 cats
      have ho1 : o1.length = cats.length - 1 := by
        have := congrArg List.length hd'
        simp only [List.length_append, List.length_cons, List.length_nil, hlen] at this
        omega
      rw [← hd', List.getElem?_append_right (by omega), ho1, Nat.sub_self] at hlast
      simp only [List.getElem?_cons_zero, Option.some.injEq, Catalog.mk.injEq] at hlast
      have hprev : s1.prev = some ((cats.length - 1 : Nat) : Int) := hlast.1
      have hstep : step s1 (.row b) = .error .decreasing :=
        step_decreasing s1 _ hprev b (by
          have : ((cats.length - 1 : Nat) : Int) = (cats.length : Int) - 1 := by omega
          omega)
      rw [(stream_before_error _ _ post o1 s1 _ hy hstep).1, ← hd']
      simp

/-- record by record, the text-level generator is the row-level generator on what the records read as -/
theorem yieldsFields_eq_yields (recs : List (List String)) (lines : List Line) (h : AllReadAs recs lines) :
    ∀ s, yieldsFields s recs = yields s lines := by
  induction h with
  | nil => intro s; rfl
  | cons hfl _ ih =>
    intro s
    simp only [yieldsFields, yields, stepFields_eq_step s _ _ hfl]
    cases step s _ with
    | error e => rfl
    | ok p => simp only [ih p.1]

theorem streamFields_eq_stream (recs : List (List String)) (lines : List Line) (h : AllReadAs recs lines) :
    streamFields recs = stream lines := by
  unfold streamFields stream
  rw [yieldsFields_eq_yields recs lines h]

/-- on the records of a text: run to exhaustion = consumed lazily to the end -/
theorem loopFields_eq_yieldsFields (s : St) (recs : List (List String)) :
    loopFields s recs = match yieldsFields s recs with
      | (out, .ok s') => .ok (out ++ [⟨s'.prev, s'.events⟩])
      | (_, .error e) => .error e := by
  induction recs generalizing s with
  | nil => simp [loopFields, yieldsFields]
  | cons l ls ih =>
    simp only [loopFields, yieldsFields]
    cases h : stepFields s l with
    | error e => rfl
    | ok p =>
      obtain ⟨s', out⟩ := p
      simp only []
      rw [ih s']
      cases hy : yieldsFields s' ls with
      | mk o r =>
        cases r with
        | error e => rfl
        | ok s'' => simp [prepend]

/-- **the text loads iff its lazy consumer reaches the end, with the same catalogs** (any text, multi-line records too) -/
theorem streamTextML_ok_iff (text : String) (cs : List Catalog) :
    decodeTextML text = .ok cs ↔ streamTextML text = (cs, none) := by
  unfold decodeTextML streamTextML streamFields
  rw [loopFields_eq_yieldsFields]
  cases hy : yieldsFields ⟨none, []⟩ (csvRecordsML text) with
  | mk o r =>
    cases r with
    | error e => simp
    | ok s' => simp

/-! ## records that span physical lines -/

/-- the line-by-line reader is the scan followed by the end-of-line decision: a line that ends inside a quoted field has
    no record of its own -/
theorem csvAux_eq_scan (st : CsvSt) (l cur : List Char) (acc : List String) :
    csvAux st l cur acc =
      if (csvScan st l cur acc).1 = .inQuoted then none
      else some (finishRecord (csvScan st l cur acc).2.1 (csvScan st l cur acc).2.2) := by
  induction l generalizing st cur acc with
  | nil => cases st <;> simp [csvAux, csvScan, finishRecord]
  | cons c cs ih =>
    cases st <;> simp only [csvAux, csvScan] <;> by_cases h1 : c = '"' <;> by_cases h2 : c = ',' <;>
      simp only [h1, h2, if_true, if_false] <;> first | exact ih _ _ _ | (subst h1; simp at h2)

theorem splitLinesTAux_fst (s cur : List Char) (acc : List (List Char × List Char)) :
    (splitLinesTAux s cur acc).map Prod.fst = splitLinesAux s cur (acc.map Prod.fst) := by
  fun_induction splitLinesTAux s cur acc with
  | case1 cur acc => unfold splitLinesAux; split <;> simp
  | case2 cs cur acc ih => rw [splitLinesAux]; simpa using ih
  | case3 c cs cur acc hne hc ih =>
    rw [splitLinesAux.eq_3 _ _ _ _ hne]; simp only [hc, if_true]; simpa using ih
  | case4 c cs cur acc hne hc ih =>
    rw [splitLinesAux.eq_3 _ _ _ _ hne]; simp only [hc, if_false]; simpa using ih

/-- the physical lines, terminators dropped, are the lines of `DecimalText.splitLines` -/
theorem splitLinesT_fst (s : List Char) : (splitLinesT s).map Prod.fst = splitLines s := by
  simpa [splitLinesT, splitLines] using splitLinesTAux_fst s [] []

/-- when every physical line is a record of its own, the multi-line reader returns those records -/
theorem csvML_of_lines (ls : List (List Char × List Char)) (recs : List (List String))
    (h : (ls.map Prod.fst).mapM csvFields = some recs) : csvML none ls = recs := by
  induction ls generalizing recs with
  | nil => simp at h; subst h; rfl
  | cons lt ls ih =>
    obtain ⟨l, term⟩ := lt
    simp only [List.map_cons, List.mapM_cons] at h
    cases h1 : csvFields l with
    | none => simp [h1] at h
    | some r =>
      cases h2 : (ls.map Prod.fst).mapM csvFields with
      | none => simp [h1, h2] at h
      | some rs =>
        simp only [h1, h2] at h
        have hrecs : recs = r :: rs := by simpa using h.symm
        subst hrecs
        have ih' := ih rs h2
        cases l with
        | nil =>
          simp only [csvFields, List.isEmpty_nil, if_true, Option.some.injEq] at h1
          subst h1
          simp [csvML, ih']
        | cons c cs =>
          simp only [csvFields, List.isEmpty_cons, Bool.false_eq_true, if_false] at h1
          rw [csvAux_eq_scan] at h1
          split at h1
          · cases h1
          · rename_i hq
            simp only [Option.some.injEq] at h1
            subst h1
            simp [csvML, hq, ih']

/-- **the multi-line reader extends the line-by-line reader**: on every text in which no quoted field is left open at the
    end of a physical line, both give the same records -/
theorem csvRecordsML_eq (text : String) (recs : List (List String)) (h : csvRecords text = some recs) :
    csvRecordsML text = recs := by
  unfold csvRecordsML
  apply csvML_of_lines
  rw [splitLinesT_fst]
  exact h

/-- … so the loader on such a text is `decodeText`, and every theorem about `decodeText` (`decodeText_eq_decode`,
    `decodeText_encode`, `decodeText_rejects_decreasing`) holds for the multi-line loader -/
theorem decodeTextML_eq_decodeText (text : String) (recs : List (List String)) (h : csvRecords text = some recs) :
    decodeTextML text = decodeText text := by
  unfold decodeTextML decodeText
  rw [csvRecordsML_eq text recs h, h]

theorem decodeTextML_encode (text : String) (recs : List (List String)) (cats : List (List Event)) (hne : cats ≠ [])
    (choices : List Bool) (header : Bool) (hr : csvRecords text = some recs)
    (h : AllReadAs recs (encode cats choices header)) : decodeTextML text = .ok (number cats) := by
  rw [decodeTextML_eq_decodeText text recs hr]
  exact decodeText_encode text recs cats hne choices header hr h

/-- the general form, without any condition on where records end: whenever the records of the multi-line reader read as
    the encoding of catalogs 0..n−1, exactly those catalogs are loaded -/
theorem decodeTextML_encode_records (text : String) (cats : List (List Event)) (hne : cats ≠ [])
    (choices : List Bool) (header : Bool) (h : AllReadAs (csvRecordsML text) (encode cats choices header)) :
    decodeTextML text = .ok (number cats) := by
  unfold decodeTextML
  rw [loopFields_eq_loop _ _ h]
  exact decode_encode cats hne choices header

/-! ## fractions of a second: 1 … 6 digits, each at its own decimal place -/

/-- the value of a digit string read from the given decimal place downwards: first digit × `scale`, second × `scale/10`, … -/
def fracVal : List Char → Nat → Nat
  | [], _ => 0
  | c :: cs, scale => digitVal c * scale + fracVal cs (scale / 10)

theorem takeFrac_digits (fuel scale acc : Nat) (ds rest : List Char) (hl : ds.length ≤ fuel)
    (hd : ∀ c ∈ ds, isDigit c = true) (hr : ds.length = fuel ∨ ∀ c, rest.head? = some c → isDigit c = false) :
    takeFrac fuel scale acc (ds ++ rest) = (acc + fracVal ds scale, rest) := by
  induction ds generalizing fuel scale acc with
  | nil =>
    cases fuel with
    | zero => simp [takeFrac, fracVal]
    | succ f =>
      cases rest with
      | nil => simp [takeFrac, fracVal]
      | cons c cs =>
        have : isDigit c = false := by
          rcases hr with h | h
          · simp at h
          · exact h c rfl
        simp [takeFrac, fracVal, this]
  | cons d ds ih =>
    cases fuel with
    | zero => simp at hl
    | succ f =>
      have hdd : isDigit d = true := hd d List.mem_cons_self
      simp only [List.cons_append, takeFrac, hdd, if_true, fracVal]
      rw [ih f (scale / 10) (acc + digitVal d * scale) (by simpa using hl)
        (fun c hc => hd c (List.mem_cons_of_mem _ hc)) (by
          rcases hr with h | h
          · left; simpa using h
          · right; exact h)]
      simp [Nat.add_assoc]

/-- **`%f` scales a short fraction correctly**: `k ≤ 6` digits after the point are read as microseconds with the first digit
    at the 100 000 place — `.5` is 500 000 µs, `.05` 50 000 µs, `.12345` 123 450 µs — whatever follows is left over -/
theorem takeFrac_scales (ds rest : List Char) (hl : ds.length ≤ 6) (hd : ∀ c ∈ ds, isDigit c = true)
    (hr : ds.length = 6 ∨ ∀ c, rest.head? = some c → isDigit c = false) :
    takeFrac 6 100000 0 (ds ++ rest) = (fracVal ds 100000, rest) := by
  simpa using takeFrac_digits 6 100000 0 ds rest hl hd hr

-- both layouts of `read_catalog_line`, fractions of every length 1 … 6 (and none), unpadded clock fields: epoch milliseconds
example : (["1992-06-28T11:57:34.5", "1992-06-28T11:57:34.05", "1992-06-28T11:57:34.123", "1992-06-28T11:57:34.1234",
    "1992-06-28T11:57:34.12345", "1992-06-28T11:57:34.123456", "1992-06-28T11:57:34", "1992-6-28T11:57:34.5",
    "1992-06-28T11:57:34.000999", "1992-06-28T11:57:34.9999"].map (fun t => parseTime t.toList))
    = [some 709732654500, some 709732654050, some 709732654123, some 709732654123, some 709732654123, some 709732654123,
       some 709732654000, some 709732654500, some 709732654000, some 709732654999] := by decide +kernel
example : fracVal "5".toList 100000 = 500000 ∧ fracVal "05".toList 100000 = 50000 ∧ fracVal "12345".toList 100000 = 123450 := by
  decide +kernel

/-! ## which calls of the public loaders reach the decoder -/

theorem ses_reaches_decoder_iff (type format : String) :
    (sesDispatch type format = .csvNative ∨ sesDispatch type format = .csvCsep) ↔
      type = "csv" ∧ (format = "native" ∨ format = "csep") := by
  unfold sesDispatch
  by_cases h1 : type = "csv"
  · subst h1
    by_cases h2 : format = "native"
    · subst h2; decide
    · by_cases h3 : format = "csep"
      · subst h3; decide
      · simp [h2, h3]
  · by_cases h0 : type = "ucerf3"
    · subst h0; simp
    · simp [h0, h1]

theorem cf_builds_forecast_iff (existsFile : Bool) (loader : Option Bool) (format type : String) :
    (∃ a b, cfDispatch existsFile loader format type = .forecast a b) ↔
      existsFile = true ∧ loader ≠ some false ∧ (loader = none → type = "ascii" ∨ type = "ucerf3") := by
  unfold cfDispatch
  cases existsFile <;> cases loader with
  | none => by_cases h1 : type = "ascii" <;> by_cases h2 : type = "ucerf3" <;> simp [h1, h2]
  | some b => cases b <;> simp

/-! ## keywords of `load_catalog_forecast` that must not change the catalogs -/

/-- **without `apply_filters` no keyword touches the catalogs**: whatever `filters`, `apply_mct`, `filter_spatial`, `region`,
    `store` are, and whatever the filter stage would do, a pass delivers exactly what the loader decodes -/
theorem delivered_unfiltered (k : CfKw) (stage : Catalog → Catalog) (decoded : List Catalog) (h : k.applyFilters = false) :
    delivered k stage decoded = decoded := by
  simp [delivered, CfKw.stageActive, h]

/-- `apply_filters=True` with nothing configured (no filters, no mct, no spatial filter) is a no-op too -/
theorem delivered_nothing_configured (k : CfKw) (stage : Catalog → Catalog) (decoded : List Catalog)
    (h1 : k.hasFilters = false) (h2 : k.applyMct = false) (h3 : k.filterSpatial = false) :
    delivered k stage decoded = decoded := by
  simp [delivered, CfKw.stageActive, h1, h2, h3]

/-- `store` does not matter: the second pass gives what the first gave, stored or re-read -/
theorem second_pass_same (k : CfKw) (stage : Catalog → Catalog) (decoded : List Catalog) :
    secondPass k stage decoded = delivered k stage decoded := by
  unfold secondPass; split <;> rfl

/-- **the property through `load_catalog_forecast` with any inert keywords**: a text whose records read as the encoding of
    catalogs 0..n−1 is delivered as exactly those catalogs -/
theorem forecastPass_encode (k : CfKw) (stage : Catalog → Catalog) (text : String) (cats : List (List Event)) (hne : cats ≠ [])
    (choices : List Bool) (header : Bool) (h : AllReadAs (csvRecordsML text) (encode cats choices header))
    (hk : k.applyFilters = false ∨ (k.hasFilters = false ∧ k.applyMct = false ∧ k.filterSpatial = false)) :
    forecastPass k stage text = some (number cats) := by
  unfold forecastPass
  rw [decodeTextML_encode_records text cats hne choices header h]
  simp only []
  rcases hk with hk | ⟨h1, h2, h3⟩
  · rw [delivered_unfiltered k stage _ hk]
  · rw [delivered_nothing_configured k stage _ h1 h2 h3]

example : delivered ⟨false, true, true, true, true, false⟩ (fun _ => ⟨none, []⟩) [⟨some 0, []⟩, ⟨some 1, []⟩]
    = [⟨some 0, []⟩, ⟨some 1, []⟩] := by decide +kernel
example : delivered ⟨true, true, false, false, false, true⟩ (fun _ => ⟨none, []⟩) [⟨some 0, []⟩] = [⟨none, []⟩] := by
  decide +kernel

/-! ## non-vacuity (kernel evaluation) -/

/-- an event id that contains a line break (quoted by `csv.writer`), a placeholder row, CRLF ends -/
def exML : String :=
  "lon,lat,mag,time_string,depth,catalog_id,event_id\r\n1.5,2.5,3.5,2020-01-01T00:00:00,4,0,\"a\nb\r\nc\"\r\n,,,,,1,\r\n1,2,3,1970-01-01T00:00:00.001,4,2,\"q\"\"\n\"\n"

example : csvRecords exML = none := by decide +kernel           -- the line-by-line reader gives up on it
example : decodeTextML exML = .ok
    [⟨some 0, [⟨"a\nb\r\nc", some 1577836800000, some (5/2), some (3/2), some 4, some (7/2)⟩]⟩, ⟨some 1, []⟩,
     ⟨some 2, [⟨"q\"\n", some 1, some 2, some 1, some 4, some 3⟩]⟩] := by decide +kernel
-- end of input inside a quoted field: the record is closed as it stands (the reader is not strict)
example : csvRecordsML "a,\"b\nc" = [["a", "b\nc"]] := by decide +kernel
-- a lazy consumer of ids 0, 1, 0: catalog 0 arrives, then the ValueError; catalog 1 is pending and is never delivered
example : stream [rowOf 0 ⟨1, 2, 3, 4, 5, "x"⟩, rowOf 1 ⟨1, 2, 3, 4, 5, "y"⟩, rowOf 0 ⟨1, 2, 3, 4, 5, "z"⟩]
    = ([⟨some 0, [⟨"x", some 4, some 2, some 1, some 5, some 3⟩]⟩], some .decreasing) := by decide +kernel
example : stream (encode [[⟨1, 2, 3, 4, 5, "x"⟩], [], [⟨1, 2, 3, 4, 5, "y"⟩]] [false] true ++
      .row ⟨⟨"", none, none, none, none, none⟩, 1⟩ :: []) =
    ((number [[⟨1, 2, 3, 4, 5, "x"⟩], [], [⟨1, 2, 3, 4, 5, "y"⟩]]).dropLast, some .decreasing) :=
  stream_encode_then_decreasing _ (by simp) _ _ _ _ (by decide)
example : sesDispatch "csv" "csep" = .csvCsep ∧ sesDispatch "ascii" "native" = .valueErrorType ∧
    sesDispatch "csv" "zmap" = .valueErrorFormat := by decide +kernel
example : cfDispatch true none "native" "ascii" = .forecast false true ∧ cfDispatch true none "native" "csv" = .keyError ∧
    cfDispatch true (some true) "csep" "whatever" = .forecast true false := by decide +kernel

end AsciiCatalogs
