import PycsepVerif.Model.ForecastIterX
import PycsepVerif.Properties.C13

/-!
# C13 (round 4) — `get_expected_rates` with the exception of its loop body inside the model

`Model/ForecastIterX.lean`.  The hypothesis "every surviving event lies inside the region" of the round-1 model is gone:

* `ratesLoop_of_pass` — the loop of `get_expected_rates` against ANY iterator behaviour (`next` is not unfolded): if a complete
  pass from the same state yields `ys`, the loop either accumulates all of `ys` (no catalog is rejected) or stops with the
  forecast exactly as `k+1` calls of `__next__` leave it, `k` the first rejected catalog;
* `ratesX_eq_rates` — when no once-filtered catalog holds an event outside the grid, the code-shaped operation IS the
  operation of `Model/ForecastIter.lean` (so `refines_spec` & co. speak about the code on exactly this domain);
* `ratesX_raises_iff`, `ratesX_raised_at` — otherwise it raises, at the first such catalog, whatever the source (list / cached
  stream / re-read stream), nothing is cached, and (D27, `aborted_pass_characterised`) the next for-loop yields the catalogs
  behind that one and restores the invariant; `ratesX_raises_again` — a later request raises again at the same catalog;
* `filters_make_countable` — with the spatial filter configured every once-filtered catalog is countable when the filters
  remove what lies outside (so the configuration the property describes never raises).
-/
namespace ForecastIter

/-! ### generic: the loop with a body against a complete pass -/

theorem passLoop_acc : ∀ (fuel : Nat) (st : St) (acc : List Cat),
    passLoop fuel st acc = (passLoop fuel st []).map (fun r => (r.1, acc ++ r.2))
  | 0, _, _ => rfl
  | fuel + 1, st, acc => by
    unfold passLoop
    rcases hn : next st with ⟨st', r⟩
    cases r with
    | yield c =>
      simp only
      rw [passLoop_acc fuel st' (acc ++ [c]), passLoop_acc fuel st' ([] ++ [c])]
      cases passLoop fuel st' [] with
      | none => rfl
      | some r => simp
    | stop => simp
    | assertFail => rfl

/-- the loop of `get_expected_rates` (any body index `i`, any accumulator `d`) in terms of what a complete pass yields -/
theorem ratesLoop_of_pass (nB : Nat) : ∀ (fuel : Nat) (st : St) (i : Nat) (d : Option (List Nat)) (st' : St) (ys : List Cat),
    passLoop fuel st [] = some (st', ys) →
    ratesLoop nB fuel st i d = match firstBad nB ys with
      | none => .done st' (accFold nB i d ys)
      | some k => .raised (nextN (k + 1) st) (i + k)
  | 0, _, _, _, _, _, h => by simp [passLoop] at h
  | fuel + 1, st, i, d, st', ys, h => by
    unfold passLoop at h
    unfold ratesLoop
    rcases hn : next st with ⟨st1, r⟩
    rw [hn] at h
    cases r with
    | yield c =>
      simp only at h ⊢
      rw [passLoop_acc] at h
      cases hp : passLoop fuel st1 [] with
      | none => rw [hp] at h; simp at h
      | some r1 =>
        obtain ⟨st2, ys1⟩ := r1
        rw [hp] at h
        simp only [Option.map_some, List.nil_append, Option.some.injEq, Prod.mk.injEq] at h
        obtain ⟨rfl, rfl⟩ := h
        have ih := ratesLoop_of_pass nB fuel st1 (i + 1) (accStep nB i d c) st2 ys1 hp
        by_cases hc : countable nB c = true
        · simp only [hc, ↓reduceIte, firstBad, List.cons_append, List.nil_append]
          rw [ih]
          cases hb : firstBad nB ys1 with
          | none => simp [accFold]
          | some k =>
            simp only [Option.map_some]
            have : nextN (k + 1 + 1) st = nextN (k + 1) st1 := by
              show nextN (k + 1) (next st).1 = _
              rw [hn]
            rw [this]
            congr 1
            omega
        · simp only [hc, firstBad, List.cons_append, List.nil_append]
          simp only [Bool.false_eq_true, ↓reduceIte, Nat.add_zero]
          show LoopX.raised st1 i = .raised (nextN 0 (next st).1) i
          rw [hn]; rfl
    | stop =>
      simp only [Option.some.injEq, Prod.mk.injEq] at h
      obtain ⟨rfl, rfl⟩ := h
      simp [firstBad, accFold]
    | assertFail => simp at h

theorem accFold_some (nB : Nat) : ∀ (cs : List Cat) (i : Nat) (v : List Nat),
    accFold nB (i + 1) (some v) cs = some ((cs.map rebind).foldl (fun d c' => addVec d (binCounts nB c')) v)
  | [], _, _ => rfl
  | c :: cs, i, v => by
    simp only [accFold, accStep, Nat.add_one_ne_zero, ↓reduceIte, Option.map_some, List.map_cons, List.foldl_cons]
    exact accFold_some nB cs (i + 1) _

/-- the accumulation of the loop is the `accumulate` of the exception-free model -/
theorem accFold_eq_accumulate (nB : Nat) (ys : List Cat) : accFold nB 0 none ys = accumulate nB (ys.map rebind) := by
  cases ys with
  | nil => rfl
  | cons c cs =>
    simp only [accFold, accStep, ↓reduceIte, List.map_cons, accumulate]
    exact accFold_some nB cs 0 _

theorem firstBad_none_iff (nB : Nat) (ys : List Cat) : firstBad nB ys = none ↔ ∀ c ∈ ys, countable nB c = true := by
  induction ys with
  | nil => simp [firstBad]
  | cons c cs ih =>
    by_cases hc : countable nB c = true
    · simp [firstBad, hc, ih]
    · simp [firstBad, hc]

theorem firstBad_some (nB : Nat) (ys : List Cat) (k : Nat) (h : firstBad nB ys = some k) :
    k < ys.length ∧ (∀ c ∈ ys.take k, countable nB c = true) ∧ ∃ c, ys[k]? = some c ∧ countable nB c = false := by
  induction ys generalizing k with
  | nil => simp [firstBad] at h
  | cons c cs ih =>
    by_cases hc : countable nB c = true
    · simp only [firstBad, hc, ↓reduceIte, Option.map_eq_some_iff] at h
      obtain ⟨k', hk', rfl⟩ := h
      obtain ⟨h1, h2, c', h3, h4⟩ := ih k' hk'
      refine ⟨by simp; omega, ?_, c', by simpa using h3, h4⟩
      intro x hx
      simp only [List.take_succ_cons, List.mem_cons] at hx
      rcases hx with rfl | hx
      · exact hc
      · exact h2 x hx
    · simp only [firstBad, hc, Bool.false_eq_true, ↓reduceIte, Option.some.injEq] at h
      subst h
      exact ⟨by simp, by simp, c, rfl, by simpa using hc⟩

/-! ### the operation on a forecast between two operations -/

/-- **no event outside the grid** (after the configured filters): the code-shaped operation is the operation of the
    exception-free model, for every source and every state between operations — `refines_spec` is about the code here -/
theorem ratesX_eq_rates {file : List Cat} {af0 : Bool} {nBins nMag : Nat} {st : St}
    (hinv : Inv file af0 nBins nMag st) (hne : file ≠ [])
    (hall : ∀ c ∈ filtered file af0, countable nBins c = true) :
    ∃ st' r, getExpectedRates st = some (st', r) ∧ getExpectedRatesX st = .ok st' r := by
  unfold getExpectedRates getExpectedRatesX
  cases her : st.expectedRates with
  | some r => exact ⟨st, r, rfl, rfl⟩
  | none =>
    obtain ⟨st', hp, hi', _, hn', _⟩ := pass_spec hinv
    have hl := ratesLoop_of_pass st.nBins _ st 0 none st' _ hp
    rw [hinv.hnb, (firstBad_none_iff nBins _).mpr hall] at hl
    simp only at hl
    rw [accFold_eq_accumulate] at hl
    have hfne : filtered file af0 ≠ [] := by
      intro h; exact hne (List.eq_nil_of_length_eq_zero (by rw [← filtered_length file af0, h]; rfl))
    obtain ⟨c, cs, hcs⟩ := List.exists_cons_of_ne_nil hfne
    simp only [hp, hinv.hnb, hl]
    rw [hcs, accumulate_eq_totals]
    simp only [hn']
    exact ⟨_, _, rfl, rfl⟩

/-- **an event outside the grid survives the filters**: the operation raises — never returns a forecast — at the FIRST such
    catalog of the once-filtered list, leaves the forecast as `pos + 1` calls of `__next__` do, and caches nothing -/
theorem ratesX_raised_at {file : List Cat} {af0 : Bool} {nBins nMag : Nat} {st : St}
    (hinv : Inv file af0 nBins nMag st) (hnone : st.expectedRates = none) (k : Nat)
    (hk : firstBad nBins (filtered file af0) = some k) :
    getExpectedRatesX st = .raised (nextN (k + 1) st) k ∧ k < file.length ∧
    (nextN (k + 1) st).expectedRates = none := by
  obtain ⟨st', hp, hi', _, hn', her'⟩ := pass_spec hinv
  have hl := ratesLoop_of_pass st.nBins _ st 0 none st' _ hp
  rw [hinv.hnb, hk] at hl
  simp only [Nat.zero_add] at hl
  have hklt := (firstBad_some nBins _ k hk).1
  rw [filtered_length] at hklt
  refine ⟨?_, hklt, ?_⟩
  · unfold getExpectedRatesX
    simp only [hnone, hinv.hnb, hl]
  · -- `__next__` never writes the cached rates
    have hnx : ∀ s : St, (next s).1.expectedRates = s.expectedRates := by
      intro s
      obtain ⟨file, catalogs, isGen, cache, store, af, nCat, idx, ec, er, nb, nm⟩ := s
      unfold next emit
      by_cases h0 : idx = 0 <;> cases isGen <;> simp only [h0, ↓reduceIte] <;> (repeat' split) <;> simp_all
    have : ∀ (n : Nat) (s : St), (nextN n s).expectedRates = s.expectedRates := by
      intro n
      induction n with
      | zero => intro s; rfl
      | succ n ih => intro s; show (nextN n (next s).1).expectedRates = _; rw [ih, hnx]
    rw [this, hnone]

/-- raising is decided by the once-filtered catalogs alone (not by the source, not by the history) -/
theorem ratesX_raises_iff {file : List Cat} {af0 : Bool} {nBins nMag : Nat} {st : St}
    (hinv : Inv file af0 nBins nMag st) (hne : file ≠ []) (hnone : st.expectedRates = none) :
    (∃ st' k, getExpectedRatesX st = .raised st' k) ↔ ∃ c ∈ filtered file af0, countable nBins c = false := by
  constructor
  · rintro ⟨st', k, h⟩
    cases hb : firstBad nBins (filtered file af0) with
    | none =>
      obtain ⟨s, r, _, hx⟩ := ratesX_eq_rates hinv hne ((firstBad_none_iff nBins _).mp hb)
      rw [hx] at h
      cases h
    | some j =>
      obtain ⟨_, _, c, hc, hcc⟩ := firstBad_some nBins _ j hb
      exact ⟨c, List.mem_of_getElem? hc, hcc⟩
  · rintro ⟨c, hc, hcc⟩
    cases hb : firstBad nBins (filtered file af0) with
    | none =>
      have := (firstBad_none_iff nBins _).mp hb c hc
      rw [hcc] at this; cases this
    | some k => exact ⟨_, k, (ratesX_raised_at hinv hnone k hb).1⟩

/-- after the exception (known finding D27): the next for-loop yields only the catalogs BEHIND the offending one, and that
    loop restores the invariant — every later history is the specification's again, and a later request for the rates raises
    again at the same catalog -/
theorem ratesX_raises_again {file : List Cat} {af0 : Bool} {nBins nMag : Nat} {st : St}
    (hinv : Inv file af0 nBins nMag st) (hnone : st.expectedRates = none) (k : Nat)
    (hk : firstBad nBins (filtered file af0) = some k) :
    ∃ st', fullPass (nextN (k + 1) st) = some (st', (filtered file af0).drop (k + 1)) ∧ Inv file af0 nBins nMag st' ∧
      getExpectedRatesX st' = .raised (nextN (k + 1) st') k := by
  obtain ⟨_, hklt, hno⟩ := ratesX_raised_at hinv hnone k hk
  obtain ⟨st', hp, hi', _, _⟩ := aborted_pass_characterised hinv (k + 1) (by omega) (by omega)
  refine ⟨st', hp, hi', ?_⟩
  have hnone' : st'.expectedRates = none := by
    rcases hi'.her with h | h
    · exact h
    · -- the repairing pass does not create rates: it is a `fullPass`, which keeps `expectedRates`
      obtain ⟨s2, hp2, _, _, _, her2⟩ := pass_spec hi'
      exact absurd h (by
        intro hsome
        -- derive a contradiction from: passes never write the cached rates
        have hnx : ∀ s : St, (next s).1.expectedRates = s.expectedRates := by
          intro s
          obtain ⟨file, catalogs, isGen, cache, store, af, nCat, idx, ec, er, nb, nm⟩ := s
          unfold next emit
          by_cases h0 : idx = 0 <;> cases isGen <;> simp only [h0, ↓reduceIte] <;> (repeat' split) <;> simp_all
        have hpl : ∀ (fuel : Nat) (s : St) (acc : List Cat) (s' : St) (out : List Cat),
            passLoop fuel s acc = some (s', out) → s'.expectedRates = s.expectedRates := by
          intro fuel
          induction fuel with
          | zero => intro s acc s' out h; simp [passLoop] at h
          | succ fuel ih =>
            intro s acc s' out h
            unfold passLoop at h
            rcases hn : next s with ⟨s1, r⟩
            rw [hn] at h
            have h1 := hnx s
            rw [hn] at h1
            cases r with
            | yield c => exact (ih s1 _ s' out h).trans h1
            | stop =>
              simp only [Option.some.injEq, Prod.mk.injEq] at h
              obtain ⟨rfl, _⟩ := h
              exact h1
            | assertFail => simp at h
        have := hpl _ _ _ _ _ hp
        rw [hno] at this
        rw [this] at hsome
        cases hsome)
  exact (ratesX_raised_at hi' hnone' k hk).1

/-- when the configured filters remove every event that lies in no bin (the spatial filter configured and applied, magnitudes
    cut at the first edge), no once-filtered catalog is rejected: the configuration the property describes never raises -/
theorem filters_make_countable (file : List Cat) (nBins : Nat)
    (h : ∀ c ∈ file, ∀ e ∈ c.events, e.keep = true → e.cell < nBins) :
    ∀ c ∈ filtered file true, countable nBins c = true := by
  intro c hc
  simp only [filtered, List.mem_map] at hc
  obtain ⟨c0, hc0, rfl⟩ := hc
  simp only [countable, applyOnce, ↓reduceIte, filt, List.all_eq_true, List.mem_filter, decide_eq_true_eq]
  intro e ⟨he, hk⟩
  exact h c0 hc0 e he hk

/-! ### non-vacuity (kernel-evaluated) -/

def demoOut : List Cat :=
  [{ id := some 0, events := [{ keep := true, cell := 0 }] },
   { id := some 1, events := [{ keep := true, cell := 9 }, { keep := false, cell := 1 }] },   -- cell 9: outside a 4-bin grid
   { id := some 2, events := [{ keep := true, cell := 3 }] }]

/-- filters off: the second catalog is rejected, at position 1, for a list, a cached and a re-read stream alike -/
example : (match getExpectedRatesX (initList demoOut none false 4 2) with | .raised _ k => some k | _ => none) = some 1 := by
  decide +kernel
example : (match getExpectedRatesX (initStream demoOut true false 4 2) with | .raised _ k => some k | _ => none) = some 1 := by
  decide +kernel
example : (match getExpectedRatesX (initStream demoOut false false 4 2) with | .raised _ k => some k | _ => none) = some 1 := by
  decide +kernel
/-- the history `R, P, P, R` on it: raised at 1; the next loop yields only catalog 2 (D27); the one after all three; R raises again -/
example : (runX (initStream demoOut true false 4 2) [.getExpectedRates, .fullPass, .fullPass, .getExpectedRates]).map (·.1)
    = [.raised 1, .out (.cats (demoOut.drop 2)), .out (.cats demoOut), .raised 1] := by decide +kernel
/-- the general theorems applied (their hypotheses are satisfiable): invariant of a fresh stream, first offending catalog 1 -/
example : getExpectedRatesX (initStream demoOut true false 4 2) = .raised (nextN 2 (initStream demoOut true false 4 2)) 1 :=
  (ratesX_raised_at (inv_initStream demoOut true false 4 2) rfl 1 (by decide +kernel)).1
example : ∃ st', fullPass (nextN 2 (initStream demoOut false false 4 2)) = some (st', (filtered demoOut false).drop 2) ∧
    Inv demoOut false 4 2 st' ∧ getExpectedRatesX st' = .raised (nextN 2 st') 1 :=
  ratesX_raises_again (inv_initStream demoOut false false 4 2) rfl 1 (by decide +kernel)
/-- every catalog countable: `ratesX_eq_rates` applies (hypothesis satisfiable), rates = totals / 3 -/
example : ∀ c ∈ filtered demo true, countable 4 c = true := by decide +kernel
example : (match getExpectedRatesX (initStream demo true true 4 2) with | .ok _ r => some r | _ => none)
    = some (totals 4 (filtered demo true), 3) := by decide +kernel

end ForecastIter
