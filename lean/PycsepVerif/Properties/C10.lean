import PycsepVerif.Proofs.CatalogEvals
import Mathlib.Data.Rat.Cast.Order

/-!
# C10 — catalog-based consistency tests compute the documented statistics

Theorems about `Model/CatalogEvals.lean` (model of csep/core/catalog_evaluations.py, csep/utils/calc.py
`_compute_likelihood`, csep/utils/stats.py `cumulative_square_diff`, `MLL_score`, `log_d_multinomial` and the
mean gridded rates of `CatalogForecast.get_expected_rates`), instantiated at ℝ.  A catalog is its count matrix
(cells × magnitude bins); all statements hold for every number of cells, bins, synthetic catalogs and events.
`Option (ELL ℝ)`: `none` = `None`/`nan`, `some .negInf` = `-inf`.
-/
namespace CatEvals

/-! ## number test -/

/-- C10 number test: the test distribution is the list of catalog sizes, the observed statistic the observed
    size, and `get_quantiles` (the sort/searchsorted code proved in C09) returns
    δ₁ = #{j : N_j ≥ N_obs}/J and δ₂ = #{j : N_j ≤ N_obs}/J. -/
theorem ntest_is_ecdf (sims : List Grid) (obs : Grid) (h : sims ≠ []) :
    (numberTest sims obs).distribution = sims.map eventCount ∧
    (numberTest sims obs).observed = eventCount obs ∧
    (numberTest sims obs).quantile =
      (some ((sims.map eventCount).countP (fun n => decide (eventCount obs ≤ n)), sims.length),
       some ((sims.map eventCount).countP (fun n => decide (n ≤ eventCount obs)), sims.length)) := by
  refine ⟨rfl, rfl, ?_⟩
  unfold numberTest
  simp only
  rw [Ecdf.quantiles_eq _ _ (by simpa using h)]
  simp only [Ecdf.cntGE, Ecdf.cntLE, List.countP_map, List.length_map]
  congr 3
  · apply List.countP_congr; intro n _; simp
  · apply List.countP_congr; intro n _; simp

example : (numberTest [[[2, 0]], [[0, 0]], [[1, 0]]] [[1, 1]]).quantile = (some (1, 3), some (3, 3)) := by
  rw [(ntest_is_ecdf _ _ (by simp)).2.2]; decide

/-! ## quantiles of the real-valued tests are the C09 quantiles -/

/-- C10 ↔ C09: on a distribution of finite values that are (casts of) rationals — every float64 is one — the
    model's quantile pair is exactly what the C09 model of `get_quantiles` (sort + searchsorted) returns. -/
theorem quantiles_is_c09 (qs : List Rat) (q : Rat) :
    quantiles (qs.map fun (x : Rat) => ELL.fin ((x : ℝ))) (.fin (q : ℝ)) =
      Quant.pair (Ecdf.getQuantiles qs q).1 (Ecdf.getQuantiles qs q).2 := by
  by_cases h : qs = []
  · subst h; simp [quantiles, Ecdf.getQuantiles, Ecdf.geEcdf, Ecdf.leEcdf, Ecdf.sort]
  · rw [Ecdf.quantiles_eq qs q h]
    unfold quantiles
    have : (qs.map fun (x : Rat) => ELL.fin ((x : ℝ))).isEmpty = false := by cases qs <;> simp_all
    simp only [this, Bool.false_eq_true, if_false, List.length_map, List.countP_map, Ecdf.cntGE, Ecdf.cntLE]
    congr 3
    · apply List.countP_congr; intro a _; simp [ellLe, Function.comp]
    · apply List.countP_congr; intro a _; simp [ellLe, Function.comp]
example : quantiles [ELL.fin ((3 : Rat) : ℝ), .fin ((1 : Rat) : ℝ), .fin ((3 : Rat) : ℝ)] (.fin ((3 : Rat) : ℝ)) =
    .pair (some (2, 3)) (some (3, 3)) := by
  have := quantiles_is_c09 [3, 1, 3] 3
  simp only [List.map] at this
  rw [this, Ecdf.quantiles_eq _ _ (by simp)]; decide +kernel

/-! ## the documented statistics (docs/getting_started/theory.rst, "Catalog-based forecast tests") -/

/-- documented spatial statistic (definition in Proofs/CatalogEvals.lean, restated here):
    S = Σ_cells g_i · log(λ_i / Σλ) / Σ_cells g_i, the per-cell form of [Σ_events log λ*_s(k_i)] / N -/
theorem docS_def (ps : List (Nat × ℝ)) : docS ps =
    (ps.map fun p => (p.1 : ℝ) * Real.log (p.2 / (ps.map Prod.snd).sum)).sum / ((ps.map Prod.fst).sum : Nat) := rfl

/-- documented pseudo-likelihood L̂ = Σ_cells g_i · log λ_i − N̄ (per-cell form of Σ_events log λ_s(k_i) − N̄) -/
theorem docPL_def (ps : List (Nat × ℝ)) (nbar : ℝ) : docPL ps nbar =
    (ps.map fun p => (p.1 : ℝ) * Real.log p.2).sum - nbar := rfl

/-- the per-event form of the documentation equals the per-cell form used by the code:
    Σ_{e ∈ events} f(cell e) = Σ_{i < C} (number of events in cell i) · f(i) -/
theorem sum_events_eq_sum_cells (C : Nat) (ev : List Nat) (f : Nat → ℝ) (h : ∀ e ∈ ev, e < C) :
    (ev.map f).sum = ((List.range C).map fun i => ((ev.count i : Nat) : ℝ) * f i).sum := by
  induction ev with
  | nil => simp
  | cons e es ih =>
    have he : e < C := h e List.mem_cons_self
    rw [List.map_cons, List.sum_cons, ih (fun x hx => h x (List.mem_cons_of_mem _ hx))]
    have : ∀ i, ((List.count i (e :: es) : Nat) : ℝ) * f i =
        (if i = e then f i else 0) + ((List.count i es : Nat) : ℝ) * f i := by
      intro i
      by_cases hi : i = e
      · subst hi; simp [List.count_cons_self]; ring
      · have : (e == i) = false := by simpa using fun h => hi h.symm
        simp [List.count_cons, hi, this]
    simp only [this, List.sum_map_add]
    congr 1
    -- Σ_{i<C} [i = e] f i = f e
    clear this ih h
    induction C with
    | zero => omega
    | succ n ihn =>
      rw [List.range_succ, List.map_append, List.sum_append]
      by_cases hn : e = n
      · subst hn
        have : ((List.range e).map fun i => if i = e then f i else 0).sum = 0 := by
          apply List.sum_eq_zero; intro x hx
          obtain ⟨i, hi, rfl⟩ := List.mem_map.mp hx
          have : i ≠ e := Nat.ne_of_lt (List.mem_range.mp hi)
          simp [this]
        simp [this]
      · have hlt : e < n := by omega
        have hne : n ≠ e := fun h => hn h.symm
        simp [ihn hlt, hne]

/-- C10 spatial statistic: for a catalog with events whose occupied cells all have positive rate, with
    n_obs ≠ 0 and N̄ ≠ 0, the second component of `_compute_likelihood` is the documented S. -/
theorem s_stat_eq_doc (g : List Nat) (r : List ℝ) (ecc : ℝ) (nObs : Nat) (hlen : g.length = r.length)
    (hN : g.sum ≠ 0) (hobs : nObs ≠ 0) (hecc : ecc ≠ 0)
    (hpos : OccPos (List.zip g r)) (htot : 0 < r.sum) :
    (computeLikelihood g r ecc nObs).2 = some (.fin (docS (List.zip g r))) := by
  exact snd_eq_docS g r ecc nObs hlen hN hobs hecc hpos htot

example : (computeLikelihood [2, 0, 1] [(1:ℝ), 0, 3] 2 3).2 = some (.fin (docS [(2, 1), (0, 0), (1, 3)])) :=
  s_stat_eq_doc _ _ _ _ rfl (by decide) (by decide) (by norm_num)
    (by intro p hp hne; simp at hp; rcases hp with rfl | rfl | rfl <;> simp_all) (by norm_num)

/-- C10 pseudo-likelihood statistic: for a catalog with events whose occupied cells all have positive rate the
    first component of `_compute_likelihood` is Σ_cells g_i log λ_i − N̄; for a catalog without events it is −N̄. -/
theorem pl_stat_eq_doc (g : List Nat) (r : List ℝ) (ecc : ℝ) (nObs : Nat) (hpos : OccPos (List.zip g r)) :
    (computeLikelihood g r ecc nObs).1 = .fin (docPL (List.zip g r) ecc) := by
  exact fst_eq_docPL g r ecc nObs hpos

example : (computeLikelihood [2, 0, 1] [(1:ℝ), 0, 3] 2 3).1 = .fin (docPL [(2, 1), (0, 0), (1, 3)] 2) :=
  pl_stat_eq_doc _ _ _ _ (by intro p hp hne; simp at hp; rcases hp with rfl | rfl | rfl <;> simp_all)

/-! ## magnitude tests -/

/-- documented M-test statistic of a histogram `h` with `n` events (definition in Proofs, restated):
    D = Σ_k ( log₁₀[N_obs/N_U · Λ_U(k) + 1] − log₁₀[N_obs/n · h(k) + 1] )², `lg10 x = log x / log 10` -/
theorem docD_def (unionH : List Nat) (nObs : Nat) (h : List Nat) (n : Nat) : docD unionH nObs h n =
    (List.zipWith (fun (c u : Nat) =>
      (lg10 ((nObs : ℝ) / ((unionH.sum : Nat) : ℝ) * (u : ℝ) + 1) - lg10 ((nObs : ℝ) / (n : ℝ) * (c : ℝ) + 1)) ^ 2)
      h unionH).sum := rfl

/-- documented observed statistic d_obs = Σ_k ( log₁₀[N_obs/N_U · Λ_U(k) + 1] − log₁₀[Ω(k) + 1] )²
    (also the resampled test's D_j, with Ω replaced by the resampled histogram Λ̃_j) -/
theorem docDobs_def (unionH : List Nat) (nObs : Nat) (obsH : List Nat) : docDobs unionH nObs obsH =
    (List.zipWith (fun (c u : Nat) =>
      (lg10 ((nObs : ℝ) / ((unionH.sum : Nat) : ℝ) * (u : ℝ) + 1) - lg10 ((c : ℝ) + 1)) ^ 2) obsH unionH).sum := rfl

/-- C10 magnitude test.  The code works with the forecast's MEAN magnitude rates Λ̄ = Λ_U/J and their sum
    N_U/J (`expected_rates.magnitude_counts()`); the factor J cancels and every reported number is the
    documented one in terms of the union histogram Λ_U = Σ_j magnitude_counts(Λ_j) and N_U = ΣΛ_U:
    observed statistic d_obs, one D_j per synthetic catalog WITH events (N_j ≠ 0), quantiles by C09. -/
theorem m_stat_eq_doc (C K : Nat) (sims : List Grid) (obs : Grid) (hWF : ∀ g ∈ sims, g.length ≤ C)
    (hobs : eventCount obs ≠ 0) (hU : (unionHist K sims).sum ≠ 0) :
    (magnitudeTest (α := ℝ) C K sims obs).status = .normal ∧
    (magnitudeTest (α := ℝ) C K sims obs).observed =
      some (.fin (docDobs (unionHist K sims) (magCounts K obs).sum (magCounts K obs))) ∧
    (magnitudeTest (α := ℝ) C K sims obs).distribution =
      (sims.filterMap fun g => if (magCounts K g).sum = 0 then none else
        some (.fin (docD (unionHist K sims) (magCounts K obs).sum (magCounts K g) (magCounts K g).sum))) ∧
    (magnitudeTest (α := ℝ) C K sims obs).quantile =
      quantiles (magnitudeTest (α := ℝ) C K sims obs).distribution
        (.fin (docDobs (unionHist K sims) (magCounts K obs).sum (magCounts K obs))) := by
  obtain ⟨h1, h2, h3, h4⟩ := magnitude_flow C K sims obs hWF hobs hU _ _ _ rfl rfl rfl
  exact ⟨h1, h2, h3, by rw [h4, h3]⟩

-- non-vacuity: two synthetic catalogs (one empty), two magnitude bins; the hypotheses hold
example := m_stat_eq_doc 1 2 [[[2, 1]], [[0, 0]]] [[1, 1]] (by simp) (by decide) (by decide)

/-- C10 resampled magnitude test: with the recorded resampled histograms `draws` (each of exactly N_obs
    events) the distribution is D_j = Σ_k ( log₁₀[Λ_U(k)·N/N_U + 1] − log₁₀[Λ̃_j(k) + 1] )² and the observed
    statistic is D_o with Ω in place of Λ̃_j (Serafini et al. 2024; docstring of the function). -/
theorem rm_stat_eq_doc (K : Nat) (sims : List Grid) (obs : Grid) (draws : List (List Nat))
    (hobs : eventCount obs ≠ 0) (hN : (magCounts K obs).sum ≠ 0)
    (hdraws : ∀ mc ∈ draws, mc.sum = (magCounts K obs).sum) :
    (resampledMagnitudeTest (α := ℝ) K sims obs draws).status = .normal ∧
    (resampledMagnitudeTest (α := ℝ) K sims obs draws).observed =
      some (.fin (docDobs (unionHist K sims) (magCounts K obs).sum (magCounts K obs))) ∧
    (resampledMagnitudeTest (α := ℝ) K sims obs draws).distribution =
      draws.map (fun mc => ELL.fin (docDobs (unionHist K sims) (magCounts K obs).sum mc)) ∧
    (resampledMagnitudeTest (α := ℝ) K sims obs draws).quantile =
      quantiles (resampledMagnitudeTest (α := ℝ) K sims obs draws).distribution
        (.fin (docDobs (unionHist K sims) (magCounts K obs).sum (magCounts K obs))) := by
  obtain ⟨h1, h2, h3, h4⟩ := resampled_flow K sims obs draws hobs hN hdraws _ _ rfl rfl
  exact ⟨h1, h2, h3, by rw [h4, h3]⟩

-- non-vacuity: two resampled histograms of N_obs = 2 events each
example := rm_stat_eq_doc 2 [[[2, 1]]] [[1, 1]] [[2, 0], [1, 1]] (by decide) (by decide) (by decide)

/-- documented multinomial log-likelihood at the relative frequencies, `lg z = log Γ(z+1)` (restated) -/
theorem docLogL_def (lg : ℝ → ℝ) (x : List ℝ) : docLogL lg x =
    lg x.sum + (x.map fun xi => xi * Real.log (xi / x.sum) - lg xi).sum := rfl

/-- documented MLL score 2·log( L(Λ_u + N_u/N_j + Λ_j + 1) / [L(Λ_u + N_u/N_j)·L(Λ_j + 1)] ), L = exp(log L) (restated) -/
theorem docMLL_def (lg : ℝ → ℝ) (u c : List Nat) : docMLL lg u c =
    2 * Real.log (Real.exp (docLogL lg (List.zipWith (fun (a b : Nat) =>
        (a : ℝ) + ((u.sum : Nat) : ℝ) / ((c.sum : Nat) : ℝ) + ((b : ℝ) + 1)) u c)) /
      (Real.exp (docLogL lg (u.map fun (a : Nat) => (a : ℝ) + ((u.sum : Nat) : ℝ) / ((c.sum : Nat) : ℝ))) *
       Real.exp (docLogL lg (c.map fun (b : Nat) => (b : ℝ) + 1)))) := rfl

/-- C10 MLL test: `MLL_score` (three `log_d_multinomial` calls combined as 2·(a − b − c)) is the documented
    log-likelihood ratio, for every generalised log-factorial `lg`; the test reports it for the observation and
    for every resampled histogram (none is skipped). -/
theorem mll_stat_eq_doc (lg : ℝ → ℝ) (K : Nat) (sims : List Grid) (obs : Grid) (draws : List (List Nat))
    (hobs : eventCount obs ≠ 0) :
    (∀ u c : List Nat, mllScore lg u c = docMLL lg u c) ∧
    (mllMagnitudeTest (α := ℝ) lg K sims obs draws).status = .normal ∧
    (mllMagnitudeTest (α := ℝ) lg K sims obs draws).observed =
      some (.fin (docMLL lg (unionHist K sims) (magCounts K obs))) ∧
    (mllMagnitudeTest (α := ℝ) lg K sims obs draws).distribution =
      draws.map (fun mc => ELL.fin (docMLL lg (unionHist K sims) mc)) ∧
    (mllMagnitudeTest (α := ℝ) lg K sims obs draws).quantile =
      quantiles (mllMagnitudeTest (α := ℝ) lg K sims obs draws).distribution
        (.fin (docMLL lg (unionHist K sims) (magCounts K obs))) := by
  obtain ⟨h1, h2, h3, h4⟩ := mll_flow lg K sims obs draws hobs
  exact ⟨mllScore_eq_doc lg, h1, h2, h3, by rw [h4, h3]⟩

example : (mllMagnitudeTest (α := ℝ) (fun z => z) 2 [[[2, 1]]] [[1, 1]] [[2, 0]]).status = .normal :=
  (mll_stat_eq_doc _ 2 _ _ _ (by decide)).2.1

/-! ## observed catalogs that were not cut to the magnitude range -/

/-- C10 number test with an observed catalog holding `nOut` further events outside the magnitude range (below the
    first edge): N_obs is the number of events OF THE CATALOG, the distribution the sizes of the synthetic
    catalogs, the quantiles the C09 probabilities at that N_obs. -/
theorem ntest_counts_all_events (sims : List Grid) (obs : Grid) (nOut : Nat) (h : sims ≠ []) :
    (numberTestOut sims obs nOut).distribution = sims.map eventCount ∧
    (numberTestOut sims obs nOut).observed = eventCount obs + nOut ∧
    (numberTestOut sims obs nOut).quantile =
      (some ((sims.map eventCount).countP (fun n => decide (eventCount obs + nOut ≤ n)), sims.length),
       some ((sims.map eventCount).countP (fun n => decide (n ≤ eventCount obs + nOut)), sims.length)) ∧
    numberTestOut sims obs 0 = numberTest sims obs := by
  refine ⟨rfl, rfl, ?_, by simp [numberTestOut, numberTest]⟩
  unfold numberTestOut
  simp only
  rw [Ecdf.quantiles_eq _ _ (by simpa using h)]
  simp only [Ecdf.cntGE, Ecdf.cntLE, List.countP_map, List.length_map]
  congr 3
  · apply List.countP_congr; intro n _; simp only [Function.comp, decide_eq_true_eq]; exact_mod_cast Iff.rfl
  · apply List.countP_congr; intro n _; simp only [Function.comp, decide_eq_true_eq]; exact_mod_cast Iff.rfl

example : (numberTestOut [[[2, 0]], [[0, 0]], [[3, 0]]] [[1, 0]] 2).quantile = (some (1, 3), some (3, 3)) := by
  rw [(ntest_counts_all_events _ _ _ (by simp)).2.2.1]; decide

/-- C10 magnitude tests and events outside the magnitude range: as long as the observed catalog has an event
    INSIDE the range, the `nOut` events below the first magnitude edge change nothing — status, observed
    statistic, test distribution and quantiles are those of the catalog cut to the range, so by `m_stat_eq_doc`,
    `rm_stat_eq_doc`, `mll_stat_eq_doc` the N_obs of the documented statistics is Σ_k Ω(k), the number of observed
    events in the histogram ("the histograms are normalised so that the total number of events across all bins
    is equal to the observed number"), not `event_count`. -/
theorem mag_tests_ignore_out_of_range (lg : ℝ → ℝ) (C K : Nat) (sims : List Grid) (obs : Grid)
    (draws : List (List Nat)) (nOut : Nat) (hobs : eventCount obs ≠ 0) :
    magnitudeTestOut (α := ℝ) C K sims obs nOut = magnitudeTest C K sims obs ∧
    resampledMagnitudeTestOut (α := ℝ) K sims obs draws nOut = resampledMagnitudeTest K sims obs draws ∧
    mllMagnitudeTestOut (α := ℝ) lg K sims obs draws nOut = mllMagnitudeTest lg K sims obs draws := by
  refine ⟨?_, ?_, ?_⟩
  · simp [magnitudeTestOut, magnitudeTest, magnitudeCore, hobs]
  · simp [resampledMagnitudeTestOut, resampledMagnitudeTest, resampledCore, hobs]
  · simp [mllMagnitudeTestOut, mllMagnitudeTest, mllCore, hobs]

/-- without such events the `…Out` models are the models of the tests (every observed catalog, also the empty one) -/
theorem mag_tests_out_zero (lg : ℝ → ℝ) (C K : Nat) (sims : List Grid) (obs : Grid) (draws : List (List Nat)) :
    magnitudeTestOut (α := ℝ) C K sims obs 0 = magnitudeTest C K sims obs ∧
    resampledMagnitudeTestOut (α := ℝ) K sims obs draws 0 = resampledMagnitudeTest K sims obs draws ∧
    mllMagnitudeTestOut (α := ℝ) lg K sims obs draws 0 = mllMagnitudeTest lg K sims obs draws := by
  refine ⟨?_, ?_, ?_⟩
  · by_cases h : eventCount obs = 0 <;> simp [magnitudeTestOut, magnitudeTest, magnitudeCore, h]
  · by_cases h : eventCount obs = 0 <;>
      simp [resampledMagnitudeTestOut, resampledMagnitudeTest, resampledCore, h]
  · by_cases h : eventCount obs = 0 <;> simp [mllMagnitudeTestOut, mllMagnitudeTest, mllCore, h]

/-- the documented observed statistic with two sub-threshold events next to two events in range: N_obs = 2 -/
example : (magnitudeTestOut (α := ℝ) 1 2 [[[2, 1]], [[0, 0]]] [[1, 1]] 2).observed =
    some (.fin (docDobs (unionHist 2 [[[2, 1]], [[0, 0]]]) 2 [1, 1])) := by
  rw [(mag_tests_ignore_out_of_range (fun z => z) 1 2 _ _ [] 2 (by decide)).1]
  exact (m_stat_eq_doc 1 2 [[[2, 1]], [[0, 0]]] [[1, 1]] (by simp) (by decide) (by decide)).2.1

/-- an observed catalog without any event is still signalled, with or without the `…Out` bookkeeping -/
theorem empty_obs_signalled_out (lg : ℝ → ℝ) (C K : Nat) (sims : List Grid) (obs : Grid) (draws : List (List Nat))
    (h : eventCount obs = 0) :
    ∀ r ∈ [magnitudeTestOut (α := ℝ) C K sims obs 0, resampledMagnitudeTestOut K sims obs draws 0,
           mllMagnitudeTestOut lg K sims obs draws 0],
      r.status = .notValid ∧ r.observed = none ∧ r.quantile = .pair none none ∧ r.distribution = [] := by
  intro r hr
  simp only [List.mem_cons, List.not_mem_nil, or_false] at hr
  rcases hr with rfl | rfl | rfl
  · simp [magnitudeTestOut, h, emptyObsResult]
  · simp [resampledMagnitudeTestOut, h, emptyObsResult]
  · simp [mllMagnitudeTestOut, h, emptyObsResult]

/-! ## explicit signalling -/

/-- C10: an empty observed catalog is signalled explicitly by every test whose statistic is undefined:
    spatial test: status not-valid, quantile (−1,−1), statistic nan, empty distribution;
    pseudo-likelihood test: no result; the three magnitude tests: not-valid, `None`, `(None, None)`, `[]`. -/
theorem empty_obs_signalled (lg : ℝ → ℝ) (C K : Nat) (sims : List Grid) (obs : Grid) (draws : List (List Nat))
    (h : eventCount obs = 0) :
    ((spatialTest (α := ℝ) C K sims obs).status = .notValid ∧
     (spatialTest (α := ℝ) C K sims obs).quantile = .sentinel ∧
     (spatialTest (α := ℝ) C K sims obs).observed = none ∧
     (spatialTest (α := ℝ) C K sims obs).distribution = []) ∧
    pseudolikelihoodTest (α := ℝ) C K sims obs = none ∧
    (∀ r ∈ [magnitudeTest (α := ℝ) C K sims obs, resampledMagnitudeTest K sims obs draws,
            mllMagnitudeTest lg K sims obs draws],
      r.status = .notValid ∧ r.observed = none ∧ r.quantile = .pair none none ∧ r.distribution = []) := by
  have h0 : (spatialCounts C obs).sum = 0 := Nat.le_zero.mp (h ▸ spatialCounts_sum_le C obs)
  refine ⟨spatial_flow_empty C K sims obs h0, pl_flow_empty C K sims obs h, ?_⟩
  intro r hr
  simp only [List.mem_cons, List.not_mem_nil, or_false] at hr
  rcases hr with rfl | rfl | rfl
  · simp [magnitudeTest, h, emptyObsResult]
  · simp [resampledMagnitudeTest, h, emptyObsResult]
  · simp [mllMagnitudeTest, h, emptyObsResult]

example : eventCount [[0, 0], [0, 0]] = 0 := by decide

/-- C10: synthetic catalogs without events are skipped exactly where the statistic is undefined.
    Spatial test (observation with events, N̄ ≠ 0): the distribution has one entry per synthetic catalog with
    events; magnitude test: one entry per synthetic catalog with events; pseudo-likelihood test: NO catalog is
    skipped (an empty catalog has the defined statistic −N̄). -/
theorem empty_sim_skipped (C K : Nat) (sims : List Grid) (obs : Grid) :
    ((spatialCounts C obs).sum ≠ 0 → nBar C K sims ≠ 0 →
      (spatialTest (α := ℝ) C K sims obs).distribution.length =
        sims.countP (fun g => decide ((spatialCounts C g).sum ≠ 0))) ∧
    ((∀ g ∈ sims, g.length ≤ C) → eventCount obs ≠ 0 → (unionHist K sims).sum ≠ 0 →
      (magnitudeTest (α := ℝ) C K sims obs).distribution.length =
        sims.countP (fun g => decide ((magCounts K g).sum ≠ 0))) ∧
    (∀ r, pseudolikelihoodTest (α := ℝ) C K sims obs = some r → r.distribution.length = sims.length) := by
  refine ⟨?_, ?_, ?_⟩
  · intro hobs hecc
    rw [spatial_distribution, length_filterMap_countP]
    apply List.countP_congr
    intro g _
    rw [computeLikelihood_snd_isSome]
    simp [hobs, hecc]
  · intro hWF hobs hU
    rw [(m_stat_eq_doc C K sims obs hWF hobs hU).2.2.1, length_filterMap_countP]
    apply List.countP_congr
    intro g _
    by_cases hg : (magCounts K g).sum = 0 <;> simp [hg]
  · intro r hr
    by_cases hobs : eventCount obs = 0
    · rw [pl_flow_empty C K sims obs hobs] at hr; cases hr
    · rcases hfirst : plFirst C K sims obs with _ | x
      · by_cases hleft : (keptObs C K sims obs).sum = 0
        · rw [pl_flow_negInf_none C K sims obs hfirst hleft] at hr; cases hr
        · obtain ⟨r', hr', _, _, _, hd⟩ := pl_flow_negInf_some C K sims obs hobs hfirst hleft
          rw [hr'] at hr; cases hr; simp [hd]
      · obtain ⟨r', hr', _, _, _, hd⟩ := pl_flow_fin C K sims obs x hobs hfirst
        rw [hr'] at hr; cases hr; simp [hd]

example : (spatialTest (α := ℝ) 1 1 [[[2]], [[0]], [[1]]] [[1]]).distribution.length = 2 := by
  have h := (empty_sim_skipped 1 1 [[[2]], [[0]], [[1]]] [[1]]).1 (by decide)
    (by simp [nBar, totalRate, meanRates, sumEntry, entry, RealOps.real_sum]; norm_num)
  rw [h]; decide

/-- C10: observed events in cells no synthetic catalog ever sampled.  If the first pass over all cells gives −∞
    and at least one observed event lies in a sampled cell, the reported statistic is FINITE, it is the documented
    statistic evaluated over the sampled cells only, and the status is `undersampled` (spatial test and
    pseudo-likelihood test).  (No hypothesis on the rates is needed: mean rates are proved non-negative.) -/
theorem undersampled_finite (C K : Nat) (sims : List Grid) (obs : Grid)
    (hleft : (keptObs C K sims obs).sum ≠ 0) :
    (sFirst C K sims obs = some .negInf →
      (spatialTest (α := ℝ) C K sims obs).status = .undersampled ∧
      (spatialTest (α := ℝ) C K sims obs).observed =
        some (.fin (docS (List.zip (keptObs C K sims obs) (keptRates C K sims)))) ∧
      (spatialTest (α := ℝ) C K sims obs).quantile =
        quantiles (spatialTest (α := ℝ) C K sims obs).distribution
          (.fin (docS (List.zip (keptObs C K sims obs) (keptRates C K sims))))) ∧
    (eventCount obs ≠ 0 → plFirst C K sims obs = .negInf →
      ∃ r, pseudolikelihoodTest (α := ℝ) C K sims obs = some r ∧ r.status = .undersampled ∧
        r.observed = some (.fin (docPL (List.zip (keptObs C K sims obs) (keptRates C K sims)) (nBar C K sims))) ∧
        r.quantile = quantiles r.distribution
          (.fin (docPL (List.zip (keptObs C K sims obs) (keptRates C K sims)) (nBar C K sims)))) := by
  constructor
  · intro hfirst
    exact (spatial_flow_negInf C K sims obs hfirst).2 _ (spatial_second C K sims obs hfirst hleft)
  · intro hobs hfirst
    obtain ⟨r, h1, h2, h3, h4, _⟩ := pl_flow_negInf_some C K sims obs hobs hfirst hleft
    exact ⟨r, h1, h2, h3, h4⟩

-- non-vacuity: 2 cells, the forecast samples only cell 0, one observed event in each cell:
-- first pass −∞, recomputed over cell 0, status undersampled, finite statistic
example : (spatialTest (α := ℝ) 2 1 [[[1],[0]]] [[1],[1]]).status = .undersampled ∧
    ∃ x, (spatialTest (α := ℝ) 2 1 [[[1],[0]]] [[1],[1]]).observed = some (.fin x) := by
  have hr : sRates 2 1 [[[1],[0]]] = [1, 0] := by
    simp [sRates, spatialRates, meanRates, sumEntry, entry, RealOps.real_sum, List.range_succ]
  have hc : spatialCounts 2 [[1],[1]] = [1, 1] := by decide
  have hk : keptObs 2 1 [[[1],[0]]] [[1],[1]] = [1] := by
    simp [keptObs, hr, hc, goodMask, maskBy]
  have hb : nBar 2 1 [[[1],[0]]] = 1 := by
    simp [nBar, totalRate, meanRates, sumEntry, entry, RealOps.real_sum, List.range_succ]
  have hfirst : sFirst 2 1 [[[1],[0]]] [[1],[1]] = some .negInf := by
    unfold sFirst
    rw [hr, hc, hb, computeLikelihood_snd _ _ _ _ (by decide) (by decide) (by norm_num)]
    rw [wlogSum_negInf ⟨(1, 0), by simp, by simp, by simp⟩]
    rfl
  have := (undersampled_finite 2 1 [[[1],[0]]] [[1],[1]] (by rw [hk]; decide)).1 hfirst
  exact ⟨this.1, _, this.2.1⟩

/-- ... and if NO observed event lies in a sampled cell the statistic is undefined and this is signalled:
    spatial test not-valid with (−1,−1) and nan, pseudo-likelihood test no result. -/
theorem undersampled_nothing_left (C K : Nat) (sims : List Grid) (obs : Grid)
    (hleft : (keptObs C K sims obs).sum = 0) :
    (sFirst C K sims obs = some .negInf →
      (spatialTest (α := ℝ) C K sims obs).status = .notValid ∧
      (spatialTest (α := ℝ) C K sims obs).quantile = .sentinel ∧
      (spatialTest (α := ℝ) C K sims obs).observed = none) ∧
    (plFirst C K sims obs = .negInf → pseudolikelihoodTest (α := ℝ) C K sims obs = none) := by
  constructor
  · intro hfirst
    exact (spatial_flow_negInf C K sims obs hfirst).1 (spatial_second_none C K sims obs hleft)
  · intro hfirst
    exact pl_flow_negInf_none C K sims obs hfirst hleft

/-- C10: no test ever reports −∞ as the observed statistic — whatever the status, in particular never with
    status `normal`: the spatial and pseudo-likelihood tests replace it (previous two theorems), the magnitude
    statistics are finite by the +1 regularisation. -/
theorem never_silent_negInf (lg : ℝ → ℝ) (C K : Nat) (sims : List Grid) (obs : Grid) (draws : List (List Nat)) :
    (spatialTest (α := ℝ) C K sims obs).observed ≠ some .negInf ∧
    (∀ r, pseudolikelihoodTest (α := ℝ) C K sims obs = some r → r.observed ≠ some .negInf) ∧
    (magnitudeTest (α := ℝ) C K sims obs).observed ≠ some .negInf ∧
    (resampledMagnitudeTest (α := ℝ) K sims obs draws).observed ≠ some .negInf ∧
    (mllMagnitudeTest (α := ℝ) lg K sims obs draws).observed ≠ some .negInf := by
  refine ⟨?_, ?_, ?_, ?_, ?_⟩
  · rcases hfirst : sFirst C K sims obs with _ | _ | x
    · rw [(spatial_flow_nan C K sims obs hfirst).2.2]; simp
    · by_cases hleft : (keptObs C K sims obs).sum = 0
      · rw [((undersampled_nothing_left C K sims obs hleft).1 hfirst).2.2]; simp
      · rw [((undersampled_finite C K sims obs hleft).1 hfirst).2.1]; simp
    · rw [(spatial_flow_fin C K sims obs x hfirst).2.1]; simp
  · intro r hr
    by_cases hobs : eventCount obs = 0
    · rw [pl_flow_empty C K sims obs hobs] at hr; cases hr
    · rcases hfirst : plFirst C K sims obs with _ | x
      · by_cases hleft : (keptObs C K sims obs).sum = 0
        · rw [pl_flow_negInf_none C K sims obs hfirst hleft] at hr; cases hr
        · obtain ⟨r', hr', _, ho, _⟩ := pl_flow_negInf_some C K sims obs hobs hfirst hleft
          rw [hr'] at hr; cases hr; rw [ho]; simp
      · obtain ⟨r', hr', _, ho, _⟩ := pl_flow_fin C K sims obs x hobs hfirst
        rw [hr'] at hr; cases hr; rw [ho]; simp
  · unfold magnitudeTest emptyObsResult
    split
    · simp
    · simp only; split <;> simp
  · unfold resampledMagnitudeTest emptyObsResult
    split <;> simp
  · unfold mllMagnitudeTest emptyObsResult
    split <;> simp

/-! ## the whole test distributions, N̄, and when under-sampling is flagged -/

/-- N̄ = `forecast.expected_rates.sum()`, the "expected number of events" of the documentation, is the mean
    number of events per synthetic catalog N_U / J. -/
theorem expected_count_eq_mean (C K : Nat) (sims : List Grid) (hWF : ∀ g ∈ sims, WF C K g) :
    nBar C K sims = (((sims.map eventCount).sum : Nat) : ℝ) / (sims.length : ℝ) :=
  nBar_eq_mean C K sims hWF

/-- C10 spatial test distribution: for an observation with events, the distribution consists of the documented
    S_j of every synthetic catalog with events, in order; all of them are finite, because a synthetic catalog of
    the forecast only occupies cells with positive mean rate (proved, not assumed). -/
theorem s_dist_eq_doc (C K : Nat) (sims : List Grid) (obs : Grid) (hWF : ∀ g ∈ sims, WF C K g)
    (hobs : (spatialCounts C obs).sum ≠ 0) :
    (spatialTest (α := ℝ) C K sims obs).distribution =
      sims.filterMap fun g => if (spatialCounts C g).sum = 0 then none else
        some (.fin (docS (List.zip (spatialCounts C g) (sRates C K sims)))) := by
  rw [spatial_distribution]
  apply List.filterMap_congr
  intro g hg
  by_cases hz : (spatialCounts C g).sum = 0
  · rw [computeLikelihood_snd_none _ _ _ _ (Or.inl hz)]; simp [hz]
  · have htot := sRates_sum_pos C K sims g hg (hWF g hg) hz
    have hecc : nBar C K sims ≠ 0 := by rw [nBar_eq_sum]; exact ne_of_gt htot
    rw [snd_eq_docS _ _ _ _ (by rw [spatialCounts_length, sRates_length]) hz hobs hecc
      (occPos_sim C K sims g hg (hWF g hg)) htot]
    simp [hz]

/-- C10 pseudo-likelihood test distribution: whenever the test returns a result, its distribution is the
    documented L̂_j = Σ_cells g_i log λ_i − N̄ of EVERY synthetic catalog (−N̄ for an empty one), all finite. -/
theorem pl_dist_eq_doc (C K : Nat) (sims : List Grid) (obs : Grid) (hWF : ∀ g ∈ sims, WF C K g) :
    ∀ r, pseudolikelihoodTest (α := ℝ) C K sims obs = some r →
      r.distribution = sims.map fun g =>
        ELL.fin (docPL (List.zip (spatialCounts C g) (sRates C K sims)) (nBar C K sims)) := by
  intro r hr
  have key : (sims.map fun g => (computeLikelihood (spatialCounts C g) (sRates C K sims) (nBar C K sims)
      (spatialCounts C obs).sum).1) = sims.map fun g =>
        ELL.fin (docPL (List.zip (spatialCounts C g) (sRates C K sims)) (nBar C K sims)) := by
    apply List.map_congr_left
    intro g hg
    exact fst_eq_docPL _ _ _ _ (occPos_sim C K sims g hg (hWF g hg))
  by_cases hobs : eventCount obs = 0
  · rw [pl_flow_empty C K sims obs hobs] at hr; cases hr
  · rcases hfirst : plFirst C K sims obs with _ | x
    · by_cases hleft : (keptObs C K sims obs).sum = 0
      · rw [pl_flow_negInf_none C K sims obs hfirst hleft] at hr; cases hr
      · obtain ⟨r', hr', _, _, _, hd⟩ := pl_flow_negInf_some C K sims obs hobs hfirst hleft
        rw [hr'] at hr; cases hr; rw [hd, key]
    · obtain ⟨r', hr', _, _, _, hd⟩ := pl_flow_fin C K sims obs x hobs hfirst
      rw [hr'] at hr; cases hr; rw [hd, key]

/-- C10: the first pass is −∞ (and hence the result is flagged `undersampled`, or signalled as undefined)
    exactly when an observed event lies in a cell whose mean rate is 0, i.e. that no synthetic catalog sampled. -/
theorem undersampled_iff_unsampled_cell (C K : Nat) (sims : List Grid) (obs : Grid)
    (hobs : (spatialCounts C obs).sum ≠ 0) :
    plFirst C K sims obs = .negInf ↔
      ∃ p ∈ List.zip (spatialCounts C obs) (sRates C K sims), p.1 ≠ 0 ∧ p.2 = 0 :=
  plFirst_negInf_iff C K sims obs hobs

/-! ## calibration test -/

/-- C10 calibration test: exactly the results whose status is not 'not-valid' contribute, in order, the chosen
    member of their quantile pair; for results of the spatial test the sentinel −1 never enters the sample. -/
theorem calibration_skips_notvalid (results : List (Status × Quant)) (delta1 : Bool) :
    calibrationSample results delta1 =
      (results.filter fun r => decide (r.1 ≠ Status.notValid)).map (fun r => qval delta1 r.2) ∧
    (calibrationSample results delta1).length = results.countP (fun r => decide (r.1 ≠ Status.notValid)) := by
  constructor
  · unfold calibrationSample
    congr 1
    apply List.filter_congr
    intro r _
    cases r.1 <;> rfl
  · unfold calibrationSample
    rw [List.length_map, ← List.countP_eq_length_filter]
    apply List.countP_congr
    intro r _
    cases r.1 <;> simp

/-- the spatial test uses the sentinel (−1,−1) exactly together with status 'not-valid' -/
theorem spatial_sentinel_iff_notValid (C K : Nat) (sims : List Grid) (obs : Grid) :
    (spatialTest (α := ℝ) C K sims obs).quantile = .sentinel ↔
      (spatialTest (α := ℝ) C K sims obs).status = .notValid := by
  have hq : ∀ (d : List (ELL ℝ)) (v : ELL ℝ), quantiles d v ≠ .sentinel := by
    intro d v; unfold quantiles; split <;> simp
  rcases hfirst : sFirst C K sims obs with _ | _ | x
  · have := spatial_flow_nan C K sims obs hfirst
    rw [this.1, this.2.1]; simp
  · by_cases hleft : (keptObs C K sims obs).sum = 0
    · have := (undersampled_nothing_left C K sims obs hleft).1 hfirst
      rw [this.1, this.2.1]; simp
    · have := (undersampled_finite C K sims obs hleft).1 hfirst
      rw [this.1, this.2.2]; simp [hq]
  · have := spatial_flow_fin C K sims obs x hfirst
    rw [this.1, this.2.2]; simp [hq]

end CatEvals
