import PycsepVerif.Proofs.BinaryTests
import PycsepVerif.Properties.C16

/-!
# C16, wave 4 — the tests report the definitions for the observed catalog and for EVERY simulated one

Theorems about `Model/BinaryTests.lean`: the pipeline `_binary_likelihood_test` / `_brier_score_test` with the
simulated catalogs produced inside the model by the sampler of C06 (Soft64 weights, `searchsorted(side='right')`,
`add.at`, the count assertion). `castR rq` is the real view of the binary64 rate array `rq`.

The point: `binaryLL_eq_def` needs "every active bin has a positive rate". For the SIMULATED catalogs this hypothesis
is discharged here from the sampler theorem `Sampler.never_in_masked_bin` — whatever the rates (zeros, even negative
ones) and whatever the uniform numbers ≥ 0, a simulated catalog never has an event in a bin of rate ≤ 0. So every
simulated entry of the binary tests IS the definition, finite, with no hypothesis; the known finding D17 can only
concern the observed entry.
-/
namespace BinaryBrier
open RealOps PoissonLL Sampler

/-- **C16, simulated catalogs**: each has the forecast's shape, exactly as many events as the observation has active
    bins, and no active bin of rate ≤ 0. -/
theorem sim_entry_active_pos (rq : List ℚ) (cnt : List ℕ) (rows : List (List ℚ)) (out : TestOut ℝ)
    (hd : ∀ row ∈ rows, ∀ r ∈ row, 0 ≤ r)
    (h : binaryLikelihoodTest rq (castR rq) cnt rows = some out) :
    out.arrays.length = rows.length ∧
    ∀ a ∈ out.arrays, a.length = rq.length ∧ a.sum = nActive cnt ∧
      ∀ p ∈ (castR rq).zip a, 0 < p.2 → 0 < p.1 := by
  unfold binaryLikelihoodTest at h
  split at h
  · cases h
  · rename_i arrs hs
    simp only [Option.some.injEq] at h
    subst h
    refine ⟨(simRows_spec _ _ _ _ hs).1, ?_⟩
    intro a ha
    obtain ⟨hl, hsum, hpos⟩ := sim_active_pos rq _ rows arrs hs hd a ha
    refine ⟨hl, hsum, ?_⟩
    intro p hp hw
    obtain ⟨k, hk, e1, e2⟩ := mem_zip_castR hp
    rw [e1]
    have := hpos k hk (by rw [← e2]; exact hw)
    exact_mod_cast this

/-- **C16, the binary tests report the definition for every simulated catalog** — with NO hypothesis on the rates:
    the k-th simulated entry is `binaryLL` of (rates, k-th simulated catalog), that value is the `ELL`-valued definition
    (so the definition is finite there) and equals Σ_active ln(1−e^{−λ}) + Σ_inactive(−λ). The observed entry is
    `binaryLL` of (rates, observed counts) — the only entry known finding D17 can affect. -/
theorem binary_test_entries_eq_def (rq : List ℚ) (cnt : List ℕ) (rows : List (List ℚ)) (out : TestOut ℝ)
    (hd : ∀ row ∈ rows, ∀ r ∈ row, 0 ≤ r)
    (h : binaryLikelihoodTest rq (castR rq) cnt rows = some out) :
    out.obs = binaryLL ((castR rq).zip cnt) ∧
    out.sims = out.arrays.map (fun a => binaryLL ((castR rq).zip a)) ∧
    ∀ a ∈ out.arrays,
      binaryDef ((castR rq).zip a) = .fin (binaryLL ((castR rq).zip a)) ∧
      binaryLL ((castR rq).zip a) =
        ((((castR rq).zip a).filter (fun p => decide (0 < p.2))).map (fun p => Real.log (1 - Real.exp (-p.1)))).sum
        + ((((castR rq).zip a).filter (fun p => !decide (0 < p.2))).map (fun p => -p.1)).sum := by
  have hact := (sim_entry_active_pos rq cnt rows out hd h).2
  unfold binaryLikelihoodTest at h
  split at h
  · cases h
  · simp only [Option.some.injEq] at h
    subst h
    refine ⟨rfl, rfl, ?_⟩
    intro a ha
    have hp := (hact a ha).2.2
    exact ⟨binaryLL_eq_binaryDef _ hp, binaryLL_eq_def _ hp⟩

/-- **C16, default random path** (`random_numbers=None`, `num_simulations = nsim ≥ 0`, with or without seed): there is
    one simulated entry PER simulated catalog, the k-th entry is the score of the k-th catalog (no entry is the score of
    another simulation's catalog), each catalog is 0/1-valued with exactly `nActive cnt` active bins, all of positive rate,
    and every entry equals the definition — again with no hypothesis on the rates. -/
theorem binary_stream_entries_eq_def (rq : List ℚ) (cnt : List ℕ) (nsim : ℕ) (stream : List ℚ) (out : TestOut ℝ)
    (hd : ∀ r ∈ stream, 0 ≤ r)
    (h : binaryLikelihoodTestStream rq (castR rq) cnt nsim stream = some out) :
    out.arrays.length = nsim ∧ out.sims.length = nsim ∧
    out.obs = binaryLL ((castR rq).zip cnt) ∧
    out.sims = out.arrays.map (fun a => binaryLL ((castR rq).zip a)) ∧
    ∀ a ∈ out.arrays, a.length = rq.length ∧ a.sum = nActive cnt ∧ (∀ x ∈ a, x = 0 ∨ x = 1) ∧
      binaryDef ((castR rq).zip a) = .fin (binaryLL ((castR rq).zip a)) := by
  unfold binaryLikelihoodTestStream at h
  split at h
  · cases h
  · rename_i arrs hs
    simp only [Option.some.injEq] at h
    subst h
    obtain ⟨hl, hall⟩ := stream_arrays_spec rq _ nsim stream arrs hd hs
    refine ⟨hl, by simp [hl], rfl, rfl, ?_⟩
    intro a ha
    obtain ⟨hb, hsum, hlen, hpos⟩ := hall a ha
    refine ⟨hlen, hsum, hb, ?_⟩
    apply binaryLL_eq_binaryDef
    intro p hp hw
    obtain ⟨k, hk, e1, e2⟩ := mem_zip_castR hp
    rw [e1]
    have := hpos k hk (by rw [← e2]; exact hw)
    exact_mod_cast this

/-- the Brier test on the default random path: one entry per simulated catalog, each the definition with N = number of bins -/
theorem brier_stream_entries_eq_def (rq : List ℚ) (dims : List ℕ) (cnt : List ℕ) (nsim : ℕ) (stream : List ℚ)
    (out : TestOut ℝ) (hd : ∀ r ∈ stream, 0 ≤ r)
    (h : brierScoreTestStream rq (castR rq) dims cnt nsim stream = some out) :
    out.arrays.length = nsim ∧ out.obs = brierDef dims.prod ((castR rq).zip cnt) ∧
    out.sims = out.arrays.map (fun a => brierDef rq.length ((castR rq).zip a)) ∧
    ∀ a ∈ out.arrays, a.length = rq.length ∧ a.sum = nActive cnt := by
  unfold brierScoreTestStream at h
  split at h
  · cases h
  · rename_i arrs hs
    simp only [Option.some.injEq] at h
    subst h
    obtain ⟨hl, hall⟩ := stream_arrays_spec rq _ nsim stream arrs hd hs
    refine ⟨hl, brier_eq_def _ _, ?_, fun a ha => ⟨(hall a ha).2.2.1, (hall a ha).2.1⟩⟩
    apply List.map_congr_left
    intro a _
    rw [brier_eq_def, weightsMasked_length]
    simp

-- two simulations on the default path: the second consumes what the first left of the stream
example : Sampler.testBinaryStream (Sampler.weightsMasked [1/2, 0, 1/4]) 1 (Nat.succ (Nat.succ 0))
    [1/10, 9/10, 1/5, 3/10] = some [[1, 0, 0], [0, 0, 1]] := by
  simp only [Sampler.testBinaryStream]
  decide +kernel

/-- the observed entry equals the definition when no observed event sits in a bin of rate ≤ 0 -/
theorem binary_test_observed_eq_def (rq : List ℚ) (cnt : List ℕ) (rows : List (List ℚ)) (out : TestOut ℝ)
    (h : binaryLikelihoodTest rq (castR rq) cnt rows = some out)
    (hpos : ∀ p ∈ (castR rq).zip cnt, 0 < p.2 → 0 < p.1) :
    binaryDef ((castR rq).zip cnt) = .fin out.obs := by
  unfold binaryLikelihoodTest at h
  split at h
  · cases h
  · simp only [Option.some.injEq] at h
    subst h
    exact binaryLL_eq_binaryDef _ hpos

/-- **C16, the Brier test**: observed entry = −2/N·Σ(…)² with N the product of the observed array's dimensions, every
    simulated entry the same with N the number of bins (equal when the dimensions multiply to the number of bins). -/
theorem brier_test_entries_eq_def (rq : List ℚ) (dims : List ℕ) (cnt : List ℕ) (rows : List (List ℚ)) (out : TestOut ℝ)
    (h : brierScoreTest rq (castR rq) dims cnt rows = some out) :
    out.obs = brierDef dims.prod ((castR rq).zip cnt) ∧
    out.sims = out.arrays.map (fun a => brierDef rq.length ((castR rq).zip a)) := by
  unfold brierScoreTest at h
  split at h
  · cases h
  · simp only [Option.some.injEq] at h
    subst h
    refine ⟨brier_eq_def _ _, ?_⟩
    apply List.map_congr_left
    intro a _
    rw [brier_eq_def, weightsMasked_length]
    simp

/-- the simulated catalogs of the Brier test obey the same facts (shape, count, only positive-rate bins active) -/
theorem brier_test_sim_arrays (rq : List ℚ) (dims : List ℕ) (cnt : List ℕ) (rows : List (List ℚ)) (out : TestOut ℝ)
    (hd : ∀ row ∈ rows, ∀ r ∈ row, 0 ≤ r)
    (h : brierScoreTest rq (castR rq) dims cnt rows = some out) :
    out.arrays.length = rows.length ∧
    ∀ a ∈ out.arrays, a.length = rq.length ∧ a.sum = nActive cnt ∧ ∀ k, k < rq.length → 0 < a.getD k 0 → 0 < rq.getD k 0 := by
  unfold brierScoreTest at h
  split at h
  · cases h
  · rename_i arrs hs
    simp only [Option.some.injEq] at h
    subst h
    exact ⟨(simRows_spec _ _ _ _ hs).1, sim_active_pos rq _ rows arrs hs hd⟩

/-- **no exception**: a forecast with at least one positive rate (non-positive rates are masked to weight 0), rows of
    exactly `nActive` uniform numbers in [0,1): both pipelines return. -/
theorem pipeline_total (rq : List ℚ) (hv : ValidRates (maskRates rq)) (dims : List ℕ) (cnt : List ℕ) (rows : List (List ℚ))
    (hr : ∀ row ∈ rows, row.length = nActive cnt ∧ ∀ r ∈ row, r < 1) :
    (∃ out, binaryLikelihoodTest rq (castR rq) cnt rows = some out) ∧
    (∃ out, brierScoreTest rq (castR rq) dims cnt rows = some out) := by
  obtain ⟨arrs, ha⟩ := simRows_total (maskRates rq) hv (nActive cnt) rows hr
  have ha' : simRows (weightsMasked rq) (nActive cnt) rows = some arrs := ha
  constructor
  · unfold binaryLikelihoodTest; rw [ha']; exact ⟨_, rfl⟩
  · unfold brierScoreTest; rw [ha']; exact ⟨_, rfl⟩

/-- **the count assertion**: a row of uniform numbers whose width is not the number of active bins of the observation
    makes both tests raise (`assert sim_fore.sum() == sim_cells`). -/
theorem pipeline_row_width_assert (rq : List ℚ) (dims : List ℕ) (cnt : List ℕ) (rows : List (List ℚ))
    (hw : ∃ row ∈ rows, row.length ≠ nActive cnt) :
    binaryLikelihoodTest rq (castR rq) cnt rows = none ∧ brierScoreTest rq (castR rq) dims cnt rows = none := by
  have := simRows_wrong_width (weightsMasked rq) (nActive cnt) rows hw
  constructor
  · unfold binaryLikelihoodTest; rw [this]
  · unfold brierScoreTest; rw [this]

/-- the reported quantile counts the simulated entries not above the observed one, out of all simulations -/
theorem pipeline_quantile (rq : List ℚ) (cnt : List ℕ) (rows : List (List ℚ)) (out : TestOut ℝ)
    (h : binaryLikelihoodTest rq (castR rq) cnt rows = some out) :
    out.q = ((out.sims.filter (fun s => decide (s ≤ out.obs))).length, rows.length) ∧ out.q.1 ≤ out.q.2 := by
  unfold binaryLikelihoodTest at h
  split at h
  · cases h
  · rename_i arrs hs
    simp only [Option.some.injEq] at h
    subst h
    have hl := (simRows_spec _ _ _ _ hs).1
    simp only [quantileA, List.length_map, hl]
    refine ⟨?_, ?_⟩
    · rw [List.countP_eq_length_filter]
      congr 2
    · have := List.countP_le_length (p := fun s => RealOps.le s (binaryLL ((castR rq).zip cnt)))
        (l := arrs.map (fun a => binaryLL ((castR rq).zip a)))
      simpa [hl] using this

/-- **wrappers**: `binary_spatial_test` is the pipeline on (spatial rates as given, integer row sums of the counts) for
    ANY vector of spatial rates; `binary_conditional_likelihood_test` and `brier_score_test` are the pipeline on the
    flattened arrays, the observed Brier entry being normalised by rows × columns. -/
theorem wrappers_report_def (mq : List ℚ) (dq : List (List ℚ)) (cnt : List (List ℕ)) (rows : List (List ℚ))
    (oS oC oB : TestOut ℝ)
    (hS : binarySpatialTest mq (castR mq) cnt rows = some oS)
    (hC : binaryCLTest dq (dq.map castR) cnt rows = some oC)
    (hB : brierTest dq (dq.map castR) cnt rows = some oB) :
    oS.obs = binaryLL ((castR mq).zip (cnt.map List.sum)) ∧
    oC.obs = binaryLL ((castR dq.flatten).zip cnt.flatten) ∧
    oB.obs = brierDef (cnt.length * (cnt.headD []).length) ((castR dq.flatten).zip cnt.flatten) ∧
    oB.sims = oB.arrays.map (fun a => brierDef dq.flatten.length ((castR dq.flatten).zip a)) := by
  have hfl : (dq.map castR).flatten = castR dq.flatten := by
    unfold castR; rw [List.map_flatten]
  unfold binaryCLTest at hC
  unfold brierTest at hB
  rw [hfl] at hC hB
  refine ⟨?_, ?_, ?_, ?_⟩
  · unfold binarySpatialTest binaryLikelihoodTest at hS
    split at hS
    · cases hS
    · simp only [Option.some.injEq] at hS; subst hS; rfl
  · unfold binaryLikelihoodTest at hC
    split at hC
    · cases hC
    · simp only [Option.some.injEq] at hC; subst hC; rfl
  · have := (brier_test_entries_eq_def _ _ _ _ _ hB).1
    simpa using this
  · exact (brier_test_entries_eq_def _ _ _ _ _ hB).2

theorem list_sum_nonpos (l : List ℝ) (h : ∀ x ∈ l, x ≤ 0) : l.sum ≤ 0 := by
  induction l with
  | nil => simp
  | cons x xs ih =>
    have h1 := h x List.mem_cons_self
    have h2 := ih (fun y hy => h y (List.mem_cons_of_mem _ hy))
    simp only [List.sum_cons]; linarith

/-- **C16, sign**: with non-negative rates and positive rates in the active bins the joint log-likelihood is ≤ 0. -/
theorem binaryLL_nonpos (bins : List (ℝ × ℕ)) (hnn : ∀ p ∈ bins, 0 ≤ p.1) (h : ∀ p ∈ bins, 0 < p.2 → 0 < p.1) :
    binaryLL bins ≤ 0 := by
  rw [binaryLL_real]
  apply list_sum_nonpos
  intro x hx
  obtain ⟨p, hp, rfl⟩ := List.mem_map.mp hx
  by_cases hw : 0 < p.2
  · have hr := h p hp hw
    simp only [hw, decide_true, binTerm_active_pos p.1 hr]
    apply Real.log_nonpos
    · have : Real.exp (-p.1) < 1 := by rw [Real.exp_lt_one_iff]; linarith
      linarith
    · have := Real.exp_pos (-p.1); linarith
  · simp only [hw, decide_false, binTerm_inactive]
    linarith [hnn p hp]

/-! ### the hypotheses are satisfiable -/

-- a concrete run of the pipeline: rates [1/2, 0, 1/4], observed counts [2, 0, 1] (two active bins), one row of two
-- uniform numbers; the zero-rate bin is never drawn
example : (Sampler.simRows (Sampler.weightsMasked [1/2, 0, 1/4]) 2 [[1/10, 9/10]]) = some [[1, 0, 1]] := by
  decide +kernel

example : ∃ out, binaryLikelihoodTest [1/2, 0, 1/4] (castR [1/2, 0, 1/4]) [2, 0, 1] [[1/10, 9/10]] = some out := by
  have hv : ValidRates (maskRates [1/2, 0, 1/4]) :=
    ⟨by decide +kernel, by decide +kernel, ⟨1/2, by decide +kernel, by decide +kernel⟩⟩
  refine (pipeline_total [1/2, 0, 1/4] hv [] [2, 0, 1] [[1/10, 9/10]] ?_).1
  intro row hrow
  simp only [List.mem_singleton] at hrow
  subst hrow
  refine ⟨by decide, ?_⟩
  intro r hr
  simp only [List.mem_cons, List.not_mem_nil, or_false] at hr
  rcases hr with rfl | rfl <;> norm_num

example : binaryLikelihoodTest [1/2, 0, 1/4] (castR [1/2, 0, 1/4]) [2, 0, 1] [[1/10]] = none :=
  (pipeline_row_width_assert _ [] _ _ ⟨[1/10], by simp, by decide⟩).1

-- D17: the value the code gives an event in a zero-rate bin is positive, so the sign theorem cannot hold there
example : binaryLL [((0 : ℝ), 1)] = 1 := by
  have := binaryLL_zero_rate_event [] [] 0 1 le_rfl (by omega)
  simpa [binaryLL_real] using this

example : binaryLL [((0.5 : ℝ), 2), (0.25, 0)] ≤ 0 :=
  binaryLL_nonpos _ (by simp; norm_num) (by simp; norm_num)

end BinaryBrier
