import PycsepVerif.Properties.C16_Tests
import PycsepVerif.Properties.C03
import PycsepVerif.Model.BinaryPublic

/-!
# C16, round 4 — the public tests on a catalog: "only which bins are active, not how many events they hold"

`Model/BinaryPublic.lean` composes the gridding call of each public test (C03's model) with the test pipeline.  The
activity clause of the property is proved here at the level of the CATALOG: two catalogs that occupy the same set of
(cell, magnitude-bin) pairs — however many events each pair holds, in whatever order — get the same observed entry, the
same simulated catalogs, the same simulated entries and the same quantile from `binary_conditional_likelihood_test` and
`brier_score_test`; for `binary_spatial_test` the same holds with the set of occupied CELLS (magnitudes are never looked
at).  All of this for every `RealOps` instance, so for the executable Float model too.
-/
namespace BinaryBrier
open RealOps Gridding

/-- the activity pattern of a count array -/
def activity (cnt : List ℕ) : List Bool := cnt.map (fun w => decide (0 < w))

theorem nActive_of_activity {c1 c2 : List ℕ} (h : activity c1 = activity c2) : nActive c1 = nActive c2 := by
  unfold nActive
  have e : ∀ c : List ℕ, c.countP (fun w => decide (0 < w)) = (activity c).countP id := by
    intro c; unfold activity; rw [List.countP_map]; rfl
  rw [e, e, h]

section generic
variable {α : Type} [RealOps α]

/-- **the whole pipeline sees the observation only through its activity pattern**: observed entry, simulated catalogs,
    simulated entries, quantile — all equal for two count arrays with the same support (any `RealOps` instance) -/
theorem pipeline_activity_only (rq : List ℚ) (ra : List α) (dims : List ℕ) (c1 c2 : List ℕ) (rows : List (List ℚ))
    (h : activity c1 = activity c2) :
    binaryLikelihoodTest rq ra c1 rows = binaryLikelihoodTest rq ra c2 rows ∧
    brierScoreTest rq ra dims c1 rows = brierScoreTest rq ra dims c2 rows := by
  obtain ⟨hb, hbr⟩ := depends_only_on_activity dims ra c1 c2 h
  unfold binaryLikelihoodTest brierScoreTest
  rw [nActive_of_activity h, hb, hbr]
  exact ⟨rfl, rfl⟩

end generic

/-- the activity pattern of the space-magnitude count matrix is the occupancy relation of the catalog -/
theorem activity_countMatrix (ncell nbin : ℕ) (evs evs' : List Ev)
    (hsame : ∀ i k, (∃ e ∈ evs, e.cell = some i ∧ e.bin = some k) ↔ (∃ e ∈ evs', e.cell = some i ∧ e.bin = some k)) :
    activity (countMatrix ncell nbin evs).flatten = activity (countMatrix ncell nbin evs').flatten := by
  unfold activity countMatrix
  rw [List.map_flatten, List.map_flatten, List.map_map, List.map_map]
  congr 1
  apply List.map_congr_left
  intro i _
  simp only [Function.comp, List.map_map]
  apply List.map_congr_left
  intro k _
  simp only [Function.comp]
  have key : ∀ l : List Ev, (0 < l.countP (fun e => e.cell == some i && e.bin == some k)) ↔
      ∃ e ∈ l, e.cell = some i ∧ e.bin = some k := by
    intro l
    rw [List.countP_pos_iff]
    constructor
    · rintro ⟨e, he, hp⟩
      simp only [Bool.and_eq_true, beq_iff_eq] at hp
      exact ⟨e, he, hp⟩
    · rintro ⟨e, he, hp⟩
      exact ⟨e, he, by simp only [Bool.and_eq_true, beq_iff_eq]; exact hp⟩
  rw [decide_eq_decide, key, key]
  exact hsame i k

/-- the activity pattern of the spatial counts is the set of occupied cells -/
theorem activity_countVec (n : ℕ) (l l' : List (Option ℕ))
    (hsame : ∀ i, some i ∈ l ↔ some i ∈ l') : activity (countVec n l) = activity (countVec n l') := by
  unfold activity countVec
  rw [List.map_map, List.map_map]
  apply List.map_congr_left
  intro i _
  simp only [Function.comp]
  have key : ∀ l : List (Option ℕ), (0 < l.countP (fun o => o == some i)) ↔ some i ∈ l := by
    intro l
    rw [List.countP_pos_iff]
    constructor
    · rintro ⟨o, ho, hp⟩
      rw [beq_iff_eq] at hp
      exact hp ▸ ho
    · intro h
      exact ⟨some i, h, by simp⟩
  rw [decide_eq_decide, key, key]
  exact hsame i

section generic
variable {α : Type} [RealOps α]

/-- **C16, activity clause at catalog level (CL and Brier).** Two catalogs whose events all lie in the region and the
    magnitude range and that occupy the same set of (cell, bin) pairs give the same result of
    `binary_conditional_likelihood_test` / `brier_score_test`: observed entry, every simulated catalog and entry, quantile
    — however many events each occupied bin holds. -/
theorem public_activity_only (m : PMode) (hm : m ≠ .S) (rq : List ℚ) (ra : List α) (ncell nbin : ℕ)
    (evs evs' : List Ev) (rows : List (List ℚ))
    (hok : ∀ e, e ∈ evs ∨ e ∈ evs' → e.cell.isSome = true ∧ e.bin.isSome = true)
    (hsame : ∀ i k, (∃ e ∈ evs, e.cell = some i ∧ e.bin = some k) ↔ (∃ e ∈ evs', e.cell = some i ∧ e.bin = some k)) :
    publicBinaryTest m rq ra ncell nbin evs rows = publicBinaryTest m rq ra ncell nbin evs' rows := by
  have h1 : smcCart ncell nbin evs = .ok (countMatrix ncell nbin evs) :=
    (smc_ok_iff ncell nbin evs _).mpr ⟨fun e he => (hok e (Or.inl he)).1, fun e he => (hok e (Or.inl he)).2, rfl⟩
  have h2 : smcCart ncell nbin evs' = .ok (countMatrix ncell nbin evs') :=
    (smc_ok_iff ncell nbin evs' _).mpr ⟨fun e he => (hok e (Or.inr he)).1, fun e he => (hok e (Or.inr he)).2, rfl⟩
  have hact := activity_countMatrix ncell nbin evs evs' hsame
  obtain ⟨hb, hbr⟩ := pipeline_activity_only rq ra [ncell, nbin] _ _ rows hact
  cases m with
  | S => exact absurd rfl hm
  | CL => simp only [publicBinaryTest, observedArrayB, h1, h2, Except.map, hb]
  | B => simp only [publicBinaryTest, observedArrayB, h1, h2, Except.map, hbr]

/-- **C16, activity clause at catalog level (binary S-test).** `binary_spatial_test` never looks at magnitudes: two
    catalogs inside the region that occupy the same set of CELLS give the same result. -/
theorem public_spatial_activity_only (rq : List ℚ) (ra : List α) (ncell nbin : ℕ) (evs evs' : List Ev)
    (rows : List (List ℚ))
    (hok : ∀ e, e ∈ evs ∨ e ∈ evs' → e.cell.isSome = true)
    (hsame : ∀ i, (∃ e ∈ evs, e.cell = some i) ↔ (∃ e ∈ evs', e.cell = some i)) :
    publicBinaryTest .S rq ra ncell nbin evs rows = publicBinaryTest .S rq ra ncell nbin evs' rows := by
  have hnone : ∀ l : List Ev, (∀ e ∈ l, e.cell.isSome = true) → (l.map (·.cell)).any (·.isNone) = false := by
    intro l hl
    rw [Bool.eq_false_iff]
    intro h
    obtain ⟨o, ho, hn⟩ := List.any_eq_true.mp h
    obtain ⟨e, he, rfl⟩ := List.mem_map.mp ho
    have := hl e he
    cases hc : e.cell <;> simp [hc] at this hn
  have h1 := spatialCountsCart_eq ncell (evs.map (·.cell))
  have h2 := spatialCountsCart_eq ncell (evs'.map (·.cell))
  rw [hnone evs (fun e he => hok e (Or.inl he))] at h1
  rw [hnone evs' (fun e he => hok e (Or.inr he))] at h2
  simp only [Bool.false_eq_true, if_false] at h1 h2
  have hact : activity (countVec ncell (evs.map (·.cell))) = activity (countVec ncell (evs'.map (·.cell))) := by
    apply activity_countVec
    intro i
    simp only [List.mem_map]
    constructor
    · rintro ⟨e, he, hc⟩
      obtain ⟨e', he', hc'⟩ := (hsame i).mp ⟨e, he, hc⟩
      exact ⟨e', he', hc'⟩
    · rintro ⟨e, he, hc⟩
      obtain ⟨e', he', hc'⟩ := (hsame i).mpr ⟨e, he, hc⟩
      exact ⟨e', he', hc'⟩
  simp only [publicBinaryTest, observedArrayB, h1, h2, (pipeline_activity_only rq ra [] _ _ rows hact).1]

/-- **a further event in an already occupied bin is invisible** to the CL and Brier tests (and, a fortiori, to the S test):
    the catalog `e :: evs` with `e` a copy — same cell, same magnitude bin — of an event of `evs` gets the result of `evs`. -/
theorem duplicate_event_invisible (m : PMode) (rq : List ℚ) (ra : List α) (ncell nbin : ℕ) (e : Ev) (evs : List Ev)
    (rows : List (List ℚ)) (he : e ∈ evs) (hok : ∀ e ∈ evs, e.cell.isSome = true ∧ e.bin.isSome = true) :
    publicBinaryTest m rq ra ncell nbin (e :: evs) rows = publicBinaryTest m rq ra ncell nbin evs rows := by
  have hok' : ∀ x, x ∈ e :: evs ∨ x ∈ evs → x.cell.isSome = true ∧ x.bin.isSome = true := by
    intro x hx
    rcases hx with hx | hx
    · rcases List.mem_cons.mp hx with rfl | hx
      · exact hok _ he
      · exact hok x hx
    · exact hok x hx
  by_cases hm : m = .S
  · subst hm
    apply public_spatial_activity_only _ _ _ _ _ _ _ (fun x hx => (hok' x hx).1)
    intro i
    constructor
    · rintro ⟨x, hx, hc⟩
      rcases List.mem_cons.mp hx with rfl | hx
      · exact ⟨_, he, hc⟩
      · exact ⟨x, hx, hc⟩
    · rintro ⟨x, hx, hc⟩
      exact ⟨x, List.mem_cons_of_mem _ hx, hc⟩
  · apply public_activity_only m hm _ _ _ _ _ _ _ hok'
    intro i k
    constructor
    · rintro ⟨x, hx, hc⟩
      rcases List.mem_cons.mp hx with rfl | hx
      · exact ⟨_, he, hc⟩
      · exact ⟨x, hx, hc⟩
    · rintro ⟨x, hx, hc⟩
      exact ⟨x, List.mem_cons_of_mem _ hx, hc⟩

end generic

/-- **C16, the public tests report the definitions** (catalog level, over ℝ): for a catalog inside region and magnitude
    range, with `M` its count matrix, whenever the CL test returns its observed entry is `binaryLL` of (rates, `M`
    flattened) and every simulated entry is the `ELL`-valued definition of its simulated catalog (finite, no hypothesis
    on the rates); the Brier test reports `brierDef` with `N = cells × bins` for the observation and `N = number of bins`
    for every simulated catalog. -/
theorem public_entries_eq_def (rq : List ℚ) (ncell nbin : ℕ) (evs : List Ev) (rows : List (List ℚ))
    (hok : ∀ e ∈ evs, e.cell.isSome = true ∧ e.bin.isSome = true) (hd : ∀ row ∈ rows, ∀ r ∈ row, 0 ≤ r) :
    (∀ out, publicBinaryTest .CL rq (castR rq) ncell nbin evs rows = .ok (some out) →
      out.obs = binaryLL ((castR rq).zip (countMatrix ncell nbin evs).flatten) ∧
      out.sims = out.arrays.map (fun a => binaryLL ((castR rq).zip a)) ∧
      ∀ a ∈ out.arrays, binaryDef ((castR rq).zip a) = .fin (binaryLL ((castR rq).zip a))) ∧
    (∀ out, publicBinaryTest .B rq (castR rq) ncell nbin evs rows = .ok (some out) →
      out.obs = brierDef (ncell * nbin) ((castR rq).zip (countMatrix ncell nbin evs).flatten) ∧
      out.sims = out.arrays.map (fun a => brierDef rq.length ((castR rq).zip a))) := by
  have h1 : smcCart ncell nbin evs = .ok (countMatrix ncell nbin evs) :=
    (smc_ok_iff ncell nbin evs _).mpr ⟨fun e he => (hok e he).1, fun e he => (hok e he).2, rfl⟩
  constructor
  · intro out h
    simp only [publicBinaryTest, observedArrayB, h1, Except.map, Except.ok.injEq] at h
    obtain ⟨g1, g2, g3⟩ := binary_test_entries_eq_def rq _ rows out hd h
    exact ⟨g1, g2, fun a ha => (g3 a ha).1⟩
  · intro out h
    simp only [publicBinaryTest, observedArrayB, h1, Except.map, Except.ok.injEq] at h
    unfold brierScoreTest at h
    split at h
    · cases h
    · simp only [Option.some.injEq] at h
      subst h
      refine ⟨?_, ?_⟩
      · show brier [ncell, nbin] _ = _
        rw [brier_eq_def]; simp
      · apply List.map_congr_left
        intro a _
        rw [brier_eq_def]
        simp [Sampler.weightsMasked, Sampler.weights_length, Sampler.maskRates]

/-- the gridding call of the CL / Brier test raises exactly when an event is outside the region or below the first
    magnitude edge; the S test only when an event is outside (it never looks at magnitudes) -/
theorem public_rejects_iff {α : Type} [RealOps α] (rq : List ℚ) (ra : List α) (ncell nbin : ℕ) (evs : List Ev)
    (rows : List (List ℚ)) :
    ((∃ e, publicBinaryTest .CL rq ra ncell nbin evs rows = .error e) ↔
      ∃ x ∈ evs, x.cell = none ∨ x.bin = none) ∧
    ((∃ e, publicBinaryTest .S rq ra ncell nbin evs rows = .error e) ↔ ∃ x ∈ evs, x.cell = none) := by
  constructor
  · simp only [publicBinaryTest, observedArrayB]
    rw [smcCart_eq]
    by_cases hc : evs.any (fun e => e.cell.isNone) = true
    · simp only [hc, if_true, Except.map]
      obtain ⟨x, hx, hn⟩ := List.any_eq_true.mp hc
      refine ⟨fun _ => ⟨x, hx, Or.inl (by cases h : x.cell <;> simp [h] at hn ⊢)⟩, fun _ => ⟨_, rfl⟩⟩
    · by_cases hb : evs.any (fun e => e.bin.isNone) = true
      · simp only [hc, hb, Bool.false_eq_true, if_false, if_true, Except.map]
        obtain ⟨x, hx, hn⟩ := List.any_eq_true.mp hb
        refine ⟨fun _ => ⟨x, hx, Or.inr (by cases h : x.bin <;> simp [h] at hn ⊢)⟩, fun _ => ⟨_, rfl⟩⟩
      · simp only [hc, hb, Bool.false_eq_true, if_false, Except.map]
        constructor
        · rintro ⟨e, h⟩; cases h
        · rintro ⟨x, hx, hn | hn⟩
          · exact absurd (List.any_eq_true.mpr ⟨x, hx, by simp [hn]⟩) hc
          · exact absurd (List.any_eq_true.mpr ⟨x, hx, by simp [hn]⟩) hb
  · simp only [publicBinaryTest, observedArrayB]
    rw [spatialCountsCart_eq]
    by_cases hc : (evs.map (·.cell)).any (·.isNone) = true
    · simp only [hc, if_true]
      obtain ⟨o, ho, hn⟩ := List.any_eq_true.mp hc
      obtain ⟨x, hx, rfl⟩ := List.mem_map.mp ho
      refine ⟨fun _ => ⟨x, hx, by cases h : x.cell <;> simp [h] at hn ⊢⟩, fun _ => ⟨_, rfl⟩⟩
    · simp only [hc, Bool.false_eq_true, if_false]
      constructor
      · rintro ⟨e, h⟩; cases h
      · rintro ⟨x, hx, hn⟩
        exact absurd (List.any_eq_true.mpr ⟨x.cell, List.mem_map.mpr ⟨x, hx, rfl⟩, by simp [hn]⟩) hc

/-- one simulated catalog, one entry per injected row; the quantile's denominator is the number of rows -/
theorem pipeline_entry_count {α : Type} [RealOps α] (rq : List ℚ) (ra : List α) (dims : List ℕ) (cnt : List ℕ)
    (rows : List (List ℚ)) :
    (∀ out, binaryLikelihoodTest rq ra cnt rows = some out →
      out.arrays.length = rows.length ∧ out.sims.length = rows.length ∧ out.q.2 = rows.length) ∧
    (∀ out, brierScoreTest rq ra dims cnt rows = some out →
      out.arrays.length = rows.length ∧ out.sims.length = rows.length ∧ out.q.2 = rows.length) := by
  constructor
  · intro out h
    unfold binaryLikelihoodTest at h
    split at h
    · cases h
    · rename_i arrs hs
      simp only [Option.some.injEq] at h
      subst h
      have := (Sampler.simRows_spec _ _ _ _ hs).1
      simp [quantileA, this]
  · intro out h
    unfold brierScoreTest at h
    split at h
    · cases h
    · rename_i arrs hs
      simp only [Option.some.injEq] at h
      subst h
      have := (Sampler.simRows_spec _ _ _ _ hs).1
      simp [quantileA, this]

/-- **`num_simulations` rows are read, no more, and the test distribution has exactly that many entries**: with at least
    `nsim` injected rows the result is that of the first `nsim` rows whatever follows them; whenever the test returns there
    are `nsim` simulated catalogs, `nsim` entries, and the quantile's denominator is `nsim`. -/
theorem publicN_reads_first_rows {α : Type} [RealOps α] (m : PMode) (rq : List ℚ) (ra : List α) (ncell nbin : ℕ)
    (evs : List Ev) (nsim : ℕ) (rows extra : List (List ℚ)) (h : nsim ≤ rows.length) :
    publicBinaryTestN m rq ra ncell nbin evs nsim (rows ++ extra) =
      publicBinaryTest m rq ra ncell nbin evs (rows.take nsim) ∧
    ∀ out, publicBinaryTestN m rq ra ncell nbin evs nsim (rows ++ extra) = .ok (some out) →
      out.arrays.length = nsim ∧ out.sims.length = nsim ∧ out.q.2 = nsim := by
  have h' : nsim ≤ (rows ++ extra).length := by rw [List.length_append]; omega
  have e : publicBinaryTestN m rq ra ncell nbin evs nsim (rows ++ extra) =
      publicBinaryTest m rq ra ncell nbin evs (rows.take nsim) := by
    unfold publicBinaryTestN
    rw [if_pos h', List.take_append_of_le_length h]
  refine ⟨e, ?_⟩
  intro out hout
  rw [e] at hout
  have hl : (rows.take nsim).length = nsim := by rw [List.length_take]; omega
  unfold publicBinaryTest at hout
  cases hobs : observedArrayB m ncell nbin evs with
  | error err => rw [hobs] at hout; cases hout
  | ok cnt =>
    rw [hobs] at hout
    simp only [Except.ok.injEq] at hout
    obtain ⟨k1, k2⟩ := pipeline_entry_count rq ra [ncell, nbin] cnt (rows.take nsim)
    rw [hl] at k1 k2
    cases m with
    | S => exact k1 out hout
    | CL => exact k1 out hout
    | B => exact k2 out hout

/-- with fewer rows than simulations the loop raises (after the gridding call) -/
theorem publicN_too_few_rows {α : Type} [RealOps α] (m : PMode) (rq : List ℚ) (ra : List α) (ncell nbin : ℕ)
    (evs : List Ev) (nsim : ℕ) (rows : List (List ℚ)) (h : rows.length < nsim) (cnt : List ℕ)
    (hg : observedArrayB m ncell nbin evs = .ok cnt) :
    publicBinaryTestN m rq ra ncell nbin evs nsim rows = .ok none := by
  unfold publicBinaryTestN
  rw [if_neg (by omega), hg]; rfl

/-- D40: after a CL or Brier test the catalog is bound to a space-magnitude region, so the S test can grid it; the
    binding is idempotent and the S test binds nothing -/
theorem region_binding (m : PMode) (r : CatRegion) :
    (m ≠ .S → r ≠ .fullOther → regionAfter m r = .full ∧ canGrid .S (regionAfter m r) = true) ∧
    regionAfter .S r = r ∧ regionAfter m (regionAfter m r) = regionAfter m r := by
  cases m <;> cases r <;> simp [regionAfter, canGrid]

/-- **the forecast's region decides** (round 5): a CL / Brier test on a catalog whose region has no magnitudes — whatever
    its cells and their order — grids the catalog on the forecast's region (the region is REPLACED, not completed), and
    afterwards every test, the S test included, grids on the forecast's region; only a space-magnitude region of the
    catalog's own is left alone -/
theorem magnitude_less_region_is_replaced (m : PMode) (hm : m ≠ .S) (r : CatRegion) (hr : r ≠ .fullOther) :
    gridsOnForecastRegion m r = true ∧ regionAfter m r = .full ∧
    ∀ m', gridsOnForecastRegion m' (regionAfter m r) = true := by
  cases m <;> cases r <;> simp_all [regionAfter, gridsOnForecastRegion] <;> intro m' <;> cases m' <;> rfl

/-! ### non-vacuity -/

-- three events on two (cell, bin) pairs versus one event on each: same CL result for every rate array and every injected row
example (rq : List ℚ) (rows : List (List ℚ)) :
    publicBinaryTest .CL rq (castR rq) 2 2 [⟨some 0, some 1⟩, ⟨some 1, some 0⟩, ⟨some 0, some 1⟩] rows =
    publicBinaryTest .CL rq (castR rq) 2 2 [⟨some 1, some 0⟩, ⟨some 0, some 1⟩] rows := by
  apply public_activity_only _ (by decide)
  · intro e he; rcases he with he | he <;> simp at he <;> rcases he with rfl | rfl | rfl <;> simp
  · intro i k; constructor <;> rintro ⟨e, he, hc⟩ <;> simp at he <;> rcases he with rfl | rfl | rfl <;>
      simp_all

example : observedArrayB .CL 2 2 [⟨some 0, some 1⟩, ⟨some 1, some 0⟩, ⟨some 0, some 1⟩] = .ok [0, 2, 1, 0] := by
  decide +kernel
example : observedArrayB .S 2 2 [⟨some 0, some 1⟩, ⟨some 1, some 0⟩, ⟨some 0, some 1⟩] = .ok [2, 1] := by
  decide +kernel
example : activity [0, 2, 1, 0] = activity [0, 1, 1, 0] := by decide

end BinaryBrier
