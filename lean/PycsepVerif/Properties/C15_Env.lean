import PycsepVerif.Model.TimeEnv
import PycsepVerif.Properties.C15_Calls

/-!
# C15 — no conversion reads the local time zone (a theorem of the model with the zone as a parameter)

`Model/TimeEnv.lean` gives CPython's datetime primitives the local zone as an explicit argument; the library's conversions are
composed from them as the code composes them.  Every conversion returns the same value in every environment, and equals the
zone-free model of `Model/Time.lean` the other theorems are about; the variants that use `fromtimestamp(t)` without a zone or
`astimezone` on a naive datetime do depend on it (kernel-checked).  The harness re-runs a sample of every case class under five
real zones (`TZ` + `time.tzset()`), which ties this to the implementation.
-/
namespace Time

/-- **zone independence**: each conversion gives the same result under any two environments -/
theorem conversions_zone_independent (e1 e2 : Env) (ms : Int) (d : DT) (s : List Char) :
    epochToDatetimeE e1 ms = epochToDatetimeE e2 ms ∧ datetimeToEpochE e1 d = datetimeToEpochE e2 d
      ∧ strptimeToDatetimeE e1 s = strptimeToDatetimeE e2 s ∧ decimalYearE e1 d = decimalYearE e2 d :=
  ⟨rfl, rfl, rfl, rfl⟩

/-- … and is the zone-free model: UTC-aware result with the wall clock `toDatetime ms`; naive and UTC datetimes give
    `⌊wall clock / 1000⌋`; any other offset is refused -/
theorem conversions_are_zone_free_model (env : Env) (ms us : Int) (off : Int) (hoff : off ≠ 0) (s : List Char) :
    epochToDatetimeE env ms = (toDatetime ms, some 0)
      ∧ datetimeToEpochE env (us, none) = some (us / 1000) ∧ datetimeToEpochE env (us, some 0) = some (us / 1000)
      ∧ datetimeToEpochE env (us, some off) = none
      ∧ strptimeToDatetimeE env s = (strptimeToUtcDatetime s).map (fun u => (u, some 0)) := by
  refine ⟨?_, ?_, ?_, ?_, rfl⟩
  · simp [epochToDatetimeE, fromtimestampTz, toDatetime]
  · simp [datetimeToEpochE, replaceTz, DT.instant, dt_to_ms_floor]
  · simp [datetimeToEpochE, DT.instant, dt_to_ms_floor]
  · simp [datetimeToEpochE, hoff]

/-- the round trip through the environment-parameterised conversions is the identity in every environment -/
theorem ms_roundtrip_any_zone (env : Env) (ms : Int) (h : |ms| < 8589934592000) :
    datetimeToEpochE env (epochToDatetimeE env ms) = some ms := by
  rw [(conversions_are_zone_free_model env ms 0 1 (by decide) []).1]
  rw [(conversions_are_zone_free_model env ms (toDatetime ms) 1 (by decide) []).2.2.1]
  rw [ms_to_dt_exact ms h]
  congr 1; omega

example : datetimeToEpochE tokyoEnv (epochToDatetimeE tokyoEnv (-1097606850620)) = some (-1097606850620) :=
  ms_roundtrip_any_zone _ _ (by decide)

/-- necessity: the two "local" variants give different answers in different zones (so a change to them is observable, and only
    under a non-UTC zone — which is why the harness runs under several) -/
theorem local_variants_depend_on_zone :
    epochToDatetimeLocalVariant utcEnv 0 ≠ epochToDatetimeLocalVariant tokyoEnv 0
      ∧ datetimeToEpochLocalVariant utcEnv (0, none) ≠ datetimeToEpochLocalVariant tokyoEnv (0, none)
      ∧ epochToDatetimeLocalVariant utcEnv 0 = epochToDatetimeE utcEnv 0 := by
  decide +kernel

end Time
