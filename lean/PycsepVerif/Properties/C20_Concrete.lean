import PycsepVerif.Proofs.PermConcrete

/-!
# C20 on the concrete models — the SAME Lean functions the other properties tie to the code

`Properties/C20.lean` proves storage-order independence for the self-contained model `PermInv` (Model/Perm.lean).
Here the statement is proved for the concrete models of C03 (`Gridding`: the four gridding methods incl. their error
behaviour and the region / magnitude lookups), C05 (`PoissonLL.stat`, `testStat` of L / CL / S / M), C16
(`BinaryBrier`), C10 (`CatalogEvals.meanRates`, `numberTest`), C07 (`NumberTest.catalogNTest`) and C13
(`ForecastIter.accumulate`), each of which is compared with the real code by its own property's correspondence check.
All statements are for lists of any length. Sums of reals are over ℝ (`List.Perm.sum_eq`): the ORDER OF FLOAT
SUMMATION IS OUTSIDE these theorems; the harness compares observed statistics to 1e-9 relative + 1e-12 absolute.
-/
namespace PermInv.Concrete
open List

/-! ## events of the observed catalog re-ordered: gridding (exact, integers) -/

/-- C03 `spatial_counts` / `spatial_event_probability` / `magnitude_counts`, Cartesian and quadtree variants, on
    permuted index lists: same arrays, and the same exception when a point is outside a Cartesian region -/
theorem gridding_counts_perm (ncell nbin : Nat) {locs locs' bins bins' : List (Option Nat)} (h : locs ~ locs')
    (hb : bins ~ bins') :
    Gridding.spatialCountsCart ncell locs = Gridding.spatialCountsCart ncell locs' ∧
    Gridding.spatialCountsQuad ncell locs = Gridding.spatialCountsQuad ncell locs' ∧
    Gridding.spatialEventProbabilityCart ncell locs = Gridding.spatialEventProbabilityCart ncell locs' ∧
    Gridding.spatialEventProbabilityQuad ncell locs = Gridding.spatialEventProbabilityQuad ncell locs' ∧
    Gridding.magnitudeCounts nbin bins = Gridding.magnitudeCounts nbin bins' := by
  refine ⟨?_, ?_, ?_, ?_, ?_⟩
  · rw [Gridding.spatialCountsCart_eq, Gridding.spatialCountsCart_eq, h.any_eq, countVec_perm ncell h]
  · rw [Gridding.spatialCountsQuad_eq, Gridding.spatialCountsQuad_eq, countVec_perm ncell h]
  · rw [Gridding.spatialEventProbabilityCart_eq, Gridding.spatialEventProbabilityCart_eq, h.any_eq, countVec_perm ncell h]
  · rw [Gridding.spatialEventProbabilityQuad_eq, Gridding.spatialEventProbabilityQuad_eq, countVec_perm ncell h]
  · rw [Gridding.magnitudeCounts_eq, Gridding.magnitudeCounts_eq, countVec_perm nbin hb]

/-- C03 `spatial_magnitude_counts` (Cartesian and quadtree region) on permuted events: the same matrix, or the same
    ValueError (outside the region / below the first magnitude edge) -/
theorem gridding_smc_perm (ncell nbin : Nat) {evs evs' : List Gridding.Ev} (h : evs ~ evs') :
    Gridding.smcCart ncell nbin evs = Gridding.smcCart ncell nbin evs' ∧
    Gridding.smcQuad ncell nbin evs = Gridding.smcQuad ncell nbin evs' := by
  constructor
  · rw [Gridding.smcCart_eq, Gridding.smcCart_eq, h.any_eq, h.any_eq, countMatrix_perm ncell nbin h]
  · rw [Gridding.smcQuad_eq, Gridding.smcQuad_eq, h.any_eq, h.any_eq, countMatrix_perm ncell nbin h]

/-- the whole C03 pipeline from coordinates and magnitudes (region lookup `cellOf` / `qtFind`, magnitude lookup
    `magBin`, then the counting loop): permuting the stored events changes nothing -/
theorem gridding_pipeline_perm (R : Region.Region) (bounds : List (Rat × Rat × Rat × Rat)) (edges : List Rat)
    (ncell nbin : Nat) {raw raw' : List (Rat × Rat × Rat)} (h : raw ~ raw') :
    Gridding.smcCart ncell nbin (Gridding.evsCart R edges raw) = Gridding.smcCart ncell nbin (Gridding.evsCart R edges raw') ∧
    Gridding.smcQuad ncell nbin (Gridding.evsQuad bounds edges raw) = Gridding.smcQuad ncell nbin (Gridding.evsQuad bounds edges raw') :=
  ⟨(gridding_smc_perm ncell nbin (h.map _)).1, (gridding_smc_perm ncell nbin (h.map _)).2⟩

/-! ## Poisson L / CL / S / M statistic (C05), over ℝ -/

theorem poisson_jointLL_perm {bins bins' : List (ℝ × ℕ)} (h : bins ~ bins') (e : ℝ) :
    PoissonLL.jointLL bins e = PoissonLL.jointLL bins' e := by
  have ht : PoissonLL.targets bins ~ PoissonLL.targets bins' := h.filter _
  unfold PoissonLL.jointLL
  simp only
  rw [ellSum_perm (ht.map _), realSum_perm (ht.map _)]

/-- C05 `PoissonLL.stat` (the statistic of `_poisson_likelihood_test`, both settings of `normalize_likelihood`, −∞
    included) depends only on the multiset of (rate, count) bins -/
theorem poisson_stat_perm (normalise : Bool) {bins bins' : List (ℝ × ℕ)} (h : bins ~ bins') :
    PoissonLL.stat normalise bins = PoissonLL.stat normalise bins' := by
  have hn : PoissonLL.nObs bins = PoissonLL.nObs bins' := natSum_perm (h.map _)
  have hf : PoissonLL.nFore bins = PoissonLL.nFore bins' := realSum_perm (h.map _)
  unfold PoissonLL.stat
  cases normalise
  · simp only [Bool.false_eq_true, if_false, hf]
    exact poisson_jointLL_perm h _
  · simp only [if_true, hn, hf]
    exact poisson_jointLL_perm (h.map _) _

/-- observed statistic of the four Poisson tests under a permutation of the OBSERVED EVENTS, end to end from the
    located events: the count matrix is the same (or the same exception is raised), hence `testStat` is -/
theorem poisson_testStat_perm_events (m : PoissonLL.Mode) (data : List (List ℝ)) (ncell nbin : Nat)
    {evs evs' : List Gridding.Ev} (h : evs ~ evs') :
    (Gridding.smcCart ncell nbin evs).map (PoissonLL.testStat m data)
      = (Gridding.smcCart ncell nbin evs').map (PoissonLL.testStat m data) := by
  rw [(gridding_smc_perm ncell nbin h).1]

/-- `numpy.sum(data, axis=0)` (magnitude marginal) of permuted rows, forecast and counts -/
theorem magMarginal_perm {d d' : List (List ℝ)} (h : d ~ d') : PoissonLL.magMarginal d = PoissonLL.magMarginal d' := by
  unfold PoissonLL.magMarginal
  refine foldl_perm (fun z x y => ?_) h _
  rw [addRows_assoc, addRows_comm x y, ← addRows_assoc]

theorem magMarginalN_perm {c c' : List (List ℕ)} (h : c ~ c') : PoissonLL.magMarginalN c = PoissonLL.magMarginalN c' := by
  unfold PoissonLL.magMarginalN
  refine foldl_perm (fun z x y => ?_) h _
  rw [addRowsN_assoc, addRowsN_comm x y, ← addRowsN_assoc]

/-- observed statistic of the four Poisson tests under a consistent permutation of the CELLS (spatial rows of the
    forecast array together with the rows of the count matrix): L, CL, S and M are unchanged over ℝ -/
theorem poisson_testStat_perm_cells (m : PoissonLL.Mode) {rows rows' : List (List ℝ × List ℕ)} (h : rows ~ rows')
    (hlen : ∀ r ∈ rows, r.1.length = r.2.length) :
    PoissonLL.testStat m (rows.map (·.1)) (rows.map (·.2)) = PoissonLL.testStat m (rows'.map (·.1)) (rows'.map (·.2)) := by
  have hlen' : ∀ r ∈ rows', r.1.length = r.2.length := fun r hr => hlen r (h.mem_iff.mpr hr)
  have hflat : (rows.map (·.1)).flatten.zip (rows.map (·.2)).flatten ~ (rows'.map (·.1)).flatten.zip (rows'.map (·.2)).flatten := by
    rw [zip_flatten_rows rows hlen, zip_flatten_rows rows' hlen']
    exact (h.map _).flatten
  cases m
  · exact poisson_stat_perm false hflat
  · exact poisson_stat_perm false hflat
  · unfold PoissonLL.testStat PoissonLL.spatialMarginal PoissonLL.spatialMarginalN
    simp only [List.map_map]
    have e1 := zip_map_rows rows RealOps.sum List.sum
    have e2 := zip_map_rows rows' RealOps.sum List.sum
    simp only [Function.comp_def] at e1 e2 ⊢
    rw [e1, e2]
    exact poisson_stat_perm true (h.map _)
  · unfold PoissonLL.testStat
    simp only
    rw [magMarginal_perm (h.map _), magMarginalN_perm (h.map _)]

/-! ## binary likelihood and Brier score (C16), over ℝ -/

/-- C16 `binaryLL` (masked non-positive rates included, as the code treats them) and `brier` depend only on the
    multiset of bins -/
theorem binary_brier_perm (dims : List ℕ) {bins bins' : List (ℝ × ℕ)} (h : bins ~ bins') :
    BinaryBrier.binaryLL bins = BinaryBrier.binaryLL bins' ∧ BinaryBrier.brier dims bins = BinaryBrier.brier dims bins' := by
  constructor
  · exact realSum_perm (h.map _)
  · unfold BinaryBrier.brier
    rw [realSum_perm (h.map _)]

/-- binary S and CL statistics and the Brier score under a consistent permutation of the cells -/
theorem binary_brier_perm_cells {rows rows' : List (List ℝ × List ℕ)} (h : rows ~ rows')
    (hlen : ∀ r ∈ rows, r.1.length = r.2.length) (dims : List ℕ) :
    BinaryBrier.binarySpatialStat (rows.map (·.1)) (rows.map (·.2)) = BinaryBrier.binarySpatialStat (rows'.map (·.1)) (rows'.map (·.2)) ∧
    BinaryBrier.binaryCLStat (rows.map (·.1)) (rows.map (·.2)) = BinaryBrier.binaryCLStat (rows'.map (·.1)) (rows'.map (·.2)) ∧
    BinaryBrier.brier dims ((rows.map (·.1)).flatten.zip (rows.map (·.2)).flatten)
      = BinaryBrier.brier dims ((rows'.map (·.1)).flatten.zip (rows'.map (·.2)).flatten) := by
  have hlen' : ∀ r ∈ rows', r.1.length = r.2.length := fun r hr => hlen r (h.mem_iff.mpr hr)
  have hflat : (rows.map (·.1)).flatten.zip (rows.map (·.2)).flatten ~ (rows'.map (·.1)).flatten.zip (rows'.map (·.2)).flatten := by
    rw [zip_flatten_rows rows hlen, zip_flatten_rows rows' hlen']
    exact (h.map _).flatten
  refine ⟨?_, (binary_brier_perm [] hflat).1, (binary_brier_perm dims hflat).2⟩
  unfold BinaryBrier.binarySpatialStat BinaryBrier.spatialMarginal BinaryBrier.spatialMarginalN
  simp only [List.map_map]
  have e1 := zip_map_rows rows RealOps.sum List.sum
  have e2 := zip_map_rows rows' RealOps.sum List.sum
  simp only [Function.comp_def] at e1 e2 ⊢
  rw [e1, e2]
  exact (binary_brier_perm [] (h.map _)).1

/-! ## synthetic catalogs of a catalog forecast re-ordered (C10, C07, C13) -/

/-- C10 `meanRates` (`get_expected_rates`: Σ counts / n_cat) in ANY arithmetic: the per-bin sums are integer sums -/
theorem catalog_meanRates_perm {α : Type} [RealOps α] (C K : Nat) {sims sims' : List CatEvals.Grid} (h : sims ~ sims') :
    (CatEvals.meanRates C K sims : List (List α)) = CatEvals.meanRates C K sims' := by
  unfold CatEvals.meanRates CatEvals.sumEntry
  refine List.map_congr_left (fun i _ => List.map_congr_left (fun k _ => ?_))
  rw [(h.map _).sum_eq, h.length_eq]

/-- C10 catalog N-test: the distribution is the permuted list (equal as a multiset), observed count and both
    quantiles are equal -/
theorem catalog_numberTest_perm {sims sims' : List CatEvals.Grid} (h : sims ~ sims') (obs : CatEvals.Grid) :
    (CatEvals.numberTest sims obs).distribution ~ (CatEvals.numberTest sims' obs).distribution ∧
    (CatEvals.numberTest sims obs).observed = (CatEvals.numberTest sims' obs).observed ∧
    (CatEvals.numberTest sims obs).quantile = (CatEvals.numberTest sims' obs).quantile := by
  refine ⟨h.map _, rfl, ?_⟩
  simp only [CatEvals.numberTest, Ecdf.getQuantiles, Ecdf.geEcdf, Ecdf.leEcdf, Ecdf.sort]
  rw [sortRat_eq_of_perm ((h.map CatEvals.eventCount).map _)]

/-- C07 / C09 `get_quantiles(event_counts, n_obs)` on permuted catalog sizes -/
theorem catalogNTest_perm {sizes sizes' : List ℕ} (h : sizes ~ sizes') (nobs : ℕ) :
    NumberTest.catalogNTest sizes nobs = NumberTest.catalogNTest sizes' nobs := by
  simp only [NumberTest.catalogNTest, Ecdf.getQuantiles, Ecdf.geEcdf, Ecdf.leEcdf, Ecdf.sort]
  rw [sortRat_eq_of_perm (h.map _)]

/-- C13 accumulation loop of `get_expected_rates` (`data = counts(first); data += counts(next) …` after
    `cat.region = self.region`): which catalog comes first does not matter -/
theorem forecastIter_accumulate_perm (nBins : Nat) {cats cats' : List ForecastIter.Cat} (h : cats ~ cats') :
    ForecastIter.accumulate nBins (cats.map ForecastIter.rebind) = ForecastIter.accumulate nBins (cats'.map ForecastIter.rebind) := by
  cases cats with
  | nil => rw [h.nil_eq]
  | cons c cs =>
    cases cats' with
    | nil => exact absurd h.symm.nil_eq (by simp)
    | cons c' cs' =>
      rw [ForecastIter.accumulate_eq_totals, ForecastIter.accumulate_eq_totals]
      congr 1
      unfold ForecastIter.totals
      exact List.map_congr_left (fun j _ => (h.map _).sum_eq)

/-! ## non-vacuity -/

example : Gridding.smcCart 2 2 [⟨some 0, some 1⟩, ⟨some 1, some 0⟩, ⟨some 0, some 1⟩]
    = Gridding.smcCart 2 2 [⟨some 0, some 1⟩, ⟨some 0, some 1⟩, ⟨some 1, some 0⟩] :=
  (gridding_smc_perm 2 2 (List.Perm.cons _ (List.Perm.swap _ _ _))).1

example : Gridding.smcCart 2 2 [⟨some 0, some 1⟩, ⟨some 1, some 0⟩, ⟨some 0, some 1⟩] = .ok [[0, 2], [1, 0]] := by
  decide +kernel

/-- an event outside the region: the same ValueError wherever it is stored -/
example : Gridding.smcCart 2 2 [⟨none, some 1⟩, ⟨some 1, none⟩] = .error .outside ∧
    Gridding.smcCart 2 2 [⟨some 1, none⟩, ⟨none, some 1⟩] = .error .outside := by decide +kernel

example : PoissonLL.stat true [((0.5 : ℝ), 2), (1.5, 0), (0, 1)] = PoissonLL.stat true [((0 : ℝ), 1), (0.5, 2), (1.5, 0)] :=
  poisson_stat_perm true (by
    exact (List.Perm.cons _ (List.Perm.swap _ _ _)).trans (List.Perm.swap _ _ _))

example : PoissonLL.testStat .M ([(([0.5, 1] : List ℝ), [1, 0]), ([2, 3], [0, 2])].map (·.1)) ([(([0.5, 1] : List ℝ), [1, 0]), ([2, 3], [0, 2])].map (·.2))
    = PoissonLL.testStat .M ([(([2, 3] : List ℝ), [0, 2]), ([0.5, 1], [1, 0])].map (·.1)) ([(([2, 3] : List ℝ), [0, 2]), ([0.5, 1], [1, 0])].map (·.2)) :=
  poisson_testStat_perm_cells .M (List.Perm.swap _ _ _) (by
    intro r hr
    simp only [List.mem_cons, List.not_mem_nil, or_false] at hr
    rcases hr with rfl | rfl <;> rfl)

example : NumberTest.catalogNTest [3, 0, 7, 3] 3 = NumberTest.catalogNTest [0, 3, 3, 7] 3 :=
  catalogNTest_perm (by decide) 3

end PermInv.Concrete
