import PycsepVerif.Proofs.ReaderText
import PycsepVerif.Proofs.PersistText
import PycsepVerif.Properties.C19

/-!
# C19, text level — from the characters of a file to the tokens of `Model/Readers.lean`

`Model/ReaderText.lean` transcribes what the readers do BEFORE the token model starts: line splitting with universal
newlines, csv / whitespace field splitting, the fixed columns of the NDK lines, decimal numerals → float64, strptime
field matching, the skip rules of `ndk._read_lines`.  The theorems here connect that code-shaped text model to the
specification of a well-formed file (lines joined by a line end, fields in their documented columns, zero-padded
clock fields) and to the token-level theorems of `Properties/C19.lean`, for files of ANY number of records.
The text model itself is tied to the code on every run by the correspondence `c19_text` on the bytes of every
generated file.
-/
namespace ReaderText
open Readers

/-- a text whose lines all end in "\n" splits into exactly those lines -/
theorem text_lines_lf (ls : List Str) (h : ∀ l ∈ ls, cleanLine l) : lines (joinLines ['\n'] ls) = ls :=
  lines_joinLines_lf ls h

/-- the same file written with "\r\n" line ends (universal newlines) has the same lines -/
theorem text_lines_crlf (ls : List Str) (h : ∀ l ∈ ls, cleanLine l) : lines (joinLines ['\r', '\n'] ls) = ls :=
  lines_joinLines_crlf ls h

/-- a last line without line end is still read (`if len(data) > prev_line + 1: yield data[prev_line + 1:]`) -/
theorem text_lines_no_final_newline (ls : List Str) (last : Str) (h : ∀ l ∈ ls, cleanLine l) (hl : cleanLine last)
    (hne : last ≠ []) : lines (joinLines ['\n'] ls ++ last) = ls ++ [last] :=
  lines_joinLines_nofinal ls last h hl hne

/-- `zip_longest(*[lines_iter()] * 5)`: the lines of `n` five-line records followed by fewer than five further lines
    are grouped into exactly those `n` records (the incomplete group is dropped) -/
theorem ndk_groups_of_five (bs : List Block) (tail : List Str) (ht : tail.length < 5) :
    groups5 (bs.flatMap blockLines ++ tail) = bs :=
  groups5_blocks bs tail ht

/-- fixed columns of the NDK hypocenter line: with the documented field widths
    `cat(4) date(10) time(10) lat(6) lon(7) depth(5) mags(7) …` separated by single characters, the slices
    `[5:15] [16:26] [27:33] [34:41] [42:47] [48:55]` of readers.py:53-58 return exactly those fields. -/
theorem ndk_line1_columns (cat date time lat lon dep mags rest : Str) (s1 s2 s3 s4 s5 s6 : Char)
    (h0 : cat.length = 4) (h1 : date.length = 10) (h2 : time.length = 10) (h3 : lat.length = 6)
    (h4 : lon.length = 7) (h5 : dep.length = 5) (h6 : mags.length = 7) :
    let l := cat ++ s1 :: date ++ s2 :: time ++ s3 :: lat ++ s4 :: lon ++ s5 :: dep ++ s6 :: mags ++ rest
    pySlice 5 15 l = date ∧ pySlice 16 26 l = time ∧ pySlice 27 33 l = lat ∧ pySlice 34 41 l = lon ∧
    pySlice 42 47 l = dep ∧ pySlice 48 55 l = mags := by
  intro l
  refine ⟨?_, ?_, ?_, ?_, ?_, ?_⟩
  · have := pySlice_field 5 15 (cat ++ [s1]) date (s2 :: time ++ s3 :: lat ++ s4 :: lon ++ s5 :: dep ++ s6 :: mags ++ rest)
      (by simp [h0]) (by simp [h1])
    simpa [l] using this
  · have := pySlice_field 16 26 (cat ++ s1 :: date ++ [s2]) time (s3 :: lat ++ s4 :: lon ++ s5 :: dep ++ s6 :: mags ++ rest)
      (by simp [h0, h1]) (by simp [h2])
    simpa [l] using this
  · have := pySlice_field 27 33 (cat ++ s1 :: date ++ s2 :: time ++ [s3]) lat (s4 :: lon ++ s5 :: dep ++ s6 :: mags ++ rest)
      (by simp [h0, h1, h2]) (by simp [h3])
    simpa [l] using this
  · have := pySlice_field 34 41 (cat ++ s1 :: date ++ s2 :: time ++ s3 :: lat ++ [s4]) lon (s5 :: dep ++ s6 :: mags ++ rest)
      (by simp [h0, h1, h2, h3]) (by simp [h4])
    simpa [l] using this
  · have := pySlice_field 42 47 (cat ++ s1 :: date ++ s2 :: time ++ s3 :: lat ++ s4 :: lon ++ [s5]) dep (s6 :: mags ++ rest)
      (by simp [h0, h1, h2, h3, h4]) (by simp [h5])
    simpa [l] using this
  · have := pySlice_field 48 55 (cat ++ s1 :: date ++ s2 :: time ++ s3 :: lat ++ s4 :: lon ++ s5 :: dep ++ [s6]) mags rest
      (by simp [h0, h1, h2, h3, h4, h5]) (by simp [h6])
    simpa [l] using this

/-- hence the hypocenter line decodes to the values of its latitude / longitude / depth fields and hands the date and
    time fields on unchanged — whatever the catalog code, separators, magnitudes and location text are -/
theorem ndk_line1_layout (cat date time lat lon dep mags rest a b : Str) (s1 s2 s3 s4 s5 s6 : Char)
    (vlat vlon vdep va vb : Rat)
    (h0 : cat.length = 4) (h1 : date.length = 10) (h2 : time.length = 10) (h3 : lat.length = 6)
    (h4 : lon.length = 7) (h5 : dep.length = 5) (h6 : mags.length = 7)
    (flat : pyFloat lat = some vlat) (flon : pyFloat lon = some vlon) (fdep : pyFloat dep = some vdep)
    (hm : splitWs mags = [a, b]) (fa : pyFloat a = some va) (fb : pyFloat b = some vb) :
    ndkLine1 (cat ++ s1 :: date ++ s2 :: time ++ s3 :: lat ++ s4 :: lon ++ s5 :: dep ++ s6 :: mags ++ rest)
      = some ⟨strip date, time, vlat, vlon, vdep⟩ := by
  obtain ⟨c1, c2, c3, c4, c5, c6⟩ := ndk_line1_columns cat date time lat lon dep mags rest s1 s2 s3 s4 s5 s6 h0 h1 h2 h3 h4 h5 h6
  unfold ndkLine1
  rw [c1, c2, c3, c4, c5, c6, flat, flon, fdep, hm]
  simp [fa, fb]

/-- the value of a zero-padded decimal field (`%02d`, `%04d`) is the number written -/
theorem digits_value (k n : Nat) (h : n < 10 ^ k) : natOfDigits (renderNat k n) = n := natOfDigits_renderNat k n h

/-- a numeric strptime directive on a zero-padded field followed by a literal (or the end of the text): the field is
    consumed whole and its value returned -/
theorem directive_on_padded_field (lo hi k n : Nat) (rest : Str) (hk : lo ≤ k ∧ k ≤ hi) (hn : n < 10 ^ k)
    (hr : ∀ c ∈ rest.head?, c.isDigit = false) : takeNum lo hi (renderNat k n ++ rest) = some (n, rest) :=
  takeNum_render lo hi k n rest hk hn hr

/-- strptime on text, '%Y-%m-%dT%H:%M:%S.%f' (csep_ascii): a time stamp written with zero-padded fields and `k`
    fractional digits is read as exactly those clock fields, the fraction right-padded to microseconds -/
theorem csep_time_text (y m d hh mi ss k fr : Nat) (hy : y < 10 ^ 4) (hm : 1 ≤ m ∧ m ≤ 12) (hd : 1 ≤ d ∧ d ≤ 31)
    (hh' : hh ≤ 23) (hmi : mi ≤ 59) (hss : ss ≤ 59) (hk : 1 ≤ k ∧ k ≤ 6) (hfr : fr < 10 ^ k) :
    parseCsepTime (renderNat 4 y ++ '-' :: (renderNat 2 m ++ '-' :: (renderNat 2 d ++ 'T' :: (renderNat 2 hh ++ ':' ::
      (renderNat 2 mi ++ ':' :: (renderNat 2 ss ++ '.' :: (renderNat k fr ++ [])))))))
      = some (⟨y, m, d, hh, mi, ss⟩, ((fr * 10 ^ (6 - k) : Nat) : Int)) := by
  have e1 := fun R => takeNum_render 4 4 4 y ('-' :: R) ⟨le_refl _, le_refl _⟩ hy (head_not_digit '-' (by decide) R)
  have e2 := fun R => takeNum_render 1 2 2 m ('-' :: R) ⟨by omega, le_refl _⟩ (by omega) (head_not_digit '-' (by decide) R)
  have e3 := fun R => takeNum_render 1 2 2 d ('T' :: R) ⟨by omega, le_refl _⟩ (by omega) (head_not_digit 'T' (by decide) R)
  have e4 := fun R => takeNum_render 1 2 2 hh (':' :: R) ⟨by omega, le_refl _⟩ (by omega) (head_not_digit ':' (by decide) R)
  have e5 := fun R => takeNum_render 1 2 2 mi (':' :: R) ⟨by omega, le_refl _⟩ (by omega) (head_not_digit ':' (by decide) R)
  have e6 := fun R => takeNum_render 1 2 2 ss ('.' :: R) ⟨by omega, le_refl _⟩ (by omega) (head_not_digit '.' (by decide) R)
  have e7 := span_digits (renderNat k fr) [] (renderNat_digits k fr) (by simp)
  simp only [List.append_nil] at e7 ⊢
  simp [parseCsepTime, parseDate, parseHMS, parseFrac, e1, e2, e3, e4, e5, e6, e7, expect,
    renderNat_length, natOfDigits_renderNat k fr hfr, hm.1, hm.2, hd.1, hd.2, hh', hmi, hk.1, hk.2, (show ss ≤ 61 by omega)]

/-- NDK, file level: if every five-line group of the file is a parsable record (with tokens `tok b`), the text model
    of `ndk(fname)` is the token model on those tokens in file order — for "\n" and "\r\n" line ends, with or without
    a trailing incomplete group. So every token-level theorem (`decode_encode_ndk`, `sec60_carry_ndk`, …) holds for
    the text. -/
theorem ndk_file_refines_tokens (bs : List Block) (tok : Block → NdkRec) (sm : Block → Rat) (tail : List Str)
    (ht : tail.length < 5) (crlf : Bool)
    (hclean : ∀ l ∈ bs.flatMap blockLines ++ tail, cleanLine l)
    (hrec : ∀ b ∈ bs, ndkGroup b.1 b.2.1 b.2.2.1 b.2.2.2.1 b.2.2.2.2 = .record (tok b) (sm b)) :
    ndkFile (joinLines (if crlf then ['\r', '\n'] else ['\n']) (bs.flatMap blockLines ++ tail))
      = some (decodeNdk (bs.map tok)) := by
  have hl : lines (joinLines (if crlf then ['\r', '\n'] else ['\n']) (bs.flatMap blockLines ++ tail))
      = bs.flatMap blockLines ++ tail := by
    cases crlf
    · exact lines_joinLines_lf _ hclean
    · exact lines_joinLines_crlf _ hclean
  have hg : (bs.map fun g => ndkGroup g.1 g.2.1 g.2.2.1 g.2.2.2.1 g.2.2.2.2) = bs.map (fun b => NdkGroup.record (tok b) (sm b)) :=
    List.map_congr_left hrec
  unfold ndkFile
  rw [hl, groups5_blocks bs tail ht]
  simp only [hg]
  have h1 : (bs.map fun b => NdkGroup.record (tok b) (sm b)).contains NdkGroup.outside = false := by
    simp
  have h2 : (bs.map fun b => NdkGroup.record (tok b) (sm b)).contains NdkGroup.badTime = false := by
    simp
  have h3 : (bs.map fun b => NdkGroup.record (tok b) (sm b)).filterMap
      (fun g => match g with | .record r _ => some r | _ => none) = bs.map tok := by
    induction bs with
    | nil => rfl
    | cons b bs ih => simp
  simp

/-- NDK, text to events: a file of `n` parsable records written from the events `es` (normal records, tenths digit
    arbitrary; the scalar moment stands in the magnitude field) loads as one event per record, in file order, time =
    the written instant floored to whole seconds. -/
theorem ndk_file_one_event_per_record (recs : List (Block × SecEvent × Int)) (crlf : Bool)
    (hwf : ∀ r ∈ recs, r.2.1.wf)
    (hclean : ∀ l ∈ (recs.map (·.1)).flatMap blockLines, cleanLine l)
    (hrec : ∀ r ∈ recs, ndkGroup r.1.1 r.1.2.1 r.1.2.2.1 r.1.2.2.2.1 r.1.2.2.2.2 = .record (encodeNdk r.2.1 r.2.2) r.2.1.mag) :
    ndkFile (joinLines (if crlf then ['\r', '\n'] else ['\n']) ((recs.map (·.1)).flatMap blockLines))
      = some (.ok (recs.map fun r => r.2.1.expected)) := by
  have hd := decode_encode_ndk (recs.map (·.2)) (by
    intro e he
    obtain ⟨r, hr, rfl⟩ := List.mem_map.mp he
    exact hwf r hr)
  -- choose the token function through the list itself: state the refinement on the zipped list
  have key : ∀ (rs : List (Block × SecEvent × Int)),
      (∀ r ∈ rs, ndkGroup r.1.1 r.1.2.1 r.1.2.2.1 r.1.2.2.2.1 r.1.2.2.2.2 = .record (encodeNdk r.2.1 r.2.2) r.2.1.mag) →
      ((rs.map (·.1)).map fun g => ndkGroup g.1 g.2.1 g.2.2.1 g.2.2.2.1 g.2.2.2.2)
        = rs.map (fun r => NdkGroup.record (encodeNdk r.2.1 r.2.2) r.2.1.mag) := by
    intro rs h
    rw [List.map_map]
    exact List.map_congr_left h
  have hl : lines (joinLines (if crlf then ['\r', '\n'] else ['\n']) ((recs.map (·.1)).flatMap blockLines))
      = (recs.map (·.1)).flatMap blockLines := by
    cases crlf
    · exact lines_joinLines_lf _ hclean
    · exact lines_joinLines_crlf _ hclean
  unfold ndkFile
  have hg5 := groups5_blocks (recs.map (·.1)) [] (by simp)
  rw [List.append_nil] at hg5
  rw [hl, hg5]
  simp only [key recs hrec]
  have h1 : (recs.map fun r => NdkGroup.record (encodeNdk r.2.1 r.2.2) r.2.1.mag).contains NdkGroup.outside = false := by
    simp
  have h2 : (recs.map fun r => NdkGroup.record (encodeNdk r.2.1 r.2.2) r.2.1.mag).contains NdkGroup.badTime = false := by
    simp
  have h3 : (recs.map fun r => NdkGroup.record (encodeNdk r.2.1 r.2.2) r.2.1.mag).filterMap
      (fun g => match g with | .record r _ => some r | _ => none) = recs.map (fun r => encodeNdk r.2.1 r.2.2) := by
    induction recs with
    | nil => rfl
    | cons b bs ih => simp
  simp only [List.map_map] at hd
  simp
  exact hd

/-- CSEP CSV, file level, csv quoting included: on the characters a csv writer produces for ANY list of records (cells
    with delimiters, quotes, line ends are quoted; "\r\n" record ends) the text model of `csep_ascii` is the token model
    on the records' tokens, in file order -/
theorem csep_file_refines_tokens (recs : List (List Str)) :
    csepFileQ (PersistText.writeRecords recs)
      = (match recs.mapM csepTokens with | none => .error .badRow | some ls => decodeCsep ls) := by
  unfold csepFileQ
  rw [PersistText.csvRead_writeRecords]
  rfl

/-- CSEP CSV, text to events: a file written from the events `es` — each record any list of cells that tokenises to the
    event's encoding (so: any spelling of the numbers, any catalog-id and event-id cells, quoted or not), header optional
    — loads as one event per record, in file order, time floored to the millisecond -/
theorem csep_file_one_event_per_record (recs : List (List Str × MsEvent)) (header : Bool)
    (hwf : ∀ r ∈ recs, r.2.wf) (htok : ∀ r ∈ recs, csepTokens r.1 = some (encodeCsep r.2)) :
    csepFileQ (PersistText.writeRecords ((if header then [PersistText.headerRecord] else []) ++ recs.map (·.1)))
      = .ok (recs.map fun r => ⟨r.2.usTotal / 1000, r.2.lat, r.2.lon, r.2.depth, r.2.mag⟩) := by
  rw [csep_file_refines_tokens]
  have hrecs : (recs.map (·.1)).mapM csepTokens = some ((recs.map (·.2)).map encodeCsep) := by
    induction recs with
    | nil => rfl
    | cons r rs ih =>
      have h1 := htok r (by simp)
      have h2 := ih (fun x hx => hwf x (by simp [hx])) (fun x hx => htok x (by simp [hx]))
      simp only [List.map_cons, List.mapM_cons, h1, h2]
      rfl
  have hd := decode_encode_csep (recs.map (·.2)) (by
    intro e he
    obtain ⟨r, hr, rfl⟩ := List.mem_map.mp he
    exact hwf r hr) header
  have hh : csepTokens PersistText.headerRecord = some .header := by decide +kernel
  cases header
  · simp only [Bool.false_eq_true, if_false, List.nil_append] at hd ⊢
    rw [hrecs]
    simpa [List.map_map, Function.comp_def] using hd
  · simp only [if_true, List.cons_append, List.nil_append, List.mapM_cons, hh] at hd ⊢
    rw [hrecs]
    simpa [List.map_map, Function.comp_def] using hd

/-! ### non-vacuity: real text, evaluated by the kernel -/

/-- a CSEP CSV record whose event id needs quoting (delimiter, doubled quote), CRLF record ends, a header -/
example : csepFileQ "lon,lat,mag,time_string,depth,catalog_id,event_id\r\n-0.5,1e1,5.,1970-01-01T00:00:01.5,.5,7,\"a,\"\"b\"\" ;\"\r\n".toList
    = .ok [⟨1500, 10, -1/2, 1/2, 5⟩] := by decide +kernel


/-- a hypocenter line of the published catalog has the documented layout -/
example : ndkLine1 "PDE  2005/01/01 01:20:05.4  13.78  -88.78 193.1 5.0 0.0 EL SALVADOR             ".toList
    = some ⟨"2005/01/01".toList, "01:20:05.4".toList, Soft64.fl64 (1378/100), Soft64.fl64 (-8878/100), Soft64.fl64 (1931/10)⟩ := by
  decide +kernel

/-- `_parse_datetime_to_zmap` on text: a normal time, the ":60.0" rewrite on New Year's Eve, an unparsable second -/
private def asList (t : Int × Int × Int × Int × Int × Int × Int) : List Int :=
  [t.1, t.2.1, t.2.2.1, t.2.2.2.1, t.2.2.2.2.1, t.2.2.2.2.2.1, t.2.2.2.2.2.2]
example : (parseNdkTime "2005/01/01".toList "01:20:05.4".toList).map asList = some [2005, 1, 1, 1, 20, 5, 4] := by
  decide +kernel
example : (parseNdkTime "2005/12/31".toList "23:59:60.0".toList).map asList = some [2005, 12, 31, 23, 59, 60, 0] := by
  decide +kernel
example : parseNdkTime "2005/01/01".toList "01:20:65.4".toList = none := by decide +kernel

/-- decimal numerals in the spellings the readers meet -/
example : parseDec "-88.78".toList = some (-8878/100) ∧ parseDec "4E-05".toList = some (4/100000) ∧
    parseDec ".5".toList = some (1/2) ∧ parseDec "5.".toList = some 5 ∧ parseDec "+007.50".toList = some (15/2) ∧
    parseDec "1.2.3".toList = none ∧ parseDec "e5".toList = none ∧ parseDec "".toList = none := by decide +kernel

/-- time stamps of the csv formats -/
example : parseCsepTime "2000-02-29T23:59:59.25".toList = some (⟨2000, 2, 29, 23, 59, 59⟩, 250000) ∧
    parseCsepTime "2000-02-29T23:59:59".toList = some (⟨2000, 2, 29, 23, 59, 59⟩, 0) ∧
    parseJmaTime "1919-11-10T22:31:03.590000+0900".toList = some (⟨1919, 11, 10, 22, 31, 3⟩, 590000, 32400) ∧
    parseJmaTime "1919-11-10T22:31:03.59-03:30".toList = some (⟨1919, 11, 10, 22, 31, 3⟩, 590000, -12600) ∧
    parseJmaTime "1919-11-10T22:31:03.59Z".toList = some (⟨1919, 11, 10, 22, 31, 3⟩, 590000, 0) := by decide +kernel

/-- a whole two-record ZMAP file with "\r\n" line ends, tabs and a decimal year, from characters to events -/
example : zmapFile "14.0108\t41.615\t2020.9999\t12\t31\t1.06\t6.1\t23\t59\t4.29\r\n-0.5 1e1 1970 1 1 5. .5 0 0 0\r\n".toList
    = some (.ok [⟨1609459144000, Soft64.fl64 (41615/1000), Soft64.fl64 (140108/10000), Soft64.fl64 (61/10), Soft64.fl64 (106/100)⟩,
                 ⟨0, 10, -1/2, 1/2, 5⟩]) := by decide +kernel

example : takeNum 1 2 (renderNat 2 7 ++ ":30".toList) = some (7, ":30".toList) := by decide +kernel

end ReaderText
