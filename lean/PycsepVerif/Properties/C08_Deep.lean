import PycsepVerif.Properties.C08_Public
import PycsepVerif.Proofs.NormalSf
import PycsepVerif.Proofs.PairedRanks

/-!
# C08, third part — the W-test's p-value with the normal survival function itself

`Properties/C08.lean` proves `0 ≤ p ≤ 1` for `p = 2·sf(|z|)` under a hypothesis on the parameter `sf`
("maps [0, ∞) into [0, 1/2]"). Here `sf` is the survival function of the standard normal law (`normSf z = P(Z > z)`
for Mathlib's `gaussianReal 0 1`) and the hypothesis is a theorem (`normal_sf_half`, from the symmetry of the law and
the absence of atoms), so the clause "the W-test returns … a two-sided p in [0,1]" has no hypothesis left except
the quantifier's own "at least one log-rate difference distinct from the null median".
-/
namespace PairedTests

/-- the normal survival function maps [0, ∞) into [0, 1/2]: the hypothesis of `w_p_bounds` -/
theorem normal_sf_half (x : ℝ) (hx : 0 ≤ x) : 0 ≤ normSf x ∧ normSf x ≤ 1 / 2 := normSf_half x hx

/-- sf(0) = 1/2, sf(z) + sf(−z) = 1, sf non-increasing -/
theorem normal_sf_facts : normSf 0 = 1 / 2 ∧ (∀ z, normSf z + normSf (-z) = 1) ∧ Antitone normSf :=
  ⟨normSf_zero, normSf_add_neg, normSf_antitone⟩

/-- W-test: with the normal survival function p = 2·sf(|z|) lies in [0,1] for EVERY z — no hypothesis -/
theorem w_p_bounds_normal (z : ℝ) : 0 ≤ wP normSf z ∧ wP normSf z ≤ 1 := w_p_bounds normSf normal_sf_half z

/-- p = 1 when the smaller rank sum equals its null mean (z = 0) -/
theorem w_p_normal_at_zero : wP normSf 0 = 1 := by
  simp only [wP, absR_real, abs_zero, normSf_zero, RealOps.real_mul, RealOps.real_ofNat]
  norm_num

/-- p depends on z only through |z| and is non-increasing in |z|; in particular p(−z) = p(z) -/
theorem w_p_normal_antitone_abs {z z' : ℝ} (h : |z| ≤ |z'|) : wP normSf z' ≤ wP normSf z := by
  simp only [wP, absR_real, RealOps.real_mul, RealOps.real_ofNat]
  have := normSf_antitone h
  push_cast
  linarith

theorem w_p_even (sf : ℝ → ℝ) (z : ℝ) : wP sf (-z) = wP sf z := by
  simp only [wP, absR_real, abs_neg]

/-- the whole W-test on differences `d0` (after `x − m`), real layer on top of the exact statistics -/
noncomputable def wTestReal (d0 : List Rat) : ℝ × ℝ :=
  let w := wStatsD d0
  let z := wZ ((w.t2 : ℝ) / 2) ((w.mn4 : ℝ) / 4) ((w.se24 : ℚ) : ℝ)
  (z, wP normSf z)

/-- "returns the Wilcoxon signed-rank z and a two-sided p in [0,1] … and is unchanged by swapping the forecasts", for
    every list of differences with at least one non-zero entry: the variance term is positive (z is a finite
    quotient), z ≤ 0, 0 ≤ p ≤ 1, and the swap d ↦ −d changes neither -/
theorem w_test_result (d0 : List Rat) (h : 1 ≤ (wStatsD d0).count) :
    0 < (wStatsD d0).se24 ∧ (wTestReal d0).1 ≤ 0 ∧ 0 ≤ (wTestReal d0).2 ∧ (wTestReal d0).2 ≤ 1 ∧
    wTestReal (d0.map (fun a => -a)) = wTestReal d0 := by
  refine ⟨w_se_pos d0 h, w_z_nonpos d0 h, (w_p_bounds_normal _).1, (w_p_bounds_normal _).2, ?_⟩
  unfold wTestReal
  rw [w_swap_invariant]

/-- the public W-test on the doubles returned by `numpy.log` and the forecast totals: same conclusions, the swap
    being the exchange of the two forecasts -/
theorem w_public_result (LA LB : List ℚ) (n1 n2 n : ℚ) (h : 1 ≤ (wStatsPub LA LB n1 n2 n).count) :
    let d := (wX LA LB).map (fun a => Soft64.fsub a (wM n1 n2 n))
    let d' := (wX LB LA).map (fun a => Soft64.fsub a (wM n2 n1 n))
    (wTestReal d).1 ≤ 0 ∧ 0 ≤ (wTestReal d).2 ∧ (wTestReal d).2 ≤ 1 ∧ wTestReal d' = wTestReal d := by
  intro d d'
  have hc : 1 ≤ (wStatsD d).count := h
  obtain ⟨_, hz, hp0, hp1, _⟩ := w_test_result d hc
  refine ⟨hz, hp0, hp1, ?_⟩
  have e : wStatsD d' = wStatsD d := w_public_swap LA LB n1 n2 n
  unfold wTestReal
  rw [e]

/-! ### a common factor on both forecasts -/

/-- both forecast objects rescaled by the SAME positive factor (`.scale`, or `scale_to_test_date` on a common period):
    the log-rate differences at the events do not change, hence neither does the variance of Eq. 18, and the gain moves
    by the totals only: [Σ x_i − s·(N_A − N_B)]/N -/
theorem public_t_common_rescale (fa fb : Fc ℝ) {s : ℝ} (hs : 0 < s) (ev : List ℕ) (tcrit : ℝ)
    (hpos : ∀ i ∈ ev, 0 < fa.data.getD i 0 ∧ 0 < fb.data.getD i 0) :
    let fa' : Fc ℝ := ⟨fa.data, s, fa.days⟩
    let fb' : Fc ℝ := ⟨fb.data, s, fb.days⟩
    (pairedTPub fa' fb' ev false tcrit).var = (pairedTPub fa fb ev false tcrit).var ∧
    (pairedTPub fa' fb' ev false tcrit).ig
      = ((ev.map (fun i => Real.log (fa.data.getD i 0) - Real.log (fb.data.getD i 0))).sum
          - s * (fa.data.sum - fb.data.sum)) / (ev.length : ℝ) := by
  intro fa' fb'
  have hd : ∀ f : Fc ℝ, ∀ i, (⟨f.data, s, f.days⟩ : Fc ℝ).data.getD i 0 = f.data.getD i 0 * s := by
    intro f i
    show ((f.data.map (fun x => RealOps.mul x s)).getD i 0) = _
    simp only [RealOps.real_mul]
    exact getD_map_mul _ _ _
  have e : ev.map (fun i => Real.log (fa'.data.getD i 0) - Real.log (fb'.data.getD i 0))
      = ev.map (fun i => Real.log (fa.data.getD i 0) - Real.log (fb.data.getD i 0)) := by
    apply List.map_congr_left
    intro i hi
    obtain ⟨h1, h2⟩ := hpos i hi
    rw [hd fa i, hd fb i, Real.log_mul h1.ne' hs.ne', Real.log_mul h2.ne' hs.ne']; ring
  have hsum : ∀ f : Fc ℝ, (⟨f.data, s, f.days⟩ : Fc ℝ).data.sum = f.data.sum * s := by
    intro f
    show (f.data.map (fun x => RealOps.mul x s)).sum = _
    simp only [RealOps.real_mul]
    induction f.data with
    | nil => simp
    | cons a l ih => simp [ih, add_mul]
  constructor
  · simp only [pairedTPub, tTest, Fc.targetRates, Fc.dataFor, variance, logDiffs_map, RealOps.real_zero,
      Bool.false_eq_true, if_false]
    rw [e]
  · rw [public_t_gain, e, hsum fa, hsum fb]; ring

/-! ### the tie correction groups RANKS (source) — the model groups VALUES: the same groups -/

/-- the (doubled) average rank is strictly increasing on the values that occur in the list -/
theorem rank_strict_mono (l : List Rat) {a b : Rat} (hb : b ∈ l) (hab : a < b) : rank2 l a < rank2 l b :=
  rank2_strictMono l hb hab

/-- hence two members have the same rank exactly when they are the same value -/
theorem rank_eq_iff (l : List Rat) {a b : Rat} (ha : a ∈ l) (hb : b ∈ l) : rank2 l a = rank2 l b ↔ a = b :=
  ⟨rank2_injOn l ha hb, fun e => by rw [e]⟩

/-- `numpy.unique(r, return_counts=True)` on the ranks (what poisson_evaluations.py:557 does) yields the tie term of the
    model, which groups equal |d|: for EVERY list. Closes the comment "equal ranks are exactly equal values of |d|" of
    `Model/PairedTests.lean`; with it `w_se_pos`, `w_swap_invariant`, … speak about the source's own grouping. -/
theorem tie_groups_by_rank (l : List Rat) : tieTermRanks l = tieTerm l := tieTermRanks_eq l

/-- `scipy.stats.rankdata(x, 'average')` as SciPy 1.18 computes it (stable sort, position of the first element of every
    run of equal values plus half the run length minus one half, scattered back to the input order) IS the counting
    specification #{<} + (#{=} + 1)/2 the model ranks with — for every list. "rankdata by its specification" is no longer
    a trusted statement about the algorithm, only about our reading of SciPy's source (tied by `c08_rank` on every run). -/
theorem rankdata_algorithm_eq_spec (l : List Rat) : rankdata2 l = l.map (rank2 l) := rankdata2_eq l

-- non-vacuity
example : (pairedTPub (⟨[1, 2], 3, 365⟩ : Fc ℝ) ⟨[2, 1], 3, 365⟩ [0, 1] false 2).var
    = (pairedTPub (⟨[1, 2], 1, 365⟩ : Fc ℝ) ⟨[2, 1], 1, 365⟩ [0, 1] false 2).var := by
  have h := (public_t_common_rescale (⟨[1, 2], 1, 365⟩ : Fc ℝ) ⟨[2, 1], 1, 365⟩ (s := 3) (by norm_num) [0, 1] 2
    (by intro i hi; fin_cases hi <;> simp [Fc.data])).1
  simpa [Fc.data] using h

example : rankdata2 [3, 1, 3, 2] = [7, 2, 7, 4] := by
  rw [rankdata_algorithm_eq_spec]; decide
example : tieTermRanks [1, 3, 3, 1, 1, 2] = 24 + 6 := by decide +kernel
example : 1 ≤ (wStatsD [3, -1, 0, 1, -3, 3]).count := by decide +kernel
example : (wTestReal [3, -1, 0, 1, -3, 3]).2 ≤ 1 := (w_test_result _ (by decide +kernel)).2.2.2.1
example : wP normSf 0 = 1 := w_p_normal_at_zero

end PairedTests
