import PycsepVerif.Proofs.JsonTree

/-!
# C18 — the JSON value tree with dictionaries (`Model/JsonTree.lean`)

`encode` = `json.dump(…, sort_keys=True, default=_json_default)` (`none` = TypeError), `decode` = `json.load`,
`roundTrip v = (encode v).map decode`, `norm` = what "equal after the round trip" means.
-/
namespace JsonTree

/-- C18: every value of safe kinds — now including dicts with (distinct) string keys, at any depth and in any mix with
    lists / tuples / arrays / numpy scalars — can be written and is read back equal (normal form). -/
theorem tree_roundtrip_safe (v : PyObj) (h : Safe v) : roundTrip v = some (norm v) := by
  obtain ⟨j, h1, h2, _⟩ := rt_safe v h
  simp [roundTrip, h1, h2]

/-- the tree written for a safe value never has two members of one name in an object -/
theorem safe_image_nodup (v : PyObj) (h : Safe v) (j : JVal) (hj : encode v = some j) : NoDup j := by
  obtain ⟨j', h1, _, h3⟩ := rt_safe v h
  rw [h1] at hj; cases hj; exact h3

/-- the round-trip theorem for JSON trees: EVERY tree without duplicate member names (in particular every tree the
    encoder produces from a real Python value) is a fixed point of load-then-write. -/
theorem decode_encode_fixed (j : JVal) (h : NoDup j) : encode (decode j) = some j := enc_dec_fixed j h

/-- … so every file written from safe data is reproduced exactly when it is loaded and saved again -/
theorem safe_image_fixed (v : PyObj) (h : Safe v) (j : JVal) (hj : encode v = some j) : encode (decode j) = some j :=
  decode_encode_fixed j (safe_image_nodup v h j hj)

/-- whatever tree is in the file (duplicate names included), what `json.load` returns is plain Python data:
    int / bool / float / str / None, lists, and dicts with pairwise distinct str keys -/
theorem loaded_is_plain (j : JVal) : Plain (decode j) := decode_plain j

/-- a loaded value saved and loaded again is unchanged — for ALL values that can be written at all (also those the
    first write damaged: int keys, stringified objects, tuples, …) -/
theorem tree_roundtrip_stable (v p : PyObj) (h : roundTrip v = some p) : roundTrip p = some p := by
  unfold roundTrip at h
  cases he : encode v with
  | none => simp [he] at h
  | some j =>
    simp only [he, Option.map_some, Option.some.injEq] at h
    subst h
    have hp := decode_plain j
    rw [tree_roundtrip_safe _ (plain_safe _ hp), plain_norm _ hp]

/-- normal forms are stable -/
theorem tree_norm_idempotent (v : PyObj) : norm (norm v) = norm v := norm_idem v

/-- the executable safety test used by the driver decides `Safe` -/
theorem tree_safe_decidable (v : PyObj) : safeB v = true ↔ Safe v := safeB_iff v

/-! ## necessity of the hypotheses -/

/-- an int key is written as its decimal repr and comes back as a STRING key: the dict is not preserved -/
theorem int_keys_come_back_as_strings (n : Int) (v : PyObj) (h : Safe v) :
    roundTrip (.dict (.cons (.kint n) v .nil)) = some (.dict (.cons (.kstr (toString n)) (norm v) .nil)) ∧
    roundTrip (.dict (.cons (.kint n) v .nil)) ≠ some (norm (.dict (.cons (.kint n) v .nil))) ∧
    ¬ Safe (.dict (.cons (.kint n) v .nil)) := by
  obtain ⟨j, h1, h2, _⟩ := rt_safe v h
  refine ⟨?_, ?_, ?_⟩
  · simp [roundTrip, encode, encodeKVs, PyKVs.sortable, Key.cls, PyKVs.allCls, h1, decode, decodeKVs, JKVs.hasKey,
      Key.coerce, h2]
  · simp [roundTrip, encode, encodeKVs, PyKVs.sortable, Key.cls, PyKVs.allCls, h1, decode, decodeKVs, JKVs.hasKey,
      Key.coerce, norm, normKVs]
  · simp [Safe, SafeKVs, Key.isStr]

/-- True / False / None keys become the strings "true" / "false" / "null" -/
theorem bool_none_keys_come_back_as_strings :
    roundTrip (.dict (.cons (.kbool true) (.pyInt 1) (.cons (.kbool false) (.pyInt 0) .nil))) =
      some (.dict (.cons (.kstr "true") (.pyInt 1) (.cons (.kstr "false") (.pyInt 0) .nil))) ∧
    roundTrip (.dict (.cons .knone (.pyInt 1) .nil)) = some (.dict (.cons (.kstr "null") (.pyInt 1) .nil)) := by
  constructor <;>
  simp [roundTrip, encode, encodeKVs, PyKVs.sortable, Key.cls, PyKVs.allCls, PyKVs.isNil, decode, decodeKVs,
    JKVs.hasKey, Key.coerce]

theorem allCls_false_of_bad (c : KeyClass) (s : String) :
    ∀ (kvs : PyKVs), kvs.hasKey (.kbad s) = true → kvs.allCls c = false
  | .nil, h => by simp [PyKVs.hasKey] at h
  | .cons k v rest, h => by
      simp only [PyKVs.hasKey, Bool.or_eq_true, decide_eq_true_eq] at h
      rcases h with h | h
      · subst h; simp [PyKVs.allCls, Key.cls]
      · simp [PyKVs.allCls, allCls_false_of_bad c s rest h]

/-- a key json does not accept (numpy.int64, numpy.bool_, tuple, bytes, …) anywhere in a dict makes the write raise
    TypeError: `default=` is not applied to keys -/
theorem bad_key_raises (kvs : PyKVs) (s : String) (h : kvs.hasKey (.kbad s) = true) : encode (.dict kvs) = none := by
  have : kvs.sortable = false := by
    cases kvs with
    | nil => simp [PyKVs.hasKey] at h
    | cons k v rest =>
      simp only [PyKVs.hasKey, Bool.or_eq_true, decide_eq_true_eq] at h
      rcases h with h | h
      · subst h; simp [PyKVs.sortable, Key.cls]
      · cases hc : k.cls with
        | none => simp [PyKVs.sortable, hc]
        | some c =>
          cases c with
          | none =>
            cases rest with
            | nil => simp [PyKVs.hasKey] at h
            | cons _ _ _ => simp [PyKVs.sortable, hc, PyKVs.isNil]
          | str => simp [PyKVs.sortable, hc, allCls_false_of_bad _ s rest h]
          | num => simp [PyKVs.sortable, hc, allCls_false_of_bad _ s rest h]
  simp [encode, this]

theorem allCls_hasKey (c : KeyClass) (k : Key) :
    ∀ (kvs : PyKVs), kvs.allCls c = true → kvs.hasKey k = true → k.cls = some c
  | .nil, _, h => by simp [PyKVs.hasKey] at h
  | .cons k' v rest, ha, h => by
      simp only [PyKVs.allCls, Bool.and_eq_true, decide_eq_true_eq] at ha
      simp only [PyKVs.hasKey, Bool.or_eq_true, decide_eq_true_eq] at h
      rcases h with h | h
      · subst h; exact ha.1
      · exact allCls_hasKey c k rest ha.2 h

/-- all keys of a dict that can be written lie in ONE comparison class … -/
theorem sortable_one_class (kvs : PyKVs) (hs : kvs.sortable = true) (k1 k2 : Key)
    (h1 : kvs.hasKey k1 = true) (h2 : kvs.hasKey k2 = true) : k1.cls = k2.cls := by
  cases kvs with
  | nil => simp [PyKVs.hasKey] at h1
  | cons k v rest =>
    cases hc : k.cls with
    | none => simp [PyKVs.sortable, hc] at hs
    | some c =>
      have key : ∀ k', (PyKVs.cons k v rest).hasKey k' = true → k'.cls = some c := by
        intro k' h'
        simp only [PyKVs.hasKey, Bool.or_eq_true, decide_eq_true_eq] at h'
        rcases h' with h' | h'
        · subst h'; exact hc
        · cases c with
          | none =>
            cases rest with
            | nil => simp [PyKVs.hasKey] at h'
            | cons _ _ _ => simp [PyKVs.sortable, hc, PyKVs.isNil] at hs
          | str => exact allCls_hasKey _ k' rest (by simpa [PyKVs.sortable, hc] using hs) h'
          | num => exact allCls_hasKey _ k' rest (by simpa [PyKVs.sortable, hc] using hs) h'
      rw [key k1 h1, key k2 h2]

/-- … hence a dict mixing str keys with int/bool keys, or None with anything, raises TypeError (`sort_keys=True`
    compares the keys before they are coerced) -/
theorem mixed_keys_raise (kvs : PyKVs) (k1 k2 : Key) (h1 : kvs.hasKey k1 = true) (h2 : kvs.hasKey k2 = true)
    (hne : k1.cls ≠ k2.cls) : encode (.dict kvs) = none := by
  cases hs : kvs.sortable with
  | false => simp [encode, hs]
  | true => exact absurd (sortable_one_class kvs hs k1 k2 h1 h2) hne

/-- an object json stringifies is damaged inside a dict exactly as at top level -/
theorem stringified_inside_dict (s : String) :
    roundTrip (.dict (.cons (.kstr "a") (.other s) .nil)) = some (.dict (.cons (.kstr "a") (.str s) .nil)) ∧
    ¬ Safe (.dict (.cons (.kstr "a") (.other s) .nil)) := by
  constructor
  · simp [roundTrip, encode, encodeKVs, PyKVs.sortable, Key.cls, PyKVs.allCls, decode, decodeKVs, JKVs.hasKey, Key.coerce]
  · simp [Safe, SafeKVs]

/-- a later duplicate member name wins when a (hand-written) file is loaded -/
theorem duplicate_member_last_wins (a b : JVal) (s : String) :
    decode (.obj (.cons s a (.cons s b .nil))) = .dict (.cons (.kstr s) (decode b) .nil) := by
  simp [decode, decodeKVs, JKVs.hasKey]

/-! ## consistency with the scalar/array model of `Model/ResultJson.lean` (theorems of `Properties/C18.lean`) -/

/-- the old model is the dict-free fragment of this one: same written tree, same loaded value, same normal form, same
    safe set — so `ResultJson.roundtrip_safe` and `tree_roundtrip_safe` speak about the same thing -/
theorem embedding_consistent (v : ResultJson.PyVal) (j : ResultJson.Json) :
    encode (ofPyVal v) = some (ofJson (ResultJson.toJson v)) ∧
    decode (ofJson j) = ofPyVal (ResultJson.fromJson j) ∧
    roundTrip (ofPyVal v) = some (ofPyVal (ResultJson.roundTrip v)) ∧
    norm (ofPyVal v) = ofPyVal (ResultJson.norm v) ∧
    (Safe (ofPyVal v) ↔ ResultJson.Safe v) := by
  refine ⟨encode_ofPyVal v, decode_ofJson j, ?_, norm_ofPyVal v, safe_ofPyVal v⟩
  simp [roundTrip, encode_ofPyVal v, decode_ofJson, ResultJson.roundTrip]

/-! ## non-vacuity -/

-- a safe value: a result-like dict holding a tuple, NaN, None and a nested list of dicts
example : Safe (.dict (.cons (.kstr "quantile") (.tuple (.cons (.npFloat64 .nan) (.cons .none .nil)))
    (.cons (.kstr "evaluations") (.list (.cons (.dict (.cons (.kstr "name") (.str "n-test") .nil)) .nil)) .nil))) := by
  simp [Safe, SafeL, SafeKVs, Key.isStr, PyKVs.hasKey]
example : roundTrip (.dict (.cons (.kstr "q") (.tuple (.cons (.npInt64 4) .nil)) .nil)) =
    some (.dict (.cons (.kstr "q") (.list (.cons (.pyInt 4) .nil)) .nil)) :=
  tree_roundtrip_safe _ (by simp [Safe, SafeL, SafeKVs, Key.isStr, PyKVs.hasKey])
-- a tree without duplicate names
example : NoDup (.obj (.cons "a" (.arr (.cons (.obj (.cons "b" .null .nil)) .nil)) (.cons "c" (.int 1) .nil))) := by
  simp [NoDup, NoDupL, NoDupKVs, JKVs.hasKey]
-- tree_roundtrip_stable applies to a value that is damaged by the first write
example : roundTrip (.dict (.cons (.kint 1) (.tuple .nil) .nil)) = some (.dict (.cons (.kstr "1") (.list .nil) .nil)) :=
  (int_keys_come_back_as_strings 1 (.tuple .nil) (by simp [Safe, SafeL])).1
-- bad / mixed keys
example : encode (.dict (.cons (.kstr "a") .none (.cons (.kbad "np.int64(1)") .none .nil))) = none :=
  bad_key_raises _ "np.int64(1)" (by simp [PyKVs.hasKey])
example : encode (.dict (.cons (.kstr "a") .none (.cons (.kint 1) .none .nil))) = none :=
  mixed_keys_raise _ (.kstr "a") (.kint 1) (by simp [PyKVs.hasKey]) (by simp [PyKVs.hasKey]) (by simp [Key.cls])
-- … while int and bool keys mix (bool is an int)
example : (encode (.dict (.cons (.kint 2) .none (.cons (.kbool true) .none .nil)))).isSome = true := by
  simp [encode, encodeKVs, PyKVs.sortable, Key.cls, PyKVs.allCls]

end JsonTree
