import PycsepVerif.Proofs.Sampler

/-!
# C06 — simulated catalogs follow the forecast by exact inverse-CDF and conserve counts

Theorems about `Model/Sampler.lean` (model of the three `_simulate_catalog`s, the sampling weights, the quantile
line and the seed handling of csep/core/{poisson,binomial,brier,catalog}_evaluations.py).
A float64 is the rational it denotes; `weights` is the very float computation numpy performs (sequential `cumsum`,
one division per element), so the statements about weights are statements about binary64 rounding.
Uniform draws are arbitrary rationals: every statement holds for EVERY draw, not for sampled ones.
-/
namespace Sampler
open Soft64

/-- F_(k-1), with F_(-1) = 0 -/
def prevW (ws : List Rat) (k : Nat) : Rat := if k = 0 then 0 else ws.getD (k - 1) 0

/-- valid forecast rates: non-negative floats, at least one positive -/
structure ValidRates (rates : List Rat) : Prop where
  nonneg : ∀ x ∈ rates, 0 ≤ x
  floats : ∀ x ∈ rates, fl64 x = x
  somePos : ∃ x ∈ rates, 0 < x

/-- **placement**: on non-decreasing weights, `searchsorted(side='right')` puts a draw r ≥ 0 in bin k
    exactly when F_(k-1) ≤ r < F_k. -/
theorem place_iff (ws : List Rat) (hs : ws.Pairwise (· ≤ ·)) (r : Rat) (hr : 0 ≤ r) (k : Nat)
    (hk : k < ws.length) : searchRight ws r = k ↔ prevW ws k ≤ r ∧ r < ws.getD k 0 := by
  have hkey := lt_searchRight_iff hs r
  unfold prevW
  constructor
  · intro h
    constructor
    · split
      · exact hr
      · rename_i hk0
        exact (hkey (k - 1) (by omega)).mp (by omega)
    · apply lt_of_not_ge
      intro hle
      have := (hkey k hk).mpr hle
      omega
  · rintro ⟨h1, h2⟩
    have hnot : ¬ k < searchRight ws r := fun h => absurd ((hkey k hk).mp h) (not_le.mpr h2)
    by_cases hk0 : k = 0
    · omega
    · simp only [hk0, ↓reduceIte] at h1
      have := (hkey (k - 1) (by omega)).mpr h1
      omega

/-- float division of a non-zero number by itself is exactly 1 (x/x = 1 and 1 is a float);
    `Soft64.fdiv_self`, proved in Proofs/Soft64.lean from the definition of `fl64`, restated for the property -/
theorem fdiv_self_eq_one {x : Rat} (hx : x ≠ 0) : fdiv x x = 1 := Soft64.fdiv_self hx

/-- **the last weight is exactly 1** (the cumulative sum is normalised by its own last element) -/
theorem last_weight_is_one (rates : List Rat) (hv : ValidRates rates) : lastD (weights rates) = 1 := by
  have hpos := lastD_cumsumF_pos rates hv.nonneg hv.floats hv.somePos
  have hne : cumsumF rates ≠ [] := by
    intro h; rw [h] at hpos; simp [lastD] at hpos
  unfold weights
  rw [lastD_map hne]
  exact fdiv_self (ne_of_gt hpos)

/-- rounding to binary64 is monotone (`Soft64.fl64_mono`, proved in Proofs/Soft64.lean from the definition of
    `fl64`); restated here because the monotonicity of the weights rests on it -/
theorem rounding_monotone {x y : Rat} (h : x ≤ y) : fl64 x ≤ fl64 y := Soft64.fl64_mono h

/-- **the float weights are non-decreasing** for non-negative rates: each float addition of a non-negative
    number does not decrease the running sum, and float division by the positive total is monotone. -/
theorem weights_monotone (rates : List Rat) (hnn : ∀ x ∈ rates, 0 ≤ x) :
    (weights rates).Pairwise (· ≤ ·) := by
  unfold weights
  have hs : (cumsumF rates).Pairwise (· ≤ ·) := by
    rw [cumsumF_eq]; exact cumFrom_sorted 0 fl64_zero rates hnn
  have hL : 0 ≤ lastD (cumsumF rates) := lastD_nonneg_of_all (cumsumF_nonneg rates hnn)
  apply List.Pairwise.map _ _ hs
  intro a b hab
  unfold fdiv
  exact Soft64.fl64_mono (div_le_div_of_nonneg_right hab hL)

/-- the binary / Brier weights are non-decreasing for ANY rate array (non-positive rates are masked) -/
theorem weightsMasked_monotone (rates : List Rat) : (weightsMasked rates).Pairwise (· ≤ ·) :=
  weights_monotone _ (maskRates_nonneg rates)

theorem weights_length (rates : List Rat) : (weights rates).length = rates.length := by
  simp [weights, cumsumF_eq, cumFrom_length]

/-- a zero-rate bin has the weight of its predecessor (x + 0.0 is exact): its interval [F_(k-1), F_k) is empty -/
theorem zero_rate_interval_empty (rates : List Rat) (k : Nat) (hk : k < rates.length)
    (hz : rates.getD k 0 = 0) : (weights rates).getD k 0 = prevW (weights rates) k := by
  have hkc : k < (cumFrom 0 rates).length := by rw [cumFrom_length]; exact hk
  unfold prevW weights
  rw [cumsumF_eq]
  cases k with
  | zero =>
    cases rates with
    | nil => simp at hk
    | cons x xs =>
      simp only [List.getD_cons_zero] at hz
      subst hz
      simp [cumFrom, fadd, fdiv, fl64_zero]
  | succ k =>
    have hk1 : k < (cumFrom 0 rates).length := by omega
    simp only [Nat.add_one_ne_zero, ↓reduceIte, Nat.add_sub_cancel]
    simp only [List.getD_eq_getElem?_getD, List.getElem?_map, List.getElem?_eq_getElem hkc,
      List.getElem?_eq_getElem hk1, Option.map_some, Option.getD_some]
    have := cumFrom_zero_rate 0 rates k hk hz
    simp only [List.getD_eq_getElem?_getD, List.getElem?_eq_getElem hkc, List.getElem?_eq_getElem hk1,
      Option.getD_some] at this
    rw [this]

/-- **never in a zero-rate bin** (Poisson weights): for EVERY draw r ≥ 0 the event is not placed in a bin of
    rate 0 — leading, interior or trailing. -/
theorem never_in_zero_rate_bin (rates : List Rat) (hnn : ∀ x ∈ rates, 0 ≤ x) (k : Nat) (hk : k < rates.length)
    (hz : rates.getD k 0 = 0) (r : Rat) (hr : 0 ≤ r) : searchRight (weights rates) r ≠ k := by
  intro h
  have hk' : k < (weights rates).length := by rw [weights_length]; exact hk
  have := (place_iff _ (weights_monotone rates hnn) r hr k hk').mp h
  rw [zero_rate_interval_empty rates k hk hz] at this
  exact absurd this.1 (not_le.mpr this.2)

/-- **never in a masked bin** (binary / Brier weights): a bin with rate ≤ 0 is never drawn, for any rate array. -/
theorem never_in_masked_bin (rates : List Rat) (k : Nat) (hk : k < rates.length)
    (hz : rates.getD k 0 ≤ 0) (r : Rat) (hr : 0 ≤ r) : searchRight (weightsMasked rates) r ≠ k := by
  apply never_in_zero_rate_bin _ (maskRates_nonneg rates) k (by rw [maskRates_length]; exact hk) _ r hr
  rw [maskRates_getD rates k hk, if_pos hz]

/-- **every draw r < 1 lands inside the array** because the last weight is exactly 1 (no IndexError for the
    largest double below 1 or any other number in [0,1)) -/
theorem in_range (rates : List Rat) (hv : ValidRates rates) (r : Rat) (hr : r < 1) :
    searchRight (weights rates) r < rates.length := by
  have h1 := last_weight_is_one rates hv
  have hne : weights rates ≠ [] := by
    intro h; rw [h] at h1; simp [lastD] at h1
  have := searchRight_lt_length hne (r := r) (by rw [h1]; exact hr)
  rwa [weights_length] at this

/-- **count conservation**: whenever the simulation returns, the array sums to the number of draws
    (the `assert sim_fore.sum() == num_events` can not fail) and keeps its shape. -/
theorem count_conserved (ws : List Rat) (draws : List Rat) (arr : List Nat)
    (h : simulate ws draws = some arr) : arr.sum = draws.length ∧ arr.length = ws.length := by
  have := simulateFrom_spec ws draws _ arr h
  simpa using this

/-- for valid rates and draws in [0,1) the simulation always returns (no IndexError) with the prescribed count -/
theorem simulate_total (rates : List Rat) (hv : ValidRates rates) (draws : List Rat)
    (hd : ∀ r ∈ draws, r < 1) :
    ∃ arr, simulate (weights rates) draws = some arr ∧ arr.sum = draws.length ∧ arr.length = rates.length := by
  have hsome := simulateFrom_isSome (weights rates) draws (List.replicate (weights rates).length 0) (by simp)
    (fun r hr => by rw [weights_length]; exact in_range rates hv r (hd r hr))
  obtain ⟨arr, harr⟩ := Option.isSome_iff_exists.mp hsome
  refine ⟨arr, harr, ?_⟩
  have := count_conserved _ _ _ harr
  rwa [weights_length] at this

/-- a simulated event never sits in a zero-rate bin: the whole simulated array is 0 there -/
theorem simulated_zero_in_zero_rate_bin (rates : List Rat) (hnn : ∀ x ∈ rates, 0 ≤ x) (draws : List Rat)
    (hd : ∀ r ∈ draws, 0 ≤ r) (k : Nat) (hk : k < rates.length) (hz : rates.getD k 0 = 0) :
    (placements (weights rates) draws).count k = 0 := by
  rw [List.count_eq_zero]
  intro hmem
  simp only [placements, List.mem_map] at hmem
  obtain ⟨r, hr, hk'⟩ := hmem
  exact never_in_zero_rate_bin rates hnn k hk hz r (hd r hr) hk'

/-- **binary / Brier rejection loop**: when it terminates the array is 0/1-valued with exactly `N` active cells
    (`N` distinct cells), has the shape of the forecast, every active cell was hit by one of the uniforms, and —
    for draws ≥ 0 — no active cell has a rate ≤ 0. -/
theorem binary_sim_distinct_count (rates : List Rat) (N : Nat) (stream : List Rat) (arr : List Nat)
    (rest : List Rat) (hd : ∀ r ∈ stream, 0 ≤ r)
    (h : simulateBinary (weightsMasked rates) N stream = .done arr rest) :
    IsBinary arr ∧ arr.countP (fun x => decide (0 < x)) = N ∧ arr.sum = N ∧ arr.length = rates.length ∧
    (∀ k, k < rates.length → arr.getD k 0 = 1 → 0 < rates.getD k 0) := by
  have hspec := rejLoop_spec (weightsMasked rates) N stream _ 0 arr rest h
    (by intro x hx; left; exact (List.mem_replicate.mp hx).2) (by simp) (Nat.zero_le _)
  obtain ⟨hb, hsum, hlen, hhit, _⟩ := hspec
  refine ⟨hb, by rw [countP_pos_eq_sum hb, hsum], hsum, ?_, ?_⟩
  · simpa [weightsMasked, weights_length, maskRates_length] using hlen
  · intro k hk h1
    rcases hhit k h1 with h0 | ⟨r, hr, hk'⟩
    · simp [List.getD_eq_getElem?_getD, List.getElem?_replicate] at h0
      split at h0 <;> simp at h0
    · by_contra hnp
      exact never_in_masked_bin rates k hk (not_lt.mp hnp) r (hd r hr) hk'

/-- the loop consumes a prefix of the stream and leaves the rest untouched for the next simulation -/
theorem binary_sim_consumes_prefix (ws : List Rat) (N : Nat) (stream : List Rat) (arr : List Nat)
    (rest : List Rat) (h : simulateBinary ws N stream = .done arr rest) : ∃ used, stream = used ++ rest := by
  have hspec := rejLoop_spec ws N stream _ 0 arr rest h
    (by intro x hx; left; exact (List.mem_replicate.mp hx).2) (by simp) (Nat.zero_le _)
  exact hspec.2.2.2.2

/-- **quantile definition**: the numerator counts the simulated statistics not exceeding the observed one,
    the denominator is the number of simulations -/
theorem quantile_def (sims : List Rat) (obs : Rat) :
    quantile sims obs = ((sims.filter (fun s => decide (s ≤ obs))).length, sims.length) := by
  simp [quantile, List.countP_eq_length_filter]

/-- **quantile bounds**: 0 ≤ k/n ≤ 1 -/
theorem quantile_bounds (sims : List Rat) (obs : Rat) :
    (quantile sims obs).1 ≤ (quantile sims obs).2 ∧
    0 ≤ ((quantile sims obs).1 : Rat) / (quantile sims obs).2 ∧
    ((quantile sims obs).1 : Rat) / (quantile sims obs).2 ≤ 1 := by
  have hle : (quantile sims obs).1 ≤ (quantile sims obs).2 := List.countP_le_length
  refine ⟨hle, by positivity, ?_⟩
  apply div_le_one_of_le₀ (by exact_mod_cast hle) (by positivity)

/-- the quantile is `≤`, not `<`: a simulated statistic equal to the observed one counts -/
theorem quantile_counts_ties (sims : List Rat) (obs : Rat) (hmem : obs ∈ sims) : 0 < (quantile sims obs).1 := by
  unfold quantile
  exact List.countP_pos_iff.mpr ⟨obs, hmem, by simp⟩

/-- **no tolerance**: every simulated statistic strictly above the observed one — by however little — is left
    out of the numerator: #{s ≤ obs} + #{s > obs} = n.  (A quantile that treats "almost equal" statistics as ties
    counts some of the second group.) -/
theorem quantile_no_tolerance (sims : List Rat) (obs : Rat) :
    (quantile sims obs).1 + sims.countP (fun s => decide (obs < s)) = sims.length := by
  unfold quantile
  induction sims with
  | nil => simp
  | cons a t ih =>
    by_cases h : a ≤ obs
    · have h' : ¬ obs < a := not_lt.mpr h
      simp [h, h'] at ih ⊢; omega
    · have h' : obs < a := not_le.mp h
      simp [h, h'] at ih ⊢; omega

/-- **a seed of 0 is applied** (`if seed is not None`), like every other integer seed -/
theorem seed_zero_applied : seedApplied (some 0) = true ∧ ∀ s : Int, seedApplied (some s) = true :=
  ⟨rfl, fun _ => rfl⟩

/-- **the result is a function of forecast, catalog and seed**: with a seed (0 included) the random stream, and
    hence any result `test` computed from it, does not depend on the ambient state of the global generator. -/
theorem result_is_function {σ ρ : Type} (seedState : Int → σ) (test : σ → ρ) (s : Int) (g₁ g₂ : σ) :
    test (streamOf seedState (some s) g₁) = test (streamOf seedState (some s) g₂) := by
  simp [streamOf, seedApplied]

/-- with injected random numbers the result is a function of weights, counts and the numbers alone: it is the
    quantile of the statistics of `simulate` on each row -/
theorem injected_result_is_function (stat : List Nat → Rat) (ws : List Rat) (n : Nat) (rows : List (List Rat))
    (obs : Rat) (q : Nat × Nat) (arrs : List (List Nat)) (h : testInjected stat ws n rows obs = some (q, arrs)) :
    q = quantile (arrs.map stat) obs ∧ simRows ws n rows = some arrs ∧ arrs.length = rows.length ∧
    ∀ arr ∈ arrs, arr.sum = n := by
  unfold testInjected at h
  cases hm : simRows ws n rows with
  | none => rw [hm] at h; cases h
  | some a =>
    rw [hm] at h
    simp only [Option.map_some, Option.some.injEq, Prod.mk.injEq] at h
    obtain ⟨h1, h2⟩ := h
    subst h2
    exact ⟨h1.symm, rfl, simRows_spec ws n rows a hm⟩

/-- **D10 (known finding) stated as a theorem**: the rejection loop can only finish if the forecast has at least
    `N` positive-rate cells; with fewer it runs out of every finite stream of uniforms (it never terminates). -/
theorem binary_sim_needs_enough_cells (rates : List Rat) (N : Nat) (stream : List Rat) (arr : List Nat)
    (rest : List Rat) (hd : ∀ r ∈ stream, 0 ≤ r)
    (h : simulateBinary (weightsMasked rates) N stream = .done arr rest) :
    N ≤ rates.countP (fun x => decide (0 < x)) := by
  obtain ⟨hb, hcnt, _, hlen, hpos⟩ := binary_sim_distinct_count rates N stream arr rest hd h
  rw [← hcnt]
  exact countP_active_le arr rates hlen hb hpos

/-- **D10b**: sharper form — every active cell of a finished rejection loop has a NON-EMPTY float interval
    F_(k-1) < F_k; a cell whose positive rate is absorbed by the float cumulative sum can never become active,
    so the loop needs at least `N` cells with a non-empty interval. -/
theorem binary_sim_needs_drawable_cells (rates : List Rat) (N : Nat) (stream : List Rat) (arr : List Nat)
    (rest : List Rat) (hd : ∀ r ∈ stream, 0 ≤ r)
    (h : simulateBinary (weightsMasked rates) N stream = .done arr rest) :
    (∀ k, k < rates.length → arr.getD k 0 = 1 →
        prevW (weightsMasked rates) k < (weightsMasked rates).getD k 0) ∧
    N ≤ ((List.range rates.length).filter
          (fun k => decide (prevW (weightsMasked rates) k < (weightsMasked rates).getD k 0))).length := by
  have hspec := rejLoop_spec (weightsMasked rates) N stream _ 0 arr rest h
    (by intro x hx; left; exact (List.mem_replicate.mp hx).2) (by simp) (Nat.zero_le _)
  obtain ⟨hb, hsum, hlen, hhit, _⟩ := hspec
  have hwl : (weightsMasked rates).length = rates.length := by
    simp [weightsMasked, weights_length, maskRates_length]
  have hdraw : ∀ k, k < rates.length → arr.getD k 0 = 1 →
      prevW (weightsMasked rates) k < (weightsMasked rates).getD k 0 := by
    intro k hk h1
    rcases hhit k h1 with h0 | ⟨r, hr, hk'⟩
    · simp [List.getD_eq_getElem?_getD, List.getElem?_replicate] at h0
      split at h0 <;> simp at h0
    · have := (place_iff _ (weightsMasked_monotone rates) r (hd r hr) k (by rw [hwl]; exact hk)).mp hk'
      exact lt_of_le_of_lt this.1 this.2
  refine ⟨hdraw, ?_⟩
  have hlen' : arr.length = rates.length := by simpa [hwl] using hlen
  rw [← hsum, ← countP_pos_eq_sum hb]
  exact countP_active_le_filter arr rates.length hlen' hb _ hdraw

/-! ### non-vacuity: concrete instances (kernel-evaluated on the Soft64 definitions) -/

-- rates with a leading, an interior and a trailing zero: weights are 0, 1/4, 1/4, 1, 1
example : weights [0, 1, 0, 3, 0] = [0, 1/4, 1/4, 1, 1] := by decide +kernel
example : ValidRates [0, 1, 0, 3, 0] :=
  ⟨by decide +kernel, by decide +kernel, ⟨1, by decide +kernel⟩⟩
-- the draws 0, the boundary 1/4 and the largest double below 1 go to bins 1, 3, 3: never 0, 2 or 4
example : placements (weights [0, 1, 0, 3, 0]) [0, 1/4, 1 - 1/2^53] = [1, 3, 3] := by decide +kernel
example : simulate (weights [0, 1, 0, 3, 0]) [0, 1/4, 1 - 1/2^53] = some [0, 1, 0, 2, 0] := by decide +kernel
-- 0.1 + 0.2 + 0.3 in floats: the last weight is 1 although the float total is not 0.6
example : lastD (weights [fl64 (1/10), fl64 (2/10), fl64 (3/10)]) = 1 := by decide +kernel
-- rejection loop: the second draw hits the occupied cell and is rejected, the third one activates cell 3
example : simulateBinary (weightsMasked [0, 1, -2, 3, 0]) 2 [1/8, 1/5, 1/2, 3/4]
    = .done [0, 1, 0, 1, 0] [3/4] := by decide +kernel
-- D10: more active cells requested than positive-rate cells: the loop can not finish, whatever the stream
example : simulateBinary (weightsMasked [0, 1, 0]) 2 [1/8, 1/5, 1/2, 3/4, 0, 1 - 1/2^53] = .exhausted := by
  decide +kernel
-- D10b: the positive rate 2^-60 is absorbed (weights 1, 1, 1): two active cells can not be reached
example : weightsMasked [1, 1 / 2^60, 0] = [1, 1, 1] := by decide +kernel
example : simulateBinary (weightsMasked [1, 1 / 2^60, 0]) 2 [0, 1/2, 1 - 1/2^53, 1/3] = .exhausted := by
  decide +kernel
example : quantile [1, 2, 2, 3] 2 = (3, 4) := by decide +kernel
example : quantile [1, 2, 2 + 1 / 10^15, 3] 2 = (2, 4) := by decide +kernel

end Sampler
