import PycsepVerif.Proofs.Persist

/-!
# C14 — catalog persistence round trips preserve every event

Theorems about `Model/Persist.lean` (model of `write_ascii` / `csep_ascii` / `load_catalog`, `to_dict` / `from_dict`,
`to_dataframe` / `from_dataframe`). Hypotheses:
* `EventOk e`: origin time with |ms| < 2^33·1000 (1697 … 2242, contains 1900 … 2200), non-empty id of at most 256 bytes;
* `EventCodecOk c e`: the float text codec (`str(numpy.float64)` / `float()`) round-trips on the four float fields of `e`
  — the abstract codec hypothesis; the harness checks it bit-for-bit on every generated value.
CSV quoting, JSON text and pandas storage are the identity on records in the model (trusted, checked by the harness).
-/
namespace Persist
open Time

/-- C14 (time codec): the `time_string` cell written for `ms` is read back as `ms` by the reader's two formats,
    for every integer millisecond in range (through binary64 `ms/1000`, `fromtimestamp`, `str`, `strptime`). -/
theorem time_string_roundtrip (ms : Int) (h : |ms| < 8589934592000) : readerParse (timeString ms) = some ms :=
  readerParse_timeString ms h

example : timeString (-1097606850620) = "1935-03-22T05:12:29.380000".toList := by decide +kernel
example : readerParse "1935-03-22T05:12:29.380000".toList = some (-1097606850620) := by decide +kernel

/-- C14: the time string has a fraction iff the time is not a whole second. -/
theorem time_string_fraction_iff (ms : Int) (h : |ms| < 8589934592000) :
    (timeString ms).contains '.' = decide (ms % 1000 ≠ 0) := by
  rw [timeString_eq ms h]
  unfold isoformat
  rw [formatFields_contains_dot 'T' (by decide)]
  simp only [fields, usPerDay]
  congr 1
  apply propext
  constructor <;> intro h' <;> omega

/-- what `load_catalog` returns for the catalog id: the id of the rows, −1 when it was `None`; `None` without rows -/
def loadedCatId (events : List Event) (cid : Option Int) : Option Int :=
  if events = [] then none else some (cid.getD (-1))

/-- C14 (ASCII): writing a catalog (with or without header, `write_empty` either way) and loading it yields the
    same events in the same order with identical id, origin time and float fields, and — for a non-empty catalog —
    its integer catalog id. Includes the empty catalog (no rows: the format cannot carry the id). -/
theorem ascii_roundtrip {F R} (c : FloatCodec F) (cat : Catalog R) (writeHeader writeEmpty : Bool)
    (old : List (Line F)) (h : ∀ e ∈ cat.events, EventOk e ∧ EventCodecOk c e) :
    loadAscii c (writeAscii c cat writeHeader writeEmpty false old)
      = .ok (cat.events, loadedCatId cat.events cat.catalogId) := by
  have hrows := fun first i => readLines_rows c cat.catalogId cat.events first i h
  unfold loadAscii writeAscii loadedCatId
  cases writeHeader
  · simp [hrows]
  · by_cases hev : cat.events = []
    · simp [hev, readLines]
    · have : cat.events.isEmpty = false := by
        cases h' : cat.events with
        | nil => exact absurd h' hev
        | cons a t => rfl
      simp [this, readLines, hrows]

/-- an integer catalog id survives the ASCII format for every non-empty catalog -/
theorem ascii_catalog_id {F R} (c : FloatCodec F) (cat : Catalog R) (i : Int) (hid : cat.catalogId = some i)
    (hne : cat.events ≠ []) (writeHeader writeEmpty : Bool) (old : List (Line F))
    (h : ∀ e ∈ cat.events, EventOk e ∧ EventCodecOk c e) :
    (loadAscii c (writeAscii c cat writeHeader writeEmpty false old)).map Prod.snd = .ok (some i) := by
  rw [ascii_roundtrip c cat writeHeader writeEmpty old h]
  simp [loadedCatId, hne, hid, Except.map]

/-- C14 (append): appending catalog `b` without header to the file of a non-empty catalog `a` is concatenation:
    loading gives the events of `a` followed by those of `b`; the catalog id is that of the last rows. -/
theorem append_concat {F R} (c : FloatCodec F) (a b : Catalog R) (writeHeader writeEmpty : Bool)
    (ha : ∀ e ∈ a.events, EventOk e ∧ EventCodecOk c e) (hb : ∀ e ∈ b.events, EventOk e ∧ EventCodecOk c e)
    (hne : a.events ≠ []) :
    writeAscii c b false writeEmpty true (writeAscii c a writeHeader writeEmpty false [])
        = writeAscii c a writeHeader writeEmpty false [] ++ b.events.map (fun e => Line.row (rowOf c b.catalogId e))
    ∧ loadAscii c (writeAscii c b false writeEmpty true (writeAscii c a writeHeader writeEmpty false []))
        = .ok (a.events ++ b.events,
            if b.events = [] then some (a.catalogId.getD (-1)) else some (b.catalogId.getD (-1))) := by
  have hemp : a.events.isEmpty = false := by
    cases h' : a.events with
    | nil => exact absurd h' hne
    | cons x t => rfl
  constructor
  · simp [writeAscii]
  · have hB := fun i => readLines_rows c b.catalogId b.events false i hb
    have hA := fun first i => readLines_rows_append c a.catalogId
      (b.events.map (fun e => Line.row (rowOf c b.catalogId e))) a.events first i ha hne
    unfold loadAscii
    cases writeHeader
    · simp only [writeAscii, hemp, Bool.false_eq_true, if_false, if_true, List.nil_append, Bool.and_false]
      rw [hA, hB]
      by_cases hbe : b.events = [] <;> simp [hbe]
    · simp only [writeAscii, hemp, Bool.false_eq_true, if_false, if_true, List.nil_append, Bool.and_false,
        List.cons_append, List.append_assoc, readLines]
      rw [hA, hB]
      by_cases hbe : b.events = [] <;> simp [hbe]

/-- C14 (dict / JSON): `from_dict(to_dict(cat))` has the same events, catalog id, name and — given that the
    region's own dict form round-trips (C18) — the same region. -/
theorem dict_roundtrip {R D} (toD : R → D) (fromD : D → R) (hreg : ∀ r, fromD (toD r) = r) (cat : Catalog R)
    (h : ∀ e ∈ cat.events, e.id.length ≤ 256) :
    fromDict fromD (toDict toD cat) = cat := by
  obtain ⟨events, cid, name, region⟩ := cat
  simp only [fromDict, toDict, List.map_map]
  have hev : events.map (tupleEvent ∘ eventTuple) = events := by
    rw [List.map_congr_left (g := id)]
    · simp
    · intro e he
      obtain ⟨i, ms, lat, lon, dep, mag⟩ := e
      simp only [Function.comp, tupleEvent, eventTuple, id]
      rw [storeId_of_le (h _ he)]
  have hr : Option.map fromD (Option.map toD region) = region := by
    cases region <;> simp [hreg]
  simp only at h
  rw [hev, hr]

/-- C14 (DataFrame): `from_dataframe(to_dataframe(cat))` has the same events (including the empty catalog) and,
    for a non-empty catalog, the same catalog id (an empty frame has no row to carry it). -/
theorem dataframe_roundtrip {R} (cat : Catalog R) (h : ∀ e ∈ cat.events, e.id.length ≤ 256) :
    (fromDataframe (R := R) (toDataframe cat)).events = cat.events
      ∧ (fromDataframe (R := R) (toDataframe cat)).catalogId = (if cat.events = [] then none else cat.catalogId) := by
  obtain ⟨events, cid, name, region⟩ := cat
  simp only [fromDataframe, toDataframe, List.map_map]
  constructor
  · rw [List.map_congr_left (g := id)]
    · simp
    · intro e he
      obtain ⟨i, ms, lat, lon, dep, mag⟩ := e
      simp only [Function.comp, id]
      rw [storeId_of_le (h _ he)]
  · cases events <;> simp

/-- nothing is de-duplicated (ASCII): a catalog that holds one event `n` times — identical in all six fields — is
    written as `n` records and loads as `n` events, all equal to that event. -/
theorem ascii_keeps_duplicates {F R} (c : FloatCodec F) (cat : Catalog R) (n : Nat) (e : Event)
    (hev : cat.events = List.replicate n e) (he : EventOk e ∧ EventCodecOk c e) (writeHeader writeEmpty : Bool)
    (old : List (Line F)) :
    (loadAscii c (writeAscii c cat writeHeader writeEmpty false old)).map Prod.fst = .ok (List.replicate n e) := by
  rw [ascii_roundtrip c cat writeHeader writeEmpty old
    (fun y hy => by rw [hev] at hy; rw [List.eq_of_mem_replicate hy]; exact he)]
  simp [Except.map, hev]

/-- nothing is de-duplicated (DataFrame, dict): the number of events is unchanged, whatever repetitions the list has -/
theorem dataframe_dict_keep_count {R D} (toD : R → D) (fromD : D → R) (hreg : ∀ r, fromD (toD r) = r) (cat : Catalog R)
    (h : ∀ e ∈ cat.events, e.id.length ≤ 256) :
    (fromDataframe (R := R) (toDataframe cat)).events.length = cat.events.length
      ∧ (fromDict fromD (toDict toD cat)).events.length = cat.events.length := by
  rw [(dataframe_roundtrip cat h).1, dict_roundtrip toD fromD hreg cat h]
  exact ⟨rfl, rfl⟩

/-- the hypotheses are satisfiable: the old failure instant, an id with delimiters, the identity codec -/
example : EventOk { id := "a,b\" ;".toList, ms := -1097606850620, lat := -90, lon := 180, depth := 5, mag := 9/2 } := by
  refine ⟨by decide, by decide, by decide⟩
example (e : Event) : EventCodecOk (F := Rat) { enc := id, dec := some } e := ⟨rfl, rfl, rfl, rfl⟩

/-- catalog ids beyond 2^53 (not representable as a double) and at the ends of the int64 range are written as decimal
    text and read back as the same integer (`parseInt?_intStr` holds for every integer; three concrete instances) -/
example : parseInt? (intStr 9007199254740993) = some 9007199254740993 ∧
    parseInt? (intStr 9223372036854775807) = some 9223372036854775807 ∧
    parseInt? (intStr (-9223372036854775808)) = some (-9223372036854775808) := by decide +kernel

end Persist
