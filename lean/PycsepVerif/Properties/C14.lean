import PycsepVerif.Proofs.Persist

/-!
# C14 — catalog persistence round trips preserve every event

Theorems about `Model/Persist.lean` (model of `write_ascii` / `csep_ascii` / `load_catalog`, `to_dict` / `from_dict`,
`to_dataframe` / `from_dataframe`). Hypotheses:
* `EventOk e`: origin time with |ms| < 2^33·1000 (1697 … 2242, contains 1900 … 2200), non-empty id of at most 256 bytes;
* `EventCodecOk c e`: the float text codec (`str(numpy.float64)` / `float()`) round-trips on the four float fields of `e`
  — the abstract codec hypothesis; the harness checks it bit-for-bit on every generated value.
CSV quoting, JSON text and pandas storage are the identity on records in the model (trusted, checked by the harness).
-/
namespace Persist
open Time

/-- C14 (time codec): the `time_string` cell written for `ms` is read back as `ms` by the reader's two formats,
    for every integer millisecond in range (through binary64 `ms/1000`, `fromtimestamp`, `str`, `strptime`). -/
theorem time_string_roundtrip (ms : Int) (h : |ms| < 8589934592000) : readerParse (timeString ms) = some ms :=
  readerParse_timeString ms h

example : timeString (-1097606850620) = "1935-03-22T05:12:29.380000".toList := by decide +kernel
example : readerParse "1935-03-22T05:12:29.380000".toList = some (-1097606850620) := by decide +kernel

/-- C14: the time string has a fraction iff the time is not a whole second. -/
theorem time_string_fraction_iff (ms : Int) (h : |ms| < 8589934592000) :
    (timeString ms).contains '.' = decide (ms % 1000 ≠ 0) := by
  rw [timeString_eq ms h]
  unfold isoformat
  rw [formatFields_contains_dot 'T' (by decide)]
  simp only [fields, usPerDay]
  congr 1
  apply propext
  constructor <;> intro h' <;> omega

/-- what `load_catalog` returns for the catalog id: the id of the rows, −1 when it was `None`; `None` without rows -/
def loadedCatId (events : List Event) (cid : Option Int) : Option Int :=
  if events = [] then none else some (cid.getD (-1))

/-- C14 (ASCII): writing a catalog (with or without header, `write_empty` either way) and loading it yields the
    same events in the same order with identical id, origin time and float fields, and — for a non-empty catalog —
    its integer catalog id. Includes the empty catalog (no rows: the format cannot carry the id). -/
theorem ascii_roundtrip {F R} (c : FloatCodec F) (cat : Catalog R) (writeHeader writeEmpty : Bool)
    (old : List (Line F)) (h : ∀ e ∈ cat.events, EventOk e ∧ EventCodecOk c e) :
    loadAscii c (writeAscii c cat writeHeader writeEmpty false old)
      = .ok (cat.events, loadedCatId cat.events cat.catalogId) := by
  have hrows := fun first i => readLines_rows c cat.catalogId cat.events first i h
  unfold loadAscii writeAscii loadedCatId
  cases writeHeader
  · simp [hrows]
  · by_cases hev : cat.events = []
    · simp [hev, readLines]
    · have : cat.events.isEmpty = false := by
        cases h' : cat.events with
        | nil => exact absurd h' hev
        | cons a t => rfl
      simp [this, readLines, hrows]

/-- an integer catalog id survives the ASCII format for every non-empty catalog -/
theorem ascii_catalog_id {F R} (c : FloatCodec F) (cat : Catalog R) (i : Int) (hid : cat.catalogId = some i)
    (hne : cat.events ≠ []) (writeHeader writeEmpty : Bool) (old : List (Line F))
    (h : ∀ e ∈ cat.events, EventOk e ∧ EventCodecOk c e) :
    (loadAscii c (writeAscii c cat writeHeader writeEmpty false old)).map Prod.snd = .ok (some i) := by
  rw [ascii_roundtrip c cat writeHeader writeEmpty old h]
  simp [loadedCatId, hne, hid, Except.map]

/-- C14 (append): appending catalog `b` without header to the file of a non-empty catalog `a` is concatenation:
    loading gives the events of `a` followed by those of `b`; the catalog id is that of the last rows. -/
theorem append_concat {F R} (c : FloatCodec F) (a b : Catalog R) (writeHeader writeEmpty : Bool)
    (ha : ∀ e ∈ a.events, EventOk e ∧ EventCodecOk c e) (hb : ∀ e ∈ b.events, EventOk e ∧ EventCodecOk c e)
    (hne : a.events ≠ []) :
    writeAscii c b false writeEmpty true (writeAscii c a writeHeader writeEmpty false [])
        = writeAscii c a writeHeader writeEmpty false [] ++ b.events.map (fun e => Line.row (rowOf c b.catalogId e))
    ∧ loadAscii c (writeAscii c b false writeEmpty true (writeAscii c a writeHeader writeEmpty false []))
        = .ok (a.events ++ b.events,
            if b.events = [] then some (a.catalogId.getD (-1)) else some (b.catalogId.getD (-1))) := by
  have hemp : a.events.isEmpty = false := by
    cases h' : a.events with
    | nil => exact absurd h' hne
    | cons x t => rfl
  constructor
  · simp [writeAscii]
  · have hB := fun i => readLines_rows c b.catalogId b.events false i hb
    have hA := fun first i => readLines_rows_append c a.catalogId
      (b.events.map (fun e => Line.row (rowOf c b.catalogId e))) a.events first i ha hne
    unfold loadAscii
    cases writeHeader
    · simp only [writeAscii, hemp, Bool.false_eq_true, if_false, if_true, List.nil_append, Bool.and_false]
      rw [hA, hB]
      by_cases hbe : b.events = [] <;> simp [hbe]
    · simp only [writeAscii, hemp, Bool.false_eq_true, if_false, if_true, List.nil_append, Bool.and_false,
        List.cons_append, List.append_assoc, readLines]
      rw [hA, hB]
      by_cases hbe : b.events = [] <;> simp [hbe]

/-- C14 (dict / JSON): `from_dict(to_dict(cat))` has the same events, catalog id, name and — given that the
    region's own dict form round-trips (C18) — the same region. -/
theorem dict_roundtrip {R D} (toD : R → D) (fromD : D → R) (hreg : ∀ r, fromD (toD r) = r) (cat : Catalog R)
    (h : ∀ e ∈ cat.events, e.id.length ≤ 256) :
    fromDict fromD (toDict toD cat) = cat := by
  obtain ⟨events, cid, name, region⟩ := cat
  simp only [fromDict, toDict, List.map_map]
  have hev : events.map (tupleEvent ∘ eventTuple) = events := by
    rw [List.map_congr_left (g := id)]
    · simp
    · intro e he
      obtain ⟨i, ms, lat, lon, dep, mag⟩ := e
      simp only [Function.comp, tupleEvent, eventTuple, id]
      rw [storeId_of_le (h _ he)]
  have hr : Option.map fromD (Option.map toD region) = region := by
    cases region <;> simp [hreg]
  simp only at h
  rw [hev, hr]

/-- C14 (DataFrame): `from_dataframe(to_dataframe(cat))` has the same events (including the empty catalog) and,
    for a non-empty catalog, the same catalog id (an empty frame has no row to carry it). -/
theorem dataframe_roundtrip {R} (cat : Catalog R) (h : ∀ e ∈ cat.events, e.id.length ≤ 256) :
    (fromDataframe (R := R) (toDataframe cat)).events = cat.events
      ∧ (fromDataframe (R := R) (toDataframe cat)).catalogId = (if cat.events = [] then none else cat.catalogId) := by
  obtain ⟨events, cid, name, region⟩ := cat
  simp only [fromDataframe, toDataframe, List.map_map]
  constructor
  · rw [List.map_congr_left (g := id)]
    · simp
    · intro e he
      obtain ⟨i, ms, lat, lon, dep, mag⟩ := e
      simp only [Function.comp, id]
      rw [storeId_of_le (h _ he)]
  · cases events <;> simp

/-- nothing is de-duplicated (ASCII): a catalog that holds one event `n` times — identical in all six fields — is
    written as `n` records and loads as `n` events, all equal to that event. -/
theorem ascii_keeps_duplicates {F R} (c : FloatCodec F) (cat : Catalog R) (n : Nat) (e : Event)
    (hev : cat.events = List.replicate n e) (he : EventOk e ∧ EventCodecOk c e) (writeHeader writeEmpty : Bool)
    (old : List (Line F)) :
    (loadAscii c (writeAscii c cat writeHeader writeEmpty false old)).map Prod.fst = .ok (List.replicate n e) := by
  rw [ascii_roundtrip c cat writeHeader writeEmpty old
    (fun y hy => by rw [hev] at hy; rw [List.eq_of_mem_replicate hy]; exact he)]
  simp [Except.map, hev]

/-- nothing is de-duplicated (DataFrame, dict): the number of events is unchanged, whatever repetitions the list has -/
theorem dataframe_dict_keep_count {R D} (toD : R → D) (fromD : D → R) (hreg : ∀ r, fromD (toD r) = r) (cat : Catalog R)
    (h : ∀ e ∈ cat.events, e.id.length ≤ 256) :
    (fromDataframe (R := R) (toDataframe cat)).events.length = cat.events.length
      ∧ (fromDict fromD (toDict toD cat)).events.length = cat.events.length := by
  rw [(dataframe_roundtrip cat h).1, dict_roundtrip toD fromD hreg cat h]
  exact ⟨rfl, rfl⟩

/-! ## round 4: no id column, append to an empty file, the region's dict form spelled out -/

/-- with an id column `write_ascii(id_col=…)` is the writer of the theorems above -/
theorem writeAsciiG_with_id {F R} (c : FloatCodec F) (cat : Catalog R) (writeHeader writeEmpty append : Bool)
    (old : List (Line F)) : writeAsciiG c cat writeHeader writeEmpty append old true
      = writeAscii c cat writeHeader writeEmpty append old := by
  simp [writeAsciiG, writeAscii]

/-- C14 (ASCII, catalog array without the id column, catalogs.py:339-342): the event-id cells are empty and the loaded
    catalog has the same events in the same order with identical time and float fields; the ids are the decimal
    record indices (counted from 1 under a header, from 0 without). No hypothesis on the ids of the original. -/
theorem ascii_roundtrip_no_id_column {F R} (c : FloatCodec F) (cat : Catalog R) (writeHeader writeEmpty : Bool)
    (old : List (Line F)) (h : ∀ e ∈ cat.events, EventTimeOk e ∧ EventCodecOk c e) :
    loadAscii c (writeAsciiG c cat writeHeader writeEmpty false old false)
      = .ok (renumber (if writeHeader then 1 else 0) cat.events, loadedCatId cat.events cat.catalogId) := by
  have hrows := fun first i => readLines_rows_noid c cat.catalogId cat.events first i h
  unfold loadAscii writeAsciiG loadedCatId
  cases writeHeader
  · simp [hrows]
  · by_cases hev : cat.events = []
    · simp [hev, readLines, renumber]
    · have : cat.events.isEmpty = false := by
        cases h' : cat.events with
        | nil => exact absurd h' hev
        | cons a t => rfl
      simp [this, readLines, hrows]

/-- … renumbering touches nothing but the id: count, order, origin time, latitude, longitude, depth, magnitude stay -/
theorem renumber_keeps_fields : ∀ (i : Nat) (evs : List Event),
    (renumber i evs).map (fun e => (e.ms, e.lat, e.lon, e.depth, e.mag))
      = evs.map (fun e => (e.ms, e.lat, e.lon, e.depth, e.mag))
  | _, [] => rfl
  | i, e :: es => by simp [renumber, renumber_keeps_fields (i + 1) es]

/-- … and the ids are the record indices i, i+1, … -/
theorem renumber_ids : ∀ (i : Nat) (evs : List Event),
    (renumber i evs).map (·.id) = (List.range evs.length).map (fun k => storeId (natDigits (i + k + 1) (i + k)))
  | _, [] => rfl
  | i, e :: es => by
    rw [List.length_cons, List.range_succ_eq_map]
    simp only [renumber, List.map_cons, renumber_ids (i + 1) es, List.map_map, Nat.add_zero]
    congr 1
    apply List.map_congr_left
    intro k _
    simp only [Function.comp]
    rw [show i + 1 + k = i + (k + 1) by omega]

example : (renumber 1 [{ id := "x".toList, ms := 5, lat := 0, lon := 0, depth := 0, mag := 0 },
    { id := [], ms := 6, lat := 0, lon := 0, depth := 0, mag := 0 }]).map (·.id) = ["1".toList, "2".toList] := by
  decide +kernel

/-- C14 (append) without the hypothesis that the first catalog is non-empty: appending `b` (no header) to the file
    of ANY catalog `a` — also an empty one, written with or without header / `write_empty` — loads as
    `a.events ++ b.events`; the catalog id is that of the last data record -/
theorem append_concat_any {F R} (c : FloatCodec F) (a b : Catalog R) (writeHeader writeEmpty : Bool)
    (ha : ∀ e ∈ a.events, EventOk e ∧ EventCodecOk c e) (hb : ∀ e ∈ b.events, EventOk e ∧ EventCodecOk c e) :
    loadAscii c (writeAscii c b false writeEmpty true (writeAscii c a writeHeader writeEmpty false []))
      = .ok (a.events ++ b.events,
          if b.events = [] then loadedCatId a.events a.catalogId else some (b.catalogId.getD (-1))) := by
  by_cases hae : a.events = []
  · have hB := fun first i => readLines_rows c b.catalogId b.events first i hb
    unfold loadAscii loadedCatId
    cases writeHeader <;> cases writeEmpty <;> by_cases hbe : b.events = [] <;>
      simp [writeAscii, hae, hbe, readLines, hB]
  · rw [(append_concat c a b writeHeader writeEmpty ha hb hae).2]
    simp [loadedCatId, hae]

/-- the dict form of a `CartesianGrid2D` read back (regions.py:689/:699): same polygons in the same order, same spacing;
    the name has gone through `str()`; magnitude bins are not part of the form -/
theorem region_dict_roundtrip (r : Region) : Region.fromDict r.toDict = .ok r.afterDict := by
  simp only [Region.fromDict, Region.toDict, Region.afterDict]
  rw [swap_swap]
  rfl

/-- a second trip changes nothing any more -/
theorem region_dict_fixpoint (r : Region) : r.afterDict.toDict = r.toDict := by
  simp [Region.toDict, Region.afterDict, pyStrName_idem]

/-- the region's name survives exactly when it is a string (`None` comes back as the string "None") -/
theorem region_name_survives_iff (r : Region) : r.afterDict.name = r.name ↔ r.name ≠ none := by
  cases h : r.name <;> simp [Region.afterDict, pyStrName, h]

/-- the rebuilt region puts every point into the same cell -/
theorem afterDict_same_cell (r : Region) (lon lat : Rat) : r.afterDict.cellOf lon lat = r.cellOf lon lat := rfl

/-- **C14 (dict / JSON) with the region's dict form spelled out — no hypothesis about a region codec**:
    `from_dict(to_dict(cat))` succeeds, has the same events, catalog id and name, and a region with the same polygons
    and spacing -/
theorem dict_roundtrip_concrete (cat : Catalog Region) (h : ∀ e ∈ cat.events, e.id.length ≤ 256) :
    fromDictC (toDictC cat) = .ok { cat with region := cat.region.map Region.afterDict } := by
  obtain ⟨events, cid, name, region⟩ := cat
  have hev : events.map (tupleEvent ∘ eventTuple) = events := by
    rw [List.map_congr_left (g := id)]
    · simp
    · intro e he
      obtain ⟨i, ms, lat, lon, dep, mag⟩ := e
      simp only [Function.comp, tupleEvent, eventTuple, id]
      rw [storeId_of_le (h _ he)]
  cases region with
  | none => simp [fromDictC, toDictC, toDict, loadRegion, hev]
  | some r =>
    have hc : (Region.toDict r).classId = some cartesianId := rfl
    simp only [fromDictC, toDictC, toDict, loadRegion, Option.map_some, hc, Option.getD_some, if_true,
      region_dict_roundtrip, List.map_map, hev]

/-- **the region survives and still bins the events identically**: after dict / JSON every event lies in the same
    cell of the reloaded region as in the original one, for every point whatsoever the two regions agree, and the
    per-cell event counts are equal -/
theorem dict_roundtrip_bins_identically (cat : Catalog Region) (r : Region) (hr : cat.region = some r)
    (h : ∀ e ∈ cat.events, e.id.length ≤ 256) :
    ∃ cat' r', fromDictC (toDictC cat) = .ok cat' ∧ cat'.region = some r' ∧ cat'.events = cat.events ∧
      r'.origins = r.origins ∧ r'.dh = r.dh ∧ (∀ lon lat, r'.cellOf lon lat = r.cellOf lon lat) ∧
      cellCounts r' cat'.events = cellCounts r cat.events := by
  refine ⟨_, r.afterDict, dict_roundtrip_concrete cat h, by simp [hr], rfl, rfl, rfl, fun _ _ => rfl, rfl⟩

/-- an empty catalog with a region: nothing special — the region survives although no event does -/
theorem empty_catalog_region_survives (r : Region) (cid : Option Int) (name : Option (List Char)) :
    fromDictC (toDictC { events := [], catalogId := cid, name := name, region := some r })
      = .ok { events := [], catalogId := cid, name := name, region := some r.afterDict } :=
  dict_roundtrip_concrete _ (by simp)

/-- no region, or `adict['region'] is None`: `None.get` raises AttributeError, which the loader swallows -/
theorem region_absent : loadRegion none = .ok none := rfl

/-- a dict without `class_id` is read as a `CartesianGrid2D` (catalogs.py:178-179) -/
theorem class_id_defaults_to_cartesian (r : Region) :
    loadRegion (some { r.toDict with classId := none }) = .ok (some r.afterDict) := by
  have h := region_dict_roundtrip r
  simp only [Region.fromDict, Region.toDict] at h
  simp only [loadRegion, Option.getD_none, if_true, Region.fromDict, Region.toDict, h]

/-- FINDING (current code): the dict form of a `QuadtreeGrid2D` (regions.py:1201: name and polygons only — no `dh`, no
    `class_id`) is taken for a Cartesian grid, `from_dict` raises AttributeError("cannot create region without dh"),
    the loader swallows it: the catalog comes back WITHOUT region, silently -/
theorem finding_quadtree_form_loses_region (n : Option (List Char)) (ps : Option (List (Rat × Rat))) :
    loadRegion (some { name := n, dh := none, polygons := ps, classId := none }) = .ok none := by
  cases ps <;> simp [loadRegion, Region.fromDict]

/-- a class id that is not registered raises KeyError (not swallowed) -/
example : loadRegion (some { name := none, dh := some 1, polygons := some [], classId := some "Quadtree".toList })
    = .error .keyError := by decide +kernel

/-- non-vacuity: a two-cell region with an event in the second cell, name `None` -/
example : cellCounts ({ origins := [(0, 0), (1, 0)], dh := 1, name := none, magnitudes := some [4, 5] } : Region).afterDict
    [{ id := "a".toList, ms := 0, lat := 1/2, lon := 3/2, depth := 0, mag := 4 }] = [0, 1] := by decide +kernel

/-! ## phase 2: the datetime-indexed frame; events sharing an origin time -/

/-- C14 (DataFrame with datetime index): same events, same catalog id as through the default frame — for EVERY
    assignment of origin times, in particular when several events (also the first one) share a millisecond -/
theorem dataframe_dt_roundtrip {R} (cat : Catalog R) (h : ∀ e ∈ cat.events, e.id.length ≤ 256) :
    (fromDataframeL (R := R) (toDataframeDt cat)).events = cat.events
      ∧ (fromDataframeL (R := R) (toDataframeDt cat)).catalogId = (if cat.events = [] then none else cat.catalogId) := by
  have : (toDataframeDt cat).map (·.row) = toDataframe cat := by
    simp [toDataframeDt, List.map_map, Function.comp_def]
  unfold fromDataframeL
  rw [this]
  exact dataframe_roundtrip cat h

/-- positional reading makes the index labels irrelevant: relabelling the rows arbitrarily changes nothing -/
theorem frame_labels_irrelevant {R} (df : List LRow) (f : Int → Int) :
    fromDataframeL (R := R) (df.map (fun r => { r with label := f r.label })) = fromDataframeL df := by
  simp [fromDataframeL, List.map_map, Function.comp_def]

/-- why a label-based read of the catalog id is NOT equivalent (the class of the seeded change C14_6): when the first
    event shares its origin time with another one, the label of row 0 selects at least two rows — not a scalar -/
theorem label_lookup_not_scalar {R} (cat : Catalog R) (e₀ e₁ : Event) (rest : List Event)
    (hev : cat.events = e₀ :: e₁ :: rest) (hms : e₁.ms = e₀.ms) :
    2 ≤ (atLabel (toDataframeDt cat) e₀.ms).length := by
  simp [atLabel, toDataframeDt, toDataframe, hev, hms]

/-- … and with pairwise distinct origin times it selects exactly the first row (so the difference only shows on
    doublets): stated for the two-event head -/
example : atLabel (toDataframeDt (R := Unit)
      { events := [{ id := "a".toList, ms := 5, lat := 0, lon := 0, depth := 0, mag := 0 },
                   { id := "b".toList, ms := 6, lat := 0, lon := 0, depth := 0, mag := 0 }],
        catalogId := some 7, name := none, region := none }) 5 = [some 7] := by decide +kernel
example : atLabel (toDataframeDt (R := Unit)
      { events := [{ id := "a".toList, ms := 5, lat := 0, lon := 0, depth := 0, mag := 0 },
                   { id := "b".toList, ms := 5, lat := 1, lon := 0, depth := 0, mag := 0 }],
        catalogId := some 7, name := none, region := none }) 5 = [some 7, some 7] := by decide +kernel

/-- the hypotheses are satisfiable: the old failure instant, an id with delimiters, the identity codec -/
example : EventOk { id := "a,b\" ;".toList, ms := -1097606850620, lat := -90, lon := 180, depth := 5, mag := 9/2 } := by
  refine ⟨by decide, by decide, by decide⟩
example (e : Event) : EventCodecOk (F := Rat) { enc := id, dec := some } e := ⟨rfl, rfl, rfl, rfl⟩

/-- catalog ids beyond 2^53 (not representable as a double) and at the ends of the int64 range are written as decimal
    text and read back as the same integer (`parseInt?_intStr` holds for every integer; three concrete instances) -/
example : parseInt? (intStr 9007199254740993) = some 9007199254740993 ∧
    parseInt? (intStr 9223372036854775807) = some 9223372036854775807 ∧
    parseInt? (intStr (-9223372036854775808)) = some (-9223372036854775808) := by decide +kernel

end Persist
