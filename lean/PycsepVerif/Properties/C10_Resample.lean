import PycsepVerif.Model.Resample
import PycsepVerif.Properties.C06
import PycsepVerif.Properties.C10

/-!
# C10 — the resampling step of the resampled-magnitude and MLL tests

`Properties/C10.lean` proves the resampled statistics for ARBITRARY histograms `draws` under the hypothesis that each has
exactly N_obs events (`rm_stat_eq_doc`).  Here the histograms are the ones the code produces (`Model/Resample.lean`:
`probs = Λ_U / N_U`, `numpy.random.choice` as inverse-CDF search in the float cumulative sum, bin-centre values,
`numpy.histogram`), for EVERY sequence of uniform numbers in [0, 1), and that hypothesis is discharged:

* `resample_is_bincount`: when every bin centre is counted in its own bin (`centresOK`, a decidable premise the driver
  evaluates on every case) the round trip index → magnitude value → `numpy.histogram` is the identity;
* `resample_count_conserved`: every resampled catalog has exactly as many events as uniforms were drawn (N_obs) —
  no draw is lost beyond the last bin because the normalised cumulative sum ends in exactly 1.0 (C06's `in_range`);
* `resample_never_from_empty_bin`: a magnitude bin no synthetic catalog has an event in is never resampled;
* `rm_stat_eq_doc_resampled`: hence the resampled test's distribution is the documented D_j of these histograms, with no
  hypothesis on the draws left.
-/
namespace CatEvals
open Soft64 Sampler

/-- Σ_{k<K} [i = k] = 1 for i < K -/
private theorem sum_indicator_range (i K : Nat) (h : i < K) :
    ((List.range K).map fun k => if i = k then 1 else 0).sum = 1 := by
  induction K with
  | zero => omega
  | succ n ih =>
    rw [List.range_succ, List.map_append, List.sum_append]
    by_cases hn : i = n
    · subst hn
      have : ((List.range i).map fun k => if i = k then 1 else 0).sum = 0 := by
        apply List.sum_eq_zero; intro x hx
        obtain ⟨k, hk, rfl⟩ := List.mem_map.mp hx
        have : i ≠ k := Nat.ne_of_gt (List.mem_range.mp hk)
        simp [this]
      simp [this]
    · have hlt : i < n := by omega
      simp [ih hlt, hn]

/-- counting indices that all lie below K loses nothing -/
theorem binCount_sum (K : Nat) (idx : List Nat) (h : ∀ i ∈ idx, i < K) : (binCount K idx).sum = idx.length := by
  unfold binCount
  induction idx with
  | nil => simp
  | cons i l ih =>
    have hi : i < K := h i List.mem_cons_self
    have hstep : ∀ k, (i :: l).count k = l.count k + (if i = k then 1 else 0) := by
      intro k; rw [List.count_cons]; simp [beq_iff_eq]
    simp only [hstep, List.sum_map_add, ih (fun j hj => h j (List.mem_cons_of_mem _ hj)),
      sum_indicator_range i K hi, List.length_cons]

theorem binCount_getD (K : Nat) (idx : List Nat) (k : Nat) (hk : k < K) : (binCount K idx).getD k 0 = idx.count k := by
  unfold binCount
  simp [List.getD_eq_getElem?_getD, hk]

theorem centresOK_spec (mags : List Rat) (h : centresOK mags = true) :
    ∀ i, i < mags.length → histBin mags (binCentre mags i) = some i := by
  intro i hi
  unfold centresOK at h
  rw [List.all_eq_true] at h
  simpa using h i (List.mem_range.mpr hi)

/-- **round trip**: index → bin-centre value → `numpy.histogram` bin is the identity, so the resampled histogram is the
    count of the indices `numpy.random.choice` drew -/
theorem resample_is_bincount (mags : List Rat) (unionH : List Nat) (us : List Rat) (hc : centresOK mags = true)
    (hidx : ∀ i ∈ choiceIdx unionH us, i < mags.length) :
    resampleHist mags unionH us = binCount mags.length (choiceIdx unionH us) := by
  unfold resampleHist
  congr 1
  have : ∀ (l : List Nat), (∀ i ∈ l, i < mags.length) →
      l.filterMap (fun i => histBin mags (binCentre mags i)) = l := by
    intro l hl
    induction l with
    | nil => rfl
    | cons a t ih =>
      rw [List.filterMap_cons, centresOK_spec mags hc a (hl a List.mem_cons_self),
        ih (fun j hj => hl j (List.mem_cons_of_mem _ hj))]
  exact this _ hidx

/-- the resampling probabilities are valid sampling rates: non-negative floats, one of them positive -/
theorem resampleProbs_valid (unionH : List Nat) (hN : unionH.sum ≠ 0) (h53 : unionH.sum < 2 ^ 53) :
    ValidRates (resampleProbs unionH) := by
  have hNpos : (0 : Rat) < ((unionH.sum : Nat) : Rat) := by exact_mod_cast Nat.pos_of_ne_zero hN
  refine ⟨?_, ?_, ?_⟩
  · intro x hx
    obtain ⟨u, _, rfl⟩ := List.mem_map.mp hx
    exact fl64_nonneg (div_nonneg (by exact_mod_cast Nat.zero_le u) (le_of_lt hNpos))
  · intro x hx
    obtain ⟨u, _, rfl⟩ := List.mem_map.mp hx
    exact fl64_idem _
  · -- some bin has an event; its probability u/N ≥ 1/N > 2^-53 is rounded to a float ≥ 2^-53 > 0
    have : ∃ u ∈ unionH, 0 < u := by
      by_contra hno
      apply hN
      apply List.sum_eq_zero
      intro u hu
      by_contra hu0
      exact hno ⟨u, hu, Nat.pos_of_ne_zero hu0⟩
    obtain ⟨u, hu, hupos⟩ := this
    refine ⟨fdiv ((u : Nat) : Rat) ((unionH.sum : Nat) : Rat), List.mem_map.mpr ⟨u, hu, rfl⟩, ?_⟩
    have hb : fl64 (pow2 (-53)) = pow2 (-53) := by
      have := isF64_dyadic 1 (-53) (by norm_num) (by norm_num)
      simpa [IsF64] using this
    have hle : pow2 (-53) ≤ ((u : Nat) : Rat) / ((unionH.sum : Nat) : Rat) := by
      rw [le_div_iff₀ hNpos, pow2_eq_zpow]
      have h1 : ((unionH.sum : Nat) : Rat) ≤ (2 : Rat) ^ (53 : Nat) := by exact_mod_cast le_of_lt h53
      have h2 : (1 : Rat) ≤ ((u : Nat) : Rat) := by exact_mod_cast hupos
      have h3 : (2 : Rat) ^ (-53 : Int) * (2 : Rat) ^ (53 : Nat) = 1 := by norm_num
      calc (2 : Rat) ^ (-53 : Int) * ((unionH.sum : Nat) : Rat)
          ≤ (2 : Rat) ^ (-53 : Int) * (2 : Rat) ^ (53 : Nat) :=
            mul_le_mul_of_nonneg_left h1 (by positivity)
        _ = 1 := h3
        _ ≤ _ := h2
    exact lt_of_lt_of_le (pow2_pos _) (fl64_ge_of_ge_float hb hle)

theorem resampleProbs_length (unionH : List Nat) : (resampleProbs unionH).length = unionH.length := by
  simp [resampleProbs]

/-- every index `numpy.random.choice` returns for a uniform number below 1 is a valid bin index -/
theorem choiceIdx_in_range (unionH : List Nat) (us : List Rat) (hN : unionH.sum ≠ 0) (h53 : unionH.sum < 2 ^ 53)
    (hu : ∀ u ∈ us, u < 1) : ∀ i ∈ choiceIdx unionH us, i < unionH.length := by
  intro i hi
  obtain ⟨u, hu', rfl⟩ := List.mem_map.mp hi
  have := in_range (resampleProbs unionH) (resampleProbs_valid unionH hN h53) u (hu u hu')
  rwa [resampleProbs_length] at this

/-- **count conservation of the resampling**: for every sequence of uniform numbers in [0,1) the resampled catalog has
    exactly as many events as numbers were drawn (`size=int(n_obs)`), all inside the magnitude bins. -/
theorem resample_count_conserved (mags : List Rat) (unionH : List Nat) (us : List Rat)
    (hK : unionH.length = mags.length) (hc : centresOK mags = true) (hN : unionH.sum ≠ 0) (h53 : unionH.sum < 2 ^ 53)
    (hu : ∀ u ∈ us, u < 1) :
    (resampleHist mags unionH us).sum = us.length ∧ (resampleHist mags unionH us).length = mags.length := by
  have hidx : ∀ i ∈ choiceIdx unionH us, i < mags.length := by
    intro i hi; rw [← hK]; exact choiceIdx_in_range unionH us hN h53 hu i hi
  rw [resample_is_bincount mags unionH us hc hidx]
  refine ⟨?_, by simp [binCount]⟩
  rw [binCount_sum _ _ hidx]
  simp [choiceIdx]

/-- **support of the resampling**: a magnitude bin in which no synthetic catalog has an event (Λ_U(k) = 0) is never
    resampled, whatever the uniform numbers — leading, interior or trailing bin. -/
theorem resample_never_from_empty_bin (mags : List Rat) (unionH : List Nat) (us : List Rat)
    (hK : unionH.length = mags.length) (hc : centresOK mags = true) (hN : unionH.sum ≠ 0) (h53 : unionH.sum < 2 ^ 53)
    (hu : ∀ u ∈ us, 0 ≤ u ∧ u < 1) (k : Nat) (hk : k < mags.length) (hz : unionH.getD k 0 = 0) :
    (resampleHist mags unionH us).getD k 0 = 0 := by
  have hidx : ∀ i ∈ choiceIdx unionH us, i < mags.length := by
    intro i hi; rw [← hK]; exact choiceIdx_in_range unionH us hN h53 (fun u h => (hu u h).2) i hi
  rw [resample_is_bincount mags unionH us hc hidx, binCount_getD _ _ _ hk, List.count_eq_zero]
  intro hmem
  obtain ⟨u, hu', hk'⟩ := List.mem_map.mp hmem
  have hv := resampleProbs_valid unionH hN h53
  have hkU : k < unionH.length := by omega
  have hz' : (resampleProbs unionH).getD k 0 = 0 := by
    unfold resampleProbs
    rw [List.getD_eq_getElem?_getD, List.getElem?_map, List.getElem?_eq_getElem hkU]
    have : unionH[k] = 0 := by
      simpa [List.getD_eq_getElem?_getD, List.getElem?_eq_getElem hkU] using hz
    simp [this, fdiv, fl64_zero]
  exact never_in_zero_rate_bin (resampleProbs unionH) hv.nonneg k (by rw [resampleProbs_length]; exact hkU) hz' u
    (hu u hu').1 hk'

theorem unionHist_length (K : Nat) (sims : List Grid) : (unionHist K sims).length = K := by
  simp [unionHist]

/-- **C10 resampled magnitude test, draws no longer an input.**  For every family of uniform numbers (one list of N_obs
    numbers in [0,1) per synthetic catalog) the histograms the code builds have exactly N_obs events each, never an event
    in a bin where the union histogram is empty, and the reported distribution is the documented
    D_j = Σ_k (log₁₀[Λ_U(k)·N/N_U + 1] − log₁₀[Λ̃_j(k) + 1])² of exactly these histograms; the observed statistic is D_o. -/
theorem rm_stat_eq_doc_resampled (K : Nat) (sims : List Grid) (obs : Grid) (mags : List Rat) (uss : List (List Rat))
    (hK : mags.length = K) (hc : centresOK mags = true)
    (hobs : eventCount obs ≠ 0) (hNobs : (magCounts K obs).sum ≠ 0)
    (hU : (unionHist K sims).sum ≠ 0) (h53 : (unionHist K sims).sum < 2 ^ 53)
    (huss : ∀ us ∈ uss, us.length = (magCounts K obs).sum ∧ ∀ u ∈ us, 0 ≤ u ∧ u < 1) :
    let draws := resampleDraws mags (unionHist K sims) uss
    (∀ mc ∈ draws, mc.sum = (magCounts K obs).sum ∧ mc.length = K ∧
        ∀ k, k < K → (unionHist K sims).getD k 0 = 0 → mc.getD k 0 = 0) ∧
    (resampledMagnitudeTest (α := ℝ) K sims obs draws).status = .normal ∧
    (resampledMagnitudeTest (α := ℝ) K sims obs draws).observed =
      some (.fin (docDobs (unionHist K sims) (magCounts K obs).sum (magCounts K obs))) ∧
    (resampledMagnitudeTest (α := ℝ) K sims obs draws).distribution =
      draws.map (fun mc => ELL.fin (docDobs (unionHist K sims) (magCounts K obs).sum mc)) := by
  intro draws
  have hlen : (unionHist K sims).length = mags.length := by rw [unionHist_length, hK]
  have hd : ∀ mc ∈ draws, mc.sum = (magCounts K obs).sum ∧ mc.length = K ∧
      ∀ k, k < K → (unionHist K sims).getD k 0 = 0 → mc.getD k 0 = 0 := by
    intro mc hmc
    obtain ⟨us, hus, rfl⟩ := List.mem_map.mp hmc
    obtain ⟨hl, hu⟩ := huss us hus
    obtain ⟨h1, h2⟩ := resample_count_conserved mags (unionHist K sims) us hlen hc hU h53 (fun u h => (hu u h).2)
    refine ⟨by rw [h1, hl], by rw [h2, hK], ?_⟩
    intro k hk hz
    exact resample_never_from_empty_bin mags (unionHist K sims) us hlen hc hU h53 hu k (by omega) hz
  obtain ⟨h1, h2, h3, _⟩ := rm_stat_eq_doc K sims obs draws hobs hNobs (fun mc hmc => (hd mc hmc).1)
  exact ⟨hd, h1, h2, h3⟩

/-- **the 'not-valid' branch of `pseudolikelihood_test` is unreachable** for an observed catalog gridded on the region
    (at most C rows): the function has already returned `None` when the catalog has no event, and every event of a
    gridded catalog is in `spatial_counts()`, so `n_obs ≠ 0` where the branch is tested.  With the branch or without it
    the function is the same: either no result, or a result whose status is never 'not-valid'. -/
theorem pl_notvalid_branch_unreachable (C K : Nat) (sims : List Grid) (obs : Grid) (hWF : obs.length ≤ C) :
    pseudolikelihoodTestFull (α := ℝ) C K sims obs = pseudolikelihoodTest C K sims obs ∧
    ∀ r, pseudolikelihoodTestFull (α := ℝ) C K sims obs = some r → r.status ≠ .notValid ∧ r.quantile ≠ .sentinel := by
  have hq : ∀ (d : List (ELL ℝ)) (v : ELL ℝ), quantiles d v ≠ .sentinel := by
    intro d v; unfold quantiles; split <;> simp
  have heq : pseudolikelihoodTestFull (α := ℝ) C K sims obs = pseudolikelihoodTest C K sims obs := by
    unfold pseudolikelihoodTestFull
    by_cases hobs : eventCount obs = 0
    · rw [pl_flow_empty C K sims obs hobs]
    · have hn : (spatialCounts C obs).sum ≠ 0 := by rw [spatialCounts_sum_eq C obs hWF]; exact hobs
      cases h : pseudolikelihoodTest (α := ℝ) C K sims obs with
      | none => rfl
      | some r => simp [hn]
  refine ⟨heq, ?_⟩
  intro r hr
  rw [heq] at hr
  by_cases hobs : eventCount obs = 0
  · rw [pl_flow_empty C K sims obs hobs] at hr; cases hr
  · rcases hfirst : plFirst C K sims obs with _ | x
    · by_cases hleft : (keptObs C K sims obs).sum = 0
      · rw [pl_flow_negInf_none C K sims obs hfirst hleft] at hr; cases hr
      · obtain ⟨r', hr', hs, _, hqq, _⟩ := pl_flow_negInf_some C K sims obs hobs hfirst hleft
        rw [hr'] at hr; cases hr
        exact ⟨by rw [hs]; decide, by rw [hqq]; exact hq _ _⟩
    · obtain ⟨r', hr', hs, _, hqq, _⟩ := pl_flow_fin C K sims obs x hobs hfirst
      rw [hr'] at hr; cases hr
      exact ⟨by rw [hs]; decide, by rw [hqq]; exact hq _ _⟩

-- non-vacuity: bins [4, 4.5, 5], union histogram [2, 0, 1]; the decidable premise holds and two draws are resampled
example : centresOK [4, 9/2, 5] = true := by decide +kernel
example : resampleHist [4, 9/2, 5] [2, 0, 1] [1/10, 7/10] = [1, 0, 1] := by decide +kernel

end CatEvals
