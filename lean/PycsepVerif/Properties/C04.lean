import PycsepVerif.Proofs.Filter

/-!
# C04 — catalog filtering keeps exactly the events that satisfy every statement

Theorems about `Model/Filter.lean` (model of `filter`, `filter_spatial`, `load_catalog(apply_filters=True)`).
All statements hold for every catalog (any length, duplicates, empty), every statement list (any length,
any mix of the 5 attributes × 5 operators and datetime statements) and every history of calls.
-/
namespace CatFilter

/-- what each operator means, threshold equality included -/
theorem holds_iff (s : Stmt) (e : Event) :
    s.holds e = true ↔
      match s.op with
      | .gt => s.value < e.get s.attr
      | .lt => e.get s.attr < s.value
      | .ge => s.value ≤ e.get s.attr
      | .le => e.get s.attr ≤ s.value
      | .eq => e.get s.attr = s.value := by
  unfold Stmt.holds Op.eval
  cases s.op <;> simp

/-- an event whose attribute equals the threshold passes `>=`, `<=`, `==` and fails `>`, `<` -/
theorem holds_at_threshold (a : Attr) (op : Op) (e : Event) :
    (Stmt.holds ⟨a, op, e.get a⟩ e = true) ↔ (op = .ge ∨ op = .le ∨ op = .eq) := by
  rw [holds_iff]
  cases op <;> simp [Rat.lt_irrefl]

/-- an origin-time statement whose threshold `v` is NOT a whole number of milliseconds is decided by comparing the integer
    column with `v` itself: `>` and `>=` keep exactly the instants above `⌊v⌋` resp. from `⌈v⌉` on, `<` and `<=` those below
    `⌈v⌉` resp. up to `⌊v⌋` (floor / ceiling, NOT truncation toward zero, for negative thresholds too), `==` none unless
    `v` is a whole number. -/
theorem holds_originTime_frac (op : Op) (v : Rat) (e : Event) :
    (Stmt.holds ⟨.originTime, op, v⟩ e = true) ↔
      match op with
      | .gt => v.floor < e.originTime
      | .lt => e.originTime < v.ceil
      | .ge => v.ceil ≤ e.originTime
      | .le => e.originTime ≤ v.floor
      | .eq => ((e.originTime : Int) : Rat) = v := by
  rw [holds_iff]
  cases op <;> simp only [Event.get]
  · exact Rat.floor_lt_iff.symm
  · exact Rat.lt_ceil_iff.symm
  · exact Rat.ceil_le_iff.symm
  · exact Rat.le_floor_iff.symm

/-- `origin_time == v` with a fractional `v` selects nothing -/
theorem holds_originTime_eq_frac (v : Rat) (e : Event) (hv : (v.floor : Rat) ≠ v) :
    Stmt.holds ⟨.originTime, .eq, v⟩ e = false := by
  rw [Bool.eq_false_iff]
  intro h
  rw [holds_iff] at h
  simp only [Event.get] at h
  apply hv
  rw [← h, Rat.floor_intCast]

/-- C04 main statement: filtering by a list of statements is one pass over the catalog that keeps, in the
    original order and with multiplicity, exactly the rows for which every statement is true.
    Rows are copied whole (`List.filter`), so all fields are unchanged. -/
theorem filter_eq (ss : List Stmt) (es : List Event) :
    filterList ss es = es.filter (fun e => ss.all (fun s => s.holds e)) :=
  filterList_eq_filter ss es

/-- e survives ⇔ e was present and every statement holds -/
theorem filter_mem_iff (ss : List Stmt) (es : List Event) (e : Event) :
    e ∈ filterList ss es ↔ e ∈ es ∧ ∀ s ∈ ss, s.holds e = true := by
  rw [filter_eq, List.mem_filter, List.all_eq_true]

/-- multiplicities: a satisfying row is kept as often as it occurred, any other row not at all -/
theorem filter_count (ss : List Stmt) (es : List Event) (e : Event) :
    (filterList ss es).count e = if ss.all (fun s => s.holds e) then es.count e else 0 := by
  rw [filter_eq, count_filter_eq]

/-- order and fields unchanged: the result is a sublist of the original -/
theorem filter_sublist (ss : List Stmt) (es : List Event) : (filterList ss es).Sublist es := by
  rw [filter_eq]; exact List.filter_sublist

/-- statement order is irrelevant -/
theorem filter_perm {ss ts : List Stmt} (h : ss.Perm ts) (es : List Event) :
    filterList ss es = filterList ts es := by
  rw [filterList_eq_filter, filterList_eq_filter]
  congr 1; funext e; exact allHold_perm h e

/-- applying statements together = one after another (in any grouping) -/
theorem filter_append (ss ts : List Stmt) (es : List Event) :
    filterList (ss ++ ts) es = filterList ts (filterList ss es) := by
  simp [filterList, List.foldl_append]

/-- the string form (one statement) is the list form with that single statement -/
theorem filter_single (s : Stmt) (es : List Event) : filterList [s] es = filterOne s es := rfl

/-- a list of statements = the statements applied by separate calls, one after another -/
theorem filter_separately (ss : List Stmt) (es : List Event) :
    filterList ss es = ss.foldl (fun acc s => filterList [s] acc) es := rfl

/-- two separate filter calls commute -/
theorem filter_comm (ss ts : List Stmt) (es : List Event) :
    filterList ts (filterList ss es) = filterList ss (filterList ts es) := by
  rw [← filter_append, ← filter_append]
  exact filter_perm List.perm_append_comm es

/-- re-applying is a no-op -/
theorem filter_idem (ss : List Stmt) (es : List Event) :
    filterList ss (filterList ss es) = filterList ss es := by
  rw [filterList_eq_filter ss es, filterList_eq_filter]
  exact filter_filter_self _ _

/-- filtering never adds events, and the empty catalog stays empty -/
theorem filter_length_le (ss : List Stmt) (es : List Event) : (filterList ss es).length ≤ es.length :=
  (filter_sublist ss es).length_le

theorem filter_nil (ss : List Stmt) : filterList ss [] = [] := by
  rw [filter_eq]; rfl

/-- a datetime statement equals the origin-time statement at the epoch milliseconds of that datetime -/
theorem datetime_stmt_eq (op : Op) (dt : DateTime) (rest : List RawStmt) (es : List Event) :
    filterList ((RawStmt.datetime op dt :: rest).map RawStmt.parse) es
      = filterList ((RawStmt.num ⟨.originTime, op, (epochMs dt : Rat)⟩ :: rest).map RawStmt.parse) es := rfl

/-- … and it compares the integer millisecond origin time with the integer `epochMs dt` -/
theorem datetime_holds_iff (op : Op) (dt : DateTime) (e : Event) :
    (RawStmt.datetime op dt).parse.holds e = true ↔
      match op with
      | .gt => epochMs dt < e.originTime
      | .lt => e.originTime < epochMs dt
      | .ge => epochMs dt ≤ e.originTime
      | .le => e.originTime ≤ epochMs dt
      | .eq => e.originTime = epochMs dt := by
  rw [holds_iff]
  cases op <;> simp [RawStmt.parse, Event.get, Rat.intCast_lt_intCast, Rat.intCast_le_intCast, Rat.intCast_inj]

/-- sub-millisecond digits of a datetime statement are floored: any instant inside a millisecond gives the
    statement of that millisecond's start -/
theorem datetime_floor_ms (op : Op) (dt : DateTime) (us : Nat) (h : us / 1000 = dt.microsecond / 1000) :
    (RawStmt.datetime op { dt with microsecond := us }).parse = (RawStmt.datetime op dt).parse := by
  simp [RawStmt.parse, epochMs, h]

/-- with in_place=False the events of the object the call was made on are untouched
    (for `filter` and for `filter_spatial`) -/
theorem not_in_place_preserves_original (c c' r : Cat) (op : FilterOp)
    (h : step c op = some (c', r)) (hp : op.inPlace = false) : c'.events = c.events := by
  cases op with
  | filter stmts b =>
    simp only [FilterOp.inPlace] at hp; subst hp
    simp only [step, Option.map_eq_some_iff] at h
    obtain ⟨ss, _, h⟩ := h
    rw [← (Prod.mk.inj h).1]
  | spatial reg b =>
    simp only [FilterOp.inPlace] at hp; subst hp
    simp only [step, Option.map_eq_some_iff] at h
    obtain ⟨ss, _, h⟩ := h
    rw [← (Prod.mk.inj h).1]

/-- with in_place=True the returned object is the object itself -/
theorem in_place_returns_self (c c' r : Cat) (op : FilterOp)
    (h : step c op = some (c', r)) (hp : op.inPlace = true) : r = c' := by
  cases op with
  | filter stmts b =>
    simp only [FilterOp.inPlace] at hp; subst hp
    simp only [step, Option.map_eq_some_iff] at h
    obtain ⟨ss, _, h⟩ := h
    rw [← (Prod.mk.inj h).1, ← (Prod.mk.inj h).2]
  | spatial reg b =>
    simp only [FilterOp.inPlace] at hp; subst hp
    simp only [step, Option.map_eq_some_iff] at h
    obtain ⟨ss, _, h⟩ := h
    rw [← (Prod.mk.inj h).1, ← (Prod.mk.inj h).2]

/-- in both modes the returned object holds the filtered events of the object the call was made on -/
theorem step_filter_events (c c' r : Cat) (ss : List RawStmt) (b : Bool)
    (h : step c (.filter (some ss) b) = some (c', r)) :
    r.events = filterList (ss.map RawStmt.parse) c.events := by
  simp only [step, resolveStmts, Option.map_some, Option.some.injEq] at h
  rw [← (Prod.mk.inj h).2]
  cases b <;> rfl

theorem step_spatial_events (c c' r : Cat) (reg : Region) (b : Bool)
    (h : step c (.spatial (some reg) b) = some (c', r)) :
    r.events = filterSpatial reg c.events := by
  simp only [step, resolveRegion, Option.map_some, Option.some.injEq] at h
  rw [← (Prod.mk.inj h).2]
  cases b <;> rfl

/-- a call with explicit statements never raises -/
theorem step_filter_some (c : Cat) (ss : List RawStmt) (b : Bool) :
    (step c (.filter (some ss) b)).isSome = true := by
  simp [step, resolveStmts]

/-- `filter()` without statements raises exactly when the object carries no filters -/
theorem step_filter_none_iff (c : Cat) (b : Bool) :
    step c (.filter none b) = none ↔ c.filters = [] := by
  simp [step, resolveStmts]

/-- heap version: a call that is not in place changes the events of no existing object -/
theorem call_not_in_place_preserves (h : Heap) (i : Nat) (op : FilterOp) (hp : op.inPlace = false)
    (j : Nat) (hj : j < h.length) :
    ((call h i op).1[j]?).map Cat.events = (h[j]?).map Cat.events := by
  unfold call
  cases hi : h[i]? with
  | none => simp
  | some c =>
    simp only
    cases hs : step c op with
    | none => simp
    | some p =>
      obtain ⟨c', r⟩ := p
      simp only [hp, Bool.false_eq_true, if_false, setAt]
      rw [List.getElem?_append_left (by simpa using hj)]
      by_cases hij : i = j
      · subst hij
        have hi' : i < h.length := hj
        rw [List.getElem?_set_self hi']
        have := not_in_place_preserves_original c c' r op hs hp
        rw [hi]; simp [this]
      · rw [List.getElem?_set_ne hij]

/-- heap version: an in-place call changes no other object and creates none -/
theorem call_in_place_others (h : Heap) (i : Nat) (op : FilterOp) (hp : op.inPlace = true)
    (j : Nat) (hij : i ≠ j) : (call h i op).1[j]? = h[j]? ∧ (call h i op).1.length = h.length := by
  unfold call
  cases hi : h[i]? with
  | none => simp
  | some c =>
    simp only
    cases hs : step c op with
    | none => simp
    | some p =>
      obtain ⟨c', r⟩ := p
      simp only [hp, if_true, setAt]
      exact ⟨List.getElem?_set_ne hij, List.length_set⟩

/-- a chain of in-place `filter(list)` calls on one object = one filter by the concatenated statements -/
theorem chain_in_place (c : Cat) (calls : List (List RawStmt)) :
    ∃ c', (calls.foldl (fun (acc : Option Cat) ss => acc.bind (fun a => (step a (.filter (some ss) true)).map Prod.snd))
            (some c)) = some c'
      ∧ c'.events = filterList ((calls.flatten).map RawStmt.parse) c.events := by
  induction calls generalizing c with
  | nil => exact ⟨c, rfl, rfl⟩
  | cons ss rest ih =>
    have hstep : (step c (.filter (some ss) true)).map Prod.snd
        = some { c with events := filterList (ss.map RawStmt.parse) c.events, filters := ss } := by
      simp [step, resolveStmts, stepFilter]
    obtain ⟨c', h1, h2⟩ := ih { c with events := filterList (ss.map RawStmt.parse) c.events, filters := ss }
    refine ⟨c', ?_, ?_⟩
    · simp only [List.foldl_cons, Option.bind_some, hstep]; exact h1
    · rw [h2]; simp [List.map_append, filter_append]

/-- spatial filtering keeps exactly the events that are not masked -/
theorem filterSpatialBy_eq (masked : Event → Bool) (es : List Event) (e : Event) :
    e ∈ filterSpatialBy masked es ↔ e ∈ es ∧ masked e = false := by
  simp [filterSpatialBy, List.mem_filter]

/-- spatial filtering keeps exactly the events inside some half-open cell of the region (lower and left
    sides included), in order, fields unchanged -/
theorem filterSpatial_eq (r : Region) (es : List Event) :
    filterSpatial r es = es.filter (fun e => r.cells.any (fun c => inCell r.dh c e.longitude e.latitude)) := by
  unfold filterSpatial filterSpatialBy Region.masked
  congr 1; funext e; simp

theorem filterSpatial_mem_iff (r : Region) (es : List Event) (e : Event) :
    e ∈ filterSpatial r es ↔
      e ∈ es ∧ ∃ c ∈ r.cells, c.1 ≤ e.longitude ∧ e.longitude < c.1 + r.dh ∧
                               c.2 ≤ e.latitude ∧ e.latitude < c.2 + r.dh := by
  rw [filterSpatial_eq, List.mem_filter, List.any_eq_true]
  simp [inCell, and_assoc]

theorem filterSpatial_sublist (r : Region) (es : List Event) : (filterSpatial r es).Sublist es := by
  rw [filterSpatial_eq]; exact List.filter_sublist

theorem filterSpatial_idem (r : Region) (es : List Event) :
    filterSpatial r (filterSpatial r es) = filterSpatial r es := by
  rw [filterSpatial_eq r es, filterSpatial_eq]; exact filter_filter_self _ _

/-- `load_catalog(filters=fs, region=r, apply_filters=True)`: statement filter then spatial filter;
    without a region only the statement filter; without filters it raises -/
theorem loadApply_region (es : List Event) (f : RawStmt) (fs : List RawStmt) (r : Region) :
    (loadApply es (f :: fs) (some r)).map Cat.events
      = some (filterSpatial r (filterList ((f :: fs).map RawStmt.parse) es)) := by
  simp [loadApply, step, resolveStmts, resolveRegion, stepFilter, stepSpatial]

theorem loadApply_no_region (es : List Event) (f : RawStmt) (fs : List RawStmt) :
    (loadApply es (f :: fs) none).map Cat.events = some (filterList ((f :: fs).map RawStmt.parse) es) := by
  simp [loadApply, step, resolveStmts, resolveRegion, stepFilter, filter_idem]

theorem loadApply_no_filters (es : List Event) (r : Option Region) : loadApply es [] r = none := by
  simp [loadApply, step, resolveStmts]

/-! non-vacuity: concrete instances of the hypotheses -/
section Examples
def e1 : Event := ⟨1, 1246406400000, 35, -118, 10, 45/10⟩
def e2 : Event := ⟨2, 1246406400001, 36, -117, 5, 5⟩
def e3 : Event := ⟨3, 1246406399999, 35, -118, 10, 45/10⟩

-- equality at the threshold, datetime at a millisecond boundary
example : filterList ((
    [RawStmt.datetime .ge ⟨2009, 7, 1, 0, 0, 0, 999⟩, RawStmt.num ⟨.magnitude, .le, 45/10⟩]).map RawStmt.parse)
    [e1, e2, e3] = [e1] := by decide +kernel

example : [Stmt.mk .magnitude .ge 5, Stmt.mk .depth .lt 10].Perm [Stmt.mk .depth .lt 10, Stmt.mk .magnitude .ge 5] :=
  List.Perm.swap _ _ _

example : step ⟨[e1, e2], [], none⟩ (.filter (some [RawStmt.num ⟨.magnitude, .gt, 45/10⟩]) false)
    = some (⟨[e1, e2], [RawStmt.num ⟨.magnitude, .gt, 45/10⟩], none⟩,
            ⟨[e2], [RawStmt.num ⟨.magnitude, .gt, 45/10⟩], none⟩) := by decide +kernel

example : filterSpatial ⟨1, [(-118, 35)]⟩ [e1, e2] = [e1] := by decide +kernel
-- fractional origin-time thresholds: X.5 keeps X under `<`, X.4 drops X under `>=` and `==`, `> -0.5` keeps t = 0
example : filterList [⟨.originTime, .lt, 1246406400000 + 1/2⟩] [e1, e2, e3] = [e1, e3] := by decide +kernel
example : filterList [⟨.originTime, .ge, 1246406400000 + 2/5⟩] [e1, e2, e3] = [e2] := by decide +kernel
example : filterList [⟨.originTime, .eq, 1246406400000 + 2/5⟩] [e1, e2, e3] = [] := by decide +kernel
example : filterList [⟨.originTime, .gt, -1/2⟩] [⟨7, 0, 0, 0, 0, 0⟩, ⟨8, -1, 0, 0, 0, 0⟩] = [⟨7, 0, 0, 0, 0, 0⟩] := by
  decide +kernel
example : ((-1/2 : Rat).floor : Rat) ≠ -1/2 := by decide +kernel
example : epochMs ⟨2009, 7, 1, 0, 0, 0, 0⟩ = 1246406400000 := by decide +kernel
end Examples

end CatFilter
