import PycsepVerif.Properties.C20_Concrete
import PycsepVerif.Properties.C08_Public
import PycsepVerif.Model.BinaryTests

/-!
# C20 on the concrete paired tests (C08's model `PairedTests` of poisson_evaluations.paired_t_test / w_test and
binomial_evaluations.binary_paired_t_test)

`Properties/C20.lean` proves `sum_perm_tTest` / `sum_perm_wTest` for the self-contained model `PermInv`. Here the statement is
proved for the functions C08 ties to the code: the public wrappers `pairedTPub`, `binaryTPub` (forecast objects with scale
history, `scale=` on or off) and the exact-layer W statistics `wStats` / `wStatsPub` (rank sums, tie term written with
`eraseDups` as the code's `numpy.unique`), for permuted observed events and for consistently re-indexed cells.
-/
namespace PermInv.Concrete
open List PairedTests

/-- `eraseDups` has no duplicates -/
theorem nodup_eraseDups : ∀ (n : Nat) (l : List Rat), l.length ≤ n → l.eraseDups.Nodup
  | 0, l, h => by
    have : l = [] := List.length_eq_zero_iff.mp (by omega)
    subst this; simp
  | n + 1, [], _ => by simp
  | n + 1, a :: as, h => by
    rw [List.eraseDups_cons, List.nodup_cons]
    constructor
    · intro hm
      have := List.mem_eraseDups.mp hm
      simp at this
    · apply nodup_eraseDups n
      have := List.length_filter_le (fun b => !b == a) as
      simp only [List.length_cons] at h
      omega

/-- the distinct values of permuted lists are permutations of each other (the order in which `numpy.unique` would meet
    them does not matter) -/
theorem eraseDups_perm {l l' : List Rat} (h : l ~ l') : l.eraseDups ~ l'.eraseDups :=
  (List.perm_ext_iff_of_nodup (nodup_eraseDups _ l le_rfl) (nodup_eraseDups _ l' le_rfl)).mpr
    (fun a => by rw [List.mem_eraseDups, List.mem_eraseDups, h.mem_iff])

theorem tieTerm_perm {l l' : List Rat} (h : l ~ l') : PairedTests.tieTerm l = PairedTests.tieTerm l' := by
  unfold PairedTests.tieTerm
  have h1 : l.eraseDups.map (fun v => l.count v) ~ l'.eraseDups.map (fun v => l'.count v) := by
    have : (fun v => l.count v) = (fun v => l'.count v) := funext (fun v => h.count_eq v)
    rw [this]; exact (eraseDups_perm h).map _
  exact ((h1.filter _).map _).sum_eq

theorem rank2_perm {l l' : List Rat} (h : l ~ l') (a : Rat) : rank2 l a = rank2 l' a := by
  unfold rank2; rw [h.countP_eq, h.countP_eq]

/-- **W-test, exact layer**: count, rank sums T, mean and the variance term incl. the tie correction are functions of the
    multiset of differences -/
theorem wStatsD_perm {d d' : List Rat} (h : d ~ d') : wStatsD d = wStatsD d' := by
  unfold wStatsD
  have hf : removeZeros d ~ removeZeros d' := h.filter _
  have hl : (removeZeros d).map absQ ~ (removeZeros d').map absQ := hf.map _
  have hp : rPlus2 (removeZeros d) = rPlus2 (removeZeros d') := by
    unfold rPlus2
    have : (fun a => if 0 < a then rank2 ((removeZeros d).map absQ) (absQ a) else 0) =
        (fun a => if 0 < a then rank2 ((removeZeros d').map absQ) (absQ a) else 0) :=
      funext (fun a => by rw [rank2_perm hl])
    simp only [this]; exact (hf.map _).sum_eq
  have hm : rMinus2 (removeZeros d) = rMinus2 (removeZeros d') := by
    unfold rMinus2
    have : (fun a => if a < 0 then rank2 ((removeZeros d).map absQ) (absQ a) else 0) =
        (fun a => if a < 0 then rank2 ((removeZeros d').map absQ) (absQ a) else 0) :=
      funext (fun a => by rw [rank2_perm hl])
    simp only [this]; exact (hf.map _).sum_eq
  simp only [hp, hm, hf.length_eq, tieTerm_perm hl]

/-- `_w_test_ndarray(x, m)` and the public `w_test` inputs (per-event float64 log-rate differences) on permuted events -/
theorem wStats_perm_events {β : Type} {ev ev' : List β} (h : ev ~ ev') (LA LB : β → Rat) (n1 n2 n : Rat) :
    wStatsPub (ev.map LA) (ev.map LB) n1 n2 n = wStatsPub (ev'.map LA) (ev'.map LB) n1 n2 n := by
  unfold wStatsPub wStats wX
  apply wStatsD_perm
  have e : ∀ l : List β, List.zipWith Soft64.fsub (l.map LA) (l.map LB) = l.map (fun e => Soft64.fsub (LA e) (LB e)) := by
    intro l; induction l with
    | nil => rfl
    | cons a t ih => simp [ih]
  rw [e, e]
  exact (h.map _).map _

/-- **`paired_t_test`** (public wrapper: forecast objects, any scale history, `scale=` on or off): permuted observed events give
    the same information gain, variance, t statistic and confidence interval (ℝ) -/
theorem pairedTPub_perm_events (fa fb : Fc ℝ) {ev ev' : List ℕ} (h : ev ~ ev') (scale : Bool) (tcrit : ℝ) :
    pairedTPub fa fb ev scale tcrit = pairedTPub fa fb ev' scale tcrit := by
  unfold pairedTPub Fc.targetRates
  exact t_event_order_irrelevant h _ _ _ _ _

/-- **`binary_paired_t_test`**: the active bins (`numpy.unique(numpy.nonzero(counts))`) are the same list for every storage
    order of the events, so the result is EQUAL in any arithmetic -/
theorem binaryTPub_perm_events {α : Type} [RealOps α] (fa fb : Fc α) (nb : ℕ) {ev ev' : List ℕ} (h : ev ~ ev') (scale : Bool)
    (tcrit : α) : binaryTPub fa fb nb ev scale tcrit = binaryTPub fa fb nb ev' scale tcrit := by
  have ha : activeBins nb ev = activeBins nb ev' := by
    unfold activeBins
    exact List.filter_congr (fun i _ => by rw [h.count_eq])
  simp only [binaryTPub, binaryT, Fc.targetRates, ha]

/-- **cells re-ordered consistently with the rates** (`σ`: new cell j is old cell σ j; events carry the new index `π`,
    `σ (π i) = i`): per-event rates, hence the T-test, are unchanged -/
theorem pairedT_perm_cells (dataA dataB : ℕ → ℝ) (σ π : ℕ → ℕ) (hσ : ∀ i, σ (π i) = i) (ev : List ℕ) (NA NB tc : ℝ) :
    PairedTests.tTest ((ev.map π).map (fun j => dataA (σ j))) ((ev.map π).map (fun j => dataB (σ j))) (ev.map π).length NA NB tc =
    PairedTests.tTest (ev.map dataA) (ev.map dataB) ev.length NA NB tc := by
  simp only [List.map_map, Function.comp_def, hσ, List.length_map]

/-- **binary S / binary CL / Brier tests as whole pipelines** (C16's concrete `BinaryBrier` tests: weights, rejection or
    injected simulation, statistics, quantile): with the random numbers fixed, permuted observed events give EQUAL outcomes in
    any arithmetic (bit for bit in `Float`) — the tests read the catalog through its count matrix only, also when gridding raises -/
theorem binaryTests_perm_events {α : Type} [RealOps α] (C K : ℕ) {evs evs' : List Gridding.Ev} (h : evs ~ evs')
    (mq : List Rat) (ma : List α) (dq : List (List Rat)) (da : List (List α)) (rows : List (List Rat)) :
    (Gridding.smcCart C K evs).map (fun cnt => (BinaryBrier.binarySpatialTest mq ma cnt rows, BinaryBrier.binaryCLTest dq da cnt rows,
        BinaryBrier.brierTest dq da cnt rows)) =
    (Gridding.smcCart C K evs').map (fun cnt => (BinaryBrier.binarySpatialTest mq ma cnt rows, BinaryBrier.binaryCLTest dq da cnt rows,
        BinaryBrier.brierTest dq da cnt rows)) := by
  rw [(gridding_smc_perm C K h).1]

/-! ## non-vacuity -/

example : wStatsD [1/2, -1/4, 0, 1/2, 3] = wStatsD [3, 1/2, 1/2, 0, -1/4] := wStatsD_perm (by decide +kernel)
example : wStatsD [1/2, -1/4, 0, 1/2, 3] = ⟨4, 2, 20, 177⟩ := by decide +kernel
example : activeBins 5 [3, 1, 3] = activeBins 5 [1, 3, 3] := by decide

end PermInv.Concrete
