import PycsepVerif.Generated
import PycsepVerif.Soft64

/-! C02 — theorems over the source-derived table `Generated.csepMwBins` (CSEP_MW_BINS of csep/utils/constants.py,
re-extracted on every run). The quantifier is a finite table enumerated completely by kernel evaluation. -/
namespace C02Tables
open Soft64

/-- the decimal grid 2.5 + 0.1·k, k = 0..75, as nearest doubles -/
def decimalGrid : List Rat := (List.range 76).map (fun k => fl64 (((25 + k : Nat) : Rat) / 10))

/-- every shipped magnitude edge is exactly the float closest to the decimal 2.5 + 0.1·k -/
theorem csepMwBins_nearest_decimal : Generated.csepMwBins = decimalGrid := by decide +kernel

/-- the shipped edges are strictly increasing -/
theorem csepMwBins_increasing : Generated.csepMwBins.Pairwise (· < ·) := by decide +kernel

/-- every shipped edge is a binary64 value -/
theorem csepMwBins_are_floats : Generated.csepMwBins.all (fun x => isF64 x) = true := by decide +kernel

end C02Tables
