import PycsepVerif.Properties.C03_Quadtree

/-!
# C17 (extension) — the refinement criterion read off the gridding API

`refine_leaf_bound` / `refine_counts` speak about the number `num` that `_create_tile` records while it builds the grid.  What a
user observes is `catalog.spatial_counts()` of the building catalog on the finished grid — computed by other code
(`_find_location` per event + `numpy.add.at`).  `Model/QuadGridding.lean` composes the two models; here:

* `from_catalog_self_counts` — the building catalog gridded on its own grid gives EXACTLY the recorded `num` list, cell by cell
  (any catalog, threshold, zoom): the lookup and the refinement agree on the ownership of every event, boundary events included.
* `from_catalog_self_leaf_bound` — so every cell's `spatial_counts` entry is ≤ threshold unless the cell is at the maximum zoom.
* `from_catalog_self_split_needed` — and every strict ancestor of a listed cell held more than `threshold` events of the catalog:
  the sum of the `spatial_counts` entries of the listed cells below that ancestor exceeds the threshold.
* `from_catalog_self_all_located_iff` — the building catalog is rejected by space-magnitude gridding on its own grid only for an
  event outside the covered domain: every event of the domain has a cell.
-/
namespace QuadGridding
open Quadtree Gridding

/-- the catalog that built the grid, gridded on it, reproduces the `num` recorded during the refinement -/
theorem from_catalog_self_counts (thr zoom : Nat) (pts : List Pt) :
    (fromCatalogThenCount thr zoom pts).2.2 = (fromCatalogThenCount thr zoom pts).2.1 := by
  unfold fromCatalogThenCount
  simp only
  have hpf := from_catalog_prefix_free thr zoom pts
  apply List.ext_getElem?
  intro i
  by_cases hi : i < ((fromCatalog thr zoom pts).map Prod.fst).length
  · rw [counts_on_entry_prefix_free _ hpf pts i hi]
    have hi' : i < (fromCatalog thr zoom pts).length := by simpa using hi
    rw [List.getElem?_map, List.getElem?_eq_getElem hi', Option.map_some]
    congr 1
    have hmem : (fromCatalog thr zoom pts)[i] ∈ fromCatalog thr zoom pts := List.getElem_mem hi'
    have := fromCatalog_count (l := (fromCatalog thr zoom pts)[i].1) (n := (fromCatalog thr zoom pts)[i].2) hmem
    rw [this]; simp
  · have h1 : (spatialCountsOn ((fromCatalog thr zoom pts).map Prod.fst) pts).length
        = ((fromCatalog thr zoom pts).map Prod.fst).length := by
      unfold spatialCountsOn; rw [spatialCountsQuad_eq]; simp [countVec]
    rw [List.getElem?_eq_none (by omega), List.getElem?_eq_none (by simp at hi ⊢; omega)]

/-- every entry of `spatial_counts` of the building catalog is ≤ threshold, or its cell is at the maximum zoom -/
theorem from_catalog_self_leaf_bound (thr zoom : Nat) (hz : 1 ≤ zoom) (pts : List Pt) (i : Nat) (c : Nat)
    (h : (fromCatalogThenCount thr zoom pts).2.2[i]? = some c) :
    ∃ k, (fromCatalogThenCount thr zoom pts).1[i]? = some k ∧ (c ≤ thr ∨ k.length = zoom) := by
  rw [from_catalog_self_counts] at h
  unfold fromCatalogThenCount at h ⊢
  simp only [List.getElem?_map] at h ⊢
  cases hl : (fromCatalog thr zoom pts)[i]? with
  | none => rw [hl] at h; cases h
  | some l =>
    rw [hl] at h
    simp only [Option.map_some, Option.some.injEq] at h
    refine ⟨l.1, rfl, ?_⟩
    have hmem : (l.1, l.2) ∈ fromCatalog thr zoom pts := List.mem_of_getElem? hl
    have := (from_catalog_leaf_bound thr zoom hz pts l.1 l.2 hmem).2
    rw [h] at this; exact this

/-- no needless split, in terms of the catalog's own events: a strict ancestor (of depth ≥ 1) of a listed cell holds more than
    `threshold` events of the building catalog and is above the maximum zoom -/
theorem from_catalog_self_split_needed (thr zoom : Nat) (pts : List Pt) (l : Key) (hl : l ∈ (fromCatalogThenCount thr zoom pts).1)
    (q : Key) (hq0 : q ≠ []) (hql : q <+: l) (hne : q ≠ l) : count pts q > thr ∧ q.length < zoom := by
  unfold fromCatalogThenCount at hl
  simp only [List.mem_map] at hl
  obtain ⟨⟨l', n⟩, hmem, rfl⟩ := hl
  unfold fromCatalog roots at hmem
  simp only [List.flatMap_cons, List.flatMap_nil, List.append_nil, List.mem_append] at hmem
  -- the root the leaf descends from is the one-digit prefix of q
  have key : ∀ r : Digit, (l', n) ∈ createTile thr zoom pts (zoom - 1) [r] → count pts q > thr ∧ q.length < zoom := by
    intro r hr
    have hrl : [r] <+: l' := by
      have := createTile_keys thr zoom pts (zoom - 1) [r]
      have hk : l' ∈ (createTile thr zoom pts (zoom - 1) [r]).map Prod.fst := List.mem_map.mpr ⟨(l', n), hr, rfl⟩
      rw [this] at hk
      exact refine_prefix hk
    have hrq : [r] <+: q := by
      obtain ⟨t, ht⟩ := hql
      obtain ⟨s, hs⟩ := hrl
      cases q with
      | nil => exact absurd rfl hq0
      | cons a q' =>
        have : a = r := by
          have e : (a :: q') ++ t = [r] ++ s := by simpa [hs] using ht
          simp at e; exact e.1
        subst this
        exact ⟨q', rfl⟩
    exact refine_no_needless_split thr zoom pts (zoom - 1) [r] l' n hr q hrq hql hne
  rcases hmem with h | h | h | h
  · exact key 0 h
  · exact key 1 h
  · exact key 2 h
  · exact key 3 h

/-- on its own grid every event of the building catalog that lies in the covered domain has a cell; space-magnitude gridding of the
    building catalog can only be rejected for an event outside the domain (or a magnitude below the first edge) -/
theorem from_catalog_self_all_located_iff (thr zoom : Nat) (pts : List Pt) :
    (∀ p ∈ pts, (findLocation ((fromCatalog thr zoom pts).map Prod.fst) p).isSome = true) ↔ ∀ p ∈ pts, InTile [] p := by
  constructor
  · intro h p hp
    by_contra hn
    have := ((from_catalog_locate thr zoom pts p).1).mpr hn
    have h' := h p hp
    rw [this] at h'; cases h'
  · intro h p hp
    cases hf : findLocation ((fromCatalog thr zoom pts).map Prod.fst) p with
    | none => exact absurd (h p hp) (((from_catalog_locate thr zoom pts p).1).mp hf)
    | some i => rfl

/-! ## non-vacuity -/
def exB : List Pt := [⟨mkRat 1 8, mkRat 1 8⟩, ⟨mkRat 1 8, mkRat 1 8⟩, ⟨mkRat 3 16, mkRat 1 16⟩, ⟨mkRat 5 8, mkRat 7 8⟩, ⟨mkRat 1 2, mkRat 1 2⟩,
  ⟨mkRat 1 4, mkRat 1 4⟩]

-- a catalog with duplicates and an event exactly on a tile corner (1/4, 1/4): ten leaves, `num` = spatial counts = [0,3,0,…]
example : fromCatalogThenCount 1 3 exB =
    ([[0, 0, 0], [0, 0, 1], [0, 0, 2], [0, 0, 3], [0, 1], [0, 2], [0, 3], [1], [2], [3]],
     [0, 3, 0, 0, 1, 0, 0, 1, 0, 1], [0, 3, 0, 0, 1, 0, 0, 1, 0, 1]) := by decide +kernel
-- the cell [0,0,1] holds 3 > threshold events: it is at the maximum zoom; its ancestor [0,0] held more than the threshold
example : count exB [0, 0] > 1 ∧ ([0, 0] : Key).length < 3 := by decide +kernel

end QuadGridding
