import PycsepVerif.Properties.C17
import PycsepVerif.Model.QuadtreeGeo
import PycsepVerif.Proofs.QuadBbox

/-!
# C17, round 3 — arbitrary user key sets (`from_quadkeys`): what the code does with ancestor / duplicate keys, and the
bounding box of a grid that covers the domain
-/
namespace Quadtree

/-- for a point of the covered domain, a key of depth ≤ D contains the point iff it is a prefix of the point's
    canonical depth-D key (the harness oracle: "the listed cell whose key is a prefix of the point's deepest key") -/
theorem inTile_iff_prefix_keyOf (D : Nat) (k : Key) (hk : k.length ≤ D) (p : Pt) (hp : InTile [] p) :
    InTile k p ↔ k <+: keyOf D p := by
  rw [inTile_iff_keyOf]
  constructor
  · rintro ⟨_, h⟩; rw [h]; exact keyOf_prefix hk p
  · intro h
    refine ⟨hp, ?_⟩
    have h2 : keyOf k.length p <+: keyOf D p := keyOf_prefix hk p
    have := List.prefix_of_prefix_length_le h h2 (by simp [keyOf_length])
    exact List.IsPrefix.eq_of_length this (by simp [keyOf_length])

private theorem findIdx_congr {α : Type} {p q : α → Bool} : ∀ (l : List α), (∀ a ∈ l, p a = q a) →
    l.findIdx? p = l.findIdx? q
  | [], _ => rfl
  | a :: l, h => by
    simp only [List.findIdx?_cons, h a List.mem_cons_self]
    rw [findIdx_congr l (fun b hb => h b (List.mem_cons_of_mem _ hb))]

/-- C17 for ARBITRARY key lists (overlapping, nested, duplicated — whatever the user hands to `from_quadkeys`):
    `_find_location` returns the FIRST LISTED key that is an ancestor-or-self of the point's canonical depth-D key,
    and nothing for a point outside the domain. -/
theorem locate_first_prefix (cells : List Key) (D : Nat) (hD : ∀ k ∈ cells, k.length ≤ D) (p : Pt) :
    findLocation cells p =
      if InTile [] p then cells.findIdx? (fun k => decide (k <+: keyOf D p)) else none := by
  unfold findLocation
  split
  · rename_i hp
    apply findIdx_congr
    intro k hk
    simp only [inTile, decide_eq_decide]
    exact inTile_iff_prefix_keyOf D k (hD k hk) p hp
  · rename_i hp
    rw [List.findIdx?_eq_none_iff]
    intro k _
    simp only [inTile, decide_eq_false_iff_not]
    exact fun h => hp (inTile_of_prefix List.nil_prefix h)

/-- a cell listed AFTER one of its ancestors (or after a duplicate of itself) is dead: no point is ever mapped to it -/
theorem shadowed_cell_never_returned (cells : List Key) (i j : Nat) (hij : i < j) (hj : j < cells.length)
    (hpre : cells[i]'(by omega) <+: cells[j]) (p : Pt) : findLocation cells p ≠ some j := by
  intro h
  obtain ⟨_, hin, hfirst⟩ := (locate_spec cells p).1 j h
  exact hfirst i hij (inTile_of_prefix hpre hin)

/-! ## bounding box -/

/-- C17 "together cover longitudes [-180, 180) and the Web-Mercator latitudes": `get_bbox` of ANY grid whose cells cover
    the domain is the whole domain — unit square (min xW, max xE, max yS, min yN) = (0, 1, 1, 0), i.e. longitudes
    −180 … 180 and latitudes latOf 1 … latOf 0 = ∓85.0511° -/
theorem bbox_of_cover (cells : List Key) (hcov : ∀ p, InTile [] p → ∃ k ∈ cells, InTile k p) :
    getBbox cells = some (0, 1, 1, 0) := getBbox_of_cover cells hcov

/-- … in particular of every `from_catalog` grid (any catalog, threshold, zoom) … -/
theorem bbox_from_catalog (thr zoom : Nat) (pts : List Pt) :
    getBbox ((fromCatalog thr zoom pts).map Prod.fst) = some (0, 1, 1, 0) := by
  apply getBbox_of_cover
  intro p hp
  have h := from_catalog_partition thr zoom pts p
  rw [if_pos hp] at h
  have hpos : 0 < (fromCatalog thr zoom pts).countP (fun l => inTile l.1 p) := by omega
  obtain ⟨l, hl, hin⟩ := List.countP_pos_iff.mp hpos
  exact ⟨l.1, List.mem_map.mpr ⟨l, hl, rfl⟩, by simpa using hin⟩

/-- … and of every single-resolution grid -/
theorem bbox_single_resolution (z : Nat) : getBbox (singleRes z) = some (0, 1, 1, 0) := by
  apply getBbox_of_cover
  intro p hp
  obtain ⟨k, ⟨hk, hin⟩, _⟩ := single_resolution_unique z p hp
  exact ⟨k, hk, hin⟩

-- a grid with a gap has a smaller box; an empty grid has none (min() of an empty sequence raises)
example : getBbox [[0, 0], [0, 3]] = some (0, mkRat 1 2, mkRat 1 2, 0) ∧ getBbox [[3]] = some (mkRat 1 2, 1, 1, mkRat 1 2) ∧
    getBbox [] = none := by decide +kernel

-- ancestor first: the descendant '00' is dead, the ancestor '0' answers; descendant first: both answer
example : findLocation [[0], [0, 0], [1]] ⟨mkRat 1 8, mkRat 1 8⟩ = some 0 := by decide +kernel
example : findLocation [[0, 0], [0], [1]] ⟨mkRat 1 8, mkRat 1 8⟩ = some 0 ∧
    findLocation [[0, 0], [0], [1]] ⟨mkRat 3 8, mkRat 3 8⟩ = some 1 := by decide +kernel
example : ∀ k ∈ [[0], [0, 0], [1]], k.length ≤ 2 := by decide

end Quadtree
