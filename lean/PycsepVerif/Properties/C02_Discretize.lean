import PycsepVerif.Properties.C02_Float

/-!
# C02 — `discretize` (calc.py:37-55): the left edge of each value's bin, or an exception

Theorems about `Bin1d.discretizeF` (argument checks → `bin1d_vec` with the default tolerance → rejection of any out-of-range
value → `bin_edges[idx]`). The first group holds for every dtype configuration; the `_f64` group combines it with the
float theorems of `Properties/C02_Float.lean`.
-/
namespace Bin1d
open Soft64

/-- the configuration `discretize` passes to `bin1d_vec`: default tolerance -/
abbrev discCfg (pd bd : DT) (rc : Bool) : Cfg := { pd := pd, bd := bd, tol := none, rc := rc }

/-- argument checks (calc.py:45-49): an empty edge array → ValueError; a single edge → IndexError (the check
`bin_edges[1] < bin_edges[0]` indexes past the end — code as it is); first two edges decreasing → ValueError. -/
theorem discretize_arg_checks (pd bd : DT) (rc : Bool) (bins data : List ℚ) :
    (bins.length = 0 → discretizeF pd bd rc bins data = .error .valueError) ∧
    (bins.length = 1 → discretizeF pd bd rc bins data = .error .indexError) ∧
    (2 ≤ bins.length → bins.getD 1 0 < bins.getD 0 0 → discretizeF pd bd rc bins data = .error .valueError) := by
  refine ⟨fun h => ?_, fun h => ?_, fun h h2 => ?_⟩
  · unfold discretizeF; simp [h]
  · unfold discretizeF; simp [h]
  · unfold discretizeF
    have h0 : bins.length ≠ 0 := by omega
    have h1 : bins.length ≠ 1 := by omega
    simp only [h0, h1, h2, if_false, if_true]

/-- after the argument checks `discretize` is: reject if some value is out of range, else map each value to the edge
that opens its bin -/
theorem discretize_unfold (pd bd : DT) (rc : Bool) (bins data : List ℚ) (hn : 2 ≤ bins.length)
    (hinc : bins.getD 0 0 ≤ bins.getD 1 0) :
    discretizeF pd bd rc bins data =
      if (data.map (bin1dF (discCfg pd bd rc) bins)).any (fun i => i == -1) then .error .csepException
      else .ok ((data.map (bin1dF (discCfg pd bd rc) bins)).map (fun i => bins.getD i.toNat 0)) := by
  unfold discretizeF
  have h0 : bins.length ≠ 0 := by omega
  have h1 : bins.length ≠ 1 := by omega
  simp only [h0, h1, not_lt.mpr hinc, if_false]

/-- C02 `discretize_eq_edge_of_bin`: whenever `discretize` returns, the arguments passed the checks, every value is in
range (index 0..n−1), and the output is, value by value, the edge `bins[bin1d_vec(x)]` that opens the value's bin (same
length and order as the data). -/
theorem discretize_eq_edge_of_bin (pd bd : DT) (rc : Bool) (bins data out : List ℚ)
    (h : discretizeF pd bd rc bins data = .ok out) :
    2 ≤ bins.length ∧ bins.getD 0 0 ≤ bins.getD 1 0 ∧
    out = data.map (fun x => bins.getD (bin1dF (discCfg pd bd rc) bins x).toNat 0) ∧
    out.length = data.length ∧
    ∀ x ∈ data, 0 ≤ bin1dF (discCfg pd bd rc) bins x ∧ bin1dF (discCfg pd bd rc) bins x < (bins.length : ℤ) := by
  have hn : 2 ≤ bins.length := by
    by_contra hc
    have : bins.length = 0 ∨ bins.length = 1 := by omega
    rcases this with h0 | h1
    · rw [(discretize_arg_checks pd bd rc bins data).1 h0] at h; cases h
    · rw [(discretize_arg_checks pd bd rc bins data).2.1 h1] at h; cases h
  have hinc : bins.getD 0 0 ≤ bins.getD 1 0 := by
    by_contra hc
    rw [(discretize_arg_checks pd bd rc bins data).2.2 hn (not_le.mp hc)] at h; cases h
  rw [discretize_unfold pd bd rc bins data hn hinc] at h
  by_cases hany : (data.map (bin1dF (discCfg pd bd rc) bins)).any (fun i => i == -1) = true
  · rw [if_pos hany] at h; cases h
  · rw [if_neg hany] at h
    have hout : out = data.map (fun x => bins.getD (bin1dF (discCfg pd bd rc) bins x).toNat 0) := by
      injection h with h
      rw [← h, List.map_map]
      rfl
    refine ⟨hn, hinc, hout, by rw [hout, List.length_map], fun x hx => ?_⟩
    have hb : bins ≠ [] := by intro h0; simp [h0] at hn
    have hr := bin1dF_range (discCfg pd bd rc) bins hb x
    have hne : bin1dF (discCfg pd bd rc) bins x ≠ -1 := by
      intro hneg
      apply hany
      rw [List.any_eq_true]
      exact ⟨_, List.mem_map.mpr ⟨x, hx, rfl⟩, by simp [hneg]⟩
    omega

example : discretizeF .f64 .f64 false [1, 2, 3] [1, 3 / 2, 7 / 2] = .ok [1, 1, 3] := by decide +kernel
example := discretize_eq_edge_of_bin .f64 .f64 false [1, 2, 3] [1, 3 / 2, 7 / 2] [1, 1, 3] (by decide +kernel)

/-- C02 `discretize_rejects_outside`: after the argument checks, `discretize` raises CSEPException exactly when
`bin1d_vec` reports some value as out of range (−1); otherwise it returns. -/
theorem discretize_rejects_outside (pd bd : DT) (rc : Bool) (bins data : List ℚ) (hn : 2 ≤ bins.length)
    (hinc : bins.getD 0 0 ≤ bins.getD 1 0) :
    (discretizeF pd bd rc bins data = .error .csepException ↔ ∃ x ∈ data, bin1dF (discCfg pd bd rc) bins x = -1) ∧
    ((∃ out, discretizeF pd bd rc bins data = .ok out) ↔ ∀ x ∈ data, bin1dF (discCfg pd bd rc) bins x ≠ -1) := by
  rw [discretize_unfold pd bd rc bins data hn hinc]
  have hiff : (data.map (bin1dF (discCfg pd bd rc) bins)).any (fun i => i == -1) = true ↔
      ∃ x ∈ data, bin1dF (discCfg pd bd rc) bins x = -1 := by
    rw [List.any_eq_true]
    constructor
    · rintro ⟨i, hi, hi2⟩
      obtain ⟨x, hx, rfl⟩ := List.mem_map.mp hi
      exact ⟨x, hx, by simpa using hi2⟩
    · rintro ⟨x, hx, hx2⟩
      exact ⟨_, List.mem_map.mpr ⟨x, hx, rfl⟩, by simp [hx2]⟩
  by_cases hany : (data.map (bin1dF (discCfg pd bd rc) bins)).any (fun i => i == -1) = true
  · rw [if_pos hany]
    refine ⟨⟨fun _ => hiff.1 hany, fun _ => rfl⟩, ⟨(fun ⟨out, h⟩ => by cases h), fun h => ?_⟩⟩
    obtain ⟨x, hx, hx2⟩ := hiff.1 hany
    exact absurd hx2 (h x hx)
  · rw [if_neg hany]
    refine ⟨⟨(fun h => by cases h), fun h => absurd (hiff.2 h) hany⟩, ⟨fun _ x hx hx2 => hany (hiff.2 ⟨x, hx, hx2⟩),
      fun _ => ⟨_, rfl⟩⟩⟩

example : discretizeF .f64 .f64 true [1, 2, 3] [3 / 2, 1 / 2] = .error .csepException := by decide +kernel

/-- C02 idempotence, general form: if every edge, taken as a value of the edges' dtype, lands in its own bin, then
`discretize(discretize(x)) = discretize(x)` (the second call sees data of the edges' dtype). -/
theorem discretize_idem (pd bd : DT) (rc : Bool) (bins data out : List ℚ)
    (hown : ∀ j : ℕ, j < bins.length → bin1dF (discCfg bd bd rc) bins (bins.getD j 0) = j)
    (h : discretizeF pd bd rc bins data = .ok out) : discretizeF bd bd rc bins out = .ok out := by
  obtain ⟨hn, hinc, hout, _, hidx⟩ := discretize_eq_edge_of_bin pd bd rc bins data out h
  rw [discretize_unfold bd bd rc bins out hn hinc]
  have hmem : ∀ y ∈ out, ∃ j : ℕ, j < bins.length ∧ y = bins.getD j 0 := by
    intro y hy
    rw [hout] at hy
    obtain ⟨x, hx, rfl⟩ := List.mem_map.mp hy
    have := hidx x hx
    exact ⟨(bin1dF (discCfg pd bd rc) bins x).toNat, by omega, rfl⟩
  have hany : ¬ (out.map (bin1dF (discCfg bd bd rc) bins)).any (fun i => i == -1) = true := by
    rw [List.any_eq_true]
    rintro ⟨i, hi, hi2⟩
    obtain ⟨y, hy, rfl⟩ := List.mem_map.mp hi
    obtain ⟨j, hj, rfl⟩ := hmem y hy
    rw [hown j hj] at hi2
    simp at hi2
  rw [if_neg hany, List.map_map]
  congr 1
  conv_rhs => rw [← List.map_id out]
  apply List.map_congr_left
  intro y hy
  obtain ⟨j, hj, rfl⟩ := hmem y hy
  simp only [Function.comp, hown j hj, Int.toNat_natCast, id]

/-! ## float64 grids: combination with the float theorems -/

/-- C02 idempotence on regular float64 grids: if the grid resolves its step at every edge, `discretize` is idempotent
(both modes, any float64/float32/int data in the first call; the second call sees float64 data). -/
theorem discretize_idem_f64 (pd : DT) (rc : Bool) {bins : List ℚ} (G : RegularF64Grid bins)
    (hP : ∀ j : ℕ, j < bins.length → PointOK bins (bins.getD j 0)) (data out : List ℚ)
    (h : discretizeF pd .f64 rc bins data = .ok out) : discretizeF .f64 .f64 rc bins out = .ok out :=
  discretize_idem pd .f64 rc bins data out (fun j hj => bin1dF_edge_own_bin rc G hj (hP j hj)) h

example : discretizeF .f64 .f64 false witnessBins [50, 6178375738798899 / 70368744177664] =
    .ok [2336242306698445 / 70368744177664, 6178375738798899 / 70368744177664] := by decide +kernel

example := discretize_idem_f64 .f64 false witnessBins_regular (by decide +kernel)
  [50, 6178375738798899 / 70368744177664]
  [2336242306698445 / 70368744177664, 6178375738798899 / 70368744177664] (by decide +kernel)

/-- C02 `discretize_rejects_outside`, float form: on a regular float64 grid a float64 value more than the formula band
`fband 0` below the first edge makes `discretize` raise (both modes) … -/
theorem discretize_rejects_below_first (rc : Bool) {bins : List ℚ} (G : RegularF64Grid bins) (data : List ℚ) {x : ℚ}
    (hx : x ∈ data) (P : PointOK bins x) (hlow : x + fband bins 0 x < bins.getD 0 0) :
    discretizeF .f64 .f64 rc bins data = .error .csepException := by
  have hn := G.two_le
  have hs := G.increasing
  have hinc : bins.getD 0 0 ≤ bins.getD 1 0 := by
    rw [getD_eq_getElem bins (by omega : 0 < bins.length), getD_eq_getElem bins (by omega : 1 < bins.length)]
    exact (List.pairwise_iff_getElem.mp hs 0 1 (by omega) (by omega) (by omega)).le
  rw [(discretize_rejects_outside .f64 .f64 rc bins data hn hinc).1]
  refine ⟨x, hx, ?_⟩
  obtain ⟨c1, _, _, _⟩ := bin1dF_cases rc G P
  have hKr := binIdeal_range bins x
  have hb := fband_nonneg bins 0 x le_rfl G.step_pos.le
  have hK : binIdeal bins x = -1 := by
    have : ¬ ((0 : ℕ) : ℤ) ≤ binIdeal bins x := by
      rw [← edge_le_iff hs x (by omega : 0 < bins.length)]
      linarith
    push_cast at this
    omega
  rcases c1 (by omega) with h | ⟨_, hband⟩
  · show bin1dF (cfg64 rc) bins x = -1
    omega
  · exfalso
    rw [hK] at hband
    have e : (-1 : ℤ) + 1 = 0 := rfl
    rw [e] at hband
    simp only [Int.cast_zero, zero_mul, add_zero] at hband
    linarith

/-- … and in closed mode so does a value at or above the upper edge `fl(bins[-1] + h)` of the last bin. -/
theorem discretize_rejects_at_top {bins : List ℚ} (G : RegularF64Grid bins) (data : List ℚ) {x : ℚ}
    (hx : x ∈ data) (P : PointOK bins x) (htop : top64 bins ≤ x) :
    discretizeF .f64 .f64 false bins data = .error .csepException := by
  have hn := G.two_le
  have hs := G.increasing
  have hhpos := G.step_pos
  have hinc : bins.getD 0 0 ≤ bins.getD 1 0 := by
    rw [getD_eq_getElem bins (by omega : 0 < bins.length), getD_eq_getElem bins (by omega : 1 < bins.length)]
    exact (List.pairwise_iff_getElem.mp hs 0 1 (by omega) (by omega) (by omega)).le
  rw [(discretize_rejects_outside .f64 .f64 false bins data hn hinc).1]
  refine ⟨x, hx, ?_⟩
  obtain ⟨_, _, c3, _⟩ := bin1dF_cases false G P
  have hKr := binIdeal_range bins x
  have hlast : bins.getD (bins.length - 1) 0 ≤ top64 bins := by
    apply top_ge_last (fun j => bins.getD j 0) _ hhpos.le
    have hl : bins.length - 1 < bins.length := by omega
    show fl64 (bins.getD (bins.length - 1) 0) = bins.getD (bins.length - 1) 0
    rw [getD_eq_getElem bins hl]
    exact G.floats _ (List.getElem_mem hl)
  have hK := (edge_le_iff hs x (j := bins.length - 1) (by omega)).1 (le_trans hlast htop)
  exact c3 (by omega) rfl htop

example := discretize_rejects_below_first true witnessBins_regular [50, 5] (x := 5) (by simp)
  ⟨by decide +kernel, by decide +kernel⟩ (by decide +kernel)

example := discretize_rejects_at_top witnessBins_regular [50, 143] (x := 143) (by simp)
  ⟨by decide +kernel, by decide +kernel⟩ (by decide +kernel)

end Bin1d
