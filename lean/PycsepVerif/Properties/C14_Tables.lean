import PycsepVerif.Generated

/-! C14 — the CSV header written by `write_ascii` (re-extracted on every run) names the columns in the order the
reader `csep_ascii` consumes them: line[0]=lon, [1]=lat, [2]=magnitude, [3]=time string, [4]=depth, [5]=catalog id,
[6]=event id. -/
namespace C14Tables

def readerColumns : List String := ["lon", "lat", "mag", "time_string", "depth", "catalog_id", "event_id"]

theorem header_matches_reader : Generated.asciiHeader = readerColumns := by decide

/-- the header's first field is what `is_header_line` tests for -/
theorem header_detected : Generated.asciiHeader.head? = some "lon" := by decide

end C14Tables
