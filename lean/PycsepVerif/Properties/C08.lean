import PycsepVerif.Proofs.PairedTests
import PycsepVerif.Proofs.Soft64
import PycsepVerif.Proofs.PairedTies

/-!
# C08 — paired T- and W-tests follow Rhoades et al. (2011) and are antisymmetric

Theorems about `Model/PairedTests.lean`. T-test: the real instance (`rA rB` = per-event target rates of the two
forecasts, `N` = number of observed events, `NA NB` = forecast totals, `tcrit` = Student-t quantile, the same for both
orders because it depends on alpha and N only). W-test: exact rational layer; `d` = the differences `x − m`.
-/
namespace PairedTests

/-- the information gain is [Σ_i (ln rate_A(i) − ln rate_B(i)) − (N_A − N_B)] / N  (Eq. 17) -/
theorem ig_formula (rA rB : List ℝ) (N NA NB : ℝ) :
    infoGain rA rB N NA NB = ((List.zipWith (fun a b => Real.log a - Real.log b) rA rB).sum - (NA - NB)) / N := by
  simp [infoGain, logDiffs, RealOps.real_sum]

/-- Eq. 18 as coded is the unbiased sample variance (1/(N−1)) Σ (x_i − x̄)² of the log-rate differences -/
theorem var_eq_sample_variance (rA rB : List ℝ) (hN : 2 ≤ (logDiffs rA rB).length) :
    let X := logDiffs rA rB
    let N : ℝ := (X.length : ℝ)
    variance rA rB N = (X.map (fun x => (x - X.sum / N) ^ 2)).sum / (N - 1) := by
  intro X N
  have hN2 : (2 : ℝ) ≤ N := by
    show (2 : ℝ) ≤ ((logDiffs rA rB).length : ℝ)
    exact_mod_cast hN
  have h0 : N ≠ 0 := by linarith
  have h1 : N - 1 ≠ 0 := by linarith
  rw [sum_sq_dev]
  simp only [variance, RealOps.real_sum, RealOps.real_sub, RealOps.real_div, RealOps.real_mul, RealOps.real_one]
  show (X.map sq).sum / (N - 1) - X.sum * X.sum / (N * N - N) = _
  have h2 : N * N - N ≠ 0 := by
    have : N * N - N = N * (N - 1) := by ring
    rw [this]; exact mul_ne_zero h0 h1
  field_simp
  ring

/-- swapping the two forecasts negates the information gain -/
theorem ig_antisymm (rA rB : List ℝ) (N NA NB : ℝ) :
    infoGain rB rA N NB NA = -infoGain rA rB N NA NB := by
  simp only [infoGain, logDiffs_swap rA rB, RealOps.real_sum, sum_map_neg, RealOps.real_sub, RealOps.real_div]
  ring

/-- ... leaves the variance unchanged -/
theorem var_symm (rA rB : List ℝ) (N : ℝ) : variance rB rA N = variance rA rB N := by
  simp only [variance, logDiffs_swap rA rB, RealOps.real_sum, sum_map_neg, map_sq_map_neg, RealOps.real_mul]
  ring_nf

/-- ... negates the t statistic -/
theorem t_antisymm (rA rB : List ℝ) (N NA NB : ℝ) :
    tStat rB rA N NB NA = -tStat rA rB N NA NB := by
  simp only [tStat, ig_antisymm rA rB, var_symm rA rB, RealOps.real_div]
  ring

/-- ... and mirrors the confidence interval: (lower, upper) ↦ (−upper, −lower) -/
theorem ci_mirror (rA rB : List ℝ) (N NA NB tcrit : ℝ) :
    igLower rB rA N NB NA tcrit = -igUpper rA rB N NA NB tcrit ∧
    igUpper rB rA N NB NA tcrit = -igLower rA rB N NA NB tcrit := by
  simp only [igLower, igUpper, ig_antisymm rA rB, var_symm rA rB, RealOps.real_sub, RealOps.real_add]
  constructor <;> ring

/-- the whole result of the T-test under a swap -/
theorem t_test_swap (rA rB : List ℝ) (N : ℕ) (NA NB tcrit : ℝ) :
    let a := tTest rA rB N NA NB tcrit
    let b := tTest rB rA N NB NA tcrit
    b.ig = -a.ig ∧ b.t = -a.t ∧ b.lower = -a.upper ∧ b.upper = -a.lower ∧ b.var = a.var := by
  simp only [tTest]
  exact ⟨ig_antisymm _ _ _ _ _, t_antisymm _ _ _ _ _, (ci_mirror _ _ _ _ _ _).1, (ci_mirror _ _ _ _ _ _).2,
    var_symm _ _ _⟩

/-- a forecast compared with itself has zero information gain -/
theorem ig_self_zero (r : List ℝ) (N NA : ℝ) : infoGain r r N NA NA = 0 := by
  simp only [infoGain, RealOps.real_sum, sum_eq_zero_of_all_zero _ (logDiffs_self r), RealOps.real_sub,
    RealOps.real_div]
  simp

/-- t = gain · √N / s -/
theorem t_formula (rA rB : List ℝ) (N NA NB : ℝ) :
    tStat rA rB N NA NB = infoGain rA rB N NA NB * Real.sqrt N / Real.sqrt (variance rA rB N) := by
  simp only [tStat, RealOps.real_div, RealOps.real_sqrt]
  rw [div_div_eq_mul_div]

/-- the interval is centred on the gain with half-width t_crit · s / √N -/
theorem ci_centered (rA rB : List ℝ) (N NA NB tcrit : ℝ) :
    igLower rA rB N NA NB tcrit + igUpper rA rB N NA NB tcrit = 2 * infoGain rA rB N NA NB ∧
    igUpper rA rB N NA NB tcrit - igLower rA rB N NA NB tcrit
      = 2 * (tcrit * Real.sqrt (variance rA rB N) / Real.sqrt N) := by
  simp only [igLower, igUpper, RealOps.real_sub, RealOps.real_add, RealOps.real_div, RealOps.real_mul,
    RealOps.real_sqrt]
  constructor <;> ring

/-- the decision rule of the paper: t exceeds the critical value exactly when the whole interval is above zero -/
theorem t_gt_crit_iff_lower_pos (rA rB : List ℝ) (N NA NB tcrit : ℝ) (hN : 0 < N) (hv : 0 < variance rA rB N) :
    tcrit < tStat rA rB N NA NB ↔ 0 < igLower rA rB N NA NB tcrit := by
  have hs : 0 < Real.sqrt (variance rA rB N) := Real.sqrt_pos.mpr hv
  have hn : 0 < Real.sqrt N := Real.sqrt_pos.mpr hN
  have hq : 0 < Real.sqrt (variance rA rB N) / Real.sqrt N := div_pos hs hn
  simp only [tStat, igLower, RealOps.real_sub, RealOps.real_div, RealOps.real_mul, RealOps.real_sqrt]
  rw [lt_div_iff₀ hq, mul_div_assoc]
  constructor <;> intro h <;> linarith

/-! ### W-test -/

/-- Σ ranks = c(c+1)/2 for every list, ties included (stated doubled: Σ 2·rank = c(c+1)) -/
theorem rank_sum (l : List Rat) : (l.map (rank2 l)).sum = l.length * (l.length + 1) := sum_rank2 l

/-- r_plus + r_minus = c(c+1)/2 on the zero-free differences -/
theorem rplus_add_rminus (d0 : List Rat) :
    rPlus2 (removeZeros d0) + rMinus2 (removeZeros d0) = (wStatsD d0).count * ((wStatsD d0).count + 1) :=
  rPlus2_add_rMinus2 _ mem_removeZeros

/-- T = min(r_plus, r_minus) never exceeds the null mean mn = c(c+1)/4, so z ≤ 0 -/
theorem w_T_le_mn (d0 : List Rat) : 2 * (wStatsD d0).t2 ≤ (wStatsD d0).mn4 := by
  have h := rplus_add_rminus d0
  simp only [wStatsD] at h ⊢
  omega

/-- with at least one difference distinct from the null median the tie-corrected variance term is positive, so
    z = (T − mn)/sqrt(se/24) is a finite number (the W-test returns a result) -/
theorem w_se_pos (d0 : List Rat) (h : 1 ≤ (wStatsD d0).count) : 0 < (wStatsD d0).se24 := se24_pos d0 h

/-- ... and z ≤ 0, because T is the smaller rank sum -/
theorem w_z_nonpos (d0 : List Rat) (h : 1 ≤ (wStatsD d0).count) :
    wZ (((wStatsD d0).t2 : ℝ) / 2) (((wStatsD d0).mn4 : ℝ) / 4) (((wStatsD d0).se24 : ℚ) : ℝ) ≤ 0 := by
  have hse : (0 : ℝ) < (((wStatsD d0).se24 : ℚ) : ℝ) := by exact_mod_cast w_se_pos d0 h
  have hT : (2 : ℝ) * ((wStatsD d0).t2 : ℝ) ≤ ((wStatsD d0).mn4 : ℝ) := by exact_mod_cast w_T_le_mn d0
  simp only [wZ, RealOps.real_div, RealOps.real_sub, RealOps.real_sqrt, RealOps.real_ofNat]
  apply div_nonpos_of_nonpos_of_nonneg
  · linarith
  · exact Real.sqrt_nonneg _

/-- negating every difference (d ↦ −d: swap of the forecasts, which negates x and m) leaves count, T, mn and the
    tie-corrected variance term unchanged; z and p are functions of these -/
theorem w_swap_invariant (d : List Rat) : wStatsD (d.map (fun a => -a)) = wStatsD d := by
  unfold wStatsD
  simp only [removeZeros_map_neg, List.length_map, rPlus2_map_neg, rMinus2_map_neg, map_absQ_map_neg]
  rw [Nat.min_comm]

/-- the same at the level of the code's inputs: the swap turns x = X1 − X2 into −x and m = (N1 − N2)/N into −m
    (both exactly, in float64), and the float subtraction d = x − m commutes with the sign -/
theorem w_swap_invariant_xm (x : List Rat) (m : Rat) : wStats (x.map (fun a => -a)) (-m) = wStats x m := by
  unfold wStats
  have : (x.map (fun a => -a)).map (fun a => Soft64.fsub a (-m)) = (x.map (fun a => Soft64.fsub a m)).map (fun a => -a) := by
    simp only [List.map_map, Function.comp_def]
    apply List.map_congr_left
    intro a _
    unfold Soft64.fsub
    rw [← Soft64.fl64_neg]; congr 1; ring
  rw [this, w_swap_invariant]

/-- p = 2·sf(|z|) lies in [0,1] whenever sf maps [0,∞) into [0, 1/2] (true of the normal survival function) -/
theorem w_p_bounds (sf : ℝ → ℝ) (hsf : ∀ x, 0 ≤ x → 0 ≤ sf x ∧ sf x ≤ 1 / 2) (z : ℝ) :
    0 ≤ wP sf z ∧ wP sf z ≤ 1 := by
  have habs : 0 ≤ absR z := by
    unfold absR; simp only [RealOps.real_lt, RealOps.real_zero, RealOps.real_neg, decide_eq_true_eq]
    split <;> linarith
  obtain ⟨h0, h1⟩ := hsf _ habs
  simp only [wP, RealOps.real_mul, RealOps.real_ofNat]
  constructor <;> push_cast <;> linarith

/-- z and p depend on the data only through the swap-invariant statistics -/
theorem w_zp_swap_invariant (sf : ℝ → ℝ) (d : List Rat) :
    let s := wStatsD d
    let s' := wStatsD (d.map (fun a => -a))
    let z := fun (w : WStats) => wZ ((w.t2 : ℝ) / 2) ((w.mn4 : ℝ) / 4) ((w.se24 : ℚ) : ℝ)
    z s' = z s ∧ wP sf (z s') = wP sf (z s) := by
  simp only [w_swap_invariant d, and_self]

/-! ### binary (active-bin) variant -/

/-- the binary variant is the T formulas on the distinct active bins, N = their number; the active bins are exactly
    the bins holding at least one event, each listed once -/
theorem active_bin_variant (dataA dataB : ℕ → ℝ) (nb : ℕ) (ev : List ℕ) (NA NB tcrit : ℝ) :
    binaryT dataA dataB nb ev NA NB tcrit
      = tTest ((activeBins nb ev).map dataA) ((activeBins nb ev).map dataB) (activeBins nb ev).length NA NB tcrit
    ∧ (activeBins nb ev).Nodup
    ∧ ∀ i, i ∈ activeBins nb ev ↔ (i < nb ∧ i ∈ ev) := by
  refine ⟨rfl, List.Nodup.filter _ List.nodup_range, ?_⟩
  intro i
  simp [activeBins, List.count_eq_zero]

-- non-vacuity
example : infoGain [2, 3] [1, 1] 2 5 4 = (Real.log 2 + Real.log 3 - 1) / 2 := by
  rw [ig_formula]; simp; ring
example : (wStatsD [3, -1, 0, 1, -3, 3]).count = 5 ∧ (wStatsD [3, -1, 0, 1, -3, 3]).t2 = 11 ∧
    (wStatsD [3, -1, 0, 1, -3, 3]).se24 = 5 * 6 * 11 - (6 + 24) / 2 := by decide +kernel
example : activeBins 6 [4, 1, 4, 4] = [1, 4] := by decide

end PairedTests
