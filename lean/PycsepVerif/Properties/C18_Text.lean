import PycsepVerif.Proofs.JsonText
import PycsepVerif.Proofs.JsonTree
import PycsepVerif.Model.JsonFloat
/-!
  C18, JSON TEXT layer: what `FileSystem.save` writes (`json.dump(..., indent=4, separators=(',', ': '), sort_keys=True)`) is read
  back by `FileSystem.load` (`json.load`) as the same tree — for ALL trees (mutual structural induction, no size bound).

  Floats: `FloatsOK ft j` says that every FINITE float leaf `b` of `j` satisfies the two COMPUTABLE facts `floatOkB ft b`
  (NUMBER_RE cuts out exactly the numeral `reprF b` and sees a fraction or an exponent; `readF (reprF b) = b`).  For the
  executable instance `pyFloatText` (Python's shortest repr + correctly rounded `float()`, `Model/JsonFloat.lean`) the facts are
  evaluated by the kernel for the listed doubles below and by the driver (`c18_text_floatok`) for every double the
  correspondence meets; they are NOT proved for all doubles here:
    -- full statement (stage 2, open):  ∀ b, finiteBits b = true → floatOkB pyFloatText b = true
  Trees without finite float leaves (ints, strings, bools, null, NaN, ±Infinity, any nesting) need no hypothesis at all
  (`parse_render_nofloat`).
-/
namespace JsonText
open JsonTree
open ResultJson (F64)

/-- a float reader/writer that is never consulted (examples without finite floats) -/
def noFloatText : FloatText := { reprF := fun _ => [], readF := fun _ => none }

/-! ## the round trip -/

/-- the text of ANY tree, members in the order given, parses to exactly that tree -/
theorem parse_renderRaw (ft : FloatText) (j : JVal) (hf : FloatsOK ft j) : parse ft (renderRaw ft j) = some j :=
  parse_renderAt ft pyLayout pyLayout_ws j hf

/-- what `json.dump(tree, indent=4, separators=(',', ': '), sort_keys=True)` writes is loaded as the tree with the members of
    every object sorted by name — in particular as a tree with the same members -/
theorem parse_render (ft : FloatText) (j : JVal) (hf : FloatsOK ft j) : parse ft (render ft j) = some (sortTree j) :=
  parse_renderRaw ft (sortTree j) (floatsOK_sortTree ft j hf)

example : FloatsOK pyFloatText (.obj (.cons "b" (.float (.num 4591870180066957722)) (.cons "a" (.float .nan) .nil))) :=
  ⟨Or.inr (Or.inr (by decide +kernel)), trivial, trivial⟩

/-- the indentation is irrelevant: the text of the tree in any layout that only inserts JSON whitespace is loaded alike -/
theorem whitespace_irrelevant (ft : FloatText) (lay : Layout) (hl : lay.WS) (j : JVal) (hf : FloatsOK ft j) :
    parse ft (renderAt ft lay 0 (sortTree j)) = parse ft (render ft j) := by
  rw [parse_render ft j hf, parse_renderAt ft lay hl _ (floatsOK_sortTree ft j hf)]

theorem compact_same (ft : FloatText) (j : JVal) (hf : FloatsOK ft j) :
    parse ft (renderCompact ft j) = parse ft (render ft j) := whitespace_irrelevant ft compactLayout compactLayout_ws j hf

example : pyLayout.WS ∧ compactLayout.WS := ⟨pyLayout_ws, compactLayout_ws⟩

mutual
  /-- no finite float leaf: ints, strings, booleans, null, NaN, ±Infinity, arrays and objects of these -/
  def NoFiniteFloat : JVal → Prop
    | .float (.num b) => b = posInfBits ∨ b = negInfBits
    | .arr xs => NoFiniteFloatL xs
    | .obj ms => NoFiniteFloatM ms
    | _ => True
  def NoFiniteFloatL : JList → Prop
    | .nil => True
    | .cons v vs => NoFiniteFloat v ∧ NoFiniteFloatL vs
  def NoFiniteFloatM : JKVs → Prop
    | .nil => True
    | .cons _ v ms => NoFiniteFloat v ∧ NoFiniteFloatM ms
end

mutual
  theorem floatsOK_of_noFinite (ft : FloatText) : ∀ j : JVal, NoFiniteFloat j → FloatsOK ft j
    | .null, _ | .bool _, _ | .int _, _ | .str _, _ | .float .nan, _ => trivial
    | .float (.num b), h => by
        simp only [NoFiniteFloat] at h
        rcases h with h | h
        · exact Or.inl h
        · exact Or.inr (Or.inl h)
    | .arr xs, h => floatsOK_of_noFiniteL ft xs h
    | .obj ms, h => floatsOK_of_noFiniteM ft ms h
  theorem floatsOK_of_noFiniteL (ft : FloatText) : ∀ xs : JList, NoFiniteFloatL xs → FloatsOKL ft xs
    | .nil, _ => trivial
    | .cons v vs, h => ⟨floatsOK_of_noFinite ft v h.1, floatsOK_of_noFiniteL ft vs h.2⟩
  theorem floatsOK_of_noFiniteM (ft : FloatText) : ∀ ms : JKVs, NoFiniteFloatM ms → FloatsOKM ft ms
    | .nil, _ => trivial
    | .cons _ v ms, h => ⟨floatsOK_of_noFinite ft v h.1, floatsOK_of_noFiniteM ft ms h.2⟩
end

/-- unconditional round trip for every tree without finite floats, whatever `float.__repr__` / `float()` do -/
theorem parse_render_nofloat (ft : FloatText) (j : JVal) (h : NoFiniteFloat j) : parse ft (render ft j) = some (sortTree j) :=
  parse_render ft j (floatsOK_of_noFinite ft j h)

example : NoFiniteFloat (.arr (.cons (.int (-5)) (.cons (.str "µ\n\"") (.cons (.float (.num posInfBits)) (.cons (.obj .nil) .nil))))) :=
  ⟨trivial, trivial, Or.inl rfl, trivial, trivial⟩

/-! ## tie to the tree layer (`Model/JsonTree.lean`, `Properties/C18_Tree.lean`) -/

/-- loading the file written for a tree without duplicate names gives the value `JsonTree.decode` gives, with the entries of
    every dict in sorted order (the canonical form in which harness and driver compare loaded values; Python's dict
    equality ignores the order) -/
theorem decode_parse_render (ft : FloatText) (j : JVal) (hf : FloatsOK ft j) (hn : NoDup j) :
    loadText ft (render ft j) = some (sortPy (decode j)) := by
  simp [loadText, parse_render ft j hf, decode_sortTree j hn]

/-- … in particular for the tree written from safe data: the loaded value is the normal form of the data (entries sorted) -/
theorem load_render_safe (ft : FloatText) (v : PyObj) (hs : Safe v) (j : JVal) (hj : encode v = some j) (hf : FloatsOK ft j) :
    loadText ft (render ft j) = some (sortPy (norm v)) := by
  obtain ⟨j', h1, h2, h3⟩ := rt_safe v hs
  have : j' = j := by rw [h1] at hj; exact Option.some.inj hj
  subst this
  rw [decode_parse_render ft j' hf h3, h2]

example : Safe (.dict (.cons (.kstr "b") (.npInt64 4) (.cons (.kstr "a") (.tuple (.cons (.str "x") .nil)) .nil))) := by
  simp [Safe, SafeKVs, SafeL, Key.isStr, PyKVs.hasKey]

/-- the whole file round trip as the driver runs it: the text `FileSystem.save v` leaves, loaded again, is the tree-layer
    round trip of the value whose dict entries are in `sorted(dct.items())` order -/
theorem load_save (ft : FloatText) (v : PyObj) (j : JVal) (hj : encode (sortPy v) = some j) (hf : FloatsOK ft j) :
    (saveText ft v).bind (loadText ft) = roundTrip (sortPy v) := by
  simp [saveText, loadText, roundTrip, hj, parse_renderRaw ft j hf]

/-! ## tokens -/

/-- EVERY string — control characters, quotes, backslashes, DEL, non-ASCII and astral characters — is read back, whatever
    follows the closing quote.  (A lone surrogate cannot occur: a Lean `Char` is a Unicode scalar value.  A Python str can
    hold one; `json.dump` writes it as `\udXXX` and `json.load` reads that back as the lone surrogate — outside the model.) -/
theorem string_roundtrip (s rest : List Char) : parseString (renderString s ++ rest) = some (s, rest) :=
  parseString_renderString s rest

/-- every int (negative, zero, arbitrarily large) is a complete NUMBER_RE match without fraction / exponent and `int()` of it
    is the int -/
theorem int_roundtrip (ft : FloatText) (n : Int) :
    scanNumber (renderInt n) = some (renderInt n, false, []) ∧ readInt (renderInt n) = n ∧
      parse ft (renderRaw ft (.int n)) = some (.int n) :=
  ⟨scanNumber_renderInt n, readInt_renderInt n, parse_renderRaw ft _ trivial⟩

/-- `NaN`, `Infinity`, `-Infinity` are written for the non-finite doubles and come back as NaN, +inf, −inf -/
theorem nonfinite_tokens (ft : FloatText) :
    renderRaw ft (.float .nan) = tNaN ∧ renderRaw ft (.float (.num posInfBits)) = tInf ∧
      renderRaw ft (.float (.num negInfBits)) = tNegInf ∧
      parse ft tNaN = some (.float .nan) ∧ parse ft tInf = some (.float (.num posInfBits)) ∧
      parse ft tNegInf = some (.float (.num negInfBits)) := by
  refine ⟨rfl, rfl, rfl, ?_, ?_, ?_⟩
  · exact parse_renderRaw ft (.float .nan) trivial
  · exact parse_renderRaw ft (.float (.num posInfBits)) (Or.inl rfl)
  · exact parse_renderRaw ft (.float (.num negInfBits)) (Or.inr (Or.inl rfl))

/-- the written file is pure ASCII: every character is printable (`' '..'~'`) or a newline — so the bytes of the file do not
    depend on the encoding `open(url, 'w')` picks, and no line-ending translation other than that of `\n` can occur -/
theorem render_ascii (ft : FloatText) (j : JVal) (hf : FloatsOK ft j) :
    ∀ c ∈ render ft j, c = '\n' ∨ (32 ≤ c.toNat ∧ c.toNat ≤ 126) :=
  renderAt_ok ft (sortTree j) 0 (floatsOK_sortTree ft j hf)

/-- the numeral of a float that satisfies `floatOkB` consists of the characters `0-9 - + . e E` only, starts with a digit or `-`
    and contains a fraction or an exponent -/
theorem float_numeral_alphabet (ft : FloatText) (b : Nat) (h : floatOkB ft b = true) :
    (∀ c ∈ ft.reprF b, NumChar c) ∧ (∃ c tl, ft.reprF b = c :: tl ∧ (isDigit c = true ∨ c = '-')) :=
  ⟨scanNumber_lex (floatOk_spec h).1, scanNumber_head (floatOk_spec h).1⟩

example : floatOkB pyFloatText 4591870180066957722 = true := by decide +kernel

/-! ## kernel-checked instances and negative facts -/

/-- the exact characters of a small file -/
example : render noFloatText (.obj (.cons "b" (.arr (.cons (.int 1) (.cons .null .nil))) (.cons "a" (.str "é\n😀") (.cons "" (.obj .nil) .nil))))
    = "{\n    \"\": {},\n    \"a\": \"\\u00e9\\n\\ud83d\\ude00\",\n    \"b\": [\n        1,\n        null\n    ]\n}".toList := by
  decide +kernel

/-- Python's shortest repr, both notations, the sign of zero, the largest and the smallest double -/
example : [pyReprF 4591870180066957722, pyReprF 0, pyReprF 9223372036854775808, pyReprF 1, pyReprF 9218868437227405311,
      pyReprF 4846369599423283200, pyReprF 4851623199050653696, pyReprF 4547007122018943789, pyReprF 4532020583610935537,
      pyReprF 4831355200913801216, pyReprF 4817745636528479846]
    = ["0.1".toList, "0.0".toList, "-0.0".toList, "5e-324".toList, "1.7976931348623157e+308".toList,
       "1e+16".toList, "2.3e+16".toList, "0.0001".toList, "1e-05".toList, "1000000000000000.0".toList,
       "123456789012345.6".toList] := by decide +kernel

/-- the two hypotheses of the round trip hold for these doubles (0.1, smallest subnormal, largest double, −0.0, 1e16, 1e22,
    123456789012345.6) -/
example : ([4591870180066957722, 1, 9218868437227405311, 9223372036854775808, 4846369599423283200, 4936209963552724370,
      4817745636528479846].all (floatOkB pyFloatText)) = true := by decide +kernel

/-- duplicate member names in a TEXT: `parse` keeps every member in file order (`pairs`), … -/
example : (parse noFloatText "{\"a\": 1, \"b\": 2, \"a\": 3}".toList).map (renderAt noFloatText compactLayout 0)
    = some "{\"a\":1,\"b\":2,\"a\":3}".toList := by decide +kernel

/-- … and `dict(pairs)` (`JsonTree.decode`) lets the last one win: saving the loaded value gives a two-member file -/
example : ((loadText noFloatText "{\"a\": 1, \"b\": 2, \"a\": 3}".toList).bind (saveText noFloatText)).map
      (fun t => (parse noFloatText t).map (renderAt noFloatText compactLayout 0))
    = some (some "{\"a\":3,\"b\":2}".toList) := by decide +kernel

/-- a truncated file does not load: NO strict prefix of this file (object, array, string with escapes, numbers) parses -/
example : ∀ n, n < 82 →
    (parse noFloatText ((render noFloatText (.obj (.cons "k" (.arr (.cons (.int (-12)) (.cons (.str "a\"\\é") (.cons (.obj .nil) .nil))))
      (.cons "m" (.bool true) .nil)))).take n)).isNone = true := by decide +kernel

example : (render noFloatText (.obj (.cons "k" (.arr (.cons (.int (-12)) (.cons (.str "a\"\\é") (.cons (.obj .nil) .nil))))
      (.cons "m" (.bool true) .nil)))).length = 82 := by decide +kernel

/-- other texts json.load accepts or refuses: exponent notations, `-0`, upper-case escapes, extra data, leading zeros,
    a lone point, raw control characters, single quotes, trailing commas -/
example : (["1E5", "-0", "1.0e+2", " [ ] ", "\"\\u00E9\\/\"", "01", "1.", "1 2", "\"a\nb\"", "'a'", "[1,]", "{\"a\":1,}", "", "nul",
      "-Infinity", "-Inf", "\"\\ud800\""].map (fun s => (parse pyFloatText s.toList).isSome))
    = [true, true, true, true, true, false, false, false, false, false, false, false, false, false, true, false, false] := by
  decide +kernel

end JsonText
