import PycsepVerif.Properties.C06
import PycsepVerif.Model.SamplerExt
import PycsepVerif.Proofs.SamplerExt

/-!
# C06, round 4 — the simulated array entry by entry, whole tests, termination of the rejection loop

* `simulate_is_bincount`, `simulate_entry_interval`: entry k of a simulated catalog is the number of draws inside
  `[F_(k-1), F_k)` — the property's "each event placed in the bin whose cumulative-rate interval contains its uniform
  random number" for the ARRAY the code returns (round 1 had it for `searchsorted` only and, for the array, only the total).
* `injected_test_total`: a conditional test with injected numbers in [0,1) never raises (discharges the hypothesis
  `testInjected … = some …` of `injected_result_is_function`).
* `binary_sim_terminates_iff`: the rejection loop finishes within a stream of uniforms **iff** the stream hits at least N
  distinct cells (planned in DESIGN §4, absent so far; D10 / D10b are its "only if" direction).
* `binary_test_prescribed_count`, `poisson_test_prescribed_count`: the whole array-level tests, the prescribed number
  (`len(unique(nonzero(obs)))`, `sum(obs)`) computed by the model.
-/
namespace Sampler
open Soft64

/-- **the simulated array is the bincount of the placements** -/
theorem simulate_is_bincount (ws : List Rat) (draws : List Rat) (arr : List Nat) (h : simulate ws draws = some arr)
    (k : Nat) : arr.getD k 0 = (placements ws draws).count k := by
  have := simulateFrom_entry ws draws _ arr h k
  rw [getD_replicate_zero] at this
  omega

/-- **entry k counts the draws inside [F_(k-1), F_k)**: on non-decreasing weights, for draws ≥ 0 -/
theorem simulate_entry_interval (ws : List Rat) (hs : ws.Pairwise (· ≤ ·)) (draws : List Rat)
    (hd : ∀ r ∈ draws, 0 ≤ r) (arr : List Nat) (h : simulate ws draws = some arr) (k : Nat) (hk : k < ws.length) :
    arr.getD k 0 = draws.countP (fun r => decide (prevW ws k ≤ r ∧ r < ws.getD k 0)) := by
  rw [simulate_is_bincount ws draws arr h k]
  unfold placements
  rw [List.count_eq_countP, List.countP_map]
  apply List.countP_congr
  intro r hr
  simp only [Function.comp, beq_iff_eq, decide_eq_true_eq]
  exact place_iff ws hs r (hd r hr) k hk

/-- the same for the float weights of a forecast (non-negative rates) -/
theorem simulate_entry_interval_weights (rates : List Rat) (hnn : ∀ x ∈ rates, 0 ≤ x) (draws : List Rat)
    (hd : ∀ r ∈ draws, 0 ≤ r) (arr : List Nat) (h : simulate (weights rates) draws = some arr) (k : Nat)
    (hk : k < rates.length) :
    arr.getD k 0 = draws.countP (fun r => decide (prevW (weights rates) k ≤ r ∧ r < (weights rates).getD k 0)) :=
  simulate_entry_interval _ (weights_monotone rates hnn) draws hd arr h k (by rw [weights_length]; exact hk)

/-- a simulated catalog has no event in a zero-rate bin: the ARRAY entry is 0 (round 1: the placement list) -/
theorem simulated_array_zero_in_zero_rate_bin (rates : List Rat) (hnn : ∀ x ∈ rates, 0 ≤ x) (draws : List Rat)
    (hd : ∀ r ∈ draws, 0 ≤ r) (arr : List Nat) (h : simulate (weights rates) draws = some arr) (k : Nat)
    (hk : k < rates.length) (hz : rates.getD k 0 = 0) : arr.getD k 0 = 0 := by
  rw [simulate_is_bincount _ draws arr h k]
  exact simulated_zero_in_zero_rate_bin rates hnn draws hd k hk hz

/-- **a conditional test with injected numbers never raises**: valid rates, every row has `n` numbers, all < 1 -/
theorem injected_test_total (rates : List Rat) (hv : ValidRates rates) (n : Nat) (rows : List (List Rat))
    (hrows : ∀ row ∈ rows, row.length = n ∧ ∀ r ∈ row, r < 1) :
    ∃ arrs, simRows (weights rates) n rows = some arrs ∧ arrs.length = rows.length ∧
      ∀ arr ∈ arrs, arr.sum = n ∧ arr.length = rates.length := by
  induction rows with
  | nil => exact ⟨[], rfl, rfl, by simp⟩
  | cons row rows ih =>
    obtain ⟨arrs, h1, h2, h3⟩ := ih (fun r hr => hrows r (List.mem_cons_of_mem _ hr))
    obtain ⟨hlen, hlt⟩ := hrows row List.mem_cons_self
    obtain ⟨arr, ha, hsum, hl⟩ := simulate_total rates hv row hlt
    refine ⟨arr :: arrs, ?_, by simp [h2], ?_⟩
    · simp only [simRows, ha, countAssert, hsum, hlen, beq_self_eq_true, ↓reduceIte, h1, Option.map_some]
    · intro a ha'
      rcases List.mem_cons.mp ha' with rfl | ha''
      · exact ⟨by rw [hsum, hlen], hl⟩
      · exact h3 a ha''

/-- **conditional Poisson tests (CL, S, M)**: every simulated catalog has exactly `sum obs` events — the observed
    number — and the whole injected test returns for numbers in [0,1) -/
theorem poisson_test_prescribed_count (rates : List Rat) (hv : ValidRates rates) (obs : List Nat)
    (rows : List (List Rat)) (hrows : ∀ row ∈ rows, row.length = obs.sum ∧ ∀ r ∈ row, r < 1) :
    ∃ arrs, poissonTestInjected rates obs rows = some arrs ∧ arrs.length = rows.length ∧
      ∀ arr ∈ arrs, arr.sum = obs.sum ∧ arr.length = rates.length :=
  injected_test_total rates hv obs.sum rows hrows

/-- **the rejection loop finishes within the stream iff the stream hits at least N distinct cells.**
    (`searchRight … < length` for every draw: no IndexError — guaranteed for draws < 1 by `in_range`.) -/
theorem binary_sim_terminates_iff (ws : List Rat) (N : Nat) (stream : List Rat)
    (hin : ∀ r ∈ stream, searchRight ws r < ws.length) :
    (∃ arr rest, simulateBinary ws N stream = .done arr rest) ↔
      N ≤ ((Finset.range ws.length).filter (fun k => ∃ r ∈ stream, searchRight ws r = k)).card := by
  unfold simulateBinary
  have := rejLoop_done_iff ws N stream (List.replicate ws.length 0) 0 (by simpa using hin)
  rw [this]
  simp only [List.length_replicate, Nat.zero_add, newCells, getD_replicate_zero, true_and]

/-- otherwise it runs out of numbers (never an IndexError): the code would draw forever -/
theorem binary_sim_exhausted_iff (ws : List Rat) (N : Nat) (stream : List Rat)
    (hin : ∀ r ∈ stream, searchRight ws r < ws.length) :
    simulateBinary ws N stream = .exhausted ↔
      ((Finset.range ws.length).filter (fun k => ∃ r ∈ stream, searchRight ws r = k)).card < N := by
  rw [← not_le, ← binary_sim_terminates_iff ws N stream hin]
  have hne := rejLoop_no_indexError ws N stream (List.replicate ws.length 0) 0 (by simpa using hin)
  unfold simulateBinary
  cases h : rejLoop ws N (List.replicate ws.length 0) 0 stream with
  | done arr rest => simp
  | indexError => exact absurd h hne
  | exhausted => simp

/-- the cells hit by a stream, in terms of the cumulative intervals: cell k is hit iff some draw lies in [F_(k-1), F_k) -/
theorem hit_iff_draw_in_interval (ws : List Rat) (hs : ws.Pairwise (· ≤ ·)) (stream : List Rat)
    (hd : ∀ r ∈ stream, 0 ≤ r) (k : Nat) (hk : k < ws.length) :
    (∃ r ∈ stream, searchRight ws r = k) ↔ ∃ r ∈ stream, prevW ws k ≤ r ∧ r < ws.getD k 0 := by
  constructor
  · rintro ⟨r, hr, h⟩; exact ⟨r, hr, (place_iff ws hs r (hd r hr) k hk).mp h⟩
  · rintro ⟨r, hr, h⟩; exact ⟨r, hr, (place_iff ws hs r (hd r hr) k hk).mpr h⟩

/-- consecutive rejection-loop simulations on one stream: every finished simulation has the prescribed count -/
theorem testBinaryStream_spec (ws : List Rat) (N : Nat) : ∀ (nsim : Nat) (stream : List Rat) (arrs : List (List Nat)),
    testBinaryStream ws N nsim stream = some arrs →
      arrs.length = nsim ∧ ∀ arr ∈ arrs, IsBinary arr ∧ arr.sum = N ∧ arr.length = ws.length
  | 0, stream, arrs, h => by simp [testBinaryStream] at h; subst h; simp
  | k + 1, stream, arrs, h => by
    simp only [testBinaryStream] at h
    split at h
    · rename_i arr rest hdone
      cases hr : testBinaryStream ws N k rest with
      | none => rw [hr] at h; cases h
      | some tl =>
        rw [hr] at h
        simp only [Option.map_some, Option.some.injEq] at h
        subst h
        obtain ⟨h1, h2⟩ := testBinaryStream_spec ws N k rest tl hr
        refine ⟨by simp [h1], ?_⟩
        intro a ha
        rcases List.mem_cons.mp ha with rfl | ha'
        · have hspec := rejLoop_spec ws N stream _ 0 a rest hdone
            (by intro x hx; left; exact (List.mem_replicate.mp hx).2) (by simp) (Nat.zero_le _)
          exact ⟨hspec.1, hspec.2.1, by simpa using hspec.2.2.1⟩
        · exact h2 a ha'
    · cases h

/-- **binary / Brier tests**: every simulated catalog is a 0/1 array with exactly as many active cells as the OBSERVED
    catalog has (`len(unique(nonzero(observed_data)))`), on the forecast's shape -/
theorem binary_test_prescribed_count (rates : List Rat) (obs : List Nat) (nsim : Nat) (stream : List Rat)
    (arrs : List (List Nat)) (h : binaryTestStream rates obs nsim stream = some arrs) :
    arrs.length = nsim ∧
    ∀ arr ∈ arrs, IsBinary arr ∧ arr.countP (fun x => decide (0 < x)) = nActive obs ∧ arr.length = rates.length := by
  obtain ⟨h1, h2⟩ := testBinaryStream_spec _ _ nsim stream arrs h
  refine ⟨h1, ?_⟩
  intro a ha
  obtain ⟨hb, hs, hl⟩ := h2 a ha
  refine ⟨hb, by rw [countP_pos_eq_sum hb, hs], ?_⟩
  simpa [weightsMasked, weights_length, maskRates_length] using hl

/-! ### non-vacuity -/

-- weights 0, 1/4, 1/4, 1, 1: entry 3 counts the draws in [1/4, 1)
example : simulate (weights [0, 1, 0, 3, 0]) [0, 1/4, 1 - 1/2^53, 1/8] = some [0, 2, 0, 2, 0] := by decide +kernel
example : ([0, 1/4, 1 - 1/2^53, 1/8] : List Rat).countP
    (fun r => decide (prevW (weights [0, 1, 0, 3, 0]) 3 ≤ r ∧ r < (weights [0, 1, 0, 3, 0]).getD 3 0)) = 2 := by
  decide +kernel
-- a whole injected test on valid rates: two simulations of two events
example : poissonTestInjected [0, 1, 0, 3, 0] [0, 1, 0, 1, 0] [[0, 1/4], [1/8, 1 - 1/2^53]]
    = some [[0, 1, 0, 1, 0], [0, 1, 0, 1, 0]] := by decide +kernel
-- the stream 1/8, 1/5 hits one distinct cell of weights [0, 1/4, 1/4, 1, 1]: two active cells can not be reached,
-- three more numbers that all fall into cell 3 finish it
example : simulateBinary (weightsMasked [0, 1, 0, 3, 0]) 2 [1/8, 1/5] = .exhausted := by decide +kernel
example : simulateBinary (weightsMasked [0, 1, 0, 3, 0]) 2 [1/8, 1/5, 1/2, 3/4]
    = .done [0, 1, 0, 1, 0] [3/4] := by decide +kernel
-- two observed active cells (counts 2 and 1), two simulations on one stream
example : binaryTestStream [0, 1, 0, 3, 0] [0, 2, 0, 1, 0] 2 [1/8, 1/5, 1/2, 3/4, 0]
    = some [[0, 1, 0, 1, 0], [0, 1, 0, 1, 0]] := by decide +kernel
example : nActive [0, 2, 0, 1, 0] = 2 := by decide

end Sampler
