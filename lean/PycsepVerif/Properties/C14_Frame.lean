import PycsepVerif.Model.FrameColumns
import PycsepVerif.Proofs.Persist
import Mathlib.Data.List.Perm.Basic

/-!
# C14 (DataFrame) with named columns: `from_dataframe` selects by name

`frame_columns_roundtrip`: whatever further columns `to_dataframe` adds (with_datetime, region_id, mag_id) and whatever their
cells are, `from_dataframe(to_dataframe(cat))` has the events and — for a non-empty catalog — the catalog id.
`frame_column_order_irrelevant`: re-ordering the columns of a frame (each row permuted, column names distinct) changes
nothing; `frame_extra_column_irrelevant`: neither does a further column, wherever it is inserted;
`frame_without_catalog_id`: without the `catalog_id` column the events still load, the id is `None` (the KeyError branch).
-/
namespace FrameColumns
open Persist

theorem eventOfRow_rowOfEvent (cid : Option Int) (e : Event) (extra : FRow) (h : e.id.length ≤ 256) :
    eventOfRow (rowOfEvent cid e extra) = .ok e := by
  obtain ⟨i, ms, lat, lon, dep, mag⟩ := e
  simp only at h
  simp [eventOfRow, rowOfEvent, strCell, intCell, fltCell, cellOf, List.lookup, storeId_of_le h, bind, Except.bind, pure,
    Except.pure]

theorem mapM_rows (cid : Option Int) (evs : List Event) (extras : Nat → FRow) (h : ∀ e ∈ evs, e.id.length ≤ 256)
    (k0 : Nat) :
    ((List.range' k0 evs.length).zipWith (fun k e => rowOfEvent cid e (extras k)) evs).mapM eventOfRow = .ok evs := by
  induction evs generalizing k0 with
  | nil => rfl
  | cons e es ih =>
    have := ih (fun x hx => h x (List.mem_cons_of_mem _ hx)) (k0 + 1)
    simp only [List.length_cons, List.range'_succ, List.zipWith_cons_cons, List.mapM_cons,
      eventOfRow_rowOfEvent cid e _ (h e (by simp)), this]
    rfl

/-- **C14 (DataFrame), named columns**: for every catalog, every choice of further columns and cells -/
theorem frame_columns_roundtrip {R} (cat : Catalog R) (extras : Nat → FRow) (h : ∀ e ∈ cat.events, e.id.length ≤ 256) :
    fromFrame (toFrame cat extras) = .ok (cat.events, if cat.events = [] then none else cat.catalogId) := by
  unfold fromFrame toFrame
  rw [List.range_eq_range', mapM_rows cat.catalogId cat.events extras h 0]
  cases hev : cat.events with
  | nil => simp [catIdOf]
  | cons e es =>
    simp only [List.length_cons, List.range'_succ, List.zipWith_cons_cons, catIdOf, rowOfEvent, List.cons_append,
      List.lookup, reduceCtorEq, if_false]
    cases hc : cat.catalogId <;> simp [catIdCell, List.lookup]

/-- lookup by name does not depend on the order of the columns (names distinct) -/
theorem lookup_perm {l₁ l₂ : FRow} (hp : l₁.Perm l₂) (hnd : (l₁.map Prod.fst).Nodup) (k : String) :
    l₁.lookup k = l₂.lookup k := by
  induction hp with
  | nil => rfl
  | cons x _ ih =>
    obtain ⟨a, b⟩ := x
    simp only [List.map_cons, List.nodup_cons] at hnd
    simp only [List.lookup_cons]
    split
    · rfl
    · exact ih hnd.2
  | swap x y l =>
    obtain ⟨a, b⟩ := x
    obtain ⟨c, d⟩ := y
    simp only [List.map_cons, List.nodup_cons, List.mem_cons, not_or] at hnd
    have hne : c ≠ a := hnd.1.1
    simp only [List.lookup_cons]
    by_cases h1 : k = a
    · subst h1
      have : (k == c) = false := by simpa using (fun h => hne h.symm)
      simp [this]
    · have h1' : (k == a) = false := by simpa using h1
      simp [h1']
  | trans h12 _ ih1 ih2 =>
    rw [ih1 hnd]
    exact ih2 ((h12.map Prod.fst).nodup_iff.mp hnd)

theorem eventOfRow_perm {r₁ r₂ : FRow} (hp : r₁.Perm r₂) (hnd : (r₁.map Prod.fst).Nodup) : eventOfRow r₁ = eventOfRow r₂ := by
  simp only [eventOfRow, strCell, intCell, fltCell, cellOf, lookup_perm hp hnd]

/-- **the order of the columns is irrelevant**: a frame whose rows are column-permutations of the rows of another frame
    (column names distinct) loads as the same catalog -/
theorem frame_column_order_irrelevant (f₁ f₂ : List FRow) (h : List.Forall₂ (fun a b => a.Perm b ∧ (a.map Prod.fst).Nodup) f₁ f₂) :
    fromFrame f₁ = fromFrame f₂ := by
  have hm : f₁.mapM eventOfRow = f₂.mapM eventOfRow := by
    induction h with
    | nil => rfl
    | cons hd _ ih => simp only [List.mapM_cons, eventOfRow_perm hd.1 hd.2, ih]
  have hc : catIdOf f₁ = catIdOf f₂ := by
    cases h with
    | nil => rfl
    | cons hd _ => simp only [catIdOf, lookup_perm hd.1 hd.2]
  simp only [fromFrame, hm, hc]

/-- **a further column is irrelevant**, wherever it is inserted (its name is none of the seven the loader asks for) -/
theorem frame_extra_column_irrelevant (r pre post : FRow) (name : String) (c : Cell) (hr : r = pre ++ post)
    (hn : name ∉ ["id", "origin_time", "latitude", "longitude", "depth", "magnitude", "catalog_id"]) :
    eventOfRow (pre ++ (name, c) :: post) = eventOfRow r ∧
      (pre ++ (name, c) :: post).lookup "catalog_id" = r.lookup "catalog_id" := by
  subst hr
  have key : ∀ k : String, k ≠ name → (pre ++ (name, c) :: post).lookup k = (pre ++ post).lookup k := by
    intro k hk
    induction pre with
    | nil =>
      have : (k == name) = false := by simpa using hk
      simp [List.lookup_cons, this]
    | cons p pre ih =>
      obtain ⟨a, b⟩ := p
      simp only [List.cons_append, List.lookup_cons]
      split
      · rfl
      · exact ih
  simp only [List.mem_cons, List.not_mem_nil, or_false, not_or] at hn
  obtain ⟨h1, h2, h3, h4, h5, h6, h7⟩ := hn
  refine ⟨?_, key _ (Ne.symm h7)⟩
  simp only [eventOfRow, strCell, intCell, fltCell, cellOf, key _ (Ne.symm h1), key _ (Ne.symm h2), key _ (Ne.symm h3),
    key _ (Ne.symm h4), key _ (Ne.symm h5), key _ (Ne.symm h6)]

/-- without the `catalog_id` column (`KeyError`, caught) the events load and the catalog id is `None` -/
theorem frame_without_catalog_id (rows : List FRow) (h : ∀ r ∈ rows, r.lookup "catalog_id" = none) :
    fromFrame rows = (rows.mapM eventOfRow).map (fun evs => (evs, (Option.none : Option Int))) := by
  have : catIdOf rows = none := by
    cases rows with
    | nil => rfl
    | cons r rs => simp [catIdOf, h r (by simp)]
  simp only [fromFrame, this]
  generalize List.mapM eventOfRow rows = m
  cases m <;> rfl

/-! ### non-vacuity -/
def exCat : Catalog Unit := ⟨[⟨"a".toList, 5, 1, 2, 3, 4⟩], some 7, Option.none, Option.none⟩
example : fromFrame (toFrame exCat (fun _ => [("datetime", .int 5), ("region_id", .int 0)]))
    = .ok ([⟨"a".toList, 5, 1, 2, 3, 4⟩], some 7) := by decide +kernel
/-- a missing dtype column is a KeyError -/
example : fromFrame [[("id", .str []), ("origin_time", .int 0)]] = .error .keyError := by decide +kernel

end FrameColumns
