import PycsepVerif.Model.NdkMagnitude
import PycsepVerif.Properties.C19_TextFiles
import PycsepVerif.Proofs.RealInst
import Mathlib.Analysis.SpecialFunctions.Log.Base

/-!
# C19, NDK end to end: the record loop with skipped records, and the moment magnitude

* `ndk_file_loop`: for ANY file of five-line groups (parsable records, records `_read_lines` rejects, unparsable times) the
  text model of `ndk()` is: `RuntimeError` if some group has an unparsable time, else the token model on the parsable groups
  in file order — skipped records leave no trace, the incomplete trailing group is dropped.
* `ndk_skipped_records_leave_no_trace`: a file in which rejected records are interleaved with well-formed ones loads as
  exactly the well-formed ones, one event each, in order.
* the magnitude formula `Mw = 2/3·(log10 M0 − 9.1)` in the real layer: strictly increasing in the scalar moment
  (`mw_strict_mono`), injective (`mw_injective`), `+2/3` per decade of the exponent column (`mw_decade`), the reference value
  `Mw(10^9.1 N·m) = 0` (`mw_reference`); `ndk_file_mw_one_event_per_record`: from characters to events with moment
  magnitudes.
-/
namespace ReaderText
open Readers NdkMagnitude

/-- the records among the outcomes of the groups -/
def recordsOf (gs : List NdkGroup) : List NdkRec :=
  gs.filterMap (fun g => match g with | .record r _ => some r | _ => none)

/-- **the NDK record loop, any mixture of groups** (LF or CRLF, optional incomplete trailing group) -/
theorem ndk_file_loop (bs : List Block) (out : Block → NdkGroup) (tail : List Str) (ht : tail.length < 5) (crlf : Bool)
    (hclean : ∀ l ∈ bs.flatMap blockLines ++ tail, cleanLine l)
    (hout : ∀ b ∈ bs, ndkGroup b.1 b.2.1 b.2.2.1 b.2.2.2.1 b.2.2.2.2 = out b)
    (hno : ∀ b ∈ bs, out b ≠ .outside) :
    ndkFile (joinLines (eolOf crlf) (bs.flatMap blockLines ++ tail))
      = some (if (bs.map out).contains .badTime then .error .badTime else decodeNdk (recordsOf (bs.map out))) := by
  have hg : (bs.map fun g => ndkGroup g.1 g.2.1 g.2.2.1 g.2.2.2.1 g.2.2.2.2) = bs.map out := List.map_congr_left hout
  have hnone : (bs.map out).contains NdkGroup.outside = false := by
    rw [Bool.eq_false_iff]
    intro hc
    rw [List.contains_iff_mem, List.mem_map] at hc
    obtain ⟨b, hb, hbo⟩ := hc
    exact hno b hb hbo
  unfold ndkFile
  rw [lines_joinLines crlf _ hclean, groups5_blocks bs tail ht]
  simp only [hg, hnone, Bool.false_eq_true, if_false, recordsOf]
  rfl

theorem outcomes_spec (bs : List (Block × Option (SecEvent × Int)))
    (hgood : ∀ b ∈ bs, ∀ e t, b.2 = some (e, t) →
      ndkGroup b.1.1 b.1.2.1 b.1.2.2.1 b.1.2.2.2.1 b.1.2.2.2.2 = .record (encodeNdk e t) e.mag)
    (hbad : ∀ b ∈ bs, b.2 = none → ndkGroup b.1.1 b.1.2.1 b.1.2.2.1 b.1.2.2.2.1 b.1.2.2.2.2 = .skipped) :
    (bs.map fun b => ndkGroup b.1.1 b.1.2.1 b.1.2.2.1 b.1.2.2.2.1 b.1.2.2.2.2).contains .outside = false ∧
    (bs.map fun b => ndkGroup b.1.1 b.1.2.1 b.1.2.2.1 b.1.2.2.2.1 b.1.2.2.2.2).contains .badTime = false ∧
    recordsOf (bs.map fun b => ndkGroup b.1.1 b.1.2.1 b.1.2.2.1 b.1.2.2.2.1 b.1.2.2.2.2)
      = (bs.filterMap (·.2)).map (fun p => encodeNdk p.1 p.2) := by
  induction bs with
  | nil => exact ⟨rfl, rfl, rfl⟩
  | cons b bs ih =>
    obtain ⟨i1, i2, i3⟩ := ih (fun x hx => hgood x (List.mem_cons_of_mem _ hx)) (fun x hx => hbad x (List.mem_cons_of_mem _ hx))
    cases h2 : b.2 with
    | none =>
      have hg := hbad b (by simp) h2
      simp only [List.map_cons, hg, List.contains_cons, i1, i2, recordsOf, List.filterMap_cons, h2]
      refine ⟨by simp, by simp, ?_⟩
      simp only [recordsOf] at i3
      simp [i3]
    | some p =>
      obtain ⟨e, t⟩ := p
      have hg := hgood b (by simp) e t h2
      simp only [List.map_cons, hg, List.contains_cons, i1, i2, recordsOf, List.filterMap_cons, h2]
      refine ⟨by simp, by simp, ?_⟩
      simp only [recordsOf] at i3
      simp [i3]

/-- rejected records leave no trace: if every group is either a well-formed record or rejected by `_read_lines`, the file
    loads as the events of the well-formed ones, one event each, in file order -/
theorem ndk_skipped_records_leave_no_trace (bs : List (Block × Option (SecEvent × Int))) (crlf : Bool)
    (hclean : ∀ l ∈ (bs.map (·.1)).flatMap blockLines, cleanLine l)
    (hwf : ∀ b ∈ bs, ∀ e t, b.2 = some (e, t) → e.wf)
    (hgood : ∀ b ∈ bs, ∀ e t, b.2 = some (e, t) →
      ndkGroup b.1.1 b.1.2.1 b.1.2.2.1 b.1.2.2.2.1 b.1.2.2.2.2 = .record (encodeNdk e t) e.mag)
    (hbad : ∀ b ∈ bs, b.2 = none → ndkGroup b.1.1 b.1.2.1 b.1.2.2.1 b.1.2.2.2.1 b.1.2.2.2.2 = .skipped) :
    ndkFile (joinLines (eolOf crlf) ((bs.map (·.1)).flatMap blockLines))
      = some (.ok ((bs.filterMap (·.2)).map fun p => p.1.expected)) := by
  obtain ⟨o1, o2, o3⟩ := outcomes_spec bs hgood hbad
  have hmm : ((bs.map (·.1)).map fun g => ndkGroup g.1 g.2.1 g.2.2.1 g.2.2.2.1 g.2.2.2.2)
      = bs.map fun b => ndkGroup b.1.1 b.1.2.1 b.1.2.2.1 b.1.2.2.2.1 b.1.2.2.2.2 := by
    rw [List.map_map]; rfl
  have hloop := ndk_file_loop (bs.map (·.1)) (fun g => ndkGroup g.1 g.2.1 g.2.2.1 g.2.2.2.1 g.2.2.2.2) [] (by simp) crlf
    (by simpa using hclean) (fun _ _ => rfl) (by
      intro g hg hc
      have : ((bs.map (·.1)).map fun g => ndkGroup g.1 g.2.1 g.2.2.1 g.2.2.2.1 g.2.2.2.2).contains NdkGroup.outside = true := by
        rw [List.contains_iff_mem, List.mem_map]; exact ⟨g, hg, hc⟩
      rw [hmm, o1] at this
      exact Bool.false_ne_true this)
  rw [List.append_nil] at hloop
  rw [hloop, hmm, o2, o3]
  simp only [Bool.false_eq_true, if_false]
  have hd := decode_encode_ndk (bs.filterMap (·.2)) (by
    intro p hp
    obtain ⟨b, hb, hbp⟩ := List.mem_filterMap.mp hp
    obtain ⟨e, t⟩ := p
    exact hwf b hb e t hbp)
  rw [hd]

/-! ## the moment magnitude -/

noncomputable section
open Real

/-- the formula at ℝ: `2/3 · (log10 m0 − 9.1)` -/
theorem mwOf_real (m0 : ℝ) : (mwOf m0 : ℝ) = 2 / 3 * (Real.logb 10 m0 - 91 / 10) := by
  simp [mwOf, NdkMagnitude.log10, Real.logb]

/-- a larger scalar moment gives a larger magnitude -/
theorem mw_strict_mono {a b : ℝ} (ha : 0 < a) (hab : a < b) : (mwOf a : ℝ) < mwOf b := by
  rw [mwOf_real, mwOf_real]
  have := Real.logb_lt_logb (by norm_num : (1 : ℝ) < 10) ha hab
  linarith

/-- … so the magnitude determines the scalar moment -/
theorem mw_injective {a b : ℝ} (ha : 0 < a) (hb : 0 < b) (h : (mwOf a : ℝ) = mwOf b) : a = b := by
  rcases lt_trichotomy a b with h1 | h1 | h1
  · exact absurd h (ne_of_lt (mw_strict_mono ha h1))
  · exact h1
  · exact absurd h.symm (ne_of_lt (mw_strict_mono hb h1))

/-- one more unit in the exponent column (`10 ** exponent`) adds 2/3 to the magnitude -/
theorem mw_decade {m : ℝ} (hm : 0 < m) (k : ℕ) : (mwOf (m * 10 ^ k) : ℝ) = mwOf m + 2 * k / 3 := by
  rw [mwOf_real, mwOf_real, Real.logb_mul (ne_of_gt hm) (by positivity), Real.logb_pow]
  have : Real.logb 10 10 = 1 := Real.logb_self_eq_one (by norm_num)
  rw [this]; ring

/-- the reference point of the scale: `M0 = 10^9.1 N·m` has magnitude 0 -/
theorem mw_reference : (mwOf ((10 : ℝ) ^ ((91 : ℝ) / 10)) : ℝ) = 0 := by
  rw [mwOf_real, Real.logb_rpow (by norm_num) (by norm_num)]; ring

end

/-- **NDK, characters to events with moment magnitudes**: a file of `n` parsable records written from the events `es`
    (the scalar moment of record k standing in `es[k].mag`) loads as one event per record, in file order, time floored to
    whole seconds, magnitude `2/3·(log10 M0 − 9.1)` of the record's scalar moment -/
theorem ndk_file_mw_one_event_per_record {α : Type} [RealOps α] (recs : List (Block × SecEvent × Int)) (crlf : Bool)
    (hwf : ∀ r ∈ recs, r.2.1.wf)
    (hclean : ∀ l ∈ (recs.map (·.1)).flatMap blockLines, cleanLine l)
    (hrec : ∀ r ∈ recs, ndkGroup r.1.1 r.1.2.1 r.1.2.2.1 r.1.2.2.2.1 r.1.2.2.2.2 = .record (encodeNdk r.2.1 r.2.2) r.2.1.mag) :
    (ndkFileMw (α := α) (joinLines (if crlf then ['\r', '\n'] else ['\n']) ((recs.map (·.1)).flatMap blockLines))).map
        (fun r => match r with | .ok evs => some (evs.map (fun e => (e.time, e.lat, e.lon, e.depth))) | .error _ => none)
      = some (some (recs.map fun r => (r.2.1.expected.time, r.2.1.lat, r.2.1.lon, r.2.1.depth))) ∧
    (ndkFileMw (α := α) (joinLines (if crlf then ['\r', '\n'] else ['\n']) ((recs.map (·.1)).flatMap blockLines))).map
        (fun r => match r with | .ok evs => some (evs.map (·.mw)) | .error _ => none)
      = some (some (recs.map fun r => mwOf (ofRat r.2.1.mag))) := by
  have h := ndk_file_one_event_per_record recs crlf hwf hclean hrec
  unfold ndkFileMw
  rw [h]
  simp [withMw, SecEvent.expected, List.map_map, Function.comp_def]

end ReaderText
