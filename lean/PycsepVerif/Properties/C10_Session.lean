import PycsepVerif.Model.EvalSession
import PycsepVerif.Properties.C10

/-!
# C10 — sessions: several evaluations on ONE forecast object

`Model/EvalSession.lean` threads the forecast object (its catalogs and its cached mean rates) through a sequence of
evaluations, each test READING the cached rates as the code does.  As long as the cache is coherent — empty, or the mean
rates of the catalogs the forecast holds — every evaluation of every session returns exactly what the same test returns
on a fresh forecast object, leaves the catalogs alone and leaves the cache coherent: results do not depend on which tests
ran before, how often, or on which observed catalogs.  (A test that left a scale factor or a divided array in the cache,
or a caller who changed the catalogs after the cache was filled, breaks exactly this invariant.)
-/
namespace CatEvals

/-- the tests that read the rates from the object are the tests of `Model/CatalogEvals.lean` when the rates read are the
    mean rates of the forecast's catalogs -/
theorem tests_with_mean_rates (C K : Nat) (sims : List Grid) (obs : Grid) :
    spatialTestWith (α := ℝ) (meanRates C K sims) C sims obs = spatialTest C K sims obs ∧
    (eventCount obs ≠ 0 →
      pseudolikelihoodTestWith (α := ℝ) (meanRates C K sims) C sims obs = pseudolikelihoodTest C K sims obs) ∧
    (eventCount obs ≠ 0 → magnitudeTestWith (α := ℝ) (meanRates C K sims) K sims obs = magnitudeTest C K sims obs) := by
  refine ⟨rfl, ?_, ?_⟩
  · intro h; unfold pseudolikelihoodTest; rw [if_neg h]; rfl
  · intro h; unfold magnitudeTest; rw [if_neg h]; rfl

/-- the cache is empty or holds the mean rates of the catalogs the forecast holds -/
def Coherent (C K : Nat) (st : FcState ℝ) : Prop :=
  st.cache = none ∨ st.cache = some (meanRates C K st.sims)

theorem ensureRates_coherent (C K : Nat) (st : FcState ℝ) (h : Coherent C K st) :
    (ensureRates C K st).2 = meanRates C K st.sims ∧ (ensureRates C K st).1.sims = st.sims ∧
    Coherent C K (ensureRates C K st).1 := by
  unfold ensureRates
  rcases h with h | h
  · rw [h]; exact ⟨rfl, rfl, Or.inr rfl⟩
  · rw [h]; exact ⟨rfl, rfl, Or.inr h⟩

/-- **one evaluation on a coherent forecast object** returns what the same test returns on a fresh object with the same
    catalogs, keeps the catalogs, and keeps the cache coherent. -/
theorem evalStep_history_free (lg : ℝ → ℝ) (C K : Nat) (st : FcState ℝ) (h : Coherent C K st) (kind : EvalKind)
    (obs : Grid) :
    (evalStep lg C K st kind obs).2 = evalFresh lg C K st.sims kind obs ∧
    (evalStep lg C K st kind obs).1.sims = st.sims ∧ Coherent C K (evalStep lg C K st kind obs).1 := by
  obtain ⟨hm, hs, hc⟩ := ensureRates_coherent C K st h
  cases kind with
  | number => exact ⟨rfl, rfl, h⟩
  | spatial =>
    simp only [evalStep, evalFresh]
    refine ⟨?_, hs, hc⟩
    rw [hm, hs, (tests_with_mean_rates C K st.sims obs).1]
  | pseudolikelihood =>
    by_cases h0 : eventCount obs = 0
    · have e : evalStep lg C K st .pseudolikelihood obs = (st, .noResult) := by simp [evalStep, h0]
      rw [e]
      exact ⟨by simp only [evalFresh]; rw [pl_flow_empty C K st.sims obs h0], rfl, h⟩
    · simp only [evalStep, evalFresh, h0, if_false]
      refine ⟨?_, hs, hc⟩
      rw [hm, hs, (tests_with_mean_rates C K st.sims obs).2.1 h0]
  | magnitude =>
    by_cases h0 : eventCount obs = 0
    · have e : evalStep lg C K st .magnitude obs = (st, .result emptyObsResult) := by simp [evalStep, h0]
      rw [e]
      exact ⟨by simp [evalFresh, magnitudeTest, h0], rfl, h⟩
    · simp only [evalStep, evalFresh, h0, if_false]
      refine ⟨?_, hs, hc⟩
      rw [hm, hs, (tests_with_mean_rates C K st.sims obs).2.2 h0]
  | resampled draws =>
    by_cases h0 : eventCount obs = 0
    · have e : evalStep lg C K st (.resampled draws) obs = (st, .result emptyObsResult) := by simp [evalStep, h0]
      rw [e]
      exact ⟨by simp [evalFresh, resampledMagnitudeTest, h0], rfl, h⟩
    · simp only [evalStep, evalFresh, h0, if_false]
      exact ⟨by rw [hs], hs, hc⟩
  | mll draws =>
    by_cases h0 : eventCount obs = 0
    · have e : evalStep lg C K st (.mll draws) obs = (st, .result emptyObsResult) := by simp [evalStep, h0]
      rw [e]
      exact ⟨by simp [evalFresh, mllMagnitudeTest, h0], rfl, h⟩
    · simp only [evalStep, evalFresh, h0, if_false]
      exact ⟨by rw [hs], hs, hc⟩

/-- **C10 for histories**: whatever sequence of number / spatial / pseudo-likelihood / magnitude / resampled-magnitude /
    MLL tests is run on one forecast object (any order, any repetitions, each with its own observed catalog and its own
    draws), every result is the result of that test on a fresh forecast with the same synthetic catalogs. -/
theorem session_history_free (lg : ℝ → ℝ) (C K : Nat) (steps : List (EvalKind × Grid)) :
    ∀ (st : FcState ℝ), Coherent C K st →
      runSession lg C K st steps = steps.map (fun p => evalFresh lg C K st.sims p.1 p.2) := by
  induction steps with
  | nil => intro st _; rfl
  | cons p rest ih =>
    intro st h
    obtain ⟨k, obs⟩ := p
    obtain ⟨h1, h2, h3⟩ := evalStep_history_free lg C K st h k obs
    simp only [runSession, List.map_cons]
    rw [h1, ih _ h3, h2]

/-- a forecast object that has not been evaluated yet is coherent -/
theorem fresh_forecast_coherent (C K : Nat) (sims : List Grid) : Coherent C K { sims := sims, cache := none } :=
  Or.inl rfl

-- non-vacuity: S-test, N-test, S-test again (other observation), PL-test on one forecast of two catalogs
example : runSession (α := ℝ) id 2 1 { sims := [[[1], [0]], [[0], [2]]], cache := none }
    [(.spatial, [[1], [0]]), (.number, [[1], [0]]), (.mll [[1], [1]], [[1], [0]]), (.spatial, [[0], [1]]),
     (.resampled [[2], [2]], [[1], [1]]), (.pseudolikelihood, [[1], [1]])] =
    [evalFresh id 2 1 [[[1], [0]], [[0], [2]]] .spatial [[1], [0]], evalFresh id 2 1 [[[1], [0]], [[0], [2]]] .number [[1], [0]],
     evalFresh id 2 1 [[[1], [0]], [[0], [2]]] (.mll [[1], [1]]) [[1], [0]],
     evalFresh id 2 1 [[[1], [0]], [[0], [2]]] .spatial [[0], [1]],
     evalFresh id 2 1 [[[1], [0]], [[0], [2]]] (.resampled [[2], [2]]) [[1], [1]],
     evalFresh id 2 1 [[[1], [0]], [[0], [2]]] .pseudolikelihood [[1], [1]]] :=
  session_history_free id 2 1 _ _ (fresh_forecast_coherent 2 1 _)

end CatEvals
