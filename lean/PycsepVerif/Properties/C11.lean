import PycsepVerif.Proofs.ForecastFile

/-!
# C11 — gridded forecast files load into forecasts whose rate lookup matches the file

Theorems about `Model/ForecastFile.lean` (model of `GriddedForecast.load_ascii`, `get_rates`, `scale`,
`scale_to_test_date`, `sum`, `spatial_counts`, `magnitude_counts`). All statements hold for every well-formed file
(any number of cells and magnitude bins, any cell order, holes, flags) and every history of scale calls.
-/
namespace ForecastFile

/-- what `load` returns on a well-formed file -/
theorem load_eq (swap : Bool) (a b : Rat) (f : File) (hw : WellFormed f) :
    load swap a b f = some (build swap a b f) := by
  have hlen : f.length = (uniqFirst (f.map Row.poly)).length * (uniqFirst (f.map Row.m0)).length := by
    have := congrArg List.length hw.blocks
    rwa [List.length_map, product_length] at this
  have hne : f.isEmpty = false := by
    cases f with
    | nil => exact absurd rfl hw.nonempty
    | cons _ _ => rfl
  have hok : loadOk f = true := by
    simp only [loadOk, hne, Bool.not_false, Bool.true_and, decide_eq_true_eq]
    exact hlen
  unfold load
  rw [if_pos hok]

theorem load_some_iff (swap : Bool) (a b : Rat) (f : File) (F : Forecast) :
    load swap a b f = some F ↔ loadOk f = true ∧ F = build swap a b f := by
  unfold load
  by_cases h : loadOk f = true
  · rw [if_pos h]
    constructor
    · intro e; exact ⟨h, (Option.some.inj e).symm⟩
    · rintro ⟨_, rfl⟩; rfl
  · rw [if_neg h]
    constructor
    · intro e; cases e
    · rintro ⟨h', _⟩; exact absurd h' h

/-- every well-formed file loads (the reshape succeeds) -/
theorem load_some_of_wellFormed (swap : Bool) (a b : Rat) (f : File) (hw : WellFormed f) :
    (load swap a b f).isSome = true := by
  rw [load_eq swap a b f hw]; rfl

/-- the magnitude edges of the loaded forecast are the file's distinct lower magnitude edges, in file order -/
theorem mags_are_file_edges (swap : Bool) (a b : Rat) (f : File) (F : Forecast) (h : load swap a b f = some F) :
    F.mags = uniqFirst (f.map Row.m0) := by
  rw [((load_some_iff swap a b f F).mp h).2]; rfl

/-- … i.e. exactly the values occurring in the Mag_0 column, each once -/
theorem mags_mem_iff (swap : Bool) (a b : Rat) (f : File) (F : Forecast) (h : load swap a b f = some F) (m : Rat) :
    (m ∈ F.mags ↔ ∃ r ∈ f, r.m0 = m) ∧ F.mags.Nodup := by
  rw [mags_are_file_edges swap a b f F h]
  exact ⟨by rw [mem_uniqFirst, List.mem_map], nodup_uniqFirst _⟩

/-- position of a row of a well-formed file: cell index i, magnitude index k, flat position i·M + k -/
theorem row_position (f : File) (hw : WellFormed f) (r : Row) (hr : r ∈ f) :
    ∃ i k, k < (uniqFirst (f.map Row.m0)).length ∧ (uniqFirst (f.map Row.poly))[i]? = some r.poly ∧
      (uniqFirst (f.map Row.m0))[k]? = some r.m0 ∧
      (f.map Row.rate)[i * (uniqFirst (f.map Row.m0)).length + k]? = some r.rate := by
  obtain ⟨p, hp⟩ := List.mem_iff_getElem?.mp hr
  have hkey : (f.map (fun r => (r.poly, r.m0)))[p]? = some (r.poly, r.m0) := by
    rw [List.getElem?_map, hp]; rfl
  rw [hw.blocks] at hkey
  obtain ⟨i, k, h1, h2, h3, h4⟩ := product_getElem? _ _ p _ _ hkey
  refine ⟨i, k, h2, h3, h4, ?_⟩
  rw [← h1, List.getElem?_map, hp]; rfl

/-- the cell lookup finds the row's cell: boxes of distinct cells are disjoint -/
theorem cell_index (f : File) (hw : WellFormed f) (r : Row) (i : Nat)
    (hi : (uniqFirst (f.map Row.poly))[i]? = some r.poly) (lon lat : Rat) (hsp : r.inBoxSpace lon lat) :
    ((uniqFirst (f.map Row.poly)).map (fun p => mkCell false p (firstFlag f p))).findIdx?
      (fun c => c.contains lon lat) = some i := by
  obtain ⟨hil, hie⟩ := List.getElem?_eq_some_iff.mp hi
  rw [List.findIdx?_eq_some_iff_getElem]
  refine ⟨by simpa using hil, ?_, ?_⟩
  · obtain ⟨h1, h2, h3, h4⟩ := hsp
    simp [List.getElem_map, hie, mkCell, Cell.contains, Row.poly, h1, h2, h3, h4]
  · intro j hji
    have hjl : j < (uniqFirst (f.map Row.poly)).length := Nat.lt_trans hji hil
    have hd := (List.pairwise_iff_getElem.mp hw.disjoint) j i hjl hil hji
    rw [hie] at hd
    obtain ⟨h1, h2, h3, h4⟩ := hsp
    intro hc
    simp only [List.getElem_map, mkCell, Cell.contains, Bool.false_eq_true, if_false, Bool.and_eq_true,
      decide_eq_true_eq] at hc
    generalize (uniqFirst (f.map Row.poly))[j] = q at hd hc
    obtain ⟨⟨⟨c1, c2⟩, c3⟩, c4⟩ := hc
    unfold disjointPoly at hd
    simp only [Row.poly] at hd
    rcases hd with hd | hd | hd | hd <;> linarith

/-- the magnitude lookup finds the row's bin -/
theorem mag_index (f : File) (hw : WellFormed f) (r : Row) (hr : r ∈ f) (k : Nat)
    (hk : (uniqFirst (f.map Row.m0))[k]? = some r.m0) (m : Rat) (h0 : r.m0 ≤ m)
    (h1 : m < r.m1 ∨ ∀ e ∈ uniqFirst (f.map Row.m0), e ≤ r.m0) :
    getMagnitudeIndex (uniqFirst (f.map Row.m0)) m = some k := by
  obtain ⟨hkl, hke⟩ := List.getElem?_eq_some_iff.mp hk
  have hs := List.pairwise_iff_getElem.mp hw.magsSorted
  apply magIndex_eq _ _ k hkl
  · intro j hj hjk
    rcases Nat.lt_or_eq_of_le hjk with hlt | heq
    · have := hs j k hj hkl hlt
      rw [hke] at this; linarith
    · subst heq; rw [hke]; exact h0
  · intro j hj hkj
    have hlt := hs k j hkl hj hkj
    rw [hke] at hlt
    have hmem : (uniqFirst (f.map Row.m0))[j] ∈ uniqFirst (f.map Row.m0) := List.getElem_mem hj
    rcases h1 with h1 | h1
    · have := hw.magUpper r hr _ hmem hlt
      linarith
    · have := h1 _ hmem
      linarith

/-- `get_rates` once the cell and the magnitude bin are known -/
theorem getRates_of (F : Forecast) (lon lat m : Rat) (i k : Nat) (c : Cell) (x : Rat)
    (h1 : F.cells.findIdx? (fun c => c.contains lon lat) = some i) (h2 : F.cells[i]? = some c) (h3 : c.flag = 1)
    (h4 : getMagnitudeIndex F.mags m = some k) (h5 : k < F.mags.length)
    (h6 : F.base[i * F.mags.length + k]? = some x) :
    getRates F lon lat m = some (x * F.scale) := by
  unfold getRates getIndexOf dataAt
  simp only [h1, h2, h3, h4, h5, h6, if_true, Option.map_some]

/-- **C11 rate lookup.** For a well-formed file, a row flagged 1 and any point of the row's half-open
    space–magnitude box (lower corner included: `≤` on all three lower sides), the loaded forecast returns the
    row's rate. -/
theorem rate_lookup (a b : Rat) (f : File) (F : Forecast) (hw : WellFormed f) (hl : load false a b f = some F)
    (r : Row) (hr : r ∈ f) (hflag : r.flag = 1) (lon lat m : Rat) (hbox : r.inBox lon lat m) :
    getRates F lon lat m = some r.rate := by
  rw [load_eq false a b f hw] at hl
  cases hl
  obtain ⟨i, k, hkM, hpi, hmk, hrate⟩ := row_position f hw r hr
  obtain ⟨hsp, hm0, hm1⟩ := hbox
  have hc := cell_index f hw r i hpi lon lat hsp
  have hmi := mag_index f hw r hr k hmk m hm0 (Or.inl hm1)
  obtain ⟨hil, hie⟩ := List.getElem?_eq_some_iff.mp hpi
  have hcell : ((uniqFirst (f.map Row.poly)).map (fun p => mkCell false p (firstFlag f p)))[i]?
      = some (mkCell false r.poly (firstFlag f r.poly)) := by
    rw [List.getElem?_map, hpi]; rfl
  have hf : (mkCell false r.poly (firstFlag f r.poly)).flag = 1 := by
    simp [mkCell, ← hw.flags r hr, hflag]
  have := getRates_of (build false a b f) lon lat m i k _ r.rate hc hcell hf hmi hkM hrate
  rw [this]; simp [build]

/-- the top magnitude bin is open-ended: any magnitude at or above the last lower edge gets the top row's rate -/
theorem rate_lookup_top_bin (a b : Rat) (f : File) (F : Forecast) (hw : WellFormed f) (hl : load false a b f = some F)
    (r : Row) (hr : r ∈ f) (hflag : r.flag = 1) (htop : ∀ r' ∈ f, r'.m0 ≤ r.m0)
    (lon lat m : Rat) (hsp : r.inBoxSpace lon lat) (hm : r.m0 ≤ m) :
    getRates F lon lat m = some r.rate := by
  rw [load_eq false a b f hw] at hl
  cases hl
  obtain ⟨i, k, hkM, hpi, hmk, hrate⟩ := row_position f hw r hr
  have hc := cell_index f hw r i hpi lon lat hsp
  have htop' : ∀ e ∈ uniqFirst (f.map Row.m0), e ≤ r.m0 := by
    intro e he
    rw [mem_uniqFirst, List.mem_map] at he
    obtain ⟨r', hr', rfl⟩ := he
    exact htop r' hr'
  have hmi := mag_index f hw r hr k hmk m hm (Or.inr htop')
  have hcell : ((uniqFirst (f.map Row.poly)).map (fun p => mkCell false p (firstFlag f p)))[i]?
      = some (mkCell false r.poly (firstFlag f r.poly)) := by
    rw [List.getElem?_map, hpi]; rfl
  have hf : (mkCell false r.poly (firstFlag f r.poly)).flag = 1 := by
    simp [mkCell, ← hw.flags r hr, hflag]
  have := getRates_of (build false a b f) lon lat m i k _ r.rate hc hcell hf hmi hkM hrate
  rw [this]; simp [build]

/-- cells flagged 0 (anything but 1) lie outside the region: the point lookup raises, so does `get_rates` -/
theorem flag0_outside (a b : Rat) (f : File) (F : Forecast) (hw : WellFormed f) (hl : load false a b f = some F)
    (r : Row) (hr : r ∈ f) (hflag : r.flag ≠ 1) (lon lat : Rat) (hsp : r.inBoxSpace lon lat) :
    getIndexOf F.cells lon lat = none ∧ ∀ m, getRates F lon lat m = none := by
  rw [load_eq false a b f hw] at hl
  cases hl
  obtain ⟨i, k, hkM, hpi, hmk, hrate⟩ := row_position f hw r hr
  have hc := cell_index f hw r i hpi lon lat hsp
  have hcell : ((uniqFirst (f.map Row.poly)).map (fun p => mkCell false p (firstFlag f p)))[i]?
      = some (mkCell false r.poly (firstFlag f r.poly)) := by
    rw [List.getElem?_map, hpi]; rfl
  have hf : (mkCell false r.poly (firstFlag f r.poly)).flag ≠ 1 := by
    simp [mkCell, ← hw.flags r hr, hflag]
  have h1 : getIndexOf (build false a b f).cells lon lat = none := by
    unfold getIndexOf
    simp only [build, hc, hcell, if_neg hf]
  exact ⟨h1, fun m => by unfold getRates; simp only [h1]⟩

/-- the total expected count of a freshly loaded forecast is the sum of the rate column
    (for every file that loads; in particular for a well-formed file without zero flags) -/
theorem total_eq_rate_sum (swap : Bool) (a b : Rat) (f : File) (F : Forecast) (hl : load swap a b f = some F) :
    total F = (f.map Row.rate).sum := by
  rw [((load_some_iff swap a b f F).mp hl).2]
  simp [total, data, build, Function.comp_def]

/-- loading the column-swapped file with `swap_latlon=True` gives the same cells, magnitudes, rates and scale
    (hence the same lookups and sums); only `dh` is inferred from the other pair of columns -/
theorem swap_latlon_eq (a b a' b' : Rat) (f : File) :
    (load true a' b' (f.map Row.swapCols)).map (fun F => (F.cells, F.mags, F.base, F.scale))
      = (load false a b f).map (fun F => (F.cells, F.mags, F.base, F.scale)) := by
  let sw : Rat × Rat × Rat × Rat → Rat × Rat × Rat × Rat := fun p => (p.2.2.1, p.2.2.2, p.1, p.2.1)
  have hsw : Function.Injective sw := by
    intro p q h
    obtain ⟨p1, p2, p3, p4⟩ := p
    obtain ⟨q1, q2, q3, q4⟩ := q
    simp only [sw, Prod.mk.injEq] at h
    obtain ⟨h1, h2, h3, h4⟩ := h
    simp [h1, h2, h3, h4]
  have hpoly : (f.map Row.swapCols).map Row.poly = (f.map Row.poly).map sw := by
    simp [List.map_map, Function.comp_def, Row.poly, Row.swapCols, sw]
  have hm0 : (f.map Row.swapCols).map Row.m0 = f.map Row.m0 := by
    simp [List.map_map, Function.comp_def, Row.swapCols]
  have hrate : (f.map Row.swapCols).map Row.rate = f.map Row.rate := by
    simp [List.map_map, Function.comp_def, Row.swapCols]
  have hflag : ∀ p, firstFlag (f.map Row.swapCols) (sw p) = firstFlag f p := by
    intro p
    unfold firstFlag
    rw [List.find?_map]
    have : ((fun r : Row => decide (r.poly = sw p)) ∘ Row.swapCols) = fun r => decide (r.poly = p) := by
      funext r
      obtain ⟨p1, p2, p3, p4⟩ := p
      simp only [Function.comp, Row.poly, Row.swapCols, sw, Prod.mk.injEq, decide_eq_decide]
      constructor
      · rintro ⟨h1, h2, h3, h4⟩; exact ⟨h3, h4, h1, h2⟩
      · rintro ⟨h1, h2, h3, h4⟩; exact ⟨h3, h4, h1, h2⟩
    rw [this]
    cases f.find? (fun r => decide (r.poly = p)) <;> simp [Row.swapCols]
  have hok : loadOk (f.map Row.swapCols) = loadOk f := by
    unfold loadOk
    rw [hpoly, hm0, uniqFirst_map_of_injective sw hsw]
    simp only [List.isEmpty_map, List.length_map]
  unfold load
  rw [hok]
  split
  · simp only [Option.map_some, Option.some.injEq, Prod.mk.injEq, build]
    rw [hpoly, hm0, hrate, uniqFirst_map_of_injective sw hsw]
    refine ⟨?_, by simp⟩
    rw [List.map_map]
    apply List.map_congr_left
    intro p _
    simp only [Function.comp, hflag]
    simp [mkCell, sw]
  · rfl

/-- hence the swapped file answers every lookup identically -/
theorem swap_latlon_rates (a b a' b' : Rat) (f : File) (F G : Forecast)
    (hF : load false a b f = some F) (hG : load true a' b' (f.map Row.swapCols) = some G) (lon lat m : Rat) :
    getRates G lon lat m = getRates F lon lat m ∧ total G = total F := by
  have h := swap_latlon_eq a b a' b' f
  rw [hF, hG] at h
  simp only [Option.map_some, Option.some.injEq, Prod.mk.injEq] at h
  obtain ⟨h1, h2, h3, h4⟩ := h
  constructor
  · unfold getRates dataAt; rw [h1, h2, h3, h4]
  · unfold total data; rw [h3, h4]

theorem swapCols_involutive (r : Row) : r.swapCols.swapCols = r := by
  cases r; rfl

/-- **rate lookup for a lat-first file read with `swap_latlon=True`**: `g` is the file as written
    (`Lat_0 Lat_1 Lon_0 Lon_1 …`); its rows, read back in lon-first order, must be well-formed -/
theorem rate_lookup_swapped (a b : Rat) (g : File) (G : Forecast) (hw : WellFormed (g.map Row.swapCols))
    (hl : load true a b g = some G) (r : Row) (hr : r ∈ g) (hflag : r.flag = 1) (lon lat m : Rat)
    (hbox : r.swapCols.inBox lon lat m) :
    getRates G lon lat m = some r.rate := by
  have hg : (g.map Row.swapCols).map Row.swapCols = g := by
    rw [List.map_map]
    conv_rhs => rw [← List.map_id g]
    apply List.map_congr_left
    intro x _
    exact swapCols_involutive x
  obtain ⟨F, hF⟩ := Option.isSome_iff_exists.mp (load_some_of_wellFormed false a b _ hw)
  have hl' : load true a b ((g.map Row.swapCols).map Row.swapCols) = some G := by rw [hg]; exact hl
  rw [(swap_latlon_rates a b a b _ F G hF hl' lon lat m).1]
  have := rate_lookup a b _ F hw hF r.swapCols (List.mem_map_of_mem hr) (by simpa [Row.swapCols] using hflag)
    lon lat m hbox
  simpa [Row.swapCols] using this

/-! ### scaling -/

theorem runOps_base_scale (F : Forecast) (ops : List ScaleOp) :
    (runOps F ops).base = F.base ∧ (runOps F ops).scale = lastFactor F.scale ops ∧
    (runOps F ops).cells = F.cells ∧ (runOps F ops).mags = F.mags := by
  induction ops generalizing F with
  | nil => exact ⟨rfl, rfl, rfl, rfl⟩
  | cons o ops ih =>
    obtain ⟨h1, h2, h3, h4⟩ := ih (applyOp F o)
    simp only [runOps, List.foldl_cons] at h1 h2 h3 h4 ⊢
    rw [h1, h2, h3, h4]
    cases o with
    | scale v => exact ⟨rfl, rfl, rfl, rfl⟩
    | toTestDate q => cases q <;> exact ⟨rfl, rfl, rfl, rfl⟩

/-- **scaling is absolute.** After any history of `scale` / `scale_to_test_date` calls the data are the base
    rates times the factor put in force by the last effective call — never a product of factors. -/
theorem scale_absolute (F : Forecast) (ops : List ScaleOp) :
    data (runOps F ops) = F.base.map (· * lastFactor F.scale ops) := by
  obtain ⟨h1, h2, _, _⟩ := runOps_base_scale F ops
  unfold data; rw [h1, h2]

/-- a history of plain `scale(v)` calls: only the last factor counts -/
theorem scale_last_wins (F : Forecast) (vs : List Rat) (v : Rat) :
    data (runOps F ((vs ++ [v]).map ScaleOp.scale)) = F.base.map (· * v) := by
  rw [scale_absolute]
  simp [lastFactor, ScaleOp.factor?]

/-- `scale_to_test_date` inside the forecast period is absolute too: whatever happened before, the data are
    base × the decimal-year fraction; outside the period the call changes nothing -/
theorem scale_to_test_date_absolute (F : Forecast) (ops : List ScaleOp) (q : Rat) :
    data (runOps F (ops ++ [.toTestDate (some q)])) = F.base.map (· * q) ∧
    data (runOps F (ops ++ [.toTestDate none])) = data (runOps F ops) := by
  constructor
  · rw [scale_absolute]; simp [lastFactor, ScaleOp.factor?]
  · simp [runOps, applyOp]

/-- linear: the data at factor v are the unscaled data times v -/
theorem data_linear (F : Forecast) (v : Rat) :
    data (scaleBy F v) = (data (scaleBy F 1)).map (· * v) := by
  simp [data, scaleBy]

/-- scaling moves no cell and no magnitude edge: lookups after a history return base rate × factor -/
theorem getRates_runOps (F : Forecast) (ops : List ScaleOp) (lon lat m x : Rat)
    (h : getRates { F with scale := 1 } lon lat m = some x) :
    getRates (runOps F ops) lon lat m = some (x * lastFactor F.scale ops) := by
  obtain ⟨h1, h2, h3, h4⟩ := runOps_base_scale F ops
  unfold getRates dataAt at h ⊢
  rw [h1, h2, h3, h4]
  simp only at h
  cases hi : getIndexOf F.cells lon lat with
  | none => simp [hi] at h
  | some i =>
    cases hk : getMagnitudeIndex F.mags m with
    | none => simp [hi, hk] at h
    | some k =>
      simp only [hi, hk] at h ⊢
      split at h
      · rename_i hlt
        simp only [hlt, if_true]
        cases hb : F.base[i * F.mags.length + k]? with
        | none => simp [hb] at h
        | some y =>
          simp only [hb, Option.map_some, Option.some.injEq, Rat.mul_one] at h ⊢
          rw [h]
      · cases h

/-! ### marginals -/

/-- the spatial and the magnitude marginals both sum to the total, at any scale factor -/
theorem marginals_sum (F : Forecast) (h : F.base.length = F.cells.length * F.mags.length) :
    (spatialCounts F).sum = total F ∧ (magnitudeCounts F).sum = total F := by
  have hd : (data F).length = F.cells.length * F.mags.length := by simp [data, h]
  have h1 : (spatialCounts F).sum = total F := by
    unfold spatialCounts rowsOf total
    exact chunks_sum _ _ _ hd
  refine ⟨h1, ?_⟩
  unfold magnitudeCounts
  rw [(foldr_addRows F.mags.length (rowsOf F) (chunks_length _ _ _ hd)).2]
  exact h1

/-- the shape hypothesis holds for every loaded forecast and survives every scale history -/
theorem loaded_shape (swap : Bool) (a b : Rat) (f : File) (F : Forecast) (hl : load swap a b f = some F)
    (ops : List ScaleOp) :
    (runOps F ops).base.length = (runOps F ops).cells.length * (runOps F ops).mags.length := by
  obtain ⟨h1, _, h3, h4⟩ := runOps_base_scale F ops
  rw [h1, h3, h4]
  obtain ⟨hok, rfl⟩ := (load_some_iff swap a b f F).mp hl
  simp only [loadOk, Bool.and_eq_true, decide_eq_true_eq] at hok
  simpa [build] using hok.2

/-! ### the map ("cartesian") layout of the spatial marginal: `spatial_counts(cartesian=True)` -/

/-- the forecast after a history is the loaded forecast with the last factor in force -/
theorem spatialCounts_runOps (F : Forecast) (ops : List ScaleOp) :
    spatialCounts (runOps F ops) = (spatialCounts { F with scale := 1 }).map (· * lastFactor F.scale ops) := by
  obtain ⟨h1, h2, h3, h4⟩ := runOps_base_scale F ops
  rw [← spatialCounts_scale F (lastFactor F.scale ops)]
  simp only [spatialCounts, rowsOf, data, h1, h2, h3, h4]

/-- **the map layout is scaled absolutely too**: after any history of scale calls every node of
    `spatial_counts(cartesian=True)` is the node of the unscaled forecast times the factor in force (NaN stays NaN) -/
theorem cartesian_scale_absolute (F : Forecast) (ops : List ScaleOp) (pos : List (Nat × Nat)) (ny nx : Nat) :
    spatialCountsCartesian (runOps F ops) pos ny nx =
      (spatialCountsCartesian { F with scale := 1 } pos ny nx).map
        (List.map (Option.map (· * lastFactor F.scale ops))) := by
  obtain ⟨_, _, h3, _⟩ := runOps_base_scale F ops
  simp only [spatialCountsCartesian, getCartesian, spatialCounts_runOps, h3, List.map_map]
  apply List.map_congr_left
  intro i _
  simp only [Function.comp_apply, List.map_map]
  apply List.map_congr_left
  intro j _
  simp only [Function.comp_apply]
  cases cartIdx F.cells pos i j with
  | none => rfl
  | some k => simp [List.getElem?_map]

/-- node (i, j) shows the spatial count of cell `k` when `k` is the cell hashed there and its flag is 1
    (`some (some x)`: the node exists and holds the number `x`) -/
theorem cartesian_entry (F : Forecast) (pos : List (Nat × Nat)) (ny nx k i j : Nat) (c : Cell)
    (hnd : ((F.cells.zip pos).map Prod.snd).Nodup) (hk : (F.cells.zip pos)[k]? = some (c, (i, j))) (hf : c.flag = 1)
    (hi : i < ny) (hj : j < nx) :
    (spatialCountsCartesian F pos ny nx)[i]?.bind (·[j]?) = some ((spatialCounts F)[k]?) := by
  have hc : cartIdx F.cells pos i j = some k := by
    unfold cartIdx
    rw [hashLoop_hit (i, j) _ 0 (false, none) k c hnd hk]
    simp [hf]
  simp [spatialCountsCartesian, getCartesian, hi, hj, hc]

/-- a node to which only cells with a flag other than 1 (or no cell at all) are hashed shows NaN -/
theorem cartesian_masked (F : Forecast) (pos : List (Nat × Nat)) (ny nx i j : Nat)
    (h : ∀ e ∈ F.cells.zip pos, e.2 = (i, j) → e.1.flag ≠ 1) (hi : i < ny) (hj : j < nx) :
    (spatialCountsCartesian F pos ny nx)[i]?.bind (·[j]?) = some none := by
  have hc : cartIdx F.cells pos i j = none := by
    unfold cartIdx
    simp [hashLoop_mask (i, j) _ 0 (false, none) h]
  simp [spatialCountsCartesian, getCartesian, hi, hj, hc]

/-- **the map layout sums to the spatial marginal of the cells inside the region** (`numpy.nansum`), whatever the
    factor in force: distinct cells on distinct nodes of the ny × nx lattice -/
theorem cartesian_nansum (F : Forecast) (pos : List (Nat × Nat)) (ny nx : Nat)
    (hnd : ((F.cells.zip pos).map Prod.snd).Nodup) (hin : ∀ e ∈ F.cells.zip pos, e.2.1 < ny ∧ e.2.2 < nx) :
    nansum (spatialCountsCartesian F pos ny nx) = flaggedSum (F.cells.zip pos) (spatialCounts F) := by
  have h0 : nansum (spatialCountsCartesian F pos ny nx)
      = gridSum ny nx (fun p => shown (spatialCounts F) (hashLoop p (F.cells.zip pos) 0 (false, none))) := by
    simp only [nansum, spatialCountsCartesian, getCartesian, gridSum, List.map_map, Function.comp_def, shown, cartIdx]
  rw [h0]
  have h1 : (fun p => shown (spatialCounts F) (hashLoop p (F.cells.zip pos) 0 (false, none)))
      = valAt (F.cells.zip pos) (spatialCounts F) := by
    funext p
    rw [shown_hashLoop p _ 0 (false, none) _ hnd rfl]
    simp
  rw [h1]
  exact gridSum_valAt ny nx _ _ hin

/-- … and to the total expected count when no cell is flagged out -/
theorem cartesian_sum_total (F : Forecast) (pos : List (Nat × Nat)) (ny nx : Nat)
    (hshape : F.base.length = F.cells.length * F.mags.length) (hlen : pos.length = F.cells.length) (hnd : pos.Nodup)
    (hin : ∀ p ∈ pos, p.1 < ny ∧ p.2 < nx) (hflags : ∀ c ∈ F.cells, c.flag = 1) :
    nansum (spatialCountsCartesian F pos ny nx) = total F := by
  have hsnd : (F.cells.zip pos).map Prod.snd = pos := List.map_snd_zip (by omega)
  rw [cartesian_nansum F pos ny nx (by rw [hsnd]; exact hnd)
    (fun e he => hin e.2 (List.of_mem_zip (a := e.1) (b := e.2) he).2)]
  have hl : (spatialCounts F).length = (F.cells.zip pos).length := by
    simp only [spatialCounts, rowsOf, List.length_map, List.length_zip, hlen, Nat.min_self]
    exact chunks_count _ _ _
  rw [flaggedSum_all _ _ (fun e he => hflags e.1 (List.of_mem_zip (a := e.1) (b := e.2) he).1) hl]
  exact (marginals_sum F hshape).1

/-! ### calls that only read the forecast -/

theorem runCalls_fst (E : Env) (cs : List Call) (st : Forecast × List Obs) :
    (cs.foldl (stepCall E) st).1 = runOps st.1 (writesOf cs) := by
  induction cs generalizing st with
  | nil => rfl
  | cons c cs ih =>
    rw [List.foldl_cons, ih]
    cases c with
    | write o => simp [stepCall, writesOf, runOps]
    | read r => simp [stepCall, writesOf]

/-- **reading does not change the forecast.** After any history in which `target_event_rates(scale=True/False)`,
    `get_rates`, `sum`, `spatial_counts` (either layout), `magnitude_counts`, `data` are called between the scale
    calls, the forecast is the one the scale calls alone produce -/
theorem reads_leave_forecast (E : Env) (F : Forecast) (cs : List Call) :
    (runCalls E F cs).1 = runOps F (writesOf cs) := runCalls_fst E cs (F, [])

/-- hence the data are still base × the last factor set by a scale call -/
theorem reads_leave_data (E : Env) (F : Forecast) (cs : List Call) :
    data (runCalls E F cs).1 = F.base.map (· * lastFactor F.scale (writesOf cs)) := by
  rw [reads_leave_forecast, scale_absolute]

/-- what a read-only call returns depends only on the scale calls before it (not on earlier reads, not on how often
    it was asked) -/
theorem read_observation (E : Env) (F : Forecast) (pre : List Call) (r : Read) :
    (runCalls E F (pre ++ [.read r])).2 = (runCalls E F pre).2 ++ [observe E (runOps F (writesOf pre)) r] := by
  simp only [runCalls, List.foldl_append, List.foldl_cons, List.foldl_nil, stepCall]
  rw [runCalls_fst]

/-- asking twice gives the same answer twice -/
theorem read_twice_same (E : Env) (F : Forecast) (pre : List Call) (r : Read) :
    (runCalls E F (pre ++ [.read r, .read r])).2 =
      (runCalls E F pre).2 ++ [observe E (runOps F (writesOf pre)) r, observe E (runOps F (writesOf pre)) r] := by
  simp only [runCalls, List.foldl_append, List.foldl_cons, List.foldl_nil, stepCall]
  rw [runCalls_fst]
  simp

/-- `target_event_rates(catalog, scale=True)` after a history: base rate × factor in force / days, for every target
    event the unscaled forecast has a rate for; the reported total is total / days -/
theorem target_rates_runOps (F : Forecast) (ops : List ScaleOp) (d : Rat) (pts : List (Rat × Rat × Rat))
    (xs : List Rat) (h : pts.map (fun p => getRates { F with scale := 1 } p.1 p.2.1 p.2.2) = xs.map some) :
    (targetEventRates (runOps F ops) (some d) pts).1 = xs.map (fun x => some (x * lastFactor F.scale ops / d)) ∧
    (targetEventRates (runOps F ops) (some d) pts).2 = total (runOps F ops) / d := by
  refine ⟨?_, rfl⟩
  simp only [targetEventRates, Option.getD_some]
  induction pts generalizing xs with
  | nil => cases xs <;> simp_all
  | cons p pts ih =>
    cases xs with
    | nil => simp at h
    | cons x xs =>
      simp only [List.map_cons, List.cons.injEq] at h ⊢
      exact ⟨by rw [getRates_runOps F ops _ _ _ x h.1]; rfl, ih xs h.2⟩

/-! ### non-vacuity -/
section Examples
/-- two cells (second one flagged 0, listed first), two magnitude bins -/
def exFile : File := [
  ⟨-95/10, -94/10, 10, 101/10, 0, 30, 495/100, 505/100, 3/1000, 0⟩,
  ⟨-95/10, -94/10, 10, 101/10, 0, 30, 505/100, 515/100, 4/1000, 0⟩,
  ⟨-96/10, -95/10, 10, 101/10, 0, 30, 495/100, 505/100, 1/1000, 1⟩,
  ⟨-96/10, -95/10, 10, 101/10, 0, 30, 505/100, 515/100, 2/1000, 1⟩]

instance : Decidable (WellFormed exFile) := inferInstance
example : WellFormed exFile := by decide +kernel
-- lower corner of the second listed cell, lower edge of the second bin
example : (load false 10 (101/10) exFile).bind (fun F => getRates F (-96/10) 10 (505/100)) = some (2/1000) := by
  decide +kernel
example : (load false 10 (101/10) exFile).bind (fun F => getRates F (-95/10) 10 (505/100)) = none := by
  decide +kernel
example : (load false 10 (101/10) exFile).map (fun F => data (runOps F [.scale 2, .toTestDate none, .scale 3]))
    = some [9/1000, 12/1000, 3/1000, 6/1000] := by decide +kernel
-- the map layout of the example: the flagged cell (listed first, east) shows NaN, the other its spatial count x factor
example : (load false 10 (101/10) exFile).map (fun F => spatialCountsCartesian (runOps F [.scale 2]) [(0, 1), (0, 0)] 1 2)
    = some [[some (6/1000), none]] := by decide +kernel
-- read-only calls between scale calls: target_event_rates(scale=True) over 30 days at the lower corner, twice, then scale(3)
example : (load false 10 (101/10) exFile).map (fun F =>
      let r := runCalls ⟨[(-96/10, 10, 505/100)], [(0, 1), (0, 0)], 1, 2⟩ F
        [.read (.targetRates (some 30)), .read (.targetRates (some 30)), .write (.scale 3), .read .rates]
      (r.2, data r.1))
    = some ([.rates [some (2/30000)] (some (10/30000)), .rates [some (2/30000)] (some (10/30000)), .rates [some (6/1000)] none],
            [9/1000, 12/1000, 3/1000, 6/1000]) := by decide +kernel
end Examples

end ForecastFile
