import PycsepVerif.Properties.C05_Chain
import PycsepVerif.Proofs.PoissonStream

/-!
# C05, round 4 — `num_simulations` and the default random path inside the model

`Model/PoissonStream.lean`: which rows of `random_numbers` the loop reads (`runN`), and how the default path cuts the
global generator's uniform stream into one block per simulation (`runStream`).  Proved here: surplus rows are never read,
too few rows raise; the blocks are consecutive, disjoint and in order (their concatenation is a prefix of the stream), so the
k-th entry of the test distribution is the joint log-likelihood of the catalog placed from the k-th block; with these,
every entry on either path is the sum over ALL bins of log Poisson-pmf (the statements of `Properties/C05_Chain.lean`).
-/
namespace PoissonTest
open RealOps PoissonLL

section generic
variable {α : Type} [RealOps α]

theorem takeRows_eq_some (nsim : ℕ) (rows rs : List (List ℚ)) :
    takeRows nsim rows = some rs ↔ nsim ≤ rows.length ∧ rs = rows.take nsim := by
  unfold takeRows
  by_cases h : nsim ≤ rows.length
  · simp [h, eq_comm]
  · simp [h]

/-- **`num_simulations` rows are read, no more**: with at least `nsim` rows the test is the test on the first `nsim` rows —
    whatever follows them — and with fewer rows it raises (IndexError). -/
theorem runN_reads_first_rows (toQ : α → ℚ) (u n : Bool) (rates : List α) (obs draws : List ℕ) (nsim : ℕ)
    (rows extra : List (List ℚ)) (h : nsim ≤ rows.length) :
    runN toQ u n rates obs draws nsim (rows ++ extra) = run toQ u n rates obs draws (rows.take nsim) ∧
    runN toQ u n rates obs draws nsim rows = run toQ u n rates obs draws (rows.take nsim) := by
  unfold runN takeRows
  have h' : nsim ≤ (rows ++ extra).length := by rw [List.length_append]; omega
  simp only [h, h', if_true, List.take_append_of_le_length h, and_self]

theorem runN_too_few_rows (toQ : α → ℚ) (u n : Bool) (rates : List α) (obs draws : List ℕ) (nsim : ℕ)
    (rows : List (List ℚ)) (h : rows.length < nsim) : runN toQ u n rates obs draws nsim rows = none := by
  unfold runN takeRows
  simp [Nat.not_le.mpr h]

/-- **the test distribution has exactly `num_simulations` entries**, observed and simulated entries are `stat` of the
    arrays they belong to (`run_spec` through `runN`), and the quantile's denominator is `num_simulations`. -/
theorem runN_spec (toQ : α → ℚ) (u n : Bool) (rates : List α) (obs draws : List ℕ) (nsim : ℕ) (rows : List (List ℚ))
    (res : Result α) (hlen : rates.length = obs.length) (h : runN toQ u n rates obs draws nsim rows = some res) :
    res.simLL.length = nsim ∧ res.sims.length = nsim ∧ res.quantile.2 = nsim ∧
    res.obsLL = stat (u && n) (rates.zip obs) ∧
    res.simLL = res.sims.map (fun s => stat (u && n) (rates.zip s)) := by
  unfold runN at h
  split at h
  · cases h
  · rename_i rs hrs
    obtain ⟨hle, rfl⟩ := (takeRows_eq_some nsim rows rs).mp hrs
    obtain ⟨h1, h2, h3, _, _, h6⟩ := run_spec toQ u n rates obs draws _ res hlen h
    have hl : (rows.take nsim).length = nsim := by rw [List.length_take]; omega
    refine ⟨by rw [h2, List.length_map, h3, hl], by rw [h3, hl], by rw [h6]; exact hl, h1, h2⟩

end generic

/-! ### the default random path: blocks of the uniform stream -/

/-- the blocks have the requested lengths and their concatenation is the prefix of the stream of that total length:
    consecutive, disjoint, in order — no number is used twice, none is skipped -/
theorem chunks_spec : ∀ (ns : List ℕ) (s : List ℚ) (rows : List (List ℚ)), chunks ns s = some rows →
    rows.map List.length = ns ∧ rows.flatten = s.take ns.sum
  | [], s, rows, h => by
    simp only [chunks, Option.some.injEq] at h; subst h; simp
  | n :: ns, s, rows, h => by
    simp only [chunks] at h
    split at h
    · cases h
    · rename_i hlen
      cases hc : chunks ns (s.drop n) with
      | none => simp [hc] at h
      | some rest =>
        simp only [hc, Option.map_some, Option.some.injEq] at h
        subst h
        obtain ⟨g1, g2⟩ := chunks_spec ns (s.drop n) rest hc
        have hn : n ≤ s.length := Nat.le_of_not_lt hlen
        refine ⟨by simp [g1, List.length_take, hn], ?_⟩
        rw [List.flatten_cons, g2, List.sum_cons, List.take_add, List.take_drop]

/-- the default path succeeds in cutting the stream exactly when the stream is long enough -/
theorem chunks_isSome_iff : ∀ (ns : List ℕ) (s : List ℚ), (∃ rows, chunks ns s = some rows) ↔ ns.sum ≤ s.length
  | [], s => by simp [chunks]
  | n :: ns, s => by
    simp only [chunks, List.sum_cons]
    by_cases hlen : s.length < n
    · simp only [hlen, if_true, reduceCtorEq, exists_false, false_iff]; omega
    · simp only [hlen, if_false]
      have ih := chunks_isSome_iff ns (s.drop n)
      rw [List.length_drop] at ih
      constructor
      · rintro ⟨rows, h⟩
        cases hc : chunks ns (s.drop n) with
        | none => simp [hc] at h
        | some rest => have := ih.mp ⟨rest, hc⟩; omega
      · intro h
        obtain ⟨rest, hc⟩ := ih.mpr (by omega)
        exact ⟨_, by rw [hc]; rfl⟩

/-- the k-th block of a conditional test is `stream[k·N, (k+1)·N)` -/
theorem chunk_getElem (n nsim : ℕ) (s : List ℚ) (rows : List (List ℚ)) (h : chunk n nsim s = some rows) :
    rows.length = nsim ∧ ∀ k (hk : k < rows.length), rows[k] = (s.drop (k * n)).take n := by
  unfold chunk at h
  induction nsim generalizing s rows with
  | zero => simp only [List.replicate_zero, chunks, Option.some.injEq] at h; subst h; simp
  | succ m ih =>
    simp only [List.replicate_succ, chunks] at h
    split at h
    · cases h
    · cases hc : chunks (List.replicate m n) (s.drop n) with
      | none => simp [hc] at h
      | some rest =>
        simp only [hc, Option.map_some, Option.some.injEq] at h
        subst h
        obtain ⟨g1, g2⟩ := ih (s.drop n) rest hc
        refine ⟨by simp [g1], ?_⟩
        intro k hk
        cases k with
        | zero => simp
        | succ k =>
          simp only [List.getElem_cons_succ]
          rw [g2 k (by simpa using hk), List.drop_drop]
          congr 2
          ring

section generic
variable {α : Type} [RealOps α]

/-- **the default path is the injected path on the blocks of the stream** (definitionally the code's behaviour: each
    simulation calls `numpy.random.rand(num_events)`), with one block per simulation -/
theorem runStream_eq_run (toQ : α → ℚ) (n : Bool) (rates : List α) (obs : List ℕ) (nsim : ℕ) (stream : List ℚ)
    (res : Result α) (h : runStream toQ true n rates obs [] nsim stream = some res) :
    ∃ rows, chunk obs.sum nsim stream = some rows ∧ rows.length = nsim ∧
      (∀ k (hk : k < rows.length), rows[k] = (stream.drop (k * obs.sum)).take obs.sum) ∧
      run toQ true n rates obs [] rows = some res := by
  unfold runStream at h
  simp only [if_true, List.length_replicate, ne_eq, not_true_eq_false, if_false] at h
  cases hc : chunks (List.replicate nsim obs.sum) stream with
  | none => simp [hc] at h
  | some rows =>
    simp only [hc] at h
    obtain ⟨g1, g2⟩ := chunk_getElem obs.sum nsim stream rows hc
    refine ⟨rows, hc, g1, g2, ?_⟩
    -- `run` ignores `draws` when `use_observed_counts` is set
    unfold run at h ⊢
    simpa using h

end generic

/-- **C05 on the default random path, unnormalised statistic (CL):** every entry of the test distribution is the sum over
    ALL bins of log Poisson-pmf(simulated count | rate) of the catalog placed from ITS block of the stream; there are
    `num_simulations` entries. -/
theorem stream_entries_eq_sum_logpmf (toQ : ℝ → ℚ) (rates : List ℝ) (obs : List ℕ) (nsim : ℕ) (stream : List ℚ)
    (res : Result ℝ) (hlen : rates.length = obs.length) (hnn : ∀ r ∈ rates, 0 ≤ r)
    (h : runStream toQ true false rates obs [] nsim stream = some res) :
    res.obsLL = sumLogPmf (rates.zip obs) ∧ res.simLL = res.sims.map (fun s => sumLogPmf (rates.zip s)) ∧
    res.sims.length = nsim ∧
    ∀ k (hk : k < res.sims.length),
      Sampler.simulate (Sampler.weights (rates.map toQ)) ((stream.drop (k * obs.sum)).take obs.sum) = some res.sims[k] := by
  obtain ⟨rows, _, hrl, hrk, hrun⟩ := runStream_eq_run toQ false rates obs nsim stream res h
  obtain ⟨h1, h2⟩ := sim_entries_eq_sum_logpmf toQ true rates obs [] rows res hlen hnn hrun
  refine ⟨h1, h2, ?_, ?_⟩
  · rw [(run_spec toQ true false rates obs [] rows res hlen hrun).2.2.1, hrl]
  · intro k hk
    have hsl : res.sims.length = rows.length := (run_spec toQ true false rates obs [] rows res hlen hrun).2.2.1
    have hk' : k < rows.length := by omega
    rw [← hrk k hk']
    exact run_sims_getElem toQ true false rates obs [] rows res hrun k hk hk'

/-- … normalised statistic (S, M): rates scaled by `N_obs / N_fore` with the OBSERVED `N_obs` for every simulated catalog -/
theorem stream_entries_eq_sum_logpmf_norm (toQ : ℝ → ℚ) (rates : List ℝ) (obs : List ℕ) (nsim : ℕ) (stream : List ℚ)
    (res : Result ℝ) (hlen : rates.length = obs.length) (hnn : ∀ r ∈ rates, 0 ≤ r) (hpos : 0 < rates.sum)
    (h : runStream toQ true true rates obs [] nsim stream = some res) :
    res.obsLL = sumLogPmf (scaleBins (rates.zip obs) ((obs.sum : ℝ) / rates.sum)) ∧
    res.simLL = res.sims.map (fun s => sumLogPmf (scaleBins (rates.zip s) ((obs.sum : ℝ) / rates.sum))) ∧
    res.sims.length = nsim := by
  obtain ⟨rows, _, hrl, _, hrun⟩ := runStream_eq_run toQ true rates obs nsim stream res h
  obtain ⟨h1, h2⟩ := sim_entries_eq_sum_logpmf_norm toQ rates obs [] rows res hlen hnn hpos hrun
  exact ⟨h1, h2, by rw [(run_spec toQ true true rates obs [] rows res hlen hrun).2.2.1, hrl]⟩

/-- **totality on the default path**: a valid forecast array and a stream of at least `num_simulations · N_obs` numbers in
    [0, 1) (what `numpy.random.rand` yields) — the conditional tests return. -/
theorem runStream_total (toQ : ℝ → ℚ) (n : Bool) (rates : List ℝ) (obs : List ℕ) (nsim : ℕ) (stream : List ℚ)
    (hv : Sampler.ValidRates (rates.map toQ)) (hlen : nsim * obs.sum ≤ stream.length) (hlt : ∀ r ∈ stream, r < 1) :
    ∃ res, runStream toQ true n rates obs [] nsim stream = some res := by
  obtain ⟨rows, hc⟩ := (chunks_isSome_iff (List.replicate nsim obs.sum) stream).mpr (by simpa using hlen)
  obtain ⟨g1, g2⟩ := chunks_spec _ _ _ hc
  have hrows : ∀ row ∈ rows, row.length = obs.sum ∧ ∀ r ∈ row, r < 1 := by
    intro row hrow
    constructor
    · have : row.length ∈ rows.map List.length := List.mem_map.mpr ⟨row, hrow, rfl⟩
      rw [g1] at this
      exact (List.mem_replicate.mp this).2
    · intro r hr
      have : r ∈ rows.flatten := List.mem_flatten.mpr ⟨row, hrow, hr⟩
      rw [g2] at this
      exact hlt r (List.mem_of_mem_take this)
  obtain ⟨res, hres⟩ := run_total toQ n rates obs rows hv hrows
  refine ⟨res, ?_⟩
  unfold runStream
  simp only [if_true, List.length_replicate, ne_eq, not_true_eq_false, if_false, hc]
  unfold run at hres ⊢
  simpa using hres

/-! ### non-vacuity -/

example : chunk 2 2 [1/10, 2/10, 3/10, 4/10, 5/10] = some [[1/10, 2/10], [3/10, 4/10]] := by decide +kernel
example : chunks [1, 0, 2] [1/10, 2/10, 3/10, 4/10] = some [[1/10], [], [2/10, 3/10]] := by decide +kernel
example : takeRows 1 [[(1 : ℚ) / 2], [1 / 4]] = some [[1 / 2]] ∧ takeRows 3 [[(1 : ℚ) / 2], [1 / 4]] = none := by
  decide +kernel
-- forecast [1, 3], two observed events, two simulations from a stream of four numbers: the test returns
example : ∃ res, runStream (fun _ : ℝ => (1 : ℚ)) true true [(1 : ℝ), 3] [0, 2] [] 2 [0, 1/2, 1/2, 3/4] = some res :=
  runStream_total _ true _ _ _ _ ⟨by decide +kernel, by decide +kernel, ⟨1, by decide +kernel⟩⟩ (by decide)
    (by decide +kernel)

end PoissonTest
