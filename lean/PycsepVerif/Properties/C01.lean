import PycsepVerif.Proofs.Region
import PycsepVerif.Proofs.RegionBuild
import PycsepVerif.Proofs.RegionDecimal
import PycsepVerif.Proofs.RegionArea
import PycsepVerif.Proofs.RegionTabNz
import PycsepVerif.Proofs.RegionTabNzc
import PycsepVerif.Proofs.RegionTabItc
import PycsepVerif.Proofs.RegionTabCac

/-!
# C01 — Cartesian regions assign each point to the one half-open cell containing it

Theorems about `Model/Region.lean` (model of `CartesianGrid2D`, `filter_spatial`, `spatial_counts`).
All statements are for every lattice (anchor `ax ay`, spacing `dh > 0`, extent `nx ny`), every polygon list (any order,
holes, duplicates, mask flags) and every point or list of points; nothing is bounded.
`Lattice.region L cells` is the region object the constructor produces for polygons at lattice coordinates `cells`.
-/
namespace Region

/-- a lattice: anchor (lower-left corner of the bounding box), spacing, number of bounding-box columns and rows -/
structure Lattice where
  ax : Rat
  ay : Rat
  dh : Rat
  nx : Nat
  ny : Nat

/-- the region the constructor builds: `xs = ax + i·dh (i < nx)`, `ys = ay + j·dh (j < ny)` -/
def Lattice.region (L : Lattice) (cells : List Cell) : Region :=
  Region.new (regular L.ax L.dh L.nx) (regular L.ay L.dh L.ny) (L.ax + L.nx * L.dh) (L.ay + L.ny * L.dh) cells

/-- the half-open box of lattice cell (i, j) -/
def Lattice.inBox (L : Lattice) (i j : Nat) (p : Rat × Rat) : Prop :=
  (L.ax + i * L.dh ≤ p.1 ∧ p.1 < L.ax + (i + 1) * L.dh) ∧ (L.ay + j * L.dh ≤ p.2 ∧ p.2 < L.ay + (j + 1) * L.dh)

/-- polygon list fits the bounding box -/
def Lattice.Fits (L : Lattice) (cells : List Cell) : Prop := ∀ c ∈ cells, c.i < L.nx ∧ c.j < L.ny

/-- a proper lattice: positive spacing, at least two columns and two rows (a single column / row is the known
    finding D4, see `single_column_open`) -/
structure Lattice.Proper (L : Lattice) : Prop where
  dh_pos : 0 < L.dh
  nx2 : 2 ≤ L.nx
  ny2 : 2 ≤ L.ny

theorem Lattice.region_built (L : Lattice) (cells : List Cell) : (L.region cells).Built := rfl

/-- the column lookup is the exact half-open floor with the bounding-box extent check -/
theorem col_eq_iff (L : Lattice) (cells : List Cell) (hd : 0 < L.dh) (hn : 2 ≤ L.nx) (x : Rat) (i : Nat) :
    (L.region cells).col x = some i ↔ L.ax + i * L.dh ≤ x ∧ x < L.ax + (i + 1) * L.dh ∧ i < L.nx :=
  binE_regular_iff L.ax L.dh L.nx x i hd hn

theorem row_eq_iff (L : Lattice) (cells : List Cell) (hd : 0 < L.dh) (hn : 2 ≤ L.ny) (y : Rat) (j : Nat) :
    (L.region cells).row y = some j ↔ L.ay + j * L.dh ≤ y ∧ y < L.ay + (j + 1) * L.dh ∧ j < L.ny :=
  binE_regular_iff L.ay L.dh L.ny y j hd hn

/-- the same lookup written as the code writes it, `floor((x - a0) / h)` with the clamps (exact arithmetic) -/
theorem col_eq_floor (L : Lattice) (cells : List Cell) (hd : 0 < L.dh) (x : Rat) :
    (L.region cells).col x = binReg L.ax L.dh L.nx x :=
  (binReg_eq_binE L.ax L.dh L.nx x hd).symm

/-- on ANY strictly increasing edge array (the float edges `region.xs` need not be exactly regular) with at least two
    edges and an upper side above them: column i ⇔ xs[i] ≤ x < (xs[i+1], or the upper side for the last column) -/
theorem col_eq_iff_sorted (R : Region) (hs : R.xs.Pairwise (· < ·)) (hn : 2 ≤ R.xs.length)
    (htop : ∀ e ∈ R.xs, e < R.xtop) (x : Rat) (i : Nat) :
    R.col x = some i ↔ ∃ e, R.xs[i]? = some e ∧ e ≤ x ∧ x < (R.xs[i + 1]?).getD R.xtop :=
  binE_eq_some_iff R.xs R.xtop x i hs hn htop

/-- the column index is monotone in the coordinate -/
theorem col_mono (R : Region) (hs : R.xs.Pairwise (· < ·)) (hn : 2 ≤ R.xs.length)
    (htop : ∀ e ∈ R.xs, e < R.xtop) (x x' : Rat) (i i' : Nat) (hx : x ≤ x')
    (h : R.col x = some i) (h' : R.col x' = some i') : i ≤ i' := by
  obtain ⟨e, he, hle, _⟩ := (col_eq_iff_sorted R hs hn htop x i).mp h
  obtain ⟨e', he', _, hup⟩ := (col_eq_iff_sorted R hs hn htop x' i').mp h'
  by_contra hlt
  have hlt : i' + 1 ≤ i := by omega
  have hi := (List.getElem?_eq_some_iff.mp he).1
  have hi1 : i' + 1 < R.xs.length := by omega
  have hget : R.xs[i' + 1]? = some R.xs[i' + 1] := List.getElem?_eq_getElem hi1
  rw [hget] at hup
  simp only [Option.getD_some] at hup
  have hee : R.xs[i' + 1] ≤ e := by
    rcases Nat.lt_or_ge (i' + 1) i with hl | hg
    · have := List.pairwise_iff_getElem.mp hs (i' + 1) i hi1 hi hl
      rw [(List.getElem?_eq_some_iff.mp he).2] at this
      exact le_of_lt this
    · have : i' + 1 = i := by omega
      subst this
      rw [(List.getElem?_eq_some_iff.mp he).2]
  linarith

/-- a coordinate exactly on a cell boundary belongs to the cell that boundary opens -/
theorem boundary_opens (L : Lattice) (cells : List Cell) (hd : 0 < L.dh) (hn : 2 ≤ L.nx) (x : Rat) (i : Nat)
    (hx : x = L.ax + i * L.dh) (hi : i < L.nx) : (L.region cells).col x = some i := by
  rw [col_eq_iff L cells hd hn]
  subst hx
  refine ⟨le_refl _, ?_, hi⟩
  linarith

/-- known finding D4 on the model: a single-column region is open-ended to the east -/
theorem single_column_open (L : Lattice) (cells : List Cell) (h1 : L.nx = 1) (x : Rat) :
    (L.region cells).col x = if L.ax ≤ x then some 0 else none := by
  unfold Region.col Lattice.region Region.new
  simp only [h1, regular]
  exact binE_single _ _ _

/-- half-open boxes of different lattice cells are disjoint -/
theorem cells_disjoint (L : Lattice) (hd : 0 < L.dh) (i j i' j' : Nat) (p : Rat × Rat)
    (h : L.inBox i j p) (h' : L.inBox i' j' p) : i = i' ∧ j = j' := by
  obtain ⟨⟨a1, a2⟩, ⟨b1, b2⟩⟩ := h
  obtain ⟨⟨c1, c2⟩, ⟨d1, d2⟩⟩ := h'
  have key : ∀ (a x : Rat) (m n : Nat), a + m * L.dh ≤ x → x < a + (n + 1) * L.dh → m ≤ n := by
    intro a x m n h1 h2
    have : (m : Rat) * L.dh < (n + 1) * L.dh := by linarith
    have : (m : Rat) < n + 1 := lt_of_mul_lt_mul_right this (le_of_lt hd)
    have : (m : Rat) < ((n + 1 : Nat) : Rat) := by push_cast; exact this
    have := Nat.cast_lt.mp this
    omega
  exact ⟨Nat.le_antisymm (key _ _ _ _ a1 c2) (key _ _ _ _ c1 a2), Nat.le_antisymm (key _ _ _ _ b1 d2) (key _ _ _ _ d1 b2)⟩

/-- position of a point in the bounding box ⇔ its half-open box -/
theorem col_row_iff_inBox (L : Lattice) (cells : List Cell) (hP : L.Proper) (p : Rat × Rat) (i j : Nat) :
    ((L.region cells).col p.1 = some i ∧ (L.region cells).row p.2 = some j) ↔ L.inBox i j p ∧ i < L.nx ∧ j < L.ny := by
  rw [col_eq_iff L cells hP.dh_pos hP.nx2, row_eq_iff L cells hP.dh_pos hP.ny2]
  unfold Lattice.inBox
  constructor
  · rintro ⟨⟨a, b, c⟩, d, e, f⟩; exact ⟨⟨⟨a, b⟩, d, e⟩, c, f⟩
  · rintro ⟨⟨⟨a, b⟩, d, e⟩, c, f⟩; exact ⟨⟨a, b, c⟩, d, e, f⟩

/-- THE partition: the point is attributed to polygon k ⇔ polygon k's half-open box contains the point, some polygon
    listed at that lattice position may unmask it, and k is the last polygon listed at that position -/
theorem cellOf_eq_some_iff (L : Lattice) (cells : List Cell) (hP : L.Proper) (hF : L.Fits cells) (p : Rat × Rat) (k : Nat) :
    (L.region cells).cellOf p = some k ↔
      ∃ c, cells[k]? = some c ∧ L.inBox c.i c.j p ∧
        (∃ c' ∈ cells, c'.valid = true ∧ c'.i = c.i ∧ c'.j = c.j) ∧
        (∀ k' c', k < k' → cells[k']? = some c' → ¬ (c'.i = c.i ∧ c'.j = c.j)) := by
  have hB := L.region_built cells
  constructor
  · intro h
    unfold Region.cellOf at h
    cases hc : (L.region cells).col p.1 with
    | none => rw [hc] at h; simp [Region.cellAt] at h
    | some i =>
      cases hr : (L.region cells).row p.2 with
      | none => rw [hc, hr] at h; simp [Region.cellAt] at h
      | some j =>
        rw [hc, hr] at h
        obtain ⟨hact, hlast⟩ := (cellAt_eq_some_iff _ hB i j k).mp h
        obtain ⟨⟨c, hget, hci, hcj⟩, hafter⟩ := (lastAt_eq_some_iff _ i j k).mp hlast
        have hbox := ((col_row_iff_inBox L cells hP p i j).mp ⟨hc, hr⟩).1
        refine ⟨c, hget, by rw [hci, hcj]; exact hbox, by rw [hci, hcj]; exact hact, by rw [hci, hcj]; exact hafter⟩
  · rintro ⟨c, hget, hbox, hact, hafter⟩
    have hmem : c ∈ cells := List.mem_of_getElem? hget
    obtain ⟨hi, hj⟩ := hF c hmem
    obtain ⟨hc, hr⟩ := (col_row_iff_inBox L cells hP p c.i c.j).mpr ⟨hbox, hi, hj⟩
    unfold Region.cellOf
    rw [hc, hr]
    exact (cellAt_eq_some_iff _ hB c.i c.j k).mpr ⟨hact, (lastAt_eq_some_iff _ c.i c.j k).mpr ⟨⟨c, hget, rfl, rfl⟩, hafter⟩⟩

/-- outside ⇔ no active cell's half-open box contains the point -/
theorem cellOf_eq_none_iff (L : Lattice) (cells : List Cell) (hP : L.Proper) (hF : L.Fits cells) (p : Rat × Rat) :
    (L.region cells).cellOf p = none ↔ ¬ ∃ c ∈ cells, c.valid = true ∧ L.inBox c.i c.j p := by
  have hB := L.region_built cells
  constructor
  · intro h
    rintro ⟨c, hmem, hv, hbox⟩
    obtain ⟨hi, hj⟩ := hF c hmem
    obtain ⟨hc, hr⟩ := (col_row_iff_inBox L cells hP p c.i c.j).mpr ⟨hbox, hi, hj⟩
    unfold Region.cellOf at h
    rw [hc, hr] at h
    exact (cellAt_eq_none_iff _ hB c.i c.j).mp h ⟨c, hmem, hv, rfl, rfl⟩
  · intro h
    unfold Region.cellOf
    cases hc : (L.region cells).col p.1 with
    | none => simp [Region.cellAt]
    | some i =>
      cases hr : (L.region cells).row p.2 with
      | none => simp [Region.cellAt]
      | some j =>
        apply (cellAt_eq_none_iff _ hB i j).mpr
        rintro ⟨c, hmem, hv, hci, hcj⟩
        have hbox := ((col_row_iff_inBox L cells hP p i j).mp ⟨hc, hr⟩).1
        exact h ⟨c, hmem, hv, by rw [hci, hcj]; exact hbox⟩

/-- `get_index_of` returns k for a point ⇔ k is the LAST listed polygon of an active lattice position whose
    half-open box contains the point -/
theorem getIndexOf_ok_iff (L : Lattice) (cells : List Cell) (hP : L.Proper) (hF : L.Fits cells) (p : Rat × Rat) (k : Nat) :
    (L.region cells).getIndexOf [p] = .ok [k] ↔
      ∃ c, cells[k]? = some c ∧ L.inBox c.i c.j p ∧
        (∃ c' ∈ cells, c'.valid = true ∧ c'.i = c.i ∧ c'.j = c.j) ∧
        (∀ k' c', k < k' → cells[k']? = some c' → ¬ (c'.i = c.i ∧ c'.j = c.j)) := by
  rw [← cellOf_eq_some_iff L cells hP hF p k, getIndexOf_eq _ (L.region_built cells)]
  cases h : (L.region cells).cellOf p with
  | none => simp [h]
  | some m => simp [h]

/-- `get_masked` flags a point ⇔ no active cell contains it -/
theorem getMasked_iff (L : Lattice) (cells : List Cell) (hP : L.Proper) (hF : L.Fits cells) (p : Rat × Rat) :
    (L.region cells).getMasked [p] = [true] ↔ ¬ ∃ c ∈ cells, c.valid = true ∧ L.inBox c.i c.j p := by
  rw [← cellOf_eq_none_iff L cells hP hF p, getMasked_eq _ (L.region_built cells)]
  cases h : (L.region cells).cellOf p <;> simp [h]

/-- `get_index_of` raises ValueError ⇔ `get_masked` flags the point (any region built by the constructor) -/
theorem index_error_iff_masked (R : Region) (hB : R.Built) (p : Rat × Rat) :
    R.getIndexOf [p] = .error .outside ↔ R.getMasked [p] = [true] := by
  rw [getIndexOf_eq R hB, getMasked_eq R hB]
  cases h : R.cellOf p <;> simp [h]

/-- … and for arrays: ValueError ⇔ at least one point is flagged -/
theorem index_error_iff_any_masked (R : Region) (hB : R.Built) (pts : List (Rat × Rat)) :
    R.getIndexOf pts = .error .outside ↔ true ∈ R.getMasked pts := by
  rw [getIndexOf_eq R hB, getMasked_eq R hB]
  by_cases hall : pts.all (fun p => (R.cellOf p).isSome) = true
  · simp only [hall, if_true, reduceCtorEq, false_iff, List.mem_map, not_exists, not_and]
    rw [List.all_eq_true] at hall
    intro p hp h
    have := hall p hp
    cases hc : R.cellOf p <;> simp [hc] at this h
  · simp only [hall, Bool.false_eq_true, if_false, true_iff, List.mem_map]
    have : ∃ p ∈ pts, (R.cellOf p).isSome = false := by
      by_contra hcon
      apply hall
      rw [List.all_eq_true]
      intro p hp
      by_contra hne
      exact hcon ⟨p, hp, by simpa using hne⟩
    obtain ⟨p, hp, hnone⟩ := this
    refine ⟨p, hp, ?_⟩
    cases hc : R.cellOf p <;> simp [hc] at hnone ⊢

/-- with pairwise distinct lattice coordinates at most one polygon contains a point, and `get_index_of` returns
    exactly that one: k ⇔ polygon k is valid and its half-open box contains the point -/
theorem unique_cell (L : Lattice) (cells : List Cell) (hP : L.Proper) (hF : L.Fits cells)
    (hD : cells.Pairwise (fun c c' => ¬ (c.i = c'.i ∧ c.j = c'.j))) (p : Rat × Rat) (k : Nat) :
    (L.region cells).getIndexOf [p] = .ok [k] ↔ ∃ c, cells[k]? = some c ∧ c.valid = true ∧ L.inBox c.i c.j p := by
  rw [getIndexOf_ok_iff L cells hP hF]
  have hdist : ∀ (a b : Nat) (ca cb : Cell), cells[a]? = some ca → cells[b]? = some cb →
      (ca.i = cb.i ∧ ca.j = cb.j) → a = b := by
    intro a b ca cb ha hb hab
    by_contra hne
    rcases Nat.lt_or_gt_of_ne hne with hlt | hgt
    · have := List.pairwise_iff_getElem.mp hD a b (List.getElem?_eq_some_iff.mp ha).1 (List.getElem?_eq_some_iff.mp hb).1 hlt
      rw [(List.getElem?_eq_some_iff.mp ha).2, (List.getElem?_eq_some_iff.mp hb).2] at this
      exact this hab
    · have := List.pairwise_iff_getElem.mp hD b a (List.getElem?_eq_some_iff.mp hb).1 (List.getElem?_eq_some_iff.mp ha).1 hgt
      rw [(List.getElem?_eq_some_iff.mp ha).2, (List.getElem?_eq_some_iff.mp hb).2] at this
      exact this ⟨hab.1.symm, hab.2.symm⟩
  constructor
  · rintro ⟨c, hget, hbox, ⟨c', hmem, hv, hi, hj⟩, _⟩
    obtain ⟨m, hm, hmc⟩ := List.getElem_of_mem hmem
    have hgm : cells[m]? = some c' := by rw [List.getElem?_eq_getElem hm, hmc]
    have : m = k := hdist m k c' c hgm hget ⟨hi, hj⟩
    subst this
    rw [hget] at hgm
    have : c = c' := Option.some.inj hgm
    subst this
    exact ⟨c, hget, hv, hbox⟩
  · rintro ⟨c, hget, hv, hbox⟩
    refine ⟨c, hget, hbox, ⟨c, List.mem_of_getElem? hget, hv, rfl, rfl⟩, ?_⟩
    intro k' c' hk hget' hsame
    have := hdist k' k c' c hget' hget hsame
    omega

/-- index lookup, masking, spatial filtering of a catalog, per-cell event counts and the bounding-box array all
    agree with the single partition function `cellOf` (any region built by the constructor, any list of points) -/
theorem apis_agree (R : Region) (hB : R.Built) (pts : List (Rat × Rat)) :
    R.getMasked pts = pts.map (fun p => (R.cellOf p).isNone) ∧
    R.filterSpatial pts = pts.filter (fun p => (R.cellOf p).isSome) ∧
    R.getIndexOf pts = (if pts.all (fun p => (R.cellOf p).isSome) then .ok (pts.map fun p => (R.cellOf p).getD 0)
      else .error .outside) ∧
    R.spatialCounts pts = (if pts.all (fun p => (R.cellOf p).isSome) then
        .ok ((List.range R.cells.length).map fun k => pts.countP (fun p => R.cellOf p == some k))
      else .error .outside) :=
  ⟨getMasked_eq R hB pts, filterSpatial_eq R hB pts, getIndexOf_eq R hB pts, spatialCounts_eq R hB pts⟩

/-- `get_cartesian`: the bounding-box array shows, at column c and row r, the datum of the polygon the partition puts
    there (nan where no active cell is) -/
theorem cartesian_agrees {α} (R : Region) (data : List α) (r c : Nat) (hr : r < R.ys.length) (hc : c < R.xs.length) :
    ((R.getCartesian data)[r]?.bind (·[c]?)) = some ((R.cellAt (some c) (some r)).bind (fun k => data[k]?)) :=
  getCartesian_entry R data r c hr hc

/-- permuting the polygon list permutes indices and nothing else: with pairwise distinct lattice positions, the polygon
    (flags and coordinates, looked up through its index in the respective list) a point is attributed to is the same
    for every order of the list -/
theorem order_irrelevant (L : Lattice) (cells cells' : List Cell) (hp : cells.Perm cells')
    (hD : cells.Pairwise (fun c c' => ¬ SameSpot c c')) (p : Rat × Rat) :
    ((L.region cells).cellOf p).bind (fun k => cells[k]?) = ((L.region cells').cellOf p).bind (fun k => cells'[k]?) := by
  unfold Region.cellOf
  exact cellAt_perm _ _ _ _ cells cells' hp hD _ _

/-! ### the round-off band of the property -/

/-- the exact answer is always among the answers the property allows -/
theorem exact_mem_allowed (R : Region) (p : Rat × Rat) : R.cellOf p ∈ R.allowed p := by
  unfold Region.allowed Region.cellOf
  rw [List.mem_eraseDups, List.mem_flatMap]
  exact ⟨R.col p.1, binE_mem_binAllowed _ _ _, List.mem_map.mpr ⟨R.row p.2, binE_mem_binAllowed _ _ _, rfl⟩⟩

/-- outside the band (the next boundary above each coordinate is further away than `band`) — in particular for a
    coordinate AT or above a boundary with respect to that boundary — the exact answer is the only allowed one -/
theorem allowed_exact_outside_band (R : Region) (p : Rat × Rat)
    (hx : ∀ b, boundary R.xs R.xtop (cnt R.xs p.1) = some b → p.1 < b → band (R.xs.headD 0) p.1 (cnt R.xs p.1) < b - p.1)
    (hy : ∀ b, boundary R.ys R.ytop (cnt R.ys p.2) = some b → p.2 < b → band (R.ys.headD 0) p.2 (cnt R.ys p.2) < b - p.2) :
    R.allowed p = [R.cellOf p] := by
  unfold Region.allowed Region.cellOf Region.col Region.row
  rw [binAllowed_exact _ _ _ hx, binAllowed_exact _ _ _ hy]
  simp [List.eraseDups_cons]

/-! ### the hypotheses are satisfiable: a 3 × 2 lattice with a hole, a duplicate and a masked polygon -/

def exL : Lattice := ⟨-1, 0, 1/2, 3, 2⟩
def exCells : List Cell := [⟨0, 0, true⟩, ⟨1, 0, false⟩, ⟨2, 1, true⟩, ⟨0, 0, true⟩, ⟨1, 1, true⟩]

example : exL.Proper := ⟨by decide +kernel, by decide, by decide⟩
example : exL.Fits exCells := by unfold Lattice.Fits exCells exL; decide
example : (exL.region exCells).getIndexOf [(-1, 0)] = .ok [3] := by decide +kernel         -- corner, last duplicate wins
example : (exL.region exCells).getIndexOf [(-1/2, 1/4)] = .error .outside := by decide +kernel   -- masked polygon
example : (exL.region exCells).getMasked [(-1/2, 1/4), (0, 1/2), (1/2, 1/2), (0, 0)] = [true, false, true, true] := by
  decide +kernel
example : (exL.region exCells).spatialCounts [(-1, 0), (0, 1/2), (-3/4, 1/4)] = .ok [0, 0, 1, 2, 0] := by decide +kernel
example : ([⟨0, 0, true⟩, ⟨1, 0, false⟩, ⟨2, 1, true⟩] : List Cell).Pairwise (fun c c' => ¬ SameSpot c c') := by
  unfold SameSpot; decide
-- one ulp-sized step below the boundary x = 0 of the lattice anchored at -1: both columns are allowed; at the boundary only one
example : (exL.region exCells).allowed (-1 / 2 ^ 60, 3/4) = [some 4, some 2] := by decide +kernel
example : (exL.region exCells).allowed (0, 3/4) = [some 2] := by decide +kernel
-- float-like, not exactly regular edges satisfy the hypotheses of `col_eq_iff_sorted` / `col_mono`
example : ([1/10, 3602879701896397/18014398509481984, 5404319552844595/18014398509481984] : List Rat).Pairwise (· < ·) := by
  decide +kernel

/-! ### the float construction path (Soft64 layer, `Model/RegionBuild.lean`): which (i, j) the CODE hashes a polygon to

`NearLattice a dh xs` (Proofs/RegionHash.lean): the float edge array `xs` has 2 ≤ n ≤ 2^16 entries, each within 2^-41 of the
exact lattice `a + k·dh`, with `dh ≥ 2^-20` and all lattice coordinates `a … a + n·dh` inside [−2^10, 2^10].
(2^-41 = four units in the last place at magnitude 2^10: nearest doubles of a decimal lattice, the output of
`cleaner_range`, and origins computed as `anchor + k*dh` in binary64 all qualify.) -/

/-- **`bin1d_vec` is exact in the middle half of every bin** (default float64 configuration, closed mode; any edge array,
stated with the FLOAT step `h = bins[1] − bins[0]` and first edge `a0`): tolerances `|a0|ε, |p|ε ≤ h/2^20`,
`a0 + (i + 1/4)h ≤ p ≤ a0 + (i + 3/4)h`, `p` below the next edge and below the upper side, `i ≤ 2^16` ⟹ bin i.
(The "safe" direction of the float formula that C02 leaves to its oracle, for interior points.) -/
theorem interior_bin_exact {n : ℕ} (hn : 1 < n) (hn53 : (n : ℤ) ≤ 2 ^ 53) (edge : ℕ → ℚ) (p : ℚ) (i : ℕ)
    (hi : i < n) (hi16 : i ≤ 2 ^ 16)
    (hh : Soft64.pow2 (-1000) ≤ Bin1d.hOf .f64 n edge)
    (hat : Bin1d.getTol .f64 (edge 0) ≤ Bin1d.hOf .f64 n edge / 2 ^ 20)
    (hpt : Bin1d.getTol .f64 p ≤ Bin1d.hOf .f64 n edge / 2 ^ 20)
    (hlo : edge 0 + ((i : ℚ) + 1 / 4) * Bin1d.hOf .f64 n edge ≤ p)
    (hhi : p ≤ edge 0 + ((i : ℚ) + 3 / 4) * Bin1d.hOf .f64 n edge)
    (hnext : i + 1 < n → p < edge (i + 1))
    (htop : p < Bin1d.topOf .f64 n edge) :
    Bin1d.bin1dCore (Bin1d.cfg64 false) n edge p = (i : ℤ) :=
  Bin1d.bin1dCore_interior hn hn53 edge p i hi hi16 hh hat hpt hlo hhi hnext htop

/-- a float within 2^-36 of the exact centre of lattice cell i is binned to i by `bin1d_vec(·, xs)` -/
theorem cell_centre_hash_exact (a dh : ℚ) (xs : List ℚ) (H : NearLattice a dh xs) (i : ℕ) (hi : i < xs.length) (m : ℚ)
    (hm : |m - (a + ((i : ℚ) + 1 / 2) * dh)| ≤ 1 / 2 ^ 36) :
    binF xs.toArray m = (i : ℤ) := by
  rw [binF_eq]; exact hash_axis a dh xs H i hi m hm

/-- **C01 `midpoint_hash_correct`** (DESIGN §4): for a lattice with `dh ≥ 2^-20`, coordinates within ±2^10 and at most 2^16
columns and rows, the FLOAT midpoint of cell (i, j) — `Polygon.centroid()` of `compute_vertex(o, dhf, eps)` for an origin `o`
within 2^-41 of the lattice point (i, j) and a float spacing `dhf` within 2^-41 of `dh` — is binned by `bin1d_vec` against the
float edge arrays `xs`, `ys` to exactly (i, j): the code's hash agrees with the lattice coordinate. -/
theorem midpoint_hash_correct (ax ay dh : ℚ) (xs ys : List ℚ) (Hx : NearLattice ax dh xs) (Hy : NearLattice ay dh ys)
    (i j : ℕ) (hi : i < xs.length) (hj : j < ys.length) (o : ℚ × ℚ) (dhf : ℚ)
    (hox : |o.1 - (ax + (i : ℚ) * dh)| ≤ 1 / 2 ^ 41) (hoy : |o.2 - (ay + (j : ℚ) * dh)| ≤ 1 / 2 ^ 41)
    (hdh : |dhf - dh| ≤ 1 / 2 ^ 41) :
    binF xs.toArray (centroidF (computeVertex o dhf Soft64.eps64)).1 = (i : ℤ) ∧
    binF ys.toArray (centroidF (computeVertex o dhf Soft64.eps64)).2 = (j : ℤ) := by
  rw [binF_eq, binF_eq]
  exact ⟨midpoint_hash_axis_x ax dh xs Hx i hi o dhf hox hdh, midpoint_hash_axis_y ay dh ys Hy j hj o dhf hoy hdh⟩

/-- … hence the loop of `_build_bitmask_vec` records polygon k of `from_origins(os, dhf)` at its lattice position (i, j)
with its own flag: the cell list of the float construction is the cell list the exact-layer theorems above talk about -/
theorem fromOrigins_hashes_lattice (ax ay dh dhf : ℚ) (os : List (ℚ × ℚ)) (flags : Option (List Bool)) (dec : ℕ × ℕ × ℕ)
    (Hx : NearLattice ax dh (fromOrigins os dhf flags dec).xs) (Hy : NearLattice ay dh (fromOrigins os dhf flags dec).ys)
    (hdh : |dhf - dh| ≤ 1 / 2 ^ 41) (k i j : ℕ) (o : ℚ × ℚ) (hk : os[k]? = some o)
    (hi : i < (fromOrigins os dhf flags dec).xs.length) (hj : j < (fromOrigins os dhf flags dec).ys.length)
    (hox : |o.1 - (ax + (i : ℚ) * dh)| ≤ 1 / 2 ^ 41) (hoy : |o.2 - (ay + (j : ℚ) * dh)| ≤ 1 / 2 ^ 41) :
    (fromOrigins os dhf flags dec).cells[k]? = some ⟨i, j, flagOf flags k⟩ ∧
    (fromOrigins os dhf flags dec).cells.length = os.length ∧
    (fromOrigins os dhf flags dec).region.Built :=
  ⟨fromOrigins_cell ax ay dh dhf os flags dec Hx Hy hdh k i j o hk hi hj hox hoy, fromOrigins_cells_length os dhf flags dec, rfl⟩

/-- **end to end, decimal lattices**: let the cell origins be the nearest doubles of `((Sx + i·D)/10^m, (Sy + j·D)/10^m)` for
lattice coordinates `cs` (any order, holes, duplicates; every side of the `nx × ny` bounding box is touched), the spacing the
nearest double of `D/10^m`, and let `repr` show m decimals; ranges as in `DecAxis` (m ≤ 22, 2 ≤ nx, ny ≤ 2^16, dh ≥ 2^-20,
coordinates within ±2^10, |S| + n·D ≤ 2^50). Then the float constructor produces `xs`, `ys` = the nearest doubles of the
decimal grid (C02 `cleanerRange_exact`) and hashes polygon k to exactly its lattice coordinates `cs[k]`, with its own flag:
the region the code builds IS the region of the exact-layer theorems. No hypothesis on computed quantities remains. -/
theorem decimal_lattice_construction (Sx Sy D : ℤ) (m nx ny : ℕ) (cs : List (ℕ × ℕ)) (flags : Option (List Bool))
    (Ax : DecAxis Sx D m nx) (Ay : DecAxis Sy D m ny)
    (hin : ∀ c ∈ cs, c.1 < nx ∧ c.2 < ny)
    (hx0 : 0 ∈ cs.map (·.1)) (hx1 : nx - 1 ∈ cs.map (·.1)) (hy0 : 0 ∈ cs.map (·.2)) (hy1 : ny - 1 ∈ cs.map (·.2)) :
    (fromOrigins (latticeOrigins Sx Sy D m cs) (dhPt D m) flags (m, m, m)).xs = Bin1d.decimalGrid Sx D m nx ∧
    (fromOrigins (latticeOrigins Sx Sy D m cs) (dhPt D m) flags (m, m, m)).ys = Bin1d.decimalGrid Sy D m ny ∧
    (fromOrigins (latticeOrigins Sx Sy D m cs) (dhPt D m) flags (m, m, m)).cells.length = cs.length ∧
    ∀ k (hk : k < cs.length),
      (fromOrigins (latticeOrigins Sx Sy D m cs) (dhPt D m) flags (m, m, m)).cells[k]?
        = some ⟨cs[k].1, cs[k].2, flagOf flags k⟩ :=
  fromOrigins_decimal Sx Sy D m nx ny cs flags Ax Ay hin hx0 hx1 hy0 hy1

/-- **`from_origins` without `dh`** (regions.py:745-753 after fix d4a1abe, D30): the spacing inferred from the decimal strings of
the first two origins — which differ by a, b ∈ {−1, 0, 1} steps of `D/10^m`, not both zero (adjacent cells, as the code
assumes) — is the double nearest to `D/10^m`, i.e. exactly the `dh` of `decimal_lattice_construction`: leaving `dh` out builds
the same region as passing it. (That `repr` shows the decimals `(S + i·D)/10^m` for their nearest doubles is the model input
supplied and checked by the harness.) -/
theorem inferred_spacing_exact (D : ℤ) (m : ℕ) (hD : 0 < D) (r0 r1 : ℚ × ℚ) (a b : ℤ)
    (ha : a = 0 ∨ a = 1 ∨ a = -1) (hb : b = 0 ∨ b = 1 ∨ b = -1) (hab : a ≠ 0 ∨ b ≠ 0)
    (hx : r1.1 - r0.1 = (a : ℚ) * ((D : ℚ) / ((10 ^ m : ℕ) : ℚ)))
    (hy : r1.2 - r0.2 = (b : ℚ) * ((D : ℚ) / ((10 ^ m : ℕ) : ℚ))) :
    inferDh r0 r1 = dhPt D m :=
  inferDh_decimal D m hD r0 r1 a b ha hb hab hx hy

/-- labelled tests, kernel-evaluated: on the edge arrays of the shipped NZ, NZ-collection, Italy-collection and
California-collection regions EVERY column's and row's float midpoint (origin = the edge, dh = 0.1) is hashed to its own index -/
theorem table_shipped_midpoints :
    midsOwnBin Bin1d.Tables.nzxRaw dh01 false = true ∧ midsOwnBin Bin1d.Tables.nzyRaw dh01 true = true ∧
    midsOwnBin Bin1d.Tables.nzcxRaw dh01 false = true ∧ midsOwnBin Bin1d.Tables.nzcyRaw dh01 true = true ∧
    midsOwnBin Bin1d.Tables.itcxRaw dh01 false = true ∧ midsOwnBin Bin1d.Tables.itcyRaw dh01 true = true ∧
    midsOwnBin Bin1d.Tables.cacxRaw dh01 false = true ∧ midsOwnBin Bin1d.Tables.cacyRaw dh01 true = true :=
  ⟨Tables.tabNzX, Tables.tabNzY, Tables.tabNzcX, Tables.tabNzcY, Tables.tabItcX, Tables.tabItcY, Tables.tabCacX, Tables.tabCacY⟩

/-! ### the remaining lookups -/

/-- `get_location_of([k])`, k a polygon number, returns polygon k; a negative index counts from the end (Python list
indexing); any other index raises IndexError -/
theorem location_of_index (n k : ℕ) (hk : k < n) : getLocationOf n [(k : ℤ)] = .ok [k] := getLocationOf_nat n k hk
theorem location_of_negative_index (n k : ℕ) (hk0 : 0 < k) (hk : k ≤ n) : getLocationOf n [-(k : ℤ)] = .ok [n - k] :=
  getLocationOf_neg n k hk0 hk
theorem location_index_error (n : ℕ) (z : ℤ) (h : z < -(n : ℤ) ∨ (n : ℤ) ≤ z) : getLocationOf n [z] = .error .indexError :=
  getLocationOf_out n z h

/-- `origins()` of the region built by `from_origins` are the origins given; `from_dict(to_dict(r))` re-runs the same
construction on them (same spacing; mask and magnitudes are not part of the dictionary) -/
theorem origins_roundtrip (os : List (ℚ × ℚ)) (dhf : ℚ) (flags : Option (List Bool)) (dec : ℕ × ℕ × ℕ) (name : String) :
    (fromOrigins os dhf flags dec).origins = os ∧
    fromDict (toDict name dhf (fromOrigins os dhf flags dec)) dec = (fromOrigins os dhf none dec, none) := by
  refine ⟨fromOrigins_origins os dhf flags dec, ?_⟩
  rw [fromDict_toDict, fromOrigins_origins]

/-- `geographical_area_from_bounds` (hence `get_cell_area`) in any field, with any `pi` and cosine: the code-shaped formula
with its `==` short-cut equals the closed form `2π·(C(lat2) − C(lat1))·R²·(lon2 − lon1)/360`, `C(lat) = cos((90 − lat)π/180)` -/
theorem area_eq_closed_form {F : Type} [Field F] (pi : F) (cosF : F → F) (isEq : F → F → Bool)
    (hEq : ∀ a b, isEq a b = true ↔ a = b) (lon1 lat1 lon2 lat2 : F) :
    areaFromBounds pi cosF isEq lon1 lat1 lon2 lat2 = areaClosed pi cosF lon1 lat1 lon2 lat2 :=
  areaFromBounds_eq_closed pi cosF isEq hEq lon1 lat1 lon2 lat2

/-- the area is additive over a partition of a cell into two latitude bands, and into two longitude slices -/
theorem area_additive {F : Type} [Field F] (pi : F) (cosF : F → F) (isEq : F → F → Bool)
    (hEq : ∀ a b, isEq a b = true ↔ a = b) (lon1 lon2 lon3 lat1 lat2 lat3 : F) :
    areaFromBounds pi cosF isEq lon1 lat1 lon2 lat2 + areaFromBounds pi cosF isEq lon1 lat2 lon2 lat3
      = areaFromBounds pi cosF isEq lon1 lat1 lon2 lat3 ∧
    areaFromBounds pi cosF isEq lon1 lat1 lon2 lat2 + areaFromBounds pi cosF isEq lon2 lat1 lon3 lat2
      = areaFromBounds pi cosF isEq lon1 lat1 lon3 lat2 :=
  ⟨area_additive_lat pi cosF isEq hEq lon1 lon2 lat1 lat2 lat3, area_additive_lon pi cosF isEq hEq lon1 lon2 lon3 lat1 lat2⟩

/-- over ℝ with the real π and cosine a cell with `lon1 < lon2`, `−90 ≤ lat1 < lat2 ≤ 90` has positive area -/
theorem area_pos (isEq : ℝ → ℝ → Bool) (hEq : ∀ a b, isEq a b = true ↔ a = b) (lon1 lat1 lon2 lat2 : ℝ)
    (hlon : lon1 < lon2) (h1 : -90 ≤ lat1) (h12 : lat1 < lat2) (h2 : lat2 ≤ 90) :
    0 < areaFromBounds Real.pi Real.cos isEq lon1 lat1 lon2 lat2 :=
  area_pos_real isEq hEq lon1 lat1 lon2 lat2 hlon h1 h12 h2

/-! ### the hypotheses are satisfiable: real data -/

-- the NZ region's float edge arrays are near the decimal lattice 165.7 + 0.1 k, −47.8 + 0.1 k
example : NearLattice (1657 / 10) (1 / 10) (Bin1d.ofRaw Bin1d.Tables.nzxRaw) := nearLattice_of_B _ _ _ (by decide +kernel)
example : NearLattice (-478 / 10) (1 / 10) (Bin1d.ofRaw Bin1d.Tables.nzyRaw) := nearLattice_of_B _ _ _ (by decide +kernel)

/-- a 3 × 2 lattice anchored at (0.3, −0.2) with dh = 0.1 and a hole, origins as nearest doubles, `repr` decimals (1, 1, 1) -/
def exOrigins : List (ℚ × ℚ) :=
  [(Soft64.fl64 (3 / 10), Soft64.fl64 (-2 / 10)), (Soft64.fl64 (5 / 10), Soft64.fl64 (-2 / 10)),
   (Soft64.fl64 (4 / 10), Soft64.fl64 (-1 / 10)), (Soft64.fl64 (3 / 10), Soft64.fl64 (-1 / 10))]

example : NearLattice (3 / 10) (1 / 10) (fromOrigins exOrigins dh01 none (1, 1, 1)).xs := nearLattice_of_B _ _ _ (by decide +kernel)
example : NearLattice (-2 / 10) (1 / 10) (fromOrigins exOrigins dh01 none (1, 1, 1)).ys := nearLattice_of_B _ _ _ (by decide +kernel)
-- … and the float construction indeed records the four polygons at columns 0, 2, 1, 0 and rows 0, 0, 1, 1
example : (fromOrigins exOrigins dh01 none (1, 1, 1)).cells = [⟨0, 0, true⟩, ⟨2, 0, true⟩, ⟨1, 1, true⟩, ⟨0, 1, true⟩] := by
  decide +kernel
example : (fromOrigins exOrigins dh01 none (1, 1, 1)).xs.length = 3 ∧ (fromOrigins exOrigins dh01 none (1, 1, 1)).ys.length = 2 := by
  decide +kernel
-- the hypotheses of `decimal_lattice_construction`: the 3 × 2 lattice above is Sx = 3, Sy = −2, D = 1, m = 1
example : DecAxis 3 1 1 3 := ⟨by norm_num, by norm_num, by norm_num, by norm_num, by norm_num, by norm_num, by norm_num, by norm_num⟩
example : DecAxis (-2) 1 1 2 := ⟨by norm_num, by norm_num, by norm_num, by norm_num, by norm_num, by norm_num, by norm_num, by norm_num⟩
example : latticeOrigins 3 (-2) 1 1 [(0, 0), (2, 0), (1, 1), (0, 1)] = exOrigins := by decide +kernel
example : dhPt 1 1 = dh01 := by decide +kernel
-- the NZ testing region: 135 × 139 columns / rows at (1657 + i)/10, (−478 + j)/10
example : DecAxis 1657 1 1 135 := ⟨by norm_num, by norm_num, by norm_num, by norm_num, by norm_num, by norm_num, by norm_num, by norm_num⟩
example : DecAxis (-478) 1 1 139 := ⟨by norm_num, by norm_num, by norm_num, by norm_num, by norm_num, by norm_num, by norm_num, by norm_num⟩
-- a polygon whose midpoint falls outside the bounding box wraps around to the last column and stays masked (numpy a[-1])
example : cellOfHash 5 4 (-1) 2 true = ⟨4, 2, false⟩ := by decide
example : getLocationOf 5 [0, -1, 4] = .ok [0, 4, 4] := by decide
example : getLocationOf 5 [5] = .error .indexError := by decide

/-! ### `from_origins(origins)` WITHOUT `dh` (D30, fixed by d4a1abe) -/

/-- the witness of D30: origins −9.6, −9.5, −9.4 × 10.0, 10.1 (nearest doubles) -/
def obsOrigins : List (ℚ × ℚ) :=
  [(Soft64.fl64 (-96 / 10), 10), (Soft64.fl64 (-95 / 10), 10), (Soft64.fl64 (-94 / 10), 10),
   (Soft64.fl64 (-96 / 10), Soft64.fl64 (101 / 10)), (Soft64.fl64 (-95 / 10), Soft64.fl64 (101 / 10)),
   (Soft64.fl64 (-94 / 10), Soft64.fl64 (101 / 10))]

-- the repaired code: the spacing is inferred from the decimal strings −9.6, 10.0 and −9.5, 10.0 → exactly the float 0.1 …
example : inferDh (-96 / 10, 10) (-95 / 10, 10) = dh01 := by decide +kernel
-- … the edges are the nearest doubles of −9.6, −9.5, −9.4 / 10.0, 10.1, every polygon sits at its lattice position and the
-- region's own first origin is found in column 0
example : (fromOrigins obsOrigins (inferDh (-96 / 10, 10) (-95 / 10, 10)) none (1, 1, 1)).xs = Bin1d.decimalGrid (-96) 1 1 3 ∧
    (fromOrigins obsOrigins (inferDh (-96 / 10, 10) (-95 / 10, 10)) none (1, 1, 1)).ys = Bin1d.decimalGrid 100 1 1 2 ∧
    (fromOrigins obsOrigins (inferDh (-96 / 10, 10) (-95 / 10, 10)) none (1, 1, 1)).cells =
      [⟨0, 0, true⟩, ⟨1, 0, true⟩, ⟨2, 0, true⟩, ⟨0, 1, true⟩, ⟨1, 1, true⟩, ⟨2, 1, true⟩] ∧
    binF (fromOrigins obsOrigins (inferDh (-96 / 10, 10) (-95 / 10, 10)) none (1, 1, 1)).xs.toArray (Soft64.fl64 (-96 / 10)) = 0 := by
  decide +kernel
-- HISTORICAL witness (code before d4a1abe, `inferDhFloat`): the float difference −9.5 − (−9.6) = 0.09999999999999964 (17 decimals)
-- sent `cleaner_range` down its fallback path with scale = 1/dh; every edge was displaced by ~3·10^-14, the region's own origin
-- −9.6 lay below xs[0] and was reported outside
-- (`fromOriginsOld`: with `cleaner_range` as it was before fix D49 — the repaired fallback no longer moves the start, see
-- Properties/C02_Repr.lean `fallback_first_edge`; with it even the noisy spacing would leave the origin inside)
example : Soft64.fl64 (-96 / 10) < ((fromOriginsOld obsOrigins (inferDhFloat obsOrigins) none (1, 1, 17)).xs.headD 0) ∧
    binF (fromOriginsOld obsOrigins (inferDhFloat obsOrigins) none (1, 1, 17)).xs.toArray (Soft64.fl64 (-96 / 10)) = -1 := by
  decide +kernel

end Region
