import PycsepVerif.Proofs.JsonRecords
import PycsepVerif.Properties.C18

/-!
# C18 — whole files: results with dict-valued fields, EvaluationConfiguration, Event, FileSystem, region dictionaries

Theorems about `Model/JsonRecords.lean`.  Every `to_dict` builds ONE dict, `write_json` encodes it (`encode`),
`load_json` / `load_evaluation_result` decode the file (`decode`) and call `from_dict`.
-/
namespace JsonTree
open ResultJson (F64)

/-! ## evaluation results as one JSON object -/

/-- C18, whole-file form: a result of a known class whose nine fields have safe kinds — dicts with string keys, nested
    lists / tuples / arrays, numpy scalars, NaN / ±inf / None — is written as one JSON object and loaded back by
    `load_evaluation_result` as the same class with every field equal (normal form). -/
theorem result_roundtrip_tree (r : TResult) (hc : r.cls ∈ ResultJson.resultClasses) (td : PyObj)
    (htd : tdListT r.testDistribution = some td) (h0 : Safe r.testDistribution)
    (h1 : Safe r.name) (h2 : Safe r.observedStatistic) (h3 : Safe r.quantile) (h4 : Safe r.status)
    (h5 : Safe r.obsCatalogRepr) (h6 : Safe r.simName) (h7 : Safe r.obsName) (h8 : Safe r.minMw) :
    ∃ j, writeT r = some j ∧ loadT j = .ok (normTResult r td) := by
  have hs := tdListT_safe htd h0
  have hsafe : Safe (.dict (PyKVs.ofList [("name", r.name), ("sim_name", r.simName), ("obs_name", r.obsName),
      ("obs_catalog_repr", r.obsCatalogRepr), ("quantile", r.quantile), ("observed_statistic", r.observedStatistic),
      ("test_distribution", td), ("status", r.status), ("min_mw", r.minMw), ("type", .str r.cls)])) := by
    simp [Safe, SafeKVs, PyKVs.ofList, Key.isStr, PyKVs.hasKey, *]
  obtain ⟨j, e1, e2, _⟩ := rt_safe _ hsafe
  refine ⟨j, by simp [writeT, TResult.toDict, htd, e1], ?_⟩
  simp [loadT, e2, loadDict, norm, normKVs, PyKVs.ofList, PyObj.item, PyKVs.get,
    ResultJson.factory_total r.cls hc, normTResult, bind, Except.bind, pure, Except.pure]

/-- the whole-file model agrees with the field-by-field model of `Model/ResultJson.lean` on the class it builds:
    a stored type that is no factory key is a KeyError, a file without 'type' loads as the base class -/
theorem load_type_dispatch :
    (∀ kvs, kvs.get "type" = some (.str "NoSuchResult") → loadDict (.dict kvs) = .error .keyError) ∧
    (loadDict (.dict (PyKVs.ofList [("test_distribution", .list .nil), ("name", .none), ("observed_statistic", .none),
        ("quantile", .none), ("sim_name", .none), ("obs_name", .none), ("obs_catalog_repr", .str ""),
        ("status", .str ""), ("min_mw", .none)]))).toOption.map (·.cls) = some "EvaluationResult" := by
  constructor
  · intro kvs h
    have : ResultJson.factory "NoSuchResult" = none := by decide
    simp [loadDict, PyObj.item, h, this, bind, Except.bind, pure, Except.pure, throw, throwThe, MonadExceptOf.throw]
  · have : ResultJson.factory "default" = some "EvaluationResult" := by decide
    simp [loadDict, PyObj.item, PyKVs.get, PyKVs.ofList, this, bind, Except.bind, pure, Except.pure, Except.toOption]

/-- a dict used as `test_distribution` is NOT preserved: `list(d)` keeps its keys only -/
theorem dict_distribution_keeps_keys_only (v : PyObj) :
    tdListT (.dict (.cons (.kstr "a") v .nil)) = some (.list (.cons (.str "a") .nil)) := rfl

/-! ## EvaluationConfiguration -/

/-- an EvaluationConfiguration whose nine attributes have safe kinds is written and loaded back with every attribute
    equal (normal form); `evaluations or []` (models.py:226) commutes with the round trip -/
theorem evalcfg_roundtrip (c : EvalConfig)
    (h1 : Safe c.computeTime) (h2 : Safe c.catalogFile) (h3 : Safe c.forecastFile) (h4 : Safe c.forecastName)
    (h5 : Safe c.nCat) (h6 : Safe c.evalStartEpoch) (h7 : Safe c.evalEndEpoch) (h8 : Safe c.gitHash)
    (h9 : Safe c.evaluations) :
    ∃ j, encode c.toDict = some j ∧
      EvalConfig.fromDict (decode j) = .ok (EvalConfig.new (norm c.computeTime) (norm c.catalogFile)
        (norm c.forecastFile) (norm c.nCat) (norm c.evalStartEpoch) (norm c.evalEndEpoch) (norm c.gitHash)
        (norm c.evaluations) (norm c.forecastName)) := by
  have hsafe : Safe c.toDict := by
    simp [EvalConfig.toDict, Safe, SafeKVs, PyKVs.ofList, Key.isStr, PyKVs.hasKey, *]
  obtain ⟨j, e1, e2, _⟩ := rt_safe _ hsafe
  refine ⟨j, e1, ?_⟩
  simp [e2, EvalConfig.toDict, EvalConfig.fromDict, norm, normKVs, PyKVs.ofList, PyObj.item, PyKVs.get,
    bind, Except.bind, pure, Except.pure]

/-- for a configuration as the constructor leaves it (`evaluations` truthy or `[]`) the loaded object is the
    normal form of the original, attribute by attribute -/
theorem evalcfg_new_norm (c : EvalConfig) (h : truthy c.evaluations = true ∨ c.evaluations = .list .nil) :
    EvalConfig.new (norm c.computeTime) (norm c.catalogFile) (norm c.forecastFile) (norm c.nCat)
      (norm c.evalStartEpoch) (norm c.evalEndEpoch) (norm c.gitHash) (norm c.evaluations) (norm c.forecastName)
      = c.norm := by
  rcases h with h | h
  · simp [EvalConfig.new, EvalConfig.norm, truthy_norm, h]
  · simp [EvalConfig.new, EvalConfig.norm, h, norm, normL, truthy, PyList.isNil]

/-- the constructor establishes that invariant -/
theorem evalcfg_new_invariant (a b c d e f g ev n : PyObj) :
    truthy (EvalConfig.new a b c d e f g ev n).evaluations = true ∨
      (EvalConfig.new a b c d e f g ev n).evaluations = .list .nil := by
  cases h : truthy ev <;> simp [EvalConfig.new, h]

/-- a dictionary lacking one of the nine keys is a KeyError; anything that is not a dict a TypeError -/
theorem evalcfg_missing_key :
    EvalConfig.fromDict (.dict (PyKVs.ofList [("compute_time", .none)])) = .error .keyError ∧
    EvalConfig.fromDict (.list .nil) = .error .typeError := by
  constructor <;> simp [EvalConfig.fromDict, PyObj.item, PyKVs.get, PyKVs.ofList, bind, Except.bind]

/-- update_version then the getters, on a configuration that went through a file: the entry written by
    `update_version` is found again, with the fnames as a list -/
theorem evalcfg_update_then_get :
    let c0 := EvalConfig.new .none .none .none .none .none .none .none .none .none
    let c1 := c0.updateVersion "n-test" (.str "1.0") (.tuple (.cons (.str "a.json") .nil))
    (c1.map (fun c => c.getVersion "n-test")) = some (.ok (.str "1.0")) ∧
    (c1.map (fun c => c.getVersion "other")) = some (.ok .none) ∧
    ((c1.bind (fun c => c.updateVersion "n-test" (.str "2.0") .none)).map (fun c => c.getVersion "n-test"))
      = some (.ok (.str "2.0")) := by
  simp [EvalConfig.new, truthy, EvalConfig.updateVersion, updateAll, PyList.append, evalEntry, PyKVs.ofList,
    EvalConfig.getVersion, evalList, lookupEval, PyObj.item, PyKVs.get, PyKVs.set]

/-! ## Event -/

/-- an Event with safe attributes is read back with the same attributes and its time truncated to whole
    milliseconds (to_dict stores `datetime_to_utc_epoch`, an int of milliseconds) … -/
theorem event_roundtrip (e : Event) (h1 : Safe e.id) (h2 : Safe e.magnitude) (h3 : Safe e.latitude)
    (h4 : Safe e.longitude) :
    ∃ j, encode e.toDict = some j ∧
      Event.fromDict (decode j) = .ok
        { id := norm e.id, magnitude := norm e.magnitude, latitude := norm e.latitude,
          longitude := norm e.longitude, timeMicros := e.timeMicros.map (fun us => 1000 * microsToEpochMs us) } := by
  have hsafe : Safe e.toDict := by
    cases ht : e.timeMicros <;>
      simp [Event.toDict, ht, Safe, SafeKVs, PyKVs.ofList, Key.isStr, PyKVs.hasKey, *]
  obtain ⟨j, e1, e2, _⟩ := rt_safe _ hsafe
  refine ⟨j, e1, ?_⟩
  cases ht : e.timeMicros <;>
    simp [e2, Event.toDict, ht, Event.fromDict, norm, normKVs, PyKVs.ofList, PyObj.item, PyKVs.get,
      bind, Except.bind, pure, Except.pure]

/-- … so the time survives exactly when it has no sub-millisecond part -/
theorem event_time_exact_iff (us : Int) : 1000 * microsToEpochMs us = us ↔ us % 1000 = 0 := by
  unfold microsToEpochMs; omega

/-- counter-example: 1 µs after the epoch comes back as the epoch; 1 µs before it as 1 ms before -/
theorem event_microseconds_lost : 1000 * microsToEpochMs 1 = 0 ∧ 1000 * microsToEpochMs (-1) = -1000 := by decide

/-! ## FileSystem -/

/-- a FileSystem repository description survives `to_dict` → file → `from_dict` -/
theorem repo_roundtrip (r : Repo) (h : Safe r.name) :
    ∃ j, encode r.toDict = some j ∧ Repo.fromDict (decode j) = .ok { name := norm r.name, url := r.url } := by
  have hsafe : Safe r.toDict := by simp [Repo.toDict, Safe, SafeKVs, PyKVs.ofList, Key.isStr, PyKVs.hasKey, h]
  obtain ⟨j, e1, e2, _⟩ := rt_safe _ hsafe
  refine ⟨j, e1, ?_⟩
  simp [e2, Repo.toDict, Repo.fromDict, norm, normKVs, PyKVs.ofList, PyKVs.get, repoKeysOk]

/-- `cls(**adict)`: an unexpected key is a TypeError, missing keys take the defaults -/
theorem repo_from_dict_keys :
    Repo.fromDict (.dict (PyKVs.ofList [("url", .str "u"), ("nme", .str "x")])) = .error .typeError ∧
    Repo.fromDict (.dict .nil) = .ok { name := .str "filesystem", url := "" } := by
  constructor <;> simp [Repo.fromDict, PyKVs.ofList, repoKeysOk, PyKVs.get]

/-! ## Cartesian region dictionaries -/

/-- `from_dict(to_dict(g))`: the same origins in the same order, the same dh; the mask and the magnitudes are
    dropped, the name becomes `str(name)` -/
theorem region_dict_roundtrip (g : Grid) (hne : g.origins ≠ []) :
    Grid.fromDict g.toDict = .ok { origins := g.origins, dh := g.dh, mask := none,
                                   name := some (nameStr g.name), magnitudes := none } := by
  have he : g.origins.isEmpty = false := by cases h : g.origins <;> simp_all
  simp [Grid.fromDict, Grid.toDict, PyKVs.ofList, PyKVs.getOrNone, PyKVs.get, PyObj.isNone, readPolys_polysOf,
    floatPairs_pairObjs, he]

/-- … also through a file: `write_json(region)` then `load_json(CartesianGrid2D, …)` -/
theorem region_file_roundtrip (g : Grid) (hne : g.origins ≠ []) :
    ∃ j, encode g.toDict = some j ∧
      Grid.fromDict (decode j) = .ok { origins := g.origins, dh := g.dh, mask := none,
                                       name := some (nameStr g.name), magnitudes := none } := by
  have hp : Plain g.toDict := by
    simp [Grid.toDict, Plain, PlainKVs, PyKVs.ofList, Key.isStr, PyKVs.hasKey, polysOf_plain]
  obtain ⟨j, e1, e2, _⟩ := rt_safe _ (plain_safe _ hp)
  refine ⟨j, e1, ?_⟩
  rw [e2, plain_norm _ hp]
  exact region_dict_roundtrip g hne

/-- C18 (regions): an UNMASKED Cartesian region — with or without magnitudes bound — rebuilt from its dictionary
    assigns every point the same cell index as the original, whatever real number each stored bit pattern denotes -/
theorem region_same_index (g g' : Grid) (hm : g.mask = none) (h : Grid.fromDict g.toDict = .ok g')
    (val : F64 → Rat) (p : Rat × Rat) :
    (g'.toRegion val).indexOf p = (g.toRegion val).indexOf p := by
  have hne : g.origins ≠ [] := by
    intro h0
    simp [Grid.fromDict, Grid.toDict, PyKVs.ofList, PyKVs.getOrNone, PyKVs.get, PyObj.isNone, h0, polysOf, readPolys,
      floatPairs] at h
  rw [region_dict_roundtrip g hne] at h
  cases h
  cases g with
  | mk origins dh mask name magnitudes =>
    cases name <;> simp_all [Grid.toRegion, nameStr]

/-- the rebuilt region is the SAME rational lattice as the original (so every observable of
    `ResultJson.Region` agrees, cf. `ResultJson.rebuild_any_observable`) -/
theorem region_same_lattice (g : Grid) (hm : g.mask = none) (hne : g.origins ≠ []) (val : F64 → Rat) :
    ∃ g', Grid.fromDict g.toDict = .ok g' ∧ g'.toRegion val = g.toRegion val ∧
      g'.toRegion val = ResultJson.Region.fromDict (g.toRegion val).toDict := by
  refine ⟨_, region_dict_roundtrip g hne, ?_, ?_⟩
  · cases g with
    | mk origins dh mask name magnitudes => cases name <;> simp_all [Grid.toRegion, nameStr]
  · cases g with
    | mk origins dh mask name magnitudes =>
      cases name <;> simp [Grid.toRegion, nameStr, ResultJson.Region.fromDict, ResultJson.Region.toDict]

/-- the magnitudes are NOT stored: a region with magnitudes comes back without them (outside the property's text,
    which speaks about cell indices) -/
theorem region_magnitudes_dropped (g : Grid) (ms : List F64) (hne : g.origins ≠ []) (hg : g.magnitudes = some ms) :
    ∃ g', Grid.fromDict g.toDict = .ok g' ∧ g'.magnitudes = none ∧ g'.magnitudes ≠ g.magnitudes :=
  ⟨_, region_dict_roundtrip g hne, rfl, by simp [hg]⟩

/-- … but a dictionary that HAS a 'magnitudes' member binds them -/
theorem region_magnitudes_optional (g : Grid) (ms : List F64) (hne : g.origins ≠ []) :
    Grid.fromDict (g.toDictWithMags ms) = .ok { origins := g.origins, dh := g.dh, mask := none,
                                                name := some (nameStr g.name), magnitudes := some ms } := by
  have he : g.origins.isEmpty = false := by cases h : g.origins <;> simp_all
  simp [Grid.fromDict, Grid.toDictWithMags, PyKVs.ofList, PyKVs.getOrNone, PyKVs.get, PyObj.isNone,
    readPolys_polysOf, floatPairs_pairObjs, floatList_ofList, he]

/-- which inputs give AttributeError: exactly the non-dicts and the dicts whose 'polygons' or 'dh' is missing or null -/
theorem region_from_dict_error_iff (d : PyObj) :
    Grid.fromDict d = .error .attributeError ↔
      ((∀ kvs, d ≠ .dict kvs) ∨
       ∃ kvs, d = .dict kvs ∧ ((kvs.getOrNone "polygons").isNone = true ∨ (kvs.getOrNone "dh").isNone = true)) := by
  constructor
  · intro h
    cases d with
    | dict kvs =>
      right
      refine ⟨kvs, rfl, ?_⟩
      cases hp : (kvs.getOrNone "polygons").isNone with
      | true => exact Or.inl rfl
      | false =>
        cases hd : (kvs.getOrNone "dh").isNone with
        | true => exact Or.inr rfl
        | false =>
          exfalso
          simp only [Grid.fromDict, hp, hd] at h
          repeat' split at h
          all_goals first
            | (simp_all; done)
            | (rename_i hq; repeat' split at hq
               all_goals simp_all)
    | _ => left; intro kvs hk; cases hk
  · rintro (h | ⟨kvs, rfl, h | h⟩)
    · cases d <;> first | rfl | exact absurd rfl (h _)
    · simp [Grid.fromDict, h]
    · cases hp : (kvs.getOrNone "polygons").isNone <;> simp [Grid.fromDict, h, hp]

/-- a polygon entry that is not a dict with both 'lon' and 'lat' (missing key, list, None, …) gives TypeError — when
    'polygons' and 'dh' are present -/
theorem region_bad_polygon_typeError (kvs : PyKVs) (ps : PyList) (hp : kvs.getOrNone "polygons" = .list ps)
    (hd : (kvs.getOrNone "dh").isNone = false) (hbad : readPolys ps = none) :
    Grid.fromDict (.dict kvs) = .error .typeError := by
  simp [Grid.fromDict, hp, hd, hbad]
  simp [PyObj.isNone]

/-- 'polygons' = [] passes from_dict's own checks and fails in from_origins with IndexError -/
theorem region_empty_polygons_indexError (kvs : PyKVs) (hp : kvs.getOrNone "polygons" = .list .nil)
    (hd : (kvs.getOrNone "dh").isNone = false) (hm : kvs.getOrNone "magnitudes" = .none) :
    Grid.fromDict (.dict kvs) = .error .indexError := by
  simp [Grid.fromDict, hp, hd, hm, readPolys, floatPairs]
  simp [PyObj.isNone]

/-- QuadtreeGrid2D.to_dict writes name and origins only: it is never accepted by CartesianGrid2D.from_dict
    (there is no QuadtreeGrid2D.from_dict) -/
theorem quadtree_dict_is_not_a_cartesian_dict (name : Option String) (origins : List (F64 × F64)) :
    Grid.fromDict (quadToDict name origins) = .error .attributeError := by
  simp [Grid.fromDict, quadToDict, PyKVs.ofList, PyKVs.getOrNone, PyKVs.get, PyObj.isNone]

/-- … although the quadtree dictionary itself survives a file unchanged -/
theorem quadtree_dict_file_roundtrip (name : Option String) (origins : List (F64 × F64)) :
    roundTrip (quadToDict name origins) = some (quadToDict name origins) := by
  have hp : Plain (quadToDict name origins) := by
    simp [quadToDict, Plain, PlainKVs, PyKVs.ofList, Key.isStr, PyKVs.hasKey, polysOf_plain]
  obtain ⟨j, e1, e2, _⟩ := rt_safe _ (plain_safe _ hp)
  simp [roundTrip, e1, e2, plain_norm _ hp]

/-! ## non-vacuity -/

-- a result with a dict-valued field meets the hypotheses of result_roundtrip_tree
example : ∃ r : TResult, r.cls ∈ ResultJson.resultClasses ∧ (tdListT r.testDistribution).isSome ∧
    Safe r.testDistribution ∧ Safe r.quantile ∧ Safe r.name ∧ Safe r.minMw :=
  ⟨{ cls := "CatalogNumberTestResult", testDistribution := .ndarray (.cons (.pyFloat (.num 3)) .nil),
     name := .str "N", observedStatistic := .npInt64 3,
     quantile := .dict (.cons (.kstr "delta1") (.npFloat64 .nan) (.cons (.kstr "delta2") .none .nil)),
     status := .str "normal", obsCatalogRepr := .str "", simName := .str "f", obsName := .str "c",
     minMw := .npFloat64 (.num 4) },
   by decide, rfl, by simp [Safe, SafeL], by simp [Safe, SafeKVs, Key.isStr, PyKVs.hasKey], by simp [Safe], by simp [Safe]⟩
-- a region with two cells, magnitudes bound, unmasked
example : Grid.fromDict (Grid.toDict
      { origins := [(.num 0, .num 0), (.num 1, .num 0)], dh := .num 1, mask := none,
        name := none, magnitudes := some [.num 5] }) =
    .ok { origins := [(.num 0, .num 0), (.num 1, .num 0)], dh := .num 1, mask := none, name := some "None",
          magnitudes := none } :=
  region_dict_roundtrip _ (by simp)
-- an event at 1.5 ms
example : 1000 * microsToEpochMs 1500 ≠ 1500 := by decide

end JsonTree
