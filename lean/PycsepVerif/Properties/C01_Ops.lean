import PycsepVerif.Properties.C01
import PycsepVerif.Proofs.RegionOps

/-!
# C01 — operations that derive a region from a region, or change a catalog through a region

Theorems about `Model/RegionOps.lean`: `masked_region` (the new region is the old partition restricted to the kept cells),
`increase_grid_resolution` (exact layer: the four children partition their parent cell), `__eq__` / `to_dict` / `from_dict`
(a region rebuilt from origins, dh and mask is the same partition), and `CSEPCatalog.filter_spatial` as a state machine
(region re-binding, `in_place`, `update_stats`): survivors are exactly the events the single partition `cellOf` puts in a
cell, in every mode; filtering is idempotent; after filtering, index lookup and per-cell counts cannot raise.
-/
namespace Region

/-! ### masked_region -/

/-- the lattice of the bounding box that starts at column `i0`, row `j0` of `L` and has `nx' × ny'` positions -/
def Lattice.window (L : Lattice) (i0 j0 nx' ny' : ℕ) : Lattice :=
  ⟨L.ax + i0 * L.dh, L.ay + j0 * L.dh, L.dh, nx', ny'⟩

/-- a cell of the window is the same half-open box as the cell of the old lattice it came from -/
theorem window_inBox (L : Lattice) (i0 j0 nx' ny' i j : ℕ) (hi : i0 ≤ i) (hj : j0 ≤ j) (p : ℚ × ℚ) :
    (L.window i0 j0 nx' ny').inBox (i - i0) (j - j0) p ↔ L.inBox i j p := by
  unfold Lattice.inBox Lattice.window
  simp only
  rw [Nat.cast_sub hi, Nat.cast_sub hj]
  have e1 : L.ax + (i0 : ℚ) * L.dh + ((i : ℚ) - i0) * L.dh = L.ax + i * L.dh := by ring
  have e2 : L.ax + (i0 : ℚ) * L.dh + ((i : ℚ) - i0 + 1) * L.dh = L.ax + (i + 1) * L.dh := by ring
  have e3 : L.ay + (j0 : ℚ) * L.dh + ((j : ℚ) - j0) * L.dh = L.ay + j * L.dh := by ring
  have e4 : L.ay + (j0 : ℚ) * L.dh + ((j : ℚ) - j0 + 1) * L.dh = L.ay + (j + 1) * L.dh := by ring
  rw [e1, e2, e3, e4]

/-- **`masked_region` restricts the partition** (regions.py:376-392). Old region: lattice `L`, polygons at pairwise distinct
positions `cells`. `keep` = `polygon.contains(region.midpoints())`. The new region is built from the kept polygons alone, so
its bounding box is the window `(i0, j0, nx', ny')` around them (at least two columns and rows; a single one is D4). Then the
new region attributes a point to new polygon k' ⇔ the point lies in the half-open box — of the OLD lattice — of the kept
polygon number k'. Cells keep their boxes; nothing else is attributed. -/
theorem masked_region_restricts (L : Lattice) (cells : List Cell) (keep : List Bool) (i0 j0 nx' ny' : ℕ)
    (hd : 0 < L.dh) (hnx : 2 ≤ nx') (hny : 2 ≤ ny')
    (hD : cells.Pairwise (fun c c' => ¬ (c.i = c'.i ∧ c.j = c'.j)))
    (hwin : ∀ c ∈ compress cells keep, i0 ≤ c.i ∧ c.i < i0 + nx' ∧ j0 ≤ c.j ∧ c.j < j0 + ny')
    (p : ℚ × ℚ) (k' : ℕ) :
    ((L.window i0 j0 nx' ny').region (shiftCells i0 j0 (compress cells keep))).getIndexOf [p] = .ok [k'] ↔
      ∃ c, (compress cells keep)[k']? = some c ∧ L.inBox c.i c.j p := by
  have hP : (L.window i0 j0 nx' ny').Proper := ⟨hd, hnx, hny⟩
  have hF : (L.window i0 j0 nx' ny').Fits (shiftCells i0 j0 (compress cells keep)) := by
    intro c'' hc''
    obtain ⟨c, hc, rfl⟩ := List.mem_map.mp hc''
    obtain ⟨a, b, c', d⟩ := hwin c hc
    exact ⟨by show c.i - i0 < nx'; omega, by show c.j - j0 < ny'; omega⟩
  have hD' : (shiftCells i0 j0 (compress cells keep)).Pairwise (fun c c' => ¬ (c.i = c'.i ∧ c.j = c'.j)) := by
    unfold shiftCells
    rw [List.pairwise_map]
    refine List.Pairwise.imp_of_mem ?_ (hD.sublist (compress_sublist cells keep))
    intro a b ha hb hab hsame
    obtain ⟨a1, _, a3, _⟩ := hwin a ha
    obtain ⟨b1, _, b3, _⟩ := hwin b hb
    simp only at hsame
    exact hab ⟨by omega, by omega⟩
  rw [unique_cell _ _ hP hF hD']
  unfold shiftCells
  simp only [List.getElem?_map]
  constructor
  · rintro ⟨c'', hget, _, hbox⟩
    cases hk : (compress cells keep)[k']? with
    | none => rw [hk] at hget; simp at hget
    | some c =>
      rw [hk] at hget
      simp only [Option.map_some, Option.some.injEq] at hget
      subst hget
      obtain ⟨a, _, b, _⟩ := hwin c (List.mem_of_getElem? hk)
      exact ⟨c, rfl, (window_inBox L i0 j0 nx' ny' c.i c.j a b p).mp hbox⟩
  · rintro ⟨c, hk, hbox⟩
    obtain ⟨a, _, b, _⟩ := hwin c (List.mem_of_getElem? hk)
    exact ⟨⟨c.i - i0, c.j - j0, true⟩, by rw [hk]; rfl, rfl, (window_inBox L i0 j0 nx' ny' c.i c.j a b p).mpr hbox⟩

/-- new polygon number k' is old polygon number `keptIdx keep [k']` (`itertools.compress` keeps the order) -/
theorem masked_region_old_index (cells : List Cell) (keep : List Bool) (hlen : cells.length = keep.length) (k' : ℕ) :
    (compress cells keep)[k']? = ((keptIdx keep)[k']?).bind (fun k => cells[k]?) := by
  have := compress_getElem? cells keep 0 k' hlen
  simpa [keptIdx] using this

/-- … so for a region without flagged-out cells: the new region attributes p to new polygon k' ⇔ the OLD region attributes p
to old polygon `keptIdx keep [k']`: index lookup before and after masking agree on every kept cell, for every point.
(With flagged-out cells the statement fails on purpose: `masked_region` hands no mask on, see `maskedRegionF`.) -/
theorem masked_region_same_cell (L : Lattice) (cells : List Cell) (keep : List Bool) (i0 j0 nx' ny' : ℕ)
    (hP : L.Proper) (hF : L.Fits cells) (hnx : 2 ≤ nx') (hny : 2 ≤ ny')
    (hD : cells.Pairwise (fun c c' => ¬ (c.i = c'.i ∧ c.j = c'.j))) (hv : ∀ c ∈ cells, c.valid = true)
    (hlen : cells.length = keep.length)
    (hwin : ∀ c ∈ compress cells keep, i0 ≤ c.i ∧ c.i < i0 + nx' ∧ j0 ≤ c.j ∧ c.j < j0 + ny')
    (p : ℚ × ℚ) (k' : ℕ) :
    ((L.window i0 j0 nx' ny').region (shiftCells i0 j0 (compress cells keep))).getIndexOf [p] = .ok [k'] ↔
      ∃ k, (keptIdx keep)[k']? = some k ∧ (L.region cells).getIndexOf [p] = .ok [k] := by
  rw [masked_region_restricts L cells keep i0 j0 nx' ny' hP.dh_pos hnx hny hD hwin, masked_region_old_index cells keep hlen]
  constructor
  · rintro ⟨c, hget, hbox⟩
    cases hk : (keptIdx keep)[k']? with
    | none => rw [hk] at hget; simp at hget
    | some k =>
      rw [hk] at hget
      simp only [Option.bind_some] at hget
      exact ⟨k, rfl, (unique_cell L cells hP hF hD p k).mpr ⟨c, hget, hv c (List.mem_of_getElem? hget), hbox⟩⟩
  · rintro ⟨k, hk, hidx⟩
    obtain ⟨c, hget, _, hbox⟩ := (unique_cell L cells hP hF hD p k).mp hidx
    exact ⟨c, by rw [hk]; simpa using hget, hbox⟩

/-- the new region reports a point outside ⇔ no KEPT cell's box contains it -/
theorem masked_region_outside_iff (L : Lattice) (cells : List Cell) (keep : List Bool) (i0 j0 nx' ny' : ℕ)
    (hd : 0 < L.dh) (hnx : 2 ≤ nx') (hny : 2 ≤ ny')
    (hwin : ∀ c ∈ compress cells keep, i0 ≤ c.i ∧ c.i < i0 + nx' ∧ j0 ≤ c.j ∧ c.j < j0 + ny')
    (p : ℚ × ℚ) :
    ((L.window i0 j0 nx' ny').region (shiftCells i0 j0 (compress cells keep))).getMasked [p] = [true] ↔
      ¬ ∃ c ∈ compress cells keep, L.inBox c.i c.j p := by
  have hP : (L.window i0 j0 nx' ny').Proper := ⟨hd, hnx, hny⟩
  have hF : (L.window i0 j0 nx' ny').Fits (shiftCells i0 j0 (compress cells keep)) := by
    intro c'' hc''
    obtain ⟨c, hc, rfl⟩ := List.mem_map.mp hc''
    obtain ⟨a, b, c', d⟩ := hwin c hc
    exact ⟨by show c.i - i0 < nx'; omega, by show c.j - j0 < ny'; omega⟩
  rw [getMasked_iff _ _ hP hF]
  apply not_congr
  constructor
  · rintro ⟨c'', hc'', _, hbox⟩
    obtain ⟨c, hc, rfl⟩ := List.mem_map.mp hc''
    obtain ⟨a, _, b, _⟩ := hwin c hc
    exact ⟨c, hc, (window_inBox L i0 j0 nx' ny' c.i c.j a b p).mp hbox⟩
  · rintro ⟨c, hc, hbox⟩
    obtain ⟨a, _, b, _⟩ := hwin c hc
    exact ⟨⟨c.i - i0, c.j - j0, true⟩, List.mem_map.mpr ⟨c, hc, rfl⟩, rfl,
      (window_inBox L i0 j0 nx' ny' c.i c.j a b p).mpr hbox⟩

/-! ### increase_grid_resolution (exact layer) -/

/-- the lattice of half the spacing over the same bounding box -/
def Lattice.refine (L : Lattice) : Lattice := ⟨L.ax, L.ay, L.dh / 2, 2 * L.nx, 2 * L.ny⟩

private theorem half_split (a d x : ℚ) (i : ℕ) :
    (a + i * d ≤ x ∧ x < a + (i + 1) * d) ↔
      ((a + ((2 * i : ℕ) : ℚ) * (d / 2) ≤ x ∧ x < a + (((2 * i : ℕ) : ℚ) + 1) * (d / 2)) ∨
       (a + ((2 * i + 1 : ℕ) : ℚ) * (d / 2) ≤ x ∧ x < a + (((2 * i + 1 : ℕ) : ℚ) + 1) * (d / 2))) := by
  push_cast
  have e0 : a + 2 * (i : ℚ) * (d / 2) = a + i * d := by ring
  have e2 : a + (2 * (i : ℚ) + 1 + 1) * (d / 2) = a + (i + 1) * d := by ring
  rw [e0, e2]
  constructor
  · rintro ⟨h1, h2⟩
    rcases lt_or_ge x (a + (2 * (i : ℚ) + 1) * (d / 2)) with h | h
    · exact Or.inl ⟨h1, h⟩
    · exact Or.inr ⟨h, h2⟩
  · rintro (⟨h1, h2⟩ | ⟨h1, h2⟩)
    · refine ⟨h1, ?_⟩
      by_contra hc
      have hc := not_lt.mp hc
      have : a + (↑i + 1) * d ≤ a + (2 * (i : ℚ) + 1) * (d / 2) := le_trans hc (le_of_lt h2)
      have : a + i * d < a + (2 * (i : ℚ) + 1) * (d / 2) := lt_of_le_of_lt h1 h2
      nlinarith
    · refine ⟨?_, h2⟩
      by_contra hc
      have hc := not_le.mp hc
      have : a + (2 * (i : ℚ) + 1) * (d / 2) < a + (↑i + 1) * d := lt_of_le_of_lt h1 h2
      nlinarith

/-- **the four sub-cells `increase_grid_resolution` makes of a cell partition it**: a point lies in the half-open box of
lattice cell (i, j) ⇔ it lies in the half-open box of one of the children (2i, 2j), (2i, 2j+1), (2i+1, 2j+1), (2i+1, 2j) of
the lattice with half the spacing (and, by `cells_disjoint` on that lattice, in exactly one of them). Any spacing `dh`. -/
theorem refinement_partition (L : Lattice) (i j : ℕ) (p : ℚ × ℚ) :
    L.inBox i j p ↔ ∃ c ∈ children i j, L.refine.inBox c.1 c.2 p := by
  unfold Lattice.inBox Lattice.refine children
  simp only [List.mem_cons, List.not_mem_nil, or_false, exists_eq_or_imp, exists_eq_left]
  rw [half_split L.ax L.dh p.1 i, half_split L.ay L.dh p.2 j]
  tauto

/-! ### `__eq__`, `to_dict`, `from_dict`: a region is its origins, its spacing and its mask -/

/-- `a == b` ⇔ same name, same `dh`, same origins in the same polygon order (and nothing else: not the mask, not the magnitudes) -/
theorem regionEq_iff (nameA nameB : String) (dhA dhB : ℚ) (a b : BuiltF) :
    regionEq nameA dhA a nameB dhB b = true ↔ nameA = nameB ∧ dhA = dhB ∧ a.origins = b.origins := by
  simp [regionEq, toDict]

/-- **a region rebuilt from (origins, dh, mask) of an existing region is the same region**: same edge arrays, same hash, same
`bbox_mask` / `idx_map`, hence the same `cellOf` for every point — the polygons' other vertices, the name and the magnitudes do
not enter the partition -/
theorem rebuilt_from_origins_dh_mask (os : List (ℚ × ℚ)) (dhf : ℚ) (flags : Option (List Bool)) (dec : ℕ × ℕ × ℕ) (p : ℚ × ℚ) :
    fromOrigins (fromOrigins os dhf flags dec).origins dhf flags dec = fromOrigins os dhf flags dec ∧
    (fromOrigins (fromOrigins os dhf flags dec).origins dhf flags dec).region.cellOf p = (fromOrigins os dhf flags dec).region.cellOf p := by
  rw [fromOrigins_origins]; exact ⟨rfl, rfl⟩

/-- the serialisation path: for a region without mask, `from_dict(to_dict(r))` attributes every list of points exactly as `r`
does (index lookup, masking, filtering, counting) -/
theorem dict_roundtrip_same_partition (os : List (ℚ × ℚ)) (dhf : ℚ) (dec : ℕ × ℕ × ℕ) (name : String) (pts : List (ℚ × ℚ)) :
    (fromDict (toDict name dhf (fromOrigins os dhf none dec)) dec).1.region.getIndexOf pts = (fromOrigins os dhf none dec).region.getIndexOf pts ∧
    (fromDict (toDict name dhf (fromOrigins os dhf none dec)) dec).1.region.getMasked pts = (fromOrigins os dhf none dec).region.getMasked pts ∧
    (fromDict (toDict name dhf (fromOrigins os dhf none dec)) dec).1.region.spatialCounts pts = (fromOrigins os dhf none dec).region.spatialCounts pts := by
  rw [(origins_roundtrip os dhf none dec name).2]; exact ⟨rfl, rfl, rfl⟩

/-- two regions built by `from_origins` without mask that compare equal are the same partition -/
theorem eq_same_partition (nameA nameB : String) (dhA dhB : ℚ) (osA osB : List (ℚ × ℚ)) (dec : ℕ × ℕ × ℕ)
    (h : regionEq nameA dhA (fromOrigins osA dhA none dec) nameB dhB (fromOrigins osB dhB none dec) = true) :
    fromOrigins osA dhA none dec = fromOrigins osB dhB none dec := by
  obtain ⟨_, hdh, hos⟩ := (regionEq_iff _ _ _ _ _ _).mp h
  rw [fromOrigins_origins, fromOrigins_origins] at hos
  rw [hdh, hos]

/-! ### CSEPCatalog.filter_spatial: one partition in every mode -/

/-- **what `filter_spatial` does, in every mode**: with the region given (or, if none is given, the one bound to the catalog)
built by the constructor, the returned catalog holds exactly the events the partition puts in some cell, in their order; the
region is bound to `self` in both modes; `in_place=False` leaves the events of `self` untouched, `in_place=True` returns `self`. -/
theorem filter_spatial_events (c : Cat) (region : Option Region) (us ip : Bool) (R : Region)
    (hR : c.effRegion region = some R) (hB : R.Built) :
    ∃ c' out, c.filterSpatialOp region us ip = .ok (c', out) ∧
      out.events = c.events.filter (fun p => (R.cellOf p).isSome) ∧
      out.region = some R ∧ c'.region = some R ∧
      (ip = false → c'.events = c.events) ∧ (ip = true → c' = out) := by
  unfold Cat.filterSpatialOp
  rw [hR]
  cases ip
  · refine ⟨_, _, rfl, ?_, rfl, rfl, fun _ => rfl, fun h => by simp at h⟩
    simp [Cat.mk', filterSpatial_eq R hB]
  · refine ⟨_, _, rfl, ?_, ?_, ?_, fun h => by simp at h, fun _ => rfl⟩
    · cases us <;> simp [Cat.setEvents, filterSpatial_eq R hB]
    · cases us <;> simp [Cat.setEvents]
    · cases us <;> simp [Cat.setEvents]

/-- **the region argument wins over the binding** (the two-step cut collection region → testing region, or one catalog re-used
for several regions): a catalog ALREADY bound to a region `A` and filtered with another region `B` is cut with `B` — the
returned catalog holds exactly the events `B`'s partition puts in a cell, whatever `A` is — and both the catalog and the result
are bound to `B` afterwards, in every mode; a later call without argument then uses `B`. -/
theorem filter_spatial_argument_wins (c : Cat) (A B : Region) (hA : c.region = some A) (hB : B.Built) (us ip us' ip' : Bool) :
    ∃ c' out, c.filterSpatialOp (some B) us ip = .ok (c', out) ∧
      out.events = c.events.filter (fun p => (B.cellOf p).isSome) ∧ out.region = some B ∧ c'.region = some B ∧
      ∃ c'' out', c'.filterSpatialOp none us' ip' = .ok (c'', out') ∧
        out'.events = c'.events.filter (fun p => (B.cellOf p).isSome) := by
  obtain ⟨c', out, h, hev, hro, hrc, _, _⟩ := filter_spatial_events c (some B) us ip B rfl hB
  refine ⟨c', out, h, hev, hro, hrc, ?_⟩
  have hR' : c'.effRegion none = some B := by simp [Cat.effRegion, hrc]
  obtain ⟨c'', out', h2, hev2, _, _, _, _⟩ := filter_spatial_events c' none us' ip' B hR' hB
  exact ⟨c'', out', h2, hev2⟩

/-- sessions on shared objects: a call on one catalog returns catalogs bound to the very region value that was effective and
reads nothing but that catalog — stated on the model: the result depends on the catalog's events and on the effective region
only (two catalogs with the same events and the same effective region get the same events back, whatever they were bound to
before, whatever their statistics and flags) -/
theorem filter_spatial_depends_only_on (c d : Cat) (rc rd : Option Region) (us ip us' ip' : Bool) (R : Region) (hB : R.Built)
    (hc : c.effRegion rc = some R) (hd : d.effRegion rd = some R) (hev : c.events = d.events)
    (c' oc d' od : Cat) (h1 : c.filterSpatialOp rc us ip = .ok (c', oc)) (h2 : d.filterSpatialOp rd us' ip' = .ok (d', od)) :
    oc.events = od.events := by
  obtain ⟨c1, o1, e1, v1, _⟩ := filter_spatial_events c rc us ip R hc hB
  obtain ⟨d1, p1, e2, v2, _⟩ := filter_spatial_events d rd us' ip' R hd hB
  rw [e1] at h1; rw [e2] at h2
  obtain ⟨_, rfl⟩ := Prod.mk.inj (Except.ok.inj h1)
  obtain ⟨_, rfl⟩ := Prod.mk.inj (Except.ok.inj h2)
  rw [v1, v2, hev]

/-- no region given and none bound: CSEPCatalogException, nothing changes -/
theorem filter_spatial_no_region (c : Cat) (us ip : Bool) (h : c.region = none) :
    c.filterSpatialOp none us ip = .error .noRegion := by
  unfold Cat.filterSpatialOp Cat.effRegion; rw [h]

/-- filtering is idempotent: filtering the result again (any mode, same region, given again or taken from the binding) keeps every event -/
theorem filter_spatial_idem (c : Cat) (region : Option Region) (us ip us' ip' : Bool) (R : Region)
    (hR : c.effRegion region = some R) (hB : R.Built)
    (c' out : Cat) (h : c.filterSpatialOp region us ip = .ok (c', out)) :
    ∃ c'' out', out.filterSpatialOp none us' ip' = .ok (c'', out') ∧ out'.events = out.events := by
  obtain ⟨c1, o1, h1, hev, hreg, _, _, _⟩ := filter_spatial_events c region us ip R hR hB
  rw [h1] at h
  obtain ⟨rfl, rfl⟩ := Prod.mk.inj (Except.ok.inj h)
  have hR' : o1.effRegion none = some R := by simp [Cat.effRegion, hreg]
  obtain ⟨c2, o2, h2, hev2, _, _, _, _⟩ := filter_spatial_events o1 none us' ip' R hR' hB
  refine ⟨c2, o2, h2, ?_⟩
  rw [hev2, hev, List.filter_filter]
  simp

/-- `update_stats=True` leaves the statistics of the returned catalog equal to those of its (surviving) events, in both
modes; so does `in_place=True` on a catalog constructed with `compute_stats=True` (the setter recomputes them) -/
theorem filter_spatial_stats (c : Cat) (region : Option Region) (us ip : Bool) (c' out : Cat)
    (h : c.filterSpatialOp region us ip = .ok (c', out)) (hs : us = true ∨ (ip = true ∧ c.computeStats = true)) :
    out.stats = some (statsOf out.events) := by
  unfold Cat.filterSpatialOp at h
  cases hreg : c.effRegion region with
  | none => rw [hreg] at h; simp at h
  | some R =>
    rw [hreg] at h
    cases ip <;> cases us <;> simp only [Bool.false_eq_true, if_false, if_true] at h <;>
      obtain ⟨rfl, rfl⟩ := Prod.mk.inj (Except.ok.inj h) <;> simp_all [Cat.mk', Cat.setEvents]

/-- **after spatial filtering nothing is outside**: on the surviving events `get_index_of` returns an index for every event and
`spatial_counts` returns counts — neither can raise ValueError (filter → count is a total pipeline) -/
theorem filter_then_lookup_total (R : Region) (hB : R.Built) (pts : List (ℚ × ℚ)) :
    R.getIndexOf (R.filterSpatial pts) = .ok ((R.filterSpatial pts).map fun p => (R.cellOf p).getD 0) ∧
    R.spatialCounts (R.filterSpatial pts) =
      .ok ((List.range R.cells.length).map fun k => (R.filterSpatial pts).countP (fun p => R.cellOf p == some k)) ∧
    R.getMasked (R.filterSpatial pts) = (R.filterSpatial pts).map (fun _ => false) := by
  have hall := filterSpatial_all_inside R hB pts
  obtain ⟨hm, _, hi, hs⟩ := apis_agree R hB (R.filterSpatial pts)
  rw [hi, hs, hm, hall]
  refine ⟨rfl, rfl, ?_⟩
  apply List.map_congr_left
  intro p hp
  have := (List.all_eq_true.mp hall) p hp
  cases hc : R.cellOf p <;> simp [hc] at this ⊢

/-! ### the hypotheses are satisfiable -/

-- masking the 3 × 2 example lattice of Properties/C01 (all cells valid, distinct) down to its right 2 × 2 block
def opsCells : List Cell := [⟨0, 0, true⟩, ⟨1, 0, true⟩, ⟨2, 0, true⟩, ⟨0, 1, true⟩, ⟨1, 1, true⟩, ⟨2, 1, true⟩]
def opsKeep : List Bool := [false, true, true, false, true, true]

example : compress opsCells opsKeep = [⟨1, 0, true⟩, ⟨2, 0, true⟩, ⟨1, 1, true⟩, ⟨2, 1, true⟩] := by decide
example : keptIdx opsKeep = [1, 2, 4, 5] := by decide
example : ∀ c ∈ compress opsCells opsKeep, 1 ≤ c.i ∧ c.i < 1 + 2 ∧ 0 ≤ c.j ∧ c.j < 0 + 2 := by decide
example : opsCells.Pairwise (fun c c' => ¬ (c.i = c'.i ∧ c.j = c'.j)) := by decide
-- the point (0, 1/4) is in old polygon 2 = new polygon 1; the point (-3/4, 1/4) of the dropped polygon 0 is outside the new region
example : (exL.region opsCells).getIndexOf [(0, 1/4)] = .ok [2] ∧
    ((exL.window 1 0 2 2).region (shiftCells 1 0 (compress opsCells opsKeep))).getIndexOf [(0, 1/4)] = .ok [1] ∧
    ((exL.window 1 0 2 2).region (shiftCells 1 0 (compress opsCells opsKeep))).getMasked [(-3/4, 1/4)] = [true] := by
  decide +kernel
example : children 1 2 = [(2, 4), (2, 5), (3, 5), (3, 4)] := by decide
-- filter_spatial: a catalog with one event in a hole is filtered in place; a second pass changes nothing
example : (match (Cat.mk' [(-1, 0), (-1/2, 1/4), (0, 3/4)] none true).filterSpatialOp (some (exL.region exCells)) false true with
    | .ok (a, b) => some (a.events, a.stats, b.events)
    | .error _ => none)
    = some ([(-1, 0), (0, 3/4)], some ⟨some (-1), some 0, some 0, some (3/4)⟩, [(-1, 0), (0, 3/4)]) := by
  decide +kernel
example : gridSpacing (0, 0) (1/2, 1/2) = .ok (1/2) := by decide +kernel
-- the first two vertices of a cell made by `compute_vertex` differ in one coordinate only: `grid_spacing` rejects them
example : gridSpacing (0, 0) (0, 1/2) = .error .valueError := by decide +kernel

end Region
