import PycsepVerif.Proofs.QuadGridding
import PycsepVerif.Proofs.GriddingSeq

/-!
# C03 (extension) — gridding a catalog on the quadtree grids the library builds (C03's counting on C17's grids)

`Properties/C03.lean` counts events after the lookups on tile bounds given as four arbitrary rationals per cell; `Properties/C17.lean`
builds grids as lists of quadkeys and locates points in them. Here the two models are composed (`Model/QuadGridding.lean`):

* `bounds_lookup_is_key_lookup`, `bounds_pipeline_is_key_pipeline` — C03's lookup on the bounds rows of a key list IS C17's
  `_find_location` on the keys: the driver op `c03_quad` (bounds from `region.bounds`) and `c17_locate` (keys) describe one function.
* `counts_on_entry` (ANY key list: entry i = number of events whose first containing listed cell is i),
  `counts_on_entry_prefix_free` (prefix-free lists — every grid a constructor makes — entry i = number of events in tile i),
  `counts_on_occupancy`.
* `counts_on_from_catalog_total`, `counts_on_single_resolution_total` — on a grid built by `from_catalog` (ANY building catalog, threshold,
  zoom) or `from_single_resolution` (any zoom) EVERY event of ANY catalog inside the covered domain is counted exactly once: the
  total is the number of events inside longitude [−180, 180) × the Mercator band; events outside are in no cell.
* `smc_on_from_catalog_ok_iff` — space-magnitude gridding on such a grid returns ⇔ every event is inside the domain and no magnitude is
  below the first edge; `smc_on_entry` — and then entry (i, k) = number of events in tile i with magnitude bin k;
  `smc_on_total` — total = number of events (no hypothesis but "the call returned").
-/
namespace QuadGridding
open Quadtree Gridding

/-- C03's quadtree lookup on the bounds rows of a key list is C17's `_find_location` on the keys -/
theorem bounds_lookup_is_key_lookup (cells : List Key) (p : Pt) :
    qtFind (cells.map unitBounds) (unitPoint p) = findLocation cells p := qtFind_unitBounds cells p

/-- … hence the event list of C03's quadtree pipeline on those bounds is the one obtained from the keys -/
theorem bounds_pipeline_is_key_pipeline (cells : List Key) (edges : List Rat) (evs : List (Pt × Rat)) :
    evsQuad (cells.map unitBounds) edges (evs.map (fun e => ((unitPoint e.1).1, (unitPoint e.1).2, e.2))) =
      evsOn cells edges evs := by
  unfold evsQuad evsOn
  rw [List.map_map]
  apply List.map_congr_left
  intro e _
  simp only [Function.comp]
  rw [show ((unitPoint e.1).1, (unitPoint e.1).2) = unitPoint e.1 from rfl, qtFind_unitBounds]

/-- ANY key list (nested, duplicated, gaps): entry i of `spatial_counts` = number of events whose lookup returns i -/
theorem counts_on_entry (cells : List Key) (ps : List Pt) (i : Nat) (hi : i < cells.length) :
    (spatialCountsOn cells ps)[i]? = some (ps.countP (fun p => findLocation cells p == some i)) := by
  unfold spatialCountsOn
  rw [quadtree_counts _ _ i hi, List.countP_map]
  rfl

/-- prefix-free key list (every grid made by a constructor): entry i = number of events inside tile i -/
theorem counts_on_entry_prefix_free (cells : List Key) (hpf : prefixFree cells) (ps : List Pt) (i : Nat)
    (hi : i < cells.length) : (spatialCountsOn cells ps)[i]? = some (count ps cells[i]) := by
  rw [counts_on_entry cells ps i hi]
  unfold count
  congr 1
  apply List.countP_congr
  intro p _
  have := findLocation_eq_some_iff hpf p i hi
  simp only [beq_iff_eq, inTile, decide_eq_true_eq]
  exact this

/-- the occupancy map on the grid is 1 exactly where the count is positive -/
theorem counts_on_occupancy (cells : List Key) (ps : List Pt) :
    probabilityOn cells ps = (spatialCountsOn cells ps).map (fun c => if 0 < c then 1 else 0) := by
  unfold probabilityOn spatialCountsOn
  rw [spatialEventProbabilityQuad_eq, spatialCountsQuad_eq]

/-- the total of `spatial_counts` on ANY key list is the number of located events -/
theorem counts_on_total (cells : List Key) (ps : List Pt) :
    (spatialCountsOn cells ps).sum = ps.countP (fun p => (findLocation cells p).isSome) := by
  unfold spatialCountsOn
  rw [spatialCountsQuad_eq, sum_countVec, List.countP_map]
  · rfl
  · intro o ho k hk
    obtain ⟨p, _, rfl⟩ := List.mem_map.mp ho
    exact findLocation_lt hk

/-- **every event inside the covered domain is counted exactly once** on a grid built by `from_catalog` from ANY catalog `A`,
    threshold and zoom: the total of `spatial_counts` of ANY catalog `ps` is the number of its events inside the domain -/
theorem counts_on_from_catalog_total (thr zoom : Nat) (A ps : List Pt) :
    (spatialCountsOn ((fromCatalog thr zoom A).map Prod.fst) ps).sum = ps.countP inDomain := by
  rw [counts_on_total]
  apply List.countP_congr
  intro p _
  have h := (from_catalog_locate thr zoom A p).1
  unfold inDomain
  cases hf : findLocation ((fromCatalog thr zoom A).map Prod.fst) p with
  | none => have := h.mp hf; simp [this]
  | some i =>
    have : InTile [] p := by
      by_contra hn
      have := h.mpr hn
      rw [hf] at this; cases this
    simp [this]

/-- the lookup on a single-resolution grid finds a cell exactly for the points of the domain -/
theorem single_resolution_locate (z : Nat) (p : Pt) : findLocation (singleRes z) p = none ↔ ¬ InTile [] p := by
  rw [(locate_spec (singleRes z) p).2.1]
  have hc := single_resolution_partition z p
  constructor
  · intro h hin
    rw [if_pos hin] at hc
    have hpos : 0 < (singleRes z).countP (fun k => inTile k p) := by omega
    obtain ⟨k, hk, hkin⟩ := List.countP_pos_iff.mp hpos
    exact h k hk (by simpa [inTile] using hkin)
  · intro hn k hk hin
    exact hn (inTile_of_prefix List.nil_prefix hin)

/-- the same for `from_single_resolution(z)`, every z -/
theorem counts_on_single_resolution_total (z : Nat) (ps : List Pt) :
    (spatialCountsOn (singleRes z) ps).sum = ps.countP inDomain := by
  rw [counts_on_total]
  apply List.countP_congr
  intro p _
  have h := single_resolution_locate z p
  unfold inDomain
  cases hf : findLocation (singleRes z) p with
  | none => have := h.mp hf; simp [this]
  | some i =>
    have : InTile [] p := by
      by_contra hn
      have := h.mpr hn
      rw [hf] at this; cases this
    simp [this]

/-- space-magnitude gridding on a `from_catalog` grid returns ⇔ every event lies inside the covered domain and no magnitude is
    below the first edge; the result is then the count matrix of the located events -/
theorem smc_on_from_catalog_ok_iff (thr zoom : Nat) (A : List Pt) (edges : List Rat) (evs : List (Pt × Rat))
    (M : List (List Nat)) :
    smcOn ((fromCatalog thr zoom A).map Prod.fst) edges evs = .ok M ↔
      (∀ e ∈ evs, InTile [] e.1) ∧ (∀ e ∈ evs, (magBin edges e.2).isSome = true) ∧
      M = countMatrix (fromCatalog thr zoom A).length edges.length (evsOn ((fromCatalog thr zoom A).map Prod.fst) edges evs) := by
  unfold smcOn
  rw [quadtree_pairing, smc_ok_iff, List.length_map]
  unfold evsOn
  simp only [List.mem_map, forall_exists_index, and_imp, forall_apply_eq_imp_iff₂]
  constructor
  · rintro ⟨h1, h2, h3⟩
    refine ⟨fun e he => ?_, h2, h3⟩
    by_contra hn
    have := ((from_catalog_locate thr zoom A e.1).1).mpr hn
    have h := h1 e he
    rw [this] at h; cases h
  · rintro ⟨h1, h2, h3⟩
    refine ⟨fun e he => ?_, h2, h3⟩
    cases hf : findLocation ((fromCatalog thr zoom A).map Prod.fst) e.1 with
    | none => exact absurd (h1 e he) (((from_catalog_locate thr zoom A e.1).1).mp hf)
    | some i => rfl

/-- prefix-free grid, the call returned: entry (i, k) = number of events inside tile i whose magnitude falls in bin k -/
theorem smc_on_entry (cells : List Key) (hpf : prefixFree cells) (edges : List Rat) (evs : List (Pt × Rat))
    (M : List (List Nat)) (h : smcOn cells edges evs = .ok M) (i k : Nat) (hi : i < cells.length) (hk : k < edges.length) :
    entry M i k = some (evs.countP (fun e => inTile cells[i] e.1 && (magBin edges e.2 == some k))) := by
  unfold smcOn at h
  rw [quadtree_pairing] at h
  rw [smc_entry _ _ _ _ h i k hi hk]
  unfold evsOn
  rw [List.countP_map]
  congr 1
  apply List.countP_congr
  intro e _
  simp only [Function.comp]
  have := findLocation_eq_some_iff hpf e.1 i hi
  by_cases hin : InTile cells[i] e.1
  · simp [this.mpr hin, inTile, hin]
  · have hne : findLocation cells e.1 ≠ some i := fun hh => hin (this.mp hh)
    simp [hne, inTile, hin]

/-- the call returned ⇒ total = number of events (any key list, any edges: the lookups return indices inside the arrays) -/
theorem smc_on_total (cells : List Key) (edges : List Rat) (evs : List (Pt × Rat)) (M : List (List Nat))
    (h : smcOn cells edges evs = .ok M) : (M.map List.sum).sum = evs.length := by
  unfold smcOn at h
  rw [quadtree_pairing] at h
  have hok := (smc_ok_iff _ _ _ _).mp h
  have hR : InRange cells.length edges.length (evsOn cells edges evs) := by
    intro e he
    unfold evsOn at he
    obtain ⟨a, ha, rfl⟩ := List.mem_map.mp he
    constructor
    · cases hf : findLocation cells a.1 with
      | none =>
        have := hok.1 _ he
        simp [hf] at this
      | some i => exact ⟨i, rfl, findLocation_lt hf⟩
    · cases hb : magBin edges a.2 with
      | none =>
        have := hok.2.1 _ he
        simp [hb] at this
      | some k => exact ⟨k, rfl, magBin_lt _ _ _ hb⟩
  have := smc_total _ _ _ _ h hR
  rw [this]; unfold evsOn; simp

/-! ## non-vacuity (kernel-evaluated) -/

/-- a catalog whose cluster forces splits, gridded on its own grid and together with an event on the antimeridian (in no cell) -/
def exA : List Pt := [⟨mkRat 1 8, mkRat 1 8⟩, ⟨mkRat 1 8, mkRat 1 8⟩, ⟨mkRat 3 16, mkRat 1 16⟩, ⟨mkRat 5 8, mkRat 7 8⟩, ⟨mkRat 1 2, mkRat 1 2⟩]

example : (fromCatalog 1 3 exA).length = 10 := by decide +kernel
example : spatialCountsOn ((fromCatalog 1 3 exA).map Prod.fst) (⟨1, mkRat 1 2⟩ :: exA) = [0, 3, 0, 0, 0, 0, 0, 1, 0, 1] := by decide +kernel
example : (⟨1, mkRat 1 2⟩ :: exA).countP inDomain = 5 := by decide +kernel
example : smcOn ((fromCatalog 1 3 exA).map Prod.fst) [4, 5, 6] [(⟨mkRat 1 8, mkRat 1 8⟩, mkRat 9 2), (⟨mkRat 1 2, mkRat 1 2⟩, 7)]
    = .ok [[0, 0, 0], [1, 0, 0], [0, 0, 0], [0, 0, 0], [0, 0, 0], [0, 0, 0], [0, 0, 0], [0, 0, 1], [0, 0, 0], [0, 0, 0]] := by
  decide +kernel
example : smcOn ((fromCatalog 1 3 exA).map Prod.fst) [4, 5, 6] [(⟨1, mkRat 1 2⟩, mkRat 9 2)] = .error .outside := by decide +kernel
example : qtFind ([[0], [1, 2], [3]].map unitBounds) (unitPoint ⟨mkRat 5 8, mkRat 3 8⟩) = some 1 := by
  rw [bounds_lookup_is_key_lookup]; decide +kernel

end QuadGridding
