import PycsepVerif.Properties.C07_Public
import PycsepVerif.Proofs.NumberTestMlr
import PycsepVerif.Proofs.NumberTestEps

/-!
# C07, third part — the monotonicity clause for the NBD N-test, decided; any `epsilon` argument in float64

The property says "delta1 is non-decreasing and delta2 non-increasing in the forecast mean". `Properties/C07.lean`
proves it for the Poisson law. For the negative-binomial law the clause was only observed on grids (rounds 1–3).
Here it is decided:

* `nbd_delta_mono_params` — whenever the code's parameters move as r₁ ≤ r₂ and p₂ ≤ p₁ the clause holds
  (monotone likelihood ratio ⇒ stochastic order, `Proofs/NumberTestMlr.lean`; no size bound, every count n);
* `nbd_delta_mono_mean_dispersion` — in the inputs of the code: mean₁ ≤ mean₂ with a dispersion var/mean that does
  not decrease and a shape mean²/(var − mean) that does not decrease; `nbd_delta_mono_mean_fixed_dispersion` is the
  case var = c · mean (the usual reading: the over-dispersion of the region is fixed, the forecast is rescaled);
* `nbd_fixed_variance_not_monotone` — with the VARIANCE held fixed the clause is false of the law itself
  (mean 2 → 3 at variance 4, n = 10: P(N ≥ 10) falls from 6/1024 to 5685.2…/2^20), a kernel-checked witness through
  the model of the code, so no implementation of the stated law could satisfy that reading.

`float_floor_shift_eps`: the array-level helpers take `epsilon` as an argument; for every ε with 2^-k ≤ ε ≤ 1 − 2^-k
and every count with (n+1)·2^k ≤ 2^53 the float64 values `n − ε`, `n + ε` floor to n − 1 and n.
-/
namespace NumberTest
open Finset

/-! ### any epsilon, float64 -/

/-- `shiftF` is `shiftFE` at the double 1e-6 -/
theorem shiftF_eq_shiftFE (n : ℕ) : shiftF n = shiftFE epsF n := rfl

/-- float64, any ε: 2^-k ≤ ε ≤ 1 − 2^-k and (n + 1)·2^k ≤ 2^53 ⇒ ⌊n ⊖ ε⌋ = n − 1 and ⌊n ⊕ ε⌋ = n -/
theorem float_floor_shift_eps (k : ℕ) (hk : k ≤ 52) (eps : ℚ) (h0 : Soft64.pow2 (-(k : ℤ)) ≤ eps)
    (h1 : eps ≤ 1 - Soft64.pow2 (-(k : ℤ))) (n : ℕ) (hn : ((n : ℤ) + 1) * 2 ^ k ≤ 2 ^ 53) :
    shiftFE eps n = ((n : ℤ) - 1, (n : ℤ)) := shiftFE_eq k hk eps h0 h1 n hn

/-! ### NBD: monotone in the parameters, hence in the mean along non-decreasing dispersion -/

/-- NBD N-test: if the code's parameters satisfy r₁ ≤ r₂ and p₂ ≤ p₁ then δ1 goes up and δ2 goes down, for every
    observed count n -/
theorem nbd_delta_mono_params {m₁ v₁ m₂ v₂ : ℝ} (hm₁ : 0 < m₁) (hv₁ : m₁ < v₁) (hm₂ : 0 < m₂) (hv₂ : m₂ < v₂)
    (hr : (nbdParams m₁ v₁).1 ≤ (nbdParams m₂ v₂).1) (hp : (nbdParams m₂ v₂).2 ≤ (nbdParams m₁ v₁).2)
    (n : ℕ) {ε : ℝ} (h0 : 0 < ε) (h1 : ε < 1) :
    (nbdDelta12 m₁ n v₁ ε).1 ≤ (nbdDelta12 m₂ n v₂ ε).1 ∧ (nbdDelta12 m₂ n v₂ ε).2 ≤ (nbdDelta12 m₁ n v₁ ε).2 := by
  obtain ⟨hr1, _, hp11⟩ := nbd_params_admissible hm₁ hv₁
  obtain ⟨_, hp20, _⟩ := nbd_params_admissible hm₂ hv₂
  have a := nbd_delta_eq m₁ v₁ n h0 h1
  have b := nbd_delta_eq m₂ v₂ n h0 h1
  simp only at a b
  rw [a, b]
  constructor
  · show 1 - _ ≤ 1 - _
    cases n with
    | zero => simp
    | succ n => linarith [nb_partial_anti hr1 hr hp20 hp hp11 n]
  · exact nb_partial_anti hr1 hr hp20 hp hp11 n

/-- the same in the inputs of the code: the dispersion var/mean does not decrease (p = mean/var does not increase) and
    the shape mean²/(var − mean) does not decrease -/
theorem nbd_delta_mono_mean_dispersion {m₁ v₁ m₂ v₂ : ℝ} (hm₁ : 0 < m₁) (hv₁ : m₁ < v₁) (hm₂ : 0 < m₂) (hv₂ : m₂ < v₂)
    (hshape : m₁ ^ 2 / (v₁ - m₁) ≤ m₂ ^ 2 / (v₂ - m₂)) (hdisp : m₂ / v₂ ≤ m₁ / v₁)
    (n : ℕ) {ε : ℝ} (h0 : 0 < ε) (h1 : ε < 1) :
    (nbdDelta12 m₁ n v₁ ε).1 ≤ (nbdDelta12 m₂ n v₂ ε).1 ∧ (nbdDelta12 m₂ n v₂ ε).2 ≤ (nbdDelta12 m₁ n v₁ ε).2 := by
  have e1 := nbd_params m₁ v₁ (by linarith)
  have e2 := nbd_params m₂ v₂ (by linarith)
  apply nbd_delta_mono_params hm₁ hv₁ hm₂ hv₂ _ _ n h0 h1
  · rw [e1, e2]; exact hshape
  · rw [e1, e2]; exact hdisp

/-- fixed dispersion var = c · mean (c > 1): δ1 is non-decreasing and δ2 non-increasing in the forecast mean -/
theorem nbd_delta_mono_mean_fixed_dispersion {c m₁ m₂ : ℝ} (hc : 1 < c) (hm₁ : 0 < m₁) (h : m₁ ≤ m₂)
    (n : ℕ) {ε : ℝ} (h0 : 0 < ε) (h1 : ε < 1) :
    (nbdDelta12 m₁ n (c * m₁) ε).1 ≤ (nbdDelta12 m₂ n (c * m₂) ε).1 ∧
    (nbdDelta12 m₂ n (c * m₂) ε).2 ≤ (nbdDelta12 m₁ n (c * m₁) ε).2 := by
  have hm₂ : 0 < m₂ := lt_of_lt_of_le hm₁ h
  have hc0 : 0 < c - 1 := by linarith
  have hcp : 0 < c := by linarith
  apply nbd_delta_mono_mean_dispersion hm₁ (by nlinarith) hm₂ (by nlinarith) _ _ n h0 h1
  · have e : ∀ m : ℝ, 0 < m → m ^ 2 / (c * m - m) = m / (c - 1) := by
      intro m hm
      have : c * m - m = m * (c - 1) := by ring
      rw [this]; field_simp
    rw [e m₁ hm₁, e m₂ hm₂]
    exact div_le_div_of_nonneg_right h hc0.le
  · have e : ∀ m : ℝ, 0 < m → m / (c * m) = 1 / c := by
      intro m hm; field_simp
    rw [e m₁ hm₁, e m₂ hm₂]

/-- public level: both gridded forecasts tested with a variance proportional to their totals (`variance = c · total`) -/
theorem public_nbd_scale_mono_fixed_dispersion {ε : Type} (f : GF ℝ) (hb : 0 < f.base.sum) {c s s' : ℝ} (hc : 1 < c)
    (hs : 0 < s) (h : s ≤ s') (events : List ε) :
    (nbdNumberTestPub (f.scale s) events (c * (f.scale s).eventCount)).1
        ≤ (nbdNumberTestPub (f.scale s') events (c * (f.scale s').eventCount)).1 ∧
    (nbdNumberTestPub (f.scale s') events (c * (f.scale s').eventCount)).2
        ≤ (nbdNumberTestPub (f.scale s) events (c * (f.scale s).eventCount)).2 := by
  obtain ⟨h0, h1⟩ := eps_code_admissible
  have e1 : (f.scale s).eventCount = f.base.sum * s := gf_eventCount _
  have e2 : (f.scale s').eventCount = f.base.sum * s' := gf_eventCount _
  unfold nbdNumberTestPub
  rw [e1, e2]
  exact nbd_delta_mono_mean_fixed_dispersion hc (mul_pos hb hs) (mul_le_mul_of_nonneg_left h hb.le) _ h0 h1

/-! ### ... and false with the variance held fixed -/

/-- with the variance fixed the clause fails for the law itself: mean 2 → 3 at variance 4 LOWERS P(N ≥ 10) -/
theorem nbd_fixed_variance_not_monotone :
    ∃ (m₁ m₂ v : ℝ) (n : ℕ), 0 < m₁ ∧ m₁ < m₂ ∧ m₂ < v ∧
      (nbdDelta12 m₂ n v epsCode).1 < (nbdDelta12 m₁ n v epsCode).1 := by
  refine ⟨2, 3, 4, 10, by norm_num, by norm_num, by norm_num, ?_⟩
  obtain ⟨h0, h1⟩ := eps_code_admissible
  have a := nbd_delta_eq 2 4 10 h0 h1
  have b := nbd_delta_eq 3 4 10 h0 h1
  simp only at a b
  rw [a, b, nbd_params 2 4 (by norm_num), nbd_params 3 4 (by norm_num)]
  have e1 : ((2 : ℝ) ^ 2 / (4 - 2), (2 : ℝ) / 4) = (((2 : ℕ) : ℝ), 1 / 2) := by norm_num
  have e2 : ((3 : ℝ) ^ 2 / (4 - 3), (3 : ℝ) / 4) = (((9 : ℕ) : ℝ), 3 / 4) := by norm_num
  rw [e1, e2]
  show 1 - _ < 1 - _
  simp only [Finset.sum_range_succ, Finset.sum_range_zero, nbPmf_succ_real,
    nbPmf_zero_nat 2 (p := (1 / 2 : ℝ)) (by norm_num), nbPmf_zero_nat 9 (p := (3 / 4 : ℝ)) (by norm_num)]
  norm_num

/-! ### `scale_to_test_date` in the history -/

/-- a history of `scale(v)` and `scale_to_test_date(t)` calls is the history of the factors that took effect: a test
    date outside (start, end) leaves the previous factor in place -/
theorem history_eq_effective (base : List ℝ) (ops : List (ScaleOp ℝ)) :
    (GF.init base).applyAll ops = (GF.init base).scaleAll (effective ops) := applyAll_eq_scaleAll _ _

/-- the public Poisson N-test after any such history: the tails of Poisson(Σ stored rates × last EFFECTIVE factor) -/
theorem public_number_test_after_history {ε : Type} (base : List ℝ) (ops : List (ScaleOp ℝ)) (events : List ε) :
    let μ := base.sum * ((effective ops).getLast?).getD 1
    let n := events.length
    numberTestPub ((GF.init base).applyAll ops) events
      = (∑' j, poisPmf μ (j + n), ∑ j ∈ range (n + 1), poisPmf μ j) := by
  intro μ n
  rw [history_eq_effective]
  exact public_number_test_tails base (effective ops) events

/-! ### the announced number of catalogs -/

/-- whatever number was announced (none, the right one, too small, too large) the result is that of the catalogs
    delivered: no phantom catalogs, none dropped -/
theorem cfa_ntest_announced_irrelevant {ε : Type} (keep : ε → Bool) (cf : CF ε) (a a' : Option Nat) (obs : List ε) :
    (catalogNTestCFA keep ⟨cf, a⟩ obs).1 = (catalogNTestCFA keep ⟨cf, a'⟩ obs).1 ∧
    (catalogNTestCFA keep ⟨cf, a⟩ obs).1 = (catalogNTestCF keep cf obs).1 := ⟨rfl, rfl⟩

/-- after the test the forecast announces exactly the number of catalogs it delivered, and the denominators of both
    probabilities are that number -/
theorem cfa_pass_corrects_announced {ε : Type} (keep : ε → Bool) (f : CFA ε) (obs : List ε) (h : f.cf.catalogs ≠ []) :
    (catalogNTestCFA keep f obs).2.announced = some f.cf.catalogs.length ∧
    ((catalogNTestCFA keep f obs).1.1.map Prod.snd = some f.cf.catalogs.length) ∧
    ((catalogNTestCFA keep f obs).1.2.map Prod.snd = some f.cf.catalogs.length) := by
  have hlen : (f.cf.pass keep).1.length = f.cf.catalogs.length := by
    unfold CF.pass; split <;> simp
  have hne : (f.cf.pass keep).1 ≠ [] := by
    intro e; rw [e] at hlen; exact h (List.length_eq_zero_iff.mp hlen.symm)
  refine ⟨?_, ?_, ?_⟩
  · simp only [catalogNTestCFA, CFA.pass, hlen]
  · simp only [catalogNTestCFA, CFA.pass]
    have := catalog_public_eq (f.cf.pass keep).1 obs hne
    unfold catalogNTestPub at this
    rw [this]; simp [hlen]
  · simp only [catalogNTestCFA, CFA.pass]
    have := catalog_public_eq (f.cf.pass keep).1 obs hne
    unfold catalogNTestPub at this
    rw [this]; simp [hlen]

/-! ### the NBD probability parameter in float64 (fix D47: `upsilon = mean / var`) -/

/-- float64: for 0 < mean ≤ var the code's `upsilon = mean / var` is a number in [0, 1] -/
theorem upsilon_float_range {mean var : ℚ} (hm : 0 < mean) (hmv : mean ≤ var) :
    0 ≤ upsilonF mean var ∧ upsilonF mean var ≤ 1 := upsilonF_range hm hmv

/-- ... it is the correctly rounded quotient: relative error at most 2^-53 whenever mean/var ≥ 2^-1022 (every pair of
    the property's range: totals ≥ 1e-6 against any double variance) -/
theorem upsilon_float_rel_err {mean var : ℚ} (hm : 0 < mean) (hv : 0 < var) (hn : Soft64.pow2 (-1022) ≤ mean / var) :
    |upsilonF mean var - mean / var| ≤ Soft64.pow2 (-53) * (mean / var) := upsilonF_rel_err hm hv hn

/-- ... and never 0 there: the law handed to scipy is never degenerate (no nan), p ≥ (1 − 2^-53)·mean/var > 0 -/
theorem upsilon_float_pos {mean var : ℚ} (hm : 0 < mean) (hv : 0 < var) (hn : Soft64.pow2 (-1022) ≤ mean / var) :
    (1 - Soft64.pow2 (-53)) * (mean / var) ≤ upsilonF mean var ∧ 0 < upsilonF mean var := upsilonF_pos hm hv hn

/-- the formula of the code BEFORE D47, `1.0 - ((var - mean) / var)`, also stays in [0, 1] for doubles 0 < mean ≤ var … -/
theorem upsilon_old_float_range {mean var : ℚ} (hv : Soft64.IsF64 var) (hm : 0 < mean) (hmv : mean ≤ var) :
    0 ≤ upsilonOldF mean var ∧ upsilonOldF mean var ≤ 1 := upsilonOldF_range hv hm hmv

/-- float64: whatever number in [0, 1] scipy's cdf returns, `delta1 = 1.0 - cdf` is again a double in [0, 1]: the
    clause "both lie in [0,1]" survives the one float operation the code adds to scipy's value -/
theorem delta1_float_range {c : ℚ} (h0 : 0 ≤ c) (h1 : c ≤ 1) : 0 ≤ Soft64.fsub 1 c ∧ Soft64.fsub 1 c ≤ 1 := by
  constructor
  · exact Soft64.fl64_nonneg (x := 1 - c) (by linarith)
  · calc Soft64.fsub 1 c = Soft64.fl64 (1 - c) := rfl
      _ ≤ Soft64.fl64 1 := Soft64.fl64_mono (by linarith)
      _ = 1 := Soft64.fl64_one

/-- … but its lower end WAS attained inside the property's quantifier (variance > mean, total 1, variance 1e17): the old
    probability parameter is exactly 0 — a degenerate law, scipy answers nan — while the repaired `mean / var` is the
    positive double nearest 1e-17. Finding D47 (repaired in /repo; reverting the fix is reported by the corpus witnesses). -/
theorem finding_nbd_upsilon_zero :
    upsilonOldF 1 (10 ^ 17) = 0 ∧ 0 < upsilonF 1 (10 ^ 17) ∧ Soft64.IsF64 ((10 : ℚ) ^ 17) := by
  refine ⟨by decide +kernel, by decide +kernel, ?_⟩
  have : (10 : ℚ) ^ 17 = ((762939453125 : ℤ) : ℚ) * Soft64.pow2 17 := by
    rw [Soft64.pow2_eq_zpow]; norm_num
  rw [this]
  exact Soft64.isF64_dyadic _ _ (by norm_num) (by norm_num)

/-- the cancellation of the old formula cost accuracy long before that: at total 1 and variance 1e10 it gave
    56295·2^-49, the correctly rounded mean/var (the repaired code) is 7737125245533627·2^-86: 8.3e-8 relative apart -/
theorem finding_nbd_upsilon_inexact :
    upsilonOldF 1 (10 ^ 10) = 56295 / 562949953421312 ∧
    upsilonF 1 (10 ^ 10) = 7737125245533627 / 77371252455336267181195264 := by
  constructor <;> decide +kernel

-- non-vacuity
example : 0 ≤ Soft64.fsub 1 (3 / 4) ∧ Soft64.fsub 1 (3 / 4) ≤ 1 := delta1_float_range (by norm_num) (by norm_num)
example : ((catalogNTestCFA (fun _ : ℕ => true) ⟨⟨[[1, 1], [1, 1, 1], [1, 1, 1, 1]], false⟩, some 5⟩ [1, 1, 1]).2.announced
    = some 3) := (cfa_pass_corrects_announced _ _ _ (by simp)).1
example : (catalogNTestCFA (fun _ : ℕ => true) ⟨⟨[[1, 1], [1, 1, 1], [1, 1, 1, 1]], false⟩, some 5⟩ [1, 1, 1]).1
    = (some (2, 3), some (2, 3)) := by
  rw [(cfa_ntest_announced_irrelevant _ _ _ none _).2, cf_ntest_unfiltered, catalog_public_eq _ _ (by simp)]; decide

example : ((GF.init [1, 2, (3 : ℝ)]).applyAll [.set 5, .toDate true (1 / 2), .toDate false 7]).eventCount = 3 := by
  rw [history_eq_effective, forecast_total_after_scaling]; norm_num [effective]
example : 0 ≤ upsilonF 2 8 ∧ upsilonF 2 8 ≤ 1 := upsilon_float_range (by norm_num) (by norm_num)
example : 0 < upsilonF 1 (10 ^ 17) :=
  (upsilon_float_pos (by norm_num) (by norm_num)
    ((Soft64.pow2_mono (by norm_num : (-1022 : ℤ) ≤ -60)).trans (by rw [Soft64.pow2_eq_zpow]; norm_num))).2
example : 0 ≤ upsilonOldF 2 8 ∧ upsilonOldF 2 8 ≤ 1 :=
  upsilon_old_float_range (by simpa using Soft64.isF64_int 8 (by norm_num)) (by norm_num) (by norm_num)
example : shiftFE (999 / 1000) 100000 = (99999, 100000) :=
  float_floor_shift_eps 10 (by norm_num) _ (by rw [Soft64.pow2_eq_zpow]; norm_num)
    (by rw [Soft64.pow2_eq_zpow]; norm_num) _ (by norm_num)
example : shiftFE (1 / 100000000) 0 = (-1, 0) :=
  float_floor_shift_eps 27 (by norm_num) _ (by rw [Soft64.pow2_eq_zpow]; norm_num)
    (by rw [Soft64.pow2_eq_zpow]; norm_num) _ (by norm_num)
example : (nbdDelta12 2 7 6 (1e-6 : ℝ)).1 ≤ (nbdDelta12 5 7 15 (1e-6 : ℝ)).1 := by
  have := (nbd_delta_mono_mean_fixed_dispersion (c := 3) (m₁ := 2) (m₂ := 5) (by norm_num) (by norm_num)
    (by norm_num) 7 (ε := 1e-6) (by norm_num) (by norm_num)).1
  norm_num at this ⊢; exact this

end NumberTest
