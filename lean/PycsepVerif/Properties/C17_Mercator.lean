import PycsepVerif.Proofs.QuadMercator
import PycsepVerif.Proofs.QuadFloat
import PycsepVerif.Properties.C17

/-!
# C17, round 3 — the REAL Web-Mercator tile geometry, the code-shaped area function, float exactness by theorem

`Properties/C17.lean` proves the partition / location / area statements for an ABSTRACT strictly decreasing latitude
function and an abstract `s = sin ∘ lat`.  Here the latitude is the function mercantile computes,
`latDeg y = degrees(atan(sinh(π(1 − 2y))))` (`Quadtree.mercLat` of Model/QuadtreeGeo.lean instantiated at ℝ), the
hypotheses are PROVED for it, and the statements are transported to arbitrary REAL (lon, lat) pairs — not only points
with rational unit coordinates.  The area is the code-shaped `geographical_area_from_bounds` (both branches).
-/
namespace Quadtree
open Real

/-! ## the hypotheses of the abstract theorems hold for the real Mercator latitude -/

/-- the hypothesis `StrictAnti latOf` of `geo_membership` holds for mercantile's latitude function
    (`Real.sinh_strictMono`, `Real.arctan_strictMono`, `Real.pi_pos`) -/
theorem mercator_strictAnti : StrictAnti (fun y : ℚ => mercLat realGeo (y : ℝ)) := by
  intro a b hab
  simp only [mercLat_real]
  exact latDeg_strictAnti (by exact_mod_cast hab)

/-- every Mercator latitude lies strictly between −90° and 90°; the map is odd about the equator y = 1/2, so the
    southern limit is minus the northern one, `±degrees(atan(sinh π))` (≈ ±85.0511°, the number is compared with
    mercantile by the harness) -/
theorem mercator_range_and_limits :
    (∀ y : ℝ, -90 < mercLat realGeo y ∧ mercLat realGeo y < 90) ∧
    mercLat realGeo (1 / 2) = 0 ∧ (∀ y : ℝ, mercLat realGeo (1 - y) = -mercLat realGeo y) ∧
    mercLat realGeo 0 = arctan (sinh π) * (180 / π) ∧ 0 < mercLat realGeo 0 ∧
    mercLat realGeo 1 = -mercLat realGeo 0 := by
  simp only [mercLat_real]
  refine ⟨latDeg_range, latDeg_half, latDeg_reflect, ?_, latDeg_zero_pos, latDeg_one⟩
  simp [latDeg, latRad]

/-- C17 for the real geometry: the library's test `lon ≥ west ∧ lat ≥ south ∧ lon < east ∧ lat < north` against the
    bounds mercantile computes for quadkey `k` (over ℝ), at the point with unit coordinates `p`, is `InTile k p` —
    `geo_membership` with its hypothesis discharged. -/
theorem mercator_geo_membership (k : Key) (p : Pt) :
    (lonW k ≤ lonOf p.x ∧ mercLat realGeo ((yS k : ℚ) : ℝ) ≤ mercLat realGeo ((p.y : ℚ) : ℝ) ∧
      lonOf p.x < lonE k ∧ mercLat realGeo ((p.y : ℚ) : ℝ) < mercLat realGeo ((yN k : ℚ) : ℝ)) ↔ InTile k p :=
  geo_membership (fun y : ℚ => mercLat realGeo (y : ℝ)) mercator_strictAnti k p

/-- every latitude strictly between −90° and 90° is the Mercator latitude of EXACTLY ONE real unit coordinate -/
theorem mercator_every_latitude (φ : ℝ) (h1 : -90 < φ) (h2 : φ < 90) : ∃! y : ℝ, mercLat realGeo y = φ := by
  refine ⟨mercY φ, by simp only [mercLat_real]; exact latDeg_mercY φ h1 h2, ?_⟩
  intro y hy
  simp only [mercLat_real] at hy
  rw [← hy, mercY_latDeg]

/-- C17 for ARBITRARY real query points: for every real longitude `lon` and every real latitude `lat` in (−90°, 90°)
    the library's test against the real Mercator bounds of `k` is the dyadic-square test on the real unit
    coordinates `((lon + 180)/360, mercY lat)`. -/
theorem mercator_membership_real (k : Key) (lon lat : ℝ) (h1 : -90 < lat) (h2 : lat < 90) :
    (mercLon realGeo ((xW k : ℚ) : ℝ) ≤ lon ∧ mercLat realGeo ((yS k : ℚ) : ℝ) ≤ lat ∧
      lon < mercLon realGeo ((xE k : ℚ) : ℝ) ∧ lat < mercLat realGeo ((yN k : ℚ) : ℝ)) ↔
    InTileR k ((lon + 180) / 360) (mercY lat) := by
  have h := real_membership k ((lon + 180) / 360) (mercY lat)
  rw [latDeg_mercY lat h1 h2] at h
  have e : (lon + 180) / 360 * 360 - 180 = lon := by ring
  rw [e] at h
  simp only [mercLat_real, mercLon_real]
  have ew : ((lonW k : ℚ) : ℝ) = ((xW k : ℚ) : ℝ) * 360 - 180 := by unfold lonW lonOf; push_cast; ring
  have ee : ((lonE k : ℚ) : ℝ) = ((xE k : ℚ) : ℝ) * 360 - 180 := by unfold lonE lonOf; push_cast; ring
  rw [← ew, ← ee]
  exact h

/-- the real test and the exact-layer test agree on points with rational unit coordinates … -/
theorem real_test_on_rational_points (k : Key) (p : Pt) : InTileR k (p.x : ℝ) (p.y : ℝ) ↔ InTile k p :=
  inTileR_cast k p

/-- … and membership in any tile of depth ≤ D depends ONLY on the depth-D cell the point falls in (column ⌊x·2^D⌋,
    row ⌈y·2^D⌉ — west and south edges inclusive): a real point and ANY rational representative of its depth-D cell
    are in the same tiles.  This is why the harness may hand the model "the deepest-level row a latitude falls in". -/
theorem representative_sound (D : ℕ) (x y : ℝ) (p : Pt)
    (hx : ⌊(p.x : ℝ) * 2 ^ D⌋ = ⌊x * 2 ^ D⌋) (hy : ⌈(p.y : ℝ) * 2 ^ D⌉ = ⌈y * 2 ^ D⌉)
    (k : Key) (hk : k.length ≤ D) : InTileR k x y ↔ InTile k p := by
  rw [← inTileR_cast, inTileR_iff_cell k D hk x y, inTileR_iff_cell k D hk (p.x : ℝ) (p.y : ℝ), hx, hy]

/-- hence `_find_location` on the real point is the model's `findLocation` on the representative: the first listed
    cell whose REAL half-open Mercator bounds contain (lon, lat) -/
theorem locate_real (cells : List Key) (D : ℕ) (hD : ∀ k ∈ cells, k.length ≤ D) (lon lat : ℝ)
    (h1 : -90 < lat) (h2 : lat < 90) (p : Pt)
    (hx : ⌊(p.x : ℝ) * 2 ^ D⌋ = ⌊(lon + 180) / 360 * 2 ^ D⌋) (hy : ⌈(p.y : ℝ) * 2 ^ D⌉ = ⌈mercY lat * 2 ^ D⌉) :
    (∀ i, findLocation cells p = some i →
      ∃ h : i < cells.length,
        (mercLon realGeo ((xW cells[i] : ℚ) : ℝ) ≤ lon ∧ mercLat realGeo ((yS cells[i] : ℚ) : ℝ) ≤ lat ∧
          lon < mercLon realGeo ((xE cells[i] : ℚ) : ℝ) ∧ lat < mercLat realGeo ((yN cells[i] : ℚ) : ℝ))) ∧
    (findLocation cells p = none ↔ ∀ k ∈ cells,
        ¬ (mercLon realGeo ((xW k : ℚ) : ℝ) ≤ lon ∧ mercLat realGeo ((yS k : ℚ) : ℝ) ≤ lat ∧
          lon < mercLon realGeo ((xE k : ℚ) : ℝ) ∧ lat < mercLat realGeo ((yN k : ℚ) : ℝ))) := by
  have key : ∀ k ∈ cells, (mercLon realGeo ((xW k : ℚ) : ℝ) ≤ lon ∧ mercLat realGeo ((yS k : ℚ) : ℝ) ≤ lat ∧
          lon < mercLon realGeo ((xE k : ℚ) : ℝ) ∧ lat < mercLat realGeo ((yN k : ℚ) : ℝ)) ↔ InTile k p := by
    intro k hk
    rw [mercator_membership_real k lon lat h1 h2]
    exact representative_sound D _ _ p hx hy k (hD k hk)
  have hl := locate_spec cells p
  refine ⟨?_, ?_⟩
  · intro i hi
    obtain ⟨hlt, hin, _⟩ := hl.1 i hi
    exact ⟨hlt, (key _ (List.getElem_mem hlt)).mpr hin⟩
  · rw [hl.2.1]
    constructor
    · intro h k hk hc; exact h k hk ((key k hk).mp hc)
    · intro h k hk hc; exact h k hk ((key k hk).mpr hc)

/-! ## areas through the code-shaped `geographical_area_from_bounds` -/

/-- regions.py:824 on ℝ, BOTH branches: the result is 2πR²·(sin lat2 − sin lat1)·(lon2 − lon1)/360 for ALL arguments;
    the early `return 0` (`lon1 == lon2 or lat1 == lat2`) agrees with the formula, i.e. it returns 0 exactly where
    the strip or the longitude span is degenerate anyway. -/
theorem geo_area_formula (lon1 lat1 lon2 lat2 : ℝ) :
    geoAreaFromBounds realGeo lon1 lat1 lon2 lat2 =
      2 * π * (6371 : ℝ) ^ 2 * (sin (lat2 * (π / 180)) - sin (lat1 * (π / 180))) * ((lon2 - lon1) / 360) :=
  geoArea_real lon1 lat1 lon2 lat2

/-- `get_cell_area` of a tile (the code-shaped function on the tile's real Mercator bounds) is the model's `area`
    with c = 2πR² and s = sin ∘ latitude = tanh(π(1 − 2y)) — the function the driver evaluates in Float. -/
theorem tile_area_code_shaped (k : Key) :
    cellAreaGeo realGeo (fun q : ℚ => (q : ℝ)) k =
      area (2 * π * (6371 : ℝ) ^ 2) (fun y : ℚ => sin (latRad (y : ℝ))) k ∧
    cellAreaGeo realGeo (fun q : ℚ => (q : ℝ)) k =
      area (2 * π * (6371 : ℝ) ^ 2) (fun y : ℚ => tanh (π * (1 - 2 * (y : ℝ)))) k :=
  ⟨cellAreaGeo_real k, cellAreaGeo_real_tanh k⟩

/-- a tile never takes the early `return 0`: its bounds are distinct and its area is positive -/
theorem tile_area_pos (k : Key) :
    0 < cellAreaGeo realGeo (fun q : ℚ => (q : ℝ)) k ∧
    mercLon realGeo ((xW k : ℚ) : ℝ) ≠ mercLon realGeo ((xE k : ℚ) : ℝ) ∧
    mercLat realGeo ((yS k : ℚ) : ℝ) ≠ mercLat realGeo ((yN k : ℚ) : ℝ) :=
  ⟨cellAreaGeo_pos k, tile_bounds_distinct k⟩

/-- C17 "cell areas add up to the area of the covered latitude band", for the real geometry and the code-shaped
    function: the cells of EVERY `from_catalog` grid (any catalog, threshold, zoom) sum to
    4πR²·sin(latmax), latmax = atan(sinh π) the Web-Mercator limit; sin(latmax) = tanh π. -/
theorem area_total_from_catalog (thr zoom : Nat) (pts : List Pt) :
    ((fromCatalog thr zoom pts).map (fun l => cellAreaGeo realGeo (fun q : ℚ => (q : ℝ)) l.1)).sum =
      4 * π * (6371 : ℝ) ^ 2 * sin (latRad 0) ∧ sin (latRad 0) = tanh π := by
  have hs : sin (latRad 0) = tanh π := by rw [sin_latRad]; simp
  refine ⟨?_, hs⟩
  have h := area_from_catalog (2 * π * (6371 : ℝ) ^ 2) (fun y : ℚ => sin (latRad (y : ℝ))) thr zoom pts
  simp only [cellAreaGeo_real]
  rw [h]
  have h1 : sin (latRad ((1 : ℚ) : ℝ)) = -sin (latRad ((0 : ℚ) : ℝ)) := by
    rw [sin_latRad, sin_latRad]; push_cast
    have : π * (1 - 2 * 1) = -(π * (1 - 2 * 0)) := by ring
    rw [this, tanh_neg]
  rw [h1]; push_cast; ring

/-- the same for every single-resolution grid -/
theorem area_total_single_resolution (z : Nat) :
    ((singleRes z).map (cellAreaGeo realGeo (fun q : ℚ => (q : ℝ)))).sum = 4 * π * (6371 : ℝ) ^ 2 * sin (latRad 0) := by
  have h := area_single_resolution (2 * π * (6371 : ℝ) ^ 2) (fun y : ℚ => sin (latRad (y : ℝ))) z
  have e : (cellAreaGeo realGeo fun q : ℚ => (q : ℝ)) = area (2 * π * (6371 : ℝ) ^ 2) (fun y : ℚ => sin (latRad (y : ℝ))) :=
    funext cellAreaGeo_real
  rw [e, h]
  have h1 : sin (latRad ((1 : ℚ) : ℝ)) = -sin (latRad ((0 : ℚ) : ℝ)) := by
    rw [sin_latRad, sin_latRad]; push_cast
    have : π * (1 - 2 * 1) = -(π * (1 - 2 * 0)) := by ring
    rw [this, tanh_neg]
  rw [h1]; push_cast; ring

/-! ## float layer by theorem (Soft64), no kernel table -/

/-- mercantile's `xtile / Z2 * 360.0 - 180.0` is exact in binary64 for EVERY column edge of EVERY zoom ≤ 40
    (strengthens `lon_bounds_exact`, zoom ≤ 10 by kernel evaluation; the shipped California grid is zoom 12). -/
theorem lon_bounds_exact_all (z X : Nat) (hz : z ≤ 40) (hX : X ≤ 2 ^ z) :
    lonFloat X z = lonOf ((X : Rat) / ((2 ^ z : Nat) : Rat)) := lonFloat_exact z X hz hX

/-- the argument `1 - 2 * ytile / Z2` of mercantile's latitude chain is exact in binary64 … -/
theorem lat_arg_exact (z Y : Nat) (hz : z ≤ 40) (hY : Y ≤ 2 ^ z) :
    latArgFloat Y z = 1 - 2 * ((Y : Rat) / ((2 ^ z : Nat) : Rat)) := latArgFloat_exact z Y hz hY

/-- … hence the float latitude of a tile edge is a function of the dyadic unit coordinate alone: an edge shared by
    tiles of different zoom levels feeds bit-identical inputs into `math.pi * · → sinh → atan → degrees`, so the
    "shared edges are bit-identical" assumption of the exact layer needs nothing from libm but determinism. -/
theorem lat_arg_depends_on_unit_coordinate (z Y z' Y' : Nat) (hz : z ≤ 40) (hY : Y ≤ 2 ^ z) (hz' : z' ≤ 40)
    (hY' : Y' ≤ 2 ^ z') (h : (Y : Rat) / ((2 ^ z : Nat) : Rat) = (Y' : Rat) / ((2 ^ z' : Nat) : Rat)) :
    latArgFloat Y z = latArgFloat Y' z' := by
  rw [lat_arg_exact z Y hz hY, lat_arg_exact z' Y' hz' hY', h]

/-! ## quadkeys as text, origins, get_location_of -/

/-- save_quadtree → genfromtxt(dtype=str) → from_quadkeys (the path `california_quadtree_region` takes) gives back
    the same key list, for every grid -/
theorem quadkeys_text_roundtrip (cells : List Key) : loadLines? (saveLines cells) = some cells := load_save cells

/-- on a prefix-free grid (every grid the constructors make) the origin `poly.origin = (west, south)` of cell i —
    what `origins()` and `to_dict()` report — is located in cell i, and `get_location_of([i])` is that cell -/
theorem origin_own_cell (cells : List Key) (hpf : prefixFree cells) (i : Nat) (hi : i < cells.length) :
    findLocation cells (originOf cells[i]) = some i ∧ getLocationOf cells [i] = some [cells[i]] := by
  refine ⟨(locate_spec cells _).2.2 hpf i hi (corner_ownership cells[i]).1, ?_⟩
  simp [getLocationOf, List.mapM_cons, hi]

/-! ## non-vacuity -/

-- a real point with an irrational unit ordinate and its rational representative fall in the same depth-1 cell
example : ⌊((1 / 4 : ℚ) : ℝ) * 2 ^ 1⌋ = ⌊(1 / 4 : ℝ) * 2 ^ 1⌋ := by norm_num
-- float exactness hypotheses: zoom 12, last column edge
example : (12 : ℕ) ≤ 40 ∧ (4096 : ℕ) ≤ 2 ^ 12 := by decide
-- two zoom levels sharing the edge y = 1/2
example : ((1 : ℕ) : ℚ) / ((2 ^ 1 : ℕ) : ℚ) = ((2 : ℕ) : ℚ) / ((2 ^ 2 : ℕ) : ℚ) := by norm_num
-- a latitude strictly inside (−90, 90)
example : (-90 : ℝ) < 45 ∧ (45 : ℝ) < 90 := by norm_num
-- a prefix-free grid whose origins are located in their own cells
example : findLocation [[0, 0], [0, 1], [0, 2], [0, 3], [1], [2], [3]] (originOf [0, 3]) = some 3 := by decide +kernel
example : loadLines? (saveLines [[0, 2, 1, 3], [3]]) = some [[0, 2, 1, 3], [3]] := by decide +kernel

end Quadtree
