import PycsepVerif.Model.ForecastReads
import PycsepVerif.Properties.C13

/-!
# C13 (round 5) — every read of the expected rates, in every argument form, anywhere in a history

`Model/ForecastReads.lean`.  `reads_refine_spec`: in ANY history that mixes the eleven operations with reads of the expected
rates (`data`, `spatial_counts()` , `spatial_counts(cartesian=True)`, `magnitude_counts()`, the total), on every source, each read
returns the corresponding view of the per-bin totals of the once-filtered catalogs over `n_cat`; `read_stable`: two reads of the
same kind return the same value wherever they stand in the history — a read (or an evaluation) never changes what a later read
returns; `cartesian_consistent`: the 2-d map shows, at every position that holds a cell, exactly the entry of the 1-d vector.
-/
namespace ForecastIter

theorem stepR_spec {file : List Cat} {af0 : Bool} {nBins nMag : Nat} {st : St} (layout : List (Option Nat))
    (hinv : Inv file af0 nBins nMag st) (hne : file ≠ []) (o : OpR) :
    (stepR layout st o).2 = specOutR layout (filtered file af0) nBins nMag o ∧
    Inv file af0 nBins nMag (stepR layout st o).1 ∧ (stepR layout st o).1.nCat = some file.length := by
  cases o with
  | op o =>
    obtain ⟨h1, h2, h3⟩ := step_spec hinv hne o
    exact ⟨by simp [stepR, specOutR, h1], h2, h3⟩
  | read r =>
    obtain ⟨h1, h2, h3⟩ := step_spec hinv hne .getExpectedRates
    simp only [step, withRates, specOut, id] at h1 h2 h3
    unfold stepR
    cases hg : getExpectedRates st with
    | none => simp [hg] at h1
    | some p =>
      obtain ⟨st', d, n⟩ := p
      simp only [hg, Out.rates.injEq] at h1 h2 h3
      obtain ⟨rfl, rfl⟩ := h1
      exact ⟨by simp [specOutR, hinv.hnb, hinv.hnm], h2, h3⟩

/-- **refinement with reads**: every history over operations and reads, of any length, from any state between operations -/
theorem reads_refine_spec {file : List Cat} {af0 : Bool} {nBins nMag : Nat} (layout : List (Option Nat)) (hne : file ≠ []) :
    ∀ (ops : List OpR) (st : St), Inv file af0 nBins nMag st →
      runR layout st ops = specR layout (filtered file af0) nBins nMag ops
  | [], _, _ => rfl
  | o :: os, st, hinv => by
    obtain ⟨hout, hi', hn'⟩ := stepR_spec layout hinv hne o
    have ih := reads_refine_spec layout hne os (stepR layout st o).1 hi'
    simp only [runR, specR, List.map_cons]
    rw [hout, hn', ih]
    simp [specR, filtered_length]

/-- a read never changes what a later read returns: two reads of the same kind anywhere in a history agree -/
theorem read_stable {file : List Cat} {af0 : Bool} {nBins nMag : Nat} (layout : List (Option Nat)) (hne : file ≠ [])
    {st : St} (hinv : Inv file af0 nBins nMag st) (ops : List OpR) (r : Read) (i j : Nat)
    (hi : ops[i]? = some (.read r)) (hj : ops[j]? = some (.read r)) :
    (runR layout st ops)[i]? = (runR layout st ops)[j]? := by
  rw [reads_refine_spec layout hne ops st hinv]
  simp [specR, List.getElem?_map, hi, hj]

/-- the two representations of the spatial rates agree: wherever the 2-d map holds cell `c` it shows entry `c` of the 1-d vector -/
theorem cartesian_consistent (layout : List (Option Nat)) (nMag nBins : Nat) (d : List Nat) (p c : Nat)
    (hp : layout[p]? = some (some c)) :
    (readView layout nMag nBins .spatialCartesian d)[p]? =
      some ((readView layout nMag nBins .spatial d)[c]?.bind id) := by
  simp only [readView, List.getElem?_map, hp, Option.map_some, Option.bind_some]
  cases (spatialMarginal nMag nBins d)[c]? <;> rfl

/-- all sources -/
theorem reads_refine_spec_sources (layout : List (Option Nat)) (file : List Cat) (hne : file ≠ []) (af : Bool)
    (nBins nMag : Nat) (ops : List OpR) :
    (∀ store nCat, runR layout (initStreamN file store af nCat nBins nMag) ops = specR layout (filtered file af) nBins nMag ops) ∧
    runR layout (initList file none af nBins nMag) ops = specR layout (filtered file af) nBins nMag ops :=
  ⟨fun store nCat => reads_refine_spec layout hne ops _ (inv_initStreamN file store af nCat nBins nMag),
   reads_refine_spec layout hne ops _ (inv_initList file none af nBins nMag (Or.inl rfl))⟩

/-! non-vacuity: a 2×1-cell, 2-magnitude-bin forecast whose bounding box has a hole at position 1 -/
example : (runR [some 0, none, some 1] (initStream demo true true 4 2)
      [.read .spatialCartesian, .op .spatialTest, .read .spatial, .read .spatialCartesian, .read .total]).map (·.1)
    = [.view [some 1, none, some 2] 3, .out (.cats (filtered demo true)), .view [some 1, some 2] 3,
       .view [some 1, none, some 2] 3, .view [some 3] 3] := by decide +kernel

example : (runR [some 0, none, some 1] (initStream demo true true 4 2) [.read .spatial, .read .spatialCartesian, .read .spatial])[0]?
    = (runR [some 0, none, some 1] (initStream demo true true 4 2) [.read .spatial, .read .spatialCartesian, .read .spatial])[2]? :=
  read_stable _ (by decide) (inv_initStream demo true true 4 2) _ .spatial 0 2 rfl rfl

end ForecastIter
