import PycsepVerif.Proofs.TimeExt
import PycsepVerif.Properties.C15

/-!
# C15, wave 4 — more of time_utils.py inside the model

* the `os.name == "nt"` branch of `epoch_time_to_utc_datetime` as it was before fix D39 (`Model/TimeExt.lean: toDatetimeNtOld`; the repaired code is `toDatetimeNt`, theorems `nt_repaired_*`): exact
  characterisation of the negative epochs it converts correctly, the FINDING that it is wrong for the others
  (every negative millisecond that is a multiple of 10 but not of 1000) and returns a naive datetime, and the
  correctness of the proposed one-line repair;
* the FULL range of `datetime` (0001-01-01 … 9999-12-31): what remains true of the float conversion outside
  |ms| < 2^33·1000 (within 15 µs, strictly monotone, round trip off by at most one) and the proof that the
  bound 2^33·1000 of `ms_roundtrip` is sharp; the string / field theorems for every four-digit year;
* days ↔ milliseconds, `timedelta_from_years`, explicit formats, derived durations.
-/
namespace Time
open Soft64

/-! ## the Windows branch -/

/-- for a non-negative epoch the Windows build takes the same path as every other platform -/
theorem nt_nonneg_agrees (ms : Int) (h : 0 ≤ ms) : toDatetimeNtOld ms = (toDatetime ms, true) := by
  unfold toDatetimeNtOld toDatetime
  have : ¬ (msToSecF ms < 0) := by rw [msToSecF_neg_iff]; omega
  simp only [this, if_false]

/-- what the Windows branch computes for a negative epoch: the right instant PLUS `f − strip f` milliseconds, where
    `f = |ms| mod 1000` and `strip f` is `f` with its trailing decimal zeros removed (`int("5")` for `-1.5`),
    as a NAIVE datetime -/
theorem nt_negative_value (ms : Int) (h : ms < 0) :
    toDatetimeNtOld ms =
      (1000 * ms + 1000 * (((ms.natAbs % 1000 : Nat) : Int) - ((strippedFrac (ms.natAbs % 1000) : Nat) : Int)), false) := by
  unfold toDatetimeNtOld
  have hneg : msToSecF ms < 0 := (msToSecF_neg_iff ms).mpr h
  simp only [hneg, if_true]
  rw [intOfDigits_reprFrac _ (Nat.mod_lt _ (by norm_num))]
  congr 1
  omega

theorem strippedFrac_eq_iff (f : Nat) : strippedFrac f = f ↔ (f % 10 ≠ 0 ∨ f = 0) := by
  unfold strippedFrac
  split
  · omega
  · split <;> omega

/-- **C15 on Windows, exact characterisation**: a negative epoch is converted to the right instant iff it is not a
    multiple of 10 ms, or is a whole second. -/
theorem nt_exact_iff (ms : Int) (h : ms < 0) :
    (toDatetimeNtOld ms).1 = 1000 * ms ↔ (ms % 10 ≠ 0 ∨ ms % 1000 = 0) := by
  rw [nt_negative_value ms h]
  have key := strippedFrac_eq_iff (ms.natAbs % 1000)
  constructor
  · intro hh
    have : strippedFrac (ms.natAbs % 1000) = ms.natAbs % 1000 := by
      simp only at hh; omega
    have := key.mp this
    omega
  · intro hh
    have : strippedFrac (ms.natAbs % 1000) = ms.natAbs % 1000 := key.mpr (by omega)
    simp only [this]; omega

/-- the same for the round trip ms → datetime → ms through the Windows branch -/
theorem nt_roundtrip_iff (ms : Int) (h : ms < 0) :
    dtToMs (toDatetimeNtOld ms).1 = ms ↔ (ms % 10 ≠ 0 ∨ ms % 1000 = 0) := by
  rw [← nt_exact_iff ms h, nt_negative_value ms h, dt_to_ms_floor]
  simp only
  omega

/-- the Windows branch returns a tz-aware datetime exactly for the non-negative epochs -/
theorem nt_aware_iff (ms : Int) : (toDatetimeNtOld ms).2 = true ↔ 0 ≤ ms := by
  by_cases h : 0 ≤ ms
  · rw [nt_nonneg_agrees ms h]; simp [h]
  · rw [nt_negative_value ms (by omega)]; simp [h]

/-- **FINDING (defect candidate, Windows only)**: −1500 ms becomes 1969-12-31 23:59:58.995 (−1005 ms), and the
    conversion is not monotone on negative epochs. -/
theorem nt_finding_roundtrip_fails :
    toDatetimeNtOld (-1500) = (-1005000, false) ∧ dtToMs (toDatetimeNtOld (-1500)).1 = -1005 := by decide +kernel

theorem nt_finding_not_monotone :
    (-1500 : Int) < -1234 ∧ (toDatetimeNtOld (-1234)).1 < (toDatetimeNtOld (-1500)).1 := by decide +kernel

/-- one negative epoch in ten is affected: in every block of 1000 consecutive negative milliseconds exactly 99 are
    converted to a wrong instant (multiples of 10 that are not whole seconds) -/
theorem nt_finding_share :
    ((List.range 1000).filter (fun k => (toDatetimeNtOld (-(1000 + (k : Int)))).1 ≠ 1000 * (-(1000 + (k : Int))))).length = 99 := by
  decide +kernel

/-- **the proposed repair** `datetime(1970,1,1,tzinfo=utc) + timedelta(seconds=epoch_time)` is exact (and aware)
    on the whole range of `ms_to_dt_exact`, negative epochs included. -/
theorem nt_patched_exact (ms : Int) (h : |ms| < 8589934592000) : toDatetimeNtPatched ms = (1000 * ms, true) := by
  unfold toDatetimeNtPatched
  rw [← fromTimestamp_eq_timedeltaSeconds]
  have := ms_to_dt_exact ms h
  unfold toDatetime at this
  rw [this]

/-- **C15 on Windows, the code as it is now (after D39)**: the `nt` path is the same function as on every other platform —
    for every epoch, with no range hypothesis — hence exact, tz-aware, round-tripping and monotone wherever `toDatetime` is. -/
theorem nt_repaired_agrees (ms : Int) : toDatetimeNt ms = (toDatetime ms, true) := by
  unfold toDatetimeNt toDatetime
  simp only
  split
  · rw [fromTimestamp_eq_timedeltaSeconds]
  · rfl

theorem nt_repaired_exact (ms : Int) (h : |ms| < 8589934592000) :
    toDatetimeNt ms = (1000 * ms, true) ∧ dtToMs (toDatetimeNt ms).1 = ms := by
  rw [nt_repaired_agrees, ms_to_dt_exact ms h]
  refine ⟨rfl, ?_⟩
  show dtToMs (1000 * ms) = ms
  rw [dt_to_ms_floor]; omega

theorem create_utc_spec (us : Int) :
    createUtcDatetime .naive us = .ok us ∧ createUtcDatetime .utc us = .assertionError
      ∧ createUtcDatetime .other us = .assertionError := by
  simp [createUtcDatetime, createUtcDatetimeFixed]

example : toDatetimeNt (-1500) = (-1500000, true) := (nt_repaired_exact (-1500) (by decide)).1
example : toDatetimeNtOld (-1234) = (-1234000, false) := by decide +kernel
example : toDatetimeNtOld (-1097606850620) = (-1097606850062000, false) := by decide +kernel
example : toDatetimeNtPatched (-1097606850620) = (-1097606850620000, true) := nt_patched_exact _ (by decide)
example : (toDatetimeNtOld (-7)).1 = 1000 * (-7) := (nt_exact_iff (-7) (by decide)).mpr (by decide)

/-! ## the full range of `datetime`: 0001-01-01 … 9999-12-31 -/

def msMin : Int := -62135596800000     -- 0001-01-01T00:00:00
def msMax : Int := 253402300799999     -- 9999-12-31T23:59:59.999

theorem full_range_ok (ms : Int) (h1 : msMin ≤ ms) (h2 : ms ≤ msMax) : |ms| < 274877906944000 := by
  unfold msMin at h1; unfold msMax at h2; rw [abs_lt]; constructor <;> omega

/-- **C15 outside 1697…2242**: for every millisecond of datetime's range the float path
    `fromtimestamp(ms / 1000)` lands within 15 µs of the instant (the quotient is only accurate to 2^-16 s there). -/
theorem ms_to_dt_close_full (ms : Int) (h : |ms| < 274877906944000) : |toDatetime ms - 1000 * ms| ≤ 15 := by
  unfold toDatetime
  apply fromTimestamp_near
  have := msToSecF_err_full ms h
  have e : ((1000 * ms : Int) : ℚ) / 1000000 = (ms : ℚ) / 1000 := by push_cast; ring
  rwa [e]

/-- … hence ms → datetime is strictly increasing on the full range, -/
theorem to_datetime_strict_mono_full (a b : Int) (ha : |a| < 274877906944000) (hb : |b| < 274877906944000)
    (hab : a < b) : toDatetime a < toDatetime b := by
  have h1 := ms_to_dt_close_full a ha
  have h2 := ms_to_dt_close_full b hb
  rw [abs_le] at h1 h2
  omega

/-- … and the round trip returns `ms` or `ms − 1`, never anything else. -/
theorem ms_roundtrip_full (ms : Int) (h : |ms| < 274877906944000) :
    dtToMs (toDatetime ms) = ms ∨ dtToMs (toDatetime ms) = ms - 1 := by
  have h1 := ms_to_dt_close_full ms h
  rw [abs_le] at h1
  rw [dt_to_ms_floor]
  omega

/-- the bound `|ms| < 2^33·1000` of `ms_roundtrip` / `ms_to_dt_exact` is SHARP: the first millisecond beyond it
    (2242-03-16T12:56:32.001) comes back as the millisecond before, through the real code as well
    (`datetime_to_utc_epoch(epoch_time_to_utc_datetime(8589934592001)) == 8589934592000`). Outside the property's
    range 1900…2200; recorded as an observation. -/
theorem ms_roundtrip_bound_sharp :
    toDatetime 8589934592001 = 8589934592000999 ∧ dtToMs (toDatetime 8589934592001) = 8589934592000 := by
  decide +kernel

example : |toDatetime 253402300799999 - 1000 * 253402300799999| ≤ 15 := ms_to_dt_close_full _ (by decide)
example : toDatetime 253402300799999 = 253402300799998993 := by decide +kernel

/-- microsecond range of `datetime` -/
def usMin : Int := -62135596800000000
def usMax : Int := 253402300800000000   -- exclusive

/-- **fields of every datetime are valid constructor arguments** (year 1 … 9999) -/
theorem fields_valid_full (us : Int) (h0 : usMin ≤ us) (h1 : us < usMax) : validFields (fields us) = true := by
  unfold usMin at h0; unfold usMax at h1
  have hz0 : -719162 ≤ us / 86400000000 := by omega
  have hz1 : us / 86400000000 ≤ 2932896 := by omega
  have hy := civil_year_full _ hz0 hz1
  have hv := civil_valid (us / 86400000000)
  simp only [validFields, fields, usPerDay, Bool.and_eq_true]
  refine ⟨⟨⟨⟨⟨⟨⟨⟨⟨⟨?_, ?_⟩, hv⟩, ?_⟩, ?_⟩, ?_⟩, ?_⟩, ?_⟩, ?_⟩, ?_⟩, ?_⟩
  all_goals (apply decide_eq_true; omega)

/-- **C15, strings, full range**: `string_parse_agrees` for every datetime (years 0001 … 9999, four-digit
    zero-padded years included) -/
theorem string_parse_agrees_full (us : Int) (h0 : usMin ≤ us) (h1 : us < usMax) :
    strptimeToUtcDatetime (strNaive us) = some us ∧ strptimeToUtcDatetime (strAware us) = some us
      ∧ strptimeToUtcEpoch (strNaive us) = some (us / 1000) ∧ strptimeToUtcEpoch (strAware us) = some (us / 1000) := by
  have hv := fields_valid_full us h0 h1
  have key : ∀ zone : Bool, strptimeToUtcDatetime (isoformat ' ' us ++ zoneSuffix zone) = some us := by
    intro zone
    unfold strptimeToUtcDatetime isoformat
    rw [parseStringFormat_format]
    simp only [bind, Option.bind, strptimeWith]
    rw [strptimeFields_formatFields ' ' (fields us) hv zone]
    simp [ofFields_fields]
  have hn := key false
  have ha := key true
  simp only [zoneSuffix, Bool.false_eq_true, if_false, List.append_nil, if_true] at hn ha
  refine ⟨hn, ha, ?_, ?_⟩
  · unfold strptimeToUtcEpoch; rw [show strNaive us = isoformat ' ' us from rfl, hn]; simp [dt_to_ms_floor]
  · unfold strptimeToUtcEpoch; rw [show strAware us = isoformat ' ' us ++ ['+', '0', '0', ':', '0', '0'] from rfl, ha]
    simp [dt_to_ms_floor]

/-- **explicit format argument**: with the format that matches the string (any date/time separator, `.%f` iff the
    datetime has microseconds) `strptime_to_utc_datetime(s, format)` / `strptime_to_utc_epoch(s, format)` return the
    datetime / its floor millisecond — the csep_ascii reader's `T` formats are the instance `sep = 'T'`. -/
theorem explicit_format_agrees (sep : Char) (us : Int) (h0 : usMin ≤ us) (h1 : us < usMax) :
    strptimeExplicitDatetime { sep := sep, frac := decide ((fields us).micro ≠ 0), zone := false } (isoformat sep us)
        = some us
      ∧ strptimeExplicitEpoch { sep := sep, frac := decide ((fields us).micro ≠ 0), zone := false } (isoformat sep us)
        = some (us / 1000) := by
  have hv := fields_valid_full us h0 h1
  have := strptimeFields_formatFields sep (fields us) hv false
  simp only [zoneSuffix, Bool.false_eq_true, if_false, List.append_nil] at this
  unfold strptimeExplicitDatetime strptimeExplicitEpoch strptimeWith isoformat
  rw [this]
  simp [ofFields_fields, dt_to_ms_floor]

/-- a whole-second string does not match an explicit `.%f` format: ValueError (`none`), no silent misparse -/
theorem explicit_format_frac_mismatch (sep : Char) (us : Int) (h0 : usMin ≤ us) (h1 : us < usMax)
    (hw : (fields us).micro = 0) :
    strptimeExplicitDatetime { sep := sep, frac := true, zone := false } (isoformat sep us) = none := by
  unfold strptimeExplicitDatetime strptimeWith isoformat
  rw [strptimeFields_frac_none sep _ (fields_valid_full us h0 h1) hw]
  rfl

example : strptimeToUtcEpoch "0141-09-12 16:13:23.779999".toList = some (-57695615196221) := by decide +kernel
example : strNaive (-57695615196220001) = "0141-09-12 16:13:23.779999".toList := by decide +kernel
example : strptimeExplicitEpoch { sep := 'T', frac := false, zone := false } "9999-12-31T23:59:59".toList
    = some 253402300799000 := by decide +kernel

/-! ## days ↔ milliseconds, durations -/

/-- `millis_to_days` is monotone -/
theorem millisToDays_mono (a b : Int) (h : a ≤ b) : millisToDays a ≤ millisToDays b := by
  unfold millisToDays
  apply fdiv_mono_left (by norm_num)
  apply fdiv_mono_left (by norm_num)
  exact_mod_cast h

/-- `days_to_millis` (float argument) is monotone -/
theorem daysToMillisF_mono (a b : ℚ) (h : a ≤ b) : daysToMillisF a ≤ daysToMillisF b := by
  unfold daysToMillisF fmul
  apply fl64_mono
  apply mul_le_mul_of_nonneg_right _ (by norm_num)
  apply fl64_mono
  exact mul_le_mul_of_nonneg_right h (by norm_num)

/-- a whole number of days survives both conversions exactly (|k| < 10^8 days ≈ 270 000 years):
    `millis_to_days(86400000·k) = k`, `days_to_millis(k) = 86400000·k` for a float or an int `k`. -/
theorem days_millis_whole (k : Int) (h : |k| < 100000000) :
    millisToDays (86400000 * k) = (k : ℚ) ∧ daysToMillisF (k : ℚ) = ((86400000 * k : Int) : ℚ)
      ∧ daysToMillisI k = 86400000 * k := by
  rw [abs_lt] at h
  have i1 : IsF64 ((1000 * k : Int) : ℚ) := isF64_int _ (by rw [abs_lt]; constructor <;> omega)
  have i2 : IsF64 ((k : Int) : ℚ) := isF64_int _ (by rw [abs_lt]; constructor <;> omega)
  have i3 : IsF64 ((86400 * k : Int) : ℚ) := isF64_int _ (by rw [abs_lt]; constructor <;> omega)
  have i4 : IsF64 ((86400000 * k : Int) : ℚ) := isF64_int _ (by rw [abs_lt]; constructor <;> omega)
  unfold IsF64 at i1 i2 i3 i4
  refine ⟨?_, ?_, ?_⟩
  · unfold millisToDays fdiv
    have e1 : ((86400000 * k : Int) : ℚ) / 86400 = ((1000 * k : Int) : ℚ) := by push_cast; ring
    rw [e1, i1]
    have e2 : ((1000 * k : Int) : ℚ) / 1000 = ((k : Int) : ℚ) := by push_cast; ring
    rw [e2, i2]
  · unfold daysToMillisF fmul
    have e1 : (k : ℚ) * 86400 = ((86400 * k : Int) : ℚ) := by push_cast; ring
    rw [e1, i3]
    have e2 : ((86400 * k : Int) : ℚ) * 1000 = ((86400000 * k : Int) : ℚ) := by push_cast; ring
    rw [e2, i4]
  · unfold daysToMillisI; ring

example : millisToDays (86400000 * 365) = 365 := (days_millis_whole 365 (by decide)).1

/-- `CatalogForecast.time_horizon_years` is monotone in the end of the window and zero for an empty window -/
theorem timeHorizonYears_mono (s e1 e2 : Int) (h : e1 ≤ e2) : timeHorizonYears s e1 ≤ timeHorizonYears s e2 := by
  unfold timeHorizonYears
  apply fdiv_mono_left (by norm_num)
  apply fdiv_mono_left (by norm_num)
  have := dt_to_ms_mono e1 e2 h
  exact_mod_cast (by omega : dtToMs e1 - dtToMs s ≤ dtToMs e2 - dtToMs s)

theorem timeHorizonYears_nonneg (s e : Int) (h : s ≤ e) : 0 ≤ timeHorizonYears s e := by
  have h0 : timeHorizonYears s s = 0 := by
    unfold timeHorizonYears fdiv; simp [fl64_zero]
  rw [← h0]; exact timeHorizonYears_mono s s e h

/-- `CSEPCatalog.length_in_seconds` is the correctly rounded `(last − first) / 1000` seconds: the two float
    conversions behind `get_datetimes` cancel exactly (range of `ms_to_dt_exact`) -/
theorem lengthInSeconds_eq (a b : Int) (ha : |a| < 8589934592000) (hb : |b| < 8589934592000) :
    lengthInSeconds a b = fl64 (((b - a : Int) : ℚ) / 1000) := by
  unfold lengthInSeconds fdiv
  rw [ms_to_dt_exact a ha, ms_to_dt_exact b hb]
  congr 1
  push_cast; ring

/-- **FINDING (defect candidate)**: `create_utc_datetime` never returns — its parameter `datetime` shadows the module,
    so a naive argument (the only one the assertion lets through) raises AttributeError; the repaired function returns
    the same wall clock labelled UTC. -/
theorem create_utc_never_returns (tz : Tz) (us : Int) : ∀ r, createUtcDatetimeOld tz us ≠ .ok r := by
  intro r; cases tz <;> simp [createUtcDatetimeOld]

theorem create_utc_fixed_spec (us : Int) :
    createUtcDatetimeFixed .naive us = .ok us ∧ createUtcDatetimeFixed .utc us = .assertionError := by
  simp [createUtcDatetimeFixed]

/-- `timedelta_from_years` rejects negative arguments and is exact for whole years below 2^28 -/
theorem timedeltaFromYears_neg (y : ℚ) (h : y < 0) : timedeltaFromYears y = none := by
  unfold timedeltaFromYears; simp [h]

theorem timedeltaFromYears_whole (n : Nat) (h : n < 268435456) :
    timedeltaFromYears (n : ℚ) = some (31557600 * 1000000 * (n : Int)) := by
  unfold timedeltaFromYears
  have hn : ¬ ((n : ℚ) < 0) := by push_cast; exact not_lt.mpr (Nat.cast_nonneg n)
  simp only [hn, if_false]
  have i1 : IsF64 ((31557600 * (n : Int) : Int) : ℚ) := isF64_int _ (by rw [abs_lt]; constructor <;> omega)
  unfold IsF64 at i1
  have e1 : fmul 31557600 (n : ℚ) = ((31557600 * (n : Int) : Int) : ℚ) := by
    unfold fmul
    have : (31557600 : ℚ) * (n : ℚ) = ((31557600 * (n : Int) : Int) : ℚ) := by push_cast; ring
    rw [this, i1]
  rw [e1]
  unfold timedeltaSeconds truncR
  have hnn : (0 : ℚ) ≤ ((31557600 * (n : Int) : Int) : ℚ) := by exact_mod_cast (by omega : (0 : Int) ≤ 31557600 * (n : Int))
  simp only [hnn, if_true, Rat.floor_intCast, sub_self, fmul, zero_mul, fl64_zero]
  have : roundHalfEven 0 = 0 := by decide +kernel
  rw [this]
  simp only [usPerSec]
  congr 1
  ring

example : timedeltaFromYears 1 = some 31557600000000 := by
  have := timedeltaFromYears_whole 1 (by decide); simpa using this

end Time
