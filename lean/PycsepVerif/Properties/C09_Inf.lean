import PycsepVerif.Properties.C09_Code
namespace Ecdf

/-! # C09 — samples that contain −inf / +inf (round 6)

A float sample may hold infinities (−inf is an ordinary value of pyCSEP's log-likelihood statistics).  IEEE comparison and
numpy's sort treat them as the two extreme values of the order, so the library sees such a sample through an ORDER
EMBEDDING into the numbers: `embed lo hi` sends −inf to `lo`, +inf to `hi`, with `lo` below and `hi` above every finite
value involved.  `inf_sample_counts` proves that counting in the extended reals and counting after the embedding agree;
with `ge_code_eq` / `le_code_eq` the statement-level code therefore returns `#{x_i ≥ v}/n`, `#{x_i ≤ v}/n` with ties at −inf /
+inf, queries at ±inf and all-infinite samples counted like any other value (`inf_sample_code_eq`). -/

/-- a float64 value that is not nan -/
inductive X where
  | negInf | fin (q : Rat) | posInf
  deriving DecidableEq, Repr

/-- `a ≤ b` in the extended reals -/
def X.le : X → X → Bool
  | .negInf, _ => true
  | _, .posInf => true
  | .fin a, .fin b => decide (a ≤ b)
  | .fin _, .negInf => false
  | .posInf, .negInf => false
  | .posInf, .fin _ => false

def cntGEX (x : List X) (v : X) : Nat := x.countP (fun a => v.le a)
def cntLEX (x : List X) (v : X) : Nat := x.countP (fun a => a.le v)

/-- the order embedding: −inf ↦ `lo`, +inf ↦ `hi` -/
def embed (lo hi : Rat) : X → Rat
  | .negInf => lo
  | .fin q => q
  | .posInf => hi

/-- `lo` lies below and `hi` above every finite value -/
def Bounded (lo hi : Rat) : X → Prop
  | .fin q => lo < q ∧ q < hi
  | _ => True

theorem embed_le_iff (lo hi : Rat) (hlh : lo < hi) (a b : X) (ha : Bounded lo hi a) (hb : Bounded lo hi b) :
    (embed lo hi a ≤ embed lo hi b) ↔ a.le b = true := by
  cases a <;> cases b <;> simp [embed, X.le, Bounded] at * <;> try linarith

/-- counting after the embedding = counting in the extended reals -/
theorem inf_sample_counts (lo hi : Rat) (hlh : lo < hi) (x : List X) (v : X)
    (hx : ∀ a ∈ x, Bounded lo hi a) (hv : Bounded lo hi v) :
    cntGE (x.map (embed lo hi)) (embed lo hi v) = cntGEX x v ∧
    cntLE (x.map (embed lo hi)) (embed lo hi v) = cntLEX x v := by
  unfold cntGE cntLE cntGEX cntLEX
  rw [List.countP_map, List.countP_map]
  constructor <;> apply List.countP_congr <;> intro a ha <;> simp only [Function.comp]
  · rw [decide_eq_true_eq]; exact embed_le_iff lo hi hlh v a hv (hx a ha)
  · rw [decide_eq_true_eq]; exact embed_le_iff lo hi hlh a v (hx a ha) hv

/-- **C09 for samples with infinities**: the statement-level code, run on the sample as the order shows it, returns the
    counting probabilities of the EXTENDED reals — ties at −inf / +inf, a query at ±inf and all-infinite samples included -/
theorem inf_sample_code_eq (lo hi : Rat) (hlh : lo < hi) (x : List X) (v : X) (hne : x ≠ [])
    (hx : ∀ a ∈ x, Bounded lo hi a) (hv : Bounded lo hi v) :
    geCode (x.map (embed lo hi)) (.fin (embed lo hi v)) none = .val ((cntGEX x v : Nat) / (x.length : Nat)) ∧
    leCode (x.map (embed lo hi)) (.fin (embed lo hi v)) none = .val ((cntLEX x v : Nat) / (x.length : Nat)) := by
  have hne' : x.map (embed lo hi) ≠ [] := by simpa using hne
  obtain ⟨h1, h2⟩ := inf_sample_counts lo hi hlh x v hx hv
  rw [ge_code_eq _ _ hne', le_code_eq _ _ hne', h1, h2]
  simp

-- non-vacuity: x = [−inf, −inf, −3.5, −1.25], v = −3.5: (2/4, 3/4); v = −inf: (4/4, 2/4)
example : cntGEX [.negInf, .negInf, .fin (-7/2), .fin (-5/4)] (.fin (-7/2)) = 2 ∧
    cntLEX [.negInf, .negInf, .fin (-7/2), .fin (-5/4)] (.fin (-7/2)) = 3 ∧
    cntGEX [.negInf, .negInf, .fin (-7/2), .fin (-5/4)] .negInf = 4 ∧
    cntLEX [.negInf, .negInf, .fin (-7/2), .fin (-5/4)] .negInf = 2 := by decide +kernel
example := inf_sample_code_eq (-10) 10 (by norm_num) [.negInf, .negInf, .fin (-7/2), .fin (-5/4)] (.fin (-7/2)) (by simp)
  (by intro a ha; simp at ha; rcases ha with rfl | rfl | rfl <;> simp [Bounded] <;> norm_num) (by simp [Bounded]; norm_num)

end Ecdf
