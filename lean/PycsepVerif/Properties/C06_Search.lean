import PycsepVerif.Properties.C06
import PycsepVerif.Model.SamplerSearch

/-!
# C06, round 4 — `numpy.searchsorted` as the binary search it is

Round 1–3 took `searchsorted(side='right')` by its specification `#{w ≤ r}` (`Sampler.searchRight`, trusted).
`Model/SamplerSearch.lean` is the search numpy runs; here it is proved to return that number on every non-decreasing
array, for every key — hence every placement theorem of C06 (`place_iff`, `never_in_zero_rate_bin`, `in_range`, …) holds for
the algorithm, not only for its specification.
-/
namespace SamplerSearch
open Sampler

/-- loop invariant of the branch-free search on a non-decreasing array (`c` = #{w ≤ key}):
    `(base = 0 ∨ base < c) ∧ c ≤ base + len ∧ base + len ≤ n` -/
theorem narrow_inv (a : List Rat) (hs : a.Pairwise (· ≤ ·)) (key : Rat) :
    ∀ (fuel len base : Nat), len ≤ fuel → 1 ≤ len → (base = 0 ∨ base < searchRight a key) →
      searchRight a key ≤ base + len → base + len ≤ a.length →
      (narrow a key fuel len base = 0 ∨ narrow a key fuel len base < searchRight a key) ∧
      searchRight a key ≤ narrow a key fuel len base + 1 ∧ narrow a key fuel len base < a.length := by
  intro fuel
  induction fuel with
  | zero => intro len base h1 h2; omega
  | succ f ih =>
    intro len base hf h1 hb hc hn
    unfold narrow
    by_cases hl : 1 < len
    · simp only [hl, ↓reduceIte]
      have hhalf : 1 ≤ len / 2 := by omega
      have hhl : len / 2 < len := by omega
      have hidx : base + len / 2 < a.length := by omega
      have hkey := lt_searchRight_iff hs key (base + len / 2) hidx
      by_cases hcmp : a.getD (base + len / 2) 0 ≤ key
      · simp only [hcmp, ↓reduceIte]
        have hlt := hkey.mpr hcmp
        exact ih (len - len / 2) (base + len / 2) (by omega) (by omega) (Or.inr hlt) (by omega) (by omega)
      · simp only [hcmp, ↓reduceIte]
        have hge : ¬ base + len / 2 < searchRight a key := fun h => hcmp (hkey.mp h)
        exact ih (len - len / 2) base (by omega) (by omega) hb (by omega) (by omega)
    · simp only [hl, ↓reduceIte]
      have : len = 1 := by omega
      subst this
      exact ⟨hb, hc, by omega⟩

/-- **the binary search numpy runs returns #{w ≤ key}** on every non-decreasing array, for every key
    (in particular for the float weights of every forecast: `weights_monotone`, `weightsMasked_monotone`) -/
theorem bsearch_eq_searchRight (a : List Rat) (hs : a.Pairwise (· ≤ ·)) (key : Rat) :
    bsearch a key = searchRight a key := by
  unfold bsearch
  by_cases h0 : a.length = 0
  · have : a = [] := List.length_eq_zero_iff.mp h0
    subst this; simp [searchRight]
  · simp only [h0, ↓reduceIte]
    have hsr : searchRight a key ≤ a.length := by unfold searchRight; exact List.countP_le_length
    obtain ⟨h1, h2, h3⟩ := narrow_inv a hs key a.length a.length 0 (le_refl _) (by omega) (Or.inl rfl)
      (by omega) (by omega)
    have hkey := lt_searchRight_iff hs key _ h3
    by_cases hcmp : a.getD (narrow a key a.length a.length 0) 0 ≤ key
    · simp only [hcmp, ↓reduceIte]
      have := hkey.mpr hcmp
      omega
    · simp only [hcmp, ↓reduceIte]
      have hge : ¬ narrow a key a.length a.length 0 < searchRight a key := fun h => hcmp (hkey.mp h)
      rcases h1 with h | h
      · omega
      · exact absurd h hge

/-- the vector form: `searchsorted(ws, draws, 'right')` is the placement list of the specification -/
theorem searchsortedRight_eq_placements (ws : List Rat) (hs : ws.Pairwise (· ≤ ·)) (draws : List Rat) :
    searchsortedRight ws draws = placements ws draws := by
  unfold searchsortedRight placements
  exact List.map_congr_left (fun r _ => bsearch_eq_searchRight ws hs r)

/-- `_simulate_catalog` with the binary search equals the specification-level model, on every non-decreasing weight array -/
theorem simulateBS_eq_simulate (ws : List Rat) (hs : ws.Pairwise (· ≤ ·)) (draws : List Rat) :
    simulateBS ws draws = simulate ws draws := by
  unfold simulateBS simulate
  generalize List.replicate ws.length 0 = arr
  induction draws generalizing arr with
  | nil => rfl
  | cons r rs ih =>
    simp only [simulateFromBS, simulateFrom, bsearch_eq_searchRight ws hs r]
    cases bump arr (searchRight ws r) with
    | none => rfl
    | some arr' => exact ih arr'

/-- **placement by the algorithm**: with the float weights of a forecast (non-negative rates), the binary search puts a
    draw r ≥ 0 in bin k exactly when F_(k-1) ≤ r < F_k — the property's clause for the code numpy executes -/
theorem bsearch_place_iff (rates : List Rat) (hnn : ∀ x ∈ rates, 0 ≤ x) (r : Rat) (hr : 0 ≤ r) (k : Nat)
    (hk : k < rates.length) :
    bsearch (weights rates) r = k ↔ prevW (weights rates) k ≤ r ∧ r < (weights rates).getD k 0 := by
  rw [bsearch_eq_searchRight _ (weights_monotone rates hnn)]
  exact place_iff _ (weights_monotone rates hnn) r hr k (by rw [weights_length]; exact hk)

/-- the binary search never returns a zero-rate bin and never runs off the array for r in [0,1) -/
theorem bsearch_never_zero_rate_in_range (rates : List Rat) (hv : ValidRates rates) (r : Rat) (hr0 : 0 ≤ r) (hr1 : r < 1) :
    bsearch (weights rates) r < rates.length ∧
    ∀ k, k < rates.length → rates.getD k 0 = 0 → bsearch (weights rates) r ≠ k := by
  rw [bsearch_eq_searchRight _ (weights_monotone rates hv.nonneg)]
  exact ⟨in_range rates hv r hr1, fun k hk hz => never_in_zero_rate_bin rates hv.nonneg k hk hz r hr0⟩

/-! ### non-vacuity (kernel-evaluated) and the unsorted case -/

example : searchsortedRight (weights [0, 1, 0, 3, 0]) [0, 1/4, 1 - 1/2^53, 1/8] = [1, 3, 3, 1] := by decide +kernel
example : simulateBS (weights [0, 1, 0, 3, 0]) [0, 1/4, 1 - 1/2^53, 1/8] = some [0, 2, 0, 2, 0] := by decide +kernel
-- on an array that is NOT sorted the search and the count differ (numpy returns 4 here, like the model): the
-- monotonicity of the weights is what makes `searchsorted` an inverse CDF
example : bsearch [1/10, 3/10, 3/10, 2/10, 9/10, 1] (2/10) = 4 ∧
    searchRight [1/10, 3/10, 3/10, 2/10, 9/10, 1] (2/10) = 2 := by decide +kernel

end SamplerSearch
