import PycsepVerif.Properties.C18
import PycsepVerif.Model.EvalProducers

/-!
# C18 — every result-producing evaluation function returns a class the loader knows

`Model/EvalProducers.lean` lists the 19 functions of csep/core/*_evaluations.py that construct a result and the class they
construct (table regenerated from the source with `ast` on every run and compared through driver op `c18_producers`).
-/
namespace ResultJson

/-- every producer constructs one of the result classes of models.py … -/
theorem producers_classes_known : ∀ p ∈ evalProducers, p.2 ∈ resultClasses := by decide

/-- … whose stored name the factory of `load_evaluation_result` maps to that very class -/
theorem producers_factory_total : ∀ p ∈ evalProducers, factory p.2 = some p.2 := by decide

/-- every result class is produced by at least one function (the quantifier "every result class and every evaluation function
    that can produce it" has no empty class) -/
theorem every_class_produced : ∀ c ∈ resultClasses, ∃ p ∈ evalProducers, p.2 = c := by decide

theorem lookup_mem : ∀ (l : List (String × String)) (k v : String), l.lookup k = some v → (k, v) ∈ l
  | [], _, _, h => by simp [List.lookup] at h
  | (k', v') :: l, k, v, h => by
    by_cases hk : k = k'
    · subst hk
      simp [List.lookup] at h
      subst h
      simp
    · have hb : (k == k') = false := by simpa using hk
      simp only [List.lookup, hb] at h
      exact List.mem_cons_of_mem _ (lookup_mem l k v h)

/-- **C18 for producers**: whatever a listed evaluation function returns (a result `r` of the class it constructs), once written
    it loads as that same class -/
theorem producer_result_class_preserved (fn : String) (c : String) (hp : producedClass fn = some c) (r : Result)
    (hr : r.cls = c) (j : JResult) (hw : write r = some j) : ∃ r', load j = some r' ∧ r'.cls = c := by
  have hmem : (fn, c) ∈ evalProducers := by
    unfold producedClass at hp
    exact lookup_mem _ _ _ hp
  have hc : r.cls ∈ resultClasses := by rw [hr]; exact producers_classes_known (fn, c) hmem
  obtain ⟨r', h1, h2⟩ := class_preserved r hc j hw
  exact ⟨r', h1, by rw [h2, hr]⟩

example : producedClass "catalog_evaluations.pseudolikelihood_test" = some "CatalogPseudolikelihoodTestResult" := by decide
example : producedClass "poisson_evaluations._number_test_ndarray" = none := by decide

end ResultJson
