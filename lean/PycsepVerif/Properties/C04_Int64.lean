import PycsepVerif.Model.FilterText
import PycsepVerif.Proofs.Soft64
import PycsepVerif.Proofs.Filter

/-!
# C04 (round 4) — the int64 origin-time column compared with a float threshold

Until round 4 "numpy compares the int64 column with a float threshold exactly for |t| < 2^53" was an assumption of the model.
`Model/FilterText.lean` now has the comparison as numpy makes it (`Event.getCode`: the column converted to float64,
round-to-nearest-even) and this file proves that on every catalog whose instants lie inside `datetime`'s range — the only
catalogs whose statistics can be computed, `update_catalog_stats` raises beyond year 9999 — it IS the exact comparison, so all
theorems of `Properties/C04.lean` are about what numpy computes.  `int64_beyond_2p53_differs` shows that the bound is needed.
-/
namespace CatFilter
open Soft64

theorem getCode_eq_get (e : Event) (a : Attr) (h : |e.originTime| < 2 ^ 53) : e.getCode a = e.get a := by
  cases a <;> try rfl
  exact isF64_int e.originTime h

/-- below 2^53 ms the comparison numpy makes is the exact comparison of the model -/
theorem holdsCode_eq_holds (s : Stmt) (e : Event) (h : |e.originTime| < 2 ^ 53) : s.holdsCode e = s.holds e := by
  unfold Stmt.holdsCode Stmt.holds
  rw [getCode_eq_get e s.attr h]

/-- every instant a `datetime` can hold is far inside the exact range -/
theorem datetime_range_exact (t : Int) (h1 : minDatetimeMs ≤ t) (h2 : t ≤ maxDatetimeMs) : |t| < 2 ^ 53 := by
  unfold minDatetimeMs at h1
  unfold maxDatetimeMs at h2
  rw [abs_lt]
  constructor <;> omega

/-- on a catalog of representable instants the filter as numpy evaluates it is the exact filter: exactly the rows for which every
    statement is true -/
theorem filterCode_eq_filter (ss : List Stmt) (es : List Event)
    (h : ∀ e ∈ es, minDatetimeMs ≤ e.originTime ∧ e.originTime ≤ maxDatetimeMs) :
    filterListCode ss es = filterList ss es := by
  induction ss generalizing es with
  | nil => rfl
  | cons s ss ih =>
    show filterListCode ss (es.filter s.holdsCode) = filterList ss (filterOne s es)
    have hf : es.filter s.holdsCode = filterOne s es := by
      unfold filterOne
      apply List.filter_congr
      intro e he
      exact holdsCode_eq_holds s e (datetime_range_exact _ (h e he).1 (h e he).2)
    rw [hf]
    exact ih _ (fun e he => h e (List.mem_of_mem_filter he))

/-- the bound is needed: 2^53 + 1 ms converts to the double 2^53, so `origin_time > 9007199254740992` misses the row and
    `origin_time == 9007199254740992` wrongly keeps it (year 287 396: no catalog object can compute its statistics there) -/
theorem int64_beyond_2p53_differs :
    let e : Event := ⟨1, 2 ^ 53 + 1, 0, 0, 0, 5⟩
    (Stmt.mk .originTime .gt (2 ^ 53)).holds e = true ∧ (Stmt.mk .originTime .gt (2 ^ 53)).holdsCode e = false ∧
    (Stmt.mk .originTime .eq (2 ^ 53)).holds e = false ∧ (Stmt.mk .originTime .eq (2 ^ 53)).holdsCode e = true := by
  decide +kernel

/-- non-vacuity: a catalog at both ends of the datetime range -/
example : filterListCode [⟨.originTime, .ge, 0⟩] [⟨1, minDatetimeMs, 0, 0, 0, 5⟩, ⟨2, maxDatetimeMs, 0, 0, 0, 5⟩]
    = filterList [⟨.originTime, .ge, 0⟩] [⟨1, minDatetimeMs, 0, 0, 0, 5⟩, ⟨2, maxDatetimeMs, 0, 0, 0, 5⟩] :=
  filterCode_eq_filter _ _ (by decide)

end CatFilter
