import PycsepVerif.Properties.C17
import PycsepVerif.Model.QuadtreeGeo

/-!
# C17 — `QuadtreeGrid2D.get_masked` (regions.py:1106, added by commit cf7bcb4 / D42) and `filter_spatial` on quadtree grids

`get_masked` belongs to "a point is mapped to the unique cell … or to no cell if none does": it is True exactly where
no tile contains the point, it agrees with `get_index_of` / `_find_location`, and `filter_spatial` keeps exactly the
located events, in order.
-/
namespace Quadtree

/-- C17: `get_masked` has one entry per point, and entry i is True exactly when NO cell's half-open bounds contain
    point i — for every key list and every point list -/
theorem get_masked_spec (cells : List Key) (ps : List Pt) :
    (getMasked cells ps).length = ps.length ∧
    ∀ i (h : i < ps.length), ((getMasked cells ps)[i]'(by simp [getMasked, h]) = true ↔ ∀ k ∈ cells, ¬ InTile k ps[i]) := by
  refine ⟨by simp [getMasked], ?_⟩
  intro i h
  simp only [getMasked, List.getElem_map, Option.isNone_iff_eq_none]
  exact (locate_spec cells ps[i]).2.1

/-- `get_masked` and `_find_location` / `get_index_of` never disagree: a point is masked iff the scalar lookup returns
    the empty array, the array lookup returns exactly one index per unmasked point … -/
theorem get_masked_agrees_with_locate (cells : List Key) (ps : List Pt) :
    (∀ i (h : i < ps.length), (getMasked cells ps)[i]'(by simp [getMasked, h]) = (findLocation cells ps[i]).isNone) ∧
    (getIndexOf cells ps).length = (getMasked cells ps).countP (fun b => !b) := by
  refine ⟨fun i h => by simp [getMasked], ?_⟩
  rw [get_index_of_length]
  unfold getMasked
  induction ps with
  | nil => rfl
  | cons p ps ih =>
    simp only [List.countP_cons, List.map_cons, ih]
    cases findLocation cells p <;> simp

private theorem filterSpatial_cons (cells : List Key) (p : Pt) (ps : List Pt) :
    filterSpatial cells (p :: ps) =
      (if (findLocation cells p).isNone then [] else [p]) ++ filterSpatial cells ps := by
  unfold filterSpatial getMasked
  simp only [List.map_cons, List.zip_cons_cons, List.filterMap_cons]
  cases findLocation cells p <;> simp

/-- … and `filter_spatial` keeps exactly the events that lie in some cell, in catalog order: it is the filter by
    "is located" … -/
theorem filter_spatial_eq_filter (cells : List Key) (ps : List Pt) :
    filterSpatial cells ps = ps.filter (fun p => (findLocation cells p).isSome) := by
  induction ps with
  | nil => rfl
  | cons p ps ih =>
    rw [filterSpatial_cons, ih, List.filter_cons]
    cases findLocation cells p <;> simp

/-- … so after filtering nothing is masked, every remaining event has a cell, the located indices are unchanged
    (the dropped events were exactly the ones `get_index_of` drops), and filtering twice changes nothing -/
theorem filter_spatial_spec (cells : List Key) (ps : List Pt) :
    (∀ b ∈ getMasked cells (filterSpatial cells ps), b = false) ∧
    getIndexOf cells (filterSpatial cells ps) = getIndexOf cells ps ∧
    (getIndexOf cells (filterSpatial cells ps)).length = (filterSpatial cells ps).length ∧
    filterSpatial cells (filterSpatial cells ps) = filterSpatial cells ps := by
  rw [filter_spatial_eq_filter]
  refine ⟨?_, ?_, ?_, ?_⟩
  · intro b hb
    simp only [getMasked, List.mem_map, List.mem_filter] at hb
    obtain ⟨p, ⟨_, hp⟩, rfl⟩ := hb
    cases h : findLocation cells p <;> simp_all
  · unfold getIndexOf
    induction ps with
    | nil => rfl
    | cons p ps ih =>
      rw [List.filter_cons]
      cases h : findLocation cells p <;> simp [h, ih]
  · unfold getIndexOf
    induction ps with
    | nil => rfl
    | cons p ps ih =>
      rw [List.filter_cons]
      cases h : findLocation cells p <;> simp [h, ih]
  · rw [filter_spatial_eq_filter, List.filter_filter]; simp

/-- on a grid that partitions the domain (every `from_catalog` grid) a point is masked exactly when it lies outside
    lon [−180, 180) × the Web-Mercator latitude band -/
theorem get_masked_from_catalog (thr zoom : Nat) (pts : List Pt) (p : Pt) :
    getMasked ((fromCatalog thr zoom pts).map Prod.fst) [p] = [decide (¬ InTile [] p)] := by
  have h := (from_catalog_locate thr zoom pts p).1
  simp only [getMasked, List.map_cons, List.map_nil, List.cons.injEq, and_true]
  by_cases hp : InTile [] p
  · have : findLocation ((fromCatalog thr zoom pts).map Prod.fst) p ≠ none := fun hn => (h.mp hn) hp
    cases hf : findLocation ((fromCatalog thr zoom pts).map Prod.fst) p <;> simp_all
  · rw [h.mpr hp]; simp [hp]

-- non-vacuity: a gap grid masks the point in the gap and keeps the others, in order
example : getMasked [[0], [3]] [⟨mkRat 1 4, mkRat 1 4⟩, ⟨mkRat 3 4, mkRat 1 4⟩, ⟨mkRat 3 4, mkRat 3 4⟩, ⟨1, mkRat 1 2⟩] =
    [false, true, false, true] := by decide +kernel
example : filterSpatial [[0], [3]] [⟨mkRat 1 4, mkRat 1 4⟩, ⟨mkRat 3 4, mkRat 1 4⟩, ⟨mkRat 3 4, mkRat 3 4⟩] =
    [⟨mkRat 1 4, mkRat 1 4⟩, ⟨mkRat 3 4, mkRat 3 4⟩] := by decide +kernel

end Quadtree
