import PycsepVerif.Proofs.NumberTest
import PycsepVerif.Proofs.NumberTestMono
import PycsepVerif.Proofs.NbdSum
import PycsepVerif.Properties.C09

/-!
# C07 — number tests report the exact tail probabilities of the forecast count law

Theorems about `Model/NumberTest.lean` instantiated at ℝ. `(delta12 μ n ε).1 / .2` are the two numbers returned by
`_number_test_ndarray(μ, n, ε)`; `nbdDelta12` those of `_nbd_number_test_ndarray`; `catalogNTest` the catalog N-test.
All statements hold for every observed count n : ℕ (n = 0 included), every 0 < ε < 1 (the code uses 1e-6) and every
mean in the stated range.
-/
namespace NumberTest
open Finset

/-- for an integer count n and 0 < ε < 1: ⌊n − ε⌋ = n − 1 and ⌊n + ε⌋ = n -/
theorem floor_shift (n : ℕ) {ε : ℝ} (h0 : 0 < ε) (h1 : ε < 1) :
    ⌊(n : ℝ) - ε⌋ = (n : ℤ) - 1 ∧ ⌊(n : ℝ) + ε⌋ = (n : ℤ) := by
  constructor
  · rw [Int.floor_eq_iff]; push_cast; constructor <;> linarith
  · rw [Int.floor_eq_iff]; push_cast; constructor <;> linarith

/-- the same shift as the model's cdf sees it: cdf(n − ε) sums the masses below n (nothing for n = 0),
    cdf(n + ε) sums the masses up to and including n -/
theorem cdf_shift (pmf : ℕ → ℝ) (n : ℕ) {ε : ℝ} (h0 : 0 < ε) (h1 : ε < 1) :
    cdfOf pmf ((n : ℝ) - ε) = ∑ j ∈ range n, pmf j ∧ cdfOf pmf ((n : ℝ) + ε) = ∑ j ∈ range (n + 1), pmf j :=
  ⟨cdfOf_sub pmf n h0 h1.le, cdfOf_add pmf n h0.le h1⟩

/-- the recurrence used by the model is the Poisson mass function e^{-μ} μ^j / j! -/
theorem pmf_closed_form (μ : ℝ) (j : ℕ) : poisPmf μ j = Real.exp (-μ) * μ ^ j / (j.factorial : ℝ) :=
  poisPmf_eq μ j

/-- the Poisson masses sum to one -/
theorem pmf_total (μ : ℝ) : HasSum (poisPmf μ) 1 := poisPmf_hasSum μ

/-- delta1 = P(N ≥ n) = Σ_{j ≥ n} pmf(j), for every n including n = 0 (inclusive tail) -/
theorem delta1_eq_upper_tail (μ : ℝ) (n : ℕ) {ε : ℝ} (h0 : 0 < ε) (h1 : ε < 1) :
    (delta12 μ n ε).1 = ∑' j, poisPmf μ (j + n) := by
  unfold delta12 poisCdf
  rw [delta12With_cdfOf _ n h0 h1]
  exact one_sub_sum_eq_tsum (poisPmf_hasSum μ) n

/-- delta1 = 1 − P(N ≤ n − 1) (finite form of the same statement) -/
theorem delta1_eq_one_sub (μ : ℝ) (n : ℕ) {ε : ℝ} (h0 : 0 < ε) (h1 : ε < 1) :
    (delta12 μ n ε).1 = 1 - ∑ j ∈ range n, poisPmf μ j := by
  unfold delta12 poisCdf; rw [delta12With_cdfOf _ n h0 h1]

/-- delta2 = P(N ≤ n) = Σ_{j ≤ n} pmf(j) -/
theorem delta2_eq_lower_tail (μ : ℝ) (n : ℕ) {ε : ℝ} (h0 : 0 < ε) (h1 : ε < 1) :
    (delta12 μ n ε).2 = ∑ j ∈ range (n + 1), poisPmf μ j := by
  unfold delta12 poisCdf; rw [delta12With_cdfOf _ n h0 h1]

/-- delta1 + delta2 = 1 + P(N = n) -/
theorem delta_sum (μ : ℝ) (n : ℕ) {ε : ℝ} (h0 : 0 < ε) (h1 : ε < 1) :
    (delta12 μ n ε).1 + (delta12 μ n ε).2 = 1 + poisPmf μ n := by
  rw [delta1_eq_one_sub μ n h0 h1, delta2_eq_lower_tail μ n h0 h1, Finset.sum_range_succ]; ring

/-- both probabilities lie in [0,1] -/
theorem delta_bounds {μ : ℝ} (hμ : 0 ≤ μ) (n : ℕ) {ε : ℝ} (h0 : 0 < ε) (h1 : ε < 1) :
    (0 ≤ (delta12 μ n ε).1 ∧ (delta12 μ n ε).1 ≤ 1) ∧ (0 ≤ (delta12 μ n ε).2 ∧ (delta12 μ n ε).2 ≤ 1) := by
  rw [delta1_eq_one_sub μ n h0 h1, delta2_eq_lower_tail μ n h0 h1]
  have hle := fun k => partial_le_one (poisPmf_nonneg hμ) (poisPmf_hasSum μ) k
  have hnn : ∀ k, 0 ≤ ∑ j ∈ range k, poisPmf μ j := fun k => Finset.sum_nonneg (fun j _ => poisPmf_nonneg hμ j)
  refine ⟨⟨?_, ?_⟩, hnn _, hle _⟩
  · linarith [hle n]
  · linarith [hnn n]

/-- delta2 is non-increasing in the forecast mean -/
theorem delta2_anti_mean (n : ℕ) {ε : ℝ} (h0 : 0 < ε) (h1 : ε < 1) {μ₁ μ₂ : ℝ} (hμ : 0 ≤ μ₁) (h : μ₁ ≤ μ₂) :
    (delta12 μ₂ n ε).2 ≤ (delta12 μ₁ n ε).2 := by
  rw [delta2_eq_lower_tail μ₂ n h0 h1, delta2_eq_lower_tail μ₁ n h0 h1]
  exact poisPartial_antitoneOn n (Set.mem_Ici.mpr hμ) (Set.mem_Ici.mpr (hμ.trans h)) h

/-- delta1 is non-decreasing in the forecast mean -/
theorem delta1_mono_mean (n : ℕ) {ε : ℝ} (h0 : 0 < ε) (h1 : ε < 1) {μ₁ μ₂ : ℝ} (hμ : 0 ≤ μ₁) (h : μ₁ ≤ μ₂) :
    (delta12 μ₁ n ε).1 ≤ (delta12 μ₂ n ε).1 := by
  rw [delta1_eq_one_sub μ₁ n h0 h1, delta1_eq_one_sub μ₂ n h0 h1]
  cases n with
  | zero => simp
  | succ n =>
    have := poisPartial_antitoneOn n (Set.mem_Ici.mpr hμ) (Set.mem_Ici.mpr (hμ.trans h)) h
    unfold poisPartial at this; linarith

/-- P(N ≥ n+1) = 1 − P(N ≤ n): the two numbers of consecutive counts are complementary -/
theorem delta1_succ_eq_one_sub_delta2 (μ : ℝ) (n : ℕ) {ε : ℝ} (h0 : 0 < ε) (h1 : ε < 1) :
    (delta12 μ (n + 1) ε).1 = 1 - (delta12 μ n ε).2 := by
  rw [delta1_eq_one_sub μ (n + 1) h0 h1, delta2_eq_lower_tail μ n h0 h1]

/-- delta1 is non-increasing and delta2 non-decreasing in the observed count -/
theorem delta_mono_count {μ : ℝ} (hμ : 0 ≤ μ) (n : ℕ) {ε : ℝ} (h0 : 0 < ε) (h1 : ε < 1) :
    (delta12 μ (n + 1) ε).1 ≤ (delta12 μ n ε).1 ∧ (delta12 μ n ε).2 ≤ (delta12 μ (n + 1) ε).2 := by
  rw [delta1_eq_one_sub μ (n + 1) h0 h1, delta1_eq_one_sub μ n h0 h1, delta2_eq_lower_tail μ n h0 h1,
    delta2_eq_lower_tail μ (n + 1) h0 h1, Finset.sum_range_succ _ (n + 1), Finset.sum_range_succ _ n]
  have a := poisPmf_nonneg hμ n
  have b := poisPmf_nonneg hμ (n + 1)
  constructor <;> linarith

/-- the derivative behind the monotonicity: d/dμ P(N ≤ n) = −P(N = n) -/
theorem lower_tail_deriv (n : ℕ) (μ : ℝ) :
    HasDerivAt (fun m => ∑ j ∈ range (n + 1), poisPmf m j) (-(poisPmf μ n)) μ :=
  hasDerivAt_poisPartial n μ

/-- the numerically stable evaluation run by the Float instance is the same pair of numbers -/
theorem stable_eq {μ : ℝ} (hμ : 0 < μ) (anchor n : ℕ) (ε : ℝ) : delta12S μ anchor n ε = delta12 μ n ε := by
  unfold delta12S delta12 poisCdf
  have : cdfAnchOf (poisRatio μ) (poisPmfLog μ) anchor = cdfOf (poisPmf μ) := by
    funext x
    exact cdfAnchOf_eq _ _ _ (poisPmf_ratio μ) (poisRatio_ne_zero hμ.ne') (poisPmfLog_eq hμ) anchor x
  rw [this]

/-! ### negative-binomial N-test -/

/-- the parameters the code formed before fix D47 (`upsilon = 1 − (var − mean)/var`) are the same real numbers -/
theorem nbd_params_old_eq (mean var : ℝ) (hv : var ≠ 0) : nbdParamsOld mean var = nbdParams mean var := by
  simp only [nbdParamsOld, nbdParams, RealOps.real_div, RealOps.real_mul, RealOps.real_sub, RealOps.real_one]
  congr 1
  field_simp; ring

/-- the code's parameters are p = mean/var and r = mean²/(var − mean) -/
theorem nbd_params (mean var : ℝ) (hv : var ≠ 0) :
    nbdParams mean var = (mean ^ 2 / (var - mean), mean / var) := by
  simp only [nbdParams, RealOps.real_div, RealOps.real_mul, RealOps.real_sub]
  congr 1
  ring

/-- with these parameters the negative-binomial mean r(1−p)/p is the forecast mean -/
theorem nbd_mean {mean var : ℝ} (hm : 0 < mean) (hv : mean < var) :
    let tp := nbdParams mean var; tp.1 * (1 - tp.2) / tp.2 = mean := by
  have hv0 : var ≠ 0 := by linarith
  have hd : var - mean ≠ 0 := by linarith
  simp only [nbd_params mean var hv0]
  field_simp

/-- ... and the negative-binomial variance r(1−p)/p² is the given variance -/
theorem nbd_var {mean var : ℝ} (hm : 0 < mean) (hv : mean < var) :
    let tp := nbdParams mean var; tp.1 * (1 - tp.2) / tp.2 ^ 2 = var := by
  have hv0 : var ≠ 0 := by linarith
  have hd : var - mean ≠ 0 := by linarith
  simp only [nbd_params mean var hv0]
  field_simp

/-- admissible inputs give admissible parameters: r > 0 and 0 < p < 1 -/
theorem nbd_params_admissible {mean var : ℝ} (hm : 0 < mean) (hv : mean < var) :
    0 < (nbdParams mean var).1 ∧ 0 < (nbdParams mean var).2 ∧ (nbdParams mean var).2 < 1 := by
  have hv0 : 0 < var := by linarith
  rw [nbd_params mean var hv0.ne']
  refine ⟨by have : 0 < var - mean := by linarith
             positivity, by positivity, ?_⟩
  rw [div_lt_one hv0]; exact hv

/-- NBD: delta1 = 1 − P(N ≤ n−1) = P(N ≥ n) as a complement of the finite sum, delta2 = P(N ≤ n) -/
theorem nbd_delta_eq (mean var : ℝ) (n : ℕ) {ε : ℝ} (h0 : 0 < ε) (h1 : ε < 1) :
    let tp := nbdParams mean var
    nbdDelta12 mean n var ε = (1 - ∑ j ∈ range n, nbPmf tp.1 tp.2 j, ∑ j ∈ range (n + 1), nbPmf tp.1 tp.2 j) := by
  intro tp; unfold nbdDelta12 nbCdf; exact delta12With_cdfOf _ n h0 h1

/-- NBD: delta1 + delta2 = 1 + P(N = n) -/
theorem nbd_delta_sum (mean var : ℝ) (n : ℕ) {ε : ℝ} (h0 : 0 < ε) (h1 : ε < 1) :
    (nbdDelta12 mean n var ε).1 + (nbdDelta12 mean n var ε).2
      = 1 + nbPmf (nbdParams mean var).1 (nbdParams mean var).2 n := by
  have := nbd_delta_eq mean var n h0 h1
  simp only at this
  rw [this, Finset.sum_range_succ]; ring

/-- the negative-binomial masses with the code's parameters sum to one (binomial series, real exponent) -/
theorem nbd_pmf_total {mean var : ℝ} (hm : 0 < mean) (hv : mean < var) :
    HasSum (nbPmf (nbdParams mean var).1 (nbdParams mean var).2) 1 := by
  obtain ⟨_, hp0, hp1⟩ := nbd_params_admissible hm hv
  exact nbPmf_hasSum hp0 hp1.le

/-- NBD: delta1 = P(N ≥ n) = Σ_{j ≥ n} pmf(j), inclusive, for every n -/
theorem nbd_delta1_eq_upper_tail {mean var : ℝ} (hm : 0 < mean) (hv : mean < var) (n : ℕ) {ε : ℝ}
    (h0 : 0 < ε) (h1 : ε < 1) :
    (nbdDelta12 mean n var ε).1 = ∑' j, nbPmf (nbdParams mean var).1 (nbdParams mean var).2 (j + n) := by
  have := nbd_delta_eq mean var n h0 h1
  simp only at this
  rw [this]
  exact one_sub_sum_eq_tsum (nbd_pmf_total hm hv) n

/-- NBD: both probabilities lie in [0,1] -/
theorem nbd_delta_bounds {mean var : ℝ} (hm : 0 < mean) (hv : mean < var) (n : ℕ) {ε : ℝ}
    (h0 : 0 < ε) (h1 : ε < 1) :
    (0 ≤ (nbdDelta12 mean n var ε).1 ∧ (nbdDelta12 mean n var ε).1 ≤ 1) ∧
    (0 ≤ (nbdDelta12 mean n var ε).2 ∧ (nbdDelta12 mean n var ε).2 ≤ 1) := by
  obtain ⟨hr, _, hp1⟩ := nbd_params_admissible hm hv
  have hnn := nbPmf_nonneg hr.le hp1.le
  have hle := fun k => partial_le_one hnn (nbd_pmf_total hm hv) k
  have hs : ∀ k, 0 ≤ ∑ j ∈ range k, nbPmf (nbdParams mean var).1 (nbdParams mean var).2 j :=
    fun k => Finset.sum_nonneg (fun j _ => hnn j)
  have := nbd_delta_eq mean var n h0 h1
  simp only at this
  rw [this]
  refine ⟨⟨?_, ?_⟩, hs _, hle _⟩
  · linarith [hle n]
  · linarith [hs n]

/-- NBD: the stable evaluation is the same pair -/
theorem nbd_stable_eq {mean var : ℝ} (hm : 0 < mean) (hv : mean < var) (anchor n : ℕ) (ε : ℝ) :
    nbdDelta12S mean anchor n var ε = nbdDelta12 mean n var ε := by
  obtain ⟨hr, _, hp⟩ := nbd_params_admissible hm hv
  unfold nbdDelta12S nbdDelta12 nbCdf
  have : cdfAnchOf (nbRatio (nbdParams mean var).1 (nbdParams mean var).2)
      (nbPmfLog (nbdParams mean var).1 (nbdParams mean var).2) anchor
      = cdfOf (nbPmf (nbdParams mean var).1 (nbdParams mean var).2) := by
    funext x
    exact cdfAnchOf_eq _ _ _ (nbPmf_ratio _ _) (nbRatio_ne_zero hr hp) (nbPmfLog_eq hr hp) anchor x
  simp only [this]

/-! ### catalog N-test: C09's empirical probabilities of the synthetic-catalog sizes -/

/-- delta1 = #{sizes ≥ n_obs}/n_cat and delta2 = #{sizes ≤ n_obs}/n_cat for every non-empty multiset of sizes -/
theorem catalog_ntest_eq (sizes : List ℕ) (nobs : ℕ) (h : sizes ≠ []) :
    catalogNTest sizes nobs =
      (some (sizes.countP (fun k => decide (nobs ≤ k)), sizes.length),
       some (sizes.countP (fun k => decide (k ≤ nobs)), sizes.length)) := by
  unfold catalogNTest
  have hne : sizes.map (fun (k : Nat) => (k : Rat)) ≠ [] := by simpa using h
  rw [Ecdf.quantiles_eq _ _ hne]
  simp only [Ecdf.cntGE, Ecdf.cntLE, List.length_map, List.countP_map]
  have e1 : ((fun a : Rat => decide ((nobs : Rat) ≤ a)) ∘ fun (k : ℕ) => (k : Rat)) = fun k => decide (nobs ≤ k) := by
    funext k; simp [Function.comp]
  have e2 : ((fun a : Rat => decide (a ≤ (nobs : Rat))) ∘ fun (k : ℕ) => (k : Rat)) = fun k => decide (k ≤ nobs) := by
    funext k; simp [Function.comp]
  rw [e1, e2]

/-- catalog N-test: #{≥} + #{≤} = n_cat + #{=}  (delta1 + delta2 = 1 + P(N = n_obs)) and both are ≤ n_cat -/
theorem catalog_ntest_sum (sizes : List ℕ) (nobs : ℕ) :
    sizes.countP (fun k => decide (nobs ≤ k)) + sizes.countP (fun k => decide (k ≤ nobs))
      = sizes.length + sizes.countP (fun k => decide (k = nobs)) ∧
    sizes.countP (fun k => decide (nobs ≤ k)) ≤ sizes.length ∧
    sizes.countP (fun k => decide (k ≤ nobs)) ≤ sizes.length := by
  refine ⟨?_, List.countP_le_length, List.countP_le_length⟩
  induction sizes with
  | nil => rfl
  | cons a l ih =>
    simp only [List.countP_cons, List.length_cons]
    rcases Nat.lt_trichotomy a nobs with h | h | h
    · have h1 : ¬ nobs ≤ a := by omega
      have h2 : a ≤ nobs := by omega
      have h3 : a ≠ nobs := by omega
      simp [h1, h2, h3]; omega
    · subst h; simp; omega
    · have h1 : nobs ≤ a := by omega
      have h2 : ¬ a ≤ nobs := by omega
      have h3 : a ≠ nobs := by omega
      simp [h1, h2, h3]; omega

-- non-vacuity: concrete instances of the hypotheses
example : (delta12 (3 : ℝ) 0 (1e-6)).1 = 1 := by
  rw [delta1_eq_one_sub 3 0 (by norm_num) (by norm_num)]; simp
example : (delta12 (2 : ℝ) 1 (1e-6)).2 = Real.exp (-2) + Real.exp (-2) * 2 := by
  rw [delta2_eq_lower_tail 2 1 (by norm_num) (by norm_num)]
  simp [Finset.sum_range_succ, poisPmf]
example : nbdParams (2 : ℝ) 8 = (2 / 3, 1 / 4) := by
  rw [nbd_params 2 8 (by norm_num)]; norm_num
example : catalogNTest [3, 0, 3, 7] 3 = (some (3, 4), some (3, 4)) := by
  rw [catalog_ntest_eq _ _ (by simp)]; decide

end NumberTest
