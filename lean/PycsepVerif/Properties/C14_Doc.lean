import PycsepVerif.Proofs.CatalogDoc
import PycsepVerif.Properties.C14_Float

/-!
# C14 — the float text for ALL finite doubles, THE shortest digits, and the whole JSON document

* `float_text_roundtrip_all`: `float(str(x)) == x` for every finite binary64 value of the model — subnormals included (the
  hypothesis "zero or normal" of `float_text_roundtrip` is gone).
* `digits_are_shortest`, `digits_are_nearest`: the digit search of `Model/FloatText.lean` returns THE shortest decimal that
  reads back as `x` (no decimal with fewer significant digits does), the nearest to `x` among those of that length — the
  specification of `repr` / numpy's Dragon4 "unique" mode.  Only "numpy / CPython implement that specification" stays validated.
* `float_bits_roundtrip`: on BIT PATTERNS (sign bit, so −0.0 is a value): NUMBER_RE cuts out exactly the numeral and `float()`
  returns the same pattern, for every finite double.  This is the statement left open in `Properties/C18_Text.lean`
  ("stage 2"), proved here for the instance `catFloatText`.
* `json_document_roundtrip`: `load_json(write_json(cat))` on the CHARACTERS of the file — brackets, commas, `indent=4`,
  `sort_keys=True`, string escapes, integers, floats — returns the events (id, origin time, four doubles bit for bit), the
  catalog id, the name and the region's dict form, for every catalog and whatever other members `to_dict` writes.
-/
namespace CatalogDoc
open JsonText JsonTree Soft64 DecimalText FloatText PersistText
open ResultJson (F64)

/-- `float(str(x)) == x` for EVERY finite binary64 value: zero, subnormal, normal, either sign -/
theorem float_text_roundtrip_all (x : ℚ) (hx : IsF64 x) (hfin : fabs x < f64Limit) : floatOfStr (floatStr x) = some x := by
  obtain ⟨n, hw, hr⟩ := floatStr_numeral x
  have hv : n.value = reprValue x := by
    have h1 := parseBody_render n hw
    rw [hr, floatStr_denotes] at h1
    exact (Option.some.inj h1).symm
  rw [← hr, floatOfStr_render n hw, hv]
  unfold toF64
  simp only [reprValue_roundtrip_all hx, hfin, if_true]

/-- the smallest subnormal, 5e-324 -/
example : floatStr (pow2 (-1074)) = "5e-324".toList := by decide +kernel

/-- **THE shortest**: no decimal `k·10^j` with fewer significant digits than the search's result reads back as `x` -/
theorem digits_are_shortest {x : ℚ} (hx : IsF64 x) (hpos : 0 < x) (n' : ℕ) (h1 : 1 ≤ n') (h2 : n' < searchLevel x 16 1)
    (k j : ℤ) (hk : |k| < 10 ^ n') : fl64 ((k : ℚ) * pow10 j) ≠ x :=
  shortest_is_shortest hx hpos n' h1 h2 k j hk

/-- the result of the search is one of the two neighbours of `x` among the decimals of that length -/
theorem digits_at_level (x : ℚ) : searchPairs x 16 1 ∈ candPairs x (searchLevel x 16 1) := searchPairs_mem x 16 1

/-- **nearest among the shortest**: the candidate picked at a length is at least as near to `x` as every decimal of that
    grid that reads back as `x` -/
theorem digits_are_nearest {x : ℚ} (hx : IsF64 x) (n : ℕ) (p : ℤ × ℤ)
    (hp : (candPairs x n).find? (fun p => fl64 (pairVal p) == x) = some p) (k : ℤ)
    (hk : fl64 ((k : ℚ) * pow10 (gridExp x n)) = x) :
    |pairVal p - x| ≤ |(k : ℚ) * pow10 (gridExp x n) - x| := picked_is_nearest hx n p hp k hk

/-- 0.1 needs one digit, 0.30000000000000004 needs seventeen -/
example : searchLevel (fl64 (1/10)) 16 1 = 1 ∧ searchLevel (fl64 (30000000000000004/100000000000000000)) 16 1 = 17 := by
  decide +kernel

/-- **bit patterns**: for every finite double — negative zero, subnormals, both signs — the JSON scanner takes exactly the
    numeral `repr` wrote and `float()` gives the same 64 bits back -/
theorem float_bits_roundtrip (b : ℕ) (hf : finiteBits b = true) :
    scanNumber (reprBits b) = some (reprBits b, true, []) ∧ pyReadF (reprBits b) = some (.num b) := by
  have := floatOk_spec (floatOk_all b hf)
  simpa [catFloatText] using this

/-- negative zero is `-0.0` and comes back as negative zero; the largest double; the smallest subnormal -/
example : reprBits 9223372036854775808 = "-0.0".toList ∧ reprBits 0 = "0.0".toList ∧
    reprBits 9218868437227405311 = "1.7976931348623157e+308".toList ∧ reprBits 1 = "5e-324".toList := by decide +kernel
example : pyReadF "-0.0".toList = some (.num 9223372036854775808) := by decide +kernel

/-- any JSON tree whose float leaves are doubles: what `json.dump(..., indent=4, sort_keys=True)` writes parses back to the
    tree (members sorted) — no hypothesis about floats left -/
theorem json_parse_render_all (j : JVal) (h : FiniteFloats j) :
    parse catFloatText (render catFloatText j) = some (sortTree j) := parse_render_all j h

/-- **C14 (JSON) on the characters of the file**: `load_json(write_json(cat))` returns every event (id, origin time and the
    four doubles bit for bit), the catalog id, the name and the region's dict form — for every catalog whose doubles are
    finite, whatever else `to_dict` puts into the document -/
theorem json_document_roundtrip (c : DocCatalog) (extra : JKVs) (hc : c.Finite) (he : FiniteFloatsM extra) :
    saveLoad c extra = some c := by
  unfold saveLoad
  rw [parse_render_all _ (finite_toTree c extra hc he)]
  exact fromTree_sorted c extra

/-- the empty catalog with a name and no region, other members present -/
example : saveLoad ⟨[], some 7, some "n", none⟩ (.cons "compute_stats" (.bool true) (.cons "filters" (.arr .nil) .nil))
    = some ⟨[], some 7, some "n", none⟩ :=
  json_document_roundtrip _ _ ⟨by simp, by simp⟩ (by simp [FiniteFloatsM, FiniteFloats, FiniteFloatsL])

/-- a whole small document evaluated by the kernel: one event with an id that needs escaping, −0.0 and a subnormal -/
example : saveLoad ⟨[⟨"a\"b\\,", -5, 9223372036854775808, 1, 4607182418800017408, 4616189618054758400⟩], none, none, none⟩ .nil
    = some ⟨[⟨"a\"b\\,", -5, 9223372036854775808, 1, 4607182418800017408, 4616189618054758400⟩], none, none, none⟩ := by
  decide +kernel

end CatalogDoc
