import PycsepVerif.Proofs.FilterMct

/-!
# C04 (extension) — `apply_mct`, `filter_spatial` and the filter stage of `CatalogForecast.__next__`

Theorems about `Model/FilterMct.lean`. `apply_mct` is a filter too: on a time-sorted catalog it keeps exactly the rows that
are NOT (inside `[event_epoch, t_crit_epoch]` and below the completeness magnitude of their time), in order, rows whole;
it is idempotent and commutes with every statement filter and with the spatial filter. On an unsorted catalog it is the
same cut applied to the rows in front of the first row later than `t_crit_epoch` only (`mct_eq_prefix`). All statements
are for every catalog (any length), every value of the two floats and every decision function `below`.
-/
namespace CatFilter

/-- the short-circuit on the first row (catalogs.py:625) never changes the outcome: on a non-empty catalog `apply_mct`
    is the loop -/
theorem applyMct_eq_loop (p : Mct) (es : List Event) (hne : es ≠ []) : applyMct p es = .ok (mctLoop p es) := by
  cases es with
  | nil => exact absurd rfl hne
  | cons e es =>
    by_cases h : p.tCrit < (e.originTime : Rat)
    · simp [applyMct, mctLoop, h]
    · simp [applyMct, h]

/-- `apply_mct` raises (IndexError of `times[0]`) exactly on the empty catalog -/
theorem applyMct_error_iff (p : Mct) (es : List Event) : (∃ err, applyMct p es = .error err) ↔ es = [] := by
  cases es with
  | nil => exact ⟨fun _ => rfl, fun _ => ⟨.emptyCatalog, rfl⟩⟩
  | cons e es =>
    by_cases h : p.tCrit < (e.originTime : Rat) <;> simp [applyMct, h]

/-- ANY catalog (sorted or not): the cut is applied to the rows in front of the first row later than `t_crit_epoch`;
    that row and everything behind it are kept as they are -/
theorem mct_eq_prefix (p : Mct) (es : List Event) :
    mctLoop p es = (es.takeWhile (inWindow p)).filter (mctKeep p) ++ es.dropWhile (inWindow p) := by
  induction es with
  | nil => rfl
  | cons e es ih =>
    rw [mctLoop_cons]
    by_cases h1 : p.tCrit < (e.originTime : Rat)
    · have hw : inWindow p e = false := by
        have : ¬ ((e.originTime : Rat) ≤ p.tCrit) := Rat.not_le.mpr h1
        simp [inWindow, this]
      simp [h1, hw]
    · have hw : inWindow p e = true := by
        have : (e.originTime : Rat) ≤ p.tCrit := Rat.not_lt.mp h1
        simp [inWindow, this]
      simp only [h1, if_false, List.takeWhile_cons, List.dropWhile_cons, hw, if_true, List.filter_cons]
      by_cases hk : mctKeep p e = true
      · simp [hk, ih]
      · have hk' : mctKeep p e = false := by simpa using hk
        simp [hk', ih]

/-- C04 for `apply_mct`: on a time-sorted catalog it is one pass that keeps, in the original order and with
    multiplicity, exactly the rows that are not (inside the window and below the completeness magnitude) -/
theorem mct_sorted_eq_filter (p : Mct) (es : List Event) (hs : TimeSorted es) :
    mctLoop p es = es.filter (mctKeep p) := by
  induction es with
  | nil => rfl
  | cons e es ih =>
    rw [mctLoop_cons]
    have hs' : TimeSorted es := (List.pairwise_cons.mp hs).2
    by_cases h1 : p.tCrit < (e.originTime : Rat)
    · simp only [h1, if_true]
      exact (List.filter_eq_self.mpr (all_late_of_sorted p e es hs h1)).symm
    · simp only [h1, if_false, List.filter_cons]
      by_cases hk : mctKeep p e = true
      · simp [hk, ih hs']
      · have hk' : mctKeep p e = false := by simpa using hk
        simp [hk', ih hs']

/-- a row survives ⇔ it was present and is before the mainshock, after `t_crit_epoch`, or not below the completeness
    magnitude of its time -/
theorem mct_mem_iff (p : Mct) (es : List Event) (hs : TimeSorted es) (e : Event) :
    e ∈ mctLoop p es ↔
      e ∈ es ∧ ((e.originTime : Rat) < p.eventEpoch ∨ p.tCrit < (e.originTime : Rat) ∨ p.below e = false) := by
  rw [mct_sorted_eq_filter p es hs, List.mem_filter]
  apply and_congr_right
  intro _
  unfold mctKeep
  by_cases h1 : p.eventEpoch ≤ (e.originTime : Rat) <;> by_cases h2 : (e.originTime : Rat) ≤ p.tCrit <;>
    cases hb : p.below e <;> simp [h1, h2, Rat.not_lt.mpr, Rat.not_le.mp]

/-- multiplicities are preserved: duplicates are kept or removed together -/
theorem mct_count (p : Mct) (es : List Event) (hs : TimeSorted es) (e : Event) :
    (mctLoop p es).count e = if mctKeep p e then es.count e else 0 := by
  rw [mct_sorted_eq_filter p es hs, count_filter_eq]

/-- order and fields unchanged, sorted or not -/
theorem mct_sublist (p : Mct) (es : List Event) : (mctLoop p es).Sublist es := by
  induction es with
  | nil => exact List.Sublist.refl _
  | cons e es ih =>
    rw [mctLoop_cons]
    by_cases h1 : p.tCrit < (e.originTime : Rat)
    · simp [h1]
    · by_cases hk : mctKeep p e = true
      · simp only [h1, if_false, hk, if_true]; exact ih.cons_cons e
      · have hk' : mctKeep p e = false := by simpa using hk
        simp only [h1, if_false, hk', Bool.false_eq_true]; exact ih.cons e

/-- re-applying the cut is a no-op, sorted or not -/
theorem mct_idem (p : Mct) (es : List Event) : mctLoop p (mctLoop p es) = mctLoop p es := by
  induction es with
  | nil => rfl
  | cons e es ih =>
    rw [mctLoop_cons]
    by_cases h1 : p.tCrit < (e.originTime : Rat)
    · simp only [h1, if_true]; rw [mctLoop_cons]; simp [h1]
    · by_cases hk : mctKeep p e = true
      · simp only [h1, if_false, hk, if_true]; rw [mctLoop_cons]; simp [h1, hk, ih]
      · have hk' : mctKeep p e = false := by simpa using hk
        simp only [h1, if_false, hk', Bool.false_eq_true]; exact ih

/-- … at the level of the call: a second `apply_mct` with the same arguments returns the same catalog — unless the first
    removed every row, in which case the second raises (empty catalog) -/
theorem applyMct_twice (p : Mct) (es es' : List Event) (h : applyMct p es = .ok es') (hne : es' ≠ []) :
    applyMct p es' = .ok es' := by
  have hes : es ≠ [] := by
    intro h0; subst h0; simp [applyMct] at h
  rw [applyMct_eq_loop p es hes] at h
  have h' : mctLoop p es = es' := by simpa using h
  rw [applyMct_eq_loop p es' hne, ← h', mct_idem]

/-- the cut commutes with any per-row filter on a time-sorted catalog … -/
theorem mct_comm_rowfilter (p : Mct) (q : Event → Bool) (es : List Event) (hs : TimeSorted es) :
    mctLoop p (es.filter q) = (mctLoop p es).filter q := by
  rw [mct_sorted_eq_filter p _ (hs.sublist List.filter_sublist), mct_sorted_eq_filter p es hs,
      List.filter_filter, List.filter_filter]
  congr 1; funext e; exact Bool.and_comm _ _

/-- … hence with every statement list: `filter(statements)` then `apply_mct` = `apply_mct` then `filter(statements)` -/
theorem mct_comm_filter (p : Mct) (ss : List Stmt) (es : List Event) (hs : TimeSorted es) :
    mctLoop p (filterList ss es) = filterList ss (mctLoop p es) := by
  rw [filterList_eq_filter, filterList_eq_filter]
  exact mct_comm_rowfilter p _ es hs

/-- … and with the spatial filter -/
theorem mct_comm_spatial (p : Mct) (r : Region) (es : List Event) (hs : TimeSorted es) :
    mctLoop p (filterSpatial r es) = filterSpatial r (mctLoop p es) := by
  unfold filterSpatial filterSpatialBy
  exact mct_comm_rowfilter p _ es hs

/-- statement filters and the spatial filter keep a catalog time-sorted (so the hypothesis of the theorems above survives
    any chain of filter calls) -/
theorem filters_preserve_sorted (ss : List Stmt) (r : Region) (p : Mct) (es : List Event) (hs : TimeSorted es) :
    TimeSorted (filterList ss es) ∧ TimeSorted (filterSpatial r es) ∧ TimeSorted (mctLoop p es) := by
  refine ⟨hs.sublist ?_, hs.sublist ?_, hs.sublist (mct_sublist p es)⟩
  · rw [filterList_eq_filter]; exact List.filter_sublist
  · unfold filterSpatial filterSpatialBy; exact List.filter_sublist

/-- the spatial filter commutes with every statement list (any catalog) -/
theorem filterSpatial_comm_filter (r : Region) (ss : List Stmt) (es : List Event) :
    filterSpatial r (filterList ss es) = filterList ss (filterSpatial r es) := by
  rw [filterList_eq_filter, filterList_eq_filter]
  unfold filterSpatial filterSpatialBy
  rw [List.filter_filter, List.filter_filter]
  congr 1; funext e; exact Bool.and_comm _ _

/-- multiplicities under the spatial filter -/
theorem filterSpatial_count (r : Region) (es : List Event) (e : Event) :
    (filterSpatial r es).count e = if r.masked e.longitude e.latitude then 0 else es.count e := by
  unfold filterSpatial filterSpatialBy
  rw [count_filter_eq]
  cases h : r.masked e.longitude e.latitude <;> simp [h]

/-- `apply_mct` is in place: the object keeps its filters and region, only the rows change -/
theorem stepMct_in_place (c c' : Cat) (p : Mct) (h : stepMct c p = .ok c') :
    c'.filters = c.filters ∧ c'.region = c.region ∧ applyMct p c.events = .ok c'.events := by
  unfold stepMct at h
  cases ha : applyMct p c.events with
  | error e => rw [ha] at h; simp [Except.map] at h
  | ok es =>
    rw [ha] at h
    simp only [Except.map, Except.ok.injEq] at h
    subst h
    exact ⟨rfl, rfl, rfl⟩

/-- The filter stage of `CatalogForecast.__next__` with all three stages switched on, on a time-sorted catalog that the
    statement filters do not empty: the yielded catalog holds exactly the rows that satisfy every statement, survive the
    completeness cut and lie inside the region — ONE pass over the rows, so the order of the three stages is irrelevant -/
theorem next_all_stages (fs : List RawStmt) (hfs : fs ≠ []) (p : Mct) (r : Region) (c : Cat) (hs : TimeSorted c.events)
    (hne : filterList (fs.map RawStmt.parse) c.events ≠ []) :
    ∃ c', nextFilter ⟨true, fs, some p, true, some r⟩ c = .ok c' ∧
      c'.events = c.events.filter (fun e => (fs.map RawStmt.parse).all (fun s => s.holds e) && mctKeep p e &&
                                            !r.masked e.longitude e.latitude) := by
  have hfe : fs.isEmpty = false := by cases fs <;> simp_all
  have h1 := applyMct_eq_loop p _ hne
  refine ⟨(stepSpatial { (stepFilter c fs true).2 with
      events := mctLoop p (filterList (fs.map RawStmt.parse) c.events) } r true).2, ?_, ?_⟩
  · simp only [nextFilter, Bool.not_true, Bool.false_eq_true, if_false, hfe, stepFilter, if_true, stepMct, h1,
      Except.map, resolveRegion]
  · simp only [stepSpatial, if_true, filterSpatial, filterSpatialBy]
    have hs1 : TimeSorted (filterList (fs.map RawStmt.parse) c.events) := by
      rw [filterList_eq_filter]; exact hs.sublist List.filter_sublist
    rw [mct_sorted_eq_filter p _ hs1, filterList_eq_filter, List.filter_filter, List.filter_filter]
    congr 1; funext e
    simp only [allHold]
    generalize (fs.map RawStmt.parse).all (fun s => s.holds e) = a
    generalize mctKeep p e = b
    generalize r.masked e.longitude e.latitude = m
    cases a <;> cases b <;> cases m <;> rfl

/-- with `apply_filters=False` the catalog is yielded as it is -/
theorem next_off (fs : List RawStmt) (m : Option Mct) (sp : Bool) (r : Option Region) (c : Cat) :
    nextFilter ⟨false, fs, m, sp, r⟩ c = .ok c := by
  simp [nextFilter]

/-- AS THE CODE IS: when the statement filters (or the catalog itself) leave no row, the completeness stage raises
    (IndexError of `times[0]`) instead of yielding the empty catalog — see notes/C04.md, candidate W-C04-1 -/
theorem next_mct_raises_on_empty (fs : List RawStmt) (p : Mct) (sp : Bool) (r : Option Region) (c : Cat)
    (h : (if fs.isEmpty then c.events else filterList (fs.map RawStmt.parse) c.events) = []) :
    nextFilter ⟨true, fs, some p, sp, r⟩ c = .error .emptyCatalog := by
  by_cases hfe : fs.isEmpty = true
  · simp only [hfe, if_true] at h
    simp [nextFilter, hfe, stepMct, h, applyMct, Except.map]
  · have hfe' : fs.isEmpty = false := by simpa using hfe
    simp only [hfe', Bool.false_eq_true, if_false] at h
    simp [nextFilter, hfe', stepFilter, stepMct, h, applyMct, Except.map]

/-! non-vacuity -/
section Examples
def q1 : Event := ⟨1, -5, 0, 0, 1, 9⟩        -- before the mainshock
def q2 : Event := ⟨2, 0, 0, 0, 1, 9⟩         -- at the mainshock instant: log10(0) = -inf, mct = +inf, removed
def q3 : Event := ⟨3, 1000, 0, 0, 1, 2⟩      -- in the window, below
def q4 : Event := ⟨4, 2000, 0, 0, 1, 6⟩      -- in the window, above
def q5 : Event := ⟨5, 86400000, 0, 0, 1, 2⟩  -- exactly at t_crit: still scanned
def q6 : Event := ⟨6, 86400001, 0, 0, 1, 0⟩  -- first row after t_crit: break
def pEx : Mct := ⟨0, 86400000, fun e => decide (e.magnitude < 5) || decide (e.originTime = 0)⟩

example : TimeSorted [q1, q2, q3, q4, q5, q6] := by unfold TimeSorted; decide +kernel
example : applyMct pEx [q1, q2, q3, q4, q5, q6] = .ok [q1, q4, q6] := by decide +kernel
example : [q1, q2, q3, q4, q5, q6].filter (mctKeep pEx) = [q1, q4, q6] := by decide +kernel
-- the sortedness hypothesis is needed: behind a row later than t_crit nothing is cut …
example : applyMct pEx [q3, q6, q3] = .ok [q6, q3] ∧ [q3, q6, q3].filter (mctKeep pEx) = [q6] := by decide +kernel
-- … and a second call after everything was removed raises
example : applyMct pEx [q3] = .ok [] ∧ applyMct pEx [] = .error .emptyCatalog := by decide +kernel
example : filterList ([RawStmt.num ⟨.magnitude, .ge, 1⟩].map RawStmt.parse) [q3, q4] ≠ [] := by decide +kernel
end Examples

end CatFilter
