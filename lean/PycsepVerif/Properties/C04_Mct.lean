import PycsepVerif.Proofs.FilterMct

/-!
# C04 (extension) — `apply_mct`, `filter_spatial` and the filter stage of `CatalogForecast.__next__`

Theorems about `Model/FilterMct.lean`. `apply_mct` is a filter too: on a time-sorted catalog it keeps exactly the rows that
are NOT (inside `[event_epoch, t_crit_epoch]` and below the completeness magnitude of their time), in order, rows whole;
it is idempotent and commutes with every statement filter and with the spatial filter. An empty catalog is returned as it is
(fix D37; `finding_d37_unrepaired` keeps the statement about the code before the fix). On an unsorted catalog it is the
same cut applied to the rows in front of the first row later than `t_crit_epoch` only (`mct_eq_prefix`). All statements
are for every catalog (any length), every value of the two floats and every decision function `below`.
-/
namespace CatFilter

/-- the short-circuit on the first row (catalogs.py:629) and the early return for an empty catalog (D37) never change the
    outcome: `apply_mct` is the loop, for EVERY catalog -/
theorem applyMct_eq_loop (p : Mct) (es : List Event) : applyMct p es = mctLoop p es := by
  cases es with
  | nil => rfl
  | cons e es =>
    by_cases h : p.tCrit < (e.originTime : Rat)
    · simp [applyMct, mctLoop, h]
    · simp [applyMct, h]

/-- an empty catalog is returned as it is (fix D37) … -/
theorem applyMct_nil (p : Mct) : applyMct p [] = [] := rfl

/-- … the code before the fix raised on exactly the empty catalog and agreed with the repaired code everywhere else -/
theorem finding_d37_unrepaired (p : Mct) (es : List Event) :
    ((∃ err, applyMctD37 p es = .error err) ↔ es = []) ∧ (es ≠ [] → applyMctD37 p es = .ok (applyMct p es)) := by
  cases es with
  | nil => exact ⟨⟨fun _ => rfl, fun _ => ⟨.emptyCatalog, rfl⟩⟩, fun h => absurd rfl h⟩
  | cons e es =>
    by_cases h : p.tCrit < (e.originTime : Rat) <;> simp [applyMctD37, applyMct, h]

/-- ANY catalog (sorted or not): the cut is applied to the rows in front of the first row later than `t_crit_epoch`;
    that row and everything behind it are kept as they are -/
theorem mct_eq_prefix (p : Mct) (es : List Event) :
    mctLoop p es = (es.takeWhile (inWindow p)).filter (mctKeep p) ++ es.dropWhile (inWindow p) := by
  induction es with
  | nil => rfl
  | cons e es ih =>
    rw [mctLoop_cons]
    by_cases h1 : p.tCrit < (e.originTime : Rat)
    · have hw : inWindow p e = false := by
        have : ¬ ((e.originTime : Rat) ≤ p.tCrit) := Rat.not_le.mpr h1
        simp [inWindow, this]
      simp [h1, hw]
    · have hw : inWindow p e = true := by
        have : (e.originTime : Rat) ≤ p.tCrit := Rat.not_lt.mp h1
        simp [inWindow, this]
      simp only [h1, if_false, List.takeWhile_cons, List.dropWhile_cons, hw, if_true, List.filter_cons]
      by_cases hk : mctKeep p e = true
      · simp [hk, ih]
      · have hk' : mctKeep p e = false := by simpa using hk
        simp [hk', ih]

/-- C04 for `apply_mct`: on a time-sorted catalog it is one pass that keeps, in the original order and with
    multiplicity, exactly the rows that are not (inside the window and below the completeness magnitude) -/
theorem mct_sorted_eq_filter (p : Mct) (es : List Event) (hs : TimeSorted es) :
    mctLoop p es = es.filter (mctKeep p) := by
  induction es with
  | nil => rfl
  | cons e es ih =>
    rw [mctLoop_cons]
    have hs' : TimeSorted es := (List.pairwise_cons.mp hs).2
    by_cases h1 : p.tCrit < (e.originTime : Rat)
    · simp only [h1, if_true]
      exact (List.filter_eq_self.mpr (all_late_of_sorted p e es hs h1)).symm
    · simp only [h1, if_false, List.filter_cons]
      by_cases hk : mctKeep p e = true
      · simp [hk, ih hs']
      · have hk' : mctKeep p e = false := by simpa using hk
        simp [hk', ih hs']

/-- a row survives ⇔ it was present and is before the mainshock, after `t_crit_epoch`, or not below the completeness
    magnitude of its time -/
theorem mct_mem_iff (p : Mct) (es : List Event) (hs : TimeSorted es) (e : Event) :
    e ∈ mctLoop p es ↔
      e ∈ es ∧ ((e.originTime : Rat) < p.eventEpoch ∨ p.tCrit < (e.originTime : Rat) ∨ p.below e = false) := by
  rw [mct_sorted_eq_filter p es hs, List.mem_filter]
  apply and_congr_right
  intro _
  unfold mctKeep
  by_cases h1 : p.eventEpoch ≤ (e.originTime : Rat) <;> by_cases h2 : (e.originTime : Rat) ≤ p.tCrit <;>
    cases hb : p.below e <;> simp [h1, h2, Rat.not_lt.mpr, Rat.not_le.mp]

/-- multiplicities are preserved: duplicates are kept or removed together -/
theorem mct_count (p : Mct) (es : List Event) (hs : TimeSorted es) (e : Event) :
    (mctLoop p es).count e = if mctKeep p e then es.count e else 0 := by
  rw [mct_sorted_eq_filter p es hs, count_filter_eq]

/-- order and fields unchanged, sorted or not -/
theorem mct_sublist (p : Mct) (es : List Event) : (mctLoop p es).Sublist es := by
  induction es with
  | nil => exact List.Sublist.refl _
  | cons e es ih =>
    rw [mctLoop_cons]
    by_cases h1 : p.tCrit < (e.originTime : Rat)
    · simp [h1]
    · by_cases hk : mctKeep p e = true
      · simp only [h1, if_false, hk, if_true]; exact ih.cons_cons e
      · have hk' : mctKeep p e = false := by simpa using hk
        simp only [h1, if_false, hk', Bool.false_eq_true]; exact ih.cons e

/-- re-applying the cut is a no-op, sorted or not -/
theorem mct_idem (p : Mct) (es : List Event) : mctLoop p (mctLoop p es) = mctLoop p es := by
  induction es with
  | nil => rfl
  | cons e es ih =>
    rw [mctLoop_cons]
    by_cases h1 : p.tCrit < (e.originTime : Rat)
    · simp only [h1, if_true]; rw [mctLoop_cons]; simp [h1]
    · by_cases hk : mctKeep p e = true
      · simp only [h1, if_false, hk, if_true]; rw [mctLoop_cons]; simp [h1, hk, ih]
      · have hk' : mctKeep p e = false := by simpa using hk
        simp only [h1, if_false, hk', Bool.false_eq_true]; exact ih

/-- … at the level of the call: a second `apply_mct` with the same arguments returns the same catalog, also when the first
    removed every row (since D37) -/
theorem applyMct_twice (p : Mct) (es : List Event) : applyMct p (applyMct p es) = applyMct p es := by
  rw [applyMct_eq_loop, applyMct_eq_loop, mct_idem]

/-- the cut commutes with any per-row filter on a time-sorted catalog … -/
theorem mct_comm_rowfilter (p : Mct) (q : Event → Bool) (es : List Event) (hs : TimeSorted es) :
    mctLoop p (es.filter q) = (mctLoop p es).filter q := by
  rw [mct_sorted_eq_filter p _ (hs.sublist List.filter_sublist), mct_sorted_eq_filter p es hs,
      List.filter_filter, List.filter_filter]
  congr 1; funext e; exact Bool.and_comm _ _

/-- … hence with every statement list: `filter(statements)` then `apply_mct` = `apply_mct` then `filter(statements)` -/
theorem mct_comm_filter (p : Mct) (ss : List Stmt) (es : List Event) (hs : TimeSorted es) :
    mctLoop p (filterList ss es) = filterList ss (mctLoop p es) := by
  rw [filterList_eq_filter, filterList_eq_filter]
  exact mct_comm_rowfilter p _ es hs

/-- … and with the spatial filter -/
theorem mct_comm_spatial (p : Mct) (r : Region) (es : List Event) (hs : TimeSorted es) :
    mctLoop p (filterSpatial r es) = filterSpatial r (mctLoop p es) := by
  unfold filterSpatial filterSpatialBy
  exact mct_comm_rowfilter p _ es hs

/-- statement filters and the spatial filter keep a catalog time-sorted (so the hypothesis of the theorems above survives
    any chain of filter calls) -/
theorem filters_preserve_sorted (ss : List Stmt) (r : Region) (p : Mct) (es : List Event) (hs : TimeSorted es) :
    TimeSorted (filterList ss es) ∧ TimeSorted (filterSpatial r es) ∧ TimeSorted (mctLoop p es) := by
  refine ⟨hs.sublist ?_, hs.sublist ?_, hs.sublist (mct_sublist p es)⟩
  · rw [filterList_eq_filter]; exact List.filter_sublist
  · unfold filterSpatial filterSpatialBy; exact List.filter_sublist

/-- the spatial filter commutes with every statement list (any catalog) -/
theorem filterSpatial_comm_filter (r : Region) (ss : List Stmt) (es : List Event) :
    filterSpatial r (filterList ss es) = filterList ss (filterSpatial r es) := by
  rw [filterList_eq_filter, filterList_eq_filter]
  unfold filterSpatial filterSpatialBy
  rw [List.filter_filter, List.filter_filter]
  congr 1; funext e; exact Bool.and_comm _ _

/-- multiplicities under the spatial filter -/
theorem filterSpatial_count (r : Region) (es : List Event) (e : Event) :
    (filterSpatial r es).count e = if r.masked e.longitude e.latitude then 0 else es.count e := by
  unfold filterSpatial filterSpatialBy
  rw [count_filter_eq]
  cases h : r.masked e.longitude e.latitude <;> simp [h]

/-- `apply_mct` is in place: the object keeps its filters and region, only the rows change -/
theorem stepMct_in_place (c : Cat) (p : Mct) :
    (stepMct c p).filters = c.filters ∧ (stepMct c p).region = c.region ∧ (stepMct c p).events = applyMct p c.events :=
  ⟨rfl, rfl, rfl⟩

/-- The filter stage of `CatalogForecast.__next__` with all three stages switched on, on a time-sorted catalog (empty or
    emptied by the statements included, since D37): the yielded catalog holds exactly the rows that satisfy every statement,
    survive the completeness cut and lie inside the region — ONE pass over the rows, so the order of the stages is irrelevant -/
theorem next_all_stages (fs : List RawStmt) (hfs : fs ≠ []) (p : Mct) (r : Region) (c : Cat) (hs : TimeSorted c.events) :
    ∃ c', nextFilter ⟨true, fs, some p, true, some r⟩ c = .ok c' ∧
      c'.events = c.events.filter (fun e => (fs.map RawStmt.parse).all (fun s => s.holds e) && mctKeep p e &&
                                            !r.masked e.longitude e.latitude) := by
  have hfe : fs.isEmpty = false := by cases fs <;> simp_all
  refine ⟨(stepSpatial (stepMct (stepFilter c fs true).2 p) r true).2, ?_, ?_⟩
  · simp [nextFilter, hfe, resolveRegion]
  · simp only [stepSpatial, if_true, filterSpatial, filterSpatialBy, stepMct, stepFilter, applyMct_eq_loop]
    have hs1 : TimeSorted (filterList (fs.map RawStmt.parse) c.events) := by
      rw [filterList_eq_filter]; exact hs.sublist List.filter_sublist
    rw [mct_sorted_eq_filter p _ hs1, filterList_eq_filter, List.filter_filter, List.filter_filter]
    congr 1; funext e
    simp only [allHold]
    generalize (fs.map RawStmt.parse).all (fun s => s.holds e) = a
    generalize mctKeep p e = b
    generalize r.masked e.longitude e.latitude = m
    cases a <;> cases b <;> cases m <;> rfl

/-- with `apply_filters=False` the catalog is yielded as it is -/
theorem next_off (fs : List RawStmt) (m : Option Mct) (sp : Bool) (r : Option Region) (c : Cat) :
    nextFilter ⟨false, fs, m, sp, r⟩ c = .ok c := by
  simp [nextFilter]

/-- since D37: when the statement filters (or the catalog itself) leave no row, the completeness stage passes the empty
    catalog on instead of raising, so the forecast yields an empty catalog -/
theorem next_mct_empty_ok (fs : List RawStmt) (p : Mct) (c : Cat)
    (h : (if fs.isEmpty then c.events else filterList (fs.map RawStmt.parse) c.events) = []) :
    ∃ c', nextFilter ⟨true, fs, some p, false, none⟩ c = .ok c' ∧ c'.events = [] := by
  by_cases hfe : fs.isEmpty = true
  · simp only [hfe, if_true] at h
    exact ⟨stepMct c p, by simp [nextFilter, hfe], by simp [stepMct, h, applyMct]⟩
  · have hfe' : fs.isEmpty = false := by simpa using hfe
    simp only [hfe', Bool.false_eq_true, if_false] at h
    exact ⟨stepMct (stepFilter c fs true).2 p, by simp [nextFilter, hfe'], by simp [stepMct, stepFilter, h, applyMct]⟩

/-! ### spatial filter on a quadtree region (D42) -/

/-- kept ⇔ inside some half-open tile `[x0, x1) × [y0, y1)` -/
theorem filterSpatialQuad_mem_iff (r : QuadRegion) (es : List Event) (e : Event) :
    e ∈ filterSpatialQuad r es ↔
      e ∈ es ∧ ∃ b ∈ r.bounds, b.1 ≤ e.longitude ∧ b.2.1 ≤ e.latitude ∧ e.longitude < b.2.2.1 ∧ e.latitude < b.2.2.2 := by
  unfold filterSpatialQuad filterSpatialBy QuadRegion.masked
  rw [List.mem_filter]
  simp [inTile, List.any_eq_true, and_assoc]

theorem filterSpatialQuad_sublist (r : QuadRegion) (es : List Event) : (filterSpatialQuad r es).Sublist es :=
  List.filter_sublist

theorem filterSpatialQuad_idem (r : QuadRegion) (es : List Event) :
    filterSpatialQuad r (filterSpatialQuad r es) = filterSpatialQuad r es := filter_filter_self _ _

theorem filterSpatialQuad_comm_filter (r : QuadRegion) (ss : List Stmt) (es : List Event) :
    filterSpatialQuad r (filterList ss es) = filterList ss (filterSpatialQuad r es) := by
  rw [filterList_eq_filter, filterList_eq_filter]
  unfold filterSpatialQuad filterSpatialBy
  rw [List.filter_filter, List.filter_filter]
  congr 1; funext e; exact Bool.and_comm _ _

/-- before D42 the class had no `get_masked`; the repaired spatial filter on a one-tile grid is the Cartesian one-cell filter -/
theorem filterSpatialQuad_single_tile (x y dh : Rat) (es : List Event) :
    filterSpatialQuad ⟨[(x, y, x + dh, y + dh)]⟩ es = filterSpatial ⟨dh, [(x, y)]⟩ es := by
  unfold filterSpatialQuad filterSpatial filterSpatialBy QuadRegion.masked Region.masked
  congr 1; funext e
  simp only [List.any_cons, List.any_nil, Bool.or_false, inTile, inCell]
  cases decide (x ≤ e.longitude) <;> cases decide (y ≤ e.latitude) <;> cases decide (e.longitude < x + dh) <;>
    cases decide (e.latitude < y + dh) <;> rfl

/-! non-vacuity -/
section Examples
def q1 : Event := ⟨1, -5, 0, 0, 1, 9⟩        -- before the mainshock
def q2 : Event := ⟨2, 0, 0, 0, 1, 9⟩         -- at the mainshock instant: log10(0) = -inf, mct = +inf, removed
def q3 : Event := ⟨3, 1000, 0, 0, 1, 2⟩      -- in the window, below
def q4 : Event := ⟨4, 2000, 0, 0, 1, 6⟩      -- in the window, above
def q5 : Event := ⟨5, 86400000, 0, 0, 1, 2⟩  -- exactly at t_crit: still scanned
def q6 : Event := ⟨6, 86400001, 0, 0, 1, 0⟩  -- first row after t_crit: break
def pEx : Mct := ⟨0, 86400000, fun e => decide (e.magnitude < 5) || decide (e.originTime = 0)⟩

example : TimeSorted [q1, q2, q3, q4, q5, q6] := by unfold TimeSorted; decide +kernel
example : applyMct pEx [q1, q2, q3, q4, q5, q6] = [q1, q4, q6] := by decide +kernel
example : [q1, q2, q3, q4, q5, q6].filter (mctKeep pEx) = [q1, q4, q6] := by decide +kernel
-- the sortedness hypothesis is needed: behind a row later than t_crit nothing is cut …
example : applyMct pEx [q3, q6, q3] = [q6, q3] ∧ [q3, q6, q3].filter (mctKeep pEx) = [q6] := by decide +kernel
-- … a second call after everything was removed is a no-op since D37; the unrepaired code raised
example : applyMct pEx [q3] = [] ∧ applyMct pEx [] = [] ∧ applyMctD37 pEx [] = .error .emptyCatalog := by decide +kernel
example : filterSpatialQuad ⟨[(0, 0, 1, 1), (1, 0, 2, 1)]⟩ [⟨1, 0, 1/2, 1, 0, 5⟩, ⟨2, 0, 1/2, 2, 0, 5⟩, ⟨3, 0, 0, 0, 0, 5⟩]
    = [⟨1, 0, 1/2, 1, 0, 5⟩, ⟨3, 0, 0, 0, 0, 5⟩] := by decide +kernel
example : filterList ([RawStmt.num ⟨.magnitude, .ge, 1⟩].map RawStmt.parse) [q3, q4] ≠ [] := by decide +kernel
end Examples

end CatFilter
