import PycsepVerif.Properties.C01
import PycsepVerif.Properties.C02_Float
import PycsepVerif.Properties.C02_Decimal
/-!
# C01 ∘ C02 — the FLOAT lookups of a region give the exact partition cell outside the round-off band

The exact layer of C01 (`Region.cellOf`, `getIndexOf`, `getMasked`, …) takes the 1-D lookup by its exact meaning (`binE`: last edge ≤ x,
closed top). The code computes it with the float formula of `bin1d_vec` (C02's `bin1dF (cfg64 false)`, which `binF` is). Until round 4 the
link "float formula = exact lookup outside the band" was in C01's trusted list (checked point by point by the correspondence). Here it is
a theorem: on every edge array that is a `RegularF64Grid` and for every coordinate that is `PointOK` (both decidable, evaluated by the
driver on every case of C02), if the coordinate is outside the round-off band of that axis (the allowed set of C02 is a singleton) the
float column / row IS the exact one, hence the cell the CODE computes is `Region.cellOf`; inside the band it is the exact column or the
next one (never further, never below).
-/
namespace Region
open Soft64 Bin1d

/-- numpy index → `Option`: −1 (any negative) = not in the bounding box -/
def optOfInt (z : ℤ) : Option ℕ := if z < 0 then none else some z.toNat

/-- on strictly increasing edges the leading run of edges ≤ x is all of them: `cnt` (C01) = `countP` (C02) -/
theorem cnt_eq_countP : ∀ (edges : List ℚ) (x : ℚ), edges.Pairwise (· < ·) →
    cnt edges x = edges.countP (fun e => decide (e ≤ x))
  | [], x, _ => by simp [cnt_nil]
  | e :: es, x, hs => by
    rw [List.pairwise_cons] at hs
    rw [cnt_cons, List.countP_cons]
    have ih := cnt_eq_countP es x hs.2
    by_cases he : e ≤ x
    · rw [if_pos he, ih]; simp [he]
    · have h0 : es.countP (fun e => decide (e ≤ x)) = 0 := by
        rw [List.countP_eq_zero]
        intro a ha
        have := hs.1 a ha
        simp only [decide_eq_true_eq, not_le]
        exact lt_trans (not_le.mp he) this
      rw [if_neg he, h0]; simp [he]

/-- `xs[-1] + (xs[1] - xs[0])` of C01's model is the `top` of C02's -/
theorem topF_eq_top64 (xs : List ℚ) (hn : 1 < xs.length) : topF xs = top64 xs := by
  match xs, hn with
  | e0 :: e1 :: t, _ =>
    unfold topF top64 topOf hOf
    have hl : (e0 :: e1 :: t).getLast?.getD e1 = (e0 :: e1 :: t).getD ((e0 :: e1 :: t).length - 1) 0 := by
      rw [List.getLast?_eq_getElem?]
      simp [List.getD]
    simp only [hl, fadd, fsub, DT.rnd]
    simp

/-- the exact closed-mode lookup of C01 (`binE`) is C02's ideal bin with the closed top, as an `Option` -/
theorem binE_eq_ideal (xs : List ℚ) (top x : ℚ) (hs : xs.Pairwise (· < ·)) (hn : 1 < xs.length) :
    binE xs top x = optOfInt (binIdealClosed xs top x) := by
  unfold binE binIdealClosed binIdeal optOfInt
  rw [cnt_eq_countP xs x hs]
  have hc : xs.countP (fun e => decide (e ≤ x)) ≤ xs.length := List.countP_le_length
  have h1 : ¬ xs.length = 1 := by omega
  by_cases h0 : xs.countP (fun e => decide (e ≤ x)) = 0
  · simp [h0]
  · simp only [h0, if_false, h1]
    by_cases ht : top ≤ x
    · simp [ht]
    · simp only [ht, if_false]
      have : ¬ ((xs.countP (fun e => decide (e ≤ x)) : ℤ) - 1 < 0) := by omega
      simp only [this, if_false]
      congr 1
      omega

/-- the shape of C02's allowed set in closed mode (n ≥ 2): `[K]` or `[K, K+1]` below the last edge; `[-1]` at or beyond the top;
`[K]` or `[K, -1]` in the last bin -/
theorem allowed_closed_shape (xs : List ℚ) (x : ℚ) (hn : 1 < xs.length) :
    (binIdeal xs x + 1 < (xs.length : ℤ) →
      Bin1d.allowed (cfg64 false) xs x = [binIdeal xs x] ∨ Bin1d.allowed (cfg64 false) xs x = [binIdeal xs x, binIdeal xs x + 1]) ∧
    (¬ binIdeal xs x + 1 < (xs.length : ℤ) → top64 xs ≤ x → Bin1d.allowed (cfg64 false) xs x = [-1]) ∧
    (¬ binIdeal xs x + 1 < (xs.length : ℤ) → ¬ top64 xs ≤ x →
      Bin1d.allowed (cfg64 false) xs x = [binIdeal xs x] ∨ Bin1d.allowed (cfg64 false) xs x = [binIdeal xs x, -1]) := by
  have hn1 : (xs.length == 1) = false := by simp; omega
  unfold Bin1d.allowed
  simp only [hn1, Bool.or_false]
  refine ⟨fun hK => ?_, fun hK ht => ?_, fun hK ht => ?_⟩
  · rw [if_pos hK]
    split_ifs
    · exact Or.inr rfl
    · exact Or.inl rfl
  · rw [if_neg hK, if_neg (show ¬ (cfg64 false).rc = true by simp [cfg64])]
    have ht' : (topOf (cfg64 false).bd xs.length fun k => xs.getD k 0) ≤ x := ht
    rw [if_pos ht']
  · rw [if_neg hK, if_neg (show ¬ (cfg64 false).rc = true by simp [cfg64])]
    have ht' : ¬ (topOf (cfg64 false).bd xs.length fun k => xs.getD k 0) ≤ x := ht
    rw [if_neg ht']
    split_ifs
    · exact Or.inr rfl
    · exact Or.inl rfl

/-- **float column = exact column outside the band** -/
theorem float_col_exact {xs : List ℚ} (G : RegularF64Grid xs) {x : ℚ} (P : PointOK xs x)
    (hband : (Bin1d.allowed (cfg64 false) xs x).length = 1) :
    optOfInt (binF xs.toArray x) = binE xs (topF xs) x := by
  have hn := G.two_le
  rw [binF_eq, binE_eq_ideal xs _ x G.increasing hn, topF_eq_top64 xs hn]
  congr 1
  have hmem := bin1dF_mem_allowed false G P
  have hKr := binIdeal_range xs x
  obtain ⟨s1, s2, s3⟩ := allowed_closed_shape xs x hn
  unfold binIdealClosed
  have hlast : xs.getD (xs.length - 1) 0 ≤ top64 xs := by
    apply top_ge_last (fun j => xs.getD j 0) _ G.step_pos.le
    have hl : xs.length - 1 < xs.length := by omega
    show fl64 (xs.getD (xs.length - 1) 0) = xs.getD (xs.length - 1) 0
    rw [getD_eq_getElem xs hl]
    exact G.floats _ (List.getElem_mem hl)
  by_cases hK : binIdeal xs x + 1 < (xs.length : ℤ)
  · have htop : ¬ top64 xs ≤ x := by
      intro ht
      have := (edge_le_iff G.increasing x (j := xs.length - 1) (by omega)).1 (le_trans hlast ht)
      omega
    rw [if_neg htop]
    rcases s1 hK with h | h
    · rw [h] at hmem; simpa using hmem
    · rw [h] at hband; simp at hband
  · by_cases ht : top64 xs ≤ x
    · rw [if_pos ht]
      rw [s2 hK ht] at hmem; simpa using hmem
    · rw [if_neg ht]
      rcases s3 hK ht with h | h
      · rw [h] at hmem; simpa using hmem
      · rw [h] at hband; simp at hband

/-- **inside the band the float column is the exact one or its upper neighbour** (closed mode: or "outside" in the band below the
upper side of the last column) — never further up, never below: C01's "may be attributed to either adjacent cell" -/
theorem float_col_adjacent {xs : List ℚ} (G : RegularF64Grid xs) {x : ℚ} (P : PointOK xs x) :
    binF xs.toArray x = binIdealClosed xs (top64 xs) x ∨
    (binF xs.toArray x = binIdeal xs x + 1 ∧ binIdeal xs x + 1 < (xs.length : ℤ)) ∨
    (binF xs.toArray x = -1 ∧ binIdeal xs x + 1 = (xs.length : ℤ) ∧ x < top64 xs) := by
  rw [binF_eq]
  have hKr := binIdeal_range xs x
  obtain ⟨c1, _, c3, c4⟩ := bin1dF_cases false G P
  unfold binIdealClosed
  have hlast : xs.getD (xs.length - 1) 0 ≤ top64 xs := by
    apply top_ge_last (fun j => xs.getD j 0) _ G.step_pos.le
    have hl : xs.length - 1 < xs.length := by have := G.two_le; omega
    show fl64 (xs.getD (xs.length - 1) 0) = xs.getD (xs.length - 1) 0
    rw [getD_eq_getElem xs hl]
    exact G.floats _ (List.getElem_mem hl)
  by_cases hK : binIdeal xs x + 1 < (xs.length : ℤ)
  · have htop : ¬ top64 xs ≤ x := by
      intro ht
      have := (edge_le_iff G.increasing x (j := xs.length - 1) (by have := G.two_le; omega)).1 (le_trans hlast ht)
      omega
    rw [if_neg htop]
    rcases c1 hK with h | ⟨h, _⟩
    · exact Or.inl h
    · exact Or.inr (Or.inl ⟨h, hK⟩)
  · have hK' : binIdeal xs x + 1 = (xs.length : ℤ) := by omega
    by_cases ht : top64 xs ≤ x
    · rw [if_pos ht]; exact Or.inl (c3 hK' rfl ht)
    · rw [if_neg ht]
      rcases c4 hK' rfl (not_le.mp ht) with h | ⟨h, _⟩
      · exact Or.inl h
      · exact Or.inr (Or.inr ⟨h, hK', not_le.mp ht⟩)

/-- **the cell the CODE computes is the partition cell** (`get_index_of` / `get_masked` with the float `bin1d_vec` on both axes): for a
region on regular float64 edge arrays and a point whose coordinates are outside the round-off band of their axes -/
theorem float_lookup_exact (xs ys : List ℚ) (cells : List Cell) (Gx : RegularF64Grid xs) (Gy : RegularF64Grid ys) (p : ℚ × ℚ)
    (Px : PointOK xs p.1) (Py : PointOK ys p.2)
    (hx : (Bin1d.allowed (cfg64 false) xs p.1).length = 1) (hy : (Bin1d.allowed (cfg64 false) ys p.2).length = 1) :
    (Region.new xs ys (topF xs) (topF ys) cells).cellAt (optOfInt (binF xs.toArray p.1)) (optOfInt (binF ys.toArray p.2))
      = (Region.new xs ys (topF xs) (topF ys) cells).cellOf p := by
  unfold Region.cellOf Region.col Region.row Region.new
  simp only
  rw [float_col_exact Gx Px hx, float_col_exact Gy Py hy]

/-- … in particular for the region the float constructor builds (`BuiltF.region`) -/
theorem built_float_lookup_exact (b : BuiltF) (Gx : RegularF64Grid b.xs) (Gy : RegularF64Grid b.ys) (p : ℚ × ℚ)
    (Px : PointOK b.xs p.1) (Py : PointOK b.ys p.2)
    (hx : (Bin1d.allowed (cfg64 false) b.xs p.1).length = 1) (hy : (Bin1d.allowed (cfg64 false) b.ys p.2).length = 1) :
    b.region.cellAt (optOfInt (binF b.xs.toArray p.1)) (optOfInt (binF b.ys.toArray p.2)) = b.region.cellOf p :=
  float_lookup_exact b.xs b.ys b.cells Gx Gy p Px Py hx hy

/-! ### non-vacuity: the witness grid of C02 as an axis; 87.8 (an edge) and a mid-bin value are outside the band -/
example : (Bin1d.allowed (cfg64 false) witnessBins (6178375738798899 / 70368744177664)).length = 1 ∧
    (Bin1d.allowed (cfg64 false) witnessBins 50).length = 1 ∧ PointOK witnessBins 50 := by
  refine ⟨by decide +kernel, by decide +kernel, ⟨by decide +kernel, by decide +kernel⟩⟩
example : optOfInt (binF witnessBins.toArray 50) = some 1 ∧ binE witnessBins (topF witnessBins) 50 = some 1 := by decide +kernel
-- one ulp below 33.2 the allowed set has two elements (the band): the float column is the upper neighbour
example : (Bin1d.allowed (cfg64 false) witnessBins pBelow332).length = 2 ∧ binF witnessBins.toArray pBelow332 = 1 ∧
    binIdeal witnessBins pBelow332 = 0 := by decide +kernel

end Region
