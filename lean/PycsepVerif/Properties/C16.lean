import PycsepVerif.Proofs.BinaryBrier

/-!
# C16 — binary likelihood and Brier score equal their definitions

Theorems about `Model/BinaryBrier.lean` instantiated at ℝ (and, for `depends_only_on_activity`, at every `RealOps`
instance, so also at the executable Float model). A flattened (forecast, count) pair is a list of bins `(λ, w)`;
a bin is active iff `w > 0`. All statements hold for every shape.
-/
namespace BinaryBrier
open RealOps PoissonLL

/-- indicator of an active bin -/
def ind (w : ℕ) : ℝ := if 0 < w then 1 else 0

/-- the documented binary joint log-likelihood, with log 0 = −∞:
    Σ_active ln(1 − e^{−λ}) + Σ_inactive (−λ) -/
noncomputable def binaryDef (bins : List (ℝ × ℕ)) : ELL ℝ :=
  ELL.sum (bins.map (fun p => if 0 < p.2 then ELL.log (1 - Real.exp (-p.1)) else .fin (-p.1)))

/-- the documented Brier score: −2/N · Σ (1 − e^{−λ} − [active])² -/
noncomputable def brierDef (N : ℕ) (bins : List (ℝ × ℕ)) : ℝ :=
  -2 / (N : ℝ) * (bins.map (fun p => (1 - Real.exp (-p.1) - ind p.2) ^ 2)).sum

/-- **C16, binary likelihood.** If every active bin has a positive rate, the value computed by the code is
    `Σ_active ln(1 − e^{−λ}) + Σ_inactive (−λ)`. -/
theorem binaryLL_eq_def (bins : List (ℝ × ℕ)) (h : ∀ p ∈ bins, 0 < p.2 → 0 < p.1) :
    binaryLL bins =
      ((bins.filter (fun p => decide (0 < p.2))).map (fun p => Real.log (1 - Real.exp (-p.1)))).sum
      + ((bins.filter (fun p => !decide (0 < p.2))).map (fun p => -p.1)).sum := by
  rw [binaryLL_real]
  induction bins with
  | nil => simp
  | cons p bins ih =>
    have ih' := ih (fun q hq => h q (List.mem_cons_of_mem _ hq))
    by_cases hw : 0 < p.2
    · have hr := h p List.mem_cons_self hw
      simp only [List.map_cons, List.sum_cons, List.filter_cons, hw, decide_true, ↓reduceIte, Bool.not_true,
        Bool.false_eq_true, ih', binTerm_active_pos p.1 hr]
      ring
    · simp only [List.map_cons, List.sum_cons, List.filter_cons, hw, decide_false, ↓reduceIte, Bool.not_false,
        Bool.false_eq_true, ih', binTerm_inactive]
      ring

/-- the same in terms of the `ELL`-valued definition: under the hypothesis the definition is finite and equal -/
theorem binaryLL_eq_binaryDef (bins : List (ℝ × ℕ)) (h : ∀ p ∈ bins, 0 < p.2 → 0 < p.1) :
    binaryDef bins = .fin (binaryLL bins) := by
  unfold binaryDef
  rw [binaryLL_real, ellSum_eq]
  have hterm : ∀ p ∈ bins, (if 0 < p.2 then ELL.log (1 - Real.exp (-p.1)) else ELL.fin (-p.1))
      = ELL.fin (binTerm p.1 (decide (0 < p.2))) := by
    intro p hp
    by_cases hw : 0 < p.2
    · have hr := h p hp hw
      have : ¬ (1 - Real.exp (-p.1) ≤ 0) := by
        have : Real.exp (-p.1) < 1 := by rw [Real.exp_lt_one_iff]; linarith
        linarith
      simp only [hw, ↓reduceIte, decide_true, binTerm_active_pos p.1 hr, ellLog_real, this]
    · simp only [hw, ↓reduceIte, decide_false, binTerm_inactive]
  have hmap : bins.map (fun p => if 0 < p.2 then ELL.log (1 - Real.exp (-p.1)) else ELL.fin (-p.1))
      = bins.map (fun p => ELL.fin (binTerm p.1 (decide (0 < p.2)))) := List.map_congr_left hterm
  rw [hmap]
  have hall : (bins.map (fun p => (ELL.fin (binTerm p.1 (decide (0 < p.2))) : ELL ℝ))).all ellFin = true := by
    simp [List.all_map, ellFin]
  rw [if_pos hall, List.map_map]
  rfl

/-- **C16, the definition for an event in a zero-rate bin is −∞** -/
theorem binaryLL_def_negInf (bins : List (ℝ × ℕ)) (h : ∃ p ∈ bins, 0 < p.2 ∧ p.1 = 0) :
    binaryDef bins = .negInf := by
  obtain ⟨p, hp, hw, hr⟩ := h
  unfold binaryDef
  rw [ellSum_negInf_iff]
  refine ⟨_, List.mem_map.mpr ⟨p, hp, rfl⟩, ?_⟩
  simp [hw, hr, ellLog_real]

/-- the definition is −∞ exactly in that situation (rates ≥ 0) -/
theorem binaryDef_negInf_iff (bins : List (ℝ × ℕ)) (hnn : ∀ p ∈ bins, 0 ≤ p.1) :
    binaryDef bins = .negInf ↔ ∃ p ∈ bins, 0 < p.2 ∧ p.1 = 0 := by
  constructor
  · intro h
    by_contra hne
    have hpos : ∀ p ∈ bins, 0 < p.2 → 0 < p.1 := by
      intro p hp hw
      rcases (hnn p hp).lt_or_eq with hl | hl
      · exact hl
      · exact absurd ⟨p, hp, hw, hl.symm⟩ hne
    rw [binaryLL_eq_binaryDef bins hpos] at h
    cases h
  · exact binaryLL_def_negInf bins

/-- **C16, what the code does for an event in a bin of rate ≤ 0 (KNOWN FINDING D17).** Such a bin contributes the
    finite constant `+1` to the score (the entry is masked; numpy.ma leaves the multiplier `y = 1` in the slot), so the
    total is finite while the definition (`binaryLL_def_negInf`) is −∞. -/
theorem binaryLL_zero_rate_event (pre post : List (ℝ × ℕ)) (r : ℝ) (w : ℕ) (hr : r ≤ 0) (hw : 0 < w) :
    binaryLL (pre ++ (r, w) :: post) = binaryLL (pre ++ post) + 1 := by
  simp only [binaryLL_real, List.map_append, List.map_cons, List.sum_append, List.sum_cons, hw, decide_true,
    binTerm_active_nonpos r hr]
  ring

/-- **C16, Brier score.** The value computed by the code (`-2·Σ(1 − cdf(0,λ) − [w>0])²`, divided by every dimension
    in turn) is `−2/N · Σ (1 − e^{−λ} − [active])²` with `N` the product of all dimensions. -/
theorem brier_eq_def (dims : List ℕ) (bins : List (ℝ × ℕ)) :
    brier dims bins = brierDef dims.prod bins := by
  unfold brier brierDef
  rw [foldl_div, real_sum]
  have : (bins.map ((fun p : ℝ × ℕ => brierCell p.1 (decide (0 < p.2)))))
       = bins.map (fun p => (1 - Real.exp (-p.1) - ind p.2) ^ 2) := by
    apply List.map_congr_left
    intro p _
    rw [brierCell_real]; unfold ind
    by_cases hw : 0 < p.2 <;> simp [hw]
  rw [this]
  simp only [real_mul, real_neg, two, real_ofNat]
  ring

/-- for an array whose dimensions multiply to the number of bins, `N` is the number of bins -/
theorem brier_eq_def_length (dims : List ℕ) (bins : List (ℝ × ℕ)) (h : dims.prod = bins.length) :
    brier dims bins = brierDef bins.length bins := by rw [brier_eq_def, h]

/-- the 2-D observed array and the flattened simulated array are normalised by the same `N` -/
theorem brier_dims_irrelevant (d1 d2 : List ℕ) (bins : List (ℝ × ℕ)) (h : d1.prod = d2.prod) :
    brier d1 bins = brier d2 bins := by rw [brier_eq_def, brier_eq_def, h]

/-- **C16, activity only.** Both scores depend on the observation only through which bins are active — for every
    `RealOps` instance (ℝ and the executable Float model alike). -/
theorem depends_only_on_activity {α : Type} [RealOps α] (dims : List ℕ) (rates : List α) (c1 c2 : List ℕ)
    (h : c1.map (fun w => decide (0 < w)) = c2.map (fun w => decide (0 < w))) :
    binaryLL (rates.zip c1) = binaryLL (rates.zip c2) ∧ brier dims (rates.zip c1) = brier dims (rates.zip c2) := by
  have key : ∀ f : α → Bool → α,
      (rates.zip c1).map (fun p => f p.1 (decide (0 < p.2))) = (rates.zip c2).map (fun p => f p.1 (decide (0 < p.2))) := by
    intro f
    induction rates generalizing c1 c2 with
    | nil => simp
    | cons r rates ih =>
      cases c1 with
      | nil => cases c2 with
        | nil => rfl
        | cons _ _ => simp at h
      | cons w1 c1 => cases c2 with
        | nil => simp at h
        | cons w2 c2 =>
          simp only [List.map_cons, List.cons.injEq] at h
          simp only [List.zip_cons_cons, List.map_cons, h.1, ih c1 c2 h.2]
  constructor
  · unfold binaryLL; rw [key binTerm]
  · unfold brier; rw [key brierCell]

/-- corollary: replacing every count by its 0/1 indicator changes neither score -/
theorem scores_of_indicator {α : Type} [RealOps α] (dims : List ℕ) (rates : List α) (c : List ℕ) :
    binaryLL (rates.zip c) = binaryLL (rates.zip (c.map (fun w => if 0 < w then 1 else 0))) ∧
    brier dims (rates.zip c) = brier dims (rates.zip (c.map (fun w => if 0 < w then 1 else 0))) := by
  apply depends_only_on_activity
  rw [List.map_map]
  apply List.map_congr_left
  intro w _
  by_cases hw : 0 < w <;> simp [hw]

/-- **C16, range of the Brier score.** For non-negative rates every cell term lies in [0,1], so `−2 ≤ brier ≤ 0`
    when `N` is the number of bins. -/
theorem brier_range (bins : List (ℝ × ℕ)) (hnn : ∀ p ∈ bins, 0 ≤ p.1) (hne : bins ≠ []) :
    -2 ≤ brier [bins.length] bins ∧ brier [bins.length] bins ≤ 0 := by
  rw [brier_eq_def_length _ _ (by simp)]
  unfold brierDef
  have hcell : ∀ p ∈ bins, 0 ≤ (1 - Real.exp (-p.1) - ind p.2) ^ 2 ∧ (1 - Real.exp (-p.1) - ind p.2) ^ 2 ≤ 1 := by
    intro p hp
    have he1 : Real.exp (-p.1) ≤ 1 := by rw [Real.exp_le_one_iff]; linarith [hnn p hp]
    have he0 : 0 < Real.exp (-p.1) := Real.exp_pos _
    refine ⟨sq_nonneg _, ?_⟩
    unfold ind
    by_cases hw : 0 < p.2
    · simp only [hw, ↓reduceIte]; nlinarith
    · simp only [hw, ↓reduceIte]; nlinarith
  have hN : (0 : ℝ) < bins.length := by
    have : 0 < bins.length := List.length_pos_iff.mpr hne
    exact_mod_cast this
  have hs0 : 0 ≤ (bins.map (fun p => (1 - Real.exp (-p.1) - ind p.2) ^ 2)).sum :=
    List.sum_nonneg (by intro x hx; obtain ⟨p, hp, rfl⟩ := List.mem_map.mp hx; exact (hcell p hp).1)
  have hs1 : (bins.map (fun p => (1 - Real.exp (-p.1) - ind p.2) ^ 2)).sum ≤ (bins.length : ℝ) :=
    sum_le_length bins _ (fun p hp => (hcell p hp).2)
  constructor
  · rw [div_mul_eq_mul_div, le_div_iff₀ hN]; nlinarith
  · rw [div_mul_eq_mul_div]; apply div_nonpos_of_nonpos_of_nonneg <;> nlinarith

/-- **C16, the public tests.** `binary_spatial_test` scores the spatial marginals, `binary_conditional_likelihood_test`
    the full arrays (no rate scaling in either), `brier_score_test` the full arrays; a simulated Brier entry uses the
    flattened simulated array. Each is `binaryLL` / `brier` of those arrays, for the observed and every simulated
    count array alike. -/
theorem tests_report_def (data : List (List ℝ)) (cnt : List (List ℕ)) (sim : List ℕ) :
    binarySpatialStat data cnt = binaryLL ((data.map List.sum).zip (cnt.map List.sum)) ∧
    binaryCLStat data cnt = binaryLL (data.flatten.zip cnt.flatten) ∧
    brierObsStat data cnt = brierDef (cnt.length * (cnt.headD []).length) (data.flatten.zip cnt.flatten) ∧
    brierSimStat data sim = brierDef sim.length (data.flatten.zip sim) := by
  refine ⟨?_, rfl, ?_, ?_⟩
  · unfold binarySpatialStat spatialMarginal spatialMarginalN
    congr 2
    apply List.map_congr_left; intro r _; exact real_sum r
  · unfold brierObsStat; rw [brier_eq_def]; simp
  · unfold brierSimStat; rw [brier_eq_def]; simp

/-! ### the per-cell map `binary_spatial_likelihood` -/

/-- a cell of the map with a positive scaled rate is the binary term of the scaled rate -/
theorem binaryCell_eq (s r : ℝ) (w : ℕ) (h : 0 < r * s) :
    binaryCell s r w = binTerm (r * s) (decide (0 < w)) := by
  unfold binaryCell
  by_cases hw : 0 < w
  · simp only [hw, ↓reduceIte, decide_true, binTerm_active_pos _ h, real_add, real_mul, real_sub, real_one,
      real_neg, real_log, real_exp]
    rw [show -r * s = -(r * s) by ring]; ring
  · simp only [hw, ↓reduceIte, decide_false, binTerm_inactive, real_add, real_mul, real_sub, real_one, real_zero,
      real_neg, real_log, real_exp]
    ring

/-- **C16, per-cell map.** When every cell has a positive scaled rate, the cells of `binary_spatial_likelihood` add up
    to the binary joint log-likelihood of the spatial marginals scaled by `N_obs / N_fore`. -/
theorem binarySpatialMap_sum (data : List (List ℝ)) (cnt : List (List ℕ))
    (hpos : ∀ p ∈ (spatialMarginal data).zip (spatialMarginalN cnt),
      0 < p.1 * (((cnt.flatten.sum : ℕ) : ℝ) / data.flatten.sum)) :
    (binarySpatialMap data cnt).sum =
      binaryLL (((spatialMarginal data).zip (spatialMarginalN cnt)).map
        (fun p => (p.1 * (((cnt.flatten.sum : ℕ) : ℝ) / data.flatten.sum), p.2))) := by
  rw [binaryLL_real, List.map_map]
  unfold binarySpatialMap
  congr 1
  apply List.map_congr_left
  intro p hp
  simp only [Function.comp, real_div, real_ofNat, real_sum]
  exact binaryCell_eq _ _ _ (hpos p hp)

/-! ### the hypotheses are satisfiable; concrete values -/

example : binaryLL [((0.5 : ℝ), 2), (0.25, 0)] = Real.log (1 - Real.exp (-0.5)) + -0.25 := by
  rw [binaryLL_eq_def _ (by simp; norm_num)]; simp

-- the witness of the known finding D17: forecast [0.5, 0.0], one event in each bin
example : binaryLL [((0.5 : ℝ), 1), (0, 1)] = binaryLL [((0.5 : ℝ), 1)] + 1 ∧
    binaryDef [((0.5 : ℝ), 1), (0, 1)] = .negInf :=
  ⟨binaryLL_zero_rate_event [(0.5, 1)] [] 0 1 le_rfl (by omega),
   binaryLL_def_negInf _ ⟨(0, 1), by simp, by simp, rfl⟩⟩

example : brier [1, 2] [((0 : ℝ), 0), (0, 3)] = -2 / 2 * ((1 - 1 - 0) ^ 2 + ((1 - 1 - 1) ^ 2 + 0)) := by
  rw [brier_eq_def]; simp [brierDef, ind]

example : binaryLL ([(0.5 : ℝ), 0.25].zip [7, 0]) = binaryLL ([(0.5 : ℝ), 0.25].zip [1, 0]) :=
  (depends_only_on_activity [] _ _ _ (by decide)).1

example : -2 ≤ brier [2] [((0.5 : ℝ), 2), (0, 0)] ∧ brier [2] [((0.5 : ℝ), 2), (0, 0)] ≤ 0 :=
  brier_range _ (by simp; norm_num) (by simp)

example : binaryDef [((0.5 : ℝ), 1), (0, 0)] ≠ .negInf := by
  rw [Ne, binaryDef_negInf_iff _ (by simp; norm_num)]; simp; norm_num

end BinaryBrier
