import PycsepVerif.Properties.C11
import PycsepVerif.Model.ForecastText
import PycsepVerif.Proofs.DecimalText
import PycsepVerif.Proofs.DecimalParse
import Mathlib.Tactic.SplitIfs
import Mathlib.Tactic.Tauto

/-!
# C11, text layer — from the characters of a `.dat` file to the property

`Properties/C11` speaks about a file as a list of rows of rationals and takes the decimals behind the cell size as
inputs.  Here the two steps before that are inside the model (`Model/DecimalText`, `Model/ForecastText`):
`numpy.loadtxt` (lines, comments, blank-separated tokens, each token → nearest double) and `Decimal(repr(x))`.

* every number `loadtxt` produces is the correctly rounded value of the decimal the token denotes (`token_correctly_rounded`);
* `repr`'s decimal always reads back (`repr_reads_back`), as does ANY decimal within half a unit of the 17th significant
  digit (`seventeen_digits_read_back`) — so files written with `repr` or `%.17g` load as the doubles that were written;
* the statements of the property for the forecast loaded FROM THE TEXT (`rate_lookup_text`, `flag0_outside_text`,
  `mags_text`, `total_text`, `dh_text`);
* which calls of `csep.load_gridded_forecast` reach `load_ascii` / the caller's loader (`dispatch_*`).
-/
namespace ForecastFile.Text
open ForecastFile DecimalText Soft64

/-! ## numbers -/

/-- a value accepted by `toF64` is the binary64 rounding of the exact value, and is a binary64 value -/
theorem toF64_spec {q y : Rat} (h : toF64 q = some y) : y = fl64 q ∧ IsF64 y := by
  unfold toF64 at h
  simp only at h
  split_ifs at h
  cases h
  exact ⟨rfl, isF64_fl64 q⟩

/-- **correct rounding**: the double read from a token is within half an ulp of the exact decimal the token denotes,
    and no other rounding is ever taken: it is `fl64` of that exact value -/
theorem token_correctly_rounded {s : String} {y : Rat} (h : npFloat s = some y) :
    ∃ q, parseToken s = some q ∧ y = fl64 q ∧ IsF64 y ∧ |y - q| ≤ pow2 (ulpExp q) / 2 := by
  unfold npFloat at h
  cases hq : parseToken s with
  | none => rw [hq] at h; cases h
  | some q =>
    rw [hq] at h
    obtain ⟨h1, h2⟩ := toF64_spec (q := q) (y := y) h
    exact ⟨q, rfl, h1, h2, by rw [h1]; exact fl64_err q⟩

/-- the same for Python's `float()` (blanks stripped, digit-group underscores) -/
theorem float_correctly_rounded {s : String} {y : Rat} (h : pyFloat s = some y) :
    ∃ q, parseDecimal s = some q ∧ y = fl64 q ∧ IsF64 y ∧ |y - q| ≤ pow2 (ulpExp q) / 2 := by
  unfold pyFloat at h
  cases hq : parseDecimal s with
  | none => rw [hq] at h; cases h
  | some q =>
    rw [hq] at h
    obtain ⟨h1, h2⟩ := toF64_spec (q := q) (y := y) h
    exact ⟨q, rfl, h1, h2, by rw [h1]; exact fl64_err q⟩

/-- **`float(repr(x)) == x`** for the model's `repr`: for every binary64 `x` that is zero or normal, the decimal
    `reprValue x` (what `Decimal(repr(x))` is, forecasts.py:418) rounds back to `x` -/
theorem repr_reads_back {x : Rat} (hx : IsF64 x) (hn : x = 0 ∨ pow2 (-1022) ≤ |x|) : fl64 (reprValue x) = x :=
  reprValue_roundtrip hx hn

/-- **17 significant digits suffice**: if `10^k ≤ |x|` and the decimal `d` is within half a unit of the 17th significant
    digit of the normal binary64 `x`, then `d` reads as `x` (`%.17g`, `%.16e`, and every longer correctly rounded
    expansion) -/
theorem seventeen_digits_read_back {x d : Rat} {k : Int} (hx : IsF64 x) (hn : pow2 (-1022) ≤ |x|)
    (hk : (10 : Rat) ^ k ≤ |x|) (h : |d - x| ≤ (10 : Rat) ^ (k - 16) / 2) : fl64 d = x :=
  fl64_of_17_digits_abs hx hn hk h

/-- any rational within relative distance 2^-54 of a positive normal binary64 reads as it -/
theorem near_reads_back {x d : Rat} (hx : IsF64 x) (hn : pow2 (-1022) ≤ x) (h : |d - x| < x * pow2 (-54)) :
    fl64 d = x := fl64_of_near hx hn h

/-- **the character-level parser reads every well-formed numeral as the number it denotes** (`Numeral`: optional sign,
    integer digits, optional point and fraction digits, optional `e`/`E` exponent with optional sign; any number of
    digits, leading / trailing zeros, bare leading or trailing point) -/
theorem numeral_parses (n : Numeral) (hw : n.WF) : parseBody n.render = some n.value := parseBody_render n hw

/-- … hence a token that spells a numeral loads as the correctly rounded value of that numeral -/
theorem numeral_token_rounded (n : Numeral) (hw : n.WF) (hfin : fabs (fl64 n.value) < f64Limit) :
    npFloat (String.ofList n.render) = some (fl64 n.value) := by
  unfold npFloat parseToken
  simp [parseBody_render n hw, toF64, hfin]

/-- **end to end for numbers**: ANY spelling (any `Numeral`) of a decimal within half a unit of the 17th significant
    digit of a normal binary64 `x` is read by the loader as exactly `x` — `repr`, `%.17g`, `%.17e`, `%.25g`, upper-case
    `E`, explicit `+`, leading zeros, moved point … all load as the double that was written -/
theorem numeral_17_digits_reads_back (n : Numeral) (hw : n.WF) {x : Rat} {k : Int} (hx : IsF64 x)
    (hn : pow2 (-1022) ≤ |x|) (hlim : fabs x < f64Limit) (hk : (10 : Rat) ^ k ≤ |x|)
    (h : |n.value - x| ≤ (10 : Rat) ^ (k - 16) / 2) : npFloat (String.ofList n.render) = some x := by
  have hr := fl64_of_17_digits_abs hx hn hk h
  rw [numeral_token_rounded n hw (by rw [hr]; exact hlim), hr]

/-! ## the forecast loaded from the text -/

/-- `load_ascii` on the text = `load` on the parsed rows with the `repr` decimals of the first row -/
theorem loadText_eq (swap : Bool) (text : String) (r : Row) (rs : List Row) (hp : parseDat text = some (r :: rs)) :
    loadText swap text = load swap (reprValue r.c2) (reprValue r.c3) (r :: rs) := by
  unfold loadText; rw [hp]

/-- a text whose rows form a well-formed file always loads -/
theorem loadText_some (swap : Bool) (text : String) (f : File) (hp : parseDat text = some f) (hw : WellFormed f) :
    ∃ F, loadText swap text = some F := by
  cases f with
  | nil => exact absurd rfl hw.nonempty
  | cons r rs =>
    rw [loadText_eq swap text r rs hp]
    exact ⟨_, load_eq swap _ _ _ hw⟩

/-- **the property, from the characters**: in the forecast loaded from the text, the rate at any point of a row's
    half-open space-magnitude box (lower corner included) is that row's rate -/
theorem rate_lookup_text (text : String) (f : File) (F : Forecast) (hp : parseDat text = some f) (hw : WellFormed f)
    (hl : loadText false text = some F) (r : Row) (hr : r ∈ f) (hflag : r.flag = 1) (lon lat m : Rat)
    (hbox : r.inBox lon lat m) : getRates F lon lat m = some r.rate := by
  cases f with
  | nil => exact absurd rfl hw.nonempty
  | cons r0 rs =>
    rw [loadText_eq false text r0 rs hp] at hl
    exact rate_lookup _ _ _ F hw hl r hr hflag lon lat m hbox

/-- cells flagged 0 lie outside the region of the forecast loaded from the text -/
theorem flag0_outside_text (text : String) (f : File) (F : Forecast) (hp : parseDat text = some f) (hw : WellFormed f)
    (hl : loadText false text = some F) (r : Row) (hr : r ∈ f) (hflag : r.flag ≠ 1) (lon lat : Rat)
    (hsp : r.inBoxSpace lon lat) : getIndexOf F.cells lon lat = none ∧ ∀ m, getRates F lon lat m = none := by
  cases f with
  | nil => exact absurd rfl hw.nonempty
  | cons r0 rs =>
    rw [loadText_eq false text r0 rs hp] at hl
    exact flag0_outside _ _ _ F hw hl r hr hflag lon lat hsp

/-- the magnitudes are the distinct lower magnitude edges of the parsed rows, in file order -/
theorem mags_text (swap : Bool) (text : String) (f : File) (F : Forecast) (hp : parseDat text = some f)
    (hl : loadText swap text = some F) : F.mags = uniqFirst (f.map Row.m0) := by
  cases f with
  | nil => unfold loadText at hl; rw [hp] at hl; cases hl
  | cons r0 rs =>
    rw [loadText_eq swap text r0 rs hp] at hl
    exact mags_are_file_edges swap _ _ _ F hl

/-- the total is the sum of the parsed rate column -/
theorem total_text (swap : Bool) (text : String) (f : File) (F : Forecast) (hp : parseDat text = some f)
    (hl : loadText swap text = some F) : total F = (f.map Row.rate).sum := by
  cases f with
  | nil => unfold loadText at hl; rw [hp] at hl; cases hl
  | cons r0 rs =>
    rw [loadText_eq swap text r0 rs hp] at hl
    exact total_eq_rate_sum swap _ _ _ F hl

/-- the cell size is ONE rounding of the difference of the two `repr` decimals of the first row, each of which reads
    back as the parsed double: `dh = fl64 (reprValue c3 − reprValue c2)`, `fl64 (reprValue c_i) = c_i` -/
theorem dh_text (swap : Bool) (text : String) (r : Row) (rs : List Row) (F : Forecast)
    (hp : parseDat text = some (r :: rs)) (hl : loadText swap text = some F) :
    F.dh = fl64 (reprValue r.c3 - reprValue r.c2) := by
  rw [loadText_eq swap text r rs hp] at hl
  rw [((load_some_iff swap _ _ _ F).mp hl).2]; rfl

/-! ## `csep.load_gridded_forecast`: which calls load -/

/-- `load_ascii` is reached exactly for an existing file with extension `dat` and no loader -/
theorem dispatch_ascii_iff (e : Bool) (ext : String) (l : Option Bool) :
    loadDispatch e ext l = .useAscii ↔ e = true ∧ ext = "dat" ∧ l = none := by
  unfold loadDispatch
  rcases e with _ | _ <;> rcases l with _ | (_ | _) <;> simp <;>
  first
  | done
  | (constructor
     · intro h; split_ifs at h <;> tauto
     · rintro rfl; simp)
  | (split_ifs <;> simp)

/-- the caller's loader is reached exactly for an existing file, a callable loader, and an extension that is not one of
    the three reserved, not-implemented formats (which are refused even with a loader) -/
theorem dispatch_loader_iff (e : Bool) (ext : String) (l : Option Bool) :
    loadDispatch e ext l = .useLoader ↔ e = true ∧ l = some true ∧ ext ≠ "xml" ∧ ext ≠ "h5" ∧ ext ≠ "bin" := by
  unfold loadDispatch
  rcases e with _ | _ <;> rcases l with _ | (_ | _) <;> simp <;>
  first
  | done
  | (constructor
     · intro h; split_ifs at h <;> tauto
     · intro h; rw [if_neg (by tauto)])
  | (split_ifs <;> simp)

/-! ## non-vacuity: a concrete file, as text -/

/-- two cells (the first flagged 0) × two magnitude bins; exponent / bare-point / signed spellings, tabs, a comment line,
    a blank line, a comment tail, no final newline -/
def exText : String :=
  "# Lon_0 Lon_1 Lat_0 Lat_1 z_0 z_1 Mag_0 Mag_1 Rate Flag\n-9.5 -9.4 10.0 10.1 0 30 4.95 5.05 3e-3 0\n" ++
  "-9.5\t-9.4  1.0e1 10.1 0. 30.0 5.05 5.15 .004 0.0 # tail\n\n" ++
  " -9.6 -9.5 10.0 +10.1 0 30 4.95 5.05 1.0E-03 1\n-9.6 -9.5 10.0 10.1 0 30 5.05 5.15 0.002 1.000000e+00"

def exRows : File := [
  ⟨-19/2, -5291729562160333/562949953421312, 10, 5685794529555251/562949953421312, 0, 30, 5573204538870989/1125899906842624, 5685794529555251/1125899906842624, 3458764513820541/1152921504606846976, 0⟩,
  ⟨-19/2, -5291729562160333/562949953421312, 10, 5685794529555251/562949953421312, 0, 30, 5685794529555251/1125899906842624, 2899192260119757/562949953421312, 1152921504606847/288230376151711744, 0⟩,
  ⟨-5404319552844595/562949953421312, -19/2, 10, 5685794529555251/562949953421312, 0, 30, 5573204538870989/1125899906842624, 5685794529555251/1125899906842624, 1152921504606847/1152921504606846976, 1⟩,
  ⟨-5404319552844595/562949953421312, -19/2, 10, 5685794529555251/562949953421312, 0, 30, 5685794529555251/1125899906842624, 2899192260119757/562949953421312, 1152921504606847/576460752303423488, 1⟩]
/-- the text parses to exactly these rows (kernel evaluation of the character-level model) -/
theorem exText_parses : parseDat exText = some exRows := by decide +kernel
example : WellFormed exRows := by decide +kernel
-- the cell size: 10.1 − 10.0 in decimals, rounded once: the double 0.1 (the float difference would be 0.09999999999999964)
example : ∀ F, loadText false exText = some F → F.dh = 3602879701896397/36028797018963968 := fun F hl => by
  rw [dh_text false exText _ _ F exText_parses hl]; decide +kernel
-- `rate_lookup_text` applied: lower corner of the second cell (−9.6 as a double), lower edge of the second bin (5.05 as a
-- double): the rate written `0.002`, as the double nearest to it
example : ∀ F, loadText false exText = some F →
    getRates F (-5404319552844595/562949953421312) 10 (5685794529555251/1125899906842624)
      = some (1152921504606847/576460752303423488) := fun F hl =>
  rate_lookup_text exText exRows F exText_parses (by decide +kernel) hl
    ⟨-5404319552844595/562949953421312, -19/2, 10, 5685794529555251/562949953421312, 0, 30, 5685794529555251/1125899906842624, 2899192260119757/562949953421312, 1152921504606847/576460752303423488, 1⟩
    (by decide +kernel) rfl _ _ _ (by unfold Row.inBox Row.inBoxSpace; decide +kernel)
-- the first cell is flagged 0: outside, by `flag0_outside_text`
example : ∀ F, loadText false exText = some F → ∀ m, getRates F (-945/100) 10 m = none := fun F hl =>
  (flag0_outside_text exText exRows F exText_parses (by decide +kernel) hl
    ⟨-19/2, -5291729562160333/562949953421312, 10, 5685794529555251/562949953421312, 0, 30, 5573204538870989/1125899906842624, 5685794529555251/1125899906842624, 3458764513820541/1152921504606846976, 0⟩
    (by decide +kernel) (by decide +kernel) _ _ (by unfold Row.inBoxSpace; decide +kernel)).2
-- a numeral, its characters, its value; `numeral_17_digits_reads_back` applied to `%.17g` of the double 0.1
example : (⟨some true, [1, 2], true, [5], some (true, some false, [0, 2])⟩ : Numeral).render = "-12.5E+02".toList := by
  decide +kernel
example : (⟨some true, [1, 2], true, [5], some (true, some false, [0, 2])⟩ : Numeral).value = -1250 := by decide +kernel
example : npFloat "0.10000000000000001" = some (3602879701896397/36028797018963968) :=
  numeral_17_digits_reads_back ⟨none, [0], true, [1, 0, 0, 0, 0, 0, 0, 0, 0, 0, 0, 0, 0, 0, 0, 0, 1], none⟩
    ⟨by decide, by decide, by decide, by decide, by intro u s ds h; cases h⟩ (k := -1)
    (by unfold IsF64; decide +kernel) (by decide +kernel) (by decide +kernel) (by decide +kernel) (by decide +kernel)
example : reprValue (3602879701896397/36028797018963968) = 1/10 := by decide +kernel
example : IsF64 (3602879701896397/36028797018963968 : Rat) := by unfold IsF64; decide +kernel
example : pyFloat " 1_0.5e+1 " = some 105 := by decide +kernel
example : npFloat "1_0" = none ∧ pyFloat "1e400" = none ∧ pyFloat "1e" = none ∧ pyFloat ".e1" = none := by decide +kernel
example : loadDispatch true "dat" none = .useAscii ∧ loadDispatch true "xml" (some true) = .notImplemented ∧
    loadDispatch true "txt" (some true) = .useLoader ∧ loadDispatch false "dat" none = .fileNotFound := by decide

/-! ### the option handling of `load_gridded_forecast` as one decision table -/

/-- the reserved extensions -/
def reserved (ext : String) : Prop := ext = "xml" ∨ ext = "h5" ∨ ext = "bin"
instance (ext : String) : Decidable (reserved ext) := by unfold reserved; infer_instance

theorem contains4 (ext : String) : (["dat", "xml", "h5", "bin"].contains ext) = true ↔ ext = "dat" ∨ reserved ext := by
  simp [reserved]

theorem contains3 (ext : String) : (["xml", "h5", "bin"].contains ext) = true ↔ reserved ext := by
  simp [reserved]

/-- **`load_gridded_forecast` decides every call**: the outcome as a function of (file exists, extension, loader kind), one
    line per case of the decision table — the five cases are exhaustive and mutually exclusive -/
theorem dispatch_table (e : Bool) (ext : String) (l : Option Bool) :
    loadDispatch e ext l =
      if e = false then .fileNotFound
      else if l = some false then .attributeError
      else if reserved ext then .notImplemented
      else if l = some true then .useLoader
      else if ext = "dat" then .useAscii else .attributeError := by
  unfold loadDispatch
  have h4 := contains4 ext
  have h3 := contains3 ext
  rcases e with _ | _ <;> rcases l with _ | (_ | _) <;> by_cases hr : reserved ext <;> by_cases hd : ext = "dat" <;>
    simp_all

example : loadDispatch true "txt" none = .attributeError ∧ loadDispatch true "xml" (some true) = .notImplemented ∧
    loadDispatch false "dat" none = .fileNotFound ∧ loadDispatch true "dat" none = .useAscii ∧
    loadDispatch true "forecast" (some true) = .useLoader := by decide

end ForecastFile.Text
